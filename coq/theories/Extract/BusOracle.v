(* Extraction of the H models of proc/comp/bus.go, queue.go, broadcast.go to
   OCaml: the oracle of the C14 correspondence check (tools/oracle/bus_main.ml).
   ExtrOcamlBasic only; Z, positive and nat stay the Coq datatypes. *)
From Coq Require Import Extraction ExtrOcamlBasic ZArith List.
From Maj Require Import Base.Outcome Comp.Bus Comp.Queue.
Extraction Language OCaml.
Extraction "bus_oracle.ml"
  s_new s_step s_canadd s_isempty
  b_new b_step b_inlength b_outlength b_isempty b_pendingread b_remainingtoadd b_canadd b_canget
  pred_of
  q_new q_step q_length q_isfull
  bc_new bc_notify bc_read bc_commit.
