(* Extraction of the scoreboard model (Comp/Scoreboard.v) for the correspondence check of C04. *)
From Coq Require Import Extraction ExtrOcamlBasic ZArith List.
From Maj Require Import Comp.Scoreboard.
(* util.ml of the drivers mentions the nat constructors: make sure nat is extracted *)
Definition nat_dummy (n : nat) : nat := S n.
Extraction Language OCaml.
Extraction "sb_oracle.ml" sb0 add_pending delete_pending add_pending_write delete_pending_write
  is_write_hazard hazards3 flush pw pr nat_dummy.
