(* C02: the model generated from risc/opcodes.go (Gen/Opcodes.v) refines the
   RV32IM specification Isa/Spec.v, for all operand values. *)
From Coq Require Import ZArith List Bool Lia.
From Maj Require Import Base.Outcome Base.GoInt Base.GoTypes.
From Maj Require Import Gen.BytesGo Gen.RiscTables Gen.Opcodes Bytes.Proofs Isa.Spec Isa.Embed.
Import ListNotations.
Open Scope Z_scope.

(* ------------------------------------------------------------------ *)
(* the specification's arithmetic in terms of wrapS / wrapU             *)

Lemma s_wrap x : s x = wrapS 32 x.
Proof.
  unfold s, wrapS, M32, H32. change (2^(32-1)) with 2147483648. change (2^32) with 4294967296.
  destruct (Z.ltb_spec (x mod 4294967296) 2147483648); lia.
Qed.
Lemma u_wrap x : u x = wrapU 32 x.
Proof. reflexivity. Qed.
Lemma s8_wrap x : s8 x = wrapS 8 x.
Proof.
  unfold s8, wrapS. change (2^(8-1)) with 128. change (2^8) with 256.
  destruct (Z.ltb_spec (x mod 256) 128); lia.
Qed.
Lemma s16_wrap x : s16 x = wrapS 16 x.
Proof.
  unfold s16, wrapS. change (2^(16-1)) with 32768. change (2^16) with 65536.
  destruct (Z.ltb_spec (x mod 65536) 32768); lia.
Qed.
Lemma u8_wrap x : u8 x = wrapU 8 x.
Proof. reflexivity. Qed.

Lemma wrapS32_sum x : exists k, wrapS 32 x = x + 4294967296 * k.
Proof.
  exists (- ((x + 2147483648) / 4294967296)). unfold wrapS.
  change (2^(32-1)) with 2147483648. change (2^32) with 4294967296. lia.
Qed.
(* inner wraps as "+ 2^32 * k" so that lia can reason modulo 2^32 *)
Ltac gen_wraps :=
  repeat match goal with
         | |- context [wrapS 32 ?x] =>
             let k := fresh "k" in let H := fresh "Hk" in
             destruct (wrapS32_sum x) as [k H]; rewrite H; clear H
         end.

Ltac wrap_lia0 := repeat rewrite s_wrap; try unfold u; apply wrapS_eq_mod; [lia|]; try unfold wrapU;
                  change M32 with 4294967296; change (2^32) with 4294967296; gen_wraps; lia.

Lemma s_id x : int32 x -> s x = x.
Proof. intros. rewrite s_wrap. apply wrapS_id; [lia|assumption]. Qed.

Lemma wrapS32_u_add a b : wrapS 32 (wrapU 32 a + wrapU 32 b) = wrapS 32 (a + b).
Proof. apply wrapS_eq_mod; [lia|]. unfold wrapU. rewrite <- Zplus_mod. reflexivity. Qed.
Lemma wrapS32_u_sub a b : wrapS 32 (wrapU 32 a - wrapU 32 b) = wrapS 32 (a - b).
Proof. apply wrapS_eq_mod; [lia|]. unfold wrapU. rewrite <- Zminus_mod. reflexivity. Qed.
Lemma wrapS32_u_mul a b : wrapS 32 (wrapU 32 a * wrapU 32 b) = wrapS 32 (a * b).
Proof. apply wrapS_eq_mod; [lia|]. unfold wrapU. rewrite <- Zmult_mod. reflexivity. Qed.
Lemma wrapS32_u_mul_l a k : wrapS 32 (wrapU 32 a * k) = wrapS 32 (a * k).
Proof. apply wrapS_eq_mod; [lia|]. unfold wrapU. rewrite Zmult_mod_idemp_l. reflexivity. Qed.

(* bitwise operators commute with the unsigned reading *)
Lemma u_testbit x i : 0 <= i -> Z.testbit (wrapU 32 x) i = if i <? 32 then Z.testbit x i else false.
Proof. intros. apply wrapU_testbit; lia. Qed.

Lemma bitop_u (op : Z -> Z -> Z) (f : bool -> bool -> bool) :
  f false false = false ->
  (forall a b i, Z.testbit (op a b) i = f (Z.testbit a i) (Z.testbit b i)) ->
  forall a b, int32 a -> int32 b -> op a b = wrapS 32 (op (wrapU 32 a) (wrapU 32 b)).
Proof.
  intros Hf Hop a b Ha Hb. apply Z.bits_inj'. intros i Hi.
  rewrite wrapS_testbit by lia. change (32 - 1) with 31.
  rewrite !Hop. rewrite !u_testbit by lia.
  replace (Z.min i 31 <? 32) with true by (symmetry; apply Z.ltb_lt; lia).
  destruct (Z.le_gt_cases 31 i).
  - rewrite Z.min_r by lia.
    rewrite (inS_testbit_high 32 a i), (inS_testbit_high 32 b i) by (assumption || lia). reflexivity.
  - rewrite Z.min_l by lia. reflexivity.
Qed.

Lemma land_u a b : int32 a -> int32 b -> Z.land a b = wrapS 32 (Z.land (wrapU 32 a) (wrapU 32 b)).
Proof. intros Ha Hb. apply (bitop_u Z.land andb); [reflexivity | intros; apply Z.land_spec | assumption | assumption]. Qed.
Lemma lor_u a b : int32 a -> int32 b -> Z.lor a b = wrapS 32 (Z.lor (wrapU 32 a) (wrapU 32 b)).
Proof. intros Ha Hb. apply (bitop_u Z.lor orb); [reflexivity | intros; apply Z.lor_spec | assumption | assumption]. Qed.
Lemma lxor_u a b : int32 a -> int32 b -> Z.lxor a b = wrapS 32 (Z.lxor (wrapU 32 a) (wrapU 32 b)).
Proof. intros Ha Hb. apply (bitop_u Z.lxor xorb); [reflexivity | intros; apply Z.lxor_spec | assumption | assumption]. Qed.

Lemma auipc_value pc imm :
  wrapS 32 (pc + wrapS 32 (imm * 2^12)) = wrapS 32 (wrapU 32 pc + wrapU 32 imm * 4096).
Proof.
  apply wrapS_eq_mod; [lia|]. unfold wrapU. change 4096 with (2^12).
  set (M := 2^32). assert (HM : M <> 0) by (unfold M; lia).
  transitivity ((pc mod M + (imm * 2^12) mod M) mod M).
  - rewrite (Zplus_mod pc). fold M. rewrite (wrapS_mod 32) by lia. reflexivity.
  - rewrite (Zplus_mod (pc mod M) (imm mod M * 2^12)). rewrite Z.mod_mod by assumption.
    rewrite (Zmult_mod_idemp_l imm). reflexivity.
Qed.

Lemma rem_in_range a b : int32 a -> int32 b -> b <> 0 -> int32 (Z.rem a b).
Proof.
  unfold inS. change (2^(32-1)) with 2147483648. intros Ha Hb Hb0.
  pose proof (Z.rem_bound_abs a b Hb0). lia.
Qed.

(* shift amount: x & 31 on the unsigned reading is x mod 32 *)
Lemma shamt_land x : Z.land (wrapU 32 x) 31 = shamt x.
Proof.
  unfold shamt, u, wrapU, M32. change 31 with (Z.ones 5). rewrite Z.land_ones by lia. reflexivity.
Qed.
Lemma shamt_range x : 0 <= shamt x < 32.
Proof. unfold shamt. apply Z.mod_pos_bound. lia. Qed.

(* jalr: clearing bit 0 *)
Lemma ldiff_1 x : Z.ldiff x 1 = x - x mod 2.
Proof.
  change 1 with (Z.ones 1) at 1. rewrite Z.ldiff_ones_r by lia.
  rewrite Z.shiftr_div_pow2, Z.shiftl_mul_pow2 by lia. change (2^1) with 2.
  pose proof (Z.div_mod x 2 ltac:(lia)). lia.
Qed.

Lemma jalr_target a imm :
  Z.ldiff (wrapS 32 (a + imm)) 1 =
  s (wrapU 32 a + wrapU 32 imm - (wrapU 32 a + wrapU 32 imm) mod 2).
Proof.
  rewrite ldiff_1, s_wrap.
  set (t := wrapU 32 a + wrapU 32 imm). set (x := wrapS 32 (a + imm)).
  assert (Hx : int32 x) by (apply wrapS_range; lia).
  assert (E : x mod 2^32 = t mod 2^32).
  { unfold x, t. rewrite wrapS_mod by lia. unfold wrapU. rewrite <- Zplus_mod. reflexivity. }
  assert (E2 : x mod 2 = t mod 2).
  { change (2^32) with 4294967296 in E. lia. }
  rewrite <- E2.
  assert (Hr : int32 (x - x mod 2)).
  { apply int32_bounds in Hx. apply int32_bounds.
    pose proof (Z.mod_pos_bound x 2 ltac:(lia)) as Hm.
    destruct (Z.eq_dec x (-2147483648)) as [Ex|Ex].
    - rewrite Ex. vm_compute. split; congruence.
    - clear E E2. generalize dependent (x mod 2). intros m Hm.
      unfold inS in Hx. change (2^(32-1)) with 2147483648 in Hx. lia. }
  rewrite <- (wrapS_id 32 (x - x mod 2)) at 1 by (lia || assumption).
  apply wrapS_eq_mod; [lia|].
  rewrite (Zminus_mod x), (Zminus_mod t), E. reflexivity.
Qed.

(* bytes of a stored word *)
Lemma byte_k_byte_of v k : 0 <= k < 4 -> byte_k v k = byte_of v k.
Proof.
  intros Hk. unfold byte_k, byte_of. rewrite s8_wrap. change (u v) with (wrapU 32 v).
  apply wrapS_eq_mod; [lia|].
  rewrite Z.mod_mod by (change (2^8) with 256; lia).
  change 256 with (2^8) at 1. rewrite <- Z.pow_mul_r by lia.
  apply Z.bits_inj'. intros i Hi.
  destruct (Z.ltb_spec i 8).
  - rewrite !Z.mod_pow2_bits_low by lia.
    rewrite Z.shiftr_spec by lia. rewrite Z.div_pow2_bits by lia.
    rewrite u_testbit by lia.
    replace (i + 8 * k <? 32) with true by (symmetry; apply Z.ltb_lt; lia). reflexivity.
  - rewrite !Z.mod_pow2_bits_high by lia. reflexivity.
Qed.

Lemma sb_byte v : wrapS 8 v = byte_of v 0.
Proof.
  rewrite <- byte_k_byte_of by lia. unfold byte_k. rewrite Z.shiftr_0_r. reflexivity.
Qed.

(* loads *)
Lemma lw_value b0 b1 b2 b3 :
  join_word b0 b1 b2 b3 =
  s (u8 b0 + 256 * u8 b1 + 65536 * u8 b2 + 16777216 * u8 b3).
Proof. rewrite s_wrap. unfold join_word, u8. f_equal. change (2^8) with 256. unfold wrapU. change (2^8) with 256. ring. Qed.

Lemma lh_value b0 b1 :
  wrapS 16 (join_word b0 b1 0 0) = s16 (u8 b0 + 256 * u8 b1).
Proof.
  rewrite s16_wrap. f_equal. unfold join_word, u8.
  pose proof (u8_range b0). pose proof (u8_range b1). change (2^8) with 256 in *.
  change (wrapU 8 0) with 0. rewrite Z.mul_0_r, !Z.add_0_r.
  unfold wrapU in *. change (2^8) with 256 in *.
  apply wrapS_id; [lia|]. apply int32_bounds. lia.
Qed.

Lemma lb_value b : int8 b -> b = s8 (u8 b).
Proof. intros. rewrite s8_wrap, u8_wrap. symmetry. apply wrapS_of_U; [lia|assumption]. Qed.

(* ------------------------------------------------------------------ *)
(* embedding: see Isa/Embed.v *)

Definition sinstr_of (i : instr) : sinstr :=
  match i with
  | I_add o => SAdd (add_rd o) (add_rs1 o) (add_rs2 o)
  | I_addi o => SAddi (addi_rd o) (addi_rs o) (addi_imm o)
  | I_and o => SAnd (and_rd o) (and_rs1 o) (and_rs2 o)
  | I_andi o => SAndi (andi_rd o) (andi_rs o) (andi_imm o)
  | I_auipc o => SAuipc (auipc_rd o) (auipc_imm o)
  | I_beq o => SBeq (beq_rs1 o) (beq_rs2 o) (beq_label o)
  | I_beqz o => SBeqz (beqz_rs o) (beqz_label o)
  | I_bge o => SBge (bge_rs1 o) (bge_rs2 o) (bge_label o)
  | I_bgeu o => SBgeu (bgeu_rs1 o) (bgeu_rs2 o) (bgeu_label o)
  | I_ble o => SBle (ble_rs1 o) (ble_rs2 o) (ble_label o)
  | I_blt o => SBlt (blt_rs1 o) (blt_rs2 o) (blt_label o)
  | I_bltu o => SBltu (bltu_rs1 o) (bltu_rs2 o) (bltu_label o)
  | I_bne o => SBne (bne_rs1 o) (bne_rs2 o) (bne_label o)
  | I_bnez o => SBnez (bnez_rs o) (bnez_label o)
  | I_div o => SDiv (div_rd o) (div_rs1 o) (div_rs2 o)
  | I_j o => SJ (j_label o)
  | I_jal o => SJal (jal_rd o) (jal_label o)
  | I_jalr o => SJalr (jalr_rd o) (jalr_rs o) (jalr_imm o)
  | I_lui o => SLui (lui_rd o) (lui_imm o)
  | I_lb o => SLb (lb_rd o) (lb_offset o) (lb_rs o)
  | I_lh o => SLh (lh_rd o) (lh_offset o) (lh_rs o)
  | I_li o => SLi (li_rd o) (li_imm o)
  | I_lw o => SLw (lw_rd o) (lw_offset o) (lw_rs o)
  | I_nop _ => SNop
  | I_mul o => SMul (mul_rd o) (mul_rs1 o) (mul_rs2 o)
  | I_mv o => SMv (mv_rd o) (mv_rs o)
  | I_or o => SOr (or_rd o) (or_rs1 o) (or_rs2 o)
  | I_ori o => SOri (ori_rd o) (ori_rs o) (ori_imm o)
  | I_rem o => SRem (rem_rd o) (rem_rs1 o) (rem_rs2 o)
  | I_ret _ => SRet
  | I_sb o => SSb (sb_rs o) (sb_offset o) (sb_rd o)
  | I_sh o => SSh (sh_rs o) (sh_offset o) (sh_rd o)
  | I_sll o => SSll (sll_rd o) (sll_rs1 o) (sll_rs2 o)
  | I_slli o => SSlli (slli_rd o) (slli_rs o) (slli_imm o)
  | I_slt o => SSlt (slt_rd o) (slt_rs1 o) (slt_rs2 o)
  | I_sltu o => SSltu (sltu_rd o) (sltu_rs1 o) (sltu_rs2 o)
  | I_slti o => SSlti (slti_rd o) (slti_rs o) (slti_imm o)
  | I_sra o => SSra (sra_rd o) (sra_rs1 o) (sra_rs2 o)
  | I_srai o => SSrai (srai_rd o) (srai_rs o) (srai_imm o)
  | I_srl o => SSrl (srl_rd o) (srl_rs1 o) (srl_rs2 o)
  | I_srli o => SSrli (srli_rd o) (srli_rs o) (srli_imm o)
  | I_sub o => SSub (sub_rd o) (sub_rs1 o) (sub_rs2 o)
  | I_sw o => SSw (sw_rs o) (sw_offset o) (sw_rd o)
  | I_xor o => SXor (xor_rd o) (xor_rs1 o) (xor_rs2 o)
  | I_xori o => SXori (xori_rd o) (xori_rs o) (xori_imm o)
  end.

Lemma IsRegisterChange_pair rd v : IsRegisterChange rd v = reg_pair rd v.
Proof. reflexivity. Qed.

Lemma reg_pair_eq rd v v' : v = v' -> reg_pair rd v = reg_pair rd v'.
Proof. intros ->; reflexivity. Qed.

(* ------------------------------------------------------------------ *)
(* the refinement theorem                                               *)

Lemma reg_case rd V V' :
  V = V' ->
  (let '(register, value) := IsRegisterChange rd V in
   Ok (mk_execution true register value false [] 0 false false))
  = omap embed (Ok (EReg rd V')).
Proof.
  intros ->. unfold IsRegisterChange, omap, embed, reg_pair. destruct (rd =? 0); reflexivity.
Qed.

Lemma reg_case2 rd V V' :
  V = V' ->
  bind (let '(register, value) := IsRegisterChange rd V in Ok (register, value))
       (fun x => let '(register, value) := x in
                 Ok (mk_execution true register value false [] 0 false false))
  = omap embed (Ok (EReg rd V')).
Proof.
  intros ->. unfold IsRegisterChange, omap, embed, reg_pair. destruct (rd =? 0); reflexivity.
Qed.

Lemma link_case rd V V' a a' :
  V = V' -> a = a' ->
  (let '(register, value) := IsRegisterChange rd V in
   Ok (mk_execution true register value false [] a true false))
  = omap embed (Ok (ELink rd V' a')).
Proof.
  intros -> ->. unfold IsRegisterChange, omap, embed, reg_pair. destruct (rd =? 0); reflexivity.
Qed.

Lemma branch_case (c c' : bool) labels l :
  c = c' ->
  (if c then
     let '(addr, ok) := match labels l with Some v => (v, true) | None => (0, false) end in
     if negb ok then Err ELabel else Ok (mk_execution false 0 0 false [] addr true false)
   else Ok (mk_execution false 0 0 false [] 0 false false))
  = omap embed (branch c' labels l).
Proof.
  intros ->. unfold branch. destruct c'; [|reflexivity]. destruct (labels l); reflexivity.
Qed.

Lemma geb_swap a b : (b <=? a) = (b <=? a). Proof. reflexivity. Qed.

Ltac unf :=
  cbv beta iota zeta delta [instr_Run sinstr_of exec imm_of mem_ok];
  autounfold with opcodes; cbv beta zeta.

Ltac s_ids Hrr :=
  repeat match goal with
         | |- context [s (?f ?r)] => rewrite (s_id (f r)) by apply Hrr
         end.

Section Refinement.
  Variables (rr : Z -> Z) (labels : Z -> option Z) (pc : Z) (mem : list Z) (seq : Z).
  Hypothesis Hrr : forall r, int32 (rr r).
  Hypothesis Hpc : int32 pc.

  Ltac val := unfold addS, subS, mulS, quoS, remS, shlS, shrS, shlU, shrU, addU;
              rewrite ?s_wrap, ?u_wrap.
  (* fallback for linear 32-bit arithmetic written differently (operands commuted,
     re-associated, intermediate wraps): both sides are equal modulo 2^32 *)
  Ltac wrap_lia := repeat rewrite s_wrap; try unfold u; apply wrapS_eq_mod; [lia|]; try unfold wrapU;
                   change M32 with 4294967296; change (2^32) with 4294967296; gen_wraps; lia.
  (* fallback for a comparison written differently (operands swapped, >= for <=, ...) *)
  Ltac cond_lia := first [reflexivity
                         | (try unfold u; change M32 with 4294967296; apply Bool.eq_true_iff_eq;
                            rewrite ?negb_true_iff, ?Z.eqb_eq, ?Z.eqb_neq, ?Z.ltb_lt, ?Z.leb_le, ?Z.ltb_ge, ?Z.leb_gt,
                                    ?Z.gtb_lt, ?Z.geb_le; lia)].
  Ltac wrap_mul := repeat rewrite s_wrap; try unfold u; apply wrapS_eq_mod; [lia|]; try unfold wrapU;
                   change M32 with (2^32);
                   rewrite <- ?Zmult_mod, ?Zmult_mod_idemp_l, ?Zmult_mod_idemp_r; f_equal; ring.

  Theorem run_refines_spec i :
    int32 (imm_of (sinstr_of i)) -> mem_ok (sinstr_of i) mem ->
    instr_Run i rr labels pc mem seq = omap embed (exec (sinstr_of i) rr labels pc mem).
  Proof.
    intros Himm Hmem. destruct i; unf.
    - (* add *) apply reg_case. val. first [symmetry; apply wrapS32_u_add | wrap_lia].
    - (* addi *) apply reg_case. val. first [symmetry; apply wrapS32_u_add | wrap_lia].
    - (* and *) apply reg_case. rewrite s_wrap. apply land_u; apply Hrr.
    - (* andi *) apply reg_case. rewrite s_wrap. apply land_u; [apply Hrr | exact Himm].
    - (* auipc *) apply reg_case. val. apply auipc_value.
    - (* beq *) apply branch_case. s_ids Hrr. cond_lia.
    - (* beqz *) apply branch_case. s_ids Hrr. cond_lia.
    - (* bge *) apply branch_case. s_ids Hrr. cond_lia.
    - (* bgeu *) apply branch_case. cond_lia.
    - (* ble *) apply branch_case. s_ids Hrr. cond_lia.
    - (* blt *) apply branch_case. s_ids Hrr. cond_lia.
    - (* bltu *) apply branch_case. cond_lia.
    - (* bne *) apply branch_case. s_ids Hrr. cond_lia.
    - (* bnez *) apply branch_case. s_ids Hrr. cond_lia.
    - (* div *) s_ids Hrr. destruct (rr (div_rs2 o) =? 0) eqn:E; [reflexivity|].
      unfold guard. cbn [negb]. apply reg_case. val. reflexivity.
    - (* j *) destruct (labels (j_label o)); reflexivity.
    - (* jal *) destruct (labels (jal_label o)); [|reflexivity]. cbn [negb].
      apply link_case; [|reflexivity]. val. reflexivity.
    - (* jalr *) apply link_case; [val; reflexivity|]. unfold addS. apply jalr_target.
    - (* lui *) apply reg_case. val. change 4096 with (2^12). symmetry. apply wrapS32_u_mul_l.
    - (* lb *) destruct Hmem as [Hall Hlen]. destruct mem as [|b0 [|? ?]]; try discriminate Hlen.
      unfold guard. cbn [length Z.of_nat Z.leb Z.ltb Z.compare andb Pos.of_succ_nat Z.to_nat nth].
      apply reg_case. apply lb_value. inversion Hall; assumption.
    - (* lh *) destruct Hmem as [Hall Hlen].
      destruct mem as [|b0 [|b1 [|? ?]]]; try discriminate Hlen.
      unfold guard. cbn [length Z.of_nat Z.leb Z.ltb Z.compare Pos.compare Pos.compare_cont andb Pos.of_succ_nat Pos.succ Z.to_nat Pos.to_nat Pos.iter_op Nat.add nth].
      inversion Hall as [|? ? H0 Hall']; subst. inversion Hall' as [|? ? H1 ?]; subst.
      rewrite I32FromBytes_spec by (assumption || (apply int8_bounds; lia)). cbn [bind].
      apply reg_case. apply lh_value.
    - (* li *) apply reg_case. symmetry. apply s_id. exact Himm.
    - (* lw *) destruct Hmem as [Hall Hlen].
      destruct mem as [|b0 [|b1 [|b2 [|b3 [|? ?]]]]]; try discriminate Hlen.
      unfold guard. cbn [length Z.of_nat Z.leb Z.ltb Z.compare Pos.compare Pos.compare_cont andb Pos.of_succ_nat Pos.succ Z.to_nat Pos.to_nat Pos.iter_op Nat.add nth].
      inversion Hall as [|? ? H0 Hall1]; subst. inversion Hall1 as [|? ? H1 Hall2]; subst.
      inversion Hall2 as [|? ? H2 Hall3]; subst. inversion Hall3 as [|? ? H3 ?]; subst.
      rewrite I32FromBytes_spec by assumption. cbn [bind].
      apply reg_case. apply lw_value.
    - (* nop *) reflexivity.
    - (* mul *) apply reg_case. val. first [symmetry; apply wrapS32_u_mul | wrap_mul].
    - (* mv *) apply reg_case. symmetry. apply s_id. apply Hrr.
    - (* or *) apply reg_case. rewrite s_wrap. apply lor_u; apply Hrr.
    - (* ori *) apply reg_case. rewrite s_wrap. apply lor_u; [apply Hrr | exact Himm].
    - (* rem *) s_ids Hrr. destruct (rr (rem_rs2 o) =? 0) eqn:E; [reflexivity|].
      unfold guard. cbn [negb]. apply reg_case. val.
      symmetry. apply wrapS_id; [lia|]. apply rem_in_range; try apply Hrr. apply Z.eqb_neq; exact E.
    - (* ret *) reflexivity.
    - (* sb *) unfold omap, embed. f_equal. f_equal. unfold addS.
      first [ rewrite s_wrap, !u_wrap, wrapS32_u_add; rewrite sb_byte; reflexivity
            | rewrite sb_byte; repeat (f_equal; try reflexivity); wrap_lia ].
    - (* sh *) rewrite BytesFromLowBits_spec by apply Hrr. cbn [bind a4_0 a4_1].
      unfold omap, embed. f_equal. f_equal. unfold addS.
      first [ rewrite !s_wrap, !u_wrap, wrapS32_u_add; rewrite !byte_k_byte_of by lia; reflexivity
            | rewrite !byte_k_byte_of by lia; repeat (f_equal; try reflexivity); wrap_lia ].
    - (* sll *) apply reg_case. val. rewrite shamt_land. symmetry. apply wrapS32_u_mul_l.
    - (* slli *) apply reg_case. val. rewrite shamt_land. symmetry. apply wrapS32_u_mul_l.
    - (* slt *) s_ids Hrr. destruct (rr (slt_rs1 o) <? rr (slt_rs2 o)); apply reg_case2; reflexivity.
    - (* sltu *) change (u (rr (sltu_rs1 o))) with (wrapU 32 (rr (sltu_rs1 o))).
      change (u (rr (sltu_rs2 o))) with (wrapU 32 (rr (sltu_rs2 o))).
      destruct (wrapU 32 (rr (sltu_rs1 o)) <? wrapU 32 (rr (sltu_rs2 o))); apply reg_case2; reflexivity.
    - (* slti *) s_ids Hrr. rewrite (s_id (slti_imm o)) by exact Himm.
      destruct (rr (slti_rs o) <? slti_imm o); apply reg_case2; reflexivity.
    - (* sra *) apply reg_case. val. rewrite shamt_land. pose proof (shamt_range (rr (sra_rs2 o))).
      rewrite Z.shiftr_div_pow2 by lia. rewrite wrapS_id by (lia || apply Hrr). reflexivity.
    - (* srai *) apply reg_case. val. rewrite shamt_land. pose proof (shamt_range (srai_imm o)).
      rewrite Z.shiftr_div_pow2 by lia. rewrite wrapS_id by (lia || apply Hrr). reflexivity.
    - (* srl *) apply reg_case. val. rewrite shamt_land. pose proof (shamt_range (rr (srl_rs2 o))).
      rewrite Z.shiftr_div_pow2 by lia. reflexivity.
    - (* srli *) apply reg_case. val. rewrite shamt_land. pose proof (shamt_range (srli_imm o)).
      rewrite Z.shiftr_div_pow2 by lia. reflexivity.
    - (* sub *) apply reg_case. val. first [symmetry; apply wrapS32_u_sub | wrap_lia].
    - (* sw *) rewrite BytesFromLowBits_spec by apply Hrr. cbn [bind a4_0 a4_1 a4_2 a4_3].
      unfold omap, embed. f_equal. f_equal. unfold addS.
      first [ rewrite !s_wrap, !u_wrap, wrapS32_u_add; rewrite !byte_k_byte_of by lia; reflexivity
            | rewrite !byte_k_byte_of by lia; repeat (f_equal; try reflexivity); wrap_lia ].
    - (* xor *) apply reg_case. rewrite s_wrap. apply lxor_u; apply Hrr.
    - (* xori *) apply reg_case. rewrite s_wrap. apply lxor_u; [apply Hrr | exact Himm].
  Qed.
End Refinement.

(* ------------------------------------------------------------------ *)
(* declared register sets and memory addresses                          *)

Theorem read_registers_exact i : instr_ReadRegisters i = reads (sinstr_of i).
Proof. destruct i; reflexivity. Qed.

Theorem write_registers_exact i : instr_WriteRegisters i = writes (sinstr_of i).
Proof. destruct i; reflexivity. Qed.

Theorem memory_read_exact i rr seq : instr_MemoryRead i rr seq = load_addrs (sinstr_of i) rr.
Proof.
  destruct i; try reflexivity;
    cbv beta iota zeta delta [instr_MemoryRead sinstr_of load_addrs]; autounfold with opcodes; cbv beta zeta;
    unfold addS;
    first [ rewrite !s_wrap, !u_wrap, wrapS32_u_add; reflexivity
          | repeat (f_equal; try reflexivity); wrap_lia0 ].
Qed.

Theorem memory_write_exact i rr seq : instr_MemoryWrite i rr seq = store_addrs (sinstr_of i) rr.
Proof.
  destruct i; try reflexivity;
    cbv beta iota zeta delta [instr_MemoryWrite sinstr_of store_addrs]; autounfold with opcodes; cbv beta zeta;
    unfold addS;
    first [ rewrite !s_wrap, !u_wrap, wrapS32_u_add; reflexivity
          | repeat (f_equal; try reflexivity); wrap_lia0 ].
Qed.

(* the effect depends on the registers in [reads] only *)
Theorem spec_reads_sound si rr1 rr2 labels pc mem :
  (forall r, In r (reads si) -> rr1 r = rr2 r) ->
  exec si rr1 labels pc mem = exec si rr2 labels pc mem /\
  load_addrs si rr1 = load_addrs si rr2 /\ store_addrs si rr1 = store_addrs si rr2.
Proof.
  intros H. destruct si; cbn [reads In] in H; cbn [exec load_addrs store_addrs];
    repeat match goal with
           | H : forall r, ?x = r \/ _ -> _ |- _ =>
               let E := fresh "E" in
               pose proof (H x (or_introl eq_refl)) as E;
               let H' := fresh "H" in
               assert (H' := fun r (p : _) => H r (or_intror p)); clear H; cbn beta in H'
           end; repeat match goal with E : rr1 _ = rr2 _ |- _ => rewrite E; clear E end; auto.
Qed.

(* the only register an instruction can change is the one it declares *)
Theorem spec_writes_sound si rr labels pc mem e :
  exec si rr labels pc mem = Ok e ->
  match e with
  | EReg rd _ | ELink rd _ _ => writes si = [rd]
  | _ => writes si = []
  end.
Proof.
  destruct si; cbn [exec writes]; unfold branch; intros H;
    repeat match type of H with
           | context [if ?c then _ else _] => destruct c
           | context [match ?c with Some _ => _ | None => _ end] => destruct c
           end; try discriminate; injection H as <-; reflexivity.
Qed.

(* a store changes exactly the declared addresses *)
Theorem spec_store_addrs si rr labels pc mem bs :
  exec si rr labels pc mem = Ok (EStore bs) -> map fst bs = store_addrs si rr.
Proof.
  destruct si; cbn [exec store_addrs]; unfold branch; intros H;
    repeat match type of H with
           | context [if ?c then _ else _] => destruct c
           | context [match ?c with Some _ => _ | None => _ end] => destruct c
           end; try discriminate; injection H as <-; reflexivity.
Qed.

(* x0: a write to register 0 is turned into the write of 0 *)
Theorem zero_register_write e :
  Register (embed e) = 0 -> RegisterValue (embed e) = 0.
Proof.
  destruct e; cbn [embed]; try reflexivity; unfold reg_pair;
    destruct (rd =? 0) eqn:E; cbn [Register RegisterValue]; try reflexivity;
    intros ->; discriminate.
Qed.

Theorem no_panic i rr labels pc mem seq :
  (forall r, int32 (rr r)) -> int32 pc -> int32 (imm_of (sinstr_of i)) -> mem_ok (sinstr_of i) mem ->
  instr_Run i rr labels pc mem seq <> Panic.
Proof.
  intros Hrr Hpc Himm Hmem. rewrite run_refines_spec by assumption.
  assert (P : forall si, exec si rr labels pc mem <> Panic).
  { intros si. destruct si; cbn [exec]; unfold branch;
      repeat match goal with
             | |- context [if ?c then _ else _] => destruct c
             | |- context [match ?c with Some _ => _ | None => _ end] => destruct c
             end; discriminate. }
  specialize (P (sinstr_of i)). destruct (exec (sinstr_of i) rr labels pc mem); cbn [omap]; congruence.
Qed.

(* results stay in the int32 range *)
Lemma s_range x : int32 (s x).
Proof. rewrite s_wrap. apply wrapS_range. lia. Qed.

(* ------------------------------------------------------------------ *)
(* from a specified instruction to the generated representation        *)

Definition instr_of (si : sinstr) : instr :=
  match si with
  | SAdd rd a b => I_add (mk_add rd a b)
  | SAddi rd a m => I_addi (mk_addi m rd a)
  | SAnd rd a b => I_and (mk_and rd a b)
  | SAndi rd a m => I_andi (mk_andi m rd a)
  | SAuipc rd m => I_auipc (mk_auipc rd m)
  | SBeq a b l => I_beq (mk_beq a b l)
  | SBeqz a l => I_beqz (mk_beqz a l)
  | SBge a b l => I_bge (mk_bge a b l)
  | SBgeu a b l => I_bgeu (mk_bgeu a b l)
  | SBle a b l => I_ble (mk_ble a b l)
  | SBlt a b l => I_blt (mk_blt a b l)
  | SBltu a b l => I_bltu (mk_bltu a b l)
  | SBne a b l => I_bne (mk_bne a b l)
  | SBnez a l => I_bnez (mk_bnez a l)
  | SDiv rd a b => I_div (mk_div rd a b)
  | SJ l => I_j (mk_j l)
  | SJal rd l => I_jal (mk_jal l rd)
  | SJalr rd a m => I_jalr (mk_jalr rd a m)
  | SLui rd m => I_lui (mk_lui rd m)
  | SLb rd off a => I_lb (mk_lb rd off a)
  | SLh rd off a => I_lh (mk_lh rd off a)
  | SLi rd m => I_li (mk_li rd m)
  | SLw rd off a => I_lw (mk_lw rd off a)
  | SNop => I_nop mk_nop
  | SMul rd a b => I_mul (mk_mul rd a b)
  | SMv rd a => I_mv (mk_mv rd a)
  | SOr rd a b => I_or (mk_or rd a b)
  | SOri rd a m => I_ori (mk_ori m rd a)
  | SRem rd a b => I_rem (mk_rem rd a b)
  | SRet => I_ret mk_ret
  | SSb src off base => I_sb (mk_sb src off base)
  | SSh src off base => I_sh (mk_sh base src off)
  | SSll rd a b => I_sll (mk_sll rd a b)
  | SSlli rd a m => I_slli (mk_slli rd a m)
  | SSlt rd a b => I_slt (mk_slt rd a b)
  | SSltu rd a b => I_sltu (mk_sltu rd a b)
  | SSlti rd a m => I_slti (mk_slti rd a m)
  | SSra rd a b => I_sra (mk_sra rd a b)
  | SSrai rd a m => I_srai (mk_srai rd a m)
  | SSrl rd a b => I_srl (mk_srl rd a b)
  | SSrli rd a m => I_srli (mk_srli rd a m)
  | SSub rd a b => I_sub (mk_sub rd a b)
  | SSw src off base => I_sw (mk_sw src off base)
  | SXor rd a b => I_xor (mk_xor rd a b)
  | SXori rd a m => I_xori (mk_xori m rd a)
  end.

Lemma sinstr_of_instr_of si : sinstr_of (instr_of si) = si.
Proof. destruct si; reflexivity. Qed.

Lemma instr_of_sinstr_of i : instr_of (sinstr_of i) = i.
Proof. destruct i as [o|o|o|o|o|o|o|o|o|o|o|o|o|o|o|o|o|o|o|o|o|o|o|o|o|o|o|o|o|o|o|o|o|o|o|o|o|o|o|o|o|o|o|o|o]; destruct o; reflexivity. Qed.
