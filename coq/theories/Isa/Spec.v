(* S: the RV32IM subset of teivah/majorana, written from the RISC-V manual in
   arithmetic terms.  This file does not look at the Go code and does not use
   the GoInt operator library: registers hold the signed reading of a 32-bit
   word, [u] is its unsigned reading, [s] sign-extends an unsigned residue.

   Conventions of the simulator that are part of the specification (they are
   not RISC-V, they are what "the supported assembly subset" means here):
     - ret ends the run (it does not jump to ra);
     - division and remainder by zero are errors (EDivZero);
     - a taken branch or a jump to an undefined label is an error (ELabel);
     - lui/auipc take the immediate as written and shift it left by 12;
     - immediates are arbitrary int32 values (no 12-bit encoding limit);
     - labels are resolved by a lookup function, targets are byte addresses. *)
From Coq Require Import ZArith List Bool Lia.
From Maj Require Import Base.Outcome.
Import ListNotations.
Open Scope Z_scope.

Definition M32 : Z := 4294967296.          (* 2^32 *)
Definition H32 : Z := 2147483648.          (* 2^31 *)

Definition u (x : Z) : Z := x mod M32.
Definition s (x : Z) : Z := let y := x mod M32 in if y <? H32 then y else y - M32.
Definition u8 (x : Z) : Z := x mod 256.
Definition s8 (x : Z) : Z := let y := x mod 256 in if y <? 128 then y else y - 256.
Definition s16 (x : Z) : Z := let y := x mod 65536 in if y <? 32768 then y else y - 65536.

Inductive sinstr : Type :=
| SAdd (rd rs1 rs2 : Z) | SAddi (rd rs imm : Z)
| SAnd (rd rs1 rs2 : Z) | SAndi (rd rs imm : Z)
| SAuipc (rd imm : Z)
| SBeq (rs1 rs2 l : Z) | SBeqz (rs l : Z)
| SBge (rs1 rs2 l : Z) | SBgeu (rs1 rs2 l : Z)
| SBle (rs1 rs2 l : Z) | SBlt (rs1 rs2 l : Z) | SBltu (rs1 rs2 l : Z)
| SBne (rs1 rs2 l : Z) | SBnez (rs l : Z)
| SDiv (rd rs1 rs2 : Z)
| SJ (l : Z) | SJal (rd l : Z) | SJalr (rd rs imm : Z)
| SLui (rd imm : Z)
| SLb (rd off rs : Z) | SLh (rd off rs : Z)
| SLi (rd imm : Z)
| SLw (rd off rs : Z)
| SNop
| SMul (rd rs1 rs2 : Z)
| SMv (rd rs : Z)
| SOr (rd rs1 rs2 : Z) | SOri (rd rs imm : Z)
| SRem (rd rs1 rs2 : Z)
| SRet
| SSb (src off base : Z) | SSh (src off base : Z)
| SSll (rd rs1 rs2 : Z) | SSlli (rd rs imm : Z)
| SSlt (rd rs1 rs2 : Z) | SSltu (rd rs1 rs2 : Z) | SSlti (rd rs imm : Z)
| SSra (rd rs1 rs2 : Z) | SSrai (rd rs imm : Z)
| SSrl (rd rs1 rs2 : Z) | SSrli (rd rs imm : Z)
| SSub (rd rs1 rs2 : Z)
| SSw (src off base : Z)
| SXor (rd rs1 rs2 : Z) | SXori (rd rs imm : Z).

(* architectural effect of one instruction *)
Inductive effect : Type :=
| EReg (rd v : Z)                    (* rd <- v (dropped when rd = x0); fall through *)
| EStore (bytes : list (Z * Z))      (* memory[a] <- b for each (a, b), b a signed byte *)
| EFall                              (* nothing; fall through *)
| EGoto (target : Z)                 (* taken branch / j *)
| ELink (rd v target : Z)            (* jal / jalr *)
| EReturn.

Definition branch (c : bool) (labels : Z -> option Z) (l : Z) : outcome effect :=
  if c then match labels l with Some a => Ok (EGoto a) | None => Err ELabel end
  else Ok EFall.

(* byte k (0..3) of the word with signed reading v, as a signed byte *)
Definition byte_of (v k : Z) : Z := s8 ((u v / 256 ^ k) mod 256).

Definition shamt (x : Z) : Z := u x mod 32.

(* [rr] reads a register; [mem] are the bytes at [load_addrs] *)
Definition exec (i : sinstr) (rr : Z -> Z) (labels : Z -> option Z) (pc : Z) (mem : list Z)
  : outcome effect :=
  let b k := u8 (nth k mem 0) in
  match i with
  | SAdd rd a b' => Ok (EReg rd (s (u (rr a) + u (rr b'))))
  | SAddi rd a imm => Ok (EReg rd (s (u (rr a) + u imm)))
  | SSub rd a b' => Ok (EReg rd (s (u (rr a) - u (rr b'))))
  | SMul rd a b' => Ok (EReg rd (s (u (rr a) * u (rr b'))))
  | SAnd rd a b' => Ok (EReg rd (s (Z.land (u (rr a)) (u (rr b')))))
  | SAndi rd a imm => Ok (EReg rd (s (Z.land (u (rr a)) (u imm))))
  | SOr rd a b' => Ok (EReg rd (s (Z.lor (u (rr a)) (u (rr b')))))
  | SOri rd a imm => Ok (EReg rd (s (Z.lor (u (rr a)) (u imm))))
  | SXor rd a b' => Ok (EReg rd (s (Z.lxor (u (rr a)) (u (rr b')))))
  | SXori rd a imm => Ok (EReg rd (s (Z.lxor (u (rr a)) (u imm))))
  | SSll rd a b' => Ok (EReg rd (s (u (rr a) * 2 ^ shamt (rr b'))))
  | SSlli rd a imm => Ok (EReg rd (s (u (rr a) * 2 ^ shamt imm)))
  | SSrl rd a b' => Ok (EReg rd (s (u (rr a) / 2 ^ shamt (rr b'))))
  | SSrli rd a imm => Ok (EReg rd (s (u (rr a) / 2 ^ shamt imm)))
  | SSra rd a b' => Ok (EReg rd (s (rr a) / 2 ^ shamt (rr b')))
  | SSrai rd a imm => Ok (EReg rd (s (rr a) / 2 ^ shamt imm))
  | SSlt rd a b' => Ok (EReg rd (if s (rr a) <? s (rr b') then 1 else 0))
  | SSlti rd a imm => Ok (EReg rd (if s (rr a) <? s imm then 1 else 0))
  | SSltu rd a b' => Ok (EReg rd (if u (rr a) <? u (rr b') then 1 else 0))
  | SDiv rd a b' =>
      if s (rr b') =? 0 then Err EDivZero else Ok (EReg rd (s (Z.quot (s (rr a)) (s (rr b')))))
  | SRem rd a b' =>
      if s (rr b') =? 0 then Err EDivZero else Ok (EReg rd (s (Z.rem (s (rr a)) (s (rr b')))))
  | SLui rd imm => Ok (EReg rd (s (u imm * 4096)))
  | SAuipc rd imm => Ok (EReg rd (s (u pc + u imm * 4096)))
  | SLi rd imm => Ok (EReg rd (s imm))
  | SMv rd a => Ok (EReg rd (s (rr a)))
  | SNop => Ok EFall
  | SRet => Ok EReturn
  | SLb rd _ _ => Ok (EReg rd (s8 (b 0%nat)))
  | SLh rd _ _ => Ok (EReg rd (s16 (b 0%nat + 256 * b 1%nat)))
  | SLw rd _ _ => Ok (EReg rd (s (b 0%nat + 256 * b 1%nat + 65536 * b 2%nat + 16777216 * b 3%nat)))
  | SSb src off base =>
      let a := s (u (rr base) + u off) in
      Ok (EStore [(a, byte_of (rr src) 0)])
  | SSh src off base =>
      let a := s (u (rr base) + u off) in
      Ok (EStore [(a, byte_of (rr src) 0); (s (a + 1), byte_of (rr src) 1)])
  | SSw src off base =>
      let a := s (u (rr base) + u off) in
      Ok (EStore [(a, byte_of (rr src) 0); (s (a + 1), byte_of (rr src) 1);
                  (s (a + 2), byte_of (rr src) 2); (s (a + 3), byte_of (rr src) 3)])
  | SBeq a b' l => branch (s (rr a) =? s (rr b')) labels l
  | SBne a b' l => branch (negb (s (rr a) =? s (rr b'))) labels l
  | SBlt a b' l => branch (s (rr a) <? s (rr b')) labels l
  | SBge a b' l => branch (s (rr b') <=? s (rr a)) labels l
  | SBle a b' l => branch (s (rr a) <=? s (rr b')) labels l
  | SBltu a b' l => branch (u (rr a) <? u (rr b')) labels l
  | SBgeu a b' l => branch (u (rr b') <=? u (rr a)) labels l
  | SBeqz a l => branch (s (rr a) =? 0) labels l
  | SBnez a l => branch (negb (s (rr a) =? 0)) labels l
  | SJ l => match labels l with Some a => Ok (EGoto a) | None => Err ELabel end
  | SJal rd l => match labels l with Some a => Ok (ELink rd (s (pc + 4)) a) | None => Err ELabel end
  | SJalr rd a imm =>
      let t := u (rr a) + u imm in
      Ok (ELink rd (s (pc + 4)) (s (t - t mod 2)))
  end.

(* registers whose value the effect may depend on / the register it may write *)
Definition reads (i : sinstr) : list Z :=
  match i with
  | SAdd _ a b | SSub _ a b | SMul _ a b | SAnd _ a b | SOr _ a b | SXor _ a b
  | SSll _ a b | SSrl _ a b | SSra _ a b | SSlt _ a b | SSltu _ a b | SDiv _ a b | SRem _ a b => [a; b]
  | SAddi _ a _ | SAndi _ a _ | SOri _ a _ | SXori _ a _ | SSlli _ a _ | SSrli _ a _ | SSrai _ a _
  | SSlti _ a _ | SMv _ a | SJalr _ a _ => [a]
  | SLb _ _ a | SLh _ _ a | SLw _ _ a => [a]
  | SSb src _ base | SSh src _ base | SSw src _ base => [base; src]
  | SBeq a b _ | SBne a b _ | SBlt a b _ | SBge a b _ | SBle a b _ | SBltu a b _ | SBgeu a b _ => [a; b]
  | SBeqz a _ | SBnez a _ => [a]
  | SLui _ _ | SAuipc _ _ | SLi _ _ | SNop | SRet | SJ _ | SJal _ _ => []
  end.

Definition writes (i : sinstr) : list Z :=
  match i with
  | SAdd rd _ _ | SSub rd _ _ | SMul rd _ _ | SAnd rd _ _ | SOr rd _ _ | SXor rd _ _
  | SSll rd _ _ | SSrl rd _ _ | SSra rd _ _ | SSlt rd _ _ | SSltu rd _ _ | SDiv rd _ _ | SRem rd _ _
  | SAddi rd _ _ | SAndi rd _ _ | SOri rd _ _ | SXori rd _ _ | SSlli rd _ _ | SSrli rd _ _ | SSrai rd _ _
  | SSlti rd _ _ | SMv rd _ | SJalr rd _ _ | SLb rd _ _ | SLh rd _ _ | SLw rd _ _
  | SLui rd _ | SAuipc rd _ | SLi rd _ | SJal rd _ => [rd]
  | _ => []
  end.

(* byte addresses a load reads, in the order [mem] lists them *)
Definition load_addrs (i : sinstr) (rr : Z -> Z) : list Z :=
  match i with
  | SLb _ off a => let x := s (u (rr a) + u off) in [x]
  | SLh _ off a => let x := s (u (rr a) + u off) in [x; s (x + 1)]
  | SLw _ off a => let x := s (u (rr a) + u off) in [x; s (x + 1); s (x + 2); s (x + 3)]
  | _ => []
  end.

Definition store_addrs (i : sinstr) (rr : Z -> Z) : list Z :=
  match i with
  | SSb _ off base => let x := s (u (rr base) + u off) in [x]
  | SSh _ off base => let x := s (u (rr base) + u off) in [x; s (x + 1)]
  | SSw _ off base => let x := s (u (rr base) + u off) in [x; s (x + 1); s (x + 2); s (x + 3)]
  | _ => []
  end.
