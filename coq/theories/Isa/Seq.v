(* S: the sequential machine.  One instruction at a time, in program order,
   on an architectural state (32 registers, flat byte memory).  This is the
   reference every processor variant is compared with (C01, C03-C05, C07,
   C09, C10, C12).  It depends on Isa/Spec.v only.

   The run ends (a) by executing ret, (b) when the pc leaves the program text.
   Outside the supported subset the machine stops with an error value:
   EDivZero, ELabel (see Spec.v), EBounds (an access outside memory or a
   negative pc). *)
From Coq Require Import ZArith List Bool Lia.
From Maj Require Import Base.Outcome Isa.Spec.
Import ListNotations.
Open Scope Z_scope.

Record arch := mk_arch { regs : list Z; mem : list Z }.

Definition rget (r : list Z) (i : Z) : Z :=
  if i =? 0 then 0 else nth (Z.to_nat i) r 0.

Fixpoint upd {A} (l : list A) (n : nat) (v : A) : list A :=
  match l, n with
  | [], _ => []
  | _ :: t, O => v :: t
  | h :: t, S k => h :: upd t k v
  end.

Definition rset (r : list Z) (i v : Z) : list Z :=
  if i =? 0 then r else upd r (Z.to_nat i) v.

Definition in_mem (m : list Z) (a : Z) : bool := (0 <=? a) && (a <? Z.of_nat (length m)).
Definition mget (m : list Z) (a : Z) : Z := nth (Z.to_nat a) m 0.
Definition mset (m : list Z) (a v : Z) : list Z := upd m (Z.to_nat a) v.

Fixpoint mset_all (m : list Z) (bs : list (Z * Z)) : list Z :=
  match bs with
  | [] => m
  | (a, v) :: t => mset_all (mset m a v) t
  end.

Inductive step_result : Type :=
| Next (st : arch) (pc : Z)
| Halt (st : arch)            (* ret, or the pc left the text *)
| Fail (e : err_class).

Definition fetch (p : list sinstr) (pc : Z) : option sinstr :=
  if pc <? 0 then None else nth_error p (Z.to_nat (pc / 4)).

Definition step (p : list sinstr) (labels : Z -> option Z) (st : arch) (pc : Z) : step_result :=
  if pc <? 0 then Fail EBounds else
  match nth_error p (Z.to_nat (pc / 4)) with
  | None => Halt st
  | Some i =>
      let rr := rget (regs st) in
      let la := load_addrs i rr in
      if negb (forallb (in_mem (mem st)) la) then Fail EBounds else
      match exec i rr labels pc (map (mget (mem st)) la) with
      | Err e => Fail e
      | Panic => Fail EOther
      | Ok (EReg rd v) => Next (mk_arch (rset (regs st) rd v) (mem st)) (pc + 4)
      | Ok (EStore bs) =>
          if negb (forallb (in_mem (mem st)) (map fst bs)) then Fail EBounds
          else Next (mk_arch (regs st) (mset_all (mem st) bs)) (pc + 4)
      | Ok EFall => Next st (pc + 4)
      | Ok (EGoto a) => Next st a
      | Ok (ELink rd v a) => Next (mk_arch (rset (regs st) rd v) (mem st)) a
      | Ok EReturn => Halt st
      end
  end.

Inductive run_result : Type :=
| Done (st : arch) (trace : list Z)   (* trace: pcs of the executed instructions, most recent first *)
| Failed (e : err_class) (trace : list Z)
| OutOfFuel.

Fixpoint run (fuel : nat) (p : list sinstr) (labels : Z -> option Z) (st : arch) (pc : Z) (tr : list Z)
  : run_result :=
  match fuel with
  | O => OutOfFuel
  | S f =>
      match step p labels st pc with
      | Next st' pc' => run f p labels st' pc' (pc :: tr)
      | Halt st' =>
          (* a ret was executed (it is part of the trace) or the text ended *)
          match fetch p pc with
          | Some _ => Done st' (pc :: tr)
          | None => Done st' tr
          end
      | Fail e => Failed e (pc :: tr)
      end
  end.

Definition seq_run (fuel : nat) (p : list sinstr) (labels : Z -> option Z) (st : arch) : run_result :=
  run fuel p labels st 0 [].

(* labels as an association list (label id -> byte address) *)
Fixpoint lookup (l : list (Z * Z)) (k : Z) : option Z :=
  match l with
  | [] => None
  | (k', v) :: t => if k =? k' then Some v else lookup t k
  end.
