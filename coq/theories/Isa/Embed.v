(* How a specified effect is reported through risc.Execution, and the side
   conditions under which an instruction is well-formed.  Independent of the
   generated model. *)
From Coq Require Import ZArith List Bool.
From Maj Require Import Base.Outcome Base.GoInt Base.GoTypes Isa.Spec.
Import ListNotations.
Open Scope Z_scope.

Definition reg_pair (rd v : Z) : Z * Z := if rd =? 0 then (0, 0) else (rd, v).

Definition embed (e : effect) : execution :=
  match e with
  | EReg rd v => let '(r, x) := reg_pair rd v in mk_execution true r x false [] 0 false false
  | EStore bs => mk_execution false 0 0 true bs 0 false false
  | EFall => mk_execution false 0 0 false [] 0 false false
  | EGoto a => mk_execution false 0 0 false [] a true false
  | ELink rd v a => let '(r, x) := reg_pair rd v in mk_execution true r x false [] a true false
  | EReturn => mk_execution false 0 0 false [] 0 false true
  end.

(* immediates and offsets of an instruction are int32 (the parser guarantees
   it: strconv.ParseInt(_, 10, 32)) *)
Definition imm_of (i : sinstr) : Z :=
  match i with
  | SAddi _ _ m | SAndi _ _ m | SOri _ _ m | SXori _ _ m | SSlli _ _ m | SSrli _ _ m | SSrai _ _ m
  | SSlti _ _ m | SJalr _ _ m | SLui _ m | SAuipc _ m | SLi _ m
  | SLb _ m _ | SLh _ m _ | SLw _ m _ | SSb _ m _ | SSh _ m _ | SSw _ m _ => m
  | _ => 0
  end.

Definition mem_ok (i : sinstr) (mem : list Z) : Prop :=
  Forall int8 mem /\
  match i with
  | SLb _ _ _ => length mem = 1%nat
  | SLh _ _ _ => length mem = 2%nat
  | SLw _ _ _ => length mem = 4%nat
  | _ => True
  end.

