(* C16: proofs about the model generated from common/bytes/bytes.go
   (theories/Gen/BytesGo.v).  Everything is by two's-complement bit
   extensionality on Z; nothing is enumerated. *)
From Coq Require Import ZArith List Bool Lia.
From Maj Require Import Base.Outcome Base.GoInt Base.GoTypes Gen.BytesGo.
Import ListNotations.
Open Scope Z_scope.

(* byte k of n, as Go's int8: bits 8k .. 8k+7 of n, sign-extended from bit 7 *)
Definition byte_k (n k : Z) : Z := wrapS 8 (Z.shiftr n (8 * k)).

(* the word whose bytes are b0..b3 (each an int8), as Go's int32 *)
Definition word_of (b0 b1 b2 b3 : Z) : Z :=
  wrapS 32 (wrapU 8 b0 + 256 * wrapU 8 b1 + 65536 * wrapU 8 b2 + 16777216 * wrapU 8 b3).

Definition rng (lo hi j : Z) : bool := (lo <=? j) && (j <? hi).

Lemma rng_spec lo hi j : rng lo hi j = true <-> lo <= j < hi.
Proof. unfold rng. rewrite andb_true_iff, Z.leb_le, Z.ltb_lt. tauto. Qed.

(* ---- the mask 1 << j at a signed width ---- *)
Lemma mask_testbit w j i : 0 < w -> 0 <= j < w -> 0 <= i ->
  Z.testbit (shlS w 1 j) i = (Z.min i (w-1) =? j).
Proof.
  intros Hw Hj Hi. unfold shlS. rewrite wrapS_testbit by lia. rewrite Z.mul_1_l.
  rewrite Z.pow2_bits_eqb by lia. rewrite Z.eqb_sym. reflexivity.
Qed.

Lemma land_mask_zero w n j : 0 < w -> inS w n -> 0 <= j < w ->
  (Z.land n (shlS w 1 j) =? 0) = negb (Z.testbit n j).
Proof.
  intros Hw Hn Hj.
  destruct (Z.testbit n j) eqn:Hb; simpl.
  - apply Z.eqb_neq. intros E.
    assert (Z.testbit (Z.land n (shlS w 1 j)) j = false) by (rewrite E; apply Z.testbit_0_l).
    rewrite Z.land_spec, Hb, mask_testbit in H by lia.
    rewrite Z.min_l in H by lia. rewrite Z.eqb_refl in H. discriminate.
  - apply Z.eqb_eq. apply Z.bits_inj'. intros i Hi.
    rewrite Z.land_spec, mask_testbit, Z.testbit_0_l by lia.
    destruct (Z.eqb_spec (Z.min i (w-1)) j) as [E|E]; [|apply andb_false_r].
    rewrite andb_true_r.
    destruct (Z.le_gt_cases (w-1) i).
    + rewrite Z.min_r in E by lia. rewrite (inS_testbit_high w n i) by (assumption || lia).
      rewrite E. exact Hb.
    + rewrite Z.min_l in E by lia. subst. exact Hb.
Qed.

Lemma getI32Bit_spec n j : int32 n -> rng 0 32 j = true -> getI32Bit n j = Z.testbit n j.
Proof.
  intros Hn Hj. apply rng_spec in Hj. unfold getI32Bit.
  rewrite land_mask_zero by (assumption || lia). apply negb_involutive.
Qed.

Lemma getI8Bit_spec n j : int8 n -> rng 0 8 j = true -> getI8Bit n j = Z.testbit n j.
Proof.
  intros Hn Hj. apply rng_spec in Hj. unfold getI8Bit.
  rewrite land_mask_zero by (assumption || lia). apply negb_involutive.
Qed.

Lemma setI8Bit_ok n i : rng 0 8 i = true -> setI8Bit n i = Ok (Z.lor n (shlS 8 1 i)).
Proof.
  intros Hi. apply rng_spec in Hi. unfold setI8Bit.
  rewrite (wrapS_id 8 i) by (try lia; apply int8_bounds; lia).
  replace (0 <=? i) with true by (symmetry; apply Z.leb_le; lia). reflexivity.
Qed.

Lemma setI32Bit_ok n i : rng 0 32 i = true -> setI32Bit n i = Ok (Z.lor n (shlS 32 1 i)).
Proof.
  intros Hi. apply rng_spec in Hi. unfold setI32Bit.
  rewrite (wrapS_id 8 i) by (try lia; apply int8_bounds; lia).
  replace (0 <=? i) with true by (symmetry; apply Z.leb_le; lia). reflexivity.
Qed.

Lemma if_ok {A} (b : bool) (x y : A) : (if b then Ok x else Ok y) = Ok (if b then x else y).
Proof. destruct b; reflexivity. Qed.

(* conditional or of a mask, bitwise *)
Definition orif (b : bool) (acc c : Z) : Z := if b then Z.lor acc c else acc.

Lemma orif_testbit b acc c i : Z.testbit (orif b acc c) i = Z.testbit acc i || (b && Z.testbit c i).
Proof. unfold orif. destruct b; simpl; [apply Z.lor_spec | rewrite orb_false_r; reflexivity]. Qed.

Lemma if_orif (b : bool) acc c : (if b then Z.lor acc c else acc) = orif b acc c.
Proof. reflexivity. Qed.

(* eight conditional ors of the masks 1<<0 .. 1<<7 at width w assemble the
   bits t0..t7, sign-extended from bit w-1 when w = 8 *)
Lemma m8_cases m : 0 <= m <= 7 -> m = 0 \/ m = 1 \/ m = 2 \/ m = 3 \/ m = 4 \/ m = 5 \/ m = 6 \/ m = 7.
Proof. lia. Qed.

Definition pick8 (m : Z) (t0 t1 t2 t3 t4 t5 t6 t7 : bool) : bool :=
  if m =? 0 then t0 else if m =? 1 then t1 else if m =? 2 then t2 else if m =? 3 then t3
  else if m =? 4 then t4 else if m =? 5 then t5 else if m =? 6 then t6 else t7.

Lemma assemble8 (t0 t1 t2 t3 t4 t5 t6 t7 : bool) i : 0 <= i ->
  Z.testbit
    (orif t7 (orif t6 (orif t5 (orif t4 (orif t3 (orif t2 (orif t1 (orif t0 0
       (shlS 8 1 0)) (shlS 8 1 1)) (shlS 8 1 2)) (shlS 8 1 3)) (shlS 8 1 4)) (shlS 8 1 5)) (shlS 8 1 6)) (shlS 8 1 7)) i
  = pick8 (Z.min i 7) t0 t1 t2 t3 t4 t5 t6 t7.
Proof.
  intros Hi. rewrite !orif_testbit, Z.testbit_0_l.
  rewrite !mask_testbit by lia. change (8 - 1) with 7. unfold pick8.
  destruct (m8_cases (Z.min i 7) ltac:(lia)) as [E|[E|[E|[E|[E|[E|[E|E]]]]]]]; rewrite E; simpl;
    rewrite ?andb_false_r, ?andb_true_r, ?orb_false_r; reflexivity.
Qed.

Lemma byte_k_testbit n k i : 0 <= k -> 0 <= i -> Z.testbit (byte_k n k) i = Z.testbit n (Z.min i 7 + 8 * k).
Proof.
  intros Hk Hi. unfold byte_k. rewrite wrapS_testbit by lia. change (8 - 1) with 7.
  rewrite Z.shiftr_spec by lia. reflexivity.
Qed.

Lemma byte_k_int8 n k : int8 (byte_k n k).
Proof. apply wrapS_range; lia. Qed.

(* ---- splitting: BytesFromLowBits ---- *)

(* the body of the four loops of BytesFromLowBits, as generated *)
Definition split_body (n : Z) : Z -> Z * Z -> outcome (Z * Z) :=
  fun i '(acc, index) =>
  acc <- (if (getI32Bit n (wrapU 8 i)) then (tmp1 <- (setI8Bit acc index) ;; let acc := tmp1 in
  Ok acc) else (Ok acc)) ;;
  let index := (wrapU 8 (index + 1)) in
  Ok (acc, index).

Lemma wrapU8_small i : 0 <= i < 256 -> wrapU 8 i = i.
Proof. intros. apply wrapU_id. unfold inU. change (2^8) with 256. lia. Qed.

Lemma split_body_step n i acc idx : int32 n -> 0 <= i < 32 -> 0 <= idx < 8 ->
  split_body n i (acc, idx) = Ok (orif (Z.testbit n i) acc (shlS 8 1 idx), idx + 1).
Proof.
  intros Hn Hi Hidx. unfold split_body.
  rewrite !wrapU8_small by lia.
  rewrite getI32Bit_spec by (assumption || (apply rng_spec; lia)).
  rewrite setI8Bit_ok by (apply rng_spec; lia). cbn [bind].
  rewrite if_ok. cbn [bind]. reflexivity.
Qed.

Lemma split_loop n k : int32 n -> 0 <= k < 4 ->
  for_loopM 8%nat (8 * k) (split_body n) (0, 0) = Ok (byte_k n k, 8).
Proof.
  intros Hn Hk. cbn [for_loopM].
  do 8 (rewrite split_body_step by (assumption || lia); cbn [bind]).
  cbn [for_loopM]. f_equal. f_equal.
  apply Z.bits_inj'. intros i Hi. rewrite byte_k_testbit by lia.
  change (0 + 1) with 1. change (1 + 1) with 2. change (2 + 1) with 3. change (3 + 1) with 4.
  change (4 + 1) with 5. change (5 + 1) with 6. change (6 + 1) with 7.
  rewrite assemble8 by exact Hi. unfold pick8.
  destruct (m8_cases (Z.min i 7) ltac:(lia)) as [M|[M|[M|[M|[M|[M|[M|M]]]]]]]; rewrite M;
    cbn [Z.eqb Pos.eqb]; f_equal; lia.
Qed.

Lemma split_loop' n lo k : int32 n -> 0 <= k < 4 -> lo = 8 * k ->
  for_loopM 8%nat lo (split_body n) (0, 0) = Ok (byte_k n k, 8).
Proof. intros Hn Hk ->. apply split_loop; assumption. Qed.

Theorem BytesFromLowBits_spec n : int32 n ->
  BytesFromLowBits n = Ok (byte_k n 0, byte_k n 1, byte_k n 2, byte_k n 3).
Proof.
  intros Hn. unfold BytesFromLowBits. cbv zeta.
  fold (split_body n).
  rewrite (split_loop' n 0 0) by (assumption || lia). cbn [bind].
  rewrite (split_loop' n 8 1) by (assumption || lia). cbn [bind].
  rewrite (split_loop' n 16 2) by (assumption || lia). cbn [bind].
  rewrite (split_loop' n 24 3) by (assumption || lia). cbn [bind].
  reflexivity.
Qed.

(* ---- joining: I32FromBytes ---- *)

Definition join_body (b : Z) : Z -> Z * Z -> outcome (Z * Z) :=
  fun i '(result, index) =>
  result <- (if (getI8Bit b (wrapU 8 i)) then (tmp1 <- (setI32Bit result index) ;; let result := tmp1 in
  Ok result) else (Ok result)) ;;
  let index := (wrapU 8 (index + 1)) in
  Ok (result, index).

Lemma join_body_step b i r idx : int8 b -> 0 <= i < 8 -> 0 <= idx < 32 ->
  join_body b i (r, idx) = Ok (orif (Z.testbit b i) r (shlS 32 1 idx), idx + 1).
Proof.
  intros Hb Hi Hidx. unfold join_body.
  rewrite !wrapU8_small by lia.
  rewrite getI8Bit_spec by (assumption || (apply rng_spec; lia)).
  rewrite setI32Bit_ok by (apply rng_spec; lia). cbn [bind].
  rewrite if_ok. cbn [bind]. reflexivity.
Qed.

(* bits contributed by byte b placed at bit offset idx of an int32 *)
Definition placed (b idx i : Z) : bool :=
  let d := Z.min i 31 - idx in (0 <=? d) && (d <? 8) && Z.testbit b d.

Lemma join_loop b r idx : int8 b -> 0 <= idx <= 24 ->
  exists r', for_loopM 8%nat 0 (join_body b) (r, idx) = Ok (r', idx + 8) /\
             forall i, 0 <= i -> Z.testbit r' i = Z.testbit r i || placed b idx i.
Proof.
  intros Hb Hidx. cbn [for_loopM].
  do 8 (rewrite join_body_step by (assumption || lia); cbn [bind]).
  cbn [for_loopM]. eexists. split.
  - f_equal. f_equal. lia.
  - intros i Hi. rewrite !orif_testbit. rewrite !mask_testbit by lia.
    change (32 - 1) with 31. unfold placed. set (m := Z.min i 31).
    change (0 + 1) with 1. change (1 + 1) with 2. change (2 + 1) with 3. change (3 + 1) with 4.
    change (4 + 1) with 5. change (5 + 1) with 6. change (6 + 1) with 7.
    rewrite <- !orb_assoc. f_equal.
    assert (D : m - idx < 0 \/ 8 <= m - idx \/ m - idx = 0 \/ m - idx = 1 \/ m - idx = 2 \/ m - idx = 3
                \/ m - idx = 4 \/ m - idx = 5 \/ m - idx = 6 \/ m - idx = 7) by lia.
    repeat match goal with
           | |- context [?a =? ?b] => destruct (Z.eqb_spec a b); try lia
           end;
    rewrite ?andb_false_r, ?andb_true_r, ?orb_false_r, ?orb_false_l;
    destruct D as [D|[D|[D|[D|[D|[D|[D|[D|[D|D]]]]]]]]]; try lia;
    try (rewrite D; reflexivity);
    try (replace (0 <=? m - idx) with false by (symmetry; apply Z.leb_gt; lia); reflexivity);
    try (replace (m - idx <? 8) with false by (symmetry; apply Z.ltb_ge; lia); rewrite andb_false_r; reflexivity).
Qed.

Lemma split_testbit a b n i : 0 <= n -> 0 <= a < 2^n -> 0 <= i ->
  Z.testbit (a + 2^n * b) i = if i <? n then Z.testbit a i else Z.testbit b (i - n).
Proof.
  intros Hn Ha Hi. destruct (Z.ltb_spec i n).
  - rewrite <- (Z.mod_pow2_bits_low (a + 2^n * b) n i) by lia.
    replace (a + 2^n * b) with (a + b * 2^n) by ring.
    rewrite Z_mod_plus_full. rewrite Z.mod_small by lia. reflexivity.
  - replace i with ((i - n) + n) at 1 by lia.
    rewrite <- Z.div_pow2_bits by lia.
    replace (a + 2^n * b) with (a + b * 2^n) by ring.
    rewrite Z.div_add by lia. rewrite Z.div_small by lia. reflexivity.
Qed.

Lemma u8_range b : 0 <= wrapU 8 b < 2^8.
Proof. apply (wrapU_range 8 b). lia. Qed.

Lemma u8_testbit b i : int8 b -> 0 <= i < 8 -> Z.testbit (wrapU 8 b) i = Z.testbit b i.
Proof.
  intros Hb Hi. rewrite wrapU_testbit by lia.
  replace (i <? 8) with true by (symmetry; apply Z.ltb_lt; lia). reflexivity.
Qed.

Definition join_word (b0 b1 b2 b3 : Z) : Z :=
  wrapS 32 (wrapU 8 b0 + 2^8 * (wrapU 8 b1 + 2^8 * (wrapU 8 b2 + 2^8 * wrapU 8 b3))).

Lemma join_word_testbit b0 b1 b2 b3 i : int8 b0 -> int8 b1 -> int8 b2 -> int8 b3 -> 0 <= i ->
  Z.testbit (join_word b0 b1 b2 b3) i =
  placed b0 0 i || placed b1 8 i || placed b2 16 i || placed b3 24 i.
Proof.
  intros H0 H1 H2 H3 Hi. unfold join_word, placed.
  rewrite wrapS_testbit by lia. change (32 - 1) with 31. set (m := Z.min i 31).
  assert (Hm : 0 <= m <= 31) by lia.
  pose proof (u8_range b0). pose proof (u8_range b1). pose proof (u8_range b2). pose proof (u8_range b3).
  rewrite split_testbit by lia.
  destruct (Z.ltb_spec m 8).
  { rewrite u8_testbit by (assumption || lia). rewrite Z.sub_0_r.
    replace (0 <=? m) with true by (symmetry; apply Z.leb_le; lia).
    replace (m <? 8) with true by (symmetry; apply Z.ltb_lt; lia).
    replace (0 <=? m - 8) with false by (symmetry; apply Z.leb_gt; lia).
    replace (0 <=? m - 16) with false by (symmetry; apply Z.leb_gt; lia).
    replace (0 <=? m - 24) with false by (symmetry; apply Z.leb_gt; lia).
    simpl. rewrite !orb_false_r. reflexivity. }
  rewrite split_testbit by lia.
  destruct (Z.ltb_spec (m - 8) 8).
  { rewrite u8_testbit by (assumption || lia).
    replace (m - 0 <? 8) with false by (symmetry; apply Z.ltb_ge; lia).
    replace (0 <=? m - 8) with true by (symmetry; apply Z.leb_le; lia).
    replace (m - 8 <? 8) with true by (symmetry; apply Z.ltb_lt; lia).
    replace (0 <=? m - 16) with false by (symmetry; apply Z.leb_gt; lia).
    replace (0 <=? m - 24) with false by (symmetry; apply Z.leb_gt; lia).
    rewrite andb_false_r. simpl. rewrite !orb_false_r. reflexivity. }
  rewrite split_testbit by lia.
  destruct (Z.ltb_spec (m - 8 - 8) 8).
  { rewrite u8_testbit by (assumption || lia).
    replace (m - 0 <? 8) with false by (symmetry; apply Z.ltb_ge; lia).
    replace (m - 8 <? 8) with false by (symmetry; apply Z.ltb_ge; lia).
    replace (0 <=? m - 16) with true by (symmetry; apply Z.leb_le; lia).
    replace (m - 16 <? 8) with true by (symmetry; apply Z.ltb_lt; lia).
    replace (0 <=? m - 24) with false by (symmetry; apply Z.leb_gt; lia).
    rewrite !andb_false_r. simpl. rewrite !orb_false_r. f_equal. lia. }
  rewrite u8_testbit by (assumption || lia).
  replace (m - 0 <? 8) with false by (symmetry; apply Z.ltb_ge; lia).
  replace (m - 8 <? 8) with false by (symmetry; apply Z.ltb_ge; lia).
  replace (m - 16 <? 8) with false by (symmetry; apply Z.ltb_ge; lia).
  replace (0 <=? m - 24) with true by (symmetry; apply Z.leb_le; lia).
  replace (m - 24 <? 8) with true by (symmetry; apply Z.ltb_lt; lia).
  rewrite !andb_false_r. simpl. f_equal. lia.
Qed.

Theorem I32FromBytes_spec b0 b1 b2 b3 : int8 b0 -> int8 b1 -> int8 b2 -> int8 b3 ->
  I32FromBytes b0 b1 b2 b3 = Ok (join_word b0 b1 b2 b3).
Proof.
  intros H0 H1 H2 H3. unfold I32FromBytes. cbv zeta.
  fold (join_body b0). fold (join_body b1). fold (join_body b2). fold (join_body b3).
  destruct (join_loop b0 0 0 H0 ltac:(lia)) as (r0 & E0 & B0). rewrite E0. cbn [bind].
  destruct (join_loop b1 r0 (0 + 8) H1 ltac:(lia)) as (r1 & E1 & B1). rewrite E1. cbn [bind].
  destruct (join_loop b2 r1 (0 + 8 + 8) H2 ltac:(lia)) as (r2 & E2 & B2). rewrite E2. cbn [bind].
  destruct (join_loop b3 r2 (0 + 8 + 8 + 8) H3 ltac:(lia)) as (r3 & E3 & B3). rewrite E3. cbn [bind].
  f_equal. apply Z.bits_inj'. intros i Hi.
  rewrite B3, B2, B1, B0, join_word_testbit by assumption.
  rewrite Z.testbit_0_l. reflexivity.
Qed.

(* ---- the round trips ---- *)

Lemma placed_byte_k n k i : int32 n -> 0 <= k < 4 -> 0 <= i ->
  placed (byte_k n k) (8 * k) i =
  (8 * k <=? Z.min i 31) && (Z.min i 31 <? 8 * k + 8) && Z.testbit n (Z.min i 31).
Proof.
  intros Hn Hk Hi. unfold placed. set (m := Z.min i 31).
  destruct (Z.leb_spec 0 (m - 8 * k)); destruct (Z.ltb_spec (m - 8 * k) 8);
    destruct (Z.leb_spec (8 * k) m); destruct (Z.ltb_spec m (8 * k + 8)); try lia; cbn [andb]; try reflexivity.
  rewrite byte_k_testbit by lia. f_equal. lia.
Qed.

Lemma join_split_word n : int32 n ->
  join_word (byte_k n 0) (byte_k n 1) (byte_k n 2) (byte_k n 3) = n.
Proof.
  intros Hn. apply Z.bits_inj'. intros i Hi.
  rewrite join_word_testbit by (apply byte_k_int8 || assumption).
  change 0 with (8 * 0) at 1. change 8 with (8 * 1) at 2. change 16 with (8 * 2). change 24 with (8 * 3).
  rewrite !placed_byte_k by (assumption || lia).
  set (m := Z.min i 31). assert (Hm : 0 <= m <= 31) by lia.
  assert (Hb : Z.testbit n i = Z.testbit n m).
  { unfold m. destruct (Z.le_gt_cases 31 i).
    - rewrite Z.min_r by lia. apply (inS_testbit_high 32); (assumption || lia).
    - rewrite Z.min_l by lia. reflexivity. }
  rewrite Hb.
  destruct (Z.testbit n m); rewrite ?andb_false_r, ?andb_true_r; [|reflexivity].
  destruct (Z.leb_spec (8 * 0) m); destruct (Z.ltb_spec m (8 * 0 + 8));
  destruct (Z.leb_spec (8 * 1) m); destruct (Z.ltb_spec m (8 * 1 + 8));
  destruct (Z.leb_spec (8 * 2) m); destruct (Z.ltb_spec m (8 * 2 + 8));
  destruct (Z.leb_spec (8 * 3) m); destruct (Z.ltb_spec m (8 * 3 + 8)); try lia; reflexivity.
Qed.

Lemma byte_k_join_word b0 b1 b2 b3 k : int8 b0 -> int8 b1 -> int8 b2 -> int8 b3 -> 0 <= k < 4 ->
  byte_k (join_word b0 b1 b2 b3) k =
  if k =? 0 then b0 else if k =? 1 then b1 else if k =? 2 then b2 else b3.
Proof.
  intros H0 H1 H2 H3 Hk.
  assert (P : forall b, int8 b -> forall i, 0 <= i -> Z.testbit b (Z.min i 7) = Z.testbit b i).
  { intros b Hb i Hi. destruct (Z.le_gt_cases 7 i).
    - rewrite Z.min_r by lia. symmetry. apply (inS_testbit_high 8); (assumption || lia).
    - rewrite Z.min_l by lia. reflexivity. }
  apply Z.bits_inj'. intros i Hi. rewrite byte_k_testbit by lia.
  rewrite join_word_testbit by (assumption || lia). unfold placed.
  assert (Hm : 0 <= Z.min i 7 <= 7) by lia.
  rewrite (Z.min_l (Z.min i 7 + 8 * k) 31) by lia.
  assert (K : k = 0 \/ k = 1 \/ k = 2 \/ k = 3) by lia.
  destruct K as [K|[K|[K|K]]]; subst k; cbn [Z.eqb Pos.eqb];
  repeat match goal with
         | |- context [?a <=? ?b] => destruct (Z.leb_spec a b); try lia
         | |- context [?a <? ?b] => destruct (Z.ltb_spec a b); try lia
         end; simpl; rewrite ?orb_false_r;
  match goal with |- Z.testbit ?b ?x = _ => replace x with (Z.min i 7) by lia end; apply P; assumption.
Qed.

(* C16, statement 1: split then join is the identity on all of int32 *)
Theorem split_join n : int32 n ->
  ('(b0, b1, b2, b3) <- BytesFromLowBits n ;; I32FromBytes b0 b1 b2 b3) = Ok n.
Proof.
  intros Hn. rewrite BytesFromLowBits_spec by assumption. cbn [bind].
  rewrite I32FromBytes_spec by apply byte_k_int8. f_equal. apply join_split_word. assumption.
Qed.

(* C16, statement 2: join then split is the identity on all byte quadruples *)
Theorem join_split b0 b1 b2 b3 : int8 b0 -> int8 b1 -> int8 b2 -> int8 b3 ->
  (w <- I32FromBytes b0 b1 b2 b3 ;; BytesFromLowBits w) = Ok (b0, b1, b2, b3).
Proof.
  intros H0 H1 H2 H3. rewrite I32FromBytes_spec by assumption. cbn [bind].
  assert (Hw : int32 (join_word b0 b1 b2 b3)) by (apply wrapS_range; lia).
  rewrite BytesFromLowBits_spec by assumption.
  rewrite !byte_k_join_word by (assumption || lia). reflexivity.
Qed.

(* C16, statement 3: byte k holds bits 8k .. 8k+7 (and is their sign extension) *)
Theorem little_endian n k j : int32 n -> 0 <= k < 4 -> 0 <= j ->
  exists b0 b1 b2 b3, BytesFromLowBits n = Ok (b0, b1, b2, b3) /\
    Z.testbit (if k =? 0 then b0 else if k =? 1 then b1 else if k =? 2 then b2 else b3) j
    = Z.testbit n (8 * k + Z.min j 7).
Proof.
  intros Hn Hk Hj. do 4 eexists. split; [apply BytesFromLowBits_spec; assumption|].
  assert (K : k = 0 \/ k = 1 \/ k = 2 \/ k = 3) by lia.
  destruct K as [K|[K|[K|K]]]; subst k; cbn [Z.eqb Pos.eqb]; rewrite byte_k_testbit by lia; f_equal; lia.
Qed.

(* neither function panics or fails on in-range arguments *)
Theorem bytes_total n b0 b1 b2 b3 : int32 n -> int8 b0 -> int8 b1 -> int8 b2 -> int8 b3 ->
  is_ok (BytesFromLowBits n) = true /\ is_ok (I32FromBytes b0 b1 b2 b3) = true.
Proof.
  intros. rewrite BytesFromLowBits_spec, I32FromBytes_spec by assumption. split; reflexivity.
Qed.

(* every produced byte is an int8 and every produced word an int32 *)
Theorem bytes_ranges n b0 b1 b2 b3 : int32 n -> int8 b0 -> int8 b1 -> int8 b2 -> int8 b3 ->
  (forall a b c d, BytesFromLowBits n = Ok (a, b, c, d) -> int8 a /\ int8 b /\ int8 c /\ int8 d) /\
  (forall w, I32FromBytes b0 b1 b2 b3 = Ok w -> int32 w).
Proof.
  intros Hn H0 H1 H2 H3. split.
  - intros a b c d. rewrite BytesFromLowBits_spec by assumption. intros E. injection E as <- <- <- <-.
    repeat split; apply byte_k_int8.
  - intros w. rewrite I32FromBytes_spec by assumption. intros E. injection E as <-.
    apply wrapS_range. lia.
Qed.
