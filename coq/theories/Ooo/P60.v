(* Ooo/P60.v - the scoreboard policy of proc/mvp6-0 (port of design-notes/feasibility/Ooo_P60.v
   onto Ooo/Machine.v).

   sound_P60ns : the guard of 6.0 + "no dispatch past an unresolved branch" is a sound policy,
                 hence (Path.ooo_correct) correct for ALL programs, control flow included.
   p60_correct : the policy of 6.0 AS IT IS is correct on branch-free programs: every schedule
                 gives the sequential register file.  (With branches it is refuted:
                 Refute.p60_p61_shadow_writeback_refuted.) *)
From Coq Require Import ZArith List Lia Arith Bool.
From Maj Require Import Ooo.Machine Ooo.Counts Ooo.InvDefs Ooo.InvSteps Ooo.InvResolve Ooo.Path
  Ooo.Policies Ooo.Guards.
Import ListNotations.

(* ---------- a policy that only differs by a stronger dispatch guard ---------- *)

Section Sim.
Variable text : list instr.
Variables P Q : policy.
Hypothesis He : exec_ok P = exec_ok Q.
Hypothesis Hw : wb_ok P = wb_ok Q.
Hypothesis Hx : exit_ok P = exit_ok Q.
Hypothesis Hb : bufm P = bufm Q.
Hypothesis Hc : commit_all P = commit_all Q.

Lemma step_sim s s' :
  (forall fw, dispatch_ok P s fw = true -> dispatch_ok Q s fw = true) ->
  step text P s s' -> step text Q s s'.
Proof.
  intros Hd H. inversion H; subst; clear H.
  - apply s_dispatch; auto.
  - apply s_execute; auto. now rewrite <- He.
  - replace (do_writeback text P s j v) with (do_writeback text Q s j v).
    + apply s_writeback; auto. now rewrite <- Hw.
    + unfold do_writeback, wb_res. now rewrite Hb.
  - replace (do_resolve_t text P s b t) with (do_resolve_t text Q s b t).
    + eapply s_resolve_taken; eauto. now rewrite <- Hw.
    + unfold do_resolve_t. now rewrite Hc.
  - replace (do_resolve_nt text P s b) with (do_resolve_nt text Q s b).
    + eapply s_resolve_not_taken; eauto. now rewrite <- Hw.
    + unfold do_resolve_nt. now rewrite Hc.
  - eapply s_exit_ret; eauto. now rewrite <- Hx.
  - apply s_exit_end; auto.
  - apply s_finish; auto.
Qed.
End Sim.

Section P60.
Variable text : list instr.
Variable rf0 : rfile.

Notation halts_at := (halts_at text rf0).
Notation seq_rf := (seq_rf text rf0).
Notation seq_at := (seq_at text rf0).

(* ---------- branch-free programs ---------- *)

Definition straight : Prop := forall i, In i text -> is_branch i = false.

Lemma at_pc_straight pc : straight -> is_branch (at_pc text pc) = false.
Proof.
  intros H. unfold at_pc. destruct (nth_in_or_default pc text nop) as [Hin | ->]; auto.
Qed.

Lemma straight_no_unres s : straight -> no_unres text s = true.
Proof.
  intros H. unfold no_unres. apply forallb_forall. intros j _.
  unfold unresb, ins. rewrite at_pc_straight by auto. now rewrite andb_false_r.
Qed.

Lemma reach_sim P Q :
  exec_ok P = exec_ok Q -> wb_ok P = wb_ok Q -> exit_ok P = exit_ok Q ->
  bufm P = bufm Q -> commit_all P = commit_all Q ->
  (forall s fw, dispatch_ok P s fw = true -> dispatch_ok Q s fw = true) ->
  forall s, reach text rf0 P s -> reach text rf0 Q s.
Proof.
  intros He Hw Hx Hb Hc Hd s. induction 1 as [|s s' R IH H]; [constructor|].
  eapply r_step; eauto. eapply step_sim; eauto.
Qed.

(* ---------- soundness of the guard ---------- *)

Lemma sound_P60ns : sound_policy text rf0 (P60ns text).
Proof.
  constructor.
  - intros s fw B C I H. simpl in H. apply andb_prop in H. destruct H as [H _].
    now apply guard60_safe.
  - right. split; auto. intros s fw B H. simpl in H. apply andb_prop in H.
    destruct H as [_ H]. now apply (no_unres_spec text).
  - reflexivity.
  - intros s e H. now apply older_done_spec.
Qed.

(* 6.0 + no speculation: correct for every program and every schedule *)
Theorem p60ns_correct s : reach text rf0 (P60ns text) s -> fin s = true ->
  exists e, halts_at e /\ forall r, rf s r = seq_rf e r.
Proof. apply ooo_correct. apply sound_P60ns. Qed.

Lemma reach_P60_straight s : straight ->
  reach text rf0 (P60 text) s -> reach text rf0 (P60ns text) s.
Proof.
  intros Hs. apply reach_sim; try reflexivity.
  intros s0 fw H. simpl in *. rewrite H. now rewrite straight_no_unres.
Qed.

(* 6.0 as it is, branch-free programs: every schedule gives the sequential register file *)
Theorem p60_correct s : straight -> reach text rf0 (P60 text) s -> fin s = true ->
  exists e, halts_at e /\ forall r, rf s r = seq_rf e r.
Proof. intros Hs R. apply p60ns_correct. now apply reach_P60_straight. Qed.

(* ---------- the sequential result of a straight-line program, in closed form ---------- *)

Definition plain_text : Prop := forall i, In i text -> kind i = Plain.
Definition run_straight : rfile := fold_left (fun f i => apply i f) text rf0.

Lemma plain_straight : plain_text -> straight.
Proof. intros H i Hi. unfold is_branch. now rewrite (H i Hi). Qed.

Lemma seq_at_prefix : plain_text -> forall k, k <= length text ->
  seq_at k = {| s_pc := k; s_rf := fold_left (fun f i => apply i f) (firstn k text) rf0 |}.
Proof.
  intros Hp. induction k as [|k IH]; intros Hk; [reflexivity|].
  cbn [Machine.seq_at]. rewrite IH by lia. unfold adv. cbn [s_pc s_rf].
  destruct (nth_error text k) as [i|] eqn:E.
  - assert (Hi : In i text) by (eapply nth_error_In; eauto).
    rewrite (Hp i Hi). f_equal.
    assert (Hf : firstn (S k) text = firstn k text ++ [i]).
    { clear IH Hk Hi. revert k E. induction text as [|a l IHl]; intros k E.
      - destruct k; discriminate.
      - destruct k; simpl in *.
        + inversion E; subst. reflexivity.
        + f_equal. apply IHl. exact E. }
    rewrite Hf, fold_left_app. reflexivity.
  - apply nth_error_None in E. lia.
Qed.

Lemma seq_at_stutter : plain_text -> forall k, length text <= k ->
  seq_at k = seq_at (length text).
Proof.
  intros Hp. induction 1 as [|k Hk IH]; auto.
  simpl. rewrite IH. rewrite seq_at_prefix by auto. unfold adv. simpl.
  assert (E : nth_error text (length text) = None) by (apply nth_error_None; lia).
  now rewrite E.
Qed.

Lemma halts_straight e : plain_text -> halts_at e -> forall r, seq_rf e r = run_straight r.
Proof.
  intros Hp He r. unfold Machine.seq_rf, run_straight.
  destruct (Nat.lt_ge_cases e (length text)) as [Hlt|Hge].
  - exfalso. unfold Machine.halts_at, halts in He. rewrite seq_at_prefix in He by (auto; lia).
    simpl in He. destruct (nth_error text e) as [i|] eqn:E.
    + assert (Hi : In i text) by (eapply nth_error_In; eauto).
      unfold is_ret in He. rewrite (Hp i Hi) in He. discriminate.
    + apply nth_error_None in E. lia.
  - rewrite seq_at_stutter, seq_at_prefix by auto. simpl. now rewrite firstn_all.
Qed.

(* the statement of the feasibility study, now an instance of the general machine *)
Theorem p60_correct_straight s : plain_text ->
  reach text rf0 (P60 text) s -> fin s = true -> forall r, rf s r = run_straight r.
Proof.
  intros Hp R Hf r. destruct (p60_correct s (plain_straight Hp) R Hf) as (e & He & H).
  rewrite H. now apply halts_straight.
Qed.

End P60.
