(* Ooo/Machine.v - the shared abstract out-of-order machine of DESIGN.md section 5
   ("The shared abstract machine Ooo"), used by C01, C03, C04, C09.

   It abstracts TIME (any latency), UNIT ASSIGNMENT (any number of execute / write units) and
   the BUSES (an instance is simply "in flight"); it keeps ORDER and DATA.  Dispatch is in
   program order (a cursor, as in every variant of proc/mvp*: handleRunner stops the cycle at the
   first instruction it cannot push); everything else happens in any order the policy allows.

   Dynamic instances are numbered by their position in the current fetch stream: instance k is
   the k-th instruction fetched along the path "conditional branches fall through".  When a
   branch resolves taken, the younger instances are squashed and their numbers are reused by the
   instructions fetched at the target: hence instance numbers of surviving instances are exactly
   their positions in the TRUE sequential execution path (theorem path_inv of Ooo/Path.v), and the
   instances after an unresolved, truly taken branch are the wrong-path instances.

   Models only; proofs are in Ooo/Run.v (schedules), Counts.v, Inv*.v, Path.v ... *)
From Coq Require Import ZArith List Lia Arith Bool.
Import ListNotations.

(* ------------------------------------------------------------------ *)
(* Registers, instructions                                             *)
(* ------------------------------------------------------------------ *)

Definition reg := nat.
Definition rfile := reg -> Z.
Definition upd (f : rfile) (d : reg) (v : Z) : rfile :=
  fun r => if Nat.eqb r d then v else f r.

(* plain | conditional branch (or jump) with a target | ret *)
Inductive cls := Plain | Branch (target : nat) | Ret.

(* srcs / dst are the DECLARED registers (ReadRegisters / WriteRegisters of risc/opcodes.go) with
   register Zero removed (risc/app.go ignores Zero everywhere and IsRegisterChange turns a write
   to Zero into no write).  sem receives the values read for srcs, in order.  For a branch the
   outcome is "sem <> 0" (taken). *)
Record instr := { srcs : list reg; dst : option reg; sem : list Z -> Z; kind : cls }.

Definition nop : instr := {| srcs := []; dst := None; sem := fun _ => 0%Z; kind := Plain |}.

(* only plain instructions write a register *)
Definition wr (i : instr) : option reg :=
  match kind i with Plain => dst i | _ => None end.
Definition is_branch (i : instr) : bool := match kind i with Branch _ => true | _ => false end.
Definition is_ret (i : instr) : bool := match kind i with Ret => true | _ => false end.

Definition value (i : instr) (f : rfile) : Z := sem i (map f (srcs i)).
Definition apply (i : instr) (f : rfile) : rfile :=
  match wr i with Some d => upd f d (value i f) | None => f end.

Definition wcount (i : instr) (r : reg) : nat :=
  match wr i with Some d => if Nat.eqb d r then 1 else 0 | None => 0 end.
Definition rcount (i : instr) (r : reg) : nat := count_occ Nat.eq_dec (srcs i) r.

(* ------------------------------------------------------------------ *)
(* Speculative buffer                                                  *)
(* ------------------------------------------------------------------ *)

Record entry := { etag : nat; ereg : reg; eval : Z }.

(* NoBuf   : 4 / 5 / 6.0 / 6.1  write-back goes straight to the register file
   OneSlot : 6.2  ctx.Transaction, one slot per register
   Ring k  : 6.3+ transactionRAT, k slots per register
   Full    : the discipline a repaired 6.2+ would implement: every uncommitted write is kept *)
Inductive bufmode := NoBuf | OneSlot | Ring (k : nat) | Full.

Definition hit (c : nat) (r : reg) (e : entry) : bool := (etag e <? c) && (ereg e =? r).

(* what a read of r sees when only buffered writes of instances < c count: the newest such
   buffered write, else the architectural file.  (registerRead of risc/opcodes.go.) *)
Definition viewc (sb : list entry) (f : rfile) (c : nat) (r : reg) : Z :=
  match find (hit c r) sb with Some e => eval e | None => f r end.

(* keep the n newest entries of register r, and every entry of the other registers *)
Fixpoint trim (n : nat) (r : reg) (sb : list entry) : list entry :=
  match sb with
  | [] => []
  | e :: l => if ereg e =? r
              then match n with O => trim O r l | S n' => e :: trim n' r l end
              else e :: trim n r l
  end.

Definition buf_write (m : bufmode) (sb : list entry) (f : rfile) (tag : nat) (r : reg) (v : Z)
  : list entry * rfile :=
  let e := {| etag := tag; ereg := r; eval := v |} in
  match m with
  | NoBuf => (sb, upd f r v)
  | OneSlot => (e :: filter (fun x => negb (ereg x =? r)) sb, f)
  | Ring k => (e :: trim (pred k) r sb, f)
  | Full => (e :: sb, f)
  end.

(* Commit of the writes of instances < lim (Context.Commit / RATCommit; for lim = the tag of the
   resolved branch this is the committing half of Rollback / RATRollback) *)
Definition commit (lim : nat) (sb : list entry) (f : rfile) : list entry * rfile :=
  (filter (fun e => negb (etag e <? lim)) sb, fun r => viewc sb f lim r).

(* the dropping half of Rollback(b): writes of instances younger than b are dropped *)
Definition rollback (b : nat) (sb : list entry) : list entry :=
  filter (fun e => etag e <=? b) sb.

(* ------------------------------------------------------------------ *)
(* Machine state                                                       *)
(* ------------------------------------------------------------------ *)

(* Disp fw: pushed by the control unit (on the execute bus or in an execute unit), with the
   forwarding source (producer instance, register) if any;  Exec v: executed, result v on its
   way to a write unit (for a branch: outcome computed, flush / commit not yet performed);
   Done: written back / resolved, scoreboard entries released. *)
Inductive status := NotYet | Disp (fw : option (nat * reg)) | Exec (v : Z) | Done.

Definition inflight (x : status) : bool :=
  match x with Disp _ | Exec _ => true | _ => false end.

Record state := {
  rf : rfile;                 (* architectural register file  (ctx.Registers) *)
  sb : list entry;            (* speculative buffer           (ctx.Transaction / transactionRAT) *)
  nxt : nat;                  (* dispatch cursor: number of instances in the fetch stream *)
  cur : nat;                  (* fetch pc of the next instance *)
  ipc : nat -> nat;           (* pc of instance k *)
  stat : nat -> status;
  res : nat -> option Z;      (* result channel of instance k (eu.go Forwarder/Receiver) *)
  pw : reg -> nat;            (* ctx.PendingWriteRegisters *)
  pr : reg -> nat;            (* ctx.PendingReadRegisters *)
  halted : bool;
  fin : bool
}.

Definition setf {A} (f : nat -> A) (j : nat) (x : A) : nat -> A :=
  fun k => if Nat.eqb k j then x else f k.

Definition addw (f : reg -> nat) (i : instr) : reg -> nat := fun r => f r + wcount i r.
Definition addr (f : reg -> nat) (i : instr) : reg -> nat := fun r => f r + rcount i r.
Definition subw (f : reg -> nat) (i : instr) : reg -> nat := fun r => f r - wcount i r.
Definition subr (f : reg -> nat) (i : instr) : reg -> nat := fun r => f r - rcount i r.

Section Machine.
Variable text : list instr.
Variable rf0 : rfile.

Definition at_pc (pc : nat) : instr := nth pc text nop.
Definition ins (s : state) (j : nat) : instr := at_pc (ipc s j).
Definition cur_ins (s : state) : instr := at_pc (cur s).

Definition pendingb (s : state) (j : nat) : bool := inflight (stat s j).
Definition unresb (s : state) (j : nat) : bool := pendingb s j && is_branch (ins s j).

(* what Execute reads: newest buffered value, else the file *)
Definition view (s : state) (r : reg) : Z := viewc (sb s) (rf s) (nxt s) r.

(* oldest unresolved branch in flight, nxt if none *)
Definition first_unres (s : state) : nat :=
  match find (unresb s) (seq 0 (nxt s)) with Some u => u | None => nxt s end.

Definition no_ret (s : state) : bool :=
  forallb (fun j => negb (is_ret (ins s j))) (seq 0 (nxt s)).
Definition all_done (s : state) : bool :=
  forallb (fun j => negb (pendingb s j)) (seq 0 (nxt s)).
Definition older_done (s : state) (e : nat) : bool :=
  forallb (fun j => negb (pendingb s j)) (seq 0 e).

(* release of the scoreboard entries of the pending instances lo+n-1, ..., lo (youngest first) *)
Fixpoint rel_range (s : state) (lo n : nat) (f : reg -> nat)
         (sub : (reg -> nat) -> instr -> reg -> nat) : reg -> nat :=
  match n with
  | O => f
  | S n' => rel_range s lo n'
              (if pendingb s (lo + n') then sub f (ins s (lo + n')) else f) sub
  end.

(* ------------------------------------------------------------------ *)
(* Policy                                                              *)
(* ------------------------------------------------------------------ *)

Record policy := {
  (* may the instance at the cursor be dispatched now, with this forwarding source? *)
  dispatch_ok : state -> option (nat * reg) -> bool;
  exec_ok : state -> nat -> bool;       (* may instance j execute now? *)
  wb_ok : state -> nat -> bool;         (* may instance j write back / resolve now? *)
  exit_ok : state -> nat -> bool;       (* may the ret instance e end the run now? *)
  bufm : bufmode;
  commit_all : bool                     (* 6.2/6.3: a resolved branch commits every older write *)
}.

Variable P : policy.

(* ------------------------------------------------------------------ *)
(* State transformers, one per code site                               *)
(* ------------------------------------------------------------------ *)

(* cu.go pushRunner + ctx.AddPendingRegisters *)
Definition do_dispatch (s : state) (fw : option (nat * reg)) : state :=
  {| rf := rf s; sb := sb s; nxt := S (nxt s); cur := S (cur s);
     ipc := setf (ipc s) (nxt s) (cur s);
     stat := setf (stat s) (nxt s) (Disp fw);
     res := setf (res s) (nxt s) None;
     pw := addw (pw s) (cur_ins s); pr := addr (pr s) (cur_ins s);
     halted := halted s; fin := fin s |}.

(* registerRead: the forwarded value overrides the read of the forward register *)
Definition rd (s : state) (fw : option (nat * reg)) (r : reg) : Z :=
  match fw with
  | Some (p, fr) => if Nat.eqb r fr
                    then match res s p with Some v => v | None => 0%Z end
                    else view s r
  | None => view s r
  end.
Definition fw_ready (s : state) (fw : option (nat * reg)) : bool :=
  match fw with
  | Some (p, _) => match res s p with Some _ => true | None => false end
  | None => true
  end.
Definition exec_val (s : state) (j : nat) (fw : option (nat * reg)) : Z :=
  sem (ins s j) (map (rd s fw) (srcs (ins s j))).

(* eu.go run *)
Definition do_execute (s : state) (j : nat) (v : Z) : state :=
  {| rf := rf s; sb := sb s; nxt := nxt s; cur := cur s; ipc := ipc s;
     stat := setf (stat s) j (Exec v);
     res := setf (res s) j (Some v);
     pw := pw s; pr := pr s; halted := halted s; fin := fin s |}.

(* wu.go: register write (into the file or the buffer) + DeletePendingRegisters *)
Definition wb_res (s : state) (j : nat) (v : Z) : list entry * rfile :=
  match wr (ins s j) with
  | Some d => buf_write (bufm P) (sb s) (rf s) j d v
  | None => (sb s, rf s)
  end.
Definition do_writeback (s : state) (j : nat) (v : Z) : state :=
  {| rf := snd (wb_res s j v); sb := fst (wb_res s j v);
     nxt := nxt s; cur := cur s; ipc := ipc s;
     stat := setf (stat s) j Done; res := res s;
     pw := subw (pw s) (ins s j); pr := subr (pr s) (ins s j);
     halted := halted s; fin := fin s |}.

Definition mark_done (s : state) (b : nat) : state :=
  {| rf := rf s; sb := sb s; nxt := nxt s; cur := cur s; ipc := ipc s;
     stat := setf (stat s) b Done; res := res s;
     pw := subw (pw s) (ins s b); pr := subr (pr s) (ins s b);
     halted := halted s; fin := fin s |}.

Definition do_commit (s : state) (lim : nat) : state :=
  {| rf := snd (commit lim (sb s) (rf s)); sb := fst (commit lim (sb s) (rf s));
     nxt := nxt s; cur := cur s; ipc := ipc s;
     stat := stat s; res := res s; pw := pw s; pr := pr s;
     halted := halted s; fin := fin s |}.

(* bu.go notifyConditionalBranchNotTaken: release the branch, commit *)
Definition do_resolve_nt (s : state) (b : nat) : state :=
  let s1 := mark_done s b in
  do_commit s1 (if commit_all P then nxt s1 else first_unres s1).

(* squash of every instance younger than b (cpu.go flush: the units and buses are emptied,
   the write units drop SequenceID > b), release of their scoreboard entries, fetch re-steered *)
Definition squash (s : state) (b : nat) (t : nat) : state :=
  {| rf := rf s; sb := rollback b (sb s); nxt := S b; cur := t; ipc := ipc s;
     stat := fun j => if j <=? b then stat s j else NotYet; res := res s;
     pw := rel_range s (S b) (nxt s - S b) (pw s) subw;
     pr := rel_range s (S b) (nxt s - S b) (pr s) subr;
     halted := halted s; fin := fin s |}.

(* bu.go notifyConditionalBranchTaken + cpu.go flush: squash, Rollback(b) *)
Definition do_resolve_t (s : state) (b : nat) (t : nat) : state :=
  let s1 := mark_done (squash s b t) b in
  do_commit s1 (if commit_all P then nxt s1 else first_unres s1).

Definition do_exit (s : state) : state :=
  {| rf := rf s; sb := sb s; nxt := nxt s; cur := cur s; ipc := ipc s;
     stat := stat s; res := res s; pw := pw s; pr := pr s;
     halted := true; fin := fin s |}.

(* cpu.go after the loop: ctx.Commit() *)
Definition do_finish (s : state) : state :=
  {| rf := snd (commit (nxt s) (sb s) (rf s)); sb := fst (commit (nxt s) (sb s) (rf s));
     nxt := nxt s; cur := cur s; ipc := ipc s;
     stat := stat s; res := res s; pw := pw s; pr := pr s;
     halted := halted s; fin := true |}.

(* ------------------------------------------------------------------ *)
(* Transitions                                                         *)
(* ------------------------------------------------------------------ *)

Inductive step : state -> state -> Prop :=
| s_dispatch s fw :                                   (* cu.go handleRunner / pushRunner *)
    halted s = false -> cur s < length text ->
    no_ret s = true ->                                (* du.go: decode stops at ret *)
    dispatch_ok P s fw = true ->
    step s (do_dispatch s fw)
| s_execute s j fw :                                  (* eu.go prepareRun / run *)
    halted s = false -> stat s j = Disp fw -> is_ret (ins s j) = false ->
    fw_ready s fw = true -> exec_ok P s j = true ->
    step s (do_execute s j (exec_val s j fw))
| s_writeback s j v :                                 (* wu.go start *)
    halted s = false -> stat s j = Exec v -> is_branch (ins s j) = false ->
    wb_ok P s j = true ->
    step s (do_writeback s j v)
| s_resolve_taken s b v t :                           (* eu.go flush response, cpu.go flush *)
    halted s = false -> stat s b = Exec v -> kind (ins s b) = Branch t ->
    v <> 0%Z -> wb_ok P s b = true ->
    step s (do_resolve_t s b t)
| s_resolve_not_taken s b v t :                       (* bu.go notifyConditionalBranchNotTaken *)
    halted s = false -> stat s b = Exec v -> kind (ins s b) = Branch t ->
    v = 0%Z -> wb_ok P s b = true ->
    step s (do_resolve_nt s b)
| s_exit_ret s e fw :                                 (* eu.go execution.Return, cpu.go if ret *)
    halted s = false -> stat s e = Disp fw -> is_ret (ins s e) = true ->
    exit_ok P s e = true ->
    step s (do_exit s)
| s_exit_end s :                                      (* cpu.go isEmpty(): ran past the text *)
    halted s = false -> length text <= cur s -> all_done s = true ->
    step s (do_exit s)
| s_finish s :                                        (* cpu.go final ctx.Commit() *)
    halted s = true -> fin s = false ->
    step s (do_finish s).

Definition init : state :=
  {| rf := rf0; sb := []; nxt := 0; cur := 0; ipc := fun _ => 0;
     stat := fun _ => NotYet; res := fun _ => None;
     pw := fun _ => 0; pr := fun _ => 0; halted := false; fin := false |}.

Inductive reach : state -> Prop :=
| r_init : reach init
| r_step s s' : reach s -> step s s' -> reach s'.

(* ------------------------------------------------------------------ *)
(* Executable schedules (for kernel-checked witnesses)                 *)
(* ------------------------------------------------------------------ *)

Inductive label :=
| LDispatch (fw : option (nat * reg)) | LExecute (j : nat) | LWriteBack (j : nat)
| LResolve (b : nat) | LExit (e : nat) | LExitEnd | LFinish.

Definition guard (b : bool) (s : state) : option state := if b then Some s else None.

Definition exec_label (l : label) (s : state) : option state :=
  match l with
  | LDispatch fw =>
      guard (negb (halted s) && (cur s <? length text) && no_ret s && dispatch_ok P s fw)
            (do_dispatch s fw)
  | LExecute j =>
      match stat s j with
      | Disp fw => guard (negb (halted s) && negb (is_ret (ins s j)) && fw_ready s fw
                          && exec_ok P s j)
                         (do_execute s j (exec_val s j fw))
      | _ => None
      end
  | LWriteBack j =>
      match stat s j with
      | Exec v => guard (negb (halted s) && negb (is_branch (ins s j)) && wb_ok P s j)
                        (do_writeback s j v)
      | _ => None
      end
  | LResolve b =>
      match stat s b, kind (ins s b) with
      | Exec v, Branch t =>
          guard (negb (halted s) && wb_ok P s b)
                (if Z.eqb v 0 then do_resolve_nt s b else do_resolve_t s b t)
      | _, _ => None
      end
  | LExit e =>
      match stat s e with
      | Disp _ => guard (negb (halted s) && is_ret (ins s e) && exit_ok P s e) (do_exit s)
      | _ => None
      end
  | LExitEnd => guard (negb (halted s) && (length text <=? cur s) && all_done s) (do_exit s)
  | LFinish => guard (halted s && negb (fin s)) (do_finish s)
  end.

Fixpoint run (ls : list label) (s : state) : option state :=
  match ls with
  | [] => Some s
  | l :: ls' => match exec_label l s with Some s' => run ls' s' | None => None end
  end.

(* ------------------------------------------------------------------ *)
(* Sequential semantics (the specification)                            *)
(* ------------------------------------------------------------------ *)

Record sst := { s_pc : nat; s_rf : rfile }.

(* the sequential run ends at a ret or when the pc leaves the text (DESIGN 3.1) *)
Definition halts (st : sst) : bool :=
  match nth_error text (s_pc st) with None => true | Some i => is_ret i end.

Definition adv (st : sst) : sst :=
  match nth_error text (s_pc st) with
  | None => st
  | Some i =>
      match kind i with
      | Ret => st
      | Plain => {| s_pc := S (s_pc st); s_rf := apply i (s_rf st) |}
      | Branch t => {| s_pc := if Z.eqb (value i (s_rf st)) 0 then S (s_pc st) else t;
                       s_rf := s_rf st |}
      end
  end.

Fixpoint seq_at (k : nat) : sst :=
  match k with O => {| s_pc := 0; s_rf := rf0 |} | S k' => adv (seq_at k') end.

Definition path (k : nat) : nat := s_pc (seq_at k).
Definition seq_rf (k : nat) : rfile := s_rf (seq_at k).
Definition halts_at (k : nat) : Prop := halts (seq_at k) = true.

(* straight-line execution of a fetch stream ip : instance number -> pc *)
Fixpoint dyn (ip : nat -> nat) (k : nat) : rfile :=
  match k with O => rf0 | S k' => apply (at_pc (ip k')) (dyn ip k') end.

End Machine.

Arguments reach text rf0 P s.
Arguments step text P s s'.
