(* Ooo/P45.v - MVP-4 / MVP-5: one in-order execute unit with the source interlock of
   proc/mvp4/eu.go (an instruction waits while one of its sources has a pending write, i.e. an
   older instance has executed and not yet written back), results written back in order through
   the one-entry write bus.  There is no WAW / WAR guard: order does the work.  Wrong-path
   instances may execute behind an executed, unresolved branch but can never write back (the
   branch is older and resolves - squashing them - first).

   p45_correct: every program (control flow included), every schedule. *)
From Coq Require Import ZArith List Lia Arith Bool.
From Maj Require Import Ooo.Machine Ooo.Counts Ooo.InvDefs Ooo.InvResolve Ooo.Path Ooo.Policies
  Ooo.Guards.
Import ListNotations.

Section P45.
Variable text : list instr.
Variable rf0 : rfile.

Notation P := (P45 text).
Notation writes := (writes text).
Notation ins := (ins text).
Notation D := (D text rf0).
Notation dval := (dval text rf0).

(* Done^w Exec^(x-w) Disp^(nxt-x); the file is the stream-sequential state after w instances *)
Definition Inv45 (s : state) : Prop :=
  sb s = [] /\
  exists w x, w <= x <= nxt s /\
    (forall j, j < w -> stat s j = Done) /\
    (forall j, w <= j < x -> exists v, stat s j = Exec v /\ v = dval s j) /\
    (forall j, x <= j < nxt s -> stat s j = Disp None) /\
    (forall r, rf s r = D s w r).

Lemma inv45_init : Inv45 (init rf0).
Proof.
  split; [reflexivity|]. exists 0, 0. simpl. repeat split; auto; intros; lia.
Qed.

Lemma exec45_spec s j : exec45 text s j = true ->
  (forall x, x < j -> is_disp (stat s x) = false) /\
  (forall r x, In r (srcs (ins s j)) -> x < j ->
               is_exec (stat s x) = true -> ~ writes s x r).
Proof.
  unfold exec45. intros H. apply andb_prop in H. destruct H as [H1 H2].
  rewrite forallb_forall in H1. rewrite forallb_forall in H2. split.
  - intros x Hx. apply negb_true_iff. apply H1. apply in_seq. lia.
  - intros r x Hr Hx He Hw. specialize (H2 r Hr). rewrite forallb_forall in H2.
    specialize (H2 x). rewrite in_seq in H2. specialize (H2 ltac:(lia)).
    rewrite He in H2. apply (wr_is_spec) in Hw. rewrite Hw in H2. discriminate.
Qed.

Lemma commit_nil lim f : fst (commit lim [] f) = [] /\ forall r, snd (commit lim [] f) r = f r.
Proof. split; reflexivity. Qed.

Lemma inv45_step s s' : Base text s -> Inv45 s -> step text P s s' -> fin s' = false ->
  Inv45 s'.
Proof.
  intros B [Hsb (w & x & Hwx & Hd & He & Hp & Hrf)] H Hfin.
  inversion H; subst; clear H.
  - (* dispatch *)
    simpl in H3. destruct fw; [discriminate|].
    split; [exact Hsb|]. exists w, x. simpl.
    assert (HD : forall c, c <= nxt s -> D (do_dispatch text s None) c = D s c).
    { intros c Hc. apply D_ext. intros k Hk. simpl. rewrite setf_other; auto. lia. }
    repeat split; try lia.
    + intros j Hj. rewrite setf_other by lia. auto.
    + intros j Hj. rewrite setf_other by lia. destruct (He j Hj) as (v & E1 & E2).
      exists v. split; auto. rewrite E2. symmetry. apply dval_ext.
      intros k Hk. simpl. rewrite setf_other; auto. lia.
    + intros j Hj. destruct (Nat.eq_dec j (nxt s)) as [->|].
      * now rewrite setf_same.
      * rewrite setf_other by auto. apply Hp. lia.
    + intros r. rewrite HD by lia. apply Hrf.
  - (* execute: necessarily the oldest dispatched instance *)
    destruct (exec45_spec s j H4) as [Ho Hi].
    assert (Hjn : j < nxt s) by (apply (stat_lt text s j B); congruence).
    assert (Hjx : j = x).
    { destruct (lt_eq_lt_dec j x) as [[Hl|Hl]|Hl]; auto; exfalso.
      - destruct (Nat.lt_ge_cases j w) as [Hjw|Hjw].
        + rewrite (Hd j Hjw) in H1. discriminate.
        + destruct (He j ltac:(lia)) as (v & E & _). congruence.
      - specialize (Ho x Hl). rewrite (Hp x ltac:(lia)) in Ho. discriminate. }
    subst j. assert (fw = None) by (rewrite (Hp x ltac:(lia)) in H1; congruence). subst fw.
    assert (Hv : exec_val text s x None = dval s x).
    { unfold exec_val, InvDefs.dval, value. f_equal. apply map_ext_in. intros r Hr.
      simpl. unfold view. rewrite Hsb, viewc_nil, Hrf. symmetry.
      apply D_stable; [lia|]. intros m Hm.
      destruct (He m Hm) as (v & E & _). apply (Hi r m Hr); [lia|]. now rewrite E. }
    rewrite Hv. split; [exact Hsb|]. exists w, (S x). simpl. repeat split; try lia.
    + intros j Hj. rewrite setf_other by lia. auto.
    + intros j Hj. destruct (Nat.eq_dec j x) as [->|].
      * rewrite setf_same. eauto.
      * rewrite setf_other by auto. apply He. lia.
    + intros j Hj. rewrite setf_other by lia. apply Hp. lia.
    + exact Hrf.
  - (* write-back: necessarily the oldest executed instance *)
    simpl in H3. pose proof (older_done_spec s j H3) as Ho.
    assert (Hjw : j = w).
    { destruct (lt_eq_lt_dec j w) as [[Hl|Hl]|Hl]; auto; exfalso.
      - rewrite (Hd j Hl) in H1. discriminate.
      - specialize (Ho w Hl). unfold pendingb in Ho.
        destruct (Nat.lt_ge_cases w x) as [Hx|Hx].
        + destruct (He w ltac:(lia)) as (v0 & E & _). rewrite E in Ho. discriminate.
        + assert (Hjn : j < nxt s) by (apply (stat_lt text s j B); congruence).
          rewrite (Hp w ltac:(lia)) in Ho. discriminate. }
    subst j.
    assert (Hwx' : w < x).
    { destruct (Nat.lt_ge_cases w x); auto. exfalso.
      assert (Hjn : w < nxt s) by (apply (stat_lt text s w B); congruence).
      rewrite (Hp w ltac:(lia)) in H1. discriminate. }
    destruct (He w ltac:(lia)) as (v0 & E & Hv0). rewrite E in H1. inversion H1; subst v0.
    split.
    + simpl. unfold wb_res. destruct (wr (ins s w)); simpl; auto.
    + exists (S w), x. simpl. repeat split; try lia.
      * intros j Hj. destruct (Nat.eq_dec j w) as [->|].
        -- now rewrite setf_same.
        -- rewrite setf_other by auto. apply Hd. lia.
      * intros j Hj. rewrite setf_other by lia. apply He. lia.
      * intros j Hj. rewrite setf_other by lia. apply Hp. lia.
      * intros r. change (D (do_writeback text P s w v) (S w) r) with (D s (S w) r).
        rewrite D_S. unfold apply, wb_res.
        destruct (wr (ins s w)) as [d|] eqn:Ew; simpl; [|apply Hrf].
        unfold upd. destruct (Nat.eqb_spec r d); [|apply Hrf].
        symmetry. exact H4.
  - (* branch taken: b = w, everything younger is squashed *)
    simpl in H4. pose proof (older_done_spec s b H4) as Ho.
    assert (Hbn : b < nxt s) by (apply (stat_lt text s b B); congruence).
    assert (Hbw : b = w).
    { destruct (lt_eq_lt_dec b w) as [[Hl|Hl]|Hl]; auto; exfalso.
      - rewrite (Hd b Hl) in H1. discriminate.
      - specialize (Ho w Hl). unfold pendingb in Ho.
        destruct (Nat.lt_ge_cases w x) as [Hx|Hx].
        + destruct (He w ltac:(lia)) as (v0 & E & _). rewrite E in Ho. discriminate.
        + rewrite (Hp w ltac:(lia)) in Ho. discriminate. }
    subst b. unfold do_resolve_t. simpl commit_all. cbv iota.
    split.
    + simpl. rewrite Hsb. reflexivity.
    + exists (S w), (S w). simpl. repeat split; try lia.
      * intros j Hj. destruct (Nat.eq_dec j w) as [->|].
        -- now rewrite setf_same.
        -- rewrite setf_other by auto. destruct (Nat.leb_spec j w); [|lia]. apply Hd. lia.
      * intros r. rewrite Hsb. simpl. rewrite D_S, apply_other.
        -- apply Hrf.
        -- change (wr (ins s w) <> Some r).
           rewrite branch_no_write; [discriminate|]. unfold is_branch. now rewrite H2.
  - (* branch not taken: b = w *)
    simpl in H4. pose proof (older_done_spec s b H4) as Ho.
    assert (Hbn : b < nxt s) by (apply (stat_lt text s b B); congruence).
    assert (Hbw : b = w).
    { destruct (lt_eq_lt_dec b w) as [[Hl|Hl]|Hl]; auto; exfalso.
      - rewrite (Hd b Hl) in H1. discriminate.
      - specialize (Ho w Hl). unfold pendingb in Ho.
        destruct (Nat.lt_ge_cases w x) as [Hx|Hx].
        + destruct (He w ltac:(lia)) as (v0 & E & _). rewrite E in Ho. discriminate.
        + rewrite (Hp w ltac:(lia)) in Ho. discriminate. }
    subst b.
    assert (Hwx' : w < x).
    { destruct (Nat.lt_ge_cases w x); auto. exfalso.
      rewrite (Hp w ltac:(lia)) in H1. discriminate. }
    unfold do_resolve_nt. simpl commit_all. cbv iota.
    split.
    + simpl. rewrite Hsb. reflexivity.
    + exists (S w), x. simpl. repeat split; try lia.
      * intros j Hj. destruct (Nat.eq_dec j w) as [->|].
        -- now rewrite setf_same.
        -- rewrite setf_other by auto. apply Hd. lia.
      * intros j Hj. rewrite setf_other by lia. apply He. lia.
      * intros j Hj. rewrite setf_other by lia. apply Hp. lia.
      * intros r. rewrite Hsb. simpl. rewrite D_S, apply_other.
        -- apply Hrf.
        -- change (wr (ins s w) <> Some r).
           rewrite branch_no_write; [discriminate|]. unfold is_branch. now rewrite H2.
  - split; [exact Hsb|]. exists w, x. exact (conj Hwx (conj Hd (conj He (conj Hp Hrf)))).
  - split; [exact Hsb|]. exists w, x. exact (conj Hwx (conj Hd (conj He (conj Hp Hrf)))).
  - simpl in Hfin. discriminate.
Qed.

Lemma reach_inv45 s : reach text rf0 P s -> fin s = false -> Inv45 s.
Proof.
  induction 1 as [|s s' R IH H]; intros Hf; [apply inv45_init|].
  apply (inv45_step s s'); auto.
  - eapply reach_base; eauto.
  - apply IH. eapply fin_step; eauto.
Qed.

Theorem p45_correct s : reach text rf0 P s -> fin s = true ->
  exists e, halts_at text rf0 e /\ forall r, rf s r = seq_rf text rf0 e r.
Proof.
  apply (ooo_correct_gen text rf0 P).
  - intros s0 e H. simpl in H. now apply older_done_spec.
  - intros s0 R Hf j v Hs.
    destruct (reach_inv45 s0 R Hf) as [_ (w & x & Hwx & Hd & He & Hp & _)].
    assert (B : Base text s0) by (eapply reach_base; eauto).
    assert (Hj : j < nxt s0) by (apply (stat_lt text s0 j B); congruence).
    destruct (Nat.lt_ge_cases j w) as [H1|H1]; [rewrite (Hd j H1) in Hs; discriminate|].
    destruct (Nat.lt_ge_cases j x) as [H2|H2].
    + destruct (He j ltac:(lia)) as (v0 & E & Hv). congruence.
    + rewrite (Hp j ltac:(lia)) in Hs. discriminate.
  - intros s0 R Hf _ Hnw r.
    destruct (reach_inv45 s0 R Hf) as [Hsb (w & x & Hwx & Hd & He & Hp & Hrf)].
    rewrite Hsb, viewc_nil, Hrf. symmetry. apply D_stable; [lia|].
    intros m Hm. apply Hnw. unfold pending, pendingb.
    destruct (Nat.lt_ge_cases m x) as [H2|H2].
    + destruct (He m ltac:(lia)) as (v0 & E & _). now rewrite E.
    + now rewrite (Hp m ltac:(lia)).
Qed.

End P45.
