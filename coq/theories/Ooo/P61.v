(* Ooo/P61.v - forwarding (proc/mvp6-1/cu.go shouldUseForwarding, eu.go Receiver/Forwarder).

   forward_unique   : in every reachable state the forwarding source accepted by the guard is
                      unique (at most one pending writer of the hazard register)
   forward_value    : the value received through the channel is the sequential value of the
                      forward register just before the consumer
   p61_correct      : 6.1 as it is, branch-free programs, every schedule
   p61ns_correct    : 6.1 + no speculation, every program, every schedule *)
From Coq Require Import ZArith List Lia Arith Bool.
From Maj Require Import Ooo.Machine Ooo.Counts Ooo.InvDefs Ooo.InvSteps Ooo.InvResolve Ooo.Path
  Ooo.Policies Ooo.Guards Ooo.P60.
Import ListNotations.

Section P61.
Variable text : list instr.
Variable rf0 : rfile.

Notation halts_at := (halts_at text rf0).
Notation seq_rf := (seq_rf text rf0).

Lemma sound_P61ns : sound_policy text rf0 (P61ns text).
Proof.
  constructor.
  - intros s fw B C I H. simpl in H. apply andb_prop in H. destruct H as [H _].
    eapply guard61_safe; eauto.
  - right. split; auto. intros s fw B H. simpl in H. apply andb_prop in H.
    destruct H as [_ H]. now apply (no_unres_spec text).
  - reflexivity.
  - intros s e H. now apply older_done_spec.
Qed.

Theorem p61ns_correct s : reach text rf0 (P61ns text) s -> fin s = true ->
  exists e, halts_at e /\ forall r, rf s r = seq_rf e r.
Proof. apply ooo_correct. apply sound_P61ns. Qed.

Lemma reach_P61_straight s : straight text ->
  reach text rf0 (P61 text) s -> reach text rf0 (P61ns text) s.
Proof.
  intros Hs. apply reach_sim; try reflexivity.
  intros s0 fw H. simpl in *. rewrite H. now rewrite straight_no_unres.
Qed.

(* 6.1 as it is, branch-free programs: every schedule gives the sequential register file *)
Theorem p61_correct s : straight text -> reach text rf0 (P61 text) s -> fin s = true ->
  exists e, halts_at e /\ forall r, rf s r = seq_rf e r.
Proof. intros Hs R. apply p61ns_correct. now apply reach_P61_straight. Qed.

Theorem p61_correct_straight s : plain_text text ->
  reach text rf0 (P61 text) s -> fin s = true -> forall r, rf s r = run_straight text rf0 r.
Proof.
  intros Hp R Hf r. destruct (p61_correct s (plain_straight text Hp) R Hf) as (e & He & H).
  rewrite H. now apply halts_straight.
Qed.

(* ---------- forwarding, for every sound policy ---------- *)

Section Fwd.
Variable P : policy.
Hypothesis SP : sound_policy text rf0 P.

Theorem forward_unique s p r p' r' : reach text rf0 P s -> fin s = false ->
  guard61 text s (Some (p, r)) = true -> guard61 text s (Some (p', r')) = true ->
  p = p' /\ r = r'.
Proof.
  intros R Hf. apply (forward_unique_inv text rf0 P).
  - eapply reach_base; eauto.
  - eapply scoreboard_counts; eauto.
  - now apply (reach_inv text rf0 P SP).
Qed.

(* the forwarded value is the value the sequential execution of the stream has in r just
   before the consumer *)
Theorem forward_value s i p r v : reach text rf0 P s -> fin s = false ->
  stat s i = Disp (Some (p, r)) -> res s p = Some v -> v = D text rf0 s i r.
Proof.
  intros R Hf Hs Hr.
  assert (B : Base text s) by (eapply reach_base; eauto).
  assert (I : Inv text rf0 P s) by (now apply (reach_inv text rf0 P SP)).
  rewrite (fwd_value text rf0 P s i p r I Hs).
  destruct (i_fwd _ _ _ _ I i p r Hs) as (Hpi & _).
  apply (i_res _ _ _ _ I p v); auto.
  assert (i < nxt s) by (apply (stat_lt text s i B); congruence). lia.
Qed.
End Fwd.

(* for 6.1 as it is on branch-free programs *)
Theorem forward_unique_P61 s p r p' r' : straight text ->
  reach text rf0 (P61 text) s -> fin s = false ->
  guard61 text s (Some (p, r)) = true -> guard61 text s (Some (p', r')) = true ->
  p = p' /\ r = r'.
Proof.
  intros Hs R. apply (forward_unique (P61ns text) sound_P61ns). now apply reach_P61_straight.
Qed.

End P61.
