(* Ooo/InvDefs.v - the master invariant of the abstract machine (stream level) and the
   hypotheses on a policy under which it is inductive (sound_policy).

   The invariant is stated relative to the FETCH STREAM: D s k = the register file obtained by
   executing instances 0..k-1 of the stream one after the other.  Wrong-path instances are not
   special at this level: they are simply younger instances, and the buffer discipline has to
   make every cut of the stream just after an unresolved branch recoverable.  That is what the
   cut-indexed conjuncts i_clean / i_dirty say: for every SAFE cut c (c = nxt, or c is above some
   unresolved branch) the registers as seen through the buffered writes of instances < c hold
   the stream-sequential values.  Ooo/Path.v relates the stream to the true path. *)
From Coq Require Import ZArith List Lia Arith Bool.
From Maj Require Import Ooo.Machine Ooo.Counts.
Import ListNotations.

(* ---------- buffer facts ---------- *)

Inductive bsorted : list entry -> Prop :=
| bs_nil : bsorted []
| bs_cons e l : (forall e', In e' l -> ereg e' = ereg e -> etag e' < etag e) ->
                bsorted l -> bsorted (e :: l).

Lemma bsorted_filter p l : bsorted l -> bsorted (filter p l).
Proof.
  induction 1 as [|e l H Hs IH]; simpl; [constructor|].
  destruct (p e); auto. constructor; auto.
  intros e' He'. apply filter_In in He'. destruct He'. now apply H.
Qed.

Lemma viewc_nil f c r : viewc [] f c r = f r.
Proof. reflexivity. Qed.

Lemma viewc_cons e sb f c r :
  viewc (e :: sb) f c r = if hit c r e then eval e else viewc sb f c r.
Proof. unfold viewc. simpl. destruct (hit c r e); reflexivity. Qed.

Lemma viewc_fext sb f g c r : f r = g r -> viewc sb f c r = viewc sb g c r.
Proof. unfold viewc. destruct (find (hit c r) sb); auto. Qed.

Lemma viewc_noreg sb f c r : (forall e, In e sb -> ereg e <> r) -> viewc sb f c r = f r.
Proof.
  induction sb as [|e sb IH]; intros H; [reflexivity|].
  rewrite viewc_cons. unfold hit.
  destruct (Nat.eqb_spec (ereg e) r) as [E|E].
  - exfalso. apply (H e); simpl; auto.
  - rewrite andb_false_r. apply IH. intros e' He'. apply H. simpl; auto.
Qed.

Lemma viewc_mono sb f c1 c2 r :
  (forall e, In e sb -> etag e < c1) -> c1 <= c2 -> viewc sb f c2 r = viewc sb f c1 r.
Proof.
  induction sb as [|e sb IH]; intros H Hc; [reflexivity|].
  rewrite !viewc_cons. unfold hit.
  assert (He : etag e < c1) by (apply H; simpl; auto).
  destruct (Nat.ltb_spec (etag e) c1); [|lia].
  destruct (Nat.ltb_spec (etag e) c2); [|lia].
  simpl. destruct (ereg e =? r); auto. apply IH; auto. intros; apply H; simpl; auto.
Qed.

Lemma viewc_rollback sb f b c r : c <= S b -> viewc (rollback b sb) f c r = viewc sb f c r.
Proof.
  intros Hc. induction sb as [|e sb IH]; [reflexivity|].
  unfold rollback in *. simpl. rewrite viewc_cons.
  destruct (Nat.leb_spec (etag e) b).
  - rewrite viewc_cons. destruct (hit c r e); auto.
  - unfold hit. destruct (Nat.ltb_spec (etag e) c); [lia|]. simpl. exact IH.
Qed.

Lemma viewc_commit sb f lim c r : bsorted sb -> lim <= c ->
  viewc (fst (commit lim sb f)) (snd (commit lim sb f)) c r = viewc sb f c r.
Proof.
  unfold commit. simpl. intros Hs Hc. induction Hs as [|e sb He Hs IH]; [reflexivity|].
  simpl. destruct (Nat.ltb_spec (etag e) lim) as [Hlt|Hge]; simpl.
  - (* e is committed *)
    rewrite (viewc_cons e sb f c r). unfold hit.
    destruct (Nat.ltb_spec (etag e) c); [|lia]. simpl.
    destruct (Nat.eqb_spec (ereg e) r) as [E|E].
    + rewrite viewc_noreg.
      * rewrite viewc_cons. unfold hit. rewrite (proj2 (Nat.ltb_lt _ _) Hlt).
        rewrite (proj2 (Nat.eqb_eq _ _) E). reflexivity.
      * intros e' He' Er. apply filter_In in He'. destruct He' as [Hin Hk].
        assert (etag e' < etag e) by (apply He; auto; congruence).
        apply negb_true_iff in Hk. apply Nat.ltb_ge in Hk. lia.
    + rewrite <- IH. apply viewc_fext. rewrite viewc_cons. unfold hit.
      rewrite (proj2 (Nat.eqb_neq _ _) E). now rewrite andb_false_r.
  - (* e stays *)
    rewrite !viewc_cons. destruct (hit c r e) eqn:Eh; auto.
    rewrite <- IH. apply viewc_fext. rewrite viewc_cons. unfold hit.
    rewrite (proj2 (Nat.ltb_ge _ _) Hge). reflexivity.
Qed.

Section Inv.
Variable text : list instr.
Variable rf0 : rfile.
Variable P : policy.

Notation pending := (pending).
Notation writes := (writes text).
Notation reads := (reads text).
Notation unres := (unres text).
Notation ins := (ins text).

(* ---------- the stream-sequential reference ---------- *)

Definition D (s : state) (k : nat) : rfile := dyn text rf0 (ipc s) k.
Definition dval (s : state) (j : nat) : Z := value (ins s j) (D s j).

Lemma dyn_ext ip ip' n : (forall k, k < n -> ip k = ip' k) -> dyn text rf0 ip n = dyn text rf0 ip' n.
Proof.
  induction n as [|n IH]; intros H; simpl; auto.
  rewrite IH, H; auto.
Qed.

Lemma apply_other i f r : wr i <> Some r -> apply i f r = f r.
Proof.
  unfold apply. destruct (wr i) as [d|]; auto. intros H. apply upd_other. congruence.
Qed.

Lemma apply_same i f r : wr i = Some r -> apply i f r = value i f.
Proof. unfold apply. intros ->. apply upd_same. Qed.

Lemma D_S s k : D s (S k) = apply (ins s k) (D s k).
Proof. reflexivity. Qed.

Lemma D_stable s a b r : a <= b -> (forall m, a <= m < b -> ~ writes s m r) -> D s b r = D s a r.
Proof.
  induction 1 as [|b Hle IH]; intros H; auto.
  rewrite D_S, apply_other.
  - apply IH. intros m Hm. apply H. lia.
  - apply (H b). lia.
Qed.

Lemma D_write s j r : writes s j r -> D s (S j) r = dval s j.
Proof. intros H. rewrite D_S. now apply apply_same. Qed.

Lemma D_ext s s' n : (forall k, k < n -> ipc s' k = ipc s k) -> D s' n = D s n.
Proof. intros H. unfold D. now apply dyn_ext. Qed.

Lemma dval_ext s s' j : (forall k, k <= j -> ipc s' k = ipc s k) -> dval s' j = dval s j.
Proof.
  intros H. unfold dval, ins. rewrite H by lia. rewrite (D_ext s s'); auto.
  intros; apply H; lia.
Qed.

Lemma writes_dec s j r : {writes s j r} + {~ writes s j r}.
Proof.
  unfold Counts.writes. destruct (wr (ins s j)) as [d|].
  - destruct (Nat.eq_dec d r); [left|right]; congruence.
  - right. discriminate.
Qed.

(* ---------- safe cuts ---------- *)

Definition safe (s : state) (c : nat) : Prop :=
  c <= nxt s /\ (c = nxt s \/ exists u, u < c /\ unres s u).

Lemma safe_top s : safe s (nxt s).
Proof. split; auto. Qed.

(* ---------- the invariant ---------- *)

Record Inv (s : state) : Prop := {
  (* a pending writer of r is the last writer of r in the stream *)
  i_waw : forall j r, pending s j -> writes s j r -> forall m, j < m < nxt s -> ~ writes s m r;
  (* a pending reader of r has no younger writer of r in the stream *)
  i_war : forall j r, pending s j -> reads s j r -> forall m, j < m < nxt s -> ~ writes s m r;
  (* at every safe cut, a register without pending writer below the cut is up to date ... *)
  i_clean : forall c r, safe s c -> (forall j, j < c -> pending s j -> ~ writes s j r) ->
            viewc (sb s) (rf s) c r = D s c r;
  (* ... and a register with a pending writer j still has the value before j *)
  i_dirty : forall c j r, safe s c -> j < c -> pending s j -> writes s j r ->
            viewc (sb s) (rf s) c r = D s j r;
  (* no older pending writer of a source that is not forwarded *)
  i_raw : forall i fw r, stat s i = Disp fw -> reads s i r -> (forall p, fw <> Some (p, r)) ->
          forall j, j < i -> pending s j -> ~ writes s j r;
  (* the forwarding source is the last older writer of the forward register *)
  i_fwd : forall i p r, stat s i = Disp (Some (p, r)) ->
          p < i /\ writes s p r /\ forall m, p < m < i -> ~ writes s m r;
  i_exec : forall j v, stat s j = Exec v -> v = dval s j;
  i_res : forall j v, j < nxt s -> res s j = Some v -> v = dval s j;
  (* buffered writes belong to written-back writers of the stream *)
  i_sb : forall e, In e (sb s) ->
         etag e < nxt s /\ stat s (etag e) = Done /\ writes s (etag e) (ereg e);
  i_sorted : bsorted (sb s);
  (* without a buffer nothing is in flight behind an unresolved branch *)
  i_direct : bufm P = NoBuf -> sb s = [] /\ forall u, unres s u -> S u = nxt s
}.

(* ---------- what a policy must guarantee ---------- *)

Record safe_dispatch (s : state) (fw : option (nat * reg)) : Prop := {
  sd_raw : forall r, In r (srcs (cur_ins text s)) ->
           forall j, pending s j -> writes s j r -> fw = Some (j, r);
  sd_waw : forall d, wr (cur_ins text s) = Some d -> forall j, pending s j -> ~ writes s j d;
  sd_war : forall d, wr (cur_ins text s) = Some d -> forall j, pending s j -> ~ reads s j d;
  sd_fw : forall p r, fw = Some (p, r) -> pending s p /\ writes s p r
}.

Record sound_policy : Prop := {
  sp_dispatch : forall s fw, Base text s -> counts_ok text s -> Inv s ->
                dispatch_ok P s fw = true -> safe_dispatch s fw;
  (* either every write is buffered, or nothing is dispatched past an unresolved branch *)
  sp_buf : bufm P = Full \/
           (bufm P = NoBuf /\
            forall s fw, Base text s -> dispatch_ok P s fw = true -> forall u, ~ unres s u);
  sp_commit : commit_all P = false;
  sp_exit : forall s e, exit_ok P s e = true -> forall j, j < e -> pendingb s j = false
}.

(* ---------- consequences used everywhere ---------- *)

Lemma pending_uniq s j j' r : Base text s -> Inv s ->
  pending s j -> pending s j' -> writes s j r -> writes s j' r -> j = j'.
Proof.
  intros B I Hp Hp' Hw Hw'.
  destruct (lt_eq_lt_dec j j') as [[H|H]|H]; auto; exfalso.
  - apply (i_waw s I j r Hp Hw j'); auto. split; auto. now apply (pending_lt text).
  - apply (i_waw s I j' r Hp' Hw' j); auto. split; auto. now apply (pending_lt text).
Qed.

Lemma disp_pending s i fw : stat s i = Disp fw -> pending s i.
Proof. intros H. unfold Counts.pending, pendingb. now rewrite H. Qed.
Lemma exec_pending s i v : stat s i = Exec v -> pending s i.
Proof. intros H. unfold Counts.pending, pendingb. now rewrite H. Qed.

(* the value a dispatched instance will read for a source that is not forwarded, at any safe
   cut above it *)
Lemma src_value s i fw r c : Base text s -> Inv s ->
  stat s i = Disp fw -> reads s i r -> (forall p, fw <> Some (p, r)) ->
  safe s c -> i < c -> viewc (sb s) (rf s) c r = D s i r.
Proof.
  intros B I Hs Hr Hnf Hc Hic.
  assert (Hp : pending s i) by (eapply disp_pending; eauto).
  destruct Hc as [Hcn Hc'].
  destruct (writes_dec s i r) as [Hw|Hw].
  - apply (i_dirty s I c i r); auto. split; auto.
  - rewrite (i_clean s I c r).
    + apply D_stable; [lia|]. intros m Hm. destruct (Nat.eq_dec m i) as [->|]; auto.
      apply (i_war s I i r Hp Hr). lia.
    + split; auto.
    + intros j Hj Hpj. destruct (lt_eq_lt_dec j i) as [[H|H]|H].
      * apply (i_raw s I i fw r Hs Hr Hnf j H Hpj).
      * now subst.
      * apply (i_war s I i r Hp Hr). lia.
Qed.

(* the forwarded value is the stream-sequential one *)
Lemma fwd_value s i p r : Inv s -> stat s i = Disp (Some (p, r)) -> D s i r = dval s p.
Proof.
  intros I Hs. destruct (i_fwd s I i p r Hs) as (Hpi & Hw & Hno).
  rewrite <- (D_write s p r Hw). apply D_stable; [lia|].
  intros m Hm. apply Hno. lia.
Qed.

(* C04 raw_value at the stream level: Execute reads, for every declared source, the value the
   stream-sequential execution has just before the instance *)
Lemma rd_value s i fw r : Base text s -> Inv s ->
  stat s i = Disp fw -> fw_ready s fw = true -> reads s i r -> rd s fw r = D s i r.
Proof.
  intros B I Hs Hf Hr.
  assert (Hlt : i < nxt s) by (apply (stat_lt text); auto; congruence).
  unfold rd. destruct fw as [[p fr]|].
  - destruct (Nat.eqb_spec r fr) as [->|Hne].
    + simpl in Hf. destruct (res s p) as [v|] eqn:Er; [|discriminate].
      rewrite (fwd_value s i p fr I Hs).
      destruct (i_fwd s I i p fr Hs) as (Hpi & _).
      apply (i_res s I p v); auto. lia.
    + unfold view. eapply src_value; eauto using safe_top. intros p' E. congruence.
  - unfold view. eapply src_value; eauto using safe_top. discriminate.
Qed.

Lemma exec_value s i fw : Base text s -> Inv s ->
  stat s i = Disp fw -> fw_ready s fw = true -> exec_val text s i fw = dval s i.
Proof.
  intros B I Hs Hf. unfold exec_val, dval, value. f_equal.
  apply map_ext_in. intros r Hr. eapply rd_value; eauto.
Qed.

End Inv.
