(* Ooo/Examples.v - the hypotheses of the main theorems are satisfiable: concrete programs run
   to completion under concrete (overtaking) schedules of each sound policy, and the result is
   the sequential one.  All closed by vm_compute. *)
From Coq Require Import ZArith List Lia Arith Bool.
From Maj Require Import Ooo.Machine Ooo.Run Ooo.Counts Ooo.Policies Ooo.Refute.
Import ListNotations.

Definition final_is (text : list instr) (rf0 : rfile) (e : nat) (rs : list reg) (s : state) : bool :=
  fin s && halts text (seq_at text rf0 e)
  && forallb (fun r => Z.eqb (rf s r) (seq_rf text rf0 e r)) rs.

Lemma final_by text rf0 P ls e rs :
  match run text P ls (init rf0) with Some s => final_is text rf0 e rs s | None => false end = true ->
  exists s, reach text rf0 P s /\ fin s = true /\ halts_at text rf0 e /\
            forall r, In r rs -> rf s r = seq_rf text rf0 e r.
Proof.
  intros H. destruct (witness text rf0 P ls (final_is text rf0 e rs) H) as (s & R & Hb).
  unfold final_is in Hb. apply andb_prop in Hb. destruct Hb as [Hb H3].
  apply andb_prop in Hb. destruct Hb as [H1 H2].
  exists s. repeat split; auto. intros r Hr. rewrite forallb_forall in H3.
  now apply Z.eqb_eq, H3.
Qed.

(* ---------- P60: straight-line, completion out of order ---------- *)

(*  0: li r1, 5    1: addi r2, r1, 1    2: li r3, 2        (runs off the end of the text) *)
Definition ex60_text := [li 1 5; addi 2 1 1; li 3 2].
Definition ex60_sched :=
  [LDispatch None; LExecute 0; LWriteBack 0;   (* addi must wait: RAW on r1 *)
   LDispatch None; LDispatch None;
   LExecute 2; LWriteBack 2;                   (* the younger li completes first *)
   LExecute 1; LWriteBack 1; LExitEnd; LFinish].

Example ex_p60 :
  exists s, reach ex60_text (regs []) (P60 ex60_text) s /\ fin s = true /\
            halts_at ex60_text (regs []) 3 /\
            forall r, In r [1; 2; 3] -> rf s r = seq_rf ex60_text (regs []) 3 r.
Proof. apply (final_by _ _ _ ex60_sched). vm_compute. reflexivity. Qed.

(* ---------- P61: the same program, addi dispatched at once with forwarding ---------- *)

Definition ex61_sched :=
  [LDispatch None; LDispatch (Some (0, 1)); LDispatch None;
   LExecute 0; LExecute 2; LWriteBack 2;
   LExecute 1;                                  (* receives 5 through the channel *)
   LWriteBack 1; LWriteBack 0; LExitEnd; LFinish].

Example ex_p61 :
  exists s, reach ex60_text (regs []) (P61 ex60_text) s /\ fin s = true /\
            halts_at ex60_text (regs []) 3 /\
            forall r, In r [1; 2; 3] -> rf s r = seq_rf ex60_text (regs []) 3 r.
Proof. apply (final_by _ _ _ ex61_sched). vm_compute. reflexivity. Qed.

(* a state in which the hypotheses of raw_value / forward_value / forward_unique hold:
   instance 1 dispatched with forwarding source (0, r1), producer executed *)
Definition ex61_mid : state :=
  match run ex60_text (P61 ex60_text)
            [LDispatch None; LDispatch (Some (0, 1)); LExecute 0] (init (regs [])) with
  | Some s => s | None => init (regs []) end.

Lemma run_or_init_reach text rf0 P ls :
  reach text rf0 P (match run text P ls (init rf0) with Some s => s | None => init rf0 end).
Proof.
  destruct (run text P ls (init rf0)) as [s|] eqn:E; [|constructor].
  eapply run_reach; [constructor|exact E].
Qed.

Example ex_forward_state :
  reach ex60_text (regs []) (P61 ex60_text) ex61_mid /\ fin ex61_mid = false /\
  stat ex61_mid 1 = Disp (Some (0, 1)) /\ fw_ready ex61_mid (Some (0, 1)) = true /\
  reads ex60_text ex61_mid 1 1 /\ writes ex60_text ex61_mid 0 1 /\
  res ex61_mid 0 = Some 5%Z /\ rd ex61_mid (Some (0, 1)) 1 = 5%Z.
Proof.
  split; [apply run_or_init_reach|]. repeat split; try reflexivity.
  vm_compute. auto.
Qed.

(* ---------- P62r: speculation past two branches, wrong-path writes dropped ---------- *)

Example ex_spec_nested :
  exists s, reach nested_text nested_rf0 (P62r nested_text) s /\ fin s = true /\
            halts_at nested_text nested_rf0 1 /\
            forall r, In r [1; 2; 3] -> rf s r = seq_rf nested_text nested_rf0 1 r.
Proof. apply (final_by _ _ _ nested_sched). vm_compute. reflexivity. Qed.

Example ex_spec_oneslot_program :
  exists s, reach oneslot_text oneslot_rf0 (P62r oneslot_text) s /\ fin s = true /\
            halts_at oneslot_text oneslot_rf0 2 /\
            forall r, In r [1; 2] -> rf s r = seq_rf oneslot_text oneslot_rf0 2 r.
Proof. apply (final_by _ _ _ oneslot_sched). vm_compute. reflexivity. Qed.

(* a loop: three iterations, every back edge mispredicted (fall-through prediction), the
   wrong-path ret fetched and squashed each time, forwarding from addi to bnez *)
(*  0: li r1, 3    1: addi r1, r1, -1    2: bnez r1, 1    3: ret *)
Definition loop_text := [li 1 3; addi 1 1 (-1); bnez 1 1; ret].
Definition loop_sched :=
  [LDispatch None; LExecute 0; LWriteBack 0;
   LDispatch None; LDispatch (Some (1, 1)); LDispatch None;
   LExecute 1; LExecute 2; LWriteBack 1; LResolve 2;
   LDispatch None; LDispatch (Some (3, 1)); LDispatch None;
   LExecute 3; LExecute 4; LWriteBack 3; LResolve 4;
   LDispatch None; LDispatch (Some (5, 1)); LDispatch None;
   LExecute 5; LWriteBack 5; LExecute 6; LResolve 6;
   LExit 7; LFinish].

Example ex_spec_loop :
  exists s, reach loop_text (regs []) (P62r loop_text) s /\ fin s = true /\
            halts_at loop_text (regs []) 7 /\
            forall r, In r [1] -> rf s r = seq_rf loop_text (regs []) 7 r.
Proof. apply (final_by _ _ _ loop_sched). vm_compute. reflexivity. Qed.

(* ---------- P45: in order, interlock, a WAW pair and a branch ---------- *)

(*  0: li r1, 5   1: addi r2, r1, 1   2: li r1, 9   3: bnez r2, 5   4: li r2, 0   5: ret *)
Definition ex45_text := [li 1 5; addi 2 1 1; li 1 9; bnez 2 5; li 2 0; ret].
Definition ex45_sched :=
  [LDispatch None; LDispatch None; LDispatch None; LDispatch None; LDispatch None;
   LExecute 0; LWriteBack 0;                   (* addi waits for the write-back of r1 *)
   LExecute 1; LExecute 2; LWriteBack 1;
   LExecute 3;                                 (* waits for nothing: r2 written back *)
   LExecute 4;                                 (* wrong path executes ... *)
   LWriteBack 2; LResolve 3;                   (* ... and is squashed before it can write *)
   LDispatch None; LExit 4; LFinish].

Example ex_p45 :
  exists s, reach ex45_text (regs []) (P45 ex45_text) s /\ fin s = true /\
            halts_at ex45_text (regs []) 4 /\
            forall r, In r [1; 2] -> rf s r = seq_rf ex45_text (regs []) 4 r.
Proof. apply (final_by _ _ _ ex45_sched). vm_compute. reflexivity. Qed.
