(* Ooo/Path.v - the fetch stream versus the TRUE sequential path, and the main theorem.

   path_inv: in every reachable state there is a prefix 0..t-1 of the stream whose instances are
   exactly the first t instructions of the sequential execution (same pc, hence - by the stream
   invariant - same operands and results); either t = nxt and the fetch cursor is on the true
   path, or instance t-1 is an unresolved branch that the sequential execution takes: everything
   behind it is the wrong path.  A wrong-path instance can never resolve the branch t-1, a
   true-path branch always computes the sequential outcome, so the prefix only grows or is cut
   back to a true-path branch.

   ooo_correct: under a sound policy EVERY schedule that reaches a final state produces the
   sequential register file (and the sequential run terminates at the same instruction). *)
From Coq Require Import ZArith List Lia Arith Bool.
From Maj Require Import Ooo.Machine Ooo.Counts Ooo.InvDefs Ooo.InvSteps Ooo.InvResolve.
Import ListNotations.

Section Path.
Variable text : list instr.
Variable rf0 : rfile.
Variable P : policy.

Notation writes := (writes text).
Notation reads := (reads text).
Notation unres := (unres text).
Notation ins := (ins text).
Notation Inv := (Inv text rf0 P).
Notation D := (D text rf0).
Notation dval := (dval text rf0).
Notation path := (path text rf0).
Notation seq_rf := (seq_rf text rf0).
Notation seq_at := (seq_at text rf0).
Notation halts_at := (halts_at text rf0).
Notation at_pc := (at_pc text).

(* ---------- sequential semantics, unfolded ---------- *)

Lemma at_pc_some pc i : nth_error text pc = Some i -> at_pc pc = i.
Proof. intros H. unfold Machine.at_pc. now apply nth_error_nth. Qed.

Lemma at_pc_none pc : nth_error text pc = None -> at_pc pc = nop.
Proof. intros H. unfold Machine.at_pc. apply nth_overflow. now apply nth_error_None. Qed.

Lemma at_pc_cases pc :
  (exists i, nth_error text pc = Some i /\ at_pc pc = i) \/
  (nth_error text pc = None /\ at_pc pc = nop).
Proof.
  destruct (nth_error text pc) as [i|] eqn:E.
  - left. exists i. split; auto. now apply at_pc_some.
  - right. split; auto. now apply at_pc_none.
Qed.

Lemma seq_rf_S k : seq_rf (S k) = apply (at_pc (path k)) (seq_rf k).
Proof.
  unfold Machine.seq_rf, Machine.path. simpl. unfold adv.
  destruct (at_pc_cases (s_pc (seq_at k))) as [(i & E & A)|[E A]]; rewrite E, A.
  - unfold apply, wr. destruct (kind i); reflexivity.
  - reflexivity.
Qed.

Lemma path_plain k : kind (at_pc (path k)) = Plain -> nth_error text (path k) <> None ->
  path (S k) = S (path k).
Proof.
  intros Hk Hn. unfold Machine.path in *. simpl. unfold adv.
  destruct (at_pc_cases (s_pc (seq_at k))) as [(i & E & A)|[E A]]; [|congruence].
  rewrite E. rewrite A in Hk. rewrite Hk. reflexivity.
Qed.

Lemma path_branch k t : kind (at_pc (path k)) = Branch t ->
  path (S k) = if Z.eqb (value (at_pc (path k)) (seq_rf k)) 0 then S (path k) else t.
Proof.
  intros Hk. unfold Machine.path, Machine.seq_rf in *. simpl. unfold adv.
  destruct (at_pc_cases (s_pc (seq_at k))) as [(i & E & A)|[E A]].
  - rewrite E. rewrite A in *. rewrite Hk. reflexivity.
  - rewrite A in Hk. discriminate.
Qed.

Lemma halts_ret k : is_ret (at_pc (path k)) = true -> halts_at k.
Proof.
  intros H. unfold Machine.halts_at, halts. fold (path k).
  destruct (at_pc_cases (path k)) as [(i & E & A)|[E A]]; rewrite E; auto. now rewrite <- A.
Qed.

Lemma halts_end k : length text <= path k -> halts_at k.
Proof.
  intros H. unfold Machine.halts_at, halts. fold (path k).
  apply nth_error_None in H. now rewrite H.
Qed.

(* ---------- the true-path prefix ---------- *)

Definition on_path (s : state) (t : nat) : Prop :=
  t <= nxt s /\ forall k, k < t -> ipc s k = path k.

Lemma D_path s n : (forall k, k < n -> ipc s k = path k) -> D s n = seq_rf n.
Proof.
  induction n as [|n IH]; intros H; [reflexivity|].
  rewrite D_S, seq_rf_S, IH by (intros; apply H; lia).
  unfold Machine.ins. now rewrite H by lia.
Qed.

Definition caseA (s : state) (t : nat) : Prop :=
  t = nxt s /\ ((forall j, j < nxt s -> is_ret (ins s j) = false) -> cur s = path (nxt s)).
Definition caseB (s : state) (t : nat) : Prop :=
  exists b, S b = t /\ unres s b /\ value (ins s b) (seq_rf b) <> 0%Z.

(* a ret instance stays dispatched until the exit or a squash *)
Definition RetDisp (s : state) : Prop :=
  forall j, j < nxt s -> is_ret (ins s j) = true -> exists fw, stat s j = Disp fw.

Definition Halt (s : state) : Prop :=
  exists e, halts_at e /\ (forall r, D s (nxt s) r = seq_rf e r) /\
            (forall j r, pending s j -> ~ writes s j r).

Definition PathInv (s : state) : Prop :=
  (exists t, on_path s t /\ (caseA s t \/ caseB s t)) /\ RetDisp s /\
  (halted s = true -> Halt s).

(* what the path argument needs from the data side: an executed instance holds the
   stream-sequential result; and the exit waits for every older instance *)
Definition ExecOK (s : state) : Prop := forall j v, stat s j = Exec v -> v = dval s j.
Definition exit_drains : Prop :=
  forall s e, exit_ok P s e = true -> forall j, j < e -> pendingb s j = false.
Hypothesis HX : exit_drains.

Lemma path_init : PathInv (init rf0).
Proof.
  split; [|split].
  - exists 0. split.
    + split; simpl; auto. intros; lia.
    + left. split; reflexivity.
  - intros j Hj. simpl in Hj. lia.
  - simpl. discriminate.
Qed.

(* the outcome computed for a true-path branch is the sequential one *)
Lemma branch_outcome s b v t : ExecOK s -> on_path s t -> b < t ->
  stat s b = Exec v -> v = value (ins s b) (seq_rf b).
Proof.
  intros I [_ Hp] Hb Hs. rewrite (I b v Hs). unfold InvDefs.dval.
  rewrite D_path; auto. intros; apply Hp; lia.
Qed.

Lemma kind_not_ret i t : kind i = Branch t -> is_ret i = false.
Proof. unfold is_ret. now intros ->. Qed.

(* ---------- preservation, transition by transition ---------- *)

Lemma path_dispatch s fw : Base text s -> PathInv s -> halted s = false ->
  cur s < length text -> no_ret text s = true -> PathInv (do_dispatch text s fw).
Proof.
  intros B ((t & [Ht Hp] & Hc) & HR & _) Hh Hcur Hnr.
  set (s' := do_dispatch text s fw). set (k := nxt s).
  assert (Hins : forall j, j <> k -> ins s' j = ins s j) by (intros; now apply ins_dispatch_other).
  assert (Hinsk : ins s' k = cur_ins text s) by apply ins_dispatch_same.
  assert (Hipc : forall j, j <> k -> ipc s' j = ipc s j) by (intros; simpl; now rewrite setf_other).
  split; [|split]; [| |simpl; congruence].
  - destruct Hc as [[-> Hc]|(b & Hb & Hub & Htk)].
    + (* on the true path *)
      assert (Hcp : cur s = path k) by (apply Hc; apply no_ret_spec; auto).
      assert (Hpk : ipc s' k = path k) by (simpl; now rewrite setf_same).
      assert (Hp' : forall j, j < S k -> ipc s' j = path j).
      { intros j Hj. destruct (Nat.eq_dec j k) as [->|]; auto. rewrite Hipc by auto.
        apply Hp. fold k. lia. }
      assert (Hat : ins s' k = at_pc (path k)) by (unfold Machine.ins; now rewrite Hpk).
      assert (Hnn : nth_error text (path k) <> None).
      { rewrite <- Hcp. apply nth_error_Some. exact Hcur. }
      exists (S k). split; [split; simpl; auto|].
      destruct (kind (at_pc (path k))) as [|tg|] eqn:K.
      * left. split; [reflexivity|]. intros _. simpl. fold k. rewrite Hcp. symmetry.
        now apply path_plain.
      * destruct (Z.eqb_spec (value (at_pc (path k)) (seq_rf k)) 0) as [E|E].
        -- left. split; [reflexivity|]. intros _. simpl. fold k. rewrite Hcp.
           rewrite (path_branch k tg K). apply Z.eqb_eq in E. now rewrite E.
        -- right. exists k. split; auto. split.
           ++ apply unres_iff. split.
              ** unfold pending, pendingb. simpl. now rewrite setf_same.
              ** rewrite Hat. unfold is_branch. now rewrite K.
           ++ now rewrite Hat.
      * left. split; [reflexivity|]. intros Hno. exfalso.
        specialize (Hno k). simpl in Hno. fold k in Hno. specialize (Hno ltac:(lia)).
        rewrite Hat in Hno. unfold is_ret in Hno. rewrite K in Hno. discriminate.
    + (* in the shadow of a truly taken branch *)
      assert (Hbk : b < k) by (subst t; fold k in Ht; lia).
      exists t. split; [split; [simpl; lia|]|].
      * intros j Hj. rewrite Hipc by (fold k in Ht; lia). now apply Hp.
      * right. exists b. split; auto. split.
        -- apply unres_iff in Hub. destruct Hub as [H1 H2]. apply unres_iff.
           rewrite Hins by lia. split; auto.
           unfold pending, pendingb in *. simpl. rewrite setf_other; auto. fold k. lia.
        -- rewrite Hins by lia. exact Htk.
  - intros j Hj Hr. simpl in Hj. fold k in Hj. destruct (Nat.eq_dec j k) as [->|Hne].
    + exists fw. simpl. now rewrite setf_same.
    + rewrite Hins in Hr by auto. destruct (HR j ltac:(fold k; lia) Hr) as [fw0 H0].
      exists fw0. simpl. now rewrite setf_other.
Qed.

(* transitions that keep the stream and only move one instance between in-flight states,
   or retire an instance that is neither a ret nor the unresolved branch of case B *)
Lemma path_keep s s' j :
  PathInv s -> halted s = false -> halted s' = false ->
  nxt s' = nxt s -> cur s' = cur s -> ipc s' = ipc s ->
  (forall x, x <> j -> stat s' x = stat s x) ->
  is_ret (ins s j) = false ->
  (forall b, unres s b -> value (ins s b) (seq_rf b) <> 0%Z -> b = j ->
             on_path s (S b) -> pending s' j) ->
  PathInv s'.
Proof.
  intros ((t & [Ht Hp] & Hc) & HR & _) Hh Hh' Hn Hcu Hi Hst Hnr Hj.
  assert (Hins : forall x, ins s' x = ins s x) by (intros; unfold Machine.ins; now rewrite Hi).
  split; [|split]; [| |congruence].
  - exists t. split; [split; [lia|intros; rewrite Hi; auto]|].
    destruct Hc as [[-> Hc]|(b & Hb & Hub & Htk)].
    + left. split; auto. rewrite Hn, Hcu. intros Hno. apply Hc.
      intros x Hx. rewrite <- Hins. now apply Hno.
    + right. exists b. split; auto. rewrite Hins. split; auto.
      apply unres_iff in Hub. destruct Hub as [H1 H2]. apply unres_iff. rewrite Hins.
      split; auto. destruct (Nat.eq_dec b j) as [->|Hne].
      * apply (Hj j); auto.
        -- apply unres_iff; auto.
        -- split; [lia|]. intros; apply Hp; lia.
      * unfold pending, pendingb in *. now rewrite Hst.
  - intros x Hx Hr. rewrite Hn in Hx. rewrite Hins in Hr.
    destruct (HR x Hx Hr) as [fw0 H0]. exists fw0. rewrite Hst; auto.
    intros ->. congruence.
Qed.

Lemma path_commit s lim : PathInv s -> halted s = false -> PathInv (do_commit s lim).
Proof.
  intros H Hh. destruct H as ((t & Hp & Hc) & HR & _).
  split; [|split]; [| |simpl; congruence].
  - exists t. split; [exact Hp|]. destruct Hc as [Hc|Hc]; [left|right]; exact Hc.
  - exact HR.
Qed.

Lemma path_resolve_t s b v tg : Base text s -> ExecOK s -> PathInv s -> halted s = false ->
  stat s b = Exec v -> kind (ins s b) = Branch tg -> v <> 0%Z ->
  PathInv (mark_done text (squash text s b tg) b).
Proof.
  intros B I ((t & [Ht Hp] & Hc) & HR & _) Hh Hs Hk Hv.
  set (s' := mark_done text (squash text s b tg) b).
  assert (Hb : b < nxt s) by (apply (stat_lt text s b B); congruence).
  assert (Hins : forall x, ins s' x = ins s x) by reflexivity.
  split; [|split]; [| |simpl; congruence].
  - destruct (Nat.lt_ge_cases b t) as [Hbt|Hbt].
    + (* a true-path branch: the sequential run takes it too *)
      assert (Hvb : v = value (ins s b) (seq_rf b)).
      { apply (branch_outcome s b v t I); auto. split; auto. }
      assert (Hat : ins s b = at_pc (path b)) by (unfold Machine.ins; rewrite Hp; auto).
      exists (S b). split; [split; [simpl; lia|intros; apply Hp; lia]|].
      left. split; [reflexivity|]. intros _. simpl.
      rewrite Hat in Hk. rewrite (path_branch b tg Hk).
      rewrite <- Hat, <- Hvb. destruct (Z.eqb_spec v 0); [contradiction|reflexivity].
    + (* a wrong-path branch: the unresolved true-path branch stays *)
      destruct Hc as [[-> _]|(b0 & Hb0 & Hub & Htk)]; [lia|].
      exists t. split; [split; [simpl; lia|exact Hp]|].
      right. exists b0. split; auto. rewrite Hins. split; auto.
      apply unres_iff in Hub. destruct Hub as [H1 H2]. apply unres_iff. rewrite Hins.
      split; auto. unfold pending, pendingb in *. simpl.
      rewrite setf_other by lia. destruct (Nat.leb_spec b0 b); auto. lia.
  - intros x Hx Hr. simpl in Hx. rewrite Hins in Hr.
    destruct (HR x ltac:(lia) Hr) as [fw0 H0]. exists fw0. simpl.
    assert (x <> b).
    { intros ->. rewrite (kind_not_ret _ _ Hk) in Hr. discriminate. }
    rewrite setf_other by auto. destruct (Nat.leb_spec x b); auto. lia.
Qed.

Lemma no_unres_caseA s t : on_path s t -> (caseA s t \/ caseB s t) ->
  (forall u, ~ unres s u) -> caseA s t.
Proof. intros _ [H|(b & _ & Hu & _)] Hn; auto. exfalso. exact (Hn b Hu). Qed.

Lemma path_exit_ret s e fw : Base text s -> PathInv s ->
  stat s e = Disp fw -> is_ret (ins s e) = true -> exit_ok P s e = true ->
  PathInv (do_exit s).
Proof.
  intros B ((t & [Ht Hp] & Hc) & HR & _) Hs Hr Hx.
  assert (He : e < nxt s) by (apply (stat_lt text s e B); congruence).
  assert (Hen : S e = nxt s) by (apply (b_ret text s B e He Hr)).
  assert (Hold : forall j, j < e -> pendingb s j = false) by (apply (HX s e Hx)).
  assert (Hpe : forall j, pending s j -> j = e).
  { intros j Hj. assert (j < nxt s) by (apply (pending_lt text s j B Hj)).
    destruct (Nat.eq_dec j e); auto. unfold pending in Hj. rewrite Hold in Hj; [discriminate|lia]. }
  assert (HA : caseA s t).
  { apply no_unres_caseA; auto; [split; auto|].
    intros u Hu. apply unres_iff in Hu. destruct Hu as [H1 H2].
    rewrite (Hpe u H1) in H2. unfold is_branch in H2. unfold is_ret in Hr.
    destruct (kind (ins s e)); discriminate. }
  destruct HA as [-> HA].
  split; [|split].
  - exists (nxt s). split; [split; auto|]. left. split; auto.
  - exact HR.
  - intros _. exists e. split; [|split].
    + apply halts_ret. unfold Machine.ins in Hr. rewrite Hp in Hr; auto.
    + intros r. change (D (do_exit s) (nxt (do_exit s)) r) with (D s (nxt s) r).
      rewrite <- Hen. rewrite D_S. rewrite apply_other.
      * rewrite D_path; auto. intros; apply Hp; lia.
      * rewrite ret_no_write; auto. discriminate.
    + intros j r Hj. change (pending s j) in Hj. rewrite (Hpe j Hj).
      unfold Counts.writes. change (ins (do_exit s) e) with (ins s e).
      rewrite ret_no_write; auto. discriminate.
Qed.

Lemma path_exit_end s : Base text s -> PathInv s ->
  length text <= cur s -> all_done s = true -> PathInv (do_exit s).
Proof.
  intros B ((t & [Ht Hp] & Hc) & HR & _) Hcur Hd.
  assert (Hnp : forall j, ~ pending s j).
  { intros j Hj. assert (j < nxt s) by (apply (pending_lt text s j B Hj)).
    unfold pending in Hj. rewrite (all_done_spec s Hd) in Hj; auto. discriminate. }
  assert (HA : caseA s t).
  { apply no_unres_caseA; auto; [split; auto|].
    intros u Hu. apply unres_iff in Hu. destruct Hu as [H1 _]. exact (Hnp u H1). }
  destruct HA as [-> HA].
  assert (Hno : forall j, j < nxt s -> is_ret (ins s j) = false).
  { intros j Hj. destruct (is_ret (ins s j)) eqn:E; auto. exfalso.
    destruct (HR j Hj E) as [fw0 H0]. apply (Hnp j). eapply disp_pending; eauto. }
  split; [|split].
  - exists (nxt s). split; [split; auto|]. left. split; auto.
  - exact HR.
  - intros _. exists (nxt s). split; [|split].
    + apply halts_end. rewrite <- (HA Hno). exact Hcur.
    + intros r. change (D (do_exit s) (nxt (do_exit s)) r) with (D s (nxt s) r).
      rewrite D_path; auto.
    + intros j r Hj. exfalso. exact (Hnp j Hj).
Qed.

Lemma path_step s s' : Base text s -> ExecOK s -> PathInv s ->
  step text P s s' -> fin s' = false -> PathInv s'.
Proof.
  intros B I HP H Hfin. inversion H; subst; clear H.
  - now apply path_dispatch.
  - apply (path_keep s _ j); auto; simpl; auto.
    + intros x Hx. now rewrite setf_other.
    + intros _ _ _ _ _. unfold pending, pendingb. simpl. now rewrite setf_same.
  - assert (Hnr : is_ret (ins s j) = false).
    { destruct (is_ret (ins s j)) eqn:E; auto. exfalso.
      destruct HP as (_ & HR & _).
      assert (Hj : j < nxt s) by (apply (stat_lt text s j B); congruence).
      destruct (HR j Hj E) as [fw0 Hd0]. congruence. }
    apply (path_keep s _ j); auto; simpl; auto.
    + intros x Hx. now rewrite setf_other.
    + intros b Hub _ -> _. apply unres_iff in Hub. destruct Hub as [_ Hub]. congruence.
  - unfold do_resolve_t. apply path_commit; [|exact H0].
    eapply path_resolve_t; eauto.
  - unfold do_resolve_nt. apply path_commit; [|exact H0].
    apply (path_keep s _ b); auto; simpl; auto.
    + intros x Hx. now rewrite setf_other.
    + now apply (kind_not_ret _ t).
    + intros b0 Hub Htk -> Hop. exfalso. apply Htk.
      rewrite <- (branch_outcome s b 0%Z (S b) I Hop); auto.
  - eapply path_exit_ret; eauto.
  - now apply path_exit_end.
  - simpl in Hfin. discriminate.
Qed.

Hypothesis HE : forall s, reach text rf0 P s -> fin s = false -> ExecOK s.

Theorem path_inv_gen s : reach text rf0 P s -> fin s = false -> PathInv s.
Proof.
  induction 1 as [|s s' R IH H]; intros Hf; [apply path_init|].
  assert (Hf0 : fin s = false) by (eapply fin_step; eauto).
  apply (path_step s s'); auto.
  eapply reach_base; eauto.
Qed.

(* ---------- the final state ---------- *)

Lemma fin_halted s : reach text rf0 P s -> fin s = true -> halted s = true.
Proof.
  induction 1 as [|s s' R IH H]; simpl; [discriminate|].
  inversion H; subst; simpl; auto.
Qed.

Lemma fin_origin s : reach text rf0 P s -> fin s = true ->
  exists s0, reach text rf0 P s0 /\ fin s0 = false /\ halted s0 = true /\ s = do_finish s0.
Proof.
  induction 1 as [|s s' R IH H]; simpl; [discriminate|]. intros Hf.
  destruct (fin s) eqn:E.
  - exfalso. assert (Hh : halted s = true) by (apply fin_halted; auto).
    inversion H; subst; congruence.
  - inversion H; subst; simpl in Hf; try congruence.
    exists s. auto.
Qed.

(* what Finish commits, when only instances that write nothing are still in flight, is the
   stream-sequential file *)
Hypothesis HF : forall s, reach text rf0 P s -> fin s = false -> halted s = true ->
  (forall j r, pending s j -> ~ writes s j r) ->
  forall r, viewc (sb s) (rf s) (nxt s) r = D s (nxt s) r.

Theorem ooo_correct_gen s : reach text rf0 P s -> fin s = true ->
  exists e, halts_at e /\ forall r, rf s r = seq_rf e r.
Proof.
  intros R Hf. destruct (fin_origin s R Hf) as (s0 & R0 & Hf0 & Hh0 & ->).
  destruct (path_inv_gen s0 R0 Hf0) as (_ & _ & HH). destruct (HH Hh0) as (e & He & HD & Hnw).
  exists e. split; auto. intros r. simpl.
  rewrite <- HD. now apply HF.
Qed.

End Path.

Section Correct.
Variable text : list instr.
Variable rf0 : rfile.
Variable P : policy.
Hypothesis SP : sound_policy text rf0 P.

Lemma sound_exec_ok s : reach text rf0 P s -> fin s = false -> ExecOK text rf0 s.
Proof. intros R Hf. exact (i_exec _ _ _ _ (reach_inv text rf0 P SP s R Hf)). Qed.

Theorem path_inv s : reach text rf0 P s -> fin s = false -> PathInv text rf0 s.
Proof. apply (path_inv_gen text rf0 P (sp_exit _ _ _ SP) sound_exec_ok). Qed.

(* C01 for the abstract machine / C03 wrong_path_invisible / C09 exit_complete:
   every schedule of a sound policy ends in the sequential architectural register file *)
Theorem ooo_correct s : reach text rf0 P s -> fin s = true ->
  exists e, halts_at text rf0 e /\ forall r, rf s r = seq_rf text rf0 e r.
Proof.
  apply (ooo_correct_gen text rf0 P (sp_exit _ _ _ SP) sound_exec_ok).
  intros s0 R Hf _ Hnw r.
  apply (i_clean _ _ _ _ (reach_inv text rf0 P SP s0 R Hf) (nxt s0) r (safe_top text s0)).
  intros j _ Hj. apply Hnw. exact Hj.
Qed.

End Correct.
