(* Ooo/Spec.v - speculation (C03).  The discipline "every register write of an instance goes to
   the buffer tagged with the instance; a branch resolved taken drops the writes of younger
   instances and squashes them; only writes older than every unresolved branch are committed"
   (policy P62r: the guard of 6.1/6.2 on a full buffer) makes wrong-path instances invisible:
   whatever is fetched, executed and written back behind a mispredicted branch, in whatever
   order, the final architectural register file is the sequential one. *)
From Coq Require Import ZArith List Lia Arith Bool.
From Maj Require Import Ooo.Machine Ooo.Counts Ooo.InvDefs Ooo.InvSteps Ooo.InvResolve Ooo.Path
  Ooo.Policies Ooo.Guards.
Import ListNotations.

Section Spec.
Variable text : list instr.
Variable rf0 : rfile.

Notation halts_at := (halts_at text rf0).
Notation seq_rf := (seq_rf text rf0).

Lemma sound_P62r : sound_policy text rf0 (P62r text).
Proof.
  constructor.
  - intros s fw B C I H. eapply guard61_safe; eauto.
  - left. reflexivity.
  - reflexivity.
  - intros s e H. now apply older_done_spec.
Qed.

(* C03 wrong_path_invisible, all programs, all schedules *)
Theorem wrong_path_invisible s : reach text rf0 (P62r text) s -> fin s = true ->
  exists e, halts_at e /\ forall r, rf s r = seq_rf e r.
Proof. apply ooo_correct. apply sound_P62r. Qed.

(* the same for ANY guard that implies hazard freedom, any execute / write-back / exit
   restriction, as long as the buffer is full and the commit rule is the careful one *)
Theorem spec_buffer_correct P s :
  (forall s fw, Base text s -> counts_ok text s -> Inv text rf0 P s ->
                dispatch_ok P s fw = true -> safe_dispatch text s fw) ->
  bufm P = Full -> commit_all P = false ->
  (forall s e, exit_ok P s e = true -> forall j, j < e -> pendingb s j = false) ->
  reach text rf0 P s -> fin s = true ->
  exists e, halts_at e /\ forall r, rf s r = seq_rf e r.
Proof.
  intros H1 H2 H3 H4. apply ooo_correct. constructor; auto.
Qed.

(* While the run is going on, the architectural file itself never holds a wrong-path value:
   at the oldest unresolved branch (the commit horizon) the file plus the buffered writes below
   it are the stream-sequential state, and below the horizon the stream IS the true path. *)
Theorem arch_clean s c r : reach text rf0 (P62r text) s -> fin s = false ->
  safe text s c -> (forall j, j < c -> pending s j -> ~ writes text s j r) ->
  viewc (sb s) (rf s) c r = D text rf0 s c r.
Proof.
  intros R Hf. apply (i_clean _ _ _ _ (reach_inv text rf0 _ sound_P62r s R Hf)).
Qed.

End Spec.
