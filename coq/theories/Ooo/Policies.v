(* Ooo/Policies.v - the policies read off the Go control units, as instances of Machine.policy.
   Models only.  Guards are over the STORED scoreboard counters pw / pr exactly as
   risc/app.go IsDataHazard3 computes them.

   P45   proc/mvp4, mvp5     one in-order execute unit, source interlock, FIFO write bus
   P60   proc/mvp6-0/cu.go   push iff no hazard at all; results go straight to the file
   P61   proc/mvp6-1/cu.go   + a single RAW may be forwarded from its pending producer
   P62   proc/mvp6-2         + one-slot-per-register buffer, commit everything on resolve
   P63   proc/mvp6-3         + ring buffer, dispatch through a single WAW or a single WAR
   P62r  the discipline a repaired 6.2 would implement (full buffer, commit below the oldest
         unresolved branch)
   *ns   the same guard + "nothing is dispatched past an unresolved branch"
   *x    the same policy with an exit that does not wait for older instances *)
From Coq Require Import ZArith List Lia Arith Bool.
From Maj Require Import Ooo.Machine.
Import ListNotations.

Section Policies.
Variable text : list instr.

(* IsDataHazard3: one RAW entry per source occurrence whose register has a pending writer,
   one WAW / one WAR entry for the destination *)
Definition raw_list (s : state) (i : instr) : list reg :=
  filter (fun r => 0 <? pw s r) (srcs i).
Definition waw_b (s : state) (i : instr) : bool :=
  match wr i with Some d => 0 <? pw s d | None => false end.
Definition war_b (s : state) (i : instr) : bool :=
  match wr i with Some d => 0 <? pr s d | None => false end.
Definition hazards (s : state) (i : instr) : nat :=
  length (raw_list s i) + (if waw_b s i then 1 else 0) + (if war_b s i then 1 else 0).

Definition wr_is (i : instr) (r : reg) : bool :=
  match wr i with Some d => d =? r | None => false end.

(* 6.0 handleRunner: len(hazards) == 0 *)
Definition guard60 (s : state) (fw : option (nat * reg)) : bool :=
  match fw with None => hazards s (cur_ins text s) =? 0 | Some _ => false end.

(* 6.1 handleRunner + shouldUseForwarding: no hazard, or exactly one hazard which is a RAW on r
   and the source is an in-flight instance that writes r *)
Definition guard61 (s : state) (fw : option (nat * reg)) : bool :=
  match fw with
  | None => hazards s (cur_ins text s) =? 0
  | Some (p, r) =>
      (hazards s (cur_ins text s) =? 1)
      && match raw_list s (cur_ins text s) with [r'] => r' =? r | _ => false end
      && pendingb s p && wr_is (ins text s p) r
  end.

(* 6.3 handleRunner + shouldUseRenaming: additionally exactly one hazard which is not a RAW *)
Definition guard63 (s : state) (fw : option (nat * reg)) : bool :=
  guard61 s fw ||
  match fw with
  | None => (hazards s (cur_ins text s) =? 1)
            && (length (raw_list s (cur_ins text s)) =? 0)
  | Some _ => false
  end.

Definition no_unres (s : state) : bool :=
  forallb (fun j => negb (unresb text s j)) (seq 0 (nxt s)).

Definition yes2 (_ : state) (_ : nat) : bool := true.

(* proc/mvp4/eu.go: single execute unit, in order; an instruction waits while a source has a
   pending write (IsWriteDataHazard: counted from execute to write-back) *)
Definition is_disp (x : status) : bool := match x with Disp _ => true | _ => false end.
Definition is_exec (x : status) : bool := match x with Exec _ => true | _ => false end.
Definition exec45 (s : state) (j : nat) : bool :=
  forallb (fun x => negb (is_disp (stat s x))) (seq 0 j)
  && forallb (fun r => forallb (fun x => negb (is_exec (stat s x) && wr_is (ins text s x) r))
                               (seq 0 j))
             (srcs (ins text s j)).

Definition P45 : policy :=
  {| dispatch_ok := fun _ fw => match fw with None => true | _ => false end;
     exec_ok := exec45; wb_ok := older_done; exit_ok := older_done;
     bufm := NoBuf; commit_all := false |}.

Definition P60 : policy :=
  {| dispatch_ok := guard60; exec_ok := yes2; wb_ok := yes2; exit_ok := older_done;
     bufm := NoBuf; commit_all := false |}.
Definition P60ns : policy :=
  {| dispatch_ok := fun s fw => guard60 s fw && no_unres s;
     exec_ok := yes2; wb_ok := yes2; exit_ok := older_done;
     bufm := NoBuf; commit_all := false |}.
Definition P60x : policy :=
  {| dispatch_ok := guard60; exec_ok := yes2; wb_ok := yes2; exit_ok := yes2;
     bufm := NoBuf; commit_all := false |}.

Definition P61 : policy :=
  {| dispatch_ok := guard61; exec_ok := yes2; wb_ok := yes2; exit_ok := older_done;
     bufm := NoBuf; commit_all := false |}.
Definition P61ns : policy :=
  {| dispatch_ok := fun s fw => guard61 s fw && no_unres s;
     exec_ok := yes2; wb_ok := yes2; exit_ok := older_done;
     bufm := NoBuf; commit_all := false |}.

Definition P62 : policy :=
  {| dispatch_ok := guard61; exec_ok := yes2; wb_ok := yes2; exit_ok := older_done;
     bufm := OneSlot; commit_all := true |}.
(* 6.2's commit rule on a perfect buffer *)
Definition P62ca : policy :=
  {| dispatch_ok := guard61; exec_ok := yes2; wb_ok := yes2; exit_ok := older_done;
     bufm := Full; commit_all := true |}.
Definition P62r : policy :=
  {| dispatch_ok := guard61; exec_ok := yes2; wb_ok := yes2; exit_ok := older_done;
     bufm := Full; commit_all := false |}.

Definition P63 : policy :=
  {| dispatch_ok := guard63; exec_ok := yes2; wb_ok := yes2; exit_ok := older_done;
     bufm := Ring 10; commit_all := true |}.

End Policies.
