(* Ooo/Hazards.v - C04: the three register-dependence statements as corollaries of the master
   invariant, for every sound policy, every program and every schedule. *)
From Coq Require Import ZArith List Lia Arith Bool.
From Maj Require Import Ooo.Machine Ooo.Counts Ooo.InvDefs Ooo.InvSteps Ooo.InvResolve Ooo.Path.
Import ListNotations.

Section Hazards.
Variable text : list instr.
Variable rf0 : rfile.
Variable P : policy.
Hypothesis SP : sound_policy text rf0 P.

Notation writes := (writes text).
Notation reads := (reads text).
Notation ins := (ins text).
Notation Inv := (Inv text rf0 P).
Notation D := (D text rf0).
Notation dval := (dval text rf0).
Notation path := (path text rf0).
Notation seq_rf := (seq_rf text rf0).
Notation halts_at := (halts_at text rf0).
Notation at_pc := (at_pc text).

(* ---------- "the value of the last older writer" ---------- *)

Lemma D_last_writer s j m r : m < j -> writes s m r ->
  (forall m', m < m' < j -> ~ writes s m' r) -> D s j r = dval s m.
Proof.
  intros Hm Hw Hno. rewrite <- (D_write text rf0 s m r Hw).
  apply D_stable; [lia|]. intros x Hx. apply Hno. lia.
Qed.

Lemma D_no_writer s j r : (forall m, m < j -> ~ writes s m r) -> D s j r = rf0 r.
Proof.
  intros Hno. change (rf0 r) with (D s 0 r). apply D_stable; [lia|].
  intros x Hx. apply Hno. lia.
Qed.

(* ---------- RAW ---------- *)

(* every instance that executes reads, for each declared source, the value of its last older
   writer in the stream (from the file, the buffer or the forwarding channel) ... *)
Theorem raw_value s j fw r m : reach text rf0 P s -> fin s = false ->
  stat s j = Disp fw -> fw_ready s fw = true -> reads s j r ->
  m < j -> writes s m r -> (forall m', m < m' < j -> ~ writes s m' r) ->
  rd s fw r = dval s m.
Proof.
  intros R Hf Hs Hfw Hr Hm Hw Hno.
  rewrite (rd_value text rf0 P s j fw r); auto.
  - now apply D_last_writer.
  - eapply reach_base; eauto.
  - now apply (reach_inv text rf0 P SP).
Qed.

(* ... or the initial value if there is none ... *)
Theorem raw_value_init s j fw r : reach text rf0 P s -> fin s = false ->
  stat s j = Disp fw -> fw_ready s fw = true -> reads s j r ->
  (forall m, m < j -> ~ writes s m r) -> rd s fw r = rf0 r.
Proof.
  intros R Hf Hs Hfw Hr Hno.
  rewrite (rd_value text rf0 P s j fw r); auto.
  - now apply D_no_writer.
  - eapply reach_base; eauto.
  - now apply (reach_inv text rf0 P SP).
Qed.

(* ... and for an instance on the true path this is the sequential value *)
Theorem raw_value_seq s j fw r : reach text rf0 P s -> fin s = false ->
  stat s j = Disp fw -> fw_ready s fw = true -> reads s j r ->
  (forall k, k < j -> ipc s k = path k) -> rd s fw r = seq_rf j r.
Proof.
  intros R Hf Hs Hfw Hr Hp.
  rewrite (rd_value text rf0 P s j fw r); auto.
  - now rewrite (D_path text rf0 s j Hp).
  - eapply reach_base; eauto.
  - now apply (reach_inv text rf0 P SP).
Qed.

(* ---------- WAW ---------- *)

Definition swrites (k : nat) (r : reg) : Prop := wr (at_pc (path k)) = Some r.
Definition sval (k : nat) : Z := value (at_pc (path k)) (seq_rf k).

Lemma seq_rf_stable a b r : a <= b -> (forall m, a <= m < b -> ~ swrites m r) ->
  seq_rf b r = seq_rf a r.
Proof.
  induction 1 as [|b Hle IH]; intros H; auto.
  rewrite seq_rf_S, apply_other.
  - apply IH. intros m Hm. apply H. lia.
  - apply (H b). lia.
Qed.

(* after Finish every register holds the value of its last writer in program order *)
Theorem waw_last_writer s : reach text rf0 P s -> fin s = true ->
  exists e, halts_at e /\ forall r,
    (forall m, m < e -> swrites m r -> (forall m', m < m' < e -> ~ swrites m' r) ->
               rf s r = sval m) /\
    ((forall m, m < e -> ~ swrites m r) -> rf s r = rf0 r).
Proof.
  intros R Hf. destruct (ooo_correct text rf0 P SP s R Hf) as (e & He & H).
  exists e. split; auto. intros r. rewrite H. split.
  - intros m Hm Hw Hno. unfold sval. rewrite <- (apply_same _ _ r Hw), <- seq_rf_S.
    apply seq_rf_stable; [lia|]. intros x Hx. apply Hno. lia.
  - intros Hno. change (rf0 r) with (seq_rf 0 r). apply seq_rf_stable; [lia|].
    intros x Hx. apply Hno. lia.
Qed.

(* ---------- WAR ---------- *)

Lemma ipc_step s s' k : Base text s -> step text P s s' -> k < nxt s -> ipc s' k = ipc s k.
Proof.
  intros B H Hk. inversion H; subst; simpl; auto. rewrite setf_other; auto. lia.
Qed.

(* no transition - in particular no write-back of a younger writer - changes what a dispatched,
   not yet executed instance will read for a declared source *)
Theorem war_old_value s s' j fw r : reach text rf0 P s -> step text P s s' -> fin s' = false ->
  stat s j = Disp fw -> stat s' j = Disp fw -> reads s j r -> (forall p, fw <> Some (p, r)) ->
  view s' r = view s r.
Proof.
  intros R H Hf Hs Hs' Hr Hnf.
  assert (Hf0 : fin s = false) by (eapply fin_step; eauto).
  assert (B : Base text s) by (eapply reach_base; eauto).
  assert (B' : Base text s') by (eapply base_step; eauto).
  assert (I : Inv s) by (now apply (reach_inv text rf0 P SP)).
  assert (I' : Inv s').
  { apply (reach_inv text rf0 P SP); auto. eapply r_step; eauto. }
  assert (Hj : j < nxt s) by (apply (stat_lt text s j B); congruence).
  assert (Hj' : j < nxt s') by (apply (stat_lt text s' j B'); congruence).
  assert (Hipc : forall k, k <= j -> ipc s' k = ipc s k).
  { intros k Hk. apply ipc_step; auto. lia. }
  unfold view.
  rewrite (src_value text rf0 P s j fw r (nxt s) B I Hs Hr Hnf (safe_top text s) Hj).
  assert (Hr' : reads s' j r).
  { unfold Counts.reads, Machine.ins. rewrite Hipc; auto. }
  rewrite (src_value text rf0 P s' j fw r (nxt s') B' I' Hs' Hr' Hnf (safe_top text s') Hj').
  rewrite (D_ext text rf0 s s' j); auto. intros; apply Hipc; lia.
Qed.

End Hazards.
