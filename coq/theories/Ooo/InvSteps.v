(* Ooo/InvSteps.v - the master invariant is preserved by Dispatch, Execute, WriteBack. *)
From Coq Require Import ZArith List Lia Arith Bool.
From Maj Require Import Ooo.Machine Ooo.Counts Ooo.InvDefs.
Import ListNotations.

Section InvSteps.
Variable text : list instr.
Variable rf0 : rfile.
Variable P : policy.

Notation writes := (writes text).
Notation reads := (reads text).
Notation unres := (unres text).
Notation ins := (ins text).
Notation Inv := (Inv text rf0 P).
Notation D := (D text rf0).
Notation dval := (dval text rf0).
Notation safe := (safe text).

Lemma inv_init : Inv (init rf0).
Proof.
  constructor; simpl; intros; auto.
  - discriminate.
  - discriminate.
  - destruct H as [H _]. simpl in H. assert (c = 0) by lia. subst. reflexivity.
  - discriminate.
  - discriminate.
  - discriminate.
  - discriminate.
  - discriminate.
  - contradiction.
  - constructor.
  - split; auto. intros u Hu. apply unres_iff in Hu. destruct Hu as [Hu _]. discriminate.
Qed.

(* ---------------- Execute ---------------- *)

Lemma inv_execute s j fw : Base text s -> Inv s ->
  stat s j = Disp fw -> fw_ready s fw = true ->
  Inv (do_execute s j (exec_val text s j fw)).
Proof.
  intros B I Hs Hf. rewrite (exec_value text rf0 P s j fw B I Hs Hf).
  set (s' := do_execute s j (dval s j)).
  assert (Hp : forall x, pending s' x <-> pending s x).
  { intros x. unfold pending, pendingb. simpl. destruct (Nat.eq_dec x j) as [->|].
    - rewrite setf_same, Hs. tauto.
    - rewrite setf_other by auto. tauto. }
  assert (Hu : forall x, unres s' x <-> unres s x).
  { intros x. rewrite !unres_iff. rewrite Hp. tauto. }
  assert (Hsafe : forall c, safe s' c -> safe s c).
  { intros c [H1 H2]. split; auto. destruct H2 as [H2|(u & Hu1 & Hu2)]; auto.
    right. exists u. split; auto. now apply Hu. }
  destruct I. constructor.
  - intros x r Hx. apply Hp in Hx. exact (i_waw x r Hx).
  - intros x r Hx. apply Hp in Hx. exact (i_war x r Hx).
  - intros c r Hc Hn. apply (i_clean c r (Hsafe c Hc)).
    intros x Hx Hpx. apply Hn; auto. now apply Hp.
  - intros c x r Hc Hx Hpx. apply Hp in Hpx. exact (i_dirty c x r (Hsafe c Hc) Hx Hpx).
  - intros i fw0 r Hi. simpl in Hi. destruct (Nat.eq_dec i j) as [->|Hne].
    + rewrite setf_same in Hi. discriminate.
    + rewrite setf_other in Hi by auto. intros Hr Hnf x Hx Hpx. apply Hp in Hpx.
      exact (i_raw i fw0 r Hi Hr Hnf x Hx Hpx).
  - intros i p r Hi. simpl in Hi. destruct (Nat.eq_dec i j) as [->|Hne].
    + rewrite setf_same in Hi. discriminate.
    + rewrite setf_other in Hi by auto. exact (i_fwd i p r Hi).
  - intros x v Hx. simpl in Hx. destruct (Nat.eq_dec x j) as [->|Hne].
    + rewrite setf_same in Hx. inversion Hx; subst. reflexivity.
    + rewrite setf_other in Hx by auto. exact (i_exec x v Hx).
  - intros x v Hx Hr. simpl in Hr. destruct (Nat.eq_dec x j) as [->|Hne].
    + rewrite setf_same in Hr. inversion Hr; subst. reflexivity.
    + rewrite setf_other in Hr by auto. exact (i_res x v Hx Hr).
  - intros e He. destruct (i_sb e He) as (H1 & H2 & H3). repeat split; auto.
    simpl. rewrite setf_other; auto. intros E. rewrite E, Hs in H2. discriminate.
  - exact i_sorted.
  - intros Hb. destruct (i_direct Hb) as [H1 H2]. split; auto.
    intros u Hx. apply Hu in Hx. exact (H2 u Hx).
Qed.

(* ---------------- Dispatch ---------------- *)

Lemma inv_dispatch s fw : Base text s -> Inv s ->
  safe_dispatch text s fw ->
  (bufm P = NoBuf -> forall u, ~ unres s u) ->
  Inv (do_dispatch text s fw).
Proof.
  intros B I [Sraw Swaw Swar Sfw] Hns.
  set (s' := do_dispatch text s fw). set (k := nxt s).
  assert (Hst : forall j, j <> k -> stat s' j = stat s j).
  { intros j Hj. simpl. now rewrite setf_other. }
  assert (Hstk : stat s' k = Disp fw) by (simpl; apply setf_same).
  assert (Hins : forall j, j <> k -> ins s' j = ins s j).
  { intros j Hj. now apply ins_dispatch_other. }
  assert (Hinsk : ins s' k = cur_ins text s) by apply ins_dispatch_same.
  assert (Hnp : ~ pending s k).
  { unfold pending, pendingb. rewrite (b_notyet _ _ B k); [discriminate|unfold k; lia]. }
  assert (Hp : forall j, pending s' j -> j = k \/ (j < k /\ pending s j)).
  { intros j Hj. destruct (Nat.eq_dec j k) as [|Hne]; auto. right.
    unfold pending, pendingb in *. rewrite Hst in Hj by auto. split; auto.
    apply (pending_lt text s j B Hj). }
  assert (Hp' : forall j, pending s j -> pending s' j).
  { intros j Hj. assert (j <> k) by (intros ->; auto).
    unfold pending, pendingb in *. now rewrite Hst. }
  assert (Hw : forall j r, j <> k -> (writes s' j r <-> writes s j r)).
  { intros j r Hj. unfold Counts.writes. rewrite Hins by auto. tauto. }
  assert (Hwk : forall r, writes s' k r <-> wr (cur_ins text s) = Some r).
  { intros r. unfold Counts.writes. rewrite Hinsk. tauto. }
  assert (Hrd : forall j r, j <> k -> (reads s' j r <-> reads s j r)).
  { intros j r Hj. unfold Counts.reads. rewrite Hins by auto. tauto. }
  assert (HD : forall c, c <= k -> D s' c = D s c).
  { intros c Hc. apply D_ext. intros x Hx. simpl. rewrite setf_other; auto. unfold k in *. lia. }
  assert (Hun : forall u, unres s' u -> u = k \/ (u < k /\ unres s u)).
  { intros u Hu. apply unres_iff in Hu. destruct Hu as [Hu1 Hu2].
    destruct (Hp u Hu1) as [|[Hlt Hpu]]; auto. right. split; auto.
    apply unres_iff. split; auto. rewrite <- Hins; auto. lia. }
  assert (Hsafe : forall c, safe s' c -> c = S k \/ (c <= k /\ safe s c)).
  { intros c [H1 H2]. simpl in H1. fold k in H1.
    destruct (Nat.eq_dec c (S k)) as [|Hne]; auto. right.
    assert (c <= k) by lia. split; auto. split; auto.
    destruct H2 as [H2|(u & Hu1 & Hu2)]; [simpl in H2; fold k in H2; lia|].
    right. exists u. split; auto. destruct (Hun u Hu2) as [->|[_ ?]]; auto. lia. }
  assert (Htag : forall e, In e (sb s) -> etag e < k).
  { intros e He. apply (i_sb _ _ _ _ I e He). }
  assert (Hview : forall r, viewc (sb s) (rf s) (S k) r = viewc (sb s) (rf s) k r).
  { intros r. apply viewc_mono; auto. }
  constructor.
  - (* waw *)
    intros j r Hj Hwj m Hm. simpl in Hm. fold k in Hm.
    destruct (Hp j Hj) as [->|[Hlt Hpj]]; [lia|].
    apply Hw in Hwj; [|lia].
    destruct (Nat.eq_dec m k) as [->|Hne].
    + rewrite Hwk. intros Hk. exact (Swaw r Hk j Hpj Hwj).
    + rewrite Hw by auto. apply (i_waw _ _ _ _ I j r Hpj Hwj). fold k. lia.
  - (* war *)
    intros j r Hj Hrj m Hm. simpl in Hm. fold k in Hm.
    destruct (Hp j Hj) as [->|[Hlt Hpj]]; [lia|].
    apply Hrd in Hrj; [|lia].
    destruct (Nat.eq_dec m k) as [->|Hne].
    + rewrite Hwk. intros Hk. exact (Swar r Hk j Hpj Hrj).
    + rewrite Hw by auto. apply (i_war _ _ _ _ I j r Hpj Hrj). fold k. lia.
  - (* clean *)
    intros c r Hc Hn. change (sb s') with (sb s). change (rf s') with (rf s).
    destruct (Hsafe c Hc) as [->|[Hck Hcs]].
    + rewrite Hview.
      assert (Hk : ~ wr (cur_ins text s) = Some r).
      { rewrite <- Hwk. apply Hn; [lia|]. unfold pending, pendingb. now rewrite Hstk. }
      rewrite D_S, Hinsk, apply_other by exact Hk. rewrite HD by lia.
      apply (i_clean _ _ _ _ I k r (safe_top text s)).
      intros j Hj Hpj. rewrite <- Hw by lia. apply Hn; auto.
    + rewrite HD by auto. apply (i_clean _ _ _ _ I c r Hcs).
      intros j Hj Hpj. rewrite <- Hw by lia. apply Hn; auto.
  - (* dirty *)
    intros c j r Hc Hjc Hj Hwj. change (sb s') with (sb s). change (rf s') with (rf s).
    destruct (Hsafe c Hc) as [->|[Hck Hcs]].
    + rewrite Hview. destruct (Hp j Hj) as [->|[Hlt Hpj]].
      * rewrite HD by lia. apply (i_clean _ _ _ _ I k r (safe_top text s)).
        intros x Hx Hpx. apply (Swaw r); auto. now apply Hwk.
      * rewrite HD by lia. apply (i_dirty _ _ _ _ I k j r (safe_top text s)); auto.
        apply Hw; auto. lia.
    + destruct (Hp j Hj) as [->|[Hlt Hpj]]; [lia|].
      rewrite HD by lia. apply (i_dirty _ _ _ _ I c j r Hcs); auto. apply Hw; auto. lia.
  - (* raw *)
    intros i fw0 r Hi Hr Hnf j Hji Hpj.
    destruct (Hp j Hpj) as [->|[Hlt Hpj']].
    + assert (i <> k) by lia. rewrite Hst in Hi by auto.
      assert (i < k) by (apply (stat_lt text s i B); congruence). lia.
    + rewrite Hw by lia. destruct (Nat.eq_dec i k) as [->|Hne].
      * rewrite Hstk in Hi. inversion Hi; subst fw0.
        intros Hwj. unfold Counts.reads in Hr. rewrite Hinsk in Hr.
        apply (Hnf j). exact (Sraw r Hr j Hpj' Hwj).
      * rewrite Hst in Hi by auto. apply Hrd in Hr; auto.
        exact (i_raw _ _ _ _ I i fw0 r Hi Hr Hnf j Hji Hpj').
  - (* fwd *)
    intros i p r Hi. destruct (Nat.eq_dec i k) as [->|Hne].
    + rewrite Hstk in Hi. inversion Hi; subst fw.
      destruct (Sfw p r eq_refl) as [Hpp Hwp].
      assert (p < k) by (apply (pending_lt text s p B Hpp)).
      split; auto. split; [apply Hw; auto; lia|].
      intros m Hm. rewrite Hw by lia. apply (i_waw _ _ _ _ I p r Hpp Hwp). fold k. lia.
    + rewrite Hst in Hi by auto.
      assert (i < k) by (apply (stat_lt text s i B); congruence).
      destruct (i_fwd _ _ _ _ I i p r Hi) as (H1 & H2 & H3).
      split; auto. split; [apply Hw; auto; lia|].
      intros m Hm. rewrite Hw by lia. now apply H3.
  - (* exec *)
    intros j v Hj. destruct (Nat.eq_dec j k) as [->|Hne].
    + rewrite Hstk in Hj. discriminate.
    + rewrite Hst in Hj by auto.
      assert (j < k) by (apply (stat_lt text s j B); congruence).
      rewrite (dval_ext text rf0 s s').
      * exact (i_exec _ _ _ _ I j v Hj).
      * intros x Hx. simpl. rewrite setf_other; auto. fold k. lia.
  - (* res *)
    intros j v Hj Hr. simpl in Hj, Hr. fold k in Hj, Hr.
    destruct (Nat.eq_dec j k) as [->|Hne].
    + rewrite setf_same in Hr. discriminate.
    + rewrite setf_other in Hr by auto.
      rewrite (dval_ext text rf0 s s').
      * apply (i_res _ _ _ _ I j v); auto. fold k. lia.
      * intros x Hx. simpl. rewrite setf_other; auto. fold k. lia.
  - (* sb *)
    intros e He. change (sb s') with (sb s) in He.
    destruct (i_sb _ _ _ _ I e He) as (H1 & H2 & H3). fold k in H1.
    split; [simpl; fold k; lia|]. split.
    + rewrite Hst by lia. exact H2.
    + apply Hw; auto. lia.
  - exact (i_sorted _ _ _ _ I).
  - intros Hb. destruct (i_direct _ _ _ _ I Hb) as [H1 H2]. split; auto.
    intros u Hu. destruct (Hun u Hu) as [->|[_ Hu']]; [reflexivity|].
    exfalso. exact (Hns Hb u Hu').
Qed.

(* ---------------- WriteBack ---------------- *)

Lemma safe_direct s c : Inv s -> bufm P = NoBuf -> safe s c -> c = nxt s.
Proof.
  intros I Hb [H1 [H2|(u & Hu1 & Hu2)]]; auto.
  destruct (i_direct _ _ _ _ I Hb) as [_ H]. specialize (H u Hu2). lia.
Qed.

Lemma wb_view_other s j v c r : bufm P = Full \/ bufm P = NoBuf ->
  wr (ins s j) <> Some r ->
  viewc (sb (do_writeback text P s j v)) (rf (do_writeback text P s j v)) c r
  = viewc (sb s) (rf s) c r.
Proof.
  intros Hm Hw. simpl. unfold wb_res. destruct (wr (ins s j)) as [d|]; [|reflexivity].
  assert (d <> r) by congruence.
  destruct Hm as [-> | ->]; simpl.
  - rewrite viewc_cons. unfold hit. simpl.
    rewrite (proj2 (Nat.eqb_neq d r)) by auto. now rewrite andb_false_r.
  - apply viewc_fext. apply upd_other. auto.
Qed.

Lemma wb_view_same s j v c r : Base text s -> Inv s -> bufm P = Full \/ bufm P = NoBuf ->
  j < nxt s -> wr (ins s j) = Some r -> safe s c ->
  viewc (sb (do_writeback text P s j v)) (rf (do_writeback text P s j v)) c r
  = if j <? c then v else viewc (sb s) (rf s) c r.
Proof.
  intros B I Hm Hj Hw Hc. simpl. unfold wb_res. rewrite Hw.
  destruct Hm as [Hm | Hm]; rewrite Hm; simpl.
  - rewrite viewc_cons. unfold hit. simpl. rewrite Nat.eqb_refl, andb_true_r. reflexivity.
  - destruct (i_direct _ _ _ _ I Hm) as [Hsb _]. rewrite Hsb. rewrite !viewc_nil.
    rewrite (safe_direct s c I Hm Hc). rewrite (proj2 (Nat.ltb_lt _ _) Hj). apply upd_same.
Qed.

Lemma inv_writeback s j v : Base text s -> Inv s -> bufm P = Full \/ bufm P = NoBuf ->
  stat s j = Exec v -> is_branch (ins s j) = false ->
  Inv (do_writeback text P s j v).
Proof.
  intros B I Hm Hs Hnb.
  set (s' := do_writeback text P s j v).
  assert (Hj : j < nxt s) by (apply (stat_lt text s j B); congruence).
  assert (Hpj : pending s j) by (eapply exec_pending; eauto).
  assert (Hv : v = dval s j) by (apply (i_exec _ _ _ _ I j v Hs)).
  assert (Hst : forall x, x <> j -> stat s' x = stat s x).
  { intros x Hx. simpl. now rewrite setf_other. }
  assert (Hstj : stat s' j = Done) by (simpl; apply setf_same).
  assert (Hp : forall x, pending s' x <-> pending s x /\ x <> j).
  { intros x. unfold pending, pendingb. destruct (Nat.eq_dec x j) as [->|Hne].
    - rewrite Hstj. simpl. split; [discriminate|tauto].
    - rewrite Hst by auto. tauto. }
  assert (Hu : forall x, unres s' x <-> unres s x).
  { intros x. rewrite !unres_iff. rewrite Hp. change (ins s' x) with (ins s x).
    split; [tauto|]. intros [H1 H2]. repeat split; auto. intros ->. congruence. }
  assert (Hsafe : forall c, safe s' c <-> safe s c).
  { intros c. unfold InvDefs.safe. change (nxt s') with (nxt s).
    split; intros [H1 H2]; split; auto; destruct H2 as [H2|(u & Hu1 & Hu2)]; auto;
      right; exists u; split; auto; now apply Hu. }
  destruct I. constructor.
  - intros x r Hx. apply Hp in Hx. destruct Hx as [Hx _]. exact (i_waw x r Hx).
  - intros x r Hx. apply Hp in Hx. destruct Hx as [Hx _]. exact (i_war x r Hx).
  - (* clean *)
    intros c r Hc Hn. apply Hsafe in Hc.
    change (D s' c r) with (D s c r).
    destruct (writes_dec text s j r) as [Hw|Hw].
    + unfold s'. rewrite wb_view_same; auto; try (constructor; assumption).
      destruct (Nat.ltb_spec j c) as [Hjc|Hjc].
      * rewrite Hv. rewrite <- (D_write text rf0 s j r Hw). symmetry.
        apply D_stable; [lia|]. intros m Hm'. apply (i_waw j r Hpj Hw m).
        destruct Hc. lia.
      * apply (i_clean c r Hc). intros x Hx Hpx. apply Hn; auto. apply Hp. split; auto. lia.
    + unfold s'. rewrite wb_view_other; auto. apply (i_clean c r Hc).
      intros x Hx Hpx. destruct (Nat.eq_dec x j) as [->|Hne]; auto.
      apply Hn; auto. apply Hp. split; auto.
  - (* dirty *)
    intros c x r Hc Hx Hpx Hwx. apply Hsafe in Hc. apply Hp in Hpx. destruct Hpx as [Hpx Hne].
    change (D s' x r) with (D s x r). change (writes s' x r) with (writes s x r) in Hwx.
    destruct (writes_dec text s j r) as [Hw|Hw].
    + exfalso. apply Hne.
      apply (pending_uniq text rf0 P s x j r B); auto. constructor; assumption.
    + unfold s'. rewrite wb_view_other; auto.
  - (* raw *)
    intros i fw0 r Hi Hr Hnf x Hxi Hpx. apply Hp in Hpx. destruct Hpx as [Hpx _].
    destruct (Nat.eq_dec i j) as [->|Hne].
    + rewrite Hstj in Hi. discriminate.
    + rewrite Hst in Hi by auto. exact (i_raw i fw0 r Hi Hr Hnf x Hxi Hpx).
  - intros i p r Hi. destruct (Nat.eq_dec i j) as [->|Hne].
    + rewrite Hstj in Hi. discriminate.
    + rewrite Hst in Hi by auto. exact (i_fwd i p r Hi).
  - intros x v0 Hx. destruct (Nat.eq_dec x j) as [->|Hne].
    + rewrite Hstj in Hx. discriminate.
    + rewrite Hst in Hx by auto. exact (i_exec x v0 Hx).
  - exact i_res.
  - (* sb *)
    intros e He.
    assert (Hold : forall e, In e (sb s) ->
              etag e < nxt s' /\ stat s' (etag e) = Done /\ writes s' (etag e) (ereg e)).
    { intros e0 He0. destruct (i_sb e0 He0) as (H1 & H2 & H3). repeat split; auto.
      rewrite Hst; auto. intros E. rewrite E, Hs in H2. discriminate. }
    simpl in He. unfold wb_res in He. destruct (wr (ins s j)) as [d|] eqn:Ew; [|auto].
    destruct Hm as [Hm|Hm]; rewrite Hm in He; simpl in He; [|auto].
    destruct He as [<-|He]; [|auto]. simpl. repeat split; auto.
  - (* sorted *)
    simpl. unfold wb_res. destruct (wr (ins s j)) as [d|] eqn:Ew; [|exact i_sorted].
    destruct Hm as [Hm|Hm]; rewrite Hm; simpl; [|exact i_sorted].
    constructor; auto. simpl. intros e' He' Er.
    destruct (i_sb e' He') as (H1 & H2 & H3). rewrite Er in H3.
    destruct (lt_eq_lt_dec (etag e') j) as [[H|H]|H]; auto; exfalso.
    + rewrite H, Hs in H2. discriminate.
    + apply (i_waw j d Hpj Ew (etag e')); auto.
  - intros Hb. destruct (i_direct Hb) as [H1 H2]. split.
    + simpl. unfold wb_res. destruct (wr (ins s j)); auto. rewrite Hb. simpl. auto.
    + intros u Hx. apply Hu in Hx. exact (H2 u Hx).
Qed.

End InvSteps.
