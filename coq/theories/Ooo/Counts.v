(* Ooo/Counts.v - structural invariant of the machine (Base) and the scoreboard theorem:
   the STORED counters of risc/app.go (PendingWriteRegisters / PendingReadRegisters, incremented
   by AddPendingRegisters at dispatch, decremented by DeletePendingRegisters at release) equal
   the counters DERIVED from the in-flight set, in every reachable state of every policy. *)
From Coq Require Import ZArith List Lia Arith Bool.
From Maj Require Import Ooo.Machine.
Import ListNotations.

(* ---------- generic facts ---------- *)

Lemma setf_same {A} (f : nat -> A) j x : setf f j x j = x.
Proof. unfold setf. now rewrite Nat.eqb_refl. Qed.
Lemma setf_other {A} (f : nat -> A) j x i : i <> j -> setf f j x i = f i.
Proof. unfold setf. intros. destruct (Nat.eqb_spec i j); congruence. Qed.

Lemma upd_same f d v : upd f d v d = v.
Proof. unfold upd. now rewrite Nat.eqb_refl. Qed.
Lemma upd_other f d v r : r <> d -> upd f d v r = f r.
Proof. unfold upd. intros H. destruct (Nat.eqb_spec r d); congruence. Qed.

Fixpoint sumto (g : nat -> nat) (n : nat) : nat :=
  match n with O => 0 | S n' => sumto g n' + g n' end.

Lemma sumto_ext g h n : (forall j, j < n -> g j = h j) -> sumto g n = sumto h n.
Proof.
  induction n as [|n IH]; simpl; intros H; auto.
  rewrite IH, H; auto.
Qed.

Lemma sumto_upd g h n j : j < n -> (forall i, i < n -> i <> j -> g i = h i) ->
  sumto g n + h j = sumto h n + g j.
Proof.
  induction n as [|n IH]; simpl; intros Hj H; [lia|].
  destruct (Nat.eq_dec j n) as [->|Hne].
  - rewrite (sumto_ext g h n); [lia|]. intros i Hi. apply H; lia.
  - rewrite (H n) by lia. assert (j < n) by lia.
    specialize (IH H0). assert (forall i, i < n -> i <> j -> g i = h i) by (intros; apply H; lia).
    specialize (IH H1). lia.
Qed.

Lemma sumto_zero g n : sumto g n = 0 <-> forall j, j < n -> g j = 0.
Proof.
  induction n as [|n IH]; simpl.
  - split; intros; auto; lia.
  - split.
    + intros H j Hj. destruct (Nat.eq_dec j n) as [->|]; [lia|]. apply IH; lia.
    + intros H. assert (sumto g n = 0) by (apply IH; intros; apply H; lia).
      rewrite H0, H; lia.
Qed.

Lemma sumto_ge g n j : j < n -> g j <= sumto g n.
Proof.
  induction n as [|n IH]; simpl; intros Hj; [lia|].
  destruct (Nat.eq_dec j n) as [->|]; [lia|]. specialize (IH ltac:(lia)). lia.
Qed.

Lemma wcount_zero i r : wcount i r = 0 <-> wr i <> Some r.
Proof.
  unfold wcount. destruct (wr i) as [d|].
  - destruct (Nat.eqb_spec d r); split; intros; try congruence; try lia.
  - split; intros; auto; discriminate.
Qed.

Lemma rcount_zero i r : rcount i r = 0 <-> ~ In r (srcs i).
Proof. unfold rcount. symmetry. apply count_occ_not_In. Qed.

Section Counts.
Variable text : list instr.
Variable rf0 : rfile.
Variable P : policy.

Definition pending (s : state) (j : nat) : Prop := pendingb s j = true.
Definition writes (s : state) (j : nat) (r : reg) : Prop := wr (ins text s j) = Some r.
Definition reads (s : state) (j : nat) (r : reg) : Prop := In r (srcs (ins text s j)).
Definition unres (s : state) (u : nat) : Prop := unresb text s u = true.

Lemma unres_iff s u : unres s u <-> pending s u /\ is_branch (ins text s u) = true.
Proof. unfold unres, unresb, pending. apply andb_true_iff. Qed.

(* ---------- structural invariant ---------- *)

Record Base (s : state) : Prop := {
  b_notyet : forall j, nxt s <= j -> stat s j = NotYet;
  b_started : forall j, j < nxt s -> stat s j <> NotYet;
  (* decode stops at ret: a ret in the stream is the youngest instance *)
  b_ret : forall j, j < nxt s -> is_ret (ins text s j) = true -> S j = nxt s
}.

Lemma pending_lt s j : Base s -> pending s j -> j < nxt s.
Proof.
  intros B H. destruct (Nat.lt_ge_cases j (nxt s)); auto.
  unfold pending, pendingb in H. rewrite (b_notyet _ B j) in H; auto. discriminate.
Qed.

Lemma stat_lt s j : Base s -> stat s j <> NotYet -> j < nxt s.
Proof.
  intros B H. destruct (Nat.lt_ge_cases j (nxt s)); auto.
  exfalso. apply H. now apply (b_notyet _ B).
Qed.

Lemma no_ret_spec s : no_ret text s = true ->
  forall j, j < nxt s -> is_ret (ins text s j) = false.
Proof.
  unfold no_ret. rewrite forallb_forall. intros H j Hj.
  apply negb_true_iff. apply H. apply in_seq. lia.
Qed.

Lemma all_done_spec s : all_done s = true -> forall j, j < nxt s -> pendingb s j = false.
Proof.
  unfold all_done. rewrite forallb_forall. intros H j Hj.
  apply negb_true_iff. apply H. apply in_seq. lia.
Qed.

Lemma older_done_spec s e : older_done s e = true -> forall j, j < e -> pendingb s j = false.
Proof.
  unfold older_done. rewrite forallb_forall. intros H j Hj.
  apply negb_true_iff. apply H. apply in_seq. lia.
Qed.

Lemma ins_dispatch_other s fw j : j <> nxt s -> ins text (do_dispatch text s fw) j = ins text s j.
Proof. intros. unfold ins. simpl. now rewrite setf_other. Qed.
Lemma ins_dispatch_same s fw : ins text (do_dispatch text s fw) (nxt s) = cur_ins text s.
Proof. unfold ins, cur_ins. simpl. now rewrite setf_same. Qed.

Lemma base_init : Base (init rf0).
Proof. constructor; simpl; intros; auto; lia. Qed.

Lemma base_dispatch s fw : Base s -> no_ret text s = true -> Base (do_dispatch text s fw).
Proof.
  intros [B1 B2 B3] Hn. constructor; simpl.
  - intros j Hj. rewrite setf_other by lia. apply B1. lia.
  - intros j Hj. destruct (Nat.eq_dec j (nxt s)) as [->|].
    + rewrite setf_same. discriminate.
    + rewrite setf_other by auto. apply B2. lia.
  - intros j Hj Hr. destruct (Nat.eq_dec j (nxt s)) as [->|]; auto.
    rewrite ins_dispatch_other in Hr by auto.
    rewrite (no_ret_spec s Hn j) in Hr by lia. discriminate.
Qed.

(* any change of the status of a started instance to another started status *)
Lemma base_setstat s s' j x :
  Base s -> nxt s' = nxt s -> ipc s' = ipc s -> stat s' = setf (stat s) j x ->
  stat s j <> NotYet -> x <> NotYet -> Base s'.
Proof.
  intros [B1 B2 B3] Hn Hi Hs Hj Hx.
  assert (Hlt : j < nxt s).
  { destruct (Nat.lt_ge_cases j (nxt s)); auto. exfalso. apply Hj. now apply B1. }
  constructor; rewrite ?Hn, ?Hs.
  - intros i Hi'. rewrite setf_other by lia. now apply B1.
  - intros i Hi'. destruct (Nat.eq_dec i j) as [->|].
    + now rewrite setf_same.
    + rewrite setf_other by auto. now apply B2.
  - intros i Hi'. unfold ins. rewrite Hi. apply B3; auto.
Qed.

Lemma base_squash s b t : Base s -> b < nxt s -> Base (squash text s b t).
Proof.
  intros [B1 B2 B3] Hb. constructor; simpl.
  - intros j Hj. destruct (Nat.leb_spec j b); auto. lia.
  - intros j Hj. destruct (Nat.leb_spec j b); [|lia]. apply B2. lia.
  - intros j Hj Hr. unfold ins in Hr; simpl in Hr.
    assert (S j = nxt s) by (apply B3; auto; lia). lia.
Qed.

Lemma base_same s s' :
  Base s -> nxt s' = nxt s -> ipc s' = ipc s -> stat s' = stat s -> Base s'.
Proof.
  intros [B1 B2 B3] Hn Hi Hs. constructor; rewrite ?Hn, ?Hs; auto.
  intros j. unfold ins. rewrite Hi. apply B3.
Qed.

Lemma base_step s s' : Base s -> step text P s s' -> Base s'.
Proof.
  intros B H. inversion H; subst; clear H.
  - now apply base_dispatch.
  - eapply (base_setstat s _ j); eauto; simpl; try reflexivity; try congruence; discriminate.
  - eapply (base_setstat s _ j); eauto; simpl; try reflexivity; try congruence; discriminate.
  - unfold do_resolve_t.
    assert (Hb : b < nxt s) by (apply stat_lt; auto; congruence).
    eapply base_same; [|reflexivity|reflexivity|reflexivity].
    eapply (base_setstat (squash text s b t) _ b); [apply base_squash; auto| | | | |];
      simpl; try reflexivity; try discriminate.
    rewrite Nat.leb_refl. congruence.
  - unfold do_resolve_nt.
    eapply base_same; [|reflexivity|reflexivity|reflexivity].
    eapply (base_setstat s _ b); eauto; simpl; try reflexivity; try congruence; discriminate.
  - eapply base_same; eauto.
  - eapply base_same; eauto.
  - eapply base_same; eauto.
Qed.

Lemma reach_base s : reach text rf0 P s -> Base s.
Proof. induction 1; [apply base_init | eapply base_step; eauto]. Qed.

(* ---------- the scoreboard counters ---------- *)

(* derived counters: number of in-flight instances that declare r as destination / source
   (sources with multiplicity, as AddPendingRegisters counts them) *)
Definition cnt (c : instr -> reg -> nat) (s : state) (n : nat) (r : reg) : nat :=
  sumto (fun j => if pendingb s j then c (ins text s j) r else 0) n.
Definition cnt_w (s : state) (r : reg) : nat := cnt wcount s (nxt s) r.
Definition cnt_r (s : state) (r : reg) : nat := cnt rcount s (nxt s) r.

Definition counts_ok (s : state) : Prop :=
  forall r, pw s r = cnt_w s r /\ pr s r = cnt_r s r.

Lemma cnt_ext c s s' n r :
  (forall j, j < n -> stat s' j = stat s j /\ ipc s' j = ipc s j) ->
  cnt c s' n r = cnt c s n r.
Proof.
  intros H. apply sumto_ext. intros j Hj. destruct (H j Hj) as [H1 H2].
  unfold pendingb, ins. now rewrite H1, H2.
Qed.

Lemma cnt_dispatch c s fw r :
  cnt c (do_dispatch text s fw) (S (nxt s)) r = cnt c s (nxt s) r + c (cur_ins text s) r.
Proof.
  unfold cnt at 1. simpl sumto. f_equal.
  - apply sumto_ext. intros j Hj. unfold pendingb, ins. simpl.
    now rewrite !setf_other by lia.
  - unfold pendingb. simpl. rewrite setf_same. simpl. now rewrite ins_dispatch_same.
Qed.

(* status change that keeps the instance in flight *)
Lemma cnt_keep c s s' j n r :
  ipc s' = ipc s -> (forall i, i <> j -> stat s' i = stat s i) ->
  pendingb s' j = pendingb s j -> cnt c s' n r = cnt c s n r.
Proof.
  intros Hi Hs Hp. apply sumto_ext. intros i _. unfold ins. rewrite Hi.
  destruct (Nat.eq_dec i j) as [->|Hne].
  - now rewrite Hp.
  - unfold pendingb. now rewrite Hs.
Qed.

(* release of instance j *)
Lemma cnt_release c s s' j r :
  ipc s' = ipc s -> stat s' = setf (stat s) j Done -> j < nxt s -> pendingb s j = true ->
  cnt c s (nxt s) r = cnt c s' (nxt s) r + c (ins text s j) r.
Proof.
  intros Hi Hs Hj Hp. unfold cnt.
  pose proof (sumto_upd
    (fun j0 => if pendingb s j0 then c (ins text s j0) r else 0)
    (fun j0 => if pendingb s' j0 then c (ins text s' j0) r else 0) (nxt s) j Hj) as H.
  simpl in H. rewrite Hp in H.
  assert (Hd : pendingb s' j = false) by (unfold pendingb; rewrite Hs, setf_same; reflexivity).
  rewrite Hd in H. rewrite Nat.add_0_r in H. apply H.
  intros i _ Hne. unfold pendingb, ins. rewrite Hs, Hi. now rewrite setf_other.
Qed.

Lemma rel_range_spec c sub s lo n r :
  (forall f i r', sub f i r' = f r' - c i r') ->
  forall f, f r = cnt c s (lo + n) r -> rel_range text s lo n f sub r = cnt c s lo r.
Proof.
  intros Hsub. induction n as [|n IH]; intros f Hf; simpl.
  - now rewrite Nat.add_0_r in Hf.
  - apply IH. replace (lo + S n) with (S (lo + n)) in Hf by lia.
    unfold cnt in Hf. simpl in Hf. fold (cnt c s (lo + n) r) in Hf.
    destruct (pendingb s (lo + n)).
    + rewrite Hsub. lia.
    + lia.
Qed.

Lemma counts_init : counts_ok (init rf0).
Proof. intros r. split; reflexivity. Qed.

Lemma counts_mark_done s b :
  Base s -> counts_ok s -> pendingb s b = true -> counts_ok (mark_done text s b).
Proof.
  intros B C Hp r. destruct (C r) as [Cw Cr].
  assert (Hb : b < nxt s) by (apply pending_lt; auto).
  unfold cnt_w, cnt_r. simpl. unfold subw, subr. split.
  - rewrite Cw. unfold cnt_w.
    rewrite (cnt_release wcount s (mark_done text s b) b r); auto. lia.
  - rewrite Cr. unfold cnt_r.
    rewrite (cnt_release rcount s (mark_done text s b) b r); auto. lia.
Qed.

Lemma counts_squash s b t :
  Base s -> counts_ok s -> b < nxt s -> counts_ok (squash text s b t).
Proof.
  intros B C Hb r. destruct (C r) as [Cw Cr].
  assert (Hn : nxt s = S b + (nxt s - S b)) by lia.
  unfold cnt_w, cnt_r. simpl. split.
  - rewrite (rel_range_spec wcount subw s (S b) (nxt s - S b) r); [| reflexivity |].
    + symmetry. apply cnt_ext. intros j Hj. simpl.
      destruct (Nat.leb_spec j b); [auto|lia].
    + rewrite <- Hn. exact Cw.
  - rewrite (rel_range_spec rcount subr s (S b) (nxt s - S b) r); [| reflexivity |].
    + symmetry. apply cnt_ext. intros j Hj. simpl.
      destruct (Nat.leb_spec j b); [auto|lia].
    + rewrite <- Hn. exact Cr.
Qed.

Lemma counts_same s s' :
  counts_ok s -> nxt s' = nxt s -> ipc s' = ipc s -> stat s' = stat s ->
  pw s' = pw s -> pr s' = pr s -> counts_ok s'.
Proof.
  intros C Hn Hi Hs Hw Hr r. destruct (C r) as [Cw Cr].
  unfold cnt_w, cnt_r. rewrite Hn, Hw, Hr. split.
  - rewrite Cw. symmetry. apply cnt_ext. intros. now rewrite Hs, Hi.
  - rewrite Cr. symmetry. apply cnt_ext. intros. now rewrite Hs, Hi.
Qed.

Lemma counts_step s s' : Base s -> counts_ok s -> step text P s s' -> counts_ok s'.
Proof.
  intros B C H. inversion H; subst; clear H.
  - intros r. destruct (C r) as [Cw Cr]. unfold cnt_w, cnt_r in *. simpl nxt.
    rewrite !cnt_dispatch. simpl. unfold addw, addr. rewrite Cw, Cr. split; reflexivity.
  - intros r. destruct (C r) as [Cw Cr]. unfold cnt_w, cnt_r. simpl. split.
    + rewrite Cw. symmetry. apply (cnt_keep wcount s _ j); simpl; auto.
      * intros. now rewrite setf_other.
      * unfold pendingb. simpl. rewrite setf_same, H1. reflexivity.
    + rewrite Cr. symmetry. apply (cnt_keep rcount s _ j); simpl; auto.
      * intros. now rewrite setf_other.
      * unfold pendingb. simpl. rewrite setf_same, H1. reflexivity.
  - assert (Hp : pendingb s j = true) by (unfold pendingb; rewrite H1; reflexivity).
    eapply counts_same; [apply (counts_mark_done s j B C Hp)| | | | |]; reflexivity.
  - assert (Hb : b < nxt s) by (apply stat_lt; auto; congruence).
    unfold do_resolve_t.
    eapply counts_same; [|reflexivity|reflexivity|reflexivity|reflexivity|reflexivity].
    apply counts_mark_done.
    + now apply base_squash.
    + now apply counts_squash.
    + unfold pendingb. simpl. rewrite Nat.leb_refl, H1. reflexivity.
  - unfold do_resolve_nt.
    eapply counts_same; [|reflexivity|reflexivity|reflexivity|reflexivity|reflexivity].
    apply counts_mark_done; auto. unfold pendingb. rewrite H1. reflexivity.
  - eapply counts_same; eauto.
  - eapply counts_same; eauto.
  - eapply counts_same; eauto.
Qed.

(* C04 scoreboard_counts: stored counters = derived counters, every policy, every schedule *)
Theorem scoreboard_counts s : reach text rf0 P s -> counts_ok s.
Proof.
  induction 1 as [|s s' R IH H]; [apply counts_init|].
  eapply counts_step; eauto. now apply reach_base.
Qed.

(* ---------- what the guards of risc/app.go therefore mean ---------- *)

Lemma cnt_zero c s n r :
  cnt c s n r = 0 <-> forall j, j < n -> pendingb s j = true -> c (ins text s j) r = 0.
Proof.
  unfold cnt. rewrite sumto_zero. split; intros H j Hj.
  - intros Hp. specialize (H j Hj). now rewrite Hp in H.
  - destruct (pendingb s j) eqn:E; auto.
Qed.

Lemma pw_zero s r : Base s -> counts_ok s ->
  (pw s r = 0 <-> forall j, pending s j -> ~ writes s j r).
Proof.
  intros B C. destruct (C r) as [Cw _]. rewrite Cw. unfold cnt_w. rewrite cnt_zero.
  split; intros H j.
  - intros Hp. apply wcount_zero. apply H; auto. now apply pending_lt.
  - intros Hj Hp. apply wcount_zero. now apply H.
Qed.

Lemma pr_zero s r : Base s -> counts_ok s ->
  (pr s r = 0 <-> forall j, pending s j -> ~ reads s j r).
Proof.
  intros B C. destruct (C r) as [_ Cr]. rewrite Cr. unfold cnt_r. rewrite cnt_zero.
  split; intros H j.
  - intros Hp. apply rcount_zero. apply H; auto. now apply pending_lt.
  - intros Hj Hp. apply rcount_zero. now apply H.
Qed.

(* ctx.Flush() after a drained flush: when nothing is in flight the stored counters are 0 *)
Lemma counts_drained s : Base s -> counts_ok s ->
  (forall j, j < nxt s -> pendingb s j = false) -> forall r, pw s r = 0 /\ pr s r = 0.
Proof.
  intros B C H r. split.
  - apply pw_zero; auto. intros j Hp. unfold pending in Hp.
    rewrite H in Hp; [discriminate|]. now apply pending_lt.
  - apply pr_zero; auto. intros j Hp. unfold pending in Hp.
    rewrite H in Hp; [discriminate|]. now apply pending_lt.
Qed.

End Counts.
