(* Ooo/Exit.v - C09: returning completes everything older than the return.

   exit_complete : if Exit is only taken when no older instance is dispatched, executing or
                   awaiting write-back (cpu.go: the drain loop after `if ret`, cu.go: ret waits
                   for the execute bus and for the pending conditional branch), then the final
                   state is the sequential one - for every hazard-safe dispatch guard and either
                   buffer discipline covered by sound_policy.
   exit_at_seq_halt : the machine only ever halts where the sequential run halts.
   The negative half (an exit that does not drain loses results) is
   Refute.exit_without_drain_refuted. *)
From Coq Require Import ZArith List Lia Arith Bool.
From Maj Require Import Ooo.Machine Ooo.Counts Ooo.InvDefs Ooo.InvSteps Ooo.InvResolve Ooo.Path.
Import ListNotations.

Section Exit.
Variable text : list instr.
Variable rf0 : rfile.
Variable P : policy.

Theorem exit_complete :
  (forall s fw, Base text s -> counts_ok text s -> Inv text rf0 P s ->
                dispatch_ok P s fw = true -> safe_dispatch text s fw) ->
  (bufm P = Full \/
   (bufm P = NoBuf /\
    forall s fw, Base text s -> dispatch_ok P s fw = true -> forall u, ~ unres text s u)) ->
  commit_all P = false ->
  exit_drains P ->
  forall s, reach text rf0 P s -> fin s = true ->
  exists e, halts_at text rf0 e /\ forall r, rf s r = seq_rf text rf0 e r.
Proof.
  intros H1 H2 H3 H4. apply ooo_correct. constructor; auto.
Qed.

Theorem exit_at_seq_halt : sound_policy text rf0 P ->
  forall s, reach text rf0 P s -> fin s = false -> halted s = true ->
  exists e, halts_at text rf0 e /\
            (forall r, D text rf0 s (nxt s) r = seq_rf text rf0 e r) /\
            (forall j r, pending s j -> ~ writes text s j r).
Proof.
  intros SP s R Hf Hh. destruct (path_inv text rf0 P SP s R Hf) as (_ & _ & H). exact (H Hh).
Qed.

End Exit.
