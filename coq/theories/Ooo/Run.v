(* Ooo/Run.v - executable schedules are sound: a label list accepted by Machine.run is a path
   of the transition relation; `witness` is the shape used by every refutation and example. *)
From Coq Require Import ZArith List Lia Arith Bool.
From Maj Require Import Ooo.Machine.
Import ListNotations.

Section Run.
Variable text : list instr.
Variable rf0 : rfile.
Variable P : policy.

Notation exec_label := (exec_label text P).
Notation run := (run text P).
Notation step := (step text P).
Notation reach := (reach text rf0 P).
Notation init := (init rf0).
Notation ins := (ins text).

Lemma guard_some b s s' : guard b s = Some s' -> b = true /\ s' = s.
Proof. unfold guard. destruct b; intros H; inversion H; auto. Qed.

Lemma exec_label_sound l s s' : exec_label l s = Some s' -> step s s'.
Proof.
  destruct l; simpl; intros H.
  - apply guard_some in H. destruct H as [H ->].
    repeat (apply andb_prop in H; destruct H as [H ?]).
    apply s_dispatch; auto.
    + now apply negb_true_iff.
    + now apply Nat.ltb_lt.
  - destruct (stat s j) eqn:E; try discriminate.
    apply guard_some in H. destruct H as [H ->].
    repeat (apply andb_prop in H; destruct H as [H ?]).
    apply s_execute; auto; now apply negb_true_iff.
  - destruct (stat s j) eqn:E; try discriminate.
    apply guard_some in H. destruct H as [H ->].
    repeat (apply andb_prop in H; destruct H as [H ?]).
    apply s_writeback; auto; now apply negb_true_iff.
  - destruct (stat s b) eqn:E; try discriminate.
    destruct (kind (ins s b)) eqn:K; try discriminate.
    apply guard_some in H. destruct H as [H ->].
    apply andb_prop in H; destruct H as [H ?].
    apply negb_true_iff in H.
    destruct (Z.eqb_spec v 0).
    + eapply s_resolve_not_taken; eauto.
    + eapply s_resolve_taken; eauto.
  - destruct (stat s e) eqn:E; try discriminate.
    apply guard_some in H. destruct H as [H ->].
    repeat (apply andb_prop in H; destruct H as [H ?]).
    eapply s_exit_ret; eauto. now apply negb_true_iff.
  - apply guard_some in H. destruct H as [H ->].
    repeat (apply andb_prop in H; destruct H as [H ?]).
    apply s_exit_end; auto.
    + now apply negb_true_iff.
    + now apply Nat.leb_le.
  - apply guard_some in H. destruct H as [H ->].
    apply andb_prop in H; destruct H as [H ?].
    apply s_finish; auto. now apply negb_true_iff.
Qed.

Lemma run_reach ls : forall s s', reach s -> run ls s = Some s' -> reach s'.
Proof.
  induction ls as [|l ls IH]; simpl; intros s s' R H.
  - inversion H; subst; auto.
  - destruct (exec_label l s) as [s1|] eqn:E; try discriminate.
    eapply IH; [|exact H]. eapply r_step; [exact R|]. eapply exec_label_sound; exact E.
Qed.

(* the shape used by every refutation: a schedule, and a boolean test on the state reached *)
Lemma witness (ls : list label) (chk : state -> bool) :
  match run ls init with Some s => chk s | None => false end = true ->
  exists s, reach s /\ chk s = true.
Proof.
  destruct (run ls init) as [s|] eqn:E; try discriminate.
  intros H. exists s. split; auto. eapply run_reach; [apply r_init|exact E].
Qed.

End Run.
