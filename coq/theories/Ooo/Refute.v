(* Ooo/Refute.v - kernel-checked refutations: for each discipline the Go code really has and the
   DESIGN lists as unsound, a concrete small program and a concrete schedule (a list of
   transitions of the abstract machine under that policy) that ends in a final state different
   from the sequential one.  Every witness is closed by vm_compute. *)
From Coq Require Import ZArith List Lia Arith Bool.
From Maj Require Import Ooo.Machine Ooo.Run Ooo.Policies.
Import ListNotations.

(* ---------- a tiny assembler ---------- *)

Definition li (d : reg) (c : Z) : instr :=
  {| srcs := []; dst := Some d; sem := fun _ => c; kind := Plain |}.
Definition addi (d s : reg) (c : Z) : instr :=
  {| srcs := [s]; dst := Some d; sem := fun l => (hd 0%Z l + c)%Z; kind := Plain |}.
Definition add (d s1 s2 : reg) : instr :=
  {| srcs := [s1; s2]; dst := Some d; sem := fun l => (hd 0%Z l + hd 0%Z (tl l))%Z; kind := Plain |}.
Definition bnez (s : reg) (t : nat) : instr :=
  {| srcs := [s]; dst := None; sem := fun l => hd 0%Z l; kind := Branch t |}.
Definition ret : instr :=
  {| srcs := []; dst := None; sem := fun _ => 0%Z; kind := Ret |}.

Arguments li d c%Z.
Arguments addi d s c%Z.

Definition regs (l : list (reg * Z)) : rfile :=
  fun r => match find (fun p => Nat.eqb (fst p) r) l with Some p => snd p | None => 0%Z end.

(* ---------- what "refuted" means ---------- *)

(* some schedule of policy P on this program reaches a final state whose register r differs
   from the sequential result (the sequential run halts after e steps) *)
Definition refutes (text : list instr) (rf0 : rfile) (P : policy) : Prop :=
  exists s e r, reach text rf0 P s /\ fin s = true /\
                halts_at text rf0 e /\ rf s r <> seq_rf text rf0 e r.

Definition bad (text : list instr) (rf0 : rfile) (e : nat) (r : reg) (s : state) : bool :=
  fin s && halts text (seq_at text rf0 e) && negb (Z.eqb (rf s r) (seq_rf text rf0 e r)).

Lemma refute_by text rf0 P (ls : list label) (e : nat) (r : reg) :
  match run text P ls (init rf0) with Some s => bad text rf0 e r s | None => false end = true ->
  refutes text rf0 P.
Proof.
  intros H. destruct (witness text rf0 P ls (bad text rf0 e r) H) as (s & R & Hb).
  unfold bad in Hb. apply andb_prop in Hb. destruct Hb as [Hb H3].
  apply andb_prop in Hb. destruct Hb as [H1 H2].
  exists s, e, r. repeat split; auto.
  apply negb_true_iff in H3. now apply Z.eqb_neq.
Qed.

(* once the sequential run has halted it stays where it is: the sequential result does not
   depend on which halting index is taken, so a refutation contradicts ooo_correct's conclusion *)
Lemma seq_stutter text rf0 e : halts_at text rf0 e -> forall e', e <= e' ->
  seq_at text rf0 e' = seq_at text rf0 e.
Proof.
  intros He. induction 1 as [|e' Hle IH]; auto.
  simpl. rewrite IH. unfold halts_at, halts in He. unfold adv.
  destruct (nth_error text (s_pc (seq_at text rf0 e))) as [i|]; auto.
  unfold is_ret in He. destruct (kind i); auto; discriminate.
Qed.

Theorem refutes_not_correct text rf0 P : refutes text rf0 P ->
  ~ (forall s, reach text rf0 P s -> fin s = true ->
       exists e, halts_at text rf0 e /\ forall r, rf s r = seq_rf text rf0 e r).
Proof.
  intros (s & e & r & R & Hf & He & Hne) H.
  destruct (H s R Hf) as (e' & He' & Heq). apply Hne. rewrite Heq.
  unfold seq_rf. destruct (Nat.le_ge_cases e e') as [Hle|Hle].
  - now rewrite (seq_stutter text rf0 e He e' Hle).
  - now rewrite (seq_stutter text rf0 e' He' e Hle).
Qed.

(* ================================================================== *)
(* C03: 6.0 / 6.1 write wrong-path results straight into the file      *)
(* ================================================================== *)

(*  0: bnez r1, 3     (r1 = 1: taken)
    1: li   r2, 7     <- wrong path
    2: ret
    3: ret                                   sequential: r2 = 0 *)
Definition shadow_text := [bnez 1 3; li 2 7; ret; ret].
Definition shadow_rf0 := regs [(1, 1%Z)].
Definition shadow_sched :=
  [LDispatch None; LDispatch None;         (* branch, then the wrong-path li *)
   LExecute 1; LWriteBack 1;               (* li completes: r2 := 7 in the FILE *)
   LExecute 0; LResolve 0;                 (* branch taken: squash - nothing left to undo *)
   LDispatch None; LExit 1; LFinish].      (* ret at the target *)

Theorem p60_shadow_writeback_refuted : refutes shadow_text shadow_rf0 (P60 shadow_text).
Proof. apply (refute_by _ _ _ shadow_sched 1 2). vm_compute. reflexivity. Qed.

Theorem p61_shadow_writeback_refuted : refutes shadow_text shadow_rf0 (P61 shadow_text).
Proof. apply (refute_by _ _ _ shadow_sched 1 2). vm_compute. reflexivity. Qed.

Theorem p60_p61_shadow_writeback_refuted :
  refutes shadow_text shadow_rf0 (P60 shadow_text) /\
  refutes shadow_text shadow_rf0 (P61 shadow_text).
Proof. split; [apply p60_shadow_writeback_refuted | apply p61_shadow_writeback_refuted]. Qed.

(* ================================================================== *)
(* C03: 6.2, one slot per register (D16)                               *)
(* ================================================================== *)

(*  0: li   r2, 5
    1: bnez r1, 4     (r1 = 1: taken)
    2: li   r2, 9     <- wrong path, same destination
    3: ret
    4: ret                                   sequential: r2 = 5 *)
Definition oneslot_text := [li 2 5; bnez 1 4; li 2 9; ret; ret].
Definition oneslot_rf0 := regs [(1, 1%Z)].
Definition oneslot_sched :=
  [LDispatch None; LExecute 0; LWriteBack 0;   (* Transaction[r2] = (tag 0, 5), not committed *)
   LDispatch None; LDispatch None;             (* branch; wrong-path li (no hazard: 0 is done) *)
   LExecute 2; LWriteBack 2;                   (* Transaction[r2] = (tag 2, 9): 5 overwritten *)
   LExecute 1; LResolve 1;                     (* Rollback(1): tag 2 dropped - and 5 is gone *)
   LDispatch None; LExit 2; LFinish].

Theorem p62_one_slot_refuted : refutes oneslot_text oneslot_rf0 (P62 oneslot_text).
Proof. apply (refute_by _ _ _ oneslot_sched 2 2). vm_compute. reflexivity. Qed.

(* ================================================================== *)
(* C03: commit everything when a branch is not taken (D28)             *)
(* ================================================================== *)

(*  0: bnez r1, 5     (r1 = 1: taken)         outer, resolves late
    1: li   r2, 9     <- wrong path
    2: bnez r3, 5     (r3 = 0: not taken)     inner, in the shadow of the outer one
    3: ret
    4: ret
    5: ret                                   sequential: r2 = 0 *)
Definition nested_text := [bnez 1 5; li 2 9; bnez 3 5; ret; ret; ret].
Definition nested_rf0 := regs [(1, 1%Z)].
Definition nested_sched :=
  [LDispatch None; LDispatch None; LDispatch None;
   LExecute 1; LWriteBack 1;               (* buffer: (tag 1, r2, 9) *)
   LExecute 2; LResolve 2;                 (* inner not taken: Commit() - r2 := 9 in the file *)
   LExecute 0; LResolve 0;                 (* outer taken: nothing left in the buffer to drop *)
   LDispatch None; LExit 1; LFinish].

(* 6.2's commit rule, even on a perfect (full) buffer *)
Theorem commit_all_on_not_taken_refuted : refutes nested_text nested_rf0 (P62ca nested_text).
Proof. apply (refute_by _ _ _ nested_sched 1 2). vm_compute. reflexivity. Qed.

(* and 6.2 itself *)
Theorem p62_commit_all_refuted : refutes nested_text nested_rf0 (P62 nested_text).
Proof. apply (refute_by _ _ _ nested_sched 1 2). vm_compute. reflexivity. Qed.

(* ================================================================== *)
(* C04: 6.3 dispatches through a single WAW / WAR without renaming (D13) *)
(* ================================================================== *)

(*  0: li r1, 1
    1: li r1, 2
    2: ret                                   sequential: r1 = 2 *)
Definition waw_text := [li 1 1; li 1 2; ret].
Definition waw_rf0 := regs [].
Definition waw_sched :=
  [LDispatch None; LDispatch None;         (* second li: the only hazard is one WAW -> pushed *)
   LExecute 0; LExecute 1;
   LWriteBack 1; LWriteBack 0;             (* the OLDER write arrives last and wins *)
   LDispatch None; LExit 2; LFinish].

Theorem p63_waw_refuted : refutes waw_text waw_rf0 (P63 waw_text).
Proof. apply (refute_by _ _ _ waw_sched 2 1). vm_compute. reflexivity. Qed.

(* the other write-back order gives the right answer: the result is schedule dependent *)
Definition waw_sched_ok :=
  [LDispatch None; LDispatch None; LExecute 0; LExecute 1;
   LWriteBack 0; LWriteBack 1; LDispatch None; LExit 2; LFinish].
Example p63_waw_other_order :
  match run waw_text (P63 waw_text) waw_sched_ok (init waw_rf0) with
  | Some s => fin s && Z.eqb (rf s 1) 2%Z | None => false end = true.
Proof. vm_compute. reflexivity. Qed.

(*  0: addi r2, r1, 0   (r1 = 3)
    1: li   r1, 7
    2: ret                                   sequential: r2 = 3 *)
Definition war_text := [addi 2 1 0; li 1 7; ret].
Definition war_rf0 := regs [(1, 3%Z)].
Definition war_sched :=
  [LDispatch None; LDispatch None;         (* li: the only hazard is one WAR -> pushed *)
   LExecute 1; LWriteBack 1;               (* r1 = 7 visible *)
   LExecute 0; LWriteBack 0;               (* the older reader now reads 7 *)
   LDispatch None; LExit 2; LFinish].

Theorem p63_war_refuted : refutes war_text war_rf0 (P63 war_text).
Proof. apply (refute_by _ _ _ war_sched 2 2). vm_compute. reflexivity. Qed.

(* with two writers of r1 in flight the guard of shouldUseForwarding accepts BOTH as source
   (forward_unique fails: the Go map iteration decides), and the older one gives a wrong value
     0: li r1, 1    1: li r1, 2    2: addi r2, r1, 0        sequential: r2 = 2 *)
Definition amb_text := [li 1 1; li 1 2; addi 2 1 0].
Definition amb_rf0 := regs [].
Definition amb_state : state :=
  match run amb_text (P63 amb_text) [LDispatch None; LDispatch None] (init amb_rf0) with
  | Some s => s | None => init amb_rf0 end.

Theorem p63_forward_ambiguous :
  reach amb_text amb_rf0 (P63 amb_text) amb_state /\
  guard61 amb_text amb_state (Some (0, 1)) = true /\
  guard61 amb_text amb_state (Some (1, 1)) = true.
Proof.
  split; [|split; vm_compute; reflexivity].
  unfold amb_state.
  destruct (run amb_text (P63 amb_text) [LDispatch None; LDispatch None] (init amb_rf0))
    as [s|] eqn:E; [|constructor].
  eapply run_reach; [constructor|exact E].
Qed.

Definition amb_sched :=
  [LDispatch None; LDispatch None; LDispatch (Some (0, 1));   (* forward from the OLDER li *)
   LExecute 0; LExecute 1; LExecute 2;
   LWriteBack 0; LWriteBack 1; LWriteBack 2; LExitEnd; LFinish].

Theorem p63_forward_source_refuted : refutes amb_text amb_rf0 (P63 amb_text).
Proof. apply (refute_by _ _ _ amb_sched 3 2). vm_compute. reflexivity. Qed.

(* ================================================================== *)
(* C09: exit without waiting for older instances (D17 / D29)           *)
(* ================================================================== *)

(*  0: li r1, 5
    1: ret                                   sequential: r1 = 5 *)
Definition tail_text := [li 1 5; ret].
Definition tail_rf0 := regs [].
Definition tail_sched :=
  [LDispatch None; LDispatch None;
   LExecute 0;                             (* result on its way to a write unit *)
   LExit 1; LFinish].                      (* ret ends the run: the result is lost *)

Theorem exit_without_drain_refuted : refutes tail_text tail_rf0 (P60x tail_text).
Proof. apply (refute_by _ _ _ tail_sched 1 1). vm_compute. reflexivity. Qed.

(* with the drain guard the same schedule is rejected ... *)
Example exit_drain_blocks :
  run tail_text (P60 tail_text) tail_sched (init tail_rf0) = None.
Proof. vm_compute. reflexivity. Qed.
(* ... and the completed one gives the sequential result *)
Example exit_drain_ok :
  match run tail_text (P60 tail_text)
            [LDispatch None; LDispatch None; LExecute 0; LWriteBack 0; LExit 1; LFinish]
            (init tail_rf0) with
  | Some s => fin s && Z.eqb (rf s 1) 5%Z | None => false end = true.
Proof. vm_compute. reflexivity. Qed.
