(* Ooo/InvResolve.v - the master invariant is preserved by branch resolution (squash, rollback,
   commit) and hence by every transition of a sound policy: reach_inv. *)
From Coq Require Import ZArith List Lia Arith Bool.
From Maj Require Import Ooo.Machine Ooo.Counts Ooo.InvDefs Ooo.InvSteps.
Import ListNotations.

Lemma branch_no_write i : is_branch i = true -> wr i = None.
Proof. unfold is_branch, wr. destruct (kind i); auto; discriminate. Qed.
Lemma ret_no_write i : is_ret i = true -> wr i = None.
Proof. unfold is_ret, wr. destruct (kind i); auto; discriminate. Qed.

Lemma find_seq_first p n : forall a u, find p (seq a n) = Some u ->
  forall x, a <= x < a + n -> p x = true -> u <= x.
Proof.
  induction n as [|n IH]; simpl; intros a u H x Hx Hp; [lia|].
  destruct (p a) eqn:Ea.
  - inversion H; subst. lia.
  - destruct (Nat.eq_dec x a) as [->|]; [congruence|].
    apply (IH (S a) u H x); auto. lia.
Qed.

Section InvResolve.
Variable text : list instr.
Variable rf0 : rfile.
Variable P : policy.

Notation writes := (writes text).
Notation reads := (reads text).
Notation unres := (unres text).
Notation ins := (ins text).
Notation Inv := (Inv text rf0 P).
Notation D := (D text rf0).
Notation dval := (dval text rf0).
Notation safe := (safe text).

(* ---------------- a branch leaves the in-flight set ---------------- *)

Lemma inv_mark_done s b : Base text s -> Inv s ->
  pending s b -> is_branch (ins s b) = true -> Inv (mark_done text s b).
Proof.
  intros B I Hpb Hbr.
  set (s' := mark_done text s b).
  assert (Hnw : forall r, ~ writes s b r).
  { intros r. unfold Counts.writes. rewrite branch_no_write; auto. discriminate. }
  assert (Hst : forall x, x <> b -> stat s' x = stat s x).
  { intros x Hx. simpl. now rewrite setf_other. }
  assert (Hstb : stat s' b = Done) by (simpl; apply setf_same).
  assert (Hp : forall x, pending s' x <-> pending s x /\ x <> b).
  { intros x. unfold pending, pendingb. destruct (Nat.eq_dec x b) as [->|Hne].
    - rewrite Hstb. simpl. split; [discriminate|tauto].
    - rewrite Hst by auto. tauto. }
  assert (Hu : forall x, unres s' x -> unres s x).
  { intros x. rewrite !unres_iff. rewrite Hp. change (ins s' x) with (ins s x). tauto. }
  assert (Hsafe : forall c, safe s' c -> safe s c).
  { intros c [H1 H2]. split; auto. destruct H2 as [H2|(u & Hu1 & Hu2)]; auto.
    right; exists u; split; auto. }
  destruct I. constructor.
  - intros x r Hx. apply Hp in Hx. destruct Hx as [Hx _]. exact (i_waw x r Hx).
  - intros x r Hx. apply Hp in Hx. destruct Hx as [Hx _]. exact (i_war x r Hx).
  - intros c r Hc Hn. apply (i_clean c r (Hsafe c Hc)).
    intros x Hx Hpx. destruct (Nat.eq_dec x b) as [->|Hne]; [apply Hnw|].
    apply Hn; auto. apply Hp. auto.
  - intros c x r Hc Hx Hpx Hwx. apply Hp in Hpx. destruct Hpx as [Hpx _].
    exact (i_dirty c x r (Hsafe c Hc) Hx Hpx Hwx).
  - intros i fw0 r Hi Hr Hnf x Hxi Hpx. apply Hp in Hpx. destruct Hpx as [Hpx _].
    destruct (Nat.eq_dec i b) as [->|Hne].
    + rewrite Hstb in Hi. discriminate.
    + rewrite Hst in Hi by auto. exact (i_raw i fw0 r Hi Hr Hnf x Hxi Hpx).
  - intros i p r Hi. destruct (Nat.eq_dec i b) as [->|Hne].
    + rewrite Hstb in Hi. discriminate.
    + rewrite Hst in Hi by auto. exact (i_fwd i p r Hi).
  - intros x v0 Hx. destruct (Nat.eq_dec x b) as [->|Hne].
    + rewrite Hstb in Hx. discriminate.
    + rewrite Hst in Hx by auto. exact (i_exec x v0 Hx).
  - exact i_res.
  - intros e He. destruct (i_sb e He) as (H1 & H2 & H3). repeat split; auto.
    destruct (Nat.eq_dec (etag e) b) as [->|Hne]; auto. rewrite Hst; auto.
  - exact i_sorted.
  - intros Hb. destruct (i_direct Hb) as [H1 H2]. split; auto.
Qed.

(* ---------------- squash of everything younger than an unresolved branch ------------- *)

Lemma inv_squash s b t : Base text s -> Inv s -> unres s b -> Inv (squash text s b t).
Proof.
  intros B I Hub.
  set (s' := squash text s b t).
  assert (Hpb : pending s b) by (apply unres_iff in Hub; tauto).
  assert (Hb : b < nxt s) by (apply (pending_lt text s b B Hpb)).
  assert (Hst : forall x, x <= b -> stat s' x = stat s x).
  { intros x Hx. simpl. destruct (Nat.leb_spec x b); auto. lia. }
  assert (Hst' : forall x, b < x -> stat s' x = NotYet).
  { intros x Hx. simpl. destruct (Nat.leb_spec x b); auto. lia. }
  assert (Hp : forall x, pending s' x <-> x <= b /\ pending s x).
  { intros x. unfold pending, pendingb. destruct (Nat.le_gt_cases x b).
    - rewrite Hst by auto. tauto.
    - rewrite Hst' by auto. simpl. split; [discriminate|lia]. }
  assert (Hu : forall x, unres s' x -> unres s x).
  { intros x. rewrite !unres_iff. rewrite Hp. change (ins s' x) with (ins s x). tauto. }
  assert (Hsafe : forall c, safe s' c -> c <= S b /\ safe s c).
  { intros c [H1 H2]. simpl in H1. split; auto. split; [lia|].
    destruct H2 as [H2|(u & Hu1 & Hu2)].
    - simpl in H2. right. exists b. split; auto. lia.
    - right; exists u; split; auto. }
  assert (Hview : forall c r, c <= S b ->
            viewc (sb s') (rf s') c r = viewc (sb s) (rf s) c r).
  { intros c r Hc. simpl. now apply viewc_rollback. }
  destruct I. constructor.
  - intros x r Hx Hw m Hm. apply Hp in Hx. destruct Hx as [_ Hx]. simpl in Hm.
    apply (i_waw x r Hx Hw). lia.
  - intros x r Hx Hr m Hm. apply Hp in Hx. destruct Hx as [_ Hx]. simpl in Hm.
    apply (i_war x r Hx Hr). lia.
  - intros c r Hc Hn. destruct (Hsafe c Hc) as [Hcb Hcs]. rewrite Hview by auto.
    apply (i_clean c r Hcs). intros x Hx Hpx. apply Hn; auto. apply Hp. split; auto. lia.
  - intros c x r Hc Hx Hpx Hwx. destruct (Hsafe c Hc) as [Hcb Hcs]. rewrite Hview by auto.
    apply Hp in Hpx. destruct Hpx as [_ Hpx]. exact (i_dirty c x r Hcs Hx Hpx Hwx).
  - intros i fw0 r Hi Hr Hnf x Hxi Hpx. apply Hp in Hpx. destruct Hpx as [_ Hpx].
    destruct (Nat.le_gt_cases i b).
    + rewrite Hst in Hi by auto. exact (i_raw i fw0 r Hi Hr Hnf x Hxi Hpx).
    + rewrite Hst' in Hi by auto. discriminate.
  - intros i p r Hi. destruct (Nat.le_gt_cases i b).
    + rewrite Hst in Hi by auto. exact (i_fwd i p r Hi).
    + rewrite Hst' in Hi by auto. discriminate.
  - intros x v0 Hx. destruct (Nat.le_gt_cases x b).
    + rewrite Hst in Hx by auto. exact (i_exec x v0 Hx).
    + rewrite Hst' in Hx by auto. discriminate.
  - intros x v0 Hx Hr. simpl in Hx. apply (i_res x v0); auto. lia.
  - intros e He. simpl in He. unfold rollback in He. apply filter_In in He.
    destruct He as [He Hle]. apply Nat.leb_le in Hle.
    destruct (i_sb e He) as (H1 & H2 & H3). simpl nxt. split; [lia|]. split; auto.
    rewrite Hst; auto.
  - simpl. unfold rollback. apply bsorted_filter. exact i_sorted.
  - intros Hbm. destruct (i_direct Hbm) as [H1 H2]. split.
    + simpl. now rewrite H1.
    + intros u Hx. simpl.
      assert (S b = nxt s) by (apply H2; auto).
      assert (S u = nxt s) by (apply H2; auto). lia.
Qed.

(* ---------------- commit below a limit under every safe cut ---------------- *)

Lemma inv_commit s lim : Inv s -> (forall c, safe s c -> lim <= c) -> Inv (do_commit s lim).
Proof.
  intros I Hlim. destruct I. constructor.
  - exact i_waw.
  - exact i_war.
  - intros c r Hc Hn. unfold do_commit; cbn [sb rf].
    rewrite viewc_commit; [exact (i_clean c r Hc Hn) | exact i_sorted | apply Hlim; exact Hc].
  - intros c x r Hc Hx Hpx Hwx. unfold do_commit; cbn [sb rf].
    rewrite viewc_commit;
      [exact (i_dirty c x r Hc Hx Hpx Hwx) | exact i_sorted | apply Hlim; exact Hc].
  - exact i_raw.
  - exact i_fwd.
  - exact i_exec.
  - exact i_res.
  - intros e He. simpl in He. apply filter_In in He. destruct He as [He _].
    exact (i_sb e He).
  - simpl. apply bsorted_filter. exact i_sorted.
  - intros Hb. destruct (i_direct Hb) as [H1 H2]. split; [|exact H2]. simpl. now rewrite H1.
Qed.

Lemma inv_exit s : Inv s -> Inv (do_exit s).
Proof. intros []. constructor; assumption. Qed.

Lemma first_unres_le s c : Base text s -> safe s c -> first_unres text s <= c.
Proof.
  intros B [H1 H2]. unfold first_unres.
  destruct (find (unresb text s) (seq 0 (nxt s))) as [u|] eqn:E.
  - destruct H2 as [->|(u0 & Hu1 & Hu2)].
    + apply find_some in E. destruct E as [E _]. apply in_seq in E. lia.
    + assert (u <= u0); [|lia]. apply (find_seq_first _ _ _ _ E); auto. lia.
  - destruct H2 as [->|(u0 & Hu1 & Hu2)]; auto.
    exfalso. assert (Hf : unresb text s u0 = false).
    { apply (find_none _ _ E u0). apply in_seq. lia. }
    unfold Counts.unres in Hu2. congruence.
Qed.

Lemma base_mark_done s b : Base text s -> pending s b -> Base text (mark_done text s b).
Proof.
  intros B Hp. eapply (base_setstat text s _ b); eauto; simpl; try reflexivity; try discriminate.
  intros E. unfold pending, pendingb in Hp. rewrite E in Hp. discriminate.
Qed.

(* ---------------- the invariant holds in every reachable running state ---------------- *)

Hypothesis SP : sound_policy text rf0 P.

Lemma mode_cases : bufm P = Full \/ bufm P = NoBuf.
Proof. destruct (sp_buf _ _ _ SP) as [H|[H _]]; auto. Qed.

Lemma inv_step s s' : Base text s -> counts_ok text s -> Inv s ->
  step text P s s' -> fin s' = false -> Inv s'.
Proof.
  intros B C I H Hfin. inversion H; subst; clear H.
  - apply inv_dispatch; auto.
    + apply (sp_dispatch _ _ _ SP); auto.
    + intros Hb u. destruct (sp_buf _ _ _ SP) as [Hf|[_ Hn]]; [congruence|]. eapply (Hn s fw); eauto.
  - apply inv_execute; auto.
  - apply inv_writeback; auto using mode_cases.
  - (* taken *)
    unfold do_resolve_t. rewrite (sp_commit _ _ _ SP).
    assert (Hp : pending s b) by (eapply exec_pending; eauto).
    assert (Hbr : is_branch (ins s b) = true) by (unfold is_branch; now rewrite H2).
    assert (Hub : unres s b) by (apply unres_iff; auto).
    assert (Hb : b < nxt s) by (apply (pending_lt text s b B Hp)).
    assert (Hp1 : pending (squash text s b t) b).
    { unfold pending, pendingb. simpl. rewrite Nat.leb_refl. exact Hp. }
    apply inv_commit.
    + apply inv_mark_done; auto.
      * now apply base_squash.
      * now apply inv_squash.
    + intros c Hc. apply first_unres_le; auto.
      apply base_mark_done; auto. now apply base_squash.
  - (* not taken *)
    unfold do_resolve_nt. rewrite (sp_commit _ _ _ SP).
    assert (Hp : pending s b) by (eapply exec_pending; eauto).
    assert (Hbr : is_branch (ins s b) = true) by (unfold is_branch; now rewrite H2).
    apply inv_commit.
    + apply inv_mark_done; auto.
    + intros c Hc. apply first_unres_le; auto. apply base_mark_done; auto.
  - now apply inv_exit.
  - now apply inv_exit.
  - simpl in Hfin. discriminate.
Qed.

Lemma fin_step s s' : step text P s s' -> fin s' = false -> fin s = false.
Proof. intros H. inversion H; subst; simpl; auto; discriminate. Qed.

Theorem reach_inv s : reach text rf0 P s -> fin s = false -> Inv s.
Proof.
  induction 1 as [|s s' R IH H]; intros Hf; [apply inv_init|].
  apply (inv_step s s'); auto.
  - eapply reach_base; eauto.
  - eapply scoreboard_counts; eauto.
  - apply IH. eapply fin_step; eauto.
Qed.

End InvResolve.
