(* Ooo/Guards.v - what the guards of the Go control units guarantee, given that the stored
   scoreboard counters equal the derived ones (Counts.scoreboard_counts) and the master
   invariant: guard60 / guard61 imply InvDefs.safe_dispatch; forward_unique. *)
From Coq Require Import ZArith List Lia Arith Bool.
From Maj Require Import Ooo.Machine Ooo.Counts Ooo.InvDefs Ooo.Policies.
Import ListNotations.

Section Guards.
Variable text : list instr.
Variable rf0 : rfile.
Variable P : policy.

Notation writes := (writes text).
Notation reads := (reads text).
Notation unres := (unres text).
Notation ins := (ins text).
Notation Inv := (Inv text rf0 P).

Lemma wr_is_spec i r : wr_is i r = true <-> wr i = Some r.
Proof.
  unfold wr_is. destruct (wr i) as [d|].
  - rewrite Nat.eqb_eq. split; congruence.
  - split; discriminate.
Qed.

Lemma no_unres_spec s : Base text s -> no_unres text s = true -> forall u, ~ unres s u.
Proof.
  intros B H u Hu. unfold no_unres in H. rewrite forallb_forall in H.
  assert (Hlt : u < nxt s).
  { apply unres_iff in Hu. apply (pending_lt text s u B). tauto. }
  specialize (H u). rewrite in_seq in H. specialize (H ltac:(lia)).
  unfold Counts.unres in Hu. rewrite Hu in H. discriminate.
Qed.

(* a source register is in raw_list iff it has a pending writer *)
Lemma raw_list_in s i r : Base text s -> counts_ok text s ->
  In r (srcs i) -> forall j, pending s j -> writes s j r -> In r (raw_list s i).
Proof.
  intros B C Hr j Hp Hw. unfold raw_list. apply filter_In. split; auto.
  apply Nat.ltb_lt. destruct (Nat.eq_dec (pw s r) 0) as [E|]; [|lia].
  exfalso. apply (proj1 (pw_zero text s r B C) E j Hp Hw).
Qed.

Lemma waw_false s i d : Base text s -> counts_ok text s ->
  waw_b s i = false -> wr i = Some d -> forall j, pending s j -> ~ writes s j d.
Proof.
  intros B C H Hd. unfold waw_b in H. rewrite Hd in H. apply Nat.ltb_ge in H.
  apply (pw_zero text s d B C). lia.
Qed.

Lemma war_false s i d : Base text s -> counts_ok text s ->
  war_b s i = false -> wr i = Some d -> forall j, pending s j -> ~ reads s j d.
Proof.
  intros B C H Hd. unfold war_b in H. rewrite Hd in H. apply Nat.ltb_ge in H.
  apply (pr_zero text s d B C). lia.
Qed.

Lemma hazards_le s i n : hazards s i = n ->
  length (raw_list s i) <= n /\
  (length (raw_list s i) = n -> waw_b s i = false /\ war_b s i = false).
Proof.
  unfold hazards. destruct (waw_b s i), (war_b s i); intros; split; auto; lia.
Qed.

Lemma nohazard_safe s : Base text s -> counts_ok text s ->
  hazards s (cur_ins text s) = 0 -> safe_dispatch text s None.
Proof.
  intros B C H. destruct (hazards_le _ _ _ H) as [H1 H2].
  assert (Hl : raw_list s (cur_ins text s) = []).
  { destruct (raw_list s (cur_ins text s)); auto. simpl in H1. lia. }
  rewrite Hl in H2. destruct (H2 eq_refl) as [Hw Hr]. constructor.
  - intros r Hr' j Hp Hwj. exfalso.
    pose proof (raw_list_in s (cur_ins text s) r B C Hr' j Hp Hwj) as Hin.
    rewrite Hl in Hin. contradiction.
  - intros d Hd. eapply waw_false; eauto.
  - intros d Hd. eapply war_false; eauto.
  - discriminate.
Qed.

Lemma guard60_safe s fw : Base text s -> counts_ok text s ->
  guard60 text s fw = true -> safe_dispatch text s fw.
Proof.
  intros B C H. unfold guard60 in H. destruct fw; [discriminate|].
  apply Nat.eqb_eq in H. now apply nohazard_safe.
Qed.

Lemma guard61_safe s fw : Base text s -> counts_ok text s -> Inv s ->
  guard61 text s fw = true -> safe_dispatch text s fw.
Proof.
  intros B C I H. unfold guard61 in H. destruct fw as [[p r]|].
  - repeat (apply andb_prop in H; destruct H as [H ?]).
    apply Nat.eqb_eq in H.
    destruct (raw_list s (cur_ins text s)) as [|r' [|]] eqn:El; try discriminate.
    apply Nat.eqb_eq in H2. subst r'.
    destruct (hazards_le _ _ _ H) as [_ H3]. rewrite El in H3.
    destruct (H3 eq_refl) as [Hw Hr].
    assert (Hwp : writes s p r) by (now apply wr_is_spec).
    constructor.
    + intros r1 Hr1 j Hp Hwj.
      pose proof (raw_list_in s (cur_ins text s) r1 B C Hr1 j Hp Hwj) as Hin.
      rewrite El in Hin. destruct Hin as [<-|[]].
      f_equal. f_equal. apply (pending_uniq text rf0 P s p j r B I); auto.
    + intros d Hd. eapply waw_false; eauto.
    + intros d Hd. eapply war_false; eauto.
    + intros p0 r0 E. inversion E; subst. split; auto.
  - apply Nat.eqb_eq in H. now apply nohazard_safe.
Qed.

(* C04 forward_unique: under the 6.1 / 6.2 guard the forwarding source is determined - there is
   at most one pending writer of the hazard register, so the iteration order of the Go map
   pushedRunnersInPreviousCycle in shouldUseForwarding cannot matter *)
Theorem forward_unique_inv s p r p' r' : Base text s -> counts_ok text s -> Inv s ->
  guard61 text s (Some (p, r)) = true -> guard61 text s (Some (p', r')) = true ->
  p = p' /\ r = r'.
Proof.
  intros B C I H H'.
  pose proof (guard61_safe s _ B C I H) as [_ _ _ Hf].
  pose proof (guard61_safe s _ B C I H') as [_ _ _ Hf'].
  destruct (Hf p r eq_refl) as [Hp Hw]. destruct (Hf' p' r' eq_refl) as [Hp' Hw'].
  unfold guard61 in H, H'.
  repeat (apply andb_prop in H; destruct H as [H ?]).
  repeat (apply andb_prop in H'; destruct H' as [H' ?]).
  destruct (raw_list s (cur_ins text s)) as [|r1 [|]]; try discriminate.
  apply Nat.eqb_eq in H2, H5. subst r r'. split; auto.
  apply (pending_uniq text rf0 P s p p' r1 B I); auto.
Qed.

End Guards.
