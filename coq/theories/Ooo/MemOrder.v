(* Ooo/MemOrder.v - C10: memory dependences between in-flight loads and stores.

   A small abstract machine of its own (the register side is Ooo/Machine.v): the dynamic
   sequence of memory operations with their resolved addresses, each performed at some moment
   chosen by the schedule, subject to a rule.  Loads read the bytes of their footprint from the
   memory at the moment they perform; stores write theirs (Execution.MemoryChanges).

   mem_order_correct          : rule "a load waits for every older unperformed store to
                                overlapping bytes; stores perform in program order AND wait for
                                every older unperformed load to overlapping bytes": every
                                schedule gives the sequential memory and sequential load results
   rule_without_war_refuted   : the rule exactly as worded in DESIGN C10 (without the last
                                clause) is NOT sufficient: load -> store to the same byte
   no_mem_hazard_rule_refuted : the rule of 6.x (none): store -> load at distance 1 *)
From Coq Require Import ZArith List Lia Arith Bool.
Import ListNotations.

Definition memory := nat -> Z.
Definition updm (m : memory) (a : nat) (v : Z) : memory :=
  fun x => if Nat.eqb x a then v else m x.

Inductive mop := Ld (fp : list nat) | St (w : list (nat * Z)).

Definition footprint (o : mop) : list nat :=
  match o with Ld fp => fp | St w => map fst w end.
Definition is_store (o : mop) : bool := match o with St _ => true | _ => false end.
Definition overlapb (a b : mop) : bool :=
  existsb (fun x => existsb (Nat.eqb x) (footprint b)) (footprint a).

Definition wmem (m : memory) (w : list (nat * Z)) : memory :=
  fold_left (fun m p => updm m (fst p) (snd p)) w m.
Definition sstep (m : memory) (o : mop) : memory :=
  match o with Ld _ => m | St w => wmem m w end.

Lemma wmem_ext w : forall m m' a, m a = m' a -> wmem m w a = wmem m' w a.
Proof.
  induction w as [|p w IH]; simpl; intros m m' a H; auto.
  apply IH. unfold updm. destruct (Nat.eqb a (fst p)); auto.
Qed.

Lemma wmem_other w : forall m a, ~ In a (map fst w) -> wmem m w a = m a.
Proof.
  induction w as [|p w IH]; simpl; intros m a H; auto.
  rewrite IH by tauto. unfold updm. destruct (Nat.eqb_spec a (fst p)); auto.
  exfalso. apply H. auto.
Qed.

Lemma overlapb_false a b x : overlapb a b = false ->
  In x (footprint a) -> In x (footprint b) -> False.
Proof.
  unfold overlapb. intros H Ha Hb.
  assert (existsb (fun x => existsb (Nat.eqb x) (footprint b)) (footprint a) = true).
  { apply existsb_exists. exists x. split; auto. apply existsb_exists. exists x.
    split; auto. apply Nat.eqb_refl. }
  congruence.
Qed.

Section Mem.
Variable prog : list mop.
Variable m0 : memory.

Definition op (j : nat) : mop := nth j prog (Ld []).
Definition n := length prog.

(* sequential memory before operation k *)
Fixpoint M (k : nat) : memory := match k with O => m0 | S k' => sstep (M k') (op k') end.

Record mstate := { mm : memory; pf : nat -> bool; lv : nat -> list Z }.

Definition setb {A} (f : nat -> A) j x := fun k => if Nat.eqb k j then x else f k.

Definition perform (s : mstate) (j : nat) : mstate :=
  match op j with
  | Ld fp => {| mm := mm s; pf := setb (pf s) j true; lv := setb (lv s) j (map (mm s) fp) |}
  | St w => {| mm := wmem (mm s) w; pf := setb (pf s) j true; lv := lv s |}
  end.

Definition rule := mstate -> nat -> bool.

Inductive mstep (R : rule) : mstate -> mstate -> Prop :=
| m_perform s j : j < n -> pf s j = false -> R s j = true -> mstep R s (perform s j).

Definition minit : mstate := {| mm := m0; pf := fun _ => false; lv := fun _ => [] |}.

Inductive mreach (R : rule) : mstate -> Prop :=
| mr_init : mreach R minit
| mr_step s s' : mreach R s -> mstep R s s' -> mreach R s'.

(* ---------- rules ---------- *)

(* older stores that overlap are performed *)
Definition ld_ok (s : mstate) (j : nat) : bool :=
  forallb (fun i => negb (is_store (op i) && overlapb (op i) (op j)) || pf s i) (seq 0 j).
(* stores in program order *)
Definition st_order (s : mstate) (j : nat) : bool :=
  forallb (fun i => negb (is_store (op i)) || pf s i) (seq 0 j).
(* older loads that overlap are performed *)
Definition st_war (s : mstate) (j : nat) : bool :=
  forallb (fun i => negb (negb (is_store (op i)) && overlapb (op i) (op j)) || pf s i) (seq 0 j).

Definition rule_safe : rule :=
  fun s j => if is_store (op j) then st_order s j && st_war s j else ld_ok s j.
(* the rule as worded in DESIGN.md C10 *)
Definition rule_design : rule :=
  fun s j => if is_store (op j) then st_order s j else ld_ok s j.
(* 6.x: no memory-dependence tracking at all *)
Definition rule_none : rule := fun _ _ => true.

(* ---------- correctness of rule_safe ---------- *)

Inductive MInv (s : mstate) : Prop :=
| MInv_intro (sp : nat) :
    sp <= n ->
    (* performed stores are a prefix of the stores *)
    (forall j, j < n -> is_store (op j) = true -> (pf s j = true <-> j < sp)) ->
    (forall a, mm s a = M sp a) ->
    (* a performed store does not overlap an older unperformed load *)
    (forall j m, j < m -> m < n -> is_store (op j) = false -> pf s j = false ->
                 is_store (op m) = true -> pf s m = true -> overlapb (op j) (op m) = false) ->
    (forall j fp, j < n -> op j = Ld fp -> pf s j = true -> lv s j = map (M j) fp) ->
    MInv s.

Lemma M_stable a x y : x <= y ->
  (forall k, x <= k < y -> is_store (op k) = true -> ~ In a (footprint (op k))) ->
  M y a = M x a.
Proof.
  induction 1 as [|y Hle IH]; intros H; auto.
  simpl. rewrite <- IH by (intros; apply H; auto; lia).
  destruct (op y) as [fp|w] eqn:E; simpl; auto.
  apply wmem_other. specialize (H y ltac:(lia)). rewrite E in H. apply H. reflexivity.
Qed.

Lemma minv_init : MInv minit.
Proof.
  apply (MInv_intro minit 0); simpl; intros; auto; try lia; try discriminate.
Qed.

Lemma forallb_seq_spec f j : forallb f (seq 0 j) = true -> forall i, i < j -> f i = true.
Proof. rewrite forallb_forall. intros H i Hi. apply H. apply in_seq. lia. Qed.

Lemma minv_step s s' : MInv s -> mstep rule_safe s s' -> MInv s'.
Proof.
  intros [sp0 Hle Hst Hmem Hwar Hld] H. inversion H; subst; clear H.
  unfold rule_safe in H2. unfold perform.
  destruct (op j) as [fp|w] eqn:Eo; simpl in H2.
  - (* a load performs *)
    pose proof (forallb_seq_spec _ _ H2) as Hok. cbv beta in Hok.
    apply (MInv_intro _ sp0); simpl; auto.
    + intros i Hi Hs. unfold setb. destruct (Nat.eqb_spec i j) as [->|]; [|auto].
      rewrite Eo in Hs. discriminate.
    + intros i m Hi Hm Hsi Hpi Hsm Hpm. unfold setb in *.
      destruct (Nat.eqb_spec i j); [discriminate|].
      destruct (Nat.eqb_spec m j) as [->|]; [rewrite Eo in Hsm; discriminate|].
      eapply Hwar; eauto.
    + intros i fp' Hi Ho Hp. unfold setb in *. destruct (Nat.eqb_spec i j) as [->|].
      * rewrite Eo in Ho. inversion Ho; subst fp'. apply map_ext_in. intros a Ha.
        rewrite Hmem.
        destruct (Nat.le_ge_cases sp0 j) as [Hc|Hc].
        -- symmetry. apply M_stable; auto. intros k Hk Hs Hin.
           specialize (Hok k ltac:(lia)). rewrite Hs in Hok. simpl in Hok.
           assert (Hpk : pf s k = false).
           { destruct (pf s k) eqn:E; auto. apply (Hst k ltac:(lia) Hs) in E. lia. }
           rewrite Hpk, orb_false_r in Hok. apply negb_true_iff in Hok.
           apply (overlapb_false _ _ a Hok); auto. rewrite Eo. exact Ha.
        -- apply M_stable; auto. intros k Hk Hs Hin.
           assert (Hpk : pf s k = true) by (apply (Hst k ltac:(lia) Hs); lia).
           assert (Hjk : j < k).
           { destruct (Nat.eq_dec j k) as [E|]; [|lia]. rewrite <- E, Eo in Hs. discriminate. }
           assert (Hov : overlapb (op j) (op k) = false).
           { apply (Hwar j k); auto; try lia. now rewrite Eo. }
           apply (overlapb_false _ _ a Hov); auto. rewrite Eo. exact Ha.
      * eapply Hld; eauto.
  - (* a store performs: it is the oldest unperformed store *)
    apply andb_prop in H2. destruct H2 as [Ho Hw].
    pose proof (forallb_seq_spec _ _ Ho) as Hord. cbv beta in Hord.
    pose proof (forallb_seq_spec _ _ Hw) as Hwr. cbv beta in Hwr.
    assert (Hjs : sp0 <= j).
    { destruct (Nat.le_gt_cases sp0 j); auto. exfalso.
      assert (pf s j = true) by (apply Hst; auto; now rewrite Eo). congruence. }
    assert (Hnone : forall k, sp0 <= k < j -> is_store (op k) = false).
    { intros k Hk. destruct (is_store (op k)) eqn:E; auto. exfalso.
      specialize (Hord k ltac:(lia)). rewrite E in Hord. simpl in Hord.
      apply (Hst k ltac:(lia) E) in Hord. lia. }
    apply (MInv_intro _ (S j)); simpl; auto.
    + intros i Hi Hs. unfold setb. destruct (Nat.eqb_spec i j) as [->|Hne].
      * split; auto; lia.
      * rewrite (Hst i Hi Hs). split; intros; [lia|].
        destruct (Nat.lt_ge_cases i sp0); auto. rewrite (Hnone i) in Hs; [discriminate|lia].
    + intros a. rewrite Eo. simpl. apply wmem_ext. rewrite Hmem. symmetry.
      apply M_stable; auto. intros k Hk Hs. rewrite (Hnone k Hk) in Hs. discriminate.
    + intros i m Hi Hm Hsi Hpi Hsm Hpm. unfold setb in *.
      destruct (Nat.eqb_spec i j) as [|Hne]; [discriminate|].
      destruct (Nat.eqb_spec m j) as [->|Hnm].
      * specialize (Hwr i Hi). rewrite Hsi, Hpi in Hwr. simpl in Hwr.
        rewrite orb_false_r in Hwr. now apply negb_true_iff in Hwr.
      * eapply Hwar; eauto.
    + intros i fp' Hi Hoi Hp. unfold setb in *. destruct (Nat.eqb_spec i j) as [->|].
      * rewrite Eo in Hoi. discriminate.
      * eapply Hld; eauto.
Qed.

Lemma mreach_inv s : mreach rule_safe s -> MInv s.
Proof. induction 1; [apply minv_init | eapply minv_step; eauto]. Qed.

(* every schedule allowed by the rule, run until everything has performed, gives the
   sequential memory and the sequential result of every load *)
Theorem mem_order_correct s : mreach rule_safe s -> (forall j, j < n -> pf s j = true) ->
  (forall a, mm s a = M n a) /\
  (forall j fp, j < n -> op j = Ld fp -> lv s j = map (M j) fp).
Proof.
  intros R Hall. destruct (mreach_inv s R) as [sp0 Hle Hst Hmem Hwar Hld]. split.
  - intros a. rewrite Hmem. symmetry. apply M_stable; auto.
    intros k Hk Hs. exfalso.
    assert (k < sp0) by (apply (Hst k ltac:(lia) Hs); apply Hall; lia). lia.
  - intros j fp Hj Ho. apply Hld; auto.
Qed.

End Mem.

(* ---------- refutations ---------- *)

Definition mrefutes (prog : list mop) (m0 : memory) (R : rule) : Prop :=
  exists s, mreach prog m0 R s /\ (forall j, j < length prog -> pf s j = true) /\
    ((exists a, mm s a <> M prog m0 (length prog) a) \/
     (exists j fp, op prog j = Ld fp /\ lv s j <> map (M prog m0 j) fp)).

(* 6.x, distance 1:   0: sw [a] <- 5      1: lw [a]      the load performs first and reads 0 *)
Theorem no_mem_hazard_rule_refuted :
  mrefutes [St [(0, 5%Z)]; Ld [0]] (fun _ => 0%Z) (rule_none).
Proof.
  set (prog := [St [(0, 5%Z)]; Ld [0]]). set (m0 := fun _ : nat => 0%Z).
  exists (perform prog (perform prog (minit m0) 1) 0). split; [|split].
  - eapply mr_step; [eapply mr_step; [apply mr_init|]|]; constructor; simpl; auto.
  - intros j Hj. simpl in Hj. destruct j as [|[|]]; try lia; reflexivity.
  - right. exists 1, [0]. split; [reflexivity|]. vm_compute. discriminate.
Qed.

(* the rule as worded in DESIGN C10 forgets load -> store:
     0: lw [a]      1: sw [a] <- 5      the store performs first, the load reads 5 *)
Theorem rule_without_war_refuted :
  mrefutes [Ld [0]; St [(0, 5%Z)]] (fun _ => 0%Z) (rule_design [Ld [0]; St [(0, 5%Z)]]).
Proof.
  set (prog := [Ld [0]; St [(0, 5%Z)]]). set (m0 := fun _ : nat => 0%Z).
  exists (perform prog (perform prog (minit m0) 1) 0). split; [|split].
  - eapply mr_step; [eapply mr_step; [apply mr_init|]|]; constructor; simpl; auto.
  - intros j Hj. simpl in Hj. destruct j as [|[|]]; try lia; reflexivity.
  - right. exists 0, [0]. split; [reflexivity|]. vm_compute. discriminate.
Qed.

(* the hypotheses of mem_order_correct are satisfiable: store, overlapping load, overlapping
   store, independent load - performed in an order that overtakes where that is allowed *)
Example mem_order_example :
  let prog := [St [(0, 5%Z)]; Ld [0]; St [(0, 7%Z)]; Ld [4]] in
  let m0 := fun _ : nat => 0%Z in
  exists s, mreach prog m0 (rule_safe prog) s /\ (forall j, j < 4 -> pf s j = true) /\
            lv s 1 = [5%Z] /\ mm s 0 = 7%Z.
Proof.
  intros prog m0.
  exists (perform prog (perform prog (perform prog (perform prog (minit m0) 3) 0) 1) 2).
  split; [|split; [|split]].
  - repeat (eapply mr_step; [|constructor; simpl; auto]). apply mr_init.
  - intros j Hj. destruct j as [|[|[|[|]]]]; try lia; reflexivity.
  - reflexivity.
  - reflexivity.
Qed.
