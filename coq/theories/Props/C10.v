(* C10 - Memory dependences between in-flight loads and stores are honoured.
   Property theorems only.  At the level of one memory system performing accesses
   in program order (what MVP-1..5 do, and what each core of the later variants
   does for its own accesses) the three clauses are corollaries of the write-back
   cache theorem (Mem/WriteBack.v): the memory seen through any protocol-following
   cache is the flat memory that executed the stores in order.  What the multi-issue
   variants add - accesses performed OUT of program order - is not covered by a
   theorem here; it is covered by the per-run differential (lib/vf/c10.py) and the
   known findings (the 6.x variants have no memory-dependence tracking). *)
From Coq Require Import ZArith List.
From Maj Require Import Mem.WriteBack.
Import ListNotations.
Open Scope Z_scope.

(* a load that follows a store to the same byte returns the stored data, whatever
   cache operations (fills, evictions, recency updates, other stores to other
   bytes) happen in between *)
Theorem C10_load_after_store : forall LS, 0 < LS -> forall s a v between s',
  Inv LS s ->
  (forall o, In o between -> match o with Store a' _ => a' <> a | _ => True end) ->
  run LS s (Store a v :: between) = Some s' ->
  view LS s' a = v.
Proof.
  intros LS HLS s a v between s' HI Hb Hrun.
  destruct (view_is_flat LS HLS _ _ _ HI Hrun) as [_ Hv]. rewrite Hv. cbn [flat].
  assert (G : forall m, m a = v -> flat m between a = v).
  { clear Hrun Hv. induction between as [|o t IH]; intros m Hm; cbn [flat]; [exact Hm|].
    destruct o; try (apply IH; [intros; apply Hb; right; assumption | exact Hm]).
    apply IH; [intros; apply Hb; right; assumption|].
    unfold upd. specialize (Hb (Store a0 v0) (or_introl eq_refl)). cbn in Hb.
    destruct (Z.eqb_spec a a0); [congruence | exact Hm]. }
  apply G. unfold upd. rewrite Z.eqb_refl. reflexivity.
Qed.
Print Assumptions C10_load_after_store.

(* two stores to the same byte leave the later one *)
Theorem C10_store_store : forall LS, 0 < LS -> forall s a v1 v2 s',
  Inv LS s -> run LS s [Store a v1; Store a v2] = Some s' -> view LS s' a = v2.
Proof.
  intros LS HLS s a v1 v2 s' HI Hrun.
  destruct (view_is_flat LS HLS _ _ _ HI Hrun) as [_ Hv]. rewrite Hv. cbn [flat]. unfold upd.
  rewrite Z.eqb_refl. reflexivity.
Qed.
Print Assumptions C10_store_store.

(* a store that follows a load does not affect what that load returned: the value a
   load returns is a function of the operations before it only (view of the state at
   the time), stated as: the earlier view is unchanged by appending operations *)
Theorem C10_store_after_load : forall LS, 0 < LS -> forall s before a v s1 s2,
  Inv LS s -> run LS s before = Some s1 -> run LS s1 [Store a v] = Some s2 ->
  forall x, view LS s1 x = flat (view LS s) before x.
Proof.
  intros LS HLS s before a v s1 s2 HI H1 _. apply (view_is_flat LS HLS _ _ _ HI H1).
Qed.
