(* C03 - wrong-path instructions leave no architectural trace.  Property theorems only.

   Model: theories/Ooo/Machine.v.  Instances are fetched along "conditional branches fall
   through"; behind an unresolved branch that the sequential execution takes, everything
   fetched is the wrong path (Ooo/Path.v path_inv makes this precise).  A discipline is correct
   if, whatever is fetched, executed and written back there, in whatever order, the final
   architectural register file is the sequential one.  Proved for the discipline P62r ("every
   write goes to the buffer tagged with its instance; taken => drop younger writes, squash
   younger instances; commit only what is older than every unresolved branch") and for every
   policy that does not dispatch past an unresolved branch (P45 in-order; P60ns, P61ns);
   refuted - by a concrete program and schedule - for the disciplines the code has. *)
From Coq Require Import ZArith List Bool.
From Maj Require Import Ooo.Machine Ooo.Counts Ooo.InvDefs Ooo.InvResolve Ooo.Path Ooo.Policies
  Ooo.P60 Ooo.P61 Ooo.P45 Ooo.Spec Ooo.Refute Ooo.Examples.
Import ListNotations.

Theorem C03_wrong_path_invisible : forall text rf0 s,
  reach text rf0 (P62r text) s -> fin s = true ->
  exists e, halts_at text rf0 e /\ forall r, rf s r = seq_rf text rf0 e r.
Proof. exact wrong_path_invisible. Qed.
Print Assumptions C03_wrong_path_invisible.

(* the buffer discipline by itself: any hazard-safe guard, any execute / write-back order *)
Theorem C03_spec_buffer_correct : forall text rf0 P s,
  (forall s fw, Base text s -> counts_ok text s -> Inv text rf0 P s ->
                dispatch_ok P s fw = true -> safe_dispatch text s fw) ->
  bufm P = Full -> commit_all P = false ->
  (forall s e, exit_ok P s e = true -> forall j, j < e -> pendingb s j = false) ->
  reach text rf0 P s -> fin s = true ->
  exists e, halts_at text rf0 e /\ forall r, rf s r = seq_rf text rf0 e r.
Proof. exact spec_buffer_correct. Qed.
Print Assumptions C03_spec_buffer_correct.

(* while running: at every safe cut of the stream (in particular just after any unresolved
   branch) the file plus the buffered writes below the cut are the stream-sequential state *)
Theorem C03_arch_clean : forall text rf0 s c r,
  reach text rf0 (P62r text) s -> fin s = false ->
  safe text s c -> (forall j, j < c -> pending s j -> ~ writes text s j r) ->
  viewc (sb s) (rf s) c r = D text rf0 s c r.
Proof. exact arch_clean. Qed.
Print Assumptions C03_arch_clean.

(* the surviving instances are the true path: numbering, operands, cursor *)
Theorem C03_path_inv : forall text rf0 P, sound_policy text rf0 P ->
  forall s, reach text rf0 P s -> fin s = false -> PathInv text rf0 s.
Proof. exact path_inv. Qed.
Print Assumptions C03_path_inv.

(* no speculation: 4/5 (in order), and the 6.0 / 6.1 guards + "stall at an unresolved branch" *)
Theorem C03_p45 : forall text rf0 s,
  reach text rf0 (P45 text) s -> fin s = true ->
  exists e, halts_at text rf0 e /\ forall r, rf s r = seq_rf text rf0 e r.
Proof. exact p45_correct. Qed.
Print Assumptions C03_p45.
Theorem C03_p60ns : forall text rf0 s,
  reach text rf0 (P60ns text) s -> fin s = true ->
  exists e, halts_at text rf0 e /\ forall r, rf s r = seq_rf text rf0 e r.
Proof. exact p60ns_correct. Qed.
Print Assumptions C03_p60ns.
Theorem C03_p61ns : forall text rf0 s,
  reach text rf0 (P61ns text) s -> fin s = true ->
  exists e, halts_at text rf0 e /\ forall r, rf s r = seq_rf text rf0 e r.
Proof. exact p61ns_correct. Qed.
Print Assumptions C03_p61ns.

(* ---- the disciplines of the code ---- *)

(* 6.0 / 6.1 write wrong-path results straight into the register file (README) *)
Theorem C03_p60_p61_shadow_writeback_refuted :
  refutes shadow_text shadow_rf0 (P60 shadow_text) /\
  refutes shadow_text shadow_rf0 (P61 shadow_text).
Proof. exact p60_p61_shadow_writeback_refuted. Qed.
Print Assumptions C03_p60_p61_shadow_writeback_refuted.

(* 6.2: one slot per register - a shadow write overwrites an older uncommitted write and
   Rollback drops both (D16) *)
Theorem C03_p62_one_slot_refuted : refutes oneslot_text oneslot_rf0 (P62 oneslot_text).
Proof. exact p62_one_slot_refuted. Qed.
Print Assumptions C03_p62_one_slot_refuted.

(* 6.2's commit rule, even on a perfect buffer: a not-taken inner branch commits writes in the
   shadow of a still unresolved outer branch (D28) *)
Theorem C03_commit_all_on_not_taken_refuted :
  refutes nested_text nested_rf0 (P62ca nested_text).
Proof. exact commit_all_on_not_taken_refuted. Qed.
Print Assumptions C03_commit_all_on_not_taken_refuted.
Theorem C03_p62_commit_all_refuted : refutes nested_text nested_rf0 (P62 nested_text).
Proof. exact p62_commit_all_refuted. Qed.
Print Assumptions C03_p62_commit_all_refuted.

(* the hypotheses are satisfiable: the refuting programs and schedules, under P62r *)
Theorem C03_example_nested :
  exists s, reach nested_text nested_rf0 (P62r nested_text) s /\ fin s = true /\
            halts_at nested_text nested_rf0 1 /\
            forall r, In r [1; 2; 3] -> rf s r = seq_rf nested_text nested_rf0 1 r.
Proof. exact ex_spec_nested. Qed.
Theorem C03_example_oneslot_program :
  exists s, reach oneslot_text oneslot_rf0 (P62r oneslot_text) s /\ fin s = true /\
            halts_at oneslot_text oneslot_rf0 2 /\
            forall r, In r [1; 2] -> rf s r = seq_rf oneslot_text oneslot_rf0 2 r.
Proof. exact ex_spec_oneslot_program. Qed.
Theorem C03_example_loop :
  exists s, reach loop_text (regs []) (P62r loop_text) s /\ fin s = true /\
            halts_at loop_text (regs []) 7 /\
            forall r, In r [1] -> rf s r = seq_rf loop_text (regs []) 7 r.
Proof. exact ex_spec_loop. Qed.
