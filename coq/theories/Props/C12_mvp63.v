(* C12 / C08 / C04 / C07 for MVP-6.3 (MVP-6.2 with a register alias table instead of the
   transaction map and a control unit that dispatches through one outstanding WAW/WAR hazard).
   Property theorems only; proofs in Mvp/Mvp63Proofs.v about the faithful cycle-level model
   Mvp/Mvp63.v (built on Mvp60.v, Comp/Rat.v, Comp/Scoreboard.v), tied to proc/mvp6-3 by exact
   equality of (cycles, registers, memory) at 1..4 units (lib/vf/c12.py, lib/vf/modeltie.py;
   bin/tie_m63.py for all sampled iteration orders and the state - including the speculative
   register file - at the tick budget). *)
From Coq Require Import ZArith List Bool Lia.
From Maj Require Import Base.Outcome Base.GoInt Base.GoTypes Isa.Spec Isa.Seq.
From Maj Require Import Gen.Latency Gen.RiscTables Gen.Opcodes Comp.Cache Comp.Rat Mvp.Mvp12 Mvp.Mvp3 Mvp.Mvp5 Mvp.Mvp60 Mvp.Mvp63.
From Maj Require Import Mvp.Mvp60Proofs.
Import ListNotations.
Open Scope Z_scope.
From Maj Require Import Mvp.Mvp63Proofs.

(* C12: a returning run reports at least one cycle *)
Theorem C12_mvp63_cycles_positive :
  forall par ord fuel app labels st c st',
  mvp63_run par ord fuel app labels st = MDone c st' -> 1 <= c.
Proof. exact mvp63_cycles_pos. Qed.
Print Assumptions C12_mvp63_cycles_positive.

(* C12: at most two instructions are dispatched per cycle whatever the number of units *)
Theorem C12_mvp63_issue_width_two :
  forall ord cycle x,
  bb_bl (x_ebus x) = 2 -> ebus_ok x ->
  zlen (bb_buf (x_ebus (cu_cycle3 ord cycle x))) <= 2.
Proof. exact mvp63_dispatch_width. Qed.
Print Assumptions C12_mvp63_issue_width_two.

(* C08: a run ending with the ghost flag clear is the same for all iteration orders that agree on the RAT value maps *)
Theorem C08_mvp63_order_irrelevant_when_flag_clear :
  forall par fuel app labels st ord1 ord2 r,
  ords_ok3 ord1 ord2 ->
  mvp63_run_os par ord1 fuel app labels st = (r, false) ->
  mvp63_run_os par ord2 fuel app labels st = (r, false).
Proof. exact mvp63_ord_irrelevant. Qed.
Print Assumptions C08_mvp63_order_irrelevant_when_flag_clear.

(* C04 finding SYS-renaming-6.3plus as theorems about the model: "renaming" renames nothing - a younger writer
   overtakes an older reader (WAR) ... *)
Theorem C04_mvp63_war_refuted :
  reg_of (mvp12_run V1 1000 war_prog no_labels (st_of [(5, 1)] [(0, 5)])) 7 = Some 6 /\
  reg_of (mvp63_run 1 ord_asc 2000 war_prog no_labels (st_of [(5, 1)] [(0, 5)])) 7 = Some 6 /\
  reg_of (mvp63_run 3 ord_asc 2000 war_prog no_labels (st_of [(5, 1)] [(0, 5)])) 7 = Some 82.
Proof. exact war_unsound. Qed.
Print Assumptions C04_mvp63_war_refuted.

(* ... and the older of two writers writes back last (WAW) *)
Theorem C04_mvp63_waw_refuted :
  reg_of (mvp12_run V1 1000 waw_prog no_labels (st_of [] [(0, 5)])) 6 = Some 3 /\
  reg_of (mvp63_run 1 ord_asc 2000 waw_prog no_labels (st_of [] [(0, 5)])) 6 = Some 3 /\
  reg_of (mvp63_run 2 ord_asc 2000 waw_prog no_labels (st_of [] [(0, 5)])) 6 = Some 5.
Proof. exact waw_unsound. Qed.
Print Assumptions C04_mvp63_waw_refuted.

(* C08: the forwarding source is chosen by map iteration order: two orders, two results *)
Theorem C08_mvp63_forwarding_source_depends_on_map_order :
  (let r := mvp63_run_os 2 ord_asc 2000 fwd_prog no_labels (st_of [] []) in (reg_of (fst r) 5, snd r)) = (Some 3, true) /\
  (let r := mvp63_run_os 2 ord_desc 2000 fwd_prog no_labels (st_of [] []) in (reg_of (fst r) 5, snd r)) = (Some 93, true).
Proof. exact forward_order. Qed.
Print Assumptions C08_mvp63_forwarding_source_depends_on_map_order.

(* C07 finding SYS-memory-6x: a store that misses L3 leaves a pending range that a later load of the line waits for *)
Theorem C07_mvp63_store_miss_then_load_hangs :
  mvp63_run 1 ord_asc 20000 stld_prog no_labels (st_of [] []) = MOutOfFuel.
Proof. exact store_miss_hang. Qed.
Print Assumptions C07_mvp63_store_miss_then_load_hangs.

(* C07: witness of the repaired defect 1ed8ef8 *)
Theorem C07_mvp63_error_in_flush_loop_is_returned :
  mvp12_run V1 1000 flusherr_prog (one_label 16) (st_of [(28, 5)] []) = MErr EDivZero /\
  mvp63_run 2 ord_asc 2000 flusherr_prog (one_label 16) (st_of [(28, 5)] []) = MErr EDivZero /\
  mvp63_run 3 ord_asc 2000 flusherr_prog (one_label 16) (st_of [(28, 5)] []) = MErr EDivZero.
Proof. exact flush_error. Qed.
Print Assumptions C07_mvp63_error_in_flush_loop_is_returned.
