(* C06 - MSI coherence invariants, the THREE-LEVEL hierarchy of MVP-8.0 (per-core
   L1 / shared L3 / main memory) and the DATA VALUE property.
   Property theorems only; proofs are in Msi/L3*.v.

   Model: Msi/L3Protocol.v, read off proc/mvp8-0/{cc,msi,mmu}.go: the machine
   of Msi/Protocol.v (imported unchanged) whose next level is now a shared L3
   (LRU list of lines of w bytes, capacity cap lines, dirty flags, deferred
   victim commands) over main memory; N cores, any number of lines, every
   interleaving, every length.  `view w s` is the state the cores see: its
   next level is `next w s l` = the L3 copy when L3 holds the line, main
   memory otherwise.  step3 N g fm rep w cap:  g / fm as in Props/C06.v,
   rep = false the L3 refill AS CODED, rep = true the repaired refill.
   Tie to the code: the extracted l3_b / violated3 are evaluated on a snapshot
   of the implementation after every cycle (lib/vf/c06.py). *)
From Coq Require Import List ZArith Bool.
From Maj Require Import Msi.Protocol Msi.Invariant Msi.L3Protocol Msi.L3Invariant Msi.L3Lemmas Msi.L3DataValue
  Msi.L3Proofs Msi.L3Coded Msi.L3Refuted Msi.L3Examples Msi.L3SnapProofs.
Import ListNotations.
Open Scope Z_scope.

(* ---- the repaired refill (memory read, push and victim handling in one step) ---- *)

(* L1 PROTOCOL AS CODED (unguarded locks, flush excluded) over the repaired L3:
   every reachable state satisfies (a) the C06 invariant Inv (+ J) of the state
   the cores see, (c) the L3 invariant, (d) the data-value invariant w.r.t. the
   history of completed writes *)
Theorem C06_l3_inv_reachable : forall N w cap, 0 < w -> (0 < cap)%nat -> forall m0 s,
  reach3 N false NoFlush true w cap m0 s ->
  Inv N (view w s) /\ J N (view w s) /\ L3I w cap s /\ DV N (view w s) (lastw m0 (hist s)).
Proof. exact l3_reachable_repaired. Qed.
Print Assumptions C06_l3_inv_reachable.

(* the repaired L1 protocol (guarded locks; with or without the repaired flush) over the repaired L3 *)
Theorem C06_l3_inv_reachable_repaired : forall N w cap, 0 < w -> (0 < cap)%nat -> forall fm m0 s,
  reach3 N true fm true w cap m0 s ->
  Inv N (view w s) /\ L3I w cap s /\ DV N (view w s) (lastw m0 (hist s)).
Proof. exact l3_reachable_repaired_guarded. Qed.
Print Assumptions C06_l3_inv_reachable_repaired.

(* (a) the clauses of C06 (1 single writer, 2 Shared = next level, 3 in L1 iff
   not Invalid outside a transfer, 5 lock counters) for the three-level state *)
Theorem C06_l3_inv_implies_clauses : forall N w s, Inv N (view w s) -> clauses (obs_of_st N (view w s)).
Proof. exact l3_clauses. Qed.
Print Assumptions C06_l3_inv_implies_clauses.

(* (b) a Shared L1 line equals the L3 copy when L3 holds the line, main memory otherwise *)
Theorem C06_l3_shared_equals_next_level : forall N w s i l, Inv N (view w s) -> (i < N)%nat ->
  ms (core s) i l = S ->
  (in_l3 w s l = true -> l1 (core s) i l = Some (l3d s l)) /\
  (in_l3 w s l = false -> l1 (core s) i l = Some (mem (core s) l)).
Proof. exact l3_shared_equals_next. Qed.
Print Assumptions C06_l3_shared_equals_next_level.

(* (c) L3 never holds two copies of a line, its lines are aligned, occupancy <= capacity *)
Theorem C06_l3_structure : forall w cap s, L3I w cap s ->
  NoDup (l3q s) /\ (forall b, In b (l3q s) -> b mod w = 0) /\ (length (l3q s) <= cap)%nat.
Proof. exact l3_structure. Qed.
Print Assumptions C06_l3_structure.

(* (d) DATA VALUE: the current value of every line (the Modified L1 copy if any,
   else the L3 copy if present, else main memory) is the last value written;
   so is every valid (Shared or Modified) L1 copy: a load returns it *)
Theorem C06_l3_current_value : forall N w s lw l,
  Inv N (view w s) -> DV N (view w s) lw -> current N w s l (lw l).
Proof. exact l3_current_value. Qed.
Print Assumptions C06_l3_current_value.

Theorem C06_l3_valid_copy_is_last_write : forall N w s lw i l,
  Inv N (view w s) -> DV N (view w s) lw -> (i < N)%nat -> ms (core s) i l <> I ->
  l1 (core s) i l = Some (lw l).
Proof. exact l3_valid_copy. Qed.
Print Assumptions C06_l3_valid_copy_is_last_write.

(* the one place where msi.go of 8.0 differs from 7.0 on the L1 side
   (evictL1ExtraCacheLine: l1Evict for an Invalid victim) is unreachable *)
Theorem C06_l3_victim_never_invalid : forall N s i l a, Inv N s -> (i < N)%nat ->
  tx_line (ph s i) = Some l -> victim_ok s i l (Some a) -> ms s i a <> I.
Proof. exact victim_not_invalid. Qed.
Print Assumptions C06_l3_victim_never_invalid.

(* ---- THE CODE AS IT IS (L1 protocol unguarded, flush excluded, L3 as coded) ---- *)

(* the protocol part of the invariant (everything that is not about the data
   carried: Inv and J of the data-erased core state) and the L3 structure
   "one copy per line, aligned" hold in every reachable state ... *)
Theorem C06_l3_coded_reachable : forall N w cap, 0 < w -> forall m0 s,
  reach3 N false NoFlush false w cap m0 s ->
  Inv N (erase (core s)) /\ J N (erase (core s)) /\ L3wf w s.
Proof. exact l3_reachable_coded. Qed.
Print Assumptions C06_l3_coded_reachable.

(* ... which gives clauses 1, 3 and 5 of the property for the code as it is *)
Theorem C06_l3_coded_clauses_1_3_5 : forall N b, Inv N (erase b) ->
  clause1 (obs_of_st N b) /\ clause3 (obs_of_st N b) /\ clause5 (obs_of_st N b).
Proof. exact erased_clauses. Qed.
Print Assumptions C06_l3_coded_clauses_1_3_5.

(* (d), (b) and the supporting "clean L3 line = memory" FAIL as coded - known
   finding C06-l3-refill-race: 3 cores, L3 lines of 128 bytes, capacity 1 *)
Theorem C06_l3_refill_race_refuted :
  exists s, trace3 3 false NoFlush false 128 1 (init3 m0) race_trace s /\
    reach3 3 false NoFlush false 128 1 m0 s /\
    ms (core s) 2%nat 64 = S /\ l1 (core s) 2%nat 64 = Some 64 /\ lastw m0 (hist s) 64 = 5 /\
    in_l3 128 s 64 = true /\ l3w s 0 = false /\ l3d s 64 = 64 /\ mem (core s) 64 = 5 /\
    ~ DV 3 (view 128 s) (lastw m0 (hist s)) /\
    ~ (forall b k, In b (l3q s) -> l3w s b = false -> grp 128 k = b -> l3d s k = mem (core s) k).
Proof. exact l3_refill_race_refuted. Qed.
Print Assumptions C06_l3_refill_race_refuted.

Theorem C06_l3_refill_race_breaks_clause2_refuted :
  exists s, trace3 3 false NoFlush false 128 1 (init3 m0) race_trace2 s /\
    reach3 3 false NoFlush false 128 1 m0 s /\
    ms (core s) 2%nat 64 = S /\ l1 (core s) 2%nat 64 = Some 5 /\ next 128 s 64 = 64 /\
    ~ clause2 (obs_of_st 3 (view 128 s)).
Proof. exact l3_refill_race_breaks_clause2_refuted. Qed.
Print Assumptions C06_l3_refill_race_breaks_clause2_refuted.

(* (c) occupancy FAILS as coded, and an l3WriteBack command can find its line
   gone (Go: panic "memory address should exist") - known finding C06-l3-double-victim *)
Theorem C06_l3_double_victim_panic_refuted :
  exists s, trace3 3 false NoFlush false 128 1 (init3 m0) victim_trace_wb s /\
    reach3 3 false NoFlush false 128 1 m0 s /\
    l3c s = [(1%nat, 0, true)] /\ l3q s = [256; 128] /\ ~ l3_cmds_have_lines s.
Proof. exact l3_double_victim_panic_refuted. Qed.
Print Assumptions C06_l3_double_victim_panic_refuted.

Theorem C06_l3_double_victim_occupancy_refuted :
  exists s, trace3 3 false NoFlush false 128 1 (init3 m0) victim_trace_ev s /\
    reach3 3 false NoFlush false 128 1 m0 s /\
    l3c s = [] /\ l3q s = [256; 128] /\ ~ l3_occupancy_ok 1 s.
Proof. exact l3_double_victim_occupancy_refuted. Qed.
Print Assumptions C06_l3_double_victim_occupancy_refuted.

(* one core is enough (coRead does not wait for its own victim command) *)
Theorem C06_l3_same_core_double_victim_refuted :
  exists s, trace3 3 false NoFlush false 128 1 (init3 m0) victim_trace_same_core s /\
    reach3 3 false NoFlush false 128 1 m0 s /\
    l3c s = [] /\ l3q s = [256; 128] /\ ~ l3_occupancy_ok 1 s.
Proof. exact l3_same_core_double_victim_refuted. Qed.
Print Assumptions C06_l3_same_core_double_victim_refuted.

(* (d) FAILS as coded for a third reason - finding C06-l3-victim-kind-race, found
   by this model and then reproduced on the implementation: the kind of the L3
   victim command is fixed when it is issued *)
Theorem C06_l3_victim_kind_race_refuted :
  exists s, trace3 3 false NoFlush false 128 1 (init3 m0) kind_trace s /\
    reach3 3 false NoFlush false 128 1 m0 s /\
    ms (core s) 2%nat 0 = S /\ l1 (core s) 2%nat 0 = Some 0 /\ lastw m0 (hist s) 0 = 5 /\
    next 128 s 0 = 0 /\ mem (core s) 0 = 0 /\
    ~ DV 3 (view 128 s) (lastw m0 (hist s)).
Proof. exact l3_victim_kind_race_refuted. Qed.
Print Assumptions C06_l3_victim_kind_race_refuted.

(* ---- the two-level machine of MVP-7.0 / 7.1: DATA VALUE as well ---- *)
Theorem C06_data_value_reachable : forall N m0 s h, hreach N false NoFlush m0 s h ->
  Inv N s /\ J N s /\ DV N s (lastw m0 h).
Proof. exact dv_reachable_coded. Qed.
Print Assumptions C06_data_value_reachable.

Theorem C06_data_value_reachable_repaired : forall N fm m0 s h, hreach N true fm m0 s h ->
  Inv N s /\ DV N s (lastw m0 h).
Proof. exact dv_reachable_guarded. Qed.
Print Assumptions C06_data_value_reachable_repaired.

Theorem C06_valid_copy_is_last_write : forall N s lw i l,
  Inv N s -> DV N s lw -> (i < N)%nat -> ms s i l <> I -> l1 s i l = Some (lw l).
Proof. exact dv_valid_copy. Qed.
Print Assumptions C06_valid_copy_is_last_write.

(* ---- the boolean judge of the L3 / data-value clauses on a snapshot is the Prop ---- *)
Theorem C06_l3_b_correct : forall s, l3_b s = true <-> L3SInv s.
Proof. exact l3_b_correct. Qed.
Print Assumptions C06_l3_b_correct.

Theorem C06_violated3_nil : forall s, violated3 s = [] <-> l3_b s = true.
Proof. exact violated3_nil. Qed.
Print Assumptions C06_violated3_nil.

(* ---- non-vacuity: the repaired three-level machine (L1 protocol as coded)
   reaches states with an L3 hit, a write-back into L3, a dirty victim written
   back by the refill, and a Shared copy whose next level is main memory ---- *)
Theorem C06_l3_reach_nontrivial :
  exists s, trace3 2 false NoFlush true 128 1 (init3 (fun l => l)) example3_trace s /\
            ms (core s) 0%nat 0 = I /\ ms (core s) 1%nat 0 = S /\ l1 (core s) 1%nat 0 = Some 5 /\
            ms (core s) 0%nat 128 = S /\ l3q s = [128] /\ in_l3 128 s 0 = false /\ mem (core s) 0 = 5 /\
            l3w s 0 = false /\ lastw (fun l => l) (hist s) 0 = 5.
Proof. exact reach3_example. Qed.
Print Assumptions C06_l3_reach_nontrivial.
