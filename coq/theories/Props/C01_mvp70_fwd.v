(* C01 / C03 for MVP-7.0 on single-assignment register-only programs with forward control flow.
   Property theorems only: the MVP-6.3 theorem (Props/C01_mvp63_fwd.v) transported through the
   proved lock-step simulation "MVP-7.0 = MVP-6.3 + one cycle on programs without loads and stores"
   (Props/C01_mvp70.v).  Models: Mvp/Mvp70.v, tied to proc/mvp7-0 by exact equality of (cycles,
   registers, memory) at 1..4 cores. *)
From Coq Require Import ZArith List Bool.
From Maj Require Import Base.Outcome Base.GoInt Base.GoTypes Isa.Spec Isa.Seq Isa.Refine Gen.Opcodes.
From Maj Require Import Mvp.Mvp12 Mvp.Mvp12Proofs Mvp.Mvp60 Mvp.Mvp63 Mvp.Mvp70 Mvp.Mvp4Skel Mvp.Mvp60RefDefs Mvp.Mvp60RefProofs
     Mvp.Mvp63RefDefs Mvp.Mvp63RefFwdDefs Mvp.Mvp63RefFwdProofs Mvp.Mvp63RefFwdThm Mvp.Mvp70Sim63Fwd.
Import ListNotations.
Open Scope Z_scope.

(* every register-only single-assignment program with forward control flow (conditional branches
   with register-writing shadows, j, jal strictly ahead, ret anywhere; no div/rem/jalr), every number
   of cores >= 1, every iteration order: the run of MVP-7.0 returns the sequential registers and
   memory, with the ghost flag clear (deterministic), for every fuel from the bound on *)
Theorem C01_mvp70_refines_seq_ssa_forward : forall app labels,
  wf_app app -> reg_only app = true -> ssa app = true -> regs_ok app = true ->
  fwd_ok app labels = true -> seq_ids_fit3 app ->
  forall par ord fuel st st' tr, (1 <= par)%nat ->
    Forall int32 (regs st) -> length (regs st) = 32%nat -> nth 0 (regs st) 0 = 0 ->
    seq_run fuel (map sinstr_of app) labels st = Done st' tr ->
    exists c, forall fuel', (fuel_bound70_fwd (length app) <= fuel')%nat ->
      mvp70_run_os par ord fuel' app labels st = (MDone c st', false).
Proof. exact mvp70_refines_seq_ssa_forward. Qed.
Print Assumptions C01_mvp70_refines_seq_ssa_forward.

Theorem C07_mvp70_no_panic_ssa_forward : forall app labels,
  wf_app app -> reg_only app = true -> ssa app = true -> regs_ok app = true ->
  fwd_ok app labels = true -> seq_ids_fit3 app ->
  forall par ord fuel st st' tr, (1 <= par)%nat ->
    Forall int32 (regs st) -> length (regs st) = 32%nat -> nth 0 (regs st) 0 = 0 ->
    seq_run fuel (map sinstr_of app) labels st = Done st' tr ->
    forall fuel', (fuel_bound70_fwd (length app) <= fuel')%nat ->
      mvp70_run par ord fuel' app labels st <> MPanic /\ mvp70_run par ord fuel' app labels st <> MOutOfFuel /\
      (forall e, mvp70_run par ord fuel' app labels st <> MErr e) /\ snd (mvp70_run_os par ord fuel' app labels st) = false.
Proof. exact mvp70_no_panic_ssa_forward. Qed.
Print Assumptions C07_mvp70_no_panic_ssa_forward.

Theorem C07_mvp70_fuel_bound_fwd_value : forall n, fuel_bound70_fwd n = S (fuel_bound63_fwd n).
Proof. reflexivity. Qed.
