(* C01 / C12 for MVP-6.3 (proc/mvp6-3 = MVP-6.0 + operand forwarding between execute units +
   sequence ids + a register alias table for speculative results + a control unit that dispatches
   through ONE outstanding WAW / WAR hazard without renaming anything) on SINGLE-ASSIGNMENT,
   register-only, straight-line programs.  Property theorems only; proofs in Mvp/Mvp63RefDefs.v,
   Mvp63RefInv.v, Mvp63RefProofs.v, about the cycle-level model Mvp/Mvp63.v (tied to the Go code by
   exact differential checks).

   The class:  straight app (no branch / jump, ret allowed), reg_only app (no load / store),
     ssa app     every register but x0 is written by at most one instruction of the text and no
                 instruction reads a register that a LATER instruction writes (no WAW, no WAR);
     regs_ok app register numbers 0 .. 31;
   initial state: 32 int32 registers, x0 = 0 (each needed: the three ..._refuted examples below).

   STATUS.  The full refinement theorem (mvp63_refines_seq_ssa_straight, stated in the header of
   Mvp/Mvp63RefProofs.v) is NOT proved.  Proved, for all programs of the class, all order functions,
   all states satisfying the back-end invariant BI (Mvp63RefInv.v):
     - the control unit keeps the invariant, forwards only from the UNIQUE earlier writer, keeps the
       ghost flag clear (the map order of pushedRunnersInPreviousCycle is not observable), and makes
       progress when nothing is in flight               (C01_mvp63_control_unit_partial, ..._os_clear)
     - the instruction at the head of the execute bus reads exactly its sequential operands through
       registerRead (alias tables + forward field) and Run returns the sequential execution record
                                                        (C01_mvp63_head_operands_partial)
     - a write unit keeps the invariant                (C01_mvp63_write_unit_partial)
   plus a 14-instruction example at 1..4 units and both orders (vm_compute), its determinism for ALL
   orders, and the refutations that make the class boundary sharp. *)
From Coq Require Import ZArith List Bool Lia.
From Maj Require Import Base.Outcome Base.GoInt Base.GoTypes Isa.Spec Isa.Seq Isa.Refine Gen.Opcodes Comp.Rat.
From Maj Require Import Mvp.Mvp12 Mvp.Mvp12Proofs Mvp.Mvp4Skel Mvp.Mvp60 Mvp.Mvp60RefSem Mvp.Mvp60RefDefs Mvp.Mvp60RefBack Mvp.Mvp60RefStep
     Mvp.Mvp63 Mvp.Mvp63Proofs Mvp.Mvp63RefDefs Mvp.Mvp63RefInv Mvp.Mvp63RefProofs.
Import ListNotations.
Open Scope Z_scope.

(* the sequential machine runs the text up to the first ret without error (what
   seq_run ... = Done gives on straight-line programs: Mvp60RefProofs.hsem_straight) *)
Definition seq_ok (app : list instr) (labels : Z -> option Z) (regs0 : list Z) : Prop :=
  forall k, (0 <= k <= stop_from app 0)%nat -> (k < length app)%nat ->
    exec (sinstr_of (ik app k)) (rget (sreg app labels regs0 0 k)) labels (pcz k) [] = Ok (eff app labels regs0 0 k) /\
    (forall a, etarget (eff app labels regs0 0 k) = Some a -> exists t, a = pcz t /\ (k < t <= length app)%nat).

(* controlUnit.cycle keeps the invariant of the back end and of the front end *)
Theorem C01_mvp63_control_unit_partial : forall app labels regs0 mem0 ord,
  straight app = true -> ssa app = true -> regs_ok app = true -> length regs0 = 32%nat -> seq_ok app labels regs0 ->
  forall cy dp d xe w c f x,
    BI app labels regs0 mem0 dp d xe w (x_pend x) (x_prev x) x ->
    FrontI app 0 (d + length (x_pend x)) c f cy (x_m x) -> m_cu (x_m x) = [] -> BusOK cy (x_ebus x) ->
    exists lp, let x' := cu_cycle3 ord cy x in
      BI app labels regs0 mem0 d (d + lp) xe w (x_pend x') (x_prev x') x' /\
      FrontI app 0 (d + lp + length (x_pend x')) c f cy (x_m x') /\
      m_cu (x_m x') = [] /\ BusOK cy (x_ebus x') /\ qlen (x_ebus x') = qlen (x_ebus x) /\
      m_wbus (x_m x') = m_wbus (x_m x) /\ m_bu (x_m x') = m_bu (x_m x) /\ m_fu (x_m x') = m_fu (x_m x) /\
      m_dbus (x_m x') = m_dbus (x_m x) /\
      (flat (x_ebus x) = [] -> w = d -> x_pend x <> [] \/ bb_q (m_cbus (x_m x)) <> [] -> (0 < lp)%nat) /\
      (lp = O -> length (x_pend x') + length (bb_q (m_cbus (x_m x'))) = length (x_pend x) + length (bb_q (m_cbus (x_m x))))%nat.
Proof. exact cu_cycle_ok. Qed.
Print Assumptions C01_mvp63_control_unit_partial.

(* ssa -> os = false, for the control unit (the only place where the flag is raised on
   register-only programs): the forwarding source is unique *)
Theorem C01_mvp63_control_unit_os_clear : forall app labels regs0 mem0 ord,
  straight app = true -> ssa app = true -> regs_ok app = true -> length regs0 = 32%nat -> seq_ok app labels regs0 ->
  forall cy dp d xe w c f x,
    BI app labels regs0 mem0 dp d xe w (x_pend x) (x_prev x) x ->
    FrontI app 0 (d + length (x_pend x)) c f cy (x_m x) -> m_cu (x_m x) = [] -> BusOK cy (x_ebus x) ->
    x_os (cu_cycle3 ord cy x) = false.
Proof. exact cu_cycle_os_clear. Qed.
Print Assumptions C01_mvp63_control_unit_os_clear.

(* the head of the execute bus: its channel (if any) holds a value, registerRead returns the
   sequential operands, Runner.Run the sequential execution record *)
Theorem C01_mvp63_head_operands_partial : forall app labels regs0 mem0 (ord : Z -> Z -> list Z -> list Z),
  wf_app app -> reg_only app = true -> ssa app = true -> regs_ok app = true ->
  length regs0 = 32%nat -> Forall int32 regs0 -> nth 0 regs0 0 = 0 -> seq_ok app labels regs0 ->
  forall dp d xe w pl pv x r E',
    BI app labels regs0 mem0 dp d xe w pl pv x -> flat (x_ebus x) = r :: E' ->
    (forall ch, q_recv r = Some ch -> exists v, aget ch (x_chan x) = Some v) /\
    (forall q, In q (rds app xe) -> reg_read3 (head_fw x r) (x_crat x) (x_trat x) q = rget (sreg app labels regs0 0 xe) q) /\
    (forall q, int32 (reg_read3 (head_fw x r) (x_crat x) (x_trat x) q)) /\
    instr_Run (ik app xe) (reg_read3 (head_fw x r) (x_crat x) (x_trat x)) labels (pcz xe) [] 0 = Ok (exe app labels regs0 xe).
Proof. exact head_operands. Qed.
Print Assumptions C01_mvp63_head_operands_partial.

(* a write unit that finds a result in the queue of the write bus *)
Theorem C01_mvp63_write_unit_partial : forall app labels regs0 mem0 (ord : Z -> Z -> list Z -> list Z),
  straight app = true -> reg_only app = true -> length regs0 = 32%nat -> seq_ok app labels regs0 ->
  forall dp d xe w pl pv x wu c q',
    BI app labels regs0 mem0 dp d xe w pl pv x -> u_co wu = WNone -> bb_q (m_wbus (x_m x)) = c :: q' ->
    exists x', wu_cycle3 x wu (-1) = Ok (x', wu) /\ BI app labels regs0 mem0 dp d xe (S w) pl pv x' /\
      x_ebus x' = x_ebus x /\ x_pend x' = x_pend x /\ x_prev x' = x_prev x /\
      bb_q (m_wbus (x_m x')) = q' /\ bb_buf (m_wbus (x_m x')) = bb_buf (m_wbus (x_m x)).
Proof. exact wu_take_ok. Qed.
Print Assumptions C01_mvp63_write_unit_partial.

(* non-vacuity: 14 instructions, chained RAW dependences, single assignment; 1..4 units, both
   orders: sequential registers, ghost flag clear, ceil(14/2) <= cycles *)
Theorem C01_mvp63_example :
  let app := map instr_of ex63_prog in
  straight app = true /\ reg_only app = true /\ ssa app = true /\ regs_ok app = true /\
  exists st' tr,
    seq_run 100 (map sinstr_of app) no_labels zero32 = Done st' tr /\ length tr = 14%nat /\
    mvp63_run_os 1 ord_asc 3000 app no_labels zero32 = (MDone 333 st', false) /\
    mvp63_run_os 2 ord_asc 3000 app no_labels zero32 = (MDone 332 st', false) /\
    mvp63_run_os 3 ord_asc 3000 app no_labels zero32 = (MDone 332 st', false) /\
    mvp63_run_os 4 ord_asc 3000 app no_labels zero32 = (MDone 332 st', false) /\
    mvp63_run_os 3 ord_desc 3000 app no_labels zero32 = (MDone 332 st', false) /\
    rget (regs st') 9 = 63 /\ rget (regs st') 13 = 57 /\ rget (regs st') 18 = 251 /\ (14 + 1) / 2 <= 332.
Proof. exact mvp63_ssa_example. Qed.
Print Assumptions C01_mvp63_example.

Theorem C01_mvp63_example_all_orders : forall ord, ords_ok3 ord_asc ord ->
  exists st', mvp63_run_os 3 ord 3000 (map instr_of ex63_prog) no_labels zero32 = (MDone 332 st', false) /\
              rget (regs st') 18 = 251.
Proof. exact mvp63_ssa_example_all_orders. Qed.
Print Assumptions C01_mvp63_example_all_orders.

(* FINDING (class boundary): the smallest register-only straight-line program outside the class,
   li a5,2 ; li a5,92 ; addi t0,a5,1 (a5 written twice): STALE FORWARDING - the addi is forwarded from
   the first li (dispatched in the previous cycle) although the second li was dispatched just before it
   in the same cycle: t0 = 3 instead of 93 at every number of units, for both iteration orders, ghost
   flag clear (not the map-order ambiguity) *)
Theorem C01_mvp63_non_ssa_regonly_refuted :
  straight waw3_prog = true /\ reg_only waw3_prog = true /\ regs_ok waw3_prog = true /\ ssa waw3_prog = false /\
  exists st' tr,
    seq_run 10 (map sinstr_of waw3_prog) no_labels (st_of [] []) = Done st' tr /\ nth 5 (regs st') 0 = 93 /\
    map (fun par => (reg_of (mvp63_run par ord_asc 3000 waw3_prog no_labels (st_of [] [])) 5,
                     reg_of (mvp63_run par ord_desc 3000 waw3_prog no_labels (st_of [] [])) 5)) [1%nat; 2%nat; 3%nat; 4%nat]
    = [(Some 3, Some 3); (Some 3, Some 3); (Some 3, Some 3); (Some 3, Some 3)] /\
    snd (mvp63_run_os 1 ord_asc 3000 waw3_prog no_labels (st_of [] [])) = false.
Proof. exact mvp63_non_ssa_regonly_refuted. Qed.
Print Assumptions C01_mvp63_non_ssa_regonly_refuted.

(* ... and with a nop in front the result depends on Go's map order (3 or 93) at every number of units *)
Theorem C01_mvp63_non_ssa_order_dependent :
  ssa fwd_prog = false /\
  map (fun par => (reg_of (mvp63_run par ord_asc 3000 fwd_prog no_labels (st_of [] [])) 5,
                   reg_of (mvp63_run par ord_desc 3000 fwd_prog no_labels (st_of [] [])) 5)) [1%nat; 2%nat; 3%nat; 4%nat]
  = [(Some 3, Some 93); (Some 3, Some 93); (Some 3, Some 93); (Some 3, Some 93)].
Proof. exact mvp63_non_ssa_order_dependent. Qed.

(* why the hypotheses on the initial registers *)
Theorem C01_mvp63_x0_nonzero_refuted :
  let p := [SLi 5 1; SAdd 6 5 0] in
  let st := mk_arch (7 :: repeat 0 31) (repeat 0 64) in
  ssa (map instr_of p) = true /\ regs_ok (map instr_of p) = true /\
  exists st' tr c st6,
    seq_run 10 p no_labels st = Done st' tr /\ mvp63_run 1 ord_asc 3000 (map instr_of p) no_labels st = MDone c st6 /\
    nth 6 (regs st') 0 = 1 /\ nth 6 (regs st6) 0 = 8.
Proof. exact mvp63_x0_nonzero_refuted. Qed.

Theorem C01_mvp63_x0_write_refuted :
  let p := [SAddi 0 0 5] in
  let st := mk_arch (7 :: repeat 0 31) (repeat 0 64) in
  exists st' tr c st6,
    seq_run 10 p no_labels st = Done st' tr /\ mvp63_run 1 ord_asc 3000 (map instr_of p) no_labels st = MDone c st6 /\
    nth 0 (regs st') 0 = 7 /\ nth 0 (regs st6) 0 = 0.
Proof. exact mvp63_x0_write_refuted. Qed.

Theorem C01_mvp63_short_regfile_refuted :
  let p := [SLi 7 3; SNop; SNop; SNop; SNop; SAddi 2 7 1] in
  let st := mk_arch (repeat 0 5) (repeat 0 64) in
  ssa (map instr_of p) = true /\
  exists st' tr c st6,
    seq_run 10 p no_labels st = Done st' tr /\ mvp63_run 1 ord_asc 3000 (map instr_of p) no_labels st = MDone c st6 /\
    nth 2 (regs st') 0 = 1 /\ nth 2 (regs st6) 0 = 4.
Proof. exact mvp63_short_regfile_refuted. Qed.
Print Assumptions C01_mvp63_short_regfile_refuted.
