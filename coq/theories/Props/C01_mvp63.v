(* C01 / C12 for MVP-6.3 (proc/mvp6-3 = MVP-6.0 + operand forwarding between execute units +
   sequence ids + a register alias table for speculative results + a control unit that dispatches
   through ONE outstanding WAW / WAR hazard without renaming anything) on SINGLE-ASSIGNMENT,
   register-only, straight-line programs.  Property theorems only; proofs in Mvp/Mvp63RefDefs.v,
   Mvp63RefInv.v, Mvp63RefProofs.v, about the cycle-level model Mvp/Mvp63.v (tied to the Go code by
   exact differential checks).

   The class:  straight app (no branch / jump, ret allowed), reg_only app (no load / store),
     ssa app     every register but x0 is written by at most one instruction of the text and no
                 instruction reads a register that a LATER instruction writes (no WAW, no WAR);
     regs_ok app register numbers 0 .. 31;
   initial state: 32 int32 registers, x0 = 0 (each needed: the three ..._refuted examples below).

   STATUS.  The refinement theorem is PROVED for the class (straight-line):
     C01_mvp63_refines_seq_ssa_straight   Run returns the sequential registers and memory, for every number
                                          of units, EVERY order function, all fuels from fuel_bound63 on
     C12_mvp63_run_ssa_straight           ... with the ghost flag clear and ceil(executed / 2) <= cycles
     C12_mvp63_deterministic_ssa_straight every iteration order gives the sequential state (and the same
                                          cycle count for orders related by ords_ok3)
     C12_mvp63_cycles_lower_bound_ssa_straight, C07_mvp63_terminates_ssa_straight, C07_mvp63_no_panic_ssa_straight
     C01_mvp63_example_any                the 14-instruction example at ANY number of units and ANY order
   The unit theorems of the first delivery are kept (..._partial): control unit, head operands, write unit.
   The extension to forward branches / jumps on single-assignment programs is proved in Props/C01_mvp63_fwd.v
   (C01_mvp63_refines_seq_ssa_forward; Mvp/Mvp63RefFwd*.v). *)
From Coq Require Import ZArith List Bool Lia.
From Maj Require Import Base.Outcome Base.GoInt Base.GoTypes Isa.Spec Isa.Seq Isa.Refine Gen.Opcodes Comp.Rat.
From Maj Require Import Mvp.Mvp12 Mvp.Mvp12Proofs Mvp.Mvp4Skel Mvp.Mvp60 Mvp.Mvp60RefSem Mvp.Mvp60RefDefs Mvp.Mvp60RefBack Mvp.Mvp60RefStep
     Mvp.Mvp63 Mvp.Mvp63Proofs Mvp.Mvp63RefDefs Mvp.Mvp63RefInv Mvp.Mvp63RefExec Mvp.Mvp63RefStep Mvp.Mvp63RefProofs.
Import ListNotations.
Open Scope Z_scope.

(* the sequential machine runs the text up to the first ret without error (what
   seq_run ... = Done gives on straight-line programs: Mvp60RefProofs.hsem_straight) *)
Definition seq_ok (app : list instr) (labels : Z -> option Z) (regs0 : list Z) : Prop :=
  forall k, (0 <= k <= stop_from app 0)%nat -> (k < length app)%nat ->
    exec (sinstr_of (ik app k)) (rget (sreg app labels regs0 0 k)) labels (pcz k) [] = Ok (eff app labels regs0 0 k) /\
    (forall a, etarget (eff app labels regs0 0 k) = Some a -> exists t, a = pcz t /\ (k < t <= length app)%nat).

(* controlUnit.cycle keeps the invariant of the back end and of the front end *)
Theorem C01_mvp63_control_unit_partial : forall app labels regs0 mem0 ord,
  straight app = true -> ssa app = true -> regs_ok app = true -> length regs0 = 32%nat -> seq_ok app labels regs0 ->
  forall cy dp d xe w c f x,
    BI app labels regs0 mem0 dp d xe w (x_pend x) (x_prev x) x ->
    FrontI app 0 (d + length (x_pend x)) c f cy (x_m x) -> m_cu (x_m x) = [] -> BusOK cy (x_ebus x) ->
    exists lp, let x' := cu_cycle3 ord cy x in
      BI app labels regs0 mem0 d (d + lp) xe w (x_pend x') (x_prev x') x' /\
      FrontI app 0 (d + lp + length (x_pend x')) c f cy (x_m x') /\
      m_cu (x_m x') = [] /\ BusOK cy (x_ebus x') /\ qlen (x_ebus x') = qlen (x_ebus x) /\
      m_wbus (x_m x') = m_wbus (x_m x) /\ m_bu (x_m x') = m_bu (x_m x) /\ m_fu (x_m x') = m_fu (x_m x) /\
      m_dbus (x_m x') = m_dbus (x_m x) /\
      (flat (x_ebus x) = [] -> w = d -> x_pend x <> [] \/ bb_q (m_cbus (x_m x)) <> [] -> (0 < lp)%nat) /\
      (lp = O -> length (x_pend x') + length (bb_q (m_cbus (x_m x'))) = length (x_pend x) + length (bb_q (m_cbus (x_m x))))%nat.
Proof. exact cu_cycle_ok. Qed.
Print Assumptions C01_mvp63_control_unit_partial.

(* ssa -> os = false, for the control unit (the only place where the flag is raised on
   register-only programs): the forwarding source is unique *)
Theorem C01_mvp63_control_unit_os_clear : forall app labels regs0 mem0 ord,
  straight app = true -> ssa app = true -> regs_ok app = true -> length regs0 = 32%nat -> seq_ok app labels regs0 ->
  forall cy dp d xe w c f x,
    BI app labels regs0 mem0 dp d xe w (x_pend x) (x_prev x) x ->
    FrontI app 0 (d + length (x_pend x)) c f cy (x_m x) -> m_cu (x_m x) = [] -> BusOK cy (x_ebus x) ->
    x_os (cu_cycle3 ord cy x) = false.
Proof. exact cu_cycle_os_clear. Qed.
Print Assumptions C01_mvp63_control_unit_os_clear.

(* the head of the execute bus: its channel (if any) holds a value, registerRead returns the
   sequential operands, Runner.Run the sequential execution record *)
Theorem C01_mvp63_head_operands_partial : forall app labels regs0 mem0 (ord : Z -> Z -> list Z -> list Z),
  wf_app app -> reg_only app = true -> ssa app = true -> regs_ok app = true ->
  length regs0 = 32%nat -> Forall int32 regs0 -> nth 0 regs0 0 = 0 -> seq_ok app labels regs0 ->
  forall dp d xe w pl pv x r E',
    BI app labels regs0 mem0 dp d xe w pl pv x -> flat (x_ebus x) = r :: E' ->
    (forall ch, q_recv r = Some ch -> exists v, aget ch (x_chan x) = Some v) /\
    (forall q, In q (rds app xe) -> reg_read3 (head_fw x r) (x_crat x) (x_trat x) q = rget (sreg app labels regs0 0 xe) q) /\
    (forall q, int32 (reg_read3 (head_fw x r) (x_crat x) (x_trat x) q)) /\
    instr_Run (ik app xe) (reg_read3 (head_fw x r) (x_crat x) (x_trat x)) labels (pcz xe) [] 0 = Ok (exe app labels regs0 xe).
Proof. exact head_operands. Qed.
Print Assumptions C01_mvp63_head_operands_partial.

(* a write unit that finds a result in the queue of the write bus *)
Theorem C01_mvp63_write_unit_partial : forall app labels regs0 mem0 (ord : Z -> Z -> list Z -> list Z),
  straight app = true -> reg_only app = true -> length regs0 = 32%nat -> seq_ok app labels regs0 ->
  forall dp d xe w pl pv x wu c q',
    BI app labels regs0 mem0 dp d xe w pl pv x -> u_co wu = WNone -> bb_q (m_wbus (x_m x)) = c :: q' ->
    exists x', wu_cycle3 x wu (-1) = Ok (x', wu) /\ BI app labels regs0 mem0 dp d xe (S w) pl pv x' /\
      x_ebus x' = x_ebus x /\ x_pend x' = x_pend x /\ x_prev x' = x_prev x /\
      bb_q (m_wbus (x_m x')) = q' /\ bb_buf (m_wbus (x_m x')) = bb_buf (m_wbus (x_m x)).
Proof. exact wu_take_ok. Qed.
Print Assumptions C01_mvp63_write_unit_partial.

(* ------------------------------------------------------------------ *)
(* the refinement theorem on the class                                  *)

(* C01: MVP-6.3 computes the sequential result on single-assignment, register-only, straight-line programs,
   at every number of execute / write units, for EVERY order function (Go's map iteration), for all fuels
   from fuel_bound63 (length app) = 400 * length app + 1600 ticks on *)
Theorem C01_mvp63_refines_seq_ssa_straight : forall app labels, wf_app app ->
  straight app = true -> reg_only app = true -> ssa app = true -> regs_ok app = true ->
  forall par fuel st st' tr, (1 <= par)%nat ->
  Forall int32 (regs st) -> length (regs st) = 32%nat -> nth 0 (regs st) 0 = 0 ->
  seq_run fuel (map sinstr_of app) labels st = Done st' tr ->
  forall ord, exists c, forall fuel', (fuel_bound63 (length app) <= fuel')%nat -> mvp63_run par ord fuel' app labels st = MDone c st'.
Proof. exact mvp63_refines_seq_ssa_straight. Qed.
Print Assumptions C01_mvp63_refines_seq_ssa_straight.

(* C12: ... with the ghost flag clear on the whole run and at least ceil(executed / 2) cycles *)
Theorem C12_mvp63_run_ssa_straight : forall app labels, wf_app app ->
  straight app = true -> reg_only app = true -> ssa app = true -> regs_ok app = true ->
  forall par fuel st st' tr, (1 <= par)%nat ->
  Forall int32 (regs st) -> length (regs st) = 32%nat -> nth 0 (regs st) 0 = 0 ->
  seq_run fuel (map sinstr_of app) labels st = Done st' tr ->
  forall ord, exists c,
    (forall fuel', (fuel_bound63 (length app) <= fuel')%nat -> mvp63_run_os par ord fuel' app labels st = (MDone c st', false)) /\
    Z.of_nat (length tr) <= 2 * c.
Proof. exact mvp63_run_ssa_straight. Qed.
Print Assumptions C12_mvp63_run_ssa_straight.

Theorem C12_mvp63_ghost_clear_ssa_straight : forall app labels, wf_app app ->
  straight app = true -> reg_only app = true -> ssa app = true -> regs_ok app = true ->
  forall par fuel st st' tr, (1 <= par)%nat ->
  Forall int32 (regs st) -> length (regs st) = 32%nat -> nth 0 (regs st) 0 = 0 ->
  seq_run fuel (map sinstr_of app) labels st = Done st' tr ->
  forall ord fuel', (fuel_bound63 (length app) <= fuel')%nat -> snd (mvp63_run_os par ord fuel' app labels st) = false.
Proof. exact mvp63_ghost_clear_ssa_straight. Qed.

(* C12: determinism - whatever the iteration orders of Go's maps, Run returns the sequential state; orders that
   are iteration orders and agree on the alias-table maps give the same cycle count too *)
Theorem C12_mvp63_deterministic_ssa_straight : forall app labels, wf_app app ->
  straight app = true -> reg_only app = true -> ssa app = true -> regs_ok app = true ->
  forall par fuel st st' tr, (1 <= par)%nat ->
  Forall int32 (regs st) -> length (regs st) = 32%nat -> nth 0 (regs st) 0 = 0 ->
  seq_run fuel (map sinstr_of app) labels st = Done st' tr ->
  forall ord1 ord2 fuel', (fuel_bound63 (length app) <= fuel')%nat ->
  exists c1 c2, mvp63_run par ord1 fuel' app labels st = MDone c1 st' /\ mvp63_run par ord2 fuel' app labels st = MDone c2 st' /\
                (ords_ok3 ord1 ord2 -> c1 = c2).
Proof. exact mvp63_deterministic_ssa_straight. Qed.
Print Assumptions C12_mvp63_deterministic_ssa_straight.

(* C12: whenever the model finishes, with whatever fuel: the sequential state, ceil(executed / 2) <= cycles *)
Theorem C12_mvp63_cycles_lower_bound_ssa_straight : forall app labels, wf_app app ->
  straight app = true -> reg_only app = true -> ssa app = true -> regs_ok app = true ->
  forall par fuel st st' tr, (1 <= par)%nat ->
  Forall int32 (regs st) -> length (regs st) = 32%nat -> nth 0 (regs st) 0 = 0 ->
  seq_run fuel (map sinstr_of app) labels st = Done st' tr ->
  forall ord fuel' c st'', mvp63_run par ord fuel' app labels st = MDone c st'' ->
  st'' = st' /\ Z.of_nat (length tr) <= 2 * c /\ (Z.of_nat (length tr) + 1) / 2 <= c.
Proof. exact mvp63_cycles_lower_bound_ssa_straight. Qed.
Print Assumptions C12_mvp63_cycles_lower_bound_ssa_straight.

(* C07: termination within the bound, no panic, no error *)
Theorem C07_mvp63_terminates_ssa_straight : forall app labels, wf_app app ->
  straight app = true -> reg_only app = true -> ssa app = true -> regs_ok app = true ->
  forall par fuel st st' tr, (1 <= par)%nat ->
  Forall int32 (regs st) -> length (regs st) = 32%nat -> nth 0 (regs st) 0 = 0 ->
  seq_run fuel (map sinstr_of app) labels st = Done st' tr ->
  forall ord, exists c, mvp63_run par ord (fuel_bound63 (length app)) app labels st = MDone c st' /\ (Z.of_nat (length tr) + 1) / 2 <= c.
Proof. exact mvp63_terminates_ssa_straight. Qed.
Print Assumptions C07_mvp63_terminates_ssa_straight.

Theorem C07_mvp63_no_panic_ssa_straight : forall app labels, wf_app app ->
  straight app = true -> reg_only app = true -> ssa app = true -> regs_ok app = true ->
  forall par fuel st st' tr, (1 <= par)%nat ->
  Forall int32 (regs st) -> length (regs st) = 32%nat -> nth 0 (regs st) 0 = 0 ->
  seq_run fuel (map sinstr_of app) labels st = Done st' tr ->
  forall ord fuel', (fuel_bound63 (length app) <= fuel')%nat ->
  mvp63_run par ord fuel' app labels st <> MPanic /\ mvp63_run par ord fuel' app labels st <> MOutOfFuel /\
  (forall e, mvp63_run par ord fuel' app labels st <> MErr e).
Proof. exact mvp63_no_panic_ssa_straight. Qed.
Print Assumptions C07_mvp63_no_panic_ssa_straight.

(* non-vacuity of the theorem itself: the 14-instruction example at ANY number of units, for ANY order function *)
Theorem C01_mvp63_example_any : forall par ord, (1 <= par)%nat ->
  exists c st', seq_run 100 (map sinstr_of (map instr_of ex63_prog)) no_labels zero32 = Done st' (rev (map (fun k => 4 * Z.of_nat k) (seq 0 14))) /\
    (forall fuel, (fuel_bound63 14 <= fuel)%nat -> mvp63_run_os par ord fuel (map instr_of ex63_prog) no_labels zero32 = (MDone c st', false)) /\
    rget (regs st') 18 = 251 /\ 7 <= c.
Proof. exact mvp63_ssa_example_any. Qed.
Print Assumptions C01_mvp63_example_any.

(* the steps of the proof, at machine level: executeUnit.Cycle on the head of the execute bus, the loops over the
   units, one tick of Run in the main loop and in the drain loop after ret *)
Theorem C01_mvp63_execute_unit : forall app labels regs0 mem0 ord,
  wf_app app -> straight app = true -> reg_only app = true -> ssa app = true -> regs_ok app = true ->
  length regs0 = 32%nat -> Forall int32 regs0 -> nth 0 regs0 0 = 0 -> seq_ok app labels regs0 ->
  forall cy dp d xe w pl pv x e r q',
    BI app labels regs0 mem0 dp d xe w pl pv x -> bb_q (x_ebus x) = r :: q' -> EuIdle e -> g_seq e = 0 ->
    bb_canadd (m_wbus (x_m x)) = true ->
    eu_cycle3 labels ord cy x e =
      (false, Ok (exec_head app labels regs0 x cy r xe, mk_eu3 ENone [] (Some (recvd r)) 0, out_of app xe)) /\
    ((forall p, In p pv -> (xe < kq p)%nat) -> is_ret (ik app xe) = false ->
     BI app labels regs0 mem0 dp d (S xe) w pl pv (exec_head app labels regs0 x cy r xe)).
Proof.
  intros app labels regs0 mem0 ord H1 H2 H3 H4 H5 H6 H7 H8 H9 cy dp d xe w pl pv x e r q' HB Hq He Hs Hc. split.
  - exact (eu_head_eq app labels regs0 mem0 ord H1 H2 H3 H4 H5 H6 H7 H8 H9 cy dp d xe w pl pv x e r q' HB Hq He Hs Hc).
  - intros Hp Hr. exact (proj1 (BI_exec_head app labels regs0 mem0 ord H1 H2 H3 H4 H5 H6 H7 H8 H9 cy dp d xe w pl pv x r q' HB Hq Hp) Hr).
Qed.
Print Assumptions C01_mvp63_execute_unit.

Theorem C01_mvp63_tick_main_loop : forall app labels regs0 mem0 ord,
  wf_app app -> straight app = true -> reg_only app = true -> ssa app = true -> regs_ok app = true ->
  length regs0 = 32%nat -> Forall int32 regs0 -> nth 0 regs0 0 = 0 -> seq_ok app labels regs0 ->
  forall dp d c f xe w s, G3 app labels regs0 mem0 dp d c f xe w s ->
    (exists s' dp' d' c' f' xe' w', step3 app labels ord s = TCont s' /\ G3 app labels regs0 mem0 dp' d' c' f' xe' w' s' /\ phi3 app s' < phi3 app s) \/
    (exists r, step3 app labels ord s = TDone r false /\ Fin3 app labels regs0 mem0 r) \/
    (exists s' w', step3 app labels ord s = TCont s' /\ GR3 app labels regs0 mem0 w' s').
Proof. exact step_normal3. Qed.
Print Assumptions C01_mvp63_tick_main_loop.

(* EVIDENCE ONLY (one program, vm_compute) for the extension that is not proved: a single-assignment program with a
   not-taken and a taken forward branch and a forward jump gives the sequential result at 1..4 units, both orders,
   ghost flag clear *)
Theorem C01_mvp63_forward_example :
  let app := map instr_of fwd63_prog in
  straight app = false /\ reg_only app = true /\ ssa app = true /\ regs_ok app = true /\ Mvp60RefProofs.fwd_ok app fwd63_labels = true /\
  exists st' tr,
    seq_run 100 (map sinstr_of app) fwd63_labels zero32 = Done st' tr /\ length tr = 9%nat /\
    map (fun k => nth k (regs st') 0) [7; 8; 9; 10; 11]%nat = [4; 0; 9; 0; 11] /\
    map (fun par => (mvp63_run_os par ord_asc 5000 app fwd63_labels zero32, mvp63_run_os par ord_desc 5000 app fwd63_labels zero32))
        [1%nat; 2%nat; 3%nat; 4%nat]
    = [((MDone 335 st', false), (MDone 335 st', false)); ((MDone 333 st', false), (MDone 333 st', false));
       ((MDone 333 st', false), (MDone 333 st', false)); ((MDone 333 st', false), (MDone 333 st', false))].
Proof. exact mvp63_forward_ssa_example. Qed.
Print Assumptions C01_mvp63_forward_example.

(* non-vacuity: 14 instructions, chained RAW dependences, single assignment; 1..4 units, both
   orders: sequential registers, ghost flag clear, ceil(14/2) <= cycles *)
Theorem C01_mvp63_example :
  let app := map instr_of ex63_prog in
  straight app = true /\ reg_only app = true /\ ssa app = true /\ regs_ok app = true /\
  exists st' tr,
    seq_run 100 (map sinstr_of app) no_labels zero32 = Done st' tr /\ length tr = 14%nat /\
    mvp63_run_os 1 ord_asc 3000 app no_labels zero32 = (MDone 333 st', false) /\
    mvp63_run_os 2 ord_asc 3000 app no_labels zero32 = (MDone 332 st', false) /\
    mvp63_run_os 3 ord_asc 3000 app no_labels zero32 = (MDone 332 st', false) /\
    mvp63_run_os 4 ord_asc 3000 app no_labels zero32 = (MDone 332 st', false) /\
    mvp63_run_os 3 ord_desc 3000 app no_labels zero32 = (MDone 332 st', false) /\
    rget (regs st') 9 = 63 /\ rget (regs st') 13 = 57 /\ rget (regs st') 18 = 251 /\ (14 + 1) / 2 <= 332.
Proof. exact mvp63_ssa_example. Qed.
Print Assumptions C01_mvp63_example.

Theorem C01_mvp63_example_all_orders : forall ord, ords_ok3 ord_asc ord ->
  exists st', mvp63_run_os 3 ord 3000 (map instr_of ex63_prog) no_labels zero32 = (MDone 332 st', false) /\
              rget (regs st') 18 = 251.
Proof. exact mvp63_ssa_example_all_orders. Qed.
Print Assumptions C01_mvp63_example_all_orders.

(* FINDING (class boundary): the smallest register-only straight-line program outside the class,
   li a5,2 ; li a5,92 ; addi t0,a5,1 (a5 written twice): STALE FORWARDING - the addi is forwarded from
   the first li (dispatched in the previous cycle) although the second li was dispatched just before it
   in the same cycle: t0 = 3 instead of 93 at every number of units, for both iteration orders, ghost
   flag clear (not the map-order ambiguity) *)
Theorem C01_mvp63_non_ssa_regonly_refuted :
  straight waw3_prog = true /\ reg_only waw3_prog = true /\ regs_ok waw3_prog = true /\ ssa waw3_prog = false /\
  exists st' tr,
    seq_run 10 (map sinstr_of waw3_prog) no_labels (st_of [] []) = Done st' tr /\ nth 5 (regs st') 0 = 93 /\
    map (fun par => (reg_of (mvp63_run par ord_asc 3000 waw3_prog no_labels (st_of [] [])) 5,
                     reg_of (mvp63_run par ord_desc 3000 waw3_prog no_labels (st_of [] [])) 5)) [1%nat; 2%nat; 3%nat; 4%nat]
    = [(Some 3, Some 3); (Some 3, Some 3); (Some 3, Some 3); (Some 3, Some 3)] /\
    snd (mvp63_run_os 1 ord_asc 3000 waw3_prog no_labels (st_of [] [])) = false.
Proof. exact mvp63_non_ssa_regonly_refuted. Qed.
Print Assumptions C01_mvp63_non_ssa_regonly_refuted.

(* ... and with a nop in front the result depends on Go's map order (3 or 93) at every number of units *)
Theorem C01_mvp63_non_ssa_order_dependent :
  ssa fwd_prog = false /\
  map (fun par => (reg_of (mvp63_run par ord_asc 3000 fwd_prog no_labels (st_of [] [])) 5,
                   reg_of (mvp63_run par ord_desc 3000 fwd_prog no_labels (st_of [] [])) 5)) [1%nat; 2%nat; 3%nat; 4%nat]
  = [(Some 3, Some 93); (Some 3, Some 93); (Some 3, Some 93); (Some 3, Some 93)].
Proof. exact mvp63_non_ssa_order_dependent. Qed.

(* why the hypotheses on the initial registers *)
Theorem C01_mvp63_x0_nonzero_refuted :
  let p := [SLi 5 1; SAdd 6 5 0] in
  let st := mk_arch (7 :: repeat 0 31) (repeat 0 64) in
  ssa (map instr_of p) = true /\ regs_ok (map instr_of p) = true /\
  exists st' tr c st6,
    seq_run 10 p no_labels st = Done st' tr /\ mvp63_run 1 ord_asc 3000 (map instr_of p) no_labels st = MDone c st6 /\
    nth 6 (regs st') 0 = 1 /\ nth 6 (regs st6) 0 = 8.
Proof. exact mvp63_x0_nonzero_refuted. Qed.

Theorem C01_mvp63_x0_write_refuted :
  let p := [SAddi 0 0 5] in
  let st := mk_arch (7 :: repeat 0 31) (repeat 0 64) in
  exists st' tr c st6,
    seq_run 10 p no_labels st = Done st' tr /\ mvp63_run 1 ord_asc 3000 (map instr_of p) no_labels st = MDone c st6 /\
    nth 0 (regs st') 0 = 7 /\ nth 0 (regs st6) 0 = 0.
Proof. exact mvp63_x0_write_refuted. Qed.

Theorem C01_mvp63_short_regfile_refuted :
  let p := [SLi 7 3; SNop; SNop; SNop; SNop; SAddi 2 7 1] in
  let st := mk_arch (repeat 0 5) (repeat 0 64) in
  ssa (map instr_of p) = true /\
  exists st' tr c st6,
    seq_run 10 p no_labels st = Done st' tr /\ mvp63_run 1 ord_asc 3000 (map instr_of p) no_labels st = MDone c st6 /\
    nth 2 (regs st') 0 = 1 /\ nth 2 (regs st6) 0 = 4.
Proof. exact mvp63_short_regfile_refuted. Qed.
Print Assumptions C01_mvp63_short_regfile_refuted.
