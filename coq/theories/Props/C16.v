(* C16 - Word encoding is a little-endian bijection on all 32-bit values.
   Property theorems only; the model is theories/Gen/BytesGo.v, regenerated
   from /repo/common/bytes/bytes.go on every run. *)
From Coq Require Import ZArith List.
From Maj Require Import Base.Outcome Base.GoInt Gen.BytesGo Bytes.Proofs.
Open Scope Z_scope.

(* splitting a 32-bit value and reassembling returns it, for every int32 *)
Theorem C16_split_join : forall n, int32 n ->
  ('(b0, b1, b2, b3) <- BytesFromLowBits n ;; I32FromBytes b0 b1 b2 b3) = Ok n.
Proof. exact split_join. Qed.
Print Assumptions C16_split_join.

(* reassembling any four bytes and splitting returns the same bytes *)
Theorem C16_join_split : forall b0 b1 b2 b3, int8 b0 -> int8 b1 -> int8 b2 -> int8 b3 ->
  (w <- I32FromBytes b0 b1 b2 b3 ;; BytesFromLowBits w) = Ok (b0, b1, b2, b3).
Proof. exact join_split. Qed.
Print Assumptions C16_join_split.

(* byte k holds bits 8k .. 8k+7 (bit j >= 7 of the signed byte repeats bit 8k+7) *)
Theorem C16_little_endian : forall n k j, int32 n -> 0 <= k < 4 -> 0 <= j ->
  exists b0 b1 b2 b3, BytesFromLowBits n = Ok (b0, b1, b2, b3) /\
    Z.testbit (if k =? 0 then b0 else if k =? 1 then b1 else if k =? 2 then b2 else b3) j
    = Z.testbit n (8 * k + Z.min j 7).
Proof. exact little_endian. Qed.
Print Assumptions C16_little_endian.

(* no panic, no error, results in range *)
Theorem C16_total : forall n b0 b1 b2 b3, int32 n -> int8 b0 -> int8 b1 -> int8 b2 -> int8 b3 ->
  is_ok (BytesFromLowBits n) = true /\ is_ok (I32FromBytes b0 b1 b2 b3) = true.
Proof. exact bytes_total. Qed.
Print Assumptions C16_total.

Theorem C16_ranges : forall n b0 b1 b2 b3, int32 n -> int8 b0 -> int8 b1 -> int8 b2 -> int8 b3 ->
  (forall a b c d, BytesFromLowBits n = Ok (a, b, c, d) -> int8 a /\ int8 b /\ int8 c /\ int8 d) /\
  (forall w, I32FromBytes b0 b1 b2 b3 = Ok w -> int32 w).
Proof. exact bytes_ranges. Qed.
Print Assumptions C16_ranges.

(* non-vacuity: a concrete non-trivial instance, evaluated by the kernel *)
Example C16_example :
  BytesFromLowBits (-2023406815) = Ok (33, 67, 101, -121) /\
  I32FromBytes 33 67 101 (-121) = Ok (-2023406815).
Proof. split; vm_compute; reflexivity. Qed.
