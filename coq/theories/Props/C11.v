(* C11 - The assembler front end is total and resolves labels to the right instruction.
   Property theorems only.  The model is theories/Parser/Model.v (risc.Parse, validateArgs,
   parseRegister, parseOffsetReg of risc/parser.go; hand-written, every Go index / slice
   expression a checked operation that yields Panic where Go would panic), tied to the code by
   the correspondence check of lib/vf/c11.py.  Texts are byte strings (list Z); b "..." is
   the byte string of a literal.  All statements quantify over ALL texts / programs /
   decorations of the stated class, without a bound on their size.

   Vocabulary (Parser/Printer.v, Parser/Proofs.v): lines s = s split at '\n';
   line_class = blank-or-comment / label definition / instruction line, decided on the
   trimmed line without running the parser; count_instr = number of instruction lines;
   last_def_lines n ls = number of instruction lines before the LAST line defining label n;
   print = canonical text of a program (items = label definitions and instructions);
   assemble = the reference assembler (instructions in order, label -> 4 * index of the next
   instruction, a later definition replaces an earlier one); decorate ds tail p = p with
   blank lines, comment lines, indentation, trailing white space, a trailing comment after
   a label definition or an instruction (with or without white space in front of the '#',
   so also glued to the ':', to a bare mnemonic or to the last operand) and upper-case
   mnemonic letters, as the decoration (ds, tail) says. *)
From Coq Require Import ZArith List Bool String.
From Maj Require Import Base.Outcome Base.GoInt Parser.Model Parser.Printer Parser.Proofs.
Import ListNotations.
Open Scope string_scope.
Open Scope list_scope.
Open Scope Z_scope.

(* ---------------- parsing never crashes ---------------- *)

(* any text (arbitrary bytes) yields a program or an error: no index or slice expression
   of Parse / parseOffsetReg is ever out of range *)
Theorem C11_parse_total : forall s, parse s <> Panic.
Proof. exact parse_total. Qed.
Print Assumptions C11_parse_total.

(* ---------------- accepted text ---------------- *)

Theorem C11_instr_count : forall s is labs,
  parse s = Ok (is, labs) -> blen is = count_instr (lines s).
Proof. exact instr_count. Qed.
Print Assumptions C11_instr_count.

(* int32 arithmetic, as the implementation's pc *)
Theorem C11_label_address : forall s is labs,
  parse s = Ok (is, labs) ->
  forall n, lookup_label labs n = option_map (fun k => wrapS 32 (4 * k)) (last_def_lines n (lines s)).
Proof. exact label_address. Qed.
Print Assumptions C11_label_address.

(* exactly four times the index of the next instruction, for every text below 512 MiB *)
Theorem C11_label_address_exact : forall s is labs,
  parse s = Ok (is, labs) -> blen s < 536870912 ->
  forall n, lookup_label labs n = option_map (fun k => 4 * k) (last_def_lines n (lines s)).
Proof. exact label_address_exact. Qed.
Print Assumptions C11_label_address_exact.

(* what last_def_lines is: the last defining line, and the instruction lines before it *)
Theorem C11_last_definition : forall n ls k,
  last_def_lines n ls = Some k <->
  exists pre l post, ls = pre ++ l :: post /\ line_class l = CLabel n /\
                     (forall l', In l' post -> line_class l' <> CLabel n) /\ k = count_instr pre.
Proof. exact last_def_lines_spec. Qed.
Print Assumptions C11_last_definition.

(* ---------------- operands: registers by name, decimal immediates ---------------- *)

Theorem C11_roundtrip : forall p, wf_program p -> parse (print p) = Ok (assemble p).
Proof. exact roundtrip. Qed.
Print Assumptions C11_roundtrip.

Theorem C11_assemble_instrs : forall p, fst (assemble p) = instrs_of p.
Proof. exact assemble_instrs. Qed.
Print Assumptions C11_assemble_instrs.

Theorem C11_assemble_labels : forall p n,
  lookup_label (snd (assemble p)) n = option_map (fun k => wrapS 32 (4 * k)) (last_def n p).
Proof. exact assemble_labels. Qed.
Print Assumptions C11_assemble_labels.

Theorem C11_register_table_injective : forall a c r,
  parse_register a = Some r -> parse_register c = Some r -> a = c \/ a = 36 :: c \/ c = 36 :: a.
Proof. exact register_table_injective. Qed.
Print Assumptions C11_register_table_injective.

Theorem C11_register_table_complete : forall r, 0 <= r < 32 ->
  parse_register (reg_name r) = Some r /\ parse_register (36 :: reg_name r) = Some r.
Proof. exact register_table_complete. Qed.
Print Assumptions C11_register_table_complete.

Theorem C11_register_numbers_distinct : forall a c ra rc,
  parse_register a = Some ra -> parse_register c = Some rc ->
  a <> c -> a <> 36 :: c -> c <> 36 :: a -> ra <> rc.
Proof. exact register_numbers_distinct. Qed.
Print Assumptions C11_register_numbers_distinct.

(* ---------------- decorations do not change the result ---------------- *)

Theorem C11_decoration_invariant : forall p ds tail,
  wf_program p -> Forall wf_ideco ds -> Forall wf_junk tail ->
  parse (decorate ds tail p) = parse (print p).
Proof. exact decoration_invariant. Qed.
Print Assumptions C11_decoration_invariant.

(* the hypotheses are satisfiable by a non-trivial program and decoration *)
Theorem C11_hypotheses_satisfiable :
  wf_program ex_program /\ Forall wf_ideco ex_decos /\ Forall wf_junk ex_tail /\
  decorate ex_decos ex_tail ex_program <> print ex_program.
Proof. exact (conj ex_program_wf (conj (proj1 ex_deco_wf) (conj (proj2 ex_deco_wf) ex_decorated_differs))). Qed.
Print Assumptions C11_hypotheses_satisfiable.

(* comments directly after a label definition or a mnemonic: instances of the theorem above,
   pinned because they were false before the parser was repaired *)
Theorem C11_label_trailing_comment :
  parse (b "foo: # c") = Ok ([], [(b "foo", 0)]) /\ parse (b "foo:#c") = parse (b "foo:").
Proof. exact label_trailing_comment. Qed.
Print Assumptions C11_label_trailing_comment.

Theorem C11_attached_comment :
  parse (b "ret#done") = Ok ([PI Mret []], []) /\ parse (b "ret #done") = Ok ([PI Mret []], []) /\
  parse (b "ret" ++ 9 :: b "#done") = Ok ([PI Mret []], []) /\
  parse (b "add t0, t1, t2#done") = Ok ([PI Madd [VReg 5; VReg 6; VReg 7]], []).
Proof. exact attached_comment. Qed.
Print Assumptions C11_attached_comment.

Theorem C11_attached_comment_is_not_a_label :
  parse (b "nop#x:") = Ok ([PI Mnop []], []).
Proof. exact attached_comment_is_not_a_label. Qed.
Print Assumptions C11_attached_comment_is_not_a_label.

(* ---------------- what is false of the code (witnesses) ---------------- *)

(* a TAB after the mnemonic is not a separator *)
Theorem C11_tab_separator_refuted :
  parse (b "add t0,t1,t2") = Ok ([PI Madd [VReg 5; VReg 6; VReg 7]], []) /\
  parse (b "add" ++ 9 :: b "t0,t1,t2") = Err EOther.
Proof. exact tab_separator_refuted. Qed.
Print Assumptions C11_tab_separator_refuted.

Theorem C11_label_with_space_refuted : parse (b "my label:") = Err EOther.
Proof. exact label_with_space_refuted. Qed.
Print Assumptions C11_label_with_space_refuted.

(* nop and ret accept and ignore any operands *)
Theorem C11_nop_ret_operands_unchecked_refuted :
  parse (b "nop t0, 5, x") = Ok ([PI Mnop []], []) /\ parse (b "ret 1,2,3,4") = Ok ([PI Mret []], []).
Proof. exact nop_ret_operands_unchecked_refuted. Qed.
Print Assumptions C11_nop_ret_operands_unchecked_refuted.

Theorem C11_sh_syntax_refuted :
  parse (b "sh t0, 4(t1)") = Err EOther /\
  parse (b "sh t0, 4, t1") = Ok ([PI Msh [VReg 5; VImm 4; VReg 6]], []) /\
  parse (b "sb t0, 4(t1)") = Ok ([PI Msb [VReg 5; VMem 4 6]], []).
Proof. exact sh_syntax_refuted. Qed.
Print Assumptions C11_sh_syntax_refuted.
