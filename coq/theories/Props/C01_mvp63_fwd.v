(* C01 for MVP-6.3 (proc/mvp6-3) on SINGLE-ASSIGNMENT, register-only programs with FORWARD control flow: conditional
   branches, j, jal to defined aligned labels strictly ahead (class fwd_ok of Mvp/Mvp60RefProofs.v: no div / rem / jalr),
   arbitrary register-writing shadows, ret anywhere.  Property theorems only; proofs in Mvp/Mvp63RefFwdDefs.v (definitions),
   Mvp63RefFwdRat.v (alias tables across TransactionRATWrite / RATCommit / RATRollback / RATFlush), Mvp63RefFwdFront.v
   (fetch / decode with sequence ids), Mvp63RefFwdInv.v (control unit: pendingConditionalBranch, pushedBranchInCurrentCycle),
   Mvp63RefFwdExec.v / Mvp63RefFwdStep.v (execute units incl. the taken branch, the jump and the shadow; one tick of the
   main loop), Mvp63RefFwdFlush.v (the two flush loops), Mvp63RefFwdProofs.v / Mvp63RefFwdThm.v (segments, theorem), about
   the cycle-level model Mvp/Mvp63.v.

   The class:  reg_only app, fwd_ok app labels,
     ssa app       (about the TEXT) every register but x0 is written by at most one instruction of the text and no
                   instruction reads a register that a textually LATER instruction writes; with forward-only control flow
                   every instruction executes at most once, so a skipped shadow simply never writes its register;
     regs_ok app   register numbers 0 .. 31;
     seq_ids_fit3  2004 * (length app + 1) < 2^31: the tags pc + 1000 * ctx.sequenceID (int32) never wrap
                   (ctx.sequenceID grows by at most two per segment);
   initial state: 32 int32 registers, x0 = 0. *)
From Coq Require Import ZArith List Bool Lia.
From Maj Require Import Base.Outcome Base.GoInt Base.GoTypes Isa.Spec Isa.Seq Isa.Refine Gen.Opcodes Comp.Rat.
From Maj Require Import Mvp.Mvp12 Mvp.Mvp12Proofs Mvp.Mvp4Skel Mvp.Mvp60 Mvp.Mvp60RefSem Mvp.Mvp60RefDefs Mvp.Mvp60RefBack Mvp.Mvp60RefStep
     Mvp.Mvp60RefProofs Mvp.Mvp63 Mvp.Mvp63Proofs Mvp.Mvp63RefDefs Mvp.Mvp63RefInv Mvp.Mvp63RefExec Mvp.Mvp63RefStep Mvp.Mvp63RefProofs
     Mvp.Mvp63RefFwdDefs Mvp.Mvp63RefFwdRat Mvp.Mvp63RefFwdFront Mvp.Mvp63RefFwdInv Mvp.Mvp63RefFwdFlush Mvp.Mvp63RefFwdProofs
     Mvp.Mvp63RefFwdThm.
Import ListNotations.
Open Scope Z_scope.

(* THE THEOREM: for every number of units, EVERY order function (Go's map iteration orders), all fuels from
   fuel_bound63_fwd (length app) = (n + 1) (400 n + 1608) ticks on, Run returns the sequential registers and memory,
   without error or panic, and the ghost flag is clear *)
Theorem C01_mvp63_refines_seq_ssa_forward : forall app labels,
  wf_app app -> reg_only app = true -> ssa app = true -> regs_ok app = true -> fwd_ok app labels = true -> seq_ids_fit3 app ->
  forall par ord fuel st st' tr, (1 <= par)%nat ->
    Forall int32 (regs st) -> length (regs st) = 32%nat -> nth 0 (regs st) 0 = 0 ->
    seq_run fuel (map sinstr_of app) labels st = Done st' tr ->
    exists c, forall fuel', (fuel_bound63_fwd (length app) <= fuel')%nat ->
      mvp63_run_os par ord fuel' app labels st = (MDone c st', false).
Proof. exact mvp63_refines_seq_ssa_forward. Qed.
Print Assumptions C01_mvp63_refines_seq_ssa_forward.

Theorem C01_mvp63_no_panic_ssa_forward : forall app labels,
  wf_app app -> reg_only app = true -> ssa app = true -> regs_ok app = true -> fwd_ok app labels = true -> seq_ids_fit3 app ->
  forall par ord fuel st st' tr, (1 <= par)%nat ->
    Forall int32 (regs st) -> length (regs st) = 32%nat -> nth 0 (regs st) 0 = 0 ->
    seq_run fuel (map sinstr_of app) labels st = Done st' tr ->
    forall fuel', (fuel_bound63_fwd (length app) <= fuel')%nat ->
      mvp63_run par ord fuel' app labels st <> MPanic /\ mvp63_run par ord fuel' app labels st <> MOutOfFuel /\
      (forall e, mvp63_run par ord fuel' app labels st <> MErr e) /\ snd (mvp63_run_os par ord fuel' app labels st) = false.
Proof. exact mvp63_no_panic_ssa_forward. Qed.
Print Assumptions C01_mvp63_no_panic_ssa_forward.

(* a program of the class: li x5,1 ; li x6,2 ; beq x5,x6,L1 (NOT TAKEN) ; addi x7,x5,3 ; bne x5,x6,L2 (TAKEN, forward) ;
   addi x8,x7,1 (its register-writing SHADOW, squashed) ; L1/L2: addi x9,x7,5 ; j L3 (forward JUMP) ; addi x10,x9,1 (skipped) ;
   L3: addi x11,x9,2 ; ret   - it satisfies every hypothesis, and the model run at three units agrees *)
Example C01_mvp63_forward_example :
  let app := map instr_of fwd63_prog in
  wf_app app /\ reg_only app = true /\ ssa app = true /\ regs_ok app = true /\ fwd_ok app fwd63_labels = true /\ seq_ids_fit3 app /\
  straight app = false /\
  exists st' tr,
    seq_run 100 (map sinstr_of app) fwd63_labels zero32 = Done st' tr /\ length tr = 9%nat /\
    map (fun k => nth k (regs st') 0) [7; 8; 9; 10; 11]%nat = [4; 0; 9; 0; 11] /\
    mvp63_run_os 3 ord_asc 5000 app fwd63_labels zero32 = (MDone 333 st', false) /\
    mvp63_run_os 3 ord_desc 5000 app fwd63_labels zero32 = (MDone 333 st', false).
Proof.
  cbv zeta. split.
  { split; [|vm_compute; reflexivity]. unfold fwd63_prog; cbn [map]; repeat constructor; vm_compute; discriminate. }
  split; [vm_compute; reflexivity|]. split; [vm_compute; reflexivity|]. split; [vm_compute; reflexivity|].
  split; [vm_compute; reflexivity|]. split; [vm_compute; reflexivity|]. split; [vm_compute; reflexivity|].
  do 2 eexists. split; [vm_compute; reflexivity|]. split; [vm_compute; reflexivity|]. split; [vm_compute; reflexivity|].
  split; vm_compute; reflexivity.
Qed.

(* ... and, as an instance of the theorem, at EVERY number of units and for EVERY order function *)
Corollary C01_mvp63_forward_example_any : forall par ord, (1 <= par)%nat ->
  exists c st', seq_run 100 (map sinstr_of (map instr_of fwd63_prog)) fwd63_labels zero32 = Done st' (rev [0; 4; 8; 12; 16; 24; 28; 36; 40]) /\
    (forall fuel, (fuel_bound63_fwd 11 <= fuel)%nat -> mvp63_run_os par ord fuel (map instr_of fwd63_prog) fwd63_labels zero32 = (MDone c st', false)) /\
    map (fun k => nth k (regs st') 0) [7; 8; 9; 10; 11]%nat = [4; 0; 9; 0; 11].
Proof.
  intros par ord Hpar. destruct C01_mvp63_forward_example as (H1 & H2 & H3 & H4 & H5 & H6 & _).
  assert (Hseq : exists st', seq_run 100 (map sinstr_of (map instr_of fwd63_prog)) fwd63_labels zero32 = Done st' (rev [0; 4; 8; 12; 16; 24; 28; 36; 40]) /\
                             map (fun k => nth k (regs st') 0) [7; 8; 9; 10; 11]%nat = [4; 0; 9; 0; 11]).
  { eexists. split; vm_compute; reflexivity. }
  destruct Hseq as (st' & Hs & Hv).
  assert (H7 : Forall int32 (regs zero32)) by (unfold zero32; cbn [regs repeat]; repeat constructor; vm_compute; discriminate).
  destruct (C01_mvp63_refines_seq_ssa_forward _ _ H1 H2 H3 H4 H5 H6 par ord 100%nat zero32 st' _ Hpar H7 eq_refl eq_refl Hs) as (c & Hc).
  exists c, st'. split; [exact Hs|]. split; [exact Hc | exact Hv].
Qed.
Print Assumptions C01_mvp63_forward_example_any.

(* ------------------------------------------------------------------ *)
(* the parts                                                            *)

(* controlUnit.cycle with branches: a second branch is not dispatched in the same cycle, ret waits for an empty execute
   bus and no pending conditional branch, a marked forwarder is never a branch *)
Theorem C01_mvp63_control_unit_fwd_partial : forall app labels regs0 mem0 base sq ord,
  ssa app = true -> regs_ok app = true -> length regs0 = 32%nat -> (base <= length app)%nat ->
  (forall k, (base <= k <= stop_from app base)%nat -> (k < length app)%nat ->
     exec (sinstr_of (ik app k)) (rget (sreg app labels regs0 base k)) labels (pcz k) [] = Ok (eff app labels regs0 base k) /\
     (forall a, etarget (eff app labels regs0 base k) = Some a -> exists t, a = pcz t /\ (k < t <= length app)%nat)) ->
  forall cy dp d xe w c f x,
    BIq app labels regs0 mem0 base sq dp d xe w (x_pend x) (x_prev x) x ->
    FrontI app base (d + length (x_pend x)) c f cy (untag_m (x_m x)) -> TagOK sq (m_cbus (x_m x)) ->
    m_cu (x_m x) = [] -> BusOK cy (x_ebus x) ->
    exists lp, let x' := cu_cycle3 ord cy x in
      BIq app labels regs0 mem0 base sq d (d + lp) xe w (x_pend x') (x_prev x') x' /\
      FrontI app base (d + lp + length (x_pend x')) c f cy (untag_m (x_m x')) /\ TagOK sq (m_cbus (x_m x')) /\
      m_cu (x_m x') = [] /\ BusOK cy (x_ebus x') /\ qlen (x_ebus x') = qlen (x_ebus x) /\
      m_wbus (x_m x') = m_wbus (x_m x) /\ m_bu (x_m x') = m_bu (x_m x) /\ m_fu (x_m x') = m_fu (x_m x) /\
      m_dbus (x_m x') = m_dbus (x_m x) /\ m_l1i (x_m x') = m_l1i (x_m x) /\
      (flat (x_ebus x) = [] -> w = d -> x_pend x <> [] \/ bb_q (m_cbus (x_m x)) <> [] -> (0 < lp)%nat) /\
      (lp = O -> length (x_pend x') + length (bb_q (m_cbus (x_m x'))) = length (x_pend x) + length (bb_q (m_cbus (x_m x))))%nat.
Proof. exact cu_cycle_okq. Qed.
Print Assumptions C01_mvp63_control_unit_fwd_partial.

(* RATCommit (not-taken branch) and RATRollback (taken branch with tag T, every entry of transactionRAT being older)
   keep what registerRead sees: the sequential register file after w write-backs *)
Theorem C01_mvp63_rat_commit_rollback_partial : forall app labels regs0 base sq ord w crat trat cy,
  length regs0 = 32%nat ->
  TabOK app labels regs0 base sq w crat trat ->
  TabOK app labels regs0 base sq w (commit_vals ord cy crat (rat_values tu0 trat)) (rat_new ratLength) /\
  (forall T, sid3 sq w <= T ->
     TabOK app labels regs0 base sq w (commit_vals ord cy crat (rat_findvalues tu0 trat (fun u => fst u <? T))) (rat_new ratLength)).
Proof.
  intros app labels regs0 base sq ord w crat trat cy Hlen H. split.
  - exact (tab_commit app labels regs0 base Hlen sq ord w crat trat cy H).
  - intros T HT. exact (tab_rollback app labels regs0 base Hlen sq ord w crat trat cy T H HT).
Qed.
Print Assumptions C01_mvp63_rat_commit_rollback_partial.

(* the two flush loops (execute units, then write units dropping the wrong path) and CPU.flush: from the tick in which a
   jump / taken branch E executed to a fresh pipeline at its target, the alias tables showing the registers after E *)
Theorem C01_mvp63_flush_loops_partial : forall app labels regs0 mem0 base sq ord,
  reg_only app = true -> regs_ok app = true -> length regs0 = 32%nat -> nth 0 regs0 0 = 0 -> (base <= length app)%nat -> 0 <= sq ->
  (forall k, (base <= k <= stop_from app base)%nat -> (k < length app)%nat ->
     exec (sinstr_of (ik app k)) (rget (sreg app labels regs0 base k)) labels (pcz k) [] = Ok (eff app labels regs0 base k) /\
     (forall a, etarget (eff app labels regs0 base k) = Some a -> exists t, a = pcz t /\ (k < t <= length app)%nat)) ->
  forall w E t sqx s, sqx < 2147483647 -> GF3 app labels regs0 mem0 base sq w E t sqx s ->
  exists k s', (1 <= k <= 8)%nat /\
    (forall extra, run3_st (k + extra) app labels ord s = run3_st extra app labels ord s') /\
    Fresh3 app labels mem0 t (sqx + 1) (sreg app labels regs0 base (S E)) s'.
Proof. exact flush_run. Qed.
Print Assumptions C01_mvp63_flush_loops_partial.
