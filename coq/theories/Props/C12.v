(* C12 - Cycle accounting follows the documented latency model.
   Property theorems only.  Models: Mvp/Mvp12.v (hand-written, faithful to
   proc/mvp1/cpu.go and proc/mvp2/cpu.go, tied to the code by an exact
   (cycles, registers, memory) correspondence on every run) over the generated
   instruction model, latency table and Cycles function. *)
From Coq Require Import ZArith List.
From Maj Require Import Base.Outcome Base.GoInt Isa.Spec Isa.Seq Isa.Refine.
From Maj Require Import Gen.Latency Gen.RiscTables Gen.Opcodes Mvp.Mvp12 Mvp.Mvp12Proofs.
Import ListNotations.
Open Scope Z_scope.

(* MVP-1: on every run of every well-formed program from every initial state,
   the returned count is the sum, over the executed instructions in order, of
   fetch (MemoryAccess) + decode + optional memory read + execute + write-back
   (rest_cost = cost1 - MemoryAccess), and it is at least the number of executed
   instructions (hence positive whenever something was executed) *)
Theorem C12_mvp1_cycles_exact :
  forall app labels, wf_app app -> wf_labels labels ->
  forall fuel st st' tr, inv (regs st) (mem st) ->
  seq_run fuel (map sinstr_of app) labels st = Done st' tr ->
  exists c, mvp12_run V1 fuel app labels st = MDone c st' /\
            c = fold_right (fun pc acc => MemoryAccess + rest_cost app pc + acc) 0 (rev tr) /\
            Z.of_nat (length tr) <= c.
Proof. exact mvp1_cycles_exact. Qed.
Print Assumptions C12_mvp1_cycles_exact.

(* MVP-2 is never slower than MVP-1 on the same run, and also bounded below *)
Theorem C12_mvp2_never_slower :
  forall app labels, wf_app app -> wf_labels labels ->
  forall fuel st st' tr, inv (regs st) (mem st) ->
  seq_run fuel (map sinstr_of app) labels st = Done st' tr ->
  exists c1 c2, mvp12_run V1 fuel app labels st = MDone c1 st' /\
                mvp12_run V2 fuel app labels st = MDone c2 st' /\ c2 <= c1 /\ Z.of_nat (length tr) <= c2.
Proof. exact mvp2_never_slower. Qed.
Print Assumptions C12_mvp2_never_slower.

(* the count depends on the program and the executed path only, not on operand values *)
Theorem C12_value_independent :
  forall app labels, wf_app app -> wf_labels labels ->
  forall v fuel st1 st2 st1' st2' tr,
  inv (regs st1) (mem st1) -> inv (regs st2) (mem st2) ->
  seq_run fuel (map sinstr_of app) labels st1 = Done st1' tr ->
  seq_run fuel (map sinstr_of app) labels st2 = Done st2' tr ->
  exists c, mvp12_run v fuel app labels st1 = MDone c st1' /\ mvp12_run v fuel app labels st2 = MDone c st2'.
Proof. exact mvp12_value_independent. Qed.
Print Assumptions C12_value_independent.

(* the per-instruction cost is the documented one: every component is a named
   latency of common/latency/latency.go or the Cycles table of risc/risc.go *)
Theorem C12_cost_components : forall i,
  cost1 i = MemoryAccess + 1
            + (if InstructionType_IsMemoryRead (instr_InstructionType i) then MemoryAccess else 0)
            + match InstructionType_Cycles (instr_InstructionType i) with Ok c => c | _ => 0 end
            + (if is_ret i then 0
               else match instr_WriteRegisters i with
                    | _ :: _ => RegisterAccess
                    | [] => if InstructionType_IsMemoryWrite (instr_InstructionType i) then MemoryAccess else 0
                    end).
Proof. intros i. reflexivity. Qed.

(* non-vacuity: a three-instruction program, evaluated by the kernel:
   li t0,5 ; lw t1,0(zero) ; ret  costs (309+1+1+1) + (309+1+309+50+1) + (309+1+1) *)
Example C12_example :
  let app := [I_li (mk_li 5 5); I_lw (mk_lw 6 0 0); I_ret mk_ret] in
  mvp12_run V1 10 app (fun _ => None) (mk_arch (repeat 0 32) (repeat 0 8))
  = MDone 1293 (mk_arch (Seq.rset (repeat 0 32) 5 5) (repeat 0 8)).
Proof. vm_compute. reflexivity. Qed.
