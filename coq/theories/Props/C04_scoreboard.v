(* C04 (component part) - the register scoreboard of risc/app.go.
   Property theorems only.  Model: Comp/Scoreboard.v (hand-written, tied to
   Context.AddPendingRegisters / DeletePendingRegisters / IsDataHazard3 /
   AddPendingWriteRegisters / DeletePendingWriteRegisters / IsWriteDataHazard /
   Flush by a correspondence on random histories each run, lib/vf/c04.py).
   These are the facts the abstract machine (Props/C04.v, scoreboard_counts)
   assumes about the stored counters, proved here for the code's own
   bookkeeping including registers named twice by one instruction. *)
From Coq Require Import ZArith List.
From Maj Require Import Comp.Scoreboard Comp.ScoreboardProofs.
Import ListNotations.
Open Scope Z_scope.

(* after every history of add / delete-of-an-in-flight-instruction / flush, the
   stored counters equal the number of in-flight writers / readers of each
   register, counted with multiplicity, the zero register excluded *)
Theorem C04_scoreboard_counters_are_inflight_counts : forall ops r,
  pw (fst (run ops)) r = cnt_w (snd (run ops)) r /\ pr (fst (run ops)) r = cnt_r (snd (run ops)) r.
Proof. exact scoreboard_counts. Qed.
Print Assumptions C04_scoreboard_counters_are_inflight_counts.

Theorem C04_scoreboard_drained : forall ops, snd (run ops) = [] ->
  forall r, pw (fst (run ops)) r = 0 /\ pr (fst (run ops)) r = 0.
Proof. exact scoreboard_drained. Qed.
Print Assumptions C04_scoreboard_drained.

(* IsDataHazard3 reports RAW / WAW / WAR on r exactly when some in-flight
   instruction writes / writes / reads r *)
Theorem C04_scoreboard_hazards_mean_what_they_say : forall ops reads writes r,
  let '(s, fl) := run ops in
  (In (0, r) (hazards3 s reads writes) <-> In r reads /\ r <> 0 /\ exists i, In i fl /\ In r (snd i)) /\
  (In (1, r) (hazards3 s reads writes) <-> In r writes /\ r <> 0 /\ exists i, In i fl /\ In r (snd i)) /\
  (In (2, r) (hazards3 s reads writes) <-> In r writes /\ r <> 0 /\ exists i, In i fl /\ In r (fst i)).
Proof. exact hazards3_meaning. Qed.
Print Assumptions C04_scoreboard_hazards_mean_what_they_say.
