(* C01 - Every processor variant computes the sequential architectural result.
   Property theorems only.  What is proved here:
     MVP-1, MVP-2 : the faithful cycle-level models (Mvp/Mvp12.v, tied to the Go
                    code by an exact (cycles, registers, memory) correspondence)
                    return, for EVERY well-formed program, label table and
                    initial state, exactly the registers and memory of the
                    sequential machine Isa/Seq.v - no error, no panic.
     MVP-3..8     : see Props/C05.v (cache transparency) and the abstract
                    machine theorems of Props/C04.v / C03.v / C09.v; the glue is
                    covered by the per-run differential (lib/vf/c01.py). *)
From Coq Require Import ZArith List.
From Maj Require Import Base.Outcome Base.GoInt Isa.Spec Isa.Seq Isa.Refine.
From Maj Require Import Gen.Opcodes Mvp.Mvp12 Mvp.Mvp12Proofs.
Import ListNotations.
Open Scope Z_scope.

Theorem C01_mvp1_mvp2_compute_the_sequential_result :
  forall app labels, wf_app app -> wf_labels labels ->
  forall v fuel st st' tr, inv (regs st) (mem st) ->
  seq_run fuel (map sinstr_of app) labels st = Done st' tr ->
  mvp12_run v fuel app labels st = MDone (tcost app v init_win (rev tr)) st'.
Proof. exact mvp12_refines_seq. Qed.
Print Assumptions C01_mvp1_mvp2_compute_the_sequential_result.

(* the invariant the hypotheses speak about is satisfiable and preserved: a
   concrete program with a loop, a store and a load, run on both variants *)
Example C01_example :
  let app := [I_li (mk_li 5 3); I_addi (mk_addi (-1) 5 5); I_sw (mk_sw 5 0 0); I_bnez (mk_bnez 5 1);
              I_lw (mk_lw 6 0 0); I_ret mk_ret] in
  let labels := fun l => if l =? 1 then Some 4 else None in
  exists c1 c2 st' tr,
    seq_run 100 (map sinstr_of app) labels (mk_arch (repeat 0 32) (repeat 7 8)) = Done st' tr /\
    mvp12_run V1 100 app labels (mk_arch (repeat 0 32) (repeat 7 8)) = MDone c1 st' /\
    mvp12_run V2 100 app labels (mk_arch (repeat 0 32) (repeat 7 8)) = MDone c2 st' /\
    c2 < c1 /\ length tr = 12%nat.
Proof. vm_compute. do 4 eexists. repeat split; reflexivity. Qed.
