(* C12 / C08 / C07 / C03 / C10 for MVP-7.0 and MVP-7.1 (the pipeline of MVP-6.3 on per-core L1 caches
   behind cache controllers kept coherent by an MSI directory; 7.1 adds sequence-id-tagged register
   reads, a preferred execution unit and the stale-state copy of the directory).  Property theorems
   only; proofs in Mvp/Mvp70Proofs.v about the faithful cycle-level models Mvp/Mvp70.v and Mvp/Mvp71.v
   (cc.go and msi.go as explicit state machines, one step per VerifTick; the 7.1 delta is a record of
   hooks), tied to proc/mvp7-0 and proc/mvp7-1 by exact equality of (cycles, registers, memory) at
   1..4 cores (lib/vf/c12.py, lib/vf/modeltie.py; bin/tie_m70.py for all sampled iteration orders
   and the state at the tick budget). *)
From Coq Require Import ZArith List Bool Lia.
From Maj Require Import Base.Outcome Base.GoInt Base.GoTypes Isa.Spec Isa.Seq Isa.Refine.
From Maj Require Import Gen.Latency Gen.RiscTables Gen.Opcodes Comp.Cache Comp.Rat Mvp.Mvp12 Mvp.Mvp3 Mvp.Mvp5 Mvp.Mvp60 Mvp.Mvp63 Mvp.Mvp70 Mvp.Mvp71.
From Maj Require Import Mvp.Mvp60Proofs Mvp.Mvp63Proofs.
Import ListNotations.
Open Scope Z_scope.
From Maj Require Import Mvp.Mvp70Proofs.

(* C12: a returning run reports at least one cycle (7.0, 7.1) *)
Theorem C12_mvp70_cycles_positive :
  forall par ord fuel app labels st c st',
  mvp70_run par ord fuel app labels st = MDone c st' -> 1 <= c.
Proof. exact mvp70_cycles_pos. Qed.
Print Assumptions C12_mvp70_cycles_positive.


Theorem C12_mvp71_cycles_positive :
  forall par ord fuel app labels st c st',
  mvp71_run par ord fuel app labels st = MDone c st' -> 1 <= c.
Proof. exact mvp71_cycles_pos. Qed.
Print Assumptions C12_mvp71_cycles_positive.

(* C12: at most two instructions are dispatched per cycle whatever the number of cores *)
Theorem C12_mvp70_issue_width_two :
  forall ord cycle x,
  ebus_ok x -> ebus_ok (cu_cycle3 ord cycle x) /\ bb_bl (x_ebus (cu_cycle3 ord cycle x)) = bb_bl (x_ebus x).
Proof. exact mvp70_dispatch_width. Qed.
Print Assumptions C12_mvp70_issue_width_two.

(* C08: a run ending with the ghost flag clear is the same for all iteration orders (7.0, 7.1): only the maps
   inherited from the 6.3 front end can matter, none of the maps of msi.go / cc.go *)
Theorem C08_mvp70_order_irrelevant_when_flag_clear :
  forall par fuel app labels st ord1 ord2 r,
  ords_ok3 ord1 ord2 ->
  mvp70_run_os par ord1 fuel app labels st = (r, false) ->
  mvp70_run_os par ord2 fuel app labels st = (r, false).
Proof. exact mvp70_ord_irrelevant. Qed.
Print Assumptions C08_mvp70_order_irrelevant_when_flag_clear.


Theorem C08_mvp71_order_irrelevant_when_flag_clear :
  forall par fuel app labels st ord1 ord2 r,
  ords_ok3 ord1 ord2 ->
  mvp71_run_os par ord1 fuel app labels st = (r, false) ->
  mvp71_run_os par ord2 fuel app labels st = (r, false).
Proof. exact mvp71_ord_irrelevant. Qed.
Print Assumptions C08_mvp71_order_irrelevant_when_flag_clear.

(* C07 finding SYS-multicore-7x8: three units add to the write bus in one cycle, the write-back loop before a
   flush never calls Connect and spins for ever (a five-instruction loop, 3 cores) *)
Theorem C07_mvp70_flush_loop_hang_refuted :
  cycles_of (mvp70_run 2 ord_asc 6000 hang_prog (one_label 4) (st7_of 128 [] [])) = Some 669 /\
  mvp70_run 3 ord_asc 6000 hang_prog (one_label 4) (st7_of 128 [] []) = MOutOfFuel /\
  mvp71_run 3 ord_asc 6000 hang_prog (one_label 4) (st7_of 128 [] []) = MOutOfFuel.
Proof. exact flush_loop_hang. Qed.
Print Assumptions C07_mvp70_flush_loop_hang_refuted.

(* C03 / C06 finding C06-flush-stale-locksems at pipeline level: a wrong-path store holds the write lock when the
   branch resolves; Pre hook and CPU.flush both unlock: panic "write is negative" *)
Theorem C03_mvp70_flush_unlock_panic_refuted :
  cycles_of (mvp70_run 2 ord_asc 3000 unlock_prog (one_label 16) (st7_of 1024 [] [(3, -56)])) = Some 631 /\
  mvp70_run 3 ord_asc 3000 unlock_prog (one_label 16) (st7_of 1024 [] [(3, -56)]) = MPanic /\
  mvp71_run 3 ord_asc 3000 unlock_prog (one_label 16) (st7_of 1024 [] [(3, -56)]) = MPanic.
Proof. exact flush_unlock_panic. Qed.
Print Assumptions C03_mvp70_flush_unlock_panic_refuted.

(* C10 finding SYS-multicore-7x8: no store -> load ordering across cores *)
Theorem C10_mvp70_stale_load_refuted :
  reg_of (mvp12_run V1 1000 stale_prog no_labels (st7_of 64 [(8, 1897636091)] [])) 19 = Some (-1280) /\
  reg_of (mvp70_run 1 ord_asc 3000 stale_prog no_labels (st7_of 64 [(8, 1897636091)] [])) 19 = Some (-1280) /\
  reg_of (mvp70_run 4 ord_asc 3000 stale_prog no_labels (st7_of 64 [(8, 1897636091)] [])) 19 = Some 0.
Proof. exact stale_load. Qed.
Print Assumptions C10_mvp70_stale_load_refuted.

(* C07, 7.1 only: when msi.staleState is set the control unit keeps the runners of two cycles ago as forwarding
   sources; a receiver then waits for ever *)
Theorem C07_mvp71_stale_forward_hang_refuted :
  cycles_of (mvp70_run 2 ord_asc 6000 stalefwd_prog no_labels (st7_of 2048 [] [])) = Some 1562 /\
  cycles_of (mvp71_run 1 ord_asc 6000 stalefwd_prog no_labels (st7_of 2048 [] [])) = Some 1878 /\
  mvp71_run 2 ord_asc 6000 stalefwd_prog no_labels (st7_of 2048 [] []) = MOutOfFuel.
Proof. exact stale_forward_hang. Qed.
Print Assumptions C07_mvp71_stale_forward_hang_refuted.
