(* C01 / C05 / C07 for MVP-3 (sequential core with LRU L1I and L1D caches).
   Property theorems only; the proofs are in Mvp/Mvp3Proofs.v, about the
   cycle-level model Mvp/Mvp3.v (tied to proc/mvp3 by exact equality of
   cycles, registers and memory in the system differential).

   Hypotheses about the SEQUENTIAL run (not about the model):
     accesses_ok : every load and store stays inside one 64-byte line
                   (implied by natural alignment: natural_alignment_same_line);
     mem_small   : the memory has at most 2^31 - 64 bytes.
   Bounds of the accesses are not a hypothesis: the sequential machine fails
   with EBounds on an access outside memory. *)
From Coq Require Import ZArith List Bool.
From Maj Require Import Base.Outcome Base.GoInt Isa.Spec Isa.Seq Isa.Refine Gen.Opcodes.
From Maj Require Import Comp.Cache Comp.CacheSpec Mvp.Mvp12 Mvp.Mvp12Proofs Mvp.Mvp3 Mvp.Mvp3Proofs.
Import ListNotations.
Open Scope Z_scope.

(* the cache hierarchy of MVP-3 is transparent and leaves nothing behind: the run
   returns, without error or panic and within the same fuel, exactly the registers
   AND the memory of the sequential machine; the cycle count is cost3 (a function of
   the program and the (pc, addresses) sequence) and at least one per instruction *)
Theorem C05_mvp3_refines_seq : forall app labels, wf_app app -> wf_labels labels ->
  forall fuel st st' tr,
  inv (regs st) (mem st) -> mem_small st ->
  accesses_ok fuel (map sinstr_of app) labels st 0 ->
  seq_run fuel (map sinstr_of app) labels st = Done st' tr ->
  mvp3_run fuel app labels st =
    MDone (cost3 app (mkT [] []) (events fuel (map sinstr_of app) labels st 0)) st' /\
  Z.of_nat (length tr) <= cost3 app (mkT [] []) (events fuel (map sinstr_of app) labels st 0).
Proof. exact mvp3_refines_seq. Qed.
Print Assumptions C05_mvp3_refines_seq.

Theorem C05_mvp3_flush_complete : forall app labels, wf_app app -> wf_labels labels ->
  forall fuel st st' tr,
  inv (regs st) (mem st) -> mem_small st ->
  accesses_ok fuel (map sinstr_of app) labels st 0 ->
  seq_run fuel (map sinstr_of app) labels st = Done st' tr ->
  exists c st3, mvp3_run fuel app labels st = MDone c st3 /\ mem st3 = mem st' /\ regs st3 = regs st'.
Proof. exact mvp3_flush_complete. Qed.
Print Assumptions C05_mvp3_flush_complete.

(* every load returns the bytes of the sequential memory (the most recent stores),
   whether it hits, misses, or evicts another line *)
Theorem C05_mvp3_loads_see_last_store : forall c sc m ms addrs, VInv c sc m ms ->
  forallb (in_mem ms) addrs = true -> same_line addrs = true ->
  exists c' sc' m' c2, load_block c m addrs = Ok (c', m', map (mget ms) addrs, c2) /\ 0 <= c2 /\
    VInv c' sc' m' ms.
Proof. exact mvp3_loads_see_last_store. Qed.
Print Assumptions C05_mvp3_loads_see_last_store.

(* C07: no panic, no divergence; ISA-defined errors are returned as values *)
Theorem C07_mvp3_no_panic : forall app labels, wf_app app -> wf_labels labels ->
  forall fuel st st' tr,
  inv (regs st) (mem st) -> mem_small st ->
  accesses_ok fuel (map sinstr_of app) labels st 0 ->
  seq_run fuel (map sinstr_of app) labels st = Done st' tr ->
  mvp3_run fuel app labels st <> MPanic /\ mvp3_run fuel app labels st <> MOutOfFuel.
Proof. exact mvp3_no_panic. Qed.
Print Assumptions C07_mvp3_no_panic.

Theorem C07_mvp3_errors_are_values : forall app labels, wf_app app -> wf_labels labels ->
  forall fuel st e tr,
  inv (regs st) (mem st) -> mem_small st ->
  accesses_ok fuel (map sinstr_of app) labels st 0 ->
  seq_run fuel (map sinstr_of app) labels st = Failed e tr -> e = EDivZero \/ e = ELabel ->
  mvp3_run fuel app labels st = MErr e.
Proof. exact mvp3_errors_are_values. Qed.
Print Assumptions C07_mvp3_errors_are_values.

(* C12 (MVP-3): the cycle count (cost3 above) is a function of the program and of the
   sequence of (pc, loaded addresses, stored addresses) of the run: two runs with the
   same sequence take the same number of cycles whatever the values are *)
Theorem C12_mvp3_value_independent : forall app labels, wf_app app -> wf_labels labels ->
  forall fuel st1 st2 st1' st2' tr1 tr2,
  inv (regs st1) (mem st1) -> mem_small st1 -> accesses_ok fuel (map sinstr_of app) labels st1 0 ->
  inv (regs st2) (mem st2) -> mem_small st2 -> accesses_ok fuel (map sinstr_of app) labels st2 0 ->
  seq_run fuel (map sinstr_of app) labels st1 = Done st1' tr1 ->
  seq_run fuel (map sinstr_of app) labels st2 = Done st2' tr2 ->
  events fuel (map sinstr_of app) labels st1 0 = events fuel (map sinstr_of app) labels st2 0 ->
  exists c, mvp3_run fuel app labels st1 = MDone c st1' /\ mvp3_run fuel app labels st2 = MDone c st2'.
Proof. exact mvp3_value_independent. Qed.
Print Assumptions C12_mvp3_value_independent.

(* natural alignment (1, 2, 4 bytes) implies the hypothesis on one access *)
Theorem C05_natural_alignment_same_line : forall a n, (n = 1 \/ n = 2 \/ n = 4)%nat -> a mod Z.of_nat n = 0 ->
  same_line (consec a n) = true.
Proof. exact natural_alignment_same_line. Qed.
Print Assumptions C05_natural_alignment_same_line.

(* non-vacuity: 20 lines touched (16 fit), both sides computed, they agree *)
Example C05_mvp3_example :
  let app := map instr_of ex_prog in
  wf_app app /\ wf_labels ex_labels /\ inv (regs ex_state) (mem ex_state) /\ mem_small ex_state /\
  accesses_ok 300 (map sinstr_of app) ex_labels ex_state 0 /\
  exists st' tr c,
    seq_run 300 (map sinstr_of app) ex_labels ex_state = Done st' tr /\
    mvp3_run 300 app ex_labels ex_state = MDone c st' /\
    length tr = 206%nat /\ c = 27333 /\ mget (mem st') 1216 = -64 /\ mget (mem st') 2000 = -128 /\ mget (mem st') 2001 = 47.
Proof. exact mvp3_example. Qed.

(* why accesses_ok is needed: accesses that straddle a 64-byte line *)
Theorem C05_mvp3_straddling_load_panics_refuted :
  let p := [SLw 5 62 0; SRet] in
  (exists st' tr, seq_run 10 p no_labels ex_state128 = Done st' tr) /\
  mvp3_run 10 (map instr_of p) no_labels ex_state128 = MPanic.
Proof. exact mvp3_straddling_load_panics_refuted. Qed.

Theorem C05_mvp3_straddling_store_lost_refuted :
  let p := [SLb 6 0 0; SLi 5 16909060; SSw 5 62 0; SLb 7 62 0; SRet] in
  exists st' tr c st3,
    seq_run 10 p no_labels ex_state128 = Done st' tr /\
    mvp3_run 10 (map instr_of p) no_labels ex_state128 = MDone c st3 /\
    rget (regs st') 7 = 4 /\ mget (mem st') 62 = 4 /\ mget (mem st') 63 = 3 /\
    rget (regs st3) 7 = 0 /\ mget (mem st3) 62 = 0 /\ mget (mem st3) 63 = 0.
Proof. exact mvp3_straddling_store_lost_refuted. Qed.

(* an observation: a store past the end of memory into the zero padding of a resident
   line is accepted by MVP-3 (EBounds for the sequential machine, panic in MVP-1) *)
Theorem C07_mvp3_store_past_end_in_resident_line_accepted :
  let p := [SLb 6 64 0; SLi 5 7; SSb 5 110 0; SLb 7 110 0; SRet] in
  let st := mk_arch (repeat 0 32) (repeat 0 100) in
  seq_run 10 p no_labels st = Failed EBounds [8; 4; 0] /\
  mvp12_run V1 10 (map instr_of p) no_labels st = MPanic /\
  exists c st3, mvp3_run 10 (map instr_of p) no_labels st = MDone c st3 /\ rget (regs st3) 7 = 7 /\
                length (mem st3) = 100%nat.
Proof. exact mvp3_store_past_end_in_resident_line_accepted. Qed.
