(* C15 - Speculative register state commits and rolls back by program order.
   Property theorems only.  Models (hand-written, tied to the code on every run
   by lib/vf/c15.py): Comp/Rat.v (proc/comp/rat.go), Comp/Tx.v (risc/app.go
   Context + registerRead of risc/opcodes.go).  Spec: Comp/TxSpec.v.

   Vocabulary.  A history is a list of operations (mop: the Transaction-map
   discipline of MVP-6.2; rop: the rename-table discipline of MVP-6.3+), run
   from NewContext (ctx0m / ctx0r).  pend kind h r = the tagged writes (tag,
   value) to register r since the last commit/rollback of h, newest arrival
   first.  youngest P l = the write of l with the greatest tag satisfying P.
   Contracts (boolean predicates over the history):
     tags_increasing : writes to one register arrive in strictly increasing tag order
     within_slots n  : at most n uncommitted writes per register (1: map, 10: ring)
   arch c r = the committed value registerRead falls back to on the RAT path
   (committedRAT, else 0); arch_or_reg = what RATFlush leaves in Registers.
   The `hint` arguments stand for Go's map iteration order; every theorem
   holds for all hints. *)
From Coq Require Import ZArith List Bool Permutation.
From Maj Require Import Base.Outcome Comp.Rat Comp.Tx Comp.TxSpec Comp.RatProofs Comp.TxProofs.
Import ListNotations.
Open Scope Z_scope.

(* ---- the specification's `youngest` is what it says ---- *)
Theorem C15_youngest_is_youngest : forall P l,
  (forall u, youngest P l = Some u ->
     In u l /\ P (fst u) = true /\ forall u', In u' l -> P (fst u') = true -> fst u' <= fst u) /\
  (youngest P l = None -> forall u, In u l -> P (fst u) = false).
Proof.
  exact (fun P l => conj (fun u H => conj (proj1 (youngest_In P l u H))
                                          (conj (proj2 (youngest_In P l u H)) (youngest_max P l u H)))
                         (youngest_none P l)).
Qed.
Print Assumptions C15_youngest_is_youngest.

(* ================= Transaction map (MVP-6.2) ================= *)
Theorem C15_map_commit_youngest : forall h hint r,
  tags_increasing mkind h = true ->
  reg_get (mrun (h ++ [MCommit hint]) ctx0m) r =
  value_or (youngest all_tags (pend mkind h r)) (reg_get (mrun h ctx0m) r).
Proof. exact m_commit_youngest. Qed.
Print Assumptions C15_map_commit_youngest.

Theorem C15_map_rollback_youngest_older_than_s : forall h hint s r,
  within_slots mkind 1 h = true ->
  reg_get (mrun (h ++ [MRollback hint s]) ctx0m) r =
  value_or (youngest (older_than s) (pend mkind h r)) (reg_get (mrun h ctx0m) r).
Proof. exact m_rollback_youngest_older_than_s. Qed.
Print Assumptions C15_map_rollback_youngest_older_than_s.

Theorem C15_map_untouched_unchanged : forall h hint s r,
  pend mkind h r = [] ->
  reg_get (mrun (h ++ [MCommit hint]) ctx0m) r = reg_get (mrun h ctx0m) r /\
  reg_get (mrun (h ++ [MRollback hint s]) ctx0m) r = reg_get (mrun h ctx0m) r.
Proof. exact m_untouched_unchanged. Qed.
Print Assumptions C15_map_untouched_unchanged.

Theorem C15_map_read_never_younger : forall h r t fw,
  t <> 0 -> r <> fst fw ->
  let v := register_read (mrun h ctx0m) fw r t in
  (exists u, In u (pend mkind h r) /\ fst u <= t /\ snd u = v) \/ v = reg_get (mrun h ctx0m) r.
Proof. exact m_read_never_younger. Qed.
Print Assumptions C15_map_read_never_younger.

Theorem C15_map_commit_and_plain_read_still_youngest : forall h hint r fw,
  tags_increasing mkind h = true ->
  reg_get (mrun (h ++ [MCommit hint]) ctx0m) r =
    value_or (youngest all_tags (pend mkind h r)) (reg_get (mrun h ctx0m) r) /\
  (r <> fst fw ->
   register_read (mrun h ctx0m) fw r 0 =
    value_or (youngest all_tags (pend mkind h r)) (reg_get (mrun h ctx0m) r)).
Proof. exact m_commit_and_plain_read_still_youngest. Qed.
Print Assumptions C15_map_commit_and_plain_read_still_youngest.

(* lost beyond the slot: [t0 := 1 tag 1; t0 := 2 tag 5; Rollback 3] leaves t0 = 0, not 1 *)
Theorem C15_map_rollback_beyond_slot_refuted :
  exists h s r,
    tags_increasing mkind h = true /\ within_slots mkind 1 h = false /\
    reg_get (mrun (h ++ [MRollback [] s]) ctx0m) r = 0 /\
    value_or (youngest (older_than s) (pend mkind h r)) (reg_get (mrun h ctx0m) r) = 1.
Proof. exact m_rollback_beyond_slot_refuted. Qed.
Print Assumptions C15_map_rollback_beyond_slot_refuted.

(* out-of-order arrival: [t0 := 1 tag 9; t0 := 2 tag 3; Commit] gives t0 = 2 (last arrival), youngest is 1 *)
Theorem C15_map_commit_last_arrival_refuted :
  exists h r,
    tags_increasing mkind h = false /\ within_slots mkind 2 h = true /\
    reg_get (mrun (h ++ [MCommit []]) ctx0m) r = 2 /\
    value_or (youngest all_tags (pend mkind h r)) (reg_get (mrun h ctx0m) r) = 1.
Proof. exact m_commit_last_arrival_refuted. Qed.
Print Assumptions C15_map_commit_last_arrival_refuted.

Theorem C15_map_commit_last_arrival : forall h hint r,
  reg_get (mrun (h ++ [MCommit hint]) ctx0m) r =
  value_or (hd_error (pend mkind h r)) (reg_get (mrun h ctx0m) r).
Proof. exact m_commit_last_arrival. Qed.
Print Assumptions C15_map_commit_last_arrival.

Theorem C15_map_order_independent : forall h1 h2 c1 c2,
  map merase h1 = map merase h2 -> mceq c1 c2 ->
  mtrace h1 c1 = mtrace h2 c2 /\ mceq (mrun h1 c1) (mrun h2 c2).
Proof. exact m_order_independent. Qed.
Print Assumptions C15_map_order_independent.

(* ================= rename tables (MVP-6.3 and later) ================= *)
Theorem C15_rat_commit_youngest : forall h hint r,
  tags_increasing rkind h = true ->
  arch (rrun (h ++ [RCommit hint]) ctx0r) r =
  value_or (youngest all_tags (pend rkind h r)) (arch (rrun h ctx0r) r).
Proof. exact r_commit_youngest. Qed.
Print Assumptions C15_rat_commit_youngest.

Theorem C15_rat_commit_flush_youngest : forall h hint1 hint2 r,
  tags_increasing rkind h = true ->
  reg_get (rrun (h ++ [RCommit hint1; RFlush hint2]) ctx0r) r =
  value_or (youngest all_tags (pend rkind h r)) (arch_or_reg (rrun h ctx0r) r).
Proof. exact r_commit_flush_youngest. Qed.
Print Assumptions C15_rat_commit_flush_youngest.

Theorem C15_rat_rollback_youngest_older_than_s : forall h hint s r,
  tags_increasing rkind h = true -> within_slots rkind 10 h = true ->
  arch (rrun (h ++ [RRollback hint s]) ctx0r) r =
  value_or (youngest (older_than s) (pend rkind h r)) (arch (rrun h ctx0r) r).
Proof. exact r_rollback_youngest_older_than_s. Qed.
Print Assumptions C15_rat_rollback_youngest_older_than_s.

Theorem C15_rat_rollback_flush_youngest_older_than_s : forall h hint1 hint2 s r,
  tags_increasing rkind h = true -> within_slots rkind 10 h = true ->
  reg_get (rrun (h ++ [RRollback hint1 s; RFlush hint2]) ctx0r) r =
  value_or (youngest (older_than s) (pend rkind h r)) (arch_or_reg (rrun h ctx0r) r).
Proof. exact r_rollback_flush_youngest_older_than_s. Qed.
Print Assumptions C15_rat_rollback_flush_youngest_older_than_s.

(* Registers and committed RAT agree where the latter has no entry, unless a
   WriteRegister follows the last InitRAT *)
Theorem C15_rat_registers_agree : forall h r,
  no_late_regwrite h = true -> arch_or_reg (rrun h ctx0r) r = arch (rrun h ctx0r) r.
Proof. exact r_arch_or_reg. Qed.
Print Assumptions C15_rat_registers_agree.

Theorem C15_rat_untouched_unchanged : forall h hint s r,
  pend rkind h r = [] ->
  arch (rrun (h ++ [RCommit hint]) ctx0r) r = arch (rrun h ctx0r) r /\
  arch (rrun (h ++ [RRollback hint s]) ctx0r) r = arch (rrun h ctx0r) r.
Proof. exact r_untouched_unchanged. Qed.
Print Assumptions C15_rat_untouched_unchanged.

Theorem C15_rat_read_never_younger : forall h r t fw,
  t <> 0 -> r <> fst fw ->
  let v := register_read (rrun h ctx0r) fw r t in
  (exists u, In u (pend rkind h r) /\ fst u <= t /\ snd u = v) \/ v = arch (rrun h ctx0r) r.
Proof. exact r_read_never_younger. Qed.
Print Assumptions C15_rat_read_never_younger.

Theorem C15_rat_read_youngest_not_younger : forall h r t fw,
  tags_increasing rkind h = true -> within_slots rkind 10 h = true ->
  t <> 0 -> r <> fst fw ->
  register_read (rrun h ctx0r) fw r t =
  value_or (youngest (not_younger_than t) (pend rkind h r)) (arch (rrun h ctx0r) r).
Proof. exact r_read_youngest_not_younger. Qed.
Print Assumptions C15_rat_read_youngest_not_younger.

Theorem C15_rat_commit_and_plain_read_still_youngest : forall h hint r fw,
  tags_increasing rkind h = true ->
  arch (rrun (h ++ [RCommit hint]) ctx0r) r =
    value_or (youngest all_tags (pend rkind h r)) (arch (rrun h ctx0r) r) /\
  (r <> fst fw ->
   register_read (rrun h ctx0r) fw r 0 =
    value_or (youngest all_tags (pend rkind h r)) (arch (rrun h ctx0r) r)).
Proof. exact r_commit_and_plain_read_still_youngest. Qed.
Print Assumptions C15_rat_commit_and_plain_read_still_youngest.

(* lost beyond the 10 slots: [t0 := 100+i tag i, i = 1..11; RATRollback 2 (; RATFlush)]
   leaves t0 = 0, not 101 *)
Theorem C15_rat_rollback_beyond_slots_refuted :
  exists h s r,
    tags_increasing rkind h = true /\ within_slots rkind 10 h = false /\
    arch (rrun (h ++ [RRollback [] s]) ctx0r) r = 0 /\
    reg_get (rrun (h ++ [RRollback [] s; RFlush []]) ctx0r) r = 0 /\
    value_or (youngest (older_than s) (pend rkind h r)) (arch (rrun h ctx0r) r) = 101.
Proof. exact r_rollback_beyond_slots_refuted. Qed.
Print Assumptions C15_rat_rollback_beyond_slots_refuted.

Theorem C15_rat_tagged_read_beyond_slots_refuted :
  exists h t r,
    tags_increasing rkind h = true /\ within_slots rkind 10 h = false /\
    register_read (rrun h ctx0r) (0, 0) r t = 0 /\
    value_or (youngest (not_younger_than t) (pend rkind h r)) (arch (rrun h ctx0r) r) = 101.
Proof. exact r_tagged_read_beyond_slots_refuted. Qed.
Print Assumptions C15_rat_tagged_read_beyond_slots_refuted.

(* out-of-order arrival: [t0 := 1 tag 9; t0 := 2 tag 3; RATCommit (; RATFlush)] gives 2, youngest is 1 *)
Theorem C15_rat_commit_last_arrival_refuted :
  exists h r,
    tags_increasing rkind h = false /\ within_slots rkind 10 h = true /\
    arch (rrun (h ++ [RCommit []]) ctx0r) r = 2 /\
    reg_get (rrun (h ++ [RCommit []; RFlush []]) ctx0r) r = 2 /\
    value_or (youngest all_tags (pend rkind h r)) (arch (rrun h ctx0r) r) = 1.
Proof. exact r_commit_last_arrival_refuted. Qed.
Print Assumptions C15_rat_commit_last_arrival_refuted.

(* [t0 := 1 tag 4; t0 := 2 tag 2; t0 := 3 tag 9; RATRollback 5] commits 2 (newest arrival older than 5), youngest older than 5 is 1 *)
Theorem C15_rat_rollback_arrival_order_refuted :
  exists h s r,
    tags_increasing rkind h = false /\ within_slots rkind 10 h = true /\
    arch (rrun (h ++ [RRollback [] s]) ctx0r) r = 2 /\
    value_or (youngest (older_than s) (pend rkind h r)) (arch (rrun h ctx0r) r) = 1.
Proof. exact r_rollback_arrival_order_refuted. Qed.
Print Assumptions C15_rat_rollback_arrival_order_refuted.

Theorem C15_rat_commit_last_arrival : forall h hint r,
  arch (rrun (h ++ [RCommit hint]) ctx0r) r =
  value_or (hd_error (pend rkind h r)) (arch (rrun h ctx0r) r).
Proof. exact r_commit_last_arrival. Qed.
Print Assumptions C15_rat_commit_last_arrival.

Theorem C15_rat_order_independent : forall h1 h2 c1 c2,
  map rerase h1 = map rerase h2 -> rceq c1 c2 ->
  rtrace h1 c1 = rtrace h2 c2 /\ rceq (rrun h1 c1) (rrun h2 c2).
Proof. exact r_order_independent. Qed.
Print Assumptions C15_rat_order_independent.

(* ================= the generic ring comp.RAT, any length >= 1 ================= *)
Theorem C15_ring_keeps_last_arrivals : forall (V : Type) (zero : V) len ws, 1 <= len ->
  rat_ok (rat_writes zero (rat_new len) ws) /\
  r_len (rat_writes zero (rat_new len) ws) = len /\
  forall k, rat_view (rat_writes zero (rat_new len) ws) k = firstn (Z.to_nat len) (arrivals k ws).
Proof. exact @rat_keeps_last_arrivals. Qed.
Print Assumptions C15_ring_keeps_last_arrivals.

Theorem C15_ring_read_find_values : forall (V : Type) (zero : V) len ws k p, 1 <= len ->
  rat_read zero (rat_writes zero (rat_new len) ws) k = hd_error (arrivals k ws) /\
  rat_find zero (rat_writes zero (rat_new len) ws) k p = find p (firstn (Z.to_nat len) (arrivals k ws)) /\
  aget k (rat_values zero (rat_writes zero (rat_new len) ws)) = hd_error (arrivals k ws) /\
  aget k (rat_findvalues zero (rat_writes zero (rat_new len) ws) p) = find p (firstn (Z.to_nat len) (arrivals k ws)).
Proof.
  exact (fun V zero len ws k p H =>
           conj (rat_read_last_arrival zero len ws k H)
          (conj (rat_find_newest_match zero len ws k p H)
          (conj (rat_values_last_arrival zero len ws k H)
                (rat_findvalues_newest_match zero len ws k p H)))).
Qed.
Print Assumptions C15_ring_read_find_values.

Theorem C15_ring_write_never_panics : forall (V : Type) (zero : V) len ws k v, 1 <= len ->
  rat_write_o zero (rat_writes zero (rat_new len) ws) k v
  = Ok (rat_write zero (rat_writes zero (rat_new len) ws) k v).
Proof. exact @rat_write_never_panics. Qed.
Print Assumptions C15_ring_write_never_panics.

(* the hints range over exactly the permutations of the keys *)
Theorem C15_iteration_orders : forall keys, NoDup keys ->
  (forall hint, Permutation (iter_order hint keys) keys) /\
  (forall p, Permutation p keys -> iter_order p keys = p).
Proof. exact (fun keys H => conj (fun hint => iter_order_perm hint keys H) (fun p => iter_order_any p keys H)). Qed.
Print Assumptions C15_iteration_orders.

(* non-vacuity: concrete non-trivial histories satisfying the contracts, evaluated by the kernel *)
Example C15_example_map :
  tags_increasing mkind m_example = true /\ within_slots mkind 1 m_example = true /\
  map (reg_get (mrun m_example ctx0m)) [5; 6; 7] = [11; 13; 14].
Proof. vm_compute. repeat split. Qed.
Example C15_example_rat :
  tags_increasing rkind r_example = true /\ within_slots rkind 10 r_example = true /\
  no_late_regwrite r_example = true /\
  map (reg_get (rrun r_example ctx0r)) [5; 6; 7] = [11; 13; 14].
Proof. vm_compute. repeat split. Qed.
