(* C01 / C12 / C07 for MVP-7.1 (proc/mvp7-1 = MVP-7.0 with sequence-id-tagged register reads, inBus.Pick by preferred
   unit, isPendingMessages, msi.staleState) on SINGLE-ASSIGNMENT, register-only, straight-line programs.
   Property theorems only; proofs in Mvp/Mvp71Sim70.v (run invariant = SI of Mvp70Sim63Loops.v + the in-order
   pipeline invariant of MVP-6.3 on the projected state; one tick: tick71; whole runs: run71_eq) on top of the unit
   lemmas of Mvp/Mvp70Sim63Mvp71.v, about the faithful cycle-level models Mvp/Mvp71.v and Mvp/Mvp70.v (each tied to
   the Go code by exact checks of cycles, registers, memory).

   The class (Mvp60RefDefs.v, Mvp4Skel.v, Mvp63RefDefs.v):
     straight app   no branch, no jump;          reg_only app   no load, no store;
     ssa app        every register but x0 has at most one writer, no instruction reads a register a later one writes;
     regs_ok app    register numbers x0 .. x31;
   states with 32 int32 registers and x0 = 0; the sequential run ends (Done).

   STATUS (all PROVED, closed under the global context).
     C01_mvp71_ssa_straight_sim_mvp70    on the class, every number of cores >= 1, EVERY order function, EVERY fuel:
                                         mvp71_run_os = mvp70_run_os (result, cycles, ghost flag; runs that exhaust
                                         their fuel included).  On straight-line code ctx.sequenceID stays 0, so
                                         SequenceID(pc) = pc; the pipeline is in order (every tag of transactionRAT
                                         belongs to an instruction that wrote back before the oldest instruction not
                                         yet executed), so the read by sequence id is the newest-slot read; no
                                         preference is computed, isPendingMessages is never consulted, staleState
                                         stays clear.
     C01_mvp71_refines_seq_ssa_straight, C12_mvp71_run_ssa_straight, C12_mvp71_ghost_clear_ssa_straight,
     C07_mvp71_terminates_ssa_straight, C07_mvp71_no_panic_ssa_straight
                                         TRANSPORT of the MVP-7.0 / MVP-6.3 refinement theorem (Props/C01_mvp70.v,
                                         Props/C01_mvp63.v): MVP-7.1 returns the sequential registers and memory at
                                         every number of cores, for every order, ghost flag clear, within
                                         fuel_bound70 (length app) = 400 * length app + 1601 ticks, with the cycle
                                         count of MVP-7.0 (= MVP-6.3 + 1).
     C01_mvp71_tick                      one tick under the run invariant CI.
     C01_mvp71_example_sim, C01_mvp71_example_any, C01_mvp71_example
                                         non-vacuity: the 14-instruction example of C01_mvp63.v (any number of cores,
                                         any order; and by computation at 1..4 cores, both orders).
   Outside the class the statement "MVP-7.1 = MVP-7.0" is FALSE in general
   (C01_mvp71_regonly_sim_mvp63_refuted in Props/C01_mvp70.v: a jump back by more than 2000 bytes). *)
From Coq Require Import ZArith List Bool Lia.
From Maj Require Import Base.Outcome Base.GoInt Base.GoTypes Isa.Spec Isa.Seq Isa.Refine Gen.Opcodes Comp.Rat.
From Maj Require Import Mvp.Mvp12 Mvp.Mvp12Proofs Mvp.Mvp4Skel Mvp.Mvp60 Mvp.Mvp60RefDefs Mvp.Mvp63 Mvp.Mvp63Proofs Mvp.Mvp63RefDefs
     Mvp.Mvp63RefProofs Mvp.Mvp70 Mvp.Mvp71 Mvp.Mvp70Proofs Mvp.Mvp70Sim63Defs Mvp.Mvp70Sim63Loops Mvp.Mvp70Sim63Proofs Mvp.Mvp70Sim63Mvp71
     Mvp.Mvp71Sim70.
Import ListNotations.
Open Scope Z_scope.

(* C01: MVP-7.1 = MVP-7.0 on single-assignment, register-only, straight-line programs: every number of cores,
   every order function, every fuel *)
Theorem C01_mvp71_ssa_straight_sim_mvp70 : forall app labels, wf_app app ->
  straight app = true -> reg_only app = true -> ssa app = true -> regs_ok app = true ->
  forall par fuel st st' tr, (1 <= par)%nat ->
  Forall int32 (regs st) -> length (regs st) = 32%nat -> nth 0 (regs st) 0 = 0 ->
  seq_run fuel (map sinstr_of app) labels st = Done st' tr ->
  forall ord fuel', mvp71_run_os par ord fuel' app labels st = mvp70_run_os par ord fuel' app labels st.
Proof. exact mvp71_ssa_straight_sim_mvp70. Qed.
Print Assumptions C01_mvp71_ssa_straight_sim_mvp70.

(* one tick: under the run invariant the two step functions agree and the invariant is kept *)
Theorem C01_mvp71_tick : forall app labels regs0 mem0 ord, wf_app app ->
  straight app = true -> reg_only app = true -> ssa app = true -> regs_ok app = true ->
  length regs0 = 32%nat -> Forall int32 regs0 -> nth 0 regs0 0 = 0 ->
  (forall k, (0 <= k <= stop_from app 0)%nat -> (k < length app)%nat ->
     exec (sinstr_of (Mvp60RefSem.ik app k)) (rget (Mvp60RefSem.sreg app labels regs0 0 k)) labels (Mvp60RefSem.pcz k) [] =
       Ok (Mvp60RefSem.eff app labels regs0 0 k) /\
     (forall a, Mvp60RefBack.etarget (Mvp60RefSem.eff app labels regs0 0 k) = Some a ->
        exists t, a = Mvp60RefSem.pcz t /\ (k < t <= length app)%nat)) ->
  forall s, CI app labels regs0 mem0 s ->
    step7 hooks71 app labels ord s = step7 hooks70 app labels ord s /\
    (forall s', step7 hooks70 app labels ord s = UCont s' -> CI app labels regs0 mem0 s').
Proof. exact tick71. Qed.
Print Assumptions C01_mvp71_tick.

(* ------------------------------------------------------------------ *)
(* transport of the refinement theorem                                  *)

(* C01: MVP-7.1 computes the sequential result on the class, at every number of cores, for EVERY order function,
   for all fuels from fuel_bound70 (length app) on *)
Theorem C01_mvp71_refines_seq_ssa_straight : forall app labels, wf_app app ->
  straight app = true -> reg_only app = true -> ssa app = true -> regs_ok app = true ->
  forall par fuel st st' tr, (1 <= par)%nat ->
  Forall int32 (regs st) -> length (regs st) = 32%nat -> nth 0 (regs st) 0 = 0 ->
  seq_run fuel (map sinstr_of app) labels st = Done st' tr ->
  forall ord, exists c, forall fuel', (fuel_bound70 (length app) <= fuel')%nat -> mvp71_run par ord fuel' app labels st = MDone c st'.
Proof. exact mvp71_refines_seq_ssa_straight. Qed.
Print Assumptions C01_mvp71_refines_seq_ssa_straight.

(* C12: ... with the ghost flag clear, at least ceil(executed / 2) + 1 cycles, the cycle count of MVP-7.0, one
   cycle more than MVP-6.3 *)
Theorem C12_mvp71_run_ssa_straight : forall app labels, wf_app app ->
  straight app = true -> reg_only app = true -> ssa app = true -> regs_ok app = true ->
  forall par fuel st st' tr, (1 <= par)%nat ->
  Forall int32 (regs st) -> length (regs st) = 32%nat -> nth 0 (regs st) 0 = 0 ->
  seq_run fuel (map sinstr_of app) labels st = Done st' tr ->
  forall ord, exists c,
    (forall fuel', (fuel_bound70 (length app) <= fuel')%nat -> mvp71_run_os par ord fuel' app labels st = (MDone c st', false)) /\
    Z.of_nat (length tr) + 2 <= 2 * c /\
    (forall fuel', (fuel_bound70 (length app) <= fuel')%nat -> mvp70_run_os par ord fuel' app labels st = (MDone c st', false)) /\
    (forall fuel', (fuel_bound63 (length app) <= fuel')%nat -> mvp63_run_os par ord fuel' app labels st = (MDone (c - 1) st', false)).
Proof. exact mvp71_run_ssa_straight. Qed.
Print Assumptions C12_mvp71_run_ssa_straight.

Theorem C12_mvp71_ghost_clear_ssa_straight : forall app labels, wf_app app ->
  straight app = true -> reg_only app = true -> ssa app = true -> regs_ok app = true ->
  forall par fuel st st' tr, (1 <= par)%nat ->
  Forall int32 (regs st) -> length (regs st) = 32%nat -> nth 0 (regs st) 0 = 0 ->
  seq_run fuel (map sinstr_of app) labels st = Done st' tr ->
  forall ord fuel', (fuel_bound70 (length app) <= fuel')%nat -> snd (mvp71_run_os par ord fuel' app labels st) = false.
Proof. exact mvp71_ghost_clear_ssa_straight. Qed.
Print Assumptions C12_mvp71_ghost_clear_ssa_straight.

(* C07: termination within the bound, no panic, no error *)
Theorem C07_mvp71_terminates_ssa_straight : forall app labels, wf_app app ->
  straight app = true -> reg_only app = true -> ssa app = true -> regs_ok app = true ->
  forall par fuel st st' tr, (1 <= par)%nat ->
  Forall int32 (regs st) -> length (regs st) = 32%nat -> nth 0 (regs st) 0 = 0 ->
  seq_run fuel (map sinstr_of app) labels st = Done st' tr ->
  forall ord, exists c, mvp71_run par ord (fuel_bound70 (length app)) app labels st = MDone c st' /\ (Z.of_nat (length tr) + 1) / 2 + 1 <= c.
Proof. exact mvp71_terminates_ssa_straight. Qed.
Print Assumptions C07_mvp71_terminates_ssa_straight.

Theorem C07_mvp71_no_panic_ssa_straight : forall app labels, wf_app app ->
  straight app = true -> reg_only app = true -> ssa app = true -> regs_ok app = true ->
  forall par fuel st st' tr, (1 <= par)%nat ->
  Forall int32 (regs st) -> length (regs st) = 32%nat -> nth 0 (regs st) 0 = 0 ->
  seq_run fuel (map sinstr_of app) labels st = Done st' tr ->
  forall ord fuel', (fuel_bound70 (length app) <= fuel')%nat ->
  mvp71_run par ord fuel' app labels st <> MPanic /\ mvp71_run par ord fuel' app labels st <> MOutOfFuel /\
  (forall e, mvp71_run par ord fuel' app labels st <> MErr e).
Proof. exact mvp71_no_panic_ssa_straight. Qed.
Print Assumptions C07_mvp71_no_panic_ssa_straight.

(* ------------------------------------------------------------------ *)
(* non-vacuity: the 14-instruction example of C01_mvp63.v               *)

(* an instance of the theorem itself: ANY number of cores, ANY order function, ANY fuel *)
Theorem C01_mvp71_example_sim : forall par ord fuel, (1 <= par)%nat ->
  mvp71_run_os par ord fuel (map instr_of ex63_prog) no_labels zero32 =
  mvp70_run_os par ord fuel (map instr_of ex63_prog) no_labels zero32.
Proof. exact mvp71_ssa_example_sim. Qed.
Print Assumptions C01_mvp71_example_sim.

Theorem C01_mvp71_example_any : forall par ord, (1 <= par)%nat ->
  exists c st', seq_run 100 (map sinstr_of (map instr_of ex63_prog)) no_labels zero32 = Done st' (rev (map (fun k => 4 * Z.of_nat k) (seq 0 14))) /\
    (forall fuel, (fuel_bound70 14 <= fuel)%nat -> mvp71_run_os par ord fuel (map instr_of ex63_prog) no_labels zero32 = (MDone c st', false)) /\
    rget (regs st') 18 = 251 /\ 8 <= c.
Proof. exact mvp71_ssa_example_any. Qed.
Print Assumptions C01_mvp71_example_any.

(* by computation: 1..4 cores, both orders; the runs end *)
Theorem C01_mvp71_example : forall par, In par [1; 2; 3; 4]%nat ->
  mvp71_run_os par ord_asc 3001 (map instr_of ex63_prog) no_labels zero32 =
  mvp70_run_os par ord_asc 3001 (map instr_of ex63_prog) no_labels zero32 /\
  mvp71_run_os par ord_desc 3001 (map instr_of ex63_prog) no_labels zero32 =
  mvp70_run_os par ord_desc 3001 (map instr_of ex63_prog) no_labels zero32 /\
  fst (mvp71_run_os par ord_asc 3001 (map instr_of ex63_prog) no_labels zero32) <> MOutOfFuel.
Proof. exact mvp71_ssa_example. Qed.
Print Assumptions C01_mvp71_example.
