(* C01 / C12 / C07 for MVP-6.0 (proc/mvp6-0: the first superscalar variant - fetch unit
   with L1I, decode unit, control unit dispatching up to two instructions per cycle
   to `par` execute units under the scoreboard's RAW / WAW / WAR checks, `par` write
   units, out-of-order write-back, branch unit + BTB, flush) on REGISTER-ONLY programs.
   Property theorems only; the proofs are in Mvp/Mvp60RefProofs.v (and Mvp60RefSem,
   Mvp60RefDefs, Mvp60RefFront, Mvp60RefBack, Mvp60RefStep, Mvp60RefStep2, Mvp60RefSeg,
   Mvp60RefBranch), about the cycle-level model Mvp/Mvp60.v, which is tied to proc/mvp6-0
   by exact equality of cycles, registers and memory in the system differential.

   Two program classes:
     straight app      : no conditional branch and no j / jal / jalr in the text
                         (InstructionType_IsBranch); ret may occur anywhere, the run ends
                         at the first one.  Division is allowed (a division by zero makes
                         the sequential run fail, the hypothesis is then false).
     fwd_ok app labels : FORWARD control flow - every beq/bne/blt/bge/ble/bltu/bgeu/beqz/
                         bnez/j/jal names a defined, 4-aligned label strictly ahead of the
                         instruction and at most at the end of the text - and no div, rem,
                         jalr.  Branch shadows may contain anything else, including
                         instructions that write registers, ret, other branches and jumps.
                         div / rem are excluded because of the FINDING below.
   Common hypotheses:
     wf_app            : int32 immediates, text shorter than 2^31 - 8 bytes (as for MVP-1..5);
     reg_only app      : no load and no store instruction in the text
                         (without it the statement is false: C01_mvp60_memory_order_refuted);
     1 <= par          : any number of execute / write units (NewCPU is called with 1..4);
     ord               : any iteration order of Go's maps;
     Forall int32 regs, length regs <= 32 : int32 registers, at most 32 of them (the
                         scoreboard has 32 slots: C01_mvp60_more_than_32_registers_refuted).
   No hypothesis on the memory; none on the labels for straight-line programs.
   fuel_bound60 n = 400 * n + 1600 ticks of Run for a straight-line text of n instructions,
   fuel_bound60_fwd n = (n + 1) * (400 * n + 1600) with forward control flow (one segment
   per flush).

   What the proofs show about the design
   - the scoreboard makes every instruction in flight independent (no RAW, no WAW, no WAR
     on a register slot) of EVERY younger dispatched instruction, written back or not;
     therefore write-backs commute, an instruction reads its sequential operands whenever
     an execute unit gets to it, and the register file is the sequential one as soon as
     nothing is in flight (Mvp60RefSem.BackSem, bs_dispatch / bs_writeback / bs_reads);
   - on register-only programs an execute unit never waits for the write bus, so a branch
     executes in the cycle after its dispatch; everything dispatched behind it is then still
     in the execute bus or (executed in the same cycle) in the buffer of the write bus, and
     the write-back loop of the flush drops it (writeUnit.cycle(ctx, from)): wrong-path
     register writes never reach the register file (Mvp60RefSem.bw_squash);
   - but a wrong-path instruction that FAILS (div / rem by zero) aborts the run when it is
     executed in the same cycle as the branch: C01_mvp60_taken_branch_shadow_error_refuted. *)
From Coq Require Import ZArith List Bool Lia.
From Maj Require Import Base.Outcome Base.GoInt Isa.Spec Isa.Seq Isa.Refine Gen.Opcodes.
From Maj Require Import Mvp.Mvp12 Mvp.Mvp12Proofs Mvp.Mvp4Skel Mvp.Mvp4Proofs Mvp.Mvp60 Mvp.Mvp60RefDefs Mvp.Mvp60RefProofs Mvp.Mvp60RefBranch.
Import ListNotations.
Open Scope Z_scope.

(* C01: for every straight-line register-only program on which the sequential machine
   terminates, multiple issue with out-of-order write-back returns - no error, no panic -
   exactly the sequential registers and memory, for every fuel from fuel_bound60 on *)
Theorem C01_mvp60_refines_seq_straight : forall app labels, wf_app app ->
  straight app = true -> reg_only app = true ->
  forall par ord fuel st st' tr, (1 <= par)%nat ->
  Forall int32 (regs st) -> (length (regs st) <= 32)%nat ->
  seq_run fuel (map sinstr_of app) labels st = Done st' tr ->
  exists c, forall fuel', (fuel_bound60 (length app) <= fuel')%nat -> mvp60_run par ord fuel' app labels st = MDone c st'.
Proof. exact mvp60_refines_seq_straight. Qed.
Print Assumptions C01_mvp60_refines_seq_straight.

(* the same with the cycle count: at least half the number of executed instructions *)
Theorem C12_mvp60_run_straight : forall app labels, wf_app app ->
  straight app = true -> reg_only app = true ->
  forall par ord fuel st st' tr, (1 <= par)%nat ->
  Forall int32 (regs st) -> (length (regs st) <= 32)%nat ->
  seq_run fuel (map sinstr_of app) labels st = Done st' tr ->
  exists c, (forall fuel', (fuel_bound60 (length app) <= fuel')%nat -> mvp60_run par ord fuel' app labels st = MDone c st') /\
            Z.of_nat (length tr) <= 2 * c.
Proof. exact mvp60_run_straight. Qed.
Print Assumptions C12_mvp60_run_straight.

(* C12: whenever the model finishes, with whatever fuel, it returns the sequential state
   and has counted at least ceil(executed instructions / 2) cycles (issue width two) *)
Theorem C12_mvp60_cycles_lower_bound_straight : forall app labels, wf_app app ->
  straight app = true -> reg_only app = true ->
  forall par ord fuel st st' tr, (1 <= par)%nat ->
  Forall int32 (regs st) -> (length (regs st) <= 32)%nat ->
  seq_run fuel (map sinstr_of app) labels st = Done st' tr ->
  forall fuel' c st'', mvp60_run par ord fuel' app labels st = MDone c st'' ->
  st'' = st' /\ Z.of_nat (length tr) <= 2 * c /\ (Z.of_nat (length tr) + 1) / 2 <= c.
Proof. exact mvp60_cycles_lower_bound_straight. Qed.
Print Assumptions C12_mvp60_cycles_lower_bound_straight.

(* C07: termination within fuel_bound60 (length app) ticks *)
Theorem C07_mvp60_terminates_straight : forall app labels, wf_app app ->
  straight app = true -> reg_only app = true ->
  forall par ord fuel st st' tr, (1 <= par)%nat ->
  Forall int32 (regs st) -> (length (regs st) <= 32)%nat ->
  seq_run fuel (map sinstr_of app) labels st = Done st' tr ->
  exists c, mvp60_run par ord (fuel_bound60 (length app)) app labels st = MDone c st' /\
            (Z.of_nat (length tr) + 1) / 2 <= c.
Proof. exact mvp60_terminates_straight. Qed.
Print Assumptions C07_mvp60_terminates_straight.

Theorem C07_mvp60_no_panic_straight : forall app labels, wf_app app ->
  straight app = true -> reg_only app = true ->
  forall par ord fuel st st' tr, (1 <= par)%nat ->
  Forall int32 (regs st) -> (length (regs st) <= 32)%nat ->
  seq_run fuel (map sinstr_of app) labels st = Done st' tr ->
  forall fuel', (fuel_bound60 (length app) <= fuel')%nat ->
  mvp60_run par ord fuel' app labels st <> MPanic /\ mvp60_run par ord fuel' app labels st <> MOutOfFuel /\
  (forall e, mvp60_run par ord fuel' app labels st <> MErr e).
Proof. exact mvp60_no_panic_straight. Qed.
Print Assumptions C07_mvp60_no_panic_straight.

(* C01 with forward control flow: conditional branches, j and jal to labels ahead, arbitrary
   branch shadows (no div / rem / jalr): the pipeline - speculative dispatch behind branches,
   flush, BTB - returns exactly the sequential registers and memory *)
Theorem C01_mvp60_refines_seq_forward : forall app labels, wf_app app ->
  reg_only app = true -> fwd_ok app labels = true ->
  forall par ord fuel st st' tr, (1 <= par)%nat ->
  Forall int32 (regs st) -> (length (regs st) <= 32)%nat ->
  seq_run fuel (map sinstr_of app) labels st = Done st' tr ->
  exists c, forall fuel', (fuel_bound60_fwd (length app) <= fuel')%nat -> mvp60_run par ord fuel' app labels st = MDone c st'.
Proof. exact mvp60_refines_seq_forward. Qed.
Print Assumptions C01_mvp60_refines_seq_forward.

Theorem C07_mvp60_fuel_bound_fwd_value : forall n, fuel_bound60_fwd n = ((n + 1) * (400 * n + 1600))%nat.
Proof. reflexivity. Qed.

Theorem C07_mvp60_fuel_bound_value : forall n, fuel_bound60 n = (400 * n + 1600)%nat.
Proof. reflexivity. Qed.

(* findings: why the hypotheses are there *)

(* programs WITH loads and stores: false for the faithful model at two or more execute
   units.  MVP-6.0 tracks no memory dependence: the second load is dispatched with the
   store (no register hazard between them), finds the line in L3 while the store is
   still waiting in the write bus, and reads the old word; the store itself ...
   lw x6,0(x0) ; li x5,7 ; sw x5,0(x0) ; lw x6,0(x0) : expected x6 = 7, mem[0] = 7 *)
Theorem C01_mvp60_memory_order_refuted :
  let p := [SLw 6 0 0; SLi 5 7; SSw 5 0 0; SLw 6 0 0] in
  let st := mk_arch (repeat 0 32) (repeat 0 256) in
  wf_app (map instr_of p) /\ straight (map instr_of p) = true /\
  exists st' tr st6,
    seq_run 20 p no_lab st = Done st' tr /\
    mvp60_run 2 (ord_policy 0) 5000 (map instr_of p) no_lab st = MDone 985 st6 /\
    rget (regs st') 6 = 7 /\ mget (mem st') 0 = 7 /\
    rget (regs st6) 6 = 0 /\ mget (mem st6) 0 = 0.
Proof.
  cbv zeta. split; [|split].
  - split; [|vm_compute; reflexivity]. repeat constructor; vm_compute; discriminate.
  - vm_compute. reflexivity.
  - do 3 eexists. split; [vm_compute; reflexivity|]. split; [vm_compute; reflexivity|]. vm_compute. repeat split; reflexivity.
Qed.
Print Assumptions C01_mvp60_memory_order_refuted.

(* why (length (regs st) <= 32): the scoreboard has 32 slots; a write to a register number
   above 31 is not tracked, the dependent instruction is dispatched one cycle later,
   executes in the cycle in which the first one is still in the write bus and reads the
   old value (the Go code uses a [32]int32 array, where such a number cannot occur; the
   list-based model and the sequential machine accept any length) *)
Theorem C01_mvp60_more_than_32_registers_refuted :
  let p := [SLi 35 7; SAddi 36 35 1] in
  let st := mk_arch (repeat 0 40) (repeat 0 64) in
  exists st' tr c st6,
    seq_run 10 p no_lab st = Done st' tr /\
    mvp60_run 1 (ord_policy 0) 3000 (map instr_of p) no_lab st = MDone c st6 /\
    nth 36 (regs st') 0 = 8 /\ nth 36 (regs st6) 0 = 1.
Proof. cbv zeta. do 4 eexists. split; [vm_compute; reflexivity|]. split; [vm_compute; reflexivity|]. vm_compute. split; reflexivity. Qed.
Print Assumptions C01_mvp60_more_than_32_registers_refuted.

(* FINDING: the theorem does not extend to programs with one taken forward branch.
   li x5,0 ; beq x5,x5,L ; div x6,x5,x5 ; L: li x7,9  - the sequential machine skips the div
   and ends with x7 = 9 after three instructions; with two or more execute units MVP-6.0
   dispatches the div together with the branch and executes it, on the wrong path, in the
   cycle in which the branch is resolved: Run returns "division by zero".  One execute
   unit: correct. *)
Theorem C01_mvp60_taken_branch_shadow_error_refuted :
  let app := map instr_of shadow_div_prog in
  wf_app app /\ reg_only app = true /\ one_forward_branch app shadow_labels = true /\
  exists st' tr,
    seq_run 10 (map sinstr_of app) shadow_labels zero_state = Done st' tr /\
    length tr = 3%nat /\ rget (regs st') 7 = 9 /\
    mvp60_run 1 (ord_policy 0) 3000 app shadow_labels zero_state = MDone 323 st' /\
    mvp60_run 2 (ord_policy 0) 3000 app shadow_labels zero_state = MErr EDivZero /\
    mvp60_run 3 (ord_policy 0) 3000 app shadow_labels zero_state = MErr EDivZero /\
    mvp60_run 4 (ord_policy 0) 3000 app shadow_labels zero_state = MErr EDivZero.
Proof. exact mvp60_taken_branch_shadow_error_refuted. Qed.
Print Assumptions C01_mvp60_taken_branch_shadow_error_refuted.

(* the wrong-path instruction need not write a register: rem x0,x5,x5 *)
Theorem C01_mvp60_taken_branch_shadow_x0_error_refuted :
  let app := map instr_of shadow_div0_prog in
  wf_app app /\ reg_only app = true /\ one_forward_branch app shadow_labels = true /\
  exists st' tr,
    seq_run 10 (map sinstr_of app) shadow_labels zero_state = Done st' tr /\
    length tr = 3%nat /\ rget (regs st') 7 = 9 /\
    mvp60_run 1 (ord_policy 0) 3000 app shadow_labels zero_state = MDone 323 st' /\
    mvp60_run 2 (ord_policy 0) 3000 app shadow_labels zero_state = MErr EDivZero.
Proof. exact mvp60_taken_branch_shadow_x0_error_refuted. Qed.
Print Assumptions C01_mvp60_taken_branch_shadow_x0_error_refuted.

(* NOT a counterexample (the witness suggested for this defect class): register writes in
   the shadow of a taken branch are dropped by the flush (writeUnit.cycle(ctx, from)) *)
Example C01_mvp60_taken_branch_shadow_write_example :
  let app := map instr_of shadow_write_prog in
  wf_app app /\ reg_only app = true /\ one_forward_branch app shadow_write_labels = true /\
  exists st' tr,
    seq_run 10 (map sinstr_of app) shadow_write_labels zero_state = Done st' tr /\
    length tr = 3%nat /\ rget (regs st') 6 = 0 /\ rget (regs st') 7 = 0 /\ rget (regs st') 8 = 4 /\
    mvp60_run 1 (ord_policy 0) 3000 app shadow_write_labels zero_state = MDone 323 st' /\
    mvp60_run 2 (ord_policy 0) 3000 app shadow_write_labels zero_state = MDone 324 st' /\
    mvp60_run 3 (ord_policy 0) 3000 app shadow_write_labels zero_state = MDone 324 st' /\
    mvp60_run 4 (ord_policy 0) 3000 app shadow_write_labels zero_state = MDone 324 st'.
Proof. exact mvp60_taken_branch_shadow_write_example. Qed.

(* non-vacuity: twelve instructions with RAW (x5 -> addi, x7 -> mul, ...), WAW (x5, x7, x8
   written twice) and WAR (li x5 after add reads x5; li x8 after addi reads x8) dependences,
   three execute / write units *)
Definition ex60_prog : list sinstr :=
  [SLi 5 3; SAddi 6 5 1; SAdd 7 5 6; SLi 5 9; SMul 8 7 5; SAddi 7 8 2;
   SSub 9 7 5; SLi 8 1; SAdd 10 8 9; SMv 5 10; SXor 11 5 6; SAddi 12 11 1].

Example C01_mvp60_example :
  let app := map instr_of ex60_prog in
  wf_app app /\ straight app = true /\ reg_only app = true /\
  Forall int32 (regs zero_state) /\ (length (regs zero_state) <= 32)%nat /\
  exists st' tr c,
    seq_run 100 (map sinstr_of app) no_lab zero_state = Done st' tr /\
    mvp60_run 3 (ord_policy 0) (fuel_bound60 (length app)) app no_lab zero_state = MDone c st' /\
    length tr = 12%nat /\ c = 344 /\ (Z.of_nat (length tr) + 1) / 2 <= c /\
    rget (regs st') 5 = 57 /\ rget (regs st') 7 = 65 /\ rget (regs st') 8 = 1 /\ rget (regs st') 12 = 62.
Proof.
  cbv zeta. split; [|split; [|split; [|split; [|split]]]].
  - split; [|vm_compute; reflexivity]. cbn [map ex60_prog instr_of]. repeat constructor; vm_compute; discriminate.
  - vm_compute. reflexivity.
  - vm_compute. reflexivity.
  - apply Forall_forall. intros x Hx. apply repeat_spec in Hx. subst x. apply int32_0.
  - vm_compute. lia.
  - do 3 eexists. split; [vm_compute; reflexivity|]. split; [vm_compute; reflexivity|].
    vm_compute. repeat split; try reflexivity; discriminate.
Qed.

(* non-vacuity of the forward class: a not-taken branch, a jump over an instruction, a taken
   branch with two register writes in its shadow, a jal (link register), a ret with an
   instruction behind it; 10 of the 15 instructions are executed *)
Definition exf_prog : list sinstr :=
  [SLi 5 3; SLi 6 4; SBeq 5 6 1; SAddi 7 5 1; SJ 2; SLi 7 99; (* 24: L2 *) SBne 5 6 3; SLi 8 77; SLi 9 88;
   (* 36: L3 *) SJal 1 4; SNop; (* 44: L4 *) SAdd 10 7 5; SMul 11 10 10; SRet; SLi 12 1].
Definition exf_labels : Z -> option Z := lookup [(1, 20); (2, 24); (3, 36); (4, 44)].

Example C01_mvp60_forward_example :
  let app := map instr_of exf_prog in
  wf_app app /\ reg_only app = true /\ fwd_ok app exf_labels = true /\
  Forall int32 (regs zero_state) /\ (length (regs zero_state) <= 32)%nat /\
  exists st' tr c,
    seq_run 100 (map sinstr_of app) exf_labels zero_state = Done st' tr /\
    mvp60_run 3 (ord_policy 0) (fuel_bound60_fwd (length app)) app exf_labels zero_state = MDone c st' /\
    length tr = 10%nat /\ c = 343 /\
    rget (regs st') 1 = 40 /\ rget (regs st') 7 = 4 /\ rget (regs st') 8 = 0 /\ rget (regs st') 9 = 0 /\
    rget (regs st') 11 = 49 /\ rget (regs st') 12 = 0.
Proof.
  cbv zeta. split; [|split; [|split; [|split; [|split]]]].
  - split; [|vm_compute; reflexivity]. cbn [map exf_prog instr_of]. repeat constructor; vm_compute; discriminate.
  - vm_compute. reflexivity.
  - vm_compute. reflexivity.
  - apply Forall_forall. intros x Hx. apply repeat_spec in Hx. subst x. apply int32_0.
  - vm_compute. lia.
  - do 3 eexists. split; [vm_compute; reflexivity|]. split; [vm_compute; reflexivity|].
    vm_compute. repeat split; reflexivity.
Qed.
