(* C01 / C12 / C07 for MVP-5 (the MVP-4 pipeline plus a 4-entry branch target buffer,
   the decode stall after an unconditional jump - pendingBranchResolution -, the
   fetch redirect that also cleans the decode latch, and the execute-unit reset on a
   flush) on REGISTER-ONLY programs.
   Property theorems only; the proofs are in Mvp/Mvp5Proofs.v (and Mvp5Skel,
   Mvp5Inv, Mvp5Front, Mvp5Sim, reusing Mvp4Inv/Units/Front/Sim), about the
   cycle-level model Mvp/Mvp5.v, which is tied to proc/mvp5 by exact equality of
   cycles, registers and memory in the system differential.

   Hypotheses (the same as for MVP-4, Props/C01_mvp4.v):
     wf_app, wf_labels : int32 immediates and label targets, text shorter than
                         2^31 - 8 bytes;
     reg_only app      : no load and no store instruction in the text;
     inv, length <= 32 : int32 registers (at most 32 of them), int8 memory;
     path_below        : every pc the SEQUENTIAL run visits, including the one at
                         which it leaves the text, is below 2^31 - 4 (see
                         C01_mvp5_exit_near_int32_max_panics_refuted).
   seq_path is the list of visited pcs (executed pcs + the halting pc);
   fuel_bound n = (n + 1) * 415 iterations of the Run loop (the bound of MVP-4).
   mvp5_cost is the skeleton of the pipeline (control state + BTB content, no
   register value) run along the path.

   About the BTB: a jump found in the BTB never flushes, whatever target was
   recorded; the fetch unit is always redirected to the resolved target when the
   jump executes and the decode unit is stalled in between, so a wrong prediction
   (a subroutine return to a second call site) costs no flush and cannot corrupt
   the architectural state - this is part of what C01_mvp5_refines_seq_regonly
   proves. *)
From Coq Require Import ZArith List Bool Lia.
From Maj Require Import Base.Outcome Base.GoInt Isa.Spec Isa.Seq Isa.Refine Gen.Opcodes.
From Maj Require Import Mvp.Mvp12 Mvp.Mvp12Proofs Mvp.Mvp4 Mvp.Mvp5 Mvp.Mvp4Skel Mvp.Mvp4Proofs Mvp.Mvp5Skel Mvp.Mvp5Proofs.
Import ListNotations.
Open Scope Z_scope.

(* C01: for every register-only program on which the sequential machine terminates,
   the pipeline returns - no error, no panic - exactly the sequential registers and
   memory, for every fuel from fuel_bound (length tr) on *)
Theorem C01_mvp5_refines_seq_regonly : forall app labels, wf_app app -> wf_labels labels ->
  reg_only app = true ->
  forall fuel st st' tr,
  inv (regs st) (mem st) -> (length (regs st) <= 32)%nat ->
  seq_run fuel (map sinstr_of app) labels st = Done st' tr ->
  path_below (seq_path fuel (map sinstr_of app) labels st 0) = true ->
  exists c, forall fuel', (fuel_bound (length tr) <= fuel')%nat -> mvp5_run fuel' app labels st = MDone c st'.
Proof. exact mvp5_refines_seq_regonly. Qed.
Print Assumptions C01_mvp5_refines_seq_regonly.

(* C12: a finished run counted at least one cycle (any program, any state) *)
Theorem C12_mvp5_cycles_at_least_one : forall fuel app labels st c st',
  mvp5_run fuel app labels st = MDone c st' -> 1 <= c.
Proof. exact mvp5_cycles_at_least_one. Qed.
Print Assumptions C12_mvp5_cycles_at_least_one.

(* C12: whenever the model finishes, with whatever fuel, it returns the sequential
   state and has counted at least one cycle per executed instruction (issue width 1) *)
Theorem C12_mvp5_cycles_lower_bound : forall app labels, wf_app app -> wf_labels labels ->
  reg_only app = true ->
  forall fuel st st' tr fuel' c st'',
  inv (regs st) (mem st) -> (length (regs st) <= 32)%nat ->
  seq_run fuel (map sinstr_of app) labels st = Done st' tr ->
  path_below (seq_path fuel (map sinstr_of app) labels st 0) = true ->
  mvp5_run fuel' app labels st = MDone c st'' ->
  st'' = st' /\ 1 <= c /\ Z.of_nat (length tr) <= c.
Proof. exact mvp5_cycles_lower_bound. Qed.
Print Assumptions C12_mvp5_cycles_lower_bound.

(* C12: the cycle count is mvp5_cost, a function of the program and the path only *)
Theorem C12_mvp5_cycles_function_of_path : forall app labels, wf_app app -> wf_labels labels ->
  reg_only app = true ->
  forall fuel st st' tr,
  inv (regs st) (mem st) -> (length (regs st) <= 32)%nat ->
  seq_run fuel (map sinstr_of app) labels st = Done st' tr ->
  path_below (seq_path fuel (map sinstr_of app) labels st 0) = true ->
  forall fuel', (fuel_bound (length tr) <= fuel')%nat ->
  exists c, mvp5_cost fuel' app (seq_path fuel (map sinstr_of app) labels st 0) = Some c /\
            mvp5_run fuel' app labels st = MDone c st'.
Proof. exact mvp5_cycles_function_of_path. Qed.
Print Assumptions C12_mvp5_cycles_function_of_path.

(* C12: two initial states with the same path take the same number of cycles (the
   BTB content is a function of the path) *)
Theorem C12_mvp5_value_independent : forall app labels, wf_app app -> wf_labels labels ->
  reg_only app = true ->
  forall fuel st1 st2 st1' st2' tr1 tr2,
  inv (regs st1) (mem st1) -> (length (regs st1) <= 32)%nat ->
  inv (regs st2) (mem st2) -> (length (regs st2) <= 32)%nat ->
  seq_run fuel (map sinstr_of app) labels st1 = Done st1' tr1 ->
  seq_run fuel (map sinstr_of app) labels st2 = Done st2' tr2 ->
  seq_path fuel (map sinstr_of app) labels st1 0 = seq_path fuel (map sinstr_of app) labels st2 0 ->
  path_below (seq_path fuel (map sinstr_of app) labels st1 0) = true ->
  exists c, forall fuel', (fuel_bound (Nat.max (length tr1) (length tr2)) <= fuel')%nat ->
    mvp5_run fuel' app labels st1 = MDone c st1' /\ mvp5_run fuel' app labels st2 = MDone c st2'.
Proof. exact mvp5_value_independent. Qed.
Print Assumptions C12_mvp5_value_independent.

(* C07: the run terminates within fuel_bound (length tr) iterations and
   2 * fuel_bound (length tr) cycles *)
Theorem C07_mvp5_terminates : forall app labels, wf_app app -> wf_labels labels ->
  reg_only app = true ->
  forall fuel st st' tr,
  inv (regs st) (mem st) -> (length (regs st) <= 32)%nat ->
  seq_run fuel (map sinstr_of app) labels st = Done st' tr ->
  path_below (seq_path fuel (map sinstr_of app) labels st 0) = true ->
  exists c, mvp5_run (fuel_bound (length tr)) app labels st = MDone c st' /\
            Z.of_nat (length tr) <= c <= 2 * Z.of_nat (fuel_bound (length tr)).
Proof. exact mvp5_terminates. Qed.
Print Assumptions C07_mvp5_terminates.

Theorem C07_mvp5_no_panic : forall app labels, wf_app app -> wf_labels labels ->
  reg_only app = true ->
  forall fuel st st' tr fuel',
  inv (regs st) (mem st) -> (length (regs st) <= 32)%nat ->
  seq_run fuel (map sinstr_of app) labels st = Done st' tr ->
  path_below (seq_path fuel (map sinstr_of app) labels st 0) = true ->
  (fuel_bound (length tr) <= fuel')%nat ->
  mvp5_run fuel' app labels st <> MPanic /\ mvp5_run fuel' app labels st <> MOutOfFuel /\
  (forall e, mvp5_run fuel' app labels st <> MErr e).
Proof. exact mvp5_no_panic. Qed.
Print Assumptions C07_mvp5_no_panic.

Theorem C07_mvp5_fuel_bound_value : forall n, fuel_bound n = ((n + 1) * 415)%nat.
Proof. exact fuel_bound_value. Qed.

(* the BTB in the skeleton: a jump found in the BTB never flushes (whatever the
   recorded target), a jump not found always does *)
Theorem C12_mvp5_predicted_jump_never_flushes : forall btb i pc t next,
  Mvp4Inv.uncond i = true -> btb_get btb pc = Some t -> sk5_flush btb i pc next = false.
Proof. exact mvp5_predicted_jump_never_flushes. Qed.
Print Assumptions C12_mvp5_predicted_jump_never_flushes.

Theorem C12_mvp5_unknown_jump_always_flushes : forall btb i pc next,
  Mvp4Inv.uncond i = true -> btb_get btb pc = None -> sk5_flush btb i pc next = true.
Proof. exact mvp5_unknown_jump_always_flushes. Qed.
Print Assumptions C12_mvp5_unknown_jump_always_flushes.

(* findings: why path_below is a hypothesis, why "same path" cannot be weakened to
   "same trace of executed pcs", why at most 32 registers *)
Theorem C01_mvp5_exit_near_int32_max_panics_refuted :
  let p := [SJalr 0 0 2147483646] in
  wf_app (map instr_of p) /\ reg_only (map instr_of p) = true /\
  (exists st' tr, seq_run 10 (map sinstr_of (map instr_of p)) no_lab zero_state = Done st' tr) /\
  path_below (seq_path 10 (map sinstr_of (map instr_of p)) no_lab zero_state 0) = false /\
  mvp5_run 2000 (map instr_of p) no_lab zero_state = MPanic.
Proof. exact mvp5_exit_near_int32_max_panics_refuted. Qed.
Print Assumptions C01_mvp5_exit_near_int32_max_panics_refuted.

Theorem C12_mvp5_same_trace_different_cycles_refuted :
  let p := [SJalr 0 5 0] in
  exists st1' st2' tr,
    seq_run 10 (map sinstr_of (map instr_of p)) no_lab (state_x5 4) = Done st1' tr /\
    seq_run 10 (map sinstr_of (map instr_of p)) no_lab (state_x5 1000) = Done st2' tr /\
    mvp5_run 2000 (map instr_of p) no_lab (state_x5 4) = MDone 314 st1' /\
    mvp5_run 2000 (map instr_of p) no_lab (state_x5 1000) = MDone 622 st2'.
Proof. exact mvp5_same_trace_different_cycles_refuted. Qed.
Print Assumptions C12_mvp5_same_trace_different_cycles_refuted.

Theorem C01_mvp5_more_than_32_registers_refuted :
  let p := [SLi 35 7; SAddi 36 35 1; SRet] in
  let st := mk_arch (repeat 0 40) (repeat 0 64) in
  exists st' tr c st5,
    seq_run 10 p no_lab st = Done st' tr /\
    mvp5_run 2000 (map instr_of p) no_lab st = MDone c st5 /\
    nth 36 (regs st') 0 = 8 /\ nth 36 (regs st5) 0 = 1.
Proof. exact mvp5_more_than_32_registers_refuted. Qed.
Print Assumptions C01_mvp5_more_than_32_registers_refuted.

(* non-vacuity: a loop with a taken backward branch (mispredicted twice: flush), RAW
   hazards (x5 -> add, x7 -> mul), and a subroutine at 40 called from two call sites
   (20 and 28) that returns with jalr zero, ra, 0: the jal at 20 and the jalr at 44
   miss in the BTB the first time (flush); the jal at 28 misses (flush); the second
   jalr at 44 HITS in the BTB with the stale target 24 - the fetch unit is sent to
   24, then redirected to the resolved target 32, without a flush.  MVP-4 needs 351
   cycles for the same run. *)
Definition ex5_prog : list sinstr :=
  [SLi 5 0; SLi 6 3; (* 8: loop *) SAddi 5 5 1; SAdd 7 7 5; SBlt 5 6 1;
   (* 20 *) SJal 1 2; SAddi 8 8 1; (* 28 *) SJal 1 2; SMul 9 7 7; SRet;
   (* 40: subroutine *) SAddi 10 10 1; SJalr 0 1 0].
Definition ex5_labels : Z -> option Z := lookup [(1, 8); (2, 40)].

Example C01_mvp5_example :
  let app := map instr_of ex5_prog in
  wf_app app /\ wf_labels ex5_labels /\ reg_only app = true /\
  inv (regs zero_state) (mem zero_state) /\ (length (regs zero_state) <= 32)%nat /\
  path_below (seq_path 100 (map sinstr_of app) ex5_labels zero_state 0) = true /\
  seq_path 100 (map sinstr_of app) ex5_labels zero_state 0
    = [0; 4; 8; 12; 16; 8; 12; 16; 8; 12; 16; 20; 40; 44; 24; 28; 40; 44; 32; 36] /\
  exists st' tr c,
    seq_run 100 (map sinstr_of app) ex5_labels zero_state = Done st' tr /\
    mvp5_run (fuel_bound (length tr)) app ex5_labels zero_state = MDone c st' /\
    mvp5_cost (fuel_bound (length tr)) app (seq_path 100 (map sinstr_of app) ex5_labels zero_state 0) = Some c /\
    length tr = 20%nat /\ c = 350 /\ rget (regs st') 7 = 6 /\ rget (regs st') 8 = 1 /\ rget (regs st') 9 = 36 /\
    rget (regs st') 10 = 2 /\ rget (regs st') 1 = 32 /\
    exists st4, mvp4_run (fuel_bound (length tr)) app ex5_labels zero_state = MDone 351 st4.
Proof.
  cbv zeta. split; [|split; [|split; [|split; [|split; [|split; [|split]]]]]].
  - split; [|vm_compute; reflexivity]. cbn [map ex5_prog instr_of]. repeat constructor; vm_compute; discriminate.
  - intros l a H. unfold ex5_labels in H. cbn [lookup] in H.
    destruct (l =? 1); [injection H as <-; apply int32_bounds; lia|].
    destruct (l =? 2); [injection H as <-; apply int32_bounds; lia | discriminate].
  - vm_compute. reflexivity.
  - split; apply Forall_forall; intros x Hx; apply repeat_spec in Hx; subst x; [apply int32_0 | apply int8_0].
  - vm_compute. lia.
  - vm_compute. reflexivity.
  - vm_compute. reflexivity.
  - do 3 eexists. split; [vm_compute; reflexivity|]. split; [vm_compute; reflexivity|].
    split; [vm_compute; reflexivity|]. vm_compute. repeat split; try reflexivity. eexists. reflexivity.
Qed.
