(* C01 / C05 / C07 / C12 for MVP-4 on programs WITH loads and stores whose stores may
   MISS in the L1D.  Property theorems only; proofs in Mvp/Mvp4sProofs.v (skeleton
   Mvp4sSkel.v, invariants and progress Mvp4sFront.v, simulation Mvp4sSim.v), about the
   cycle-level model Mvp/Mvp4.v.  Generalises Props/C05_mvp4.v (every store hits:
   C05_mvp4s_stores_hit_is_special_case).

   A store that misses in the L1D is put on the write bus (two slots); the write unit
   writes it to memory and then stays busy for MemoryAccess cycles; the execute unit
   stalls while the pending slot is occupied; ret / the end of the text / a flush drain
   the write unit.  The unrestricted statement is FALSE for the faithful model
   (C05_mvp4_cold_store_then_load_refuted, C05_mvp4s_three_cold_stores_one_line_refuted).
   Hypothesis used to exclude the defect, computed from the events (pc, loaded
   addresses, stored addresses) of the sequential run and the recency list of the
   16-line LRU L1D only - no timing:

     no_stale [] [] false evs.  Call "bus items" the executed instructions that are
       put on the write bus: all but the stores that hit in the L1D (and the ret).
       no_stale forbids exactly the pattern
           S0 (store hits)* S (store hits)* L
       S0, S: stores that MISS in the L1D, consecutive as bus items;
       L: a load of the 64-byte line written by S.

   So (by the theorem): one cold store followed by a load of its line is right; any
   number of cold stores followed by a load of a different line, or of the line of a
   store that is not the last bus item, is right; a cold store, any other instruction,
   a load of the stored line is right.  Outside the hypothesis: two cold stores + load
   of the second line is still right on the witness below (the stale fetch needs a
   third, earlier store keeping the write unit busy: timing), three are wrong.

   Other hypotheses as in Props/C05_mvp4.v.  fuel_bound_s n = (n + 1) * 1965. *)
From Coq Require Import ZArith List Bool Lia.
From Maj Require Import Base.Outcome Base.GoInt Isa.Spec Isa.Seq Isa.Refine Gen.Opcodes Gen.Latency.
From Maj Require Import Mvp.Mvp12 Mvp.Mvp12Proofs Mvp.Mvp3 Mvp.Mvp3Proofs Mvp.Mvp4 Mvp.Mvp4Skel Mvp.Mvp4Proofs
     Mvp.Mvp4mSkel Mvp.Mvp4mProofs Mvp.Mvp4sSkel Mvp.Mvp4sProofs.
Import ListNotations.
Open Scope Z_scope.

(* the pipeline returns exactly the sequential registers AND memory (every store is in
   main memory after the drain of the write unit and the final flush of the L1D), no
   error, no panic, for every fuel from fuel_bound_s (length tr) on; at least one cycle
   per executed instruction *)
Theorem C05_mvp4s_refines_seq_storemiss : forall app labels, wf_app app -> wf_labels labels ->
  forall fuel st st' tr,
  inv (regs st) (mem st) -> (length (regs st) <= 32)%nat -> mem_small st ->
  accesses_ok fuel (map sinstr_of app) labels st 0 ->
  seq_run fuel (map sinstr_of app) labels st = Done st' tr ->
  evs_below (seq_evs fuel (map sinstr_of app) labels st 0) = true ->
  no_stale [] [] false (seq_evs fuel (map sinstr_of app) labels st 0) = true ->
  exists c, (forall fuel', (fuel_bound_s (length tr) <= fuel')%nat -> mvp4_run fuel' app labels st = MDone c st') /\
            Z.of_nat (length tr) <= c.
Proof. exact mvp4_refines_seq_storemiss. Qed.
Print Assumptions C05_mvp4s_refines_seq_storemiss.

(* the cycle count is mvp4_cost_sm: a function of the program and the events *)
Theorem C12_mvp4s_cycles_function_of_events : forall app labels, wf_app app -> wf_labels labels ->
  forall fuel st st' tr,
  inv (regs st) (mem st) -> (length (regs st) <= 32)%nat -> mem_small st ->
  accesses_ok fuel (map sinstr_of app) labels st 0 ->
  seq_run fuel (map sinstr_of app) labels st = Done st' tr ->
  evs_below (seq_evs fuel (map sinstr_of app) labels st 0) = true ->
  no_stale [] [] false (seq_evs fuel (map sinstr_of app) labels st 0) = true ->
  exists c, (forall fuel', (fuel_bound_s (length tr) <= fuel')%nat ->
               mvp4_run fuel' app labels st = MDone c st' /\
               mvp4_cost_sm fuel' app (seq_evs fuel (map sinstr_of app) labels st 0) = Some c) /\
            Z.of_nat (length tr) <= c.
Proof. exact mvp4_run_events_s. Qed.
Print Assumptions C12_mvp4s_cycles_function_of_events.

Theorem C12_mvp4s_value_independent : forall app labels, wf_app app -> wf_labels labels ->
  forall fuel st1 st2 st1' st2' tr1 tr2,
  inv (regs st1) (mem st1) -> (length (regs st1) <= 32)%nat -> mem_small st1 ->
  accesses_ok fuel (map sinstr_of app) labels st1 0 ->
  inv (regs st2) (mem st2) -> (length (regs st2) <= 32)%nat -> mem_small st2 ->
  accesses_ok fuel (map sinstr_of app) labels st2 0 ->
  seq_run fuel (map sinstr_of app) labels st1 = Done st1' tr1 ->
  seq_run fuel (map sinstr_of app) labels st2 = Done st2' tr2 ->
  seq_evs fuel (map sinstr_of app) labels st1 0 = seq_evs fuel (map sinstr_of app) labels st2 0 ->
  evs_below (seq_evs fuel (map sinstr_of app) labels st1 0) = true ->
  no_stale [] [] false (seq_evs fuel (map sinstr_of app) labels st1 0) = true ->
  exists c, forall fuel', (fuel_bound_s (Nat.max (length tr1) (length tr2)) <= fuel')%nat ->
    mvp4_run fuel' app labels st1 = MDone c st1' /\ mvp4_run fuel' app labels st2 = MDone c st2'.
Proof. exact mvp4_value_independent_sm. Qed.
Print Assumptions C12_mvp4s_value_independent.

(* without the termination argument: whenever the cost function is defined, the model
   agrees with it and with the sequential machine (any fuel') *)
Theorem C05_mvp4s_simulation : forall app labels, wf_app app -> wf_labels labels ->
  forall fuel st st' tr fuel' c,
  inv (regs st) (mem st) -> (length (regs st) <= 32)%nat -> mem_small st ->
  accesses_ok fuel (map sinstr_of app) labels st 0 ->
  seq_run fuel (map sinstr_of app) labels st = Done st' tr ->
  evs_below (seq_evs fuel (map sinstr_of app) labels st 0) = true ->
  no_stale [] [] false (seq_evs fuel (map sinstr_of app) labels st 0) = true ->
  mvp4_cost_sm fuel' app (seq_evs fuel (map sinstr_of app) labels st 0) = Some c ->
  mvp4_run fuel' app labels st = MDone c st'.
Proof. exact mvp4_storemiss_sim. Qed.
Print Assumptions C05_mvp4s_simulation.

(* C07: no panic, no error, termination within fuel_bound_s (length tr) iterations *)
Theorem C07_mvp4s_no_panic : forall app labels, wf_app app -> wf_labels labels ->
  forall fuel st st' tr fuel',
  inv (regs st) (mem st) -> (length (regs st) <= 32)%nat -> mem_small st ->
  accesses_ok fuel (map sinstr_of app) labels st 0 ->
  seq_run fuel (map sinstr_of app) labels st = Done st' tr ->
  evs_below (seq_evs fuel (map sinstr_of app) labels st 0) = true ->
  no_stale [] [] false (seq_evs fuel (map sinstr_of app) labels st 0) = true ->
  (fuel_bound_s (length tr) <= fuel')%nat ->
  mvp4_run fuel' app labels st <> MPanic /\ mvp4_run fuel' app labels st <> MOutOfFuel /\
  (forall e, mvp4_run fuel' app labels st <> MErr e).
Proof. exact mvp4_no_panic_sm. Qed.
Print Assumptions C07_mvp4s_no_panic.

Theorem C07_mvp4s_fuel_bound_s_value : forall n, fuel_bound_s n = ((n + 1) * 1965)%nat.
Proof. exact fuel_bound_s_value. Qed.

(* the hypothesis of Props/C05_mvp4.v implies this one *)
Theorem C05_mvp4s_stores_hit_is_special_case : forall evs dt, stores_hit dt evs = true -> no_stale dt [] false evs = true.
Proof. exact stores_hit_no_stale. Qed.
Print Assumptions C05_mvp4s_stores_hit_is_special_case.

(* sharpness *)
Theorem C05_mvp4s_three_cold_stores_one_line_refuted :
  let p := [SLi 5 7; SSb 5 0 0; SSb 5 1 0; SSb 5 2 0; SLb 6 2 0; SRet] in
  no_stale [] [] false (seq_evs 20 (map sinstr_of (map instr_of p)) no_lab st_w 0) = false /\
  exists st' tr c st4,
    seq_run 20 p no_lab st_w = Done st' tr /\
    mvp4_run 5000 (map instr_of p) no_lab st_w = MDone c st4 /\
    rget (regs st') 6 = 7 /\ mget (mem st') 2 = 7 /\
    rget (regs st4) 6 = 0 /\ mget (mem st4) 2 = 0.
Proof. exact mvp4_three_cold_stores_one_line_refuted. Qed.
Print Assumptions C05_mvp4s_three_cold_stores_one_line_refuted.

Theorem C05_mvp4s_one_cold_store_then_load_ok :
  let p := [SLi 5 7; SSw 5 64 0; SLw 6 64 0; SRet] in
  no_stale [] [] false (seq_evs 20 (map sinstr_of (map instr_of p)) no_lab st_w 0) = true /\
  exists st' tr c,
    seq_run 20 p no_lab st_w = Done st' tr /\
    mvp4_run 5000 (map instr_of p) no_lab st_w = MDone c st' /\ rget (regs st') 6 = 7.
Proof. exact mvp4_one_cold_store_then_load_ok. Qed.

Theorem C05_mvp4s_two_cold_stores_then_load_still_right :
  let p := [SLi 5 7; SSw 5 0 0; SSw 5 64 0; SLw 6 64 0; SRet] in
  no_stale [] [] false (seq_evs 20 (map sinstr_of (map instr_of p)) no_lab st_w 0) = false /\
  exists st' tr c,
    seq_run 20 p no_lab st_w = Done st' tr /\
    mvp4_run 5000 (map instr_of p) no_lab st_w = MDone c st' /\ rget (regs st') 6 = 7.
Proof. exact mvp4_two_cold_stores_then_load_still_right. Qed.

Theorem C05_mvp4s_cold_stores_then_other_load_ok :
  let p := [SLi 5 7; SSw 5 0 0; SSw 5 128 0; SSw 5 64 0; SLw 6 192 0; SSw 5 0 0; SSw 5 128 0; SSw 5 64 0; SLw 7 128 0; SRet] in
  no_stale [] [] false (seq_evs 20 (map sinstr_of (map instr_of p)) no_lab st_w 0) = true /\
  exists st' tr c,
    seq_run 20 p no_lab st_w = Done st' tr /\
    mvp4_run 9000 (map instr_of p) no_lab st_w = MDone c st' /\ rget (regs st') 7 = 7 /\ mget (mem st') 64 = 7.
Proof. exact mvp4_cold_stores_then_other_load_ok. Qed.

(* non-vacuity: a loop of 20 iterations that stores (word, then byte) to fresh lines at
   2048 + 64 i which it never reads back (all these stores miss), loads from the lines
   64 i (20 lines, 16 fit: evictions and write-backs), RAW hazards, taken backward
   branches; finally a load of the evicted line 0 and a store that hits in it *)
Definition ex4s_prog : list sinstr :=
  [SLi 5 0; SLi 6 1280;
   (* 8: loop *) SSw 5 2048 5; SLw 7 0 5; SAdd 9 9 7; SSb 9 2052 5; SAddi 5 5 64; SBlt 5 6 1;
   SLw 8 0 0; SSw 9 4 0; SRet].
Definition ex4s_labels : Z -> option Z := lookup [(1, 8)].
Definition ex4s_state : arch := mk_arch (repeat 0 32) (repeat 3 4096).

Example C05_mvp4s_example :
  let app := map instr_of ex4s_prog in
  wf_app app /\ wf_labels ex4s_labels /\ inv (regs ex4s_state) (mem ex4s_state) /\
  (length (regs ex4s_state) <= 32)%nat /\ mem_small ex4s_state /\
  accesses_ok 400 (map sinstr_of app) ex4s_labels ex4s_state 0 /\
  evs_below (seq_evs 400 (map sinstr_of app) ex4s_labels ex4s_state 0) = true /\
  no_stale [] [] false (seq_evs 400 (map sinstr_of app) ex4s_labels ex4s_state 0) = true /\
  stores_hit [] (seq_evs 400 (map sinstr_of app) ex4s_labels ex4s_state 0) = false /\
  exists st' tr c,
    seq_run 400 (map sinstr_of app) ex4s_labels ex4s_state = Done st' tr /\
    mvp4_run (125 * 2000) app ex4s_labels ex4s_state = MDone c st' /\
    mvp4_cost_sm (125 * 2000) app (seq_evs 400 (map sinstr_of app) ex4s_labels ex4s_state 0) = Some c /\
    length tr = 125%nat /\ c = 19194 /\ mget (mem st') 2048 = 0 /\ mget (mem st') (2048 + 64 * 19) = -64 /\
    mget (mem st') (2052 + 64 * 19) = 60 /\ mget (mem st') 4 = 60.
Proof.
  cbv zeta. split; [|split; [|split; [|split; [|split; [|split; [|split; [|split; [|split]]]]]]]].
  - split; [|vm_compute; reflexivity]. cbn [map ex4s_prog instr_of]. repeat constructor; vm_compute; discriminate.
  - intros l a H. unfold ex4s_labels in H. cbn [lookup] in H.
    destruct (l =? 1); [injection H as <-; apply int32_bounds; lia | discriminate].
  - split; apply Forall_forall; intros x Hx; apply repeat_spec in Hx; subst x; [apply int32_0 | apply int8_bounds; lia].
  - vm_compute. lia.
  - vm_compute. discriminate.
  - apply accesses_okb_spec. vm_compute. reflexivity.
  - vm_compute. reflexivity.
  - vm_compute. reflexivity.
  - vm_compute. reflexivity.
  - do 3 eexists. split; [vm_compute; reflexivity|]. split; [vm_compute; reflexivity|].
    split; [vm_compute; reflexivity|]. vm_compute. repeat split; reflexivity.
Qed.
