(* C01 / C05 / C07 / C12 for MVP-5 on programs WITH loads and stores whose stores may
   MISS in the L1D.  Property theorems only; proofs in Mvp/Mvp5sProofs.v (skeleton
   Mvp5sSkel.v, invariants and progress Mvp5sFront.v, simulation Mvp5sSim.v, built on
   the MVP-4 files Mvp4s*.v as Mvp5m*.v are built on Mvp4m*.v), about the cycle-level
   model Mvp/Mvp5.v.  Generalises Props/C05_mvp5.v (every store hits).

   Hypothesis, as for MVP-4 (Props/C05_mvp4s.v): no_stale [] [] false evs forbids
   exactly the pattern   S0 (store hits)* S (store hits)* L   of the sequential run,
   S0, S stores that MISS in the L1D and are consecutive as bus items (= executed
   instructions other than stores that hit and the ret), L a load of the 64-byte line
   written by S.  fuel_bound_s n = (n + 1) * 1965. *)
From Coq Require Import ZArith List Bool Lia.
From Maj Require Import Base.Outcome Base.GoInt Isa.Spec Isa.Seq Isa.Refine Gen.Opcodes Gen.Latency.
From Maj Require Import Mvp.Mvp12 Mvp.Mvp12Proofs Mvp.Mvp3 Mvp.Mvp3Proofs Mvp.Mvp4 Mvp.Mvp5 Mvp.Mvp4Skel Mvp.Mvp4Proofs
     Mvp.Mvp4mSkel Mvp.Mvp4mProofs Mvp.Mvp4sSkel Mvp.Mvp4sProofs Mvp.Mvp5sSkel Mvp.Mvp5sProofs.
Import ListNotations.
Open Scope Z_scope.

Theorem C05_mvp5s_refines_seq_storemiss : forall app labels, wf_app app -> wf_labels labels ->
  forall fuel st st' tr,
  inv (regs st) (mem st) -> (length (regs st) <= 32)%nat -> mem_small st ->
  accesses_ok fuel (map sinstr_of app) labels st 0 ->
  seq_run fuel (map sinstr_of app) labels st = Done st' tr ->
  evs_below (seq_evs fuel (map sinstr_of app) labels st 0) = true ->
  no_stale [] [] false (seq_evs fuel (map sinstr_of app) labels st 0) = true ->
  exists c, (forall fuel', (fuel_bound_s (length tr) <= fuel')%nat -> mvp5_run fuel' app labels st = MDone c st') /\
            Z.of_nat (length tr) <= c.
Proof. exact mvp5_refines_seq_storemiss. Qed.
Print Assumptions C05_mvp5s_refines_seq_storemiss.

Theorem C12_mvp5s_cycles_function_of_events : forall app labels, wf_app app -> wf_labels labels ->
  forall fuel st st' tr,
  inv (regs st) (mem st) -> (length (regs st) <= 32)%nat -> mem_small st ->
  accesses_ok fuel (map sinstr_of app) labels st 0 ->
  seq_run fuel (map sinstr_of app) labels st = Done st' tr ->
  evs_below (seq_evs fuel (map sinstr_of app) labels st 0) = true ->
  no_stale [] [] false (seq_evs fuel (map sinstr_of app) labels st 0) = true ->
  exists c, (forall fuel', (fuel_bound_s (length tr) <= fuel')%nat ->
               mvp5_run fuel' app labels st = MDone c st' /\
               mvp5_cost_sm fuel' app (seq_evs fuel (map sinstr_of app) labels st 0) = Some c) /\
            Z.of_nat (length tr) <= c.
Proof. exact mvp5_run_events_s. Qed.
Print Assumptions C12_mvp5s_cycles_function_of_events.

Theorem C12_mvp5s_value_independent : forall app labels, wf_app app -> wf_labels labels ->
  forall fuel st1 st2 st1' st2' tr1 tr2,
  inv (regs st1) (mem st1) -> (length (regs st1) <= 32)%nat -> mem_small st1 ->
  accesses_ok fuel (map sinstr_of app) labels st1 0 ->
  inv (regs st2) (mem st2) -> (length (regs st2) <= 32)%nat -> mem_small st2 ->
  accesses_ok fuel (map sinstr_of app) labels st2 0 ->
  seq_run fuel (map sinstr_of app) labels st1 = Done st1' tr1 ->
  seq_run fuel (map sinstr_of app) labels st2 = Done st2' tr2 ->
  seq_evs fuel (map sinstr_of app) labels st1 0 = seq_evs fuel (map sinstr_of app) labels st2 0 ->
  evs_below (seq_evs fuel (map sinstr_of app) labels st1 0) = true ->
  no_stale [] [] false (seq_evs fuel (map sinstr_of app) labels st1 0) = true ->
  exists c, forall fuel', (fuel_bound_s (Nat.max (length tr1) (length tr2)) <= fuel')%nat ->
    mvp5_run fuel' app labels st1 = MDone c st1' /\ mvp5_run fuel' app labels st2 = MDone c st2'.
Proof. exact mvp5_value_independent_sm. Qed.
Print Assumptions C12_mvp5s_value_independent.

Theorem C05_mvp5s_simulation : forall app labels, wf_app app -> wf_labels labels ->
  forall fuel st st' tr fuel' c,
  inv (regs st) (mem st) -> (length (regs st) <= 32)%nat -> mem_small st ->
  accesses_ok fuel (map sinstr_of app) labels st 0 ->
  seq_run fuel (map sinstr_of app) labels st = Done st' tr ->
  evs_below (seq_evs fuel (map sinstr_of app) labels st 0) = true ->
  no_stale [] [] false (seq_evs fuel (map sinstr_of app) labels st 0) = true ->
  mvp5_cost_sm fuel' app (seq_evs fuel (map sinstr_of app) labels st 0) = Some c ->
  mvp5_run fuel' app labels st = MDone c st'.
Proof. exact mvp5_storemiss_sim. Qed.
Print Assumptions C05_mvp5s_simulation.

Theorem C07_mvp5s_no_panic : forall app labels, wf_app app -> wf_labels labels ->
  forall fuel st st' tr fuel',
  inv (regs st) (mem st) -> (length (regs st) <= 32)%nat -> mem_small st ->
  accesses_ok fuel (map sinstr_of app) labels st 0 ->
  seq_run fuel (map sinstr_of app) labels st = Done st' tr ->
  evs_below (seq_evs fuel (map sinstr_of app) labels st 0) = true ->
  no_stale [] [] false (seq_evs fuel (map sinstr_of app) labels st 0) = true ->
  (fuel_bound_s (length tr) <= fuel')%nat ->
  mvp5_run fuel' app labels st <> MPanic /\ mvp5_run fuel' app labels st <> MOutOfFuel /\
  (forall e, mvp5_run fuel' app labels st <> MErr e).
Proof. exact mvp5_no_panic_sm. Qed.
Print Assumptions C07_mvp5s_no_panic.

(* sharpness *)
Theorem C05_mvp5s_three_cold_stores_one_line_refuted :
  let p := [SLi 5 7; SSb 5 0 0; SSb 5 1 0; SSb 5 2 0; SLb 6 2 0; SRet] in
  no_stale [] [] false (seq_evs 20 (map sinstr_of (map instr_of p)) no_lab st_w 0) = false /\
  exists st' tr c st4,
    seq_run 20 p no_lab st_w = Done st' tr /\
    mvp5_run 5000 (map instr_of p) no_lab st_w = MDone c st4 /\
    rget (regs st') 6 = 7 /\ mget (mem st') 2 = 7 /\
    rget (regs st4) 6 = 0 /\ mget (mem st4) 2 = 0.
Proof. exact mvp5_three_cold_stores_one_line_refuted. Qed.
Print Assumptions C05_mvp5s_three_cold_stores_one_line_refuted.

Theorem C05_mvp5s_one_cold_store_then_load_ok :
  let p := [SLi 5 7; SSw 5 64 0; SLw 6 64 0; SRet] in
  no_stale [] [] false (seq_evs 20 (map sinstr_of (map instr_of p)) no_lab st_w 0) = true /\
  exists st' tr c,
    seq_run 20 p no_lab st_w = Done st' tr /\
    mvp5_run 5000 (map instr_of p) no_lab st_w = MDone c st' /\ rget (regs st') 6 = 7.
Proof. exact mvp5_one_cold_store_then_load_ok. Qed.

Theorem C05_mvp5s_two_cold_stores_then_load_still_right :
  let p := [SLi 5 7; SSw 5 0 0; SSw 5 64 0; SLw 6 64 0; SRet] in
  no_stale [] [] false (seq_evs 20 (map sinstr_of (map instr_of p)) no_lab st_w 0) = false /\
  exists st' tr c,
    seq_run 20 p no_lab st_w = Done st' tr /\
    mvp5_run 5000 (map instr_of p) no_lab st_w = MDone c st' /\ rget (regs st') 6 = 7.
Proof. exact mvp5_two_cold_stores_then_load_still_right. Qed.

Theorem C05_mvp5s_cold_stores_then_other_load_ok :
  let p := [SLi 5 7; SSw 5 0 0; SSw 5 128 0; SSw 5 64 0; SLw 6 192 0; SSw 5 0 0; SSw 5 128 0; SSw 5 64 0; SLw 7 128 0; SRet] in
  no_stale [] [] false (seq_evs 20 (map sinstr_of (map instr_of p)) no_lab st_w 0) = true /\
  exists st' tr c,
    seq_run 20 p no_lab st_w = Done st' tr /\
    mvp5_run 9000 (map instr_of p) no_lab st_w = MDone c st' /\ rget (regs st') 7 = 7 /\ mget (mem st') 64 = 7.
Proof. exact mvp5_cold_stores_then_other_load_ok. Qed.

(* non-vacuity: a loop of 20 iterations that stores to fresh lines 2048 + 64 i which it
   never reads back and to the cold line of 3500 (all these stores miss), calls a
   subroutine (jal at 12: BTB miss the first time, hit afterwards; the jalr at 48 always
   returns to 16: BTB hit), loads from the lines 64 i (20 lines, 16 fit: evictions and
   write-backs), RAW hazards, taken backward branches; finally a jump over the
   subroutine, a load of the evicted line 0, a store that hits in it and one that misses *)
Definition ex5s_prog : list sinstr :=
  [SLi 5 0; SLi 6 1280;
   (* 8: loop *) SSw 5 2048 5; SJal 1 2; SSb 9 2052 5; SLw 7 0 5; SSw 7 3500 0; SSw 7 3504 0; SAddi 5 5 64; SBlt 5 6 1;
   SJ 3;
   (* 44: subroutine *) SAddi 9 9 100; SJalr 0 1 0;
   (* 52 *) SLw 8 0 0; SSw 9 4 0; SSw 9 1000 0; SRet].
Definition ex5s_labels : Z -> option Z := lookup [(1, 8); (2, 44); (3, 52)].
Definition ex5s_state : arch := mk_arch (repeat 0 32) (repeat 3 4096).

Example C05_mvp5s_example :
  let app := map instr_of ex5s_prog in
  wf_app app /\ wf_labels ex5s_labels /\ inv (regs ex5s_state) (mem ex5s_state) /\
  (length (regs ex5s_state) <= 32)%nat /\ mem_small ex5s_state /\
  accesses_ok 600 (map sinstr_of app) ex5s_labels ex5s_state 0 /\
  evs_below (seq_evs 600 (map sinstr_of app) ex5s_labels ex5s_state 0) = true /\
  no_stale [] [] false (seq_evs 600 (map sinstr_of app) ex5s_labels ex5s_state 0) = true /\
  stores_hit [] (seq_evs 600 (map sinstr_of app) ex5s_labels ex5s_state 0) = false /\
  exists st' tr c,
    seq_run 600 (map sinstr_of app) ex5s_labels ex5s_state = Done st' tr /\
    mvp5_run (208 * 2000) app ex5s_labels ex5s_state = MDone c st' /\
    mvp5_cost_sm (208 * 2000) app (seq_evs 600 (map sinstr_of app) ex5s_labels ex5s_state 0) = Some c /\
    length tr = 207%nat /\ c = 31664 /\ mget (mem st') 2048 = 0 /\ mget (mem st') (2048 + 64 * 19) = -64 /\
    mget (mem st') (2052 + 64 * 19) = -48 /\ mget (mem st') 3500 = 3 /\ mget (mem st') 4 = -48 /\ mget (mem st') 1000 = -48.
Proof.
  cbv zeta. split; [|split; [|split; [|split; [|split; [|split; [|split; [|split; [|split]]]]]]]].
  - split; [|vm_compute; reflexivity]. cbn [map ex5s_prog instr_of]. repeat constructor; vm_compute; discriminate.
  - intros l a H. unfold ex5s_labels in H. cbn [lookup] in H.
    destruct (l =? 1); [injection H as <-; apply int32_bounds; lia|].
    destruct (l =? 2); [injection H as <-; apply int32_bounds; lia|].
    destruct (l =? 3); [injection H as <-; apply int32_bounds; lia | discriminate].
  - split; apply Forall_forall; intros x Hx; apply repeat_spec in Hx; subst x; [apply int32_0 | apply int8_bounds; lia].
  - vm_compute. lia.
  - vm_compute. discriminate.
  - apply accesses_okb_spec. vm_compute. reflexivity.
  - vm_compute. reflexivity.
  - vm_compute. reflexivity.
  - vm_compute. reflexivity.
  - do 3 eexists. split; [vm_compute; reflexivity|]. split; [vm_compute; reflexivity|].
    split; [vm_compute; reflexivity|]. vm_compute. repeat split; reflexivity.
Qed.
