(* C01 / C12 / C07 for MVP-8.0 (proc/mvp8-0: the pipeline of MVP-6.3 with register reads by sequence id, the Pre hook
   that looks at pending older runners, the execution-unit preference for loads, on the MSI memory system with a
   shared L3) on SINGLE-ASSIGNMENT, register-only, straight-line programs.
   Property theorems only; proofs in Mvp/Mvp80SimSsa.v and Mvp/Mvp63L3Indep.v (run invariant CI8 = SI of Mvp80RegOnly.v + no preference +
   the in-order pipeline invariant of MVP-6.3 on the projected state; one tick: tick8, final8; whole runs: run8_sim)
   on top of the conditional unit lemmas of Mvp/Mvp80Sim63Defs.v, Loops.v, Finish.v, about the faithful cycle-level
   models Mvp/Mvp80.v and Mvp/Mvp63.v.

   The class (Mvp60RefDefs.v, Mvp4Skel.v, Mvp63RefDefs.v):
     straight app   no branch, no jump;          reg_only app   no load, no store;
     ssa app        every register but x0 has at most one writer, no instruction reads a register a later one writes;
     regs_ok app    register numbers x0 .. x31;
   states with 32 int32 registers and x0 = 0; the sequential run ends (Done); every number of cores >= 1; EVERY order
   function (RATCommit ; RATFlush runs one cycle later in MVP-8.0: the alias tables hold no negative key, invariant RK).

   STATUS (all PROVED, closed under the global context).
     C01_mvp80_ssa_straight_sim_mvp63    MVP-8.0 = MVP-6.3 one tick and one cycle later: if mvp63_run_os with fuel returns
                                         (r, os), r <> MOutOfFuel, then mvp80_run_os with S fuel returns
                                         (plus_one_cycle r, os): registers, memory, cycles + 1, ghost flag; errors and
                                         panics alike.  Two halves:
     C01_mvp80_ssa_straight_sim_mvp63g     MVP-8.0 against the pipeline of MVP-6.3 started with the (empty, never used)
                                           L3 of MVP-8.0 (st3_of of NewCPU of MVP-8.0);
     C01_mvp80_mvp63g_l3_80                that pipeline IS MVP-6.3, every fuel: the pipeline does not depend on the
                                           geometry of an L3 it never uses (Mvp/Mvp63L3Indep.v);
     C01_mvp80_mvp63g_own                  with the L3 of MVP-6.3 mvp63g_run_os is mvp63_run_os by reflexivity.
     C01_mvp80_refines_seq_ssa_straight, C12_mvp80_run_ssa_straight, C12_mvp80_ghost_clear_ssa_straight,
     C07_mvp80_terminates_ssa_straight, C07_mvp80_no_panic_ssa_straight
                                         MVP-8.0 returns the sequential registers and memory, ghost flag clear, within
                                         fuel_bound80 (length app) = 400 * length app + 1601 ticks, with at least
                                         (executed + 1) / 2 + 1 cycles, one cycle more than MVP-6.3.
     C01_mvp80_example_any, C01_mvp80_example_sim, C01_mvp80_example
                                         non-vacuity: the 14-instruction example of C01_mvp63.v (any number of cores,
                                         any order; by computation at 1..4 cores, two orders: c80 = c63 + 1).
   Outside the class the statement "MVP-8.0 = MVP-6.3 + one cycle on register-only programs" is FALSE in general
   (Mvp80Sim63Refute.v: a jump back by more than 2000 bytes). *)
From Coq Require Import ZArith List Bool Lia.
From Maj Require Import Base.Outcome Base.GoInt Base.GoTypes Isa.Spec Isa.Seq Isa.Refine Gen.Opcodes Comp.Cache Comp.Rat.
From Maj Require Import Mvp.Mvp12 Mvp.Mvp12Proofs Mvp.Mvp4Skel Mvp.Mvp60 Mvp.Mvp60RefDefs Mvp.Mvp63 Mvp.Mvp63Proofs Mvp.Mvp63RefDefs
     Mvp.Mvp63RefStep Mvp.Mvp63RefProofs Mvp.Mvp80 Mvp.Mvp80RegOnly Mvp.Mvp80RegOnly63 Mvp.Mvp80Sim63Defs Mvp.Mvp80SimSsa.
Import ListNotations.
Open Scope Z_scope.

(* C01: MVP-8.0 = the pipeline of MVP-6.3 (with the L3 of MVP-8.0) + one tick and one cycle *)
Theorem C01_mvp80_ssa_straight_sim_mvp63g : forall app labels, wf_app app ->
  straight app = true -> reg_only app = true -> ssa app = true -> regs_ok app = true ->
  forall par fuel st st' tr, (1 <= par)%nat ->
  Forall int32 (regs st) -> length (regs st) = 32%nat -> nth 0 (regs st) 0 = 0 ->
  seq_run fuel (map sinstr_of app) labels st = Done st' tr ->
  forall ord fuel' r os,
  mvp63g_run_os l3_80 par ord fuel' app labels st = (r, os) -> r <> MOutOfFuel ->
  mvp80_run_os par ord (S fuel') app labels st = (plus_one_cycle r, os).
Proof. exact mvp80_ssa_straight_sim_mvp63g. Qed.
Print Assumptions C01_mvp80_ssa_straight_sim_mvp63g.

Theorem C01_mvp80_mvp63g_own : forall par ord fuel app labels st,
  mvp63g_run_os (new_cache l3LineSize l3Size) par ord fuel app labels st = mvp63_run_os par ord fuel app labels st.
Proof. exact mvp63g_own. Qed.
Print Assumptions C01_mvp80_mvp63g_own.

Theorem C01_mvp80_mvp63g_l3_80 : forall app labels, wf_app app ->
  straight app = true -> reg_only app = true -> ssa app = true -> regs_ok app = true ->
  forall par fuel st st' tr, (1 <= par)%nat ->
  Forall int32 (regs st) -> length (regs st) = 32%nat -> nth 0 (regs st) 0 = 0 ->
  seq_run fuel (map sinstr_of app) labels st = Done st' tr ->
  forall ord fuel', mvp63g_run_os l3_80 par ord fuel' app labels st = mvp63_run_os par ord fuel' app labels st.
Proof. exact mvp63g_l3_80. Qed.
Print Assumptions C01_mvp80_mvp63g_l3_80.

(* C01: MVP-8.0 = MVP-6.3 + one tick and one cycle *)
Theorem C01_mvp80_ssa_straight_sim_mvp63 : forall app labels, wf_app app ->
  straight app = true -> reg_only app = true -> ssa app = true -> regs_ok app = true ->
  forall par fuel st st' tr, (1 <= par)%nat ->
  Forall int32 (regs st) -> length (regs st) = 32%nat -> nth 0 (regs st) 0 = 0 ->
  seq_run fuel (map sinstr_of app) labels st = Done st' tr ->
  forall ord fuel' r os, mvp63_run_os par ord fuel' app labels st = (r, os) -> r <> MOutOfFuel ->
  mvp80_run_os par ord (S fuel') app labels st = (plus_one_cycle r, os).
Proof. exact mvp80_ssa_straight_sim_mvp63. Qed.
Print Assumptions C01_mvp80_ssa_straight_sim_mvp63.

(* C01: refinement of the sequential machine *)
Theorem C01_mvp80_refines_seq_ssa_straight : forall app labels, wf_app app ->
  straight app = true -> reg_only app = true -> ssa app = true -> regs_ok app = true ->
  forall par fuel st st' tr, (1 <= par)%nat ->
  Forall int32 (regs st) -> length (regs st) = 32%nat -> nth 0 (regs st) 0 = 0 ->
  seq_run fuel (map sinstr_of app) labels st = Done st' tr ->
  forall ord,
  exists c, (forall fuel', (fuel_bound80 (length app) <= fuel')%nat ->
               mvp80_run par ord fuel' app labels st = MDone c st' /\ snd (mvp80_run_os par ord fuel' app labels st) = false) /\
            (Z.of_nat (length tr) + 1) / 2 + 1 <= c.
Proof. exact mvp80_refines_seq_ssa_straight. Qed.
Print Assumptions C01_mvp80_refines_seq_ssa_straight.

Theorem C12_mvp80_run_ssa_straight : forall app labels, wf_app app ->
  straight app = true -> reg_only app = true -> ssa app = true -> regs_ok app = true ->
  forall par fuel st st' tr, (1 <= par)%nat ->
  Forall int32 (regs st) -> length (regs st) = 32%nat -> nth 0 (regs st) 0 = 0 ->
  seq_run fuel (map sinstr_of app) labels st = Done st' tr ->
  forall ord,
  exists c, (forall fuel', (fuel_bound80 (length app) <= fuel')%nat -> mvp80_run_os par ord fuel' app labels st = (MDone c st', false)) /\
            Z.of_nat (length tr) + 2 <= 2 * c /\
            (forall fuel', (fuel_bound63 (length app) <= fuel')%nat -> mvp63_run_os par ord fuel' app labels st = (MDone (c - 1) st', false)).
Proof. exact mvp80_run_ssa_straight. Qed.
Print Assumptions C12_mvp80_run_ssa_straight.

Theorem C12_mvp80_ghost_clear_ssa_straight : forall app labels, wf_app app ->
  straight app = true -> reg_only app = true -> ssa app = true -> regs_ok app = true ->
  forall par fuel st st' tr, (1 <= par)%nat ->
  Forall int32 (regs st) -> length (regs st) = 32%nat -> nth 0 (regs st) 0 = 0 ->
  seq_run fuel (map sinstr_of app) labels st = Done st' tr ->
  forall ord fuel', (fuel_bound80 (length app) <= fuel')%nat ->
  snd (mvp80_run_os par ord fuel' app labels st) = false.
Proof. exact mvp80_ghost_clear_ssa_straight. Qed.
Print Assumptions C12_mvp80_ghost_clear_ssa_straight.

Theorem C07_mvp80_terminates_ssa_straight : forall app labels, wf_app app ->
  straight app = true -> reg_only app = true -> ssa app = true -> regs_ok app = true ->
  forall par fuel st st' tr, (1 <= par)%nat ->
  Forall int32 (regs st) -> length (regs st) = 32%nat -> nth 0 (regs st) 0 = 0 ->
  seq_run fuel (map sinstr_of app) labels st = Done st' tr ->
  forall ord,
  exists c, mvp80_run par ord (fuel_bound80 (length app)) app labels st = MDone c st' /\ (Z.of_nat (length tr) + 1) / 2 + 1 <= c.
Proof. exact mvp80_terminates_ssa_straight. Qed.
Print Assumptions C07_mvp80_terminates_ssa_straight.

Theorem C07_mvp80_no_panic_ssa_straight : forall app labels, wf_app app ->
  straight app = true -> reg_only app = true -> ssa app = true -> regs_ok app = true ->
  forall par fuel st st' tr, (1 <= par)%nat ->
  Forall int32 (regs st) -> length (regs st) = 32%nat -> nth 0 (regs st) 0 = 0 ->
  seq_run fuel (map sinstr_of app) labels st = Done st' tr ->
  forall ord fuel', (fuel_bound80 (length app) <= fuel')%nat ->
  mvp80_run par ord fuel' app labels st <> MPanic /\ mvp80_run par ord fuel' app labels st <> MOutOfFuel /\
  (forall e, mvp80_run par ord fuel' app labels st <> MErr e).
Proof. exact mvp80_no_panic_ssa_straight. Qed.
Print Assumptions C07_mvp80_no_panic_ssa_straight.

(* non-vacuity *)
Theorem C01_mvp80_example_any : forall par ord, (1 <= par)%nat ->
  exists c st', seq_run 100 (map sinstr_of (map instr_of ex63_prog)) no_labels zero32 = Done st' (rev (map (fun k => 4 * Z.of_nat k) (seq 0 14))) /\
    (forall fuel, (fuel_bound80 14 <= fuel)%nat -> mvp80_run_os par ord fuel (map instr_of ex63_prog) no_labels zero32 = (MDone c st', false)) /\
    rget (regs st') 18 = 251 /\ 8 <= c.
Proof. exact mvp80_ssa_example_any. Qed.
Print Assumptions C01_mvp80_example_any.

Theorem C01_mvp80_example_sim : forall par ord fuel r os, (1 <= par)%nat ->
  mvp63_run_os par ord fuel (map instr_of ex63_prog) no_labels zero32 = (r, os) -> r <> MOutOfFuel ->
  mvp80_run_os par ord (S fuel) (map instr_of ex63_prog) no_labels zero32 = (plus_one_cycle r, os).
Proof. exact mvp80_ssa_example_sim. Qed.
Print Assumptions C01_mvp80_example_sim.

Theorem C01_mvp80_example : forall par, In par [1; 2; 3; 4]%nat ->
  mvp80_run_os par ord_asc 3001 (map instr_of ex63_prog) no_labels zero32 =
    (plus_one_cycle (fst (mvp63_run_os par ord_asc 3000 (map instr_of ex63_prog) no_labels zero32)),
     snd (mvp63_run_os par ord_asc 3000 (map instr_of ex63_prog) no_labels zero32)) /\
  mvp80_run_os par ord_desc 3001 (map instr_of ex63_prog) no_labels zero32 =
    (plus_one_cycle (fst (mvp63_run_os par ord_desc 3000 (map instr_of ex63_prog) no_labels zero32)),
     snd (mvp63_run_os par ord_desc 3000 (map instr_of ex63_prog) no_labels zero32)) /\
  fst (mvp63_run_os par ord_asc 3000 (map instr_of ex63_prog) no_labels zero32) <> MOutOfFuel /\
  mvp63g_run_os l3_80 par ord_asc 3000 (map instr_of ex63_prog) no_labels zero32 =
    mvp63_run_os par ord_asc 3000 (map instr_of ex63_prog) no_labels zero32.
Proof. exact mvp80_ssa_example. Qed.
Print Assumptions C01_mvp80_example.
