(* C12 / C08 / C03 / C07 for MVP-6.2 (MVP-6.1 + speculative register results in a
   transaction map, committed or rolled back when a branch resolves).
   Property theorems only; proofs in Mvp/Mvp62Proofs.v about the faithful
   cycle-level model Mvp/Mvp62.v (built on Mvp60.v and the proved transaction-map
   model Comp/Tx.v), tied to proc/mvp6-2 by exact equality of (cycles, registers,
   memory) at 1..4 units (lib/vf/c12.py, lib/vf/modeltie.py; bin/tie_m62.py for
   all sampled iteration orders and the state at the tick budget). *)
From Coq Require Import ZArith List Bool Lia.
From Maj Require Import Base.Outcome Base.GoInt Base.GoTypes Isa.Spec Isa.Seq.
From Maj Require Import Gen.Latency Gen.RiscTables Gen.Opcodes Comp.Cache Mvp.Mvp12 Mvp.Mvp3 Mvp.Mvp5 Mvp.Mvp60 Mvp.Mvp60Proofs Mvp.Mvp62.
From Maj Require Comp.Rat Comp.Tx.
Import ListNotations.
Open Scope Z_scope.
From Maj Require Import Mvp.Mvp62Proofs.

(* C12: a returning run reports at least one cycle *)
Theorem C12_mvp62_cycles_positive :
  forall par ord fuel app labels st c st',
  mvp62_run par ord fuel app labels st = MDone c st' -> 1 <= c.
Proof. exact mvp62_cycles_pos. Qed.
Print Assumptions C12_mvp62_cycles_positive.

(* C12: at most busSize = 2 instructions are dispatched per cycle whatever the number of units *)
Theorem C12_mvp62_issue_width_two :
  forall cycle m,
  ebuf2 m <= ebl2 m ->
  ebuf2 (fst (cu_cycle62 cycle m)) - ebuf2 m <= ebl2 m.
Proof. exact cu62_dispatch_le_buslen. Qed.
Print Assumptions C12_mvp62_issue_width_two.

(* C08: a run ending with the ghost flag clear is the same for every iteration order of the stores' maps *)
Theorem C08_mvp62_order_irrelevant_when_flag_clear :
  forall par fuel app labels st ord1 ord2 r,
  ord_ok ord1 -> ord_ok ord2 ->
  mvp62_run_os par ord1 fuel app labels st = (r, false) ->
  mvp62_run_os par ord2 fuel app labels st = (r, false).
Proof. exact run62_ord_irrelevant. Qed.
Print Assumptions C08_mvp62_order_irrelevant_when_flag_clear.

(* C07: witness of the repaired defect 1ed8ef8 - an error raised inside the flush loop ends the run with that error *)
Theorem C07_mvp62_error_in_flush_loop_is_returned :
  mvp62_run 3 (ord_policy 0) 1000 zero_prog zero_labels (mk_arch (repeat 0 32) (repeat 0 64)) = MErr EDivZero
  /\ mvp62_run 3 (ord_policy 0) 627 zero_prog zero_labels (mk_arch (repeat 0 32) (repeat 0 64)) = MOutOfFuel.
Proof. exact mvp62_flush_loop_error_witness. Qed.
Print Assumptions C07_mvp62_error_in_flush_loop_is_returned.

(* C03 / C15 finding SYS-shadow-writeback-6x as a theorem about the model: the transaction map has one slot per
   register, a wrong-path write overwrites the uncommitted older value and the rollback drops both *)
Theorem C03_mvp62_one_slot_refuted :
  exists c st', mvp62_run 3 (ord_policy 0) 2000 slot_prog slot_labels (mk_arch (repeat 0 32) (repeat 0 2048)) = MDone c st'
              /\ nth 13 (regs st') 0 = 1976 /\ nth 18 (regs st') 0 = 0.
Proof. exact mvp62_one_slot_witness. Qed.
Print Assumptions C03_mvp62_one_slot_refuted.
