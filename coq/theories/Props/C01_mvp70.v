(* C01 / C12 / C07 for MVP-7.0 (proc/mvp7-0 = the pipeline of MVP-6.3 on per-core L1 caches behind cache
   controllers kept coherent by an MSI directory) on programs WITHOUT LOADS AND STORES, by a lock-step simulation
   with MVP-6.3.  Property theorems only; proofs in Mvp/Mvp70Sim63Defs.v (projection, invariant, execute units),
   Mvp70Sim63Loops.v (the loops over the units, one tick: step_sim, step_final), Mvp70Sim63Proofs.v (end of Run,
   whole runs, transport), about the faithful cycle-level models Mvp/Mvp70.v and Mvp/Mvp63.v (each tied to the Go
   code by exact checks of cycles, registers, memory).

   The class:  reg_only app     no instruction of the TEXT is a load or a store (Mvp4Skel);
               wregs_nonneg app no instruction writes a register with a negative number (every parsed program;
                                implied by regs_ok).

   STATUS.
     C01_mvp70_regonly_sim_mvp63          PROVED: on the class, for every number of cores, EVERY order function,
                                          every initial state, every fuel: a run of MVP-6.3 that ends (result,
                                          error or panic) within `fuel` ticks is the run of MVP-7.0 within
                                          `fuel + 1` ticks: same registers, same memory, same ghost flag, same error,
                                          cycles + 1.  (The loop after the main loop of mvp7-0/cpu.go runs once and
                                          finds nothing to do: c70 = c63 + 1.)
     C07_mvp70_regonly_out_of_fuel        ... and a run of MVP-6.3 that exhausts its fuel: so does MVP-7.0.
     C01_mvp70_regonly_sim_mvp63_stable_order   the same for EVERY program without loads / stores (negative register
                                          numbers included) if the order function ignores the cycle on the RAT maps.
     C01_mvp70_regonly_sim_mvp63_refuted  FINDING (model level): with neither hypothesis the statement is false -
                                          `li x(-1), 5`: RATFlush writes register -1 into slot 0 of the register
                                          list, MVP-7.0 ranges over the committed table one cycle later, an order
                                          function that changes with the cycle orders the keys -1 and 0 differently.
     C06_mvp70_regonly_memory_system_idle in every state MVP-7.0 reaches on a program without loads / stores the
                                          directory is msi_new, every cache controller is as NewCPU built it, no
                                          execute unit is inside cc.read / cc.write, no write unit writes memory.
     C01_mvp70_refines_seq_ssa_straight, C12_mvp70_run_ssa_straight, C12_mvp70_ghost_clear_ssa_straight,
     C07_mvp70_terminates_ssa_straight, C07_mvp70_no_panic_ssa_straight
                                          TRANSPORT of the MVP-6.3 refinement theorem (Props/C01_mvp63.v): on
                                          single-assignment register-only straight-line programs MVP-7.0 returns the
                                          sequential registers and memory at every number of cores, for every order,
                                          ghost flag clear, within fuel_bound70 (length app) = 400 * length app + 1601
                                          ticks.
     C01_mvp70_example_any, C01_mvp70_example   non-vacuity: the 14-instruction example of C01_mvp63.v.
   MVP-7.1 (PARTIAL, Mvp/Mvp70Sim63Mvp71.v):
     C01_mvp71_regonly_sim_mvp63_refuted  FINDING: "MVP-7.1 = MVP-6.3 + one cycle on programs without loads and
                                          stores" is false (registerRead by sequence id, ids not monotone after a
                                          jump back by more than 2000 bytes; the MVP-8.0 witness).
     C01_mvp71_execute_unit_partial, C01_mvp71_register_read_partial, C01_mvp71_front_partial
                                          unit lemmas towards "MVP-7.1 = MVP-7.0 on straight-line programs without
                                          loads and stores" (NOT proved; gap in the header of Mvp70Sim63Mvp71.v). *)
From Coq Require Import ZArith List Bool Lia.
From Maj Require Import Base.Outcome Base.GoInt Base.GoTypes Isa.Spec Isa.Seq Isa.Refine Gen.Opcodes Comp.Rat.
From Maj Require Import Mvp.Mvp12 Mvp.Mvp12Proofs Mvp.Mvp4Skel Mvp.Mvp60 Mvp.Mvp60RefDefs Mvp.Mvp63 Mvp.Mvp63Proofs Mvp.Mvp63RefDefs
     Mvp.Mvp63RefProofs Mvp.Mvp70 Mvp.Mvp71 Mvp.Mvp70Proofs Mvp.Mvp70Sim63Defs Mvp.Mvp70Sim63Loops Mvp.Mvp70Sim63Proofs Mvp.Mvp70Sim63Mvp71.
Import ListNotations.
Open Scope Z_scope.

(* ------------------------------------------------------------------ *)
(* the lock-step theorem                                                *)

(* C01: MVP-7.0 = MVP-6.3 + one cycle on programs without loads and stores, for every order function *)
Theorem C01_mvp70_regonly_sim_mvp63 : forall app, reg_only app = true -> wregs_nonneg app = true ->
  forall par ord fuel labels st r os,
  r <> MOutOfFuel ->
  mvp63_run_os par ord fuel app labels st = (r, os) ->
  mvp70_run_os par ord (S fuel) app labels st = (plus_one_cycle r, os).
Proof. exact mvp70_regonly_sim_mvp63. Qed.
Print Assumptions C01_mvp70_regonly_sim_mvp63.

(* ... in terms of the architectural result *)
Theorem C01_mvp70_regonly_same_state : forall app, reg_only app = true -> wregs_nonneg app = true ->
  forall par ord fuel labels st c st',
  mvp63_run par ord fuel app labels st = MDone c st' ->
  mvp70_run par ord (S fuel) app labels st = MDone (c + 1) st'.
Proof. exact mvp70_regonly_same_state. Qed.
Print Assumptions C01_mvp70_regonly_same_state.

(* C07: a run of MVP-6.3 that is still going after `fuel` ticks: so is MVP-7.0, same ghost flag *)
Theorem C07_mvp70_regonly_out_of_fuel : forall app, reg_only app = true -> wregs_nonneg app = true ->
  forall par ord fuel labels st os,
  mvp63_run_os par ord fuel app labels st = (MOutOfFuel, os) ->
  mvp70_run_os par ord fuel app labels st = (MOutOfFuel, os).
Proof. exact mvp70_regonly_outoffuel. Qed.
Print Assumptions C07_mvp70_regonly_out_of_fuel.

(* the same for every program without loads / stores when the order function ignores the cycle on the RAT maps *)
Theorem C01_mvp70_regonly_sim_mvp63_stable_order : forall app, reg_only app = true ->
  forall par ord fuel labels st r os,
  ord_stable ord ->
  r <> MOutOfFuel ->
  mvp63_run_os par ord fuel app labels st = (r, os) ->
  mvp70_run_os par ord (S fuel) app labels st = (plus_one_cycle r, os).
Proof. exact mvp70_regonly_sim_mvp63_stable. Qed.
Print Assumptions C01_mvp70_regonly_sim_mvp63_stable_order.

(* FINDING (model level): neither hypothesis can be dropped *)
Theorem C01_mvp70_regonly_sim_mvp63_refuted :
  ~ (forall app, reg_only app = true ->
     forall par ord fuel labels st r os,
     r <> MOutOfFuel ->
     mvp63_run_os par ord fuel app labels st = (r, os) ->
     mvp70_run_os par ord (S fuel) app labels st = (plus_one_cycle r, os)).
Proof. exact mvp70_regonly_sim_mvp63_refuted. Qed.
Print Assumptions C01_mvp70_regonly_sim_mvp63_refuted.

(* the witness: one instruction, `li x(-1), 5`, registers [7; 8], order ascending in even and descending in odd cycles *)
Theorem C01_mvp70_negative_register_witness :
  reg_only neg_prog = true /\ wregs_nonneg neg_prog = false /\
  mvp63_run_os 1 alt_ord 400 neg_prog no_labels neg_st = (MDone 314 (mk_arch [5; 8] []), false) /\
  mvp70_run_os 1 alt_ord 401 neg_prog no_labels neg_st = (MDone 315 (mk_arch [7; 8] []), false) /\
  mvp70_run_os 1 ord_asc 401 neg_prog no_labels neg_st = (MDone 315 (mk_arch [5; 8] []), false) /\
  mvp70_run_os 1 ord_desc 401 neg_prog no_labels neg_st = (MDone 315 (mk_arch [7; 8] []), false).
Proof. exact neg_runs. Qed.
Print Assumptions C01_mvp70_negative_register_witness.

(* C06: the memory system of MVP-7.0 is never used on a program without loads and stores *)
Theorem C06_mvp70_regonly_memory_system_idle : forall app, reg_only app = true ->
  forall par ord fuel labels st s s',
  init7 par ord app st = Ok s -> run7_st hooks70 fuel app labels ord s = inr s' ->
  w_i (v_w s') = msi_new /\
  Forall (fun e => CC (h_cc e) /\ (h_co e = HNone \/ h_co e = HPrepare)) (v_eus s') /\
  Forall (fun u => u_co u = WNone) (v_wus s').
Proof. exact mvp70_regonly_memsys_idle. Qed.
Print Assumptions C06_mvp70_regonly_memory_system_idle.

(* the two steps of the simulation, at machine level: one tick of Run in any loop but the final one is the tick of
   MVP-6.3 on the projected state; the final loop runs once *)
Theorem C01_mvp70_tick_simulation : forall (NN : Prop) app, reg_only app = true -> (NN -> wregs_nonneg app = true) ->
  forall labels ord s, SI NN s -> v_mode s <> QFinal ->
  step3 app labels ord (st3_of s) = proj_res ord (step7 hooks70 app labels ord s) /\
  res_SI NN (step7 hooks70 app labels ord s).
Proof. exact step_sim. Qed.
Print Assumptions C01_mvp70_tick_simulation.

Theorem C01_mvp70_final_loop_once : forall (NN : Prop) app labels ord s, SI NN s -> v_mode s = QFinal ->
  step7 hooks70 app labels ord s = UDone (finish7 ord (v_w s) (v_eus s) (v_cycle s + 1)) (v_os (v_w s)).
Proof. exact step_final. Qed.
Print Assumptions C01_mvp70_final_loop_once.

(* RATCommit ; RATFlush does not depend on Go's map order when the tables are well formed with non-negative keys *)
Theorem C08_mvp70_rat_flush_order_independent : forall ord1 c1 ord2 c2 x,
  Comp.RatProofs.rat_ok (x_crat x) ->
  (forall k v, rat_read 0 (x_crat x) k = Some v -> 0 <= k) ->
  (forall k v, rat_read tu0 (x_trat x) k = Some v -> 0 <= k) ->
  rat_flush3 ord1 c1 (rat_commit3 ord1 c1 x) = rat_flush3 ord2 c2 (rat_commit3 ord2 c2 x).
Proof. exact fin_indep. Qed.
Print Assumptions C08_mvp70_rat_flush_order_independent.

(* ------------------------------------------------------------------ *)
(* transport of the refinement theorem of MVP-6.3                       *)

(* C01: MVP-7.0 computes the sequential result on single-assignment, register-only, straight-line programs, at
   every number of cores, for EVERY order function, for all fuels from fuel_bound70 (length app) on *)
Theorem C01_mvp70_refines_seq_ssa_straight : forall app labels, wf_app app ->
  straight app = true -> reg_only app = true -> ssa app = true -> regs_ok app = true ->
  forall par fuel st st' tr, (1 <= par)%nat ->
  Forall int32 (regs st) -> length (regs st) = 32%nat -> nth 0 (regs st) 0 = 0 ->
  seq_run fuel (map sinstr_of app) labels st = Done st' tr ->
  forall ord, exists c, forall fuel', (fuel_bound70 (length app) <= fuel')%nat -> mvp70_run par ord fuel' app labels st = MDone c st'.
Proof. exact mvp70_refines_seq_ssa_straight. Qed.
Print Assumptions C01_mvp70_refines_seq_ssa_straight.

(* C12: ... with the ghost flag clear, at least ceil(executed / 2) + 1 cycles, exactly one cycle more than MVP-6.3 *)
Theorem C12_mvp70_run_ssa_straight : forall app labels, wf_app app ->
  straight app = true -> reg_only app = true -> ssa app = true -> regs_ok app = true ->
  forall par fuel st st' tr, (1 <= par)%nat ->
  Forall int32 (regs st) -> length (regs st) = 32%nat -> nth 0 (regs st) 0 = 0 ->
  seq_run fuel (map sinstr_of app) labels st = Done st' tr ->
  forall ord, exists c,
    (forall fuel', (fuel_bound70 (length app) <= fuel')%nat -> mvp70_run_os par ord fuel' app labels st = (MDone c st', false)) /\
    Z.of_nat (length tr) + 2 <= 2 * c /\
    (forall fuel', (fuel_bound63 (length app) <= fuel')%nat -> mvp63_run_os par ord fuel' app labels st = (MDone (c - 1) st', false)).
Proof. exact mvp70_run_ssa_straight. Qed.
Print Assumptions C12_mvp70_run_ssa_straight.

Theorem C12_mvp70_ghost_clear_ssa_straight : forall app labels, wf_app app ->
  straight app = true -> reg_only app = true -> ssa app = true -> regs_ok app = true ->
  forall par fuel st st' tr, (1 <= par)%nat ->
  Forall int32 (regs st) -> length (regs st) = 32%nat -> nth 0 (regs st) 0 = 0 ->
  seq_run fuel (map sinstr_of app) labels st = Done st' tr ->
  forall ord fuel', (fuel_bound70 (length app) <= fuel')%nat -> snd (mvp70_run_os par ord fuel' app labels st) = false.
Proof. exact mvp70_ghost_clear_ssa_straight. Qed.
Print Assumptions C12_mvp70_ghost_clear_ssa_straight.

(* C07: termination within the bound, no panic, no error *)
Theorem C07_mvp70_terminates_ssa_straight : forall app labels, wf_app app ->
  straight app = true -> reg_only app = true -> ssa app = true -> regs_ok app = true ->
  forall par fuel st st' tr, (1 <= par)%nat ->
  Forall int32 (regs st) -> length (regs st) = 32%nat -> nth 0 (regs st) 0 = 0 ->
  seq_run fuel (map sinstr_of app) labels st = Done st' tr ->
  forall ord, exists c, mvp70_run par ord (fuel_bound70 (length app)) app labels st = MDone c st' /\ (Z.of_nat (length tr) + 1) / 2 + 1 <= c.
Proof. exact mvp70_terminates_ssa_straight. Qed.
Print Assumptions C07_mvp70_terminates_ssa_straight.

Theorem C07_mvp70_no_panic_ssa_straight : forall app labels, wf_app app ->
  straight app = true -> reg_only app = true -> ssa app = true -> regs_ok app = true ->
  forall par fuel st st' tr, (1 <= par)%nat ->
  Forall int32 (regs st) -> length (regs st) = 32%nat -> nth 0 (regs st) 0 = 0 ->
  seq_run fuel (map sinstr_of app) labels st = Done st' tr ->
  forall ord fuel', (fuel_bound70 (length app) <= fuel')%nat ->
  mvp70_run par ord fuel' app labels st <> MPanic /\ mvp70_run par ord fuel' app labels st <> MOutOfFuel /\
  (forall e, mvp70_run par ord fuel' app labels st <> MErr e).
Proof. exact mvp70_no_panic_ssa_straight. Qed.
Print Assumptions C07_mvp70_no_panic_ssa_straight.

(* non-vacuity of the theorem itself: the 14-instruction example at ANY number of cores, for ANY order function *)
Theorem C01_mvp70_example_any : forall par ord, (1 <= par)%nat ->
  exists c st', seq_run 100 (map sinstr_of (map instr_of ex63_prog)) no_labels zero32 = Done st' (rev (map (fun k => 4 * Z.of_nat k) (seq 0 14))) /\
    (forall fuel, (fuel_bound70 14 <= fuel)%nat -> mvp70_run_os par ord fuel (map instr_of ex63_prog) no_labels zero32 = (MDone c st', false)) /\
    rget (regs st') 18 = 251 /\ 8 <= c.
Proof. exact mvp70_ssa_example_any. Qed.
Print Assumptions C01_mvp70_example_any.

(* non-vacuity by computation: 14 instructions, chained RAW dependences, single assignment; the hypotheses hold; 1 and
   3 cores, three orders: the sequential registers, ghost flag clear, one cycle more than MVP-6.3 *)
Theorem C01_mvp70_example :
  let app := map instr_of ex63_prog in
  straight app = true /\ reg_only app = true /\ ssa app = true /\ regs_ok app = true /\ wregs_nonneg app = true /\
  exists st' tr,
    seq_run 100 (map sinstr_of app) no_labels zero32 = Done st' tr /\ length tr = 14%nat /\
    mvp63_run_os 3 ord_asc 3000 app no_labels zero32 = (MDone 332 st', false) /\
    mvp70_run_os 1 ord_asc 3001 app no_labels zero32 = (MDone 334 st', false) /\
    mvp70_run_os 3 ord_asc 3001 app no_labels zero32 = (MDone 333 st', false) /\
    mvp70_run_os 3 ord_desc 3001 app no_labels zero32 = (MDone 333 st', false) /\
    mvp70_run_os 3 alt_ord 3001 app no_labels zero32 = (MDone 333 st', false) /\
    rget (regs st') 9 = 63 /\ rget (regs st') 13 = 57 /\ rget (regs st') 18 = 251.
Proof. exact mvp70_ssa_example. Qed.
Print Assumptions C01_mvp70_example.

(* non-vacuity of the lock-step theorem outside the class of the refinement theorem: a taken branch, a flush, a
   wrong-path instruction, forwarding, a write-after-read, at 1..4 cores *)
Theorem C01_mvp70_regonly_example :
  reg_only ro70_prog = true /\ wregs_nonneg ro70_prog = true /\
  forall par, In par [1; 2; 3; 4]%nat ->
    fst (mvp63_run_os par ord_asc 3000 ro70_prog (one_label 12) (st_of [] [(0, 5); (70, 3)])) <> MOutOfFuel /\
    mvp70_run_os par ord_asc 3001 ro70_prog (one_label 12) (st_of [] [(0, 5); (70, 3)]) =
      (plus_one_cycle (fst (mvp63_run_os par ord_asc 3000 ro70_prog (one_label 12) (st_of [] [(0, 5); (70, 3)]))),
       snd (mvp63_run_os par ord_asc 3000 ro70_prog (one_label 12) (st_of [] [(0, 5); (70, 3)]))).
Proof. exact mvp70_regonly_example. Qed.
Print Assumptions C01_mvp70_regonly_example.

(* ------------------------------------------------------------------ *)
(* MVP-7.1: a refutation and the unit lemmas (partial)                  *)

(* FINDING: the lock-step statement is false for MVP-7.1 (as for MVP-8.0): a jump back by more than 2000 bytes *)
Theorem C01_mvp71_regonly_sim_mvp63_refuted :
  ~ (forall app, reg_only app = true -> wregs_nonneg app = true ->
     forall par ord fuel labels st r os,
     r <> MOutOfFuel ->
     mvp63_run_os par ord fuel app labels st = (r, os) ->
     mvp71_run_os par ord (S fuel) app labels st = (plus_one_cycle r, os)).
Proof. exact mvp71_regonly_sim_mvp63_refuted. Qed.
Print Assumptions C01_mvp71_regonly_sim_mvp63_refuted.

Theorem C01_mvp71_long_backward_jump_witness :
  reg_only cx71_prog = true /\ wregs_nonneg cx71_prog = true /\
  (exists s3, mvp63_run_os 2 ord_asc 3000 cx71_prog cx71_labels cx71_st = (MDone 638 s3, false) /\ nth 7 (regs s3) 0 = 77) /\
  (exists s0, mvp70_run_os 2 ord_asc 3001 cx71_prog cx71_labels cx71_st = (MDone 639 s0, false) /\ nth 7 (regs s0) 0 = 77) /\
  (exists s1, mvp71_run_os 2 ord_asc 3001 cx71_prog cx71_labels cx71_st = (MDone 639 s1, false) /\ nth 7 (regs s1) 0 = 1).
Proof. exact cx71_runs. Qed.
Print Assumptions C01_mvp71_long_backward_jump_witness.

(* registerRead with a sequence id = the newest-slot read when the newest slot is not younger than the reader *)
Theorem C01_mvp71_register_read_partial : forall fw crat trat sid reg,
  (forall v, rat_read tu0 trat reg = Some v -> fst v <= sid) ->
  reg_read_tag fw crat trat sid reg = reg_read3 fw crat trat reg.
Proof. exact reg_read_tag_newest. Qed.
Print Assumptions C01_mvp71_register_read_partial.

(* executeUnit.Cycle of MVP-7.1 = that of MVP-7.0 under explicit conditions *)
Theorem C01_mvp71_execute_unit_partial : forall NN labels ord cycle id w e, eu_cond71 NN w e ->
  eu_cycle7 hooks71 labels ord cycle id w e = eu_cycle7 hooks70 labels ord cycle id w e.
Proof. exact eu_cycle71_sim. Qed.
Print Assumptions C01_mvp71_execute_unit_partial.

(* the first half of a tick of MVP-7.1 = front3 when staleState is clear and the pushed runners are no loads / stores *)
Theorem C01_mvp71_front_partial : forall NN app ord cycle w,
  i_stale (w_i w) = false ->
  (forall fu1 l1i1 dbus1 x1,
     fu_cycle6 app cycle (m_fu (x_m (connected3 (w_x w) cycle))) (m_l1i (x_m (connected3 (w_x w) cycle)))
               (m_dbus (x_m (connected3 (w_x w) cycle))) = Ok (fu1, l1i1, dbus1) ->
     du_cycle3 app cycle (set_m (connected3 (w_x w) cycle)
                                (set_dbus (set_l1i (set_fu (x_m (connected3 (w_x w) cycle)) fu1) l1i1) dbus1)) = Ok x1 ->
     Forall (NM NN) (x_prev (cu_cycle3 ord cycle x1))) ->
  k_front hooks71 app ord cycle w = k_front hooks70 app ord cycle w.
Proof. exact front71_sim. Qed.
Print Assumptions C01_mvp71_front_partial.

(* evidence for the intended statement: the 14-instruction example, 1..4 cores *)
Theorem C01_mvp71_example : forall par, In par [1; 2; 3; 4]%nat ->
  mvp71_run_os par ord_asc 3001 (map instr_of ex63_prog) no_labels zero32 =
  mvp70_run_os par ord_asc 3001 (map instr_of ex63_prog) no_labels zero32.
Proof. exact mvp71_instances. Qed.
Print Assumptions C01_mvp71_example.
