(* C12 / C03 / C04 / C10 for MVP-8.0 (the pipeline of MVP-6.3 on per-core L1 caches behind cache
   controllers, an MSI directory and a shared L3).  Property theorems only; proofs in
   Mvp/Mvp80Proofs.v about the faithful cycle-level model Mvp/Mvp80.v (cc.go and msi.go as explicit
   state machines: 8 states for coRead, 9 for coWrite, 4 kinds of snoop closures; L3 mutexes as
   booleans; one step per VerifTick), tied to proc/mvp8-0 by exact equality of (cycles, registers,
   memory) at 1..4 cores (lib/vf/c12.py, lib/vf/modeltie.py; bin/tie_m80.py for all sampled
   iteration orders and the state at the tick budget). *)
From Coq Require Import ZArith List Bool Lia.
From Maj Require Import Base.Outcome Base.GoInt Base.GoTypes Isa.Spec Isa.Seq.
From Maj Require Import Gen.Latency Gen.RiscTables Gen.Opcodes Comp.Cache Comp.Rat Mvp.Mvp12 Mvp.Mvp3 Mvp.Mvp5 Mvp.Mvp60 Mvp.Mvp63 Mvp.Mvp80.
From Maj Require Import Mvp.Mvp60Proofs Mvp.Mvp63Proofs.
Import ListNotations.
Open Scope Z_scope.
From Maj Require Import Mvp.Mvp80Proofs.

(* C12: a returning run reports at least one cycle *)
Theorem C12_mvp80_cycles_positive :
  forall par ord fuel app labels st c st',
  mvp80_run par ord fuel app labels st = MDone c st' -> 1 <= c.
Proof. exact mvp80_cycles_pos. Qed.
Print Assumptions C12_mvp80_cycles_positive.

(* C12: at most two instructions are dispatched per cycle whatever the number of cores *)
Theorem C12_mvp80_issue_width_two :
  forall ord cycle y,
  bb_bl (x_ebus (y_x y)) = 2 -> ebus_ok (y_x y) ->
  zlen (bb_buf (x_ebus (y_x (cu_cycle8 ord cycle y)))) <= 2.
Proof. exact mvp80_dispatch_width. Qed.
Print Assumptions C12_mvp80_issue_width_two.

(* C03 / C07 finding SYS-multicore-7x8 as a theorem about the model: a wrong-path store makes the run
   panic ("write is negative": cacheController.flush deletes from the wrong map, double unlock) *)
Theorem C03_mvp80_wrong_path_store_panics_refuted :
  reg_of (mvp80_run 2 ord_asc 4000 wps_prog (one_label 12) (st_of [(5, 7)] [])) 10 = Some 9 /\
  mvp80_run 3 ord_asc 4000 wps_prog (one_label 12) (st_of [(5, 7)] []) = MPanic.
Proof. exact wrong_path_store_panics. Qed.
Print Assumptions C03_mvp80_wrong_path_store_panics_refuted.

(* C04: stores bypass the write bus and never release their scoreboard entries before the next flush *)
Theorem C04_mvp80_store_keeps_scoreboard :
  match mvp80_run_snap 1 ord_asc 600 stsb_prog no_labels (st_of [] []) with
  | inr (_, _, pw, pr, _, _) => (nth 5 pw 0, nth 5 pr 0)
  | inl _ => (-1, -1)
  end = (0, 1).
Proof. exact store_keeps_scoreboard. Qed.
Print Assumptions C04_mvp80_store_keeps_scoreboard.

(* C10 finding SYS-multicore-7x8: no memory ordering between cores - a load overtakes an older store to its address *)
Theorem C10_mvp80_load_overtakes_store_refuted :
  reg_of (mvp80_run 1 ord_asc 4000 stale_prog no_labels (st_of [(5, 7)] [])) 10 = Some 7 /\
  reg_of (mvp80_run 3 ord_asc 4000 stale_prog no_labels (st_of [(5, 7)] [])) 10 = Some 0.
Proof. exact load_overtakes_store. Qed.
Print Assumptions C10_mvp80_load_overtakes_store_refuted.
