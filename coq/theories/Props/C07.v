(* C07 - Every run terminates: no deadlock, livelock or panic; defined errors are
   error values.  Property theorems only.  Proved for the faithful models of
   MVP-1 and MVP-2; for the pipelined variants termination within the cycle
   budget is checked per run (lib/vf/c07.py) - no theorem is claimed there. *)
From Coq Require Import ZArith List.
From Maj Require Import Base.Outcome Base.GoInt Isa.Spec Isa.Seq Isa.Refine.
From Maj Require Import Gen.Latency Gen.Opcodes Mvp.Mvp12 Mvp.Mvp12Proofs.
Import ListNotations.
Open Scope Z_scope.

(* whenever the sequential machine terminates within n steps, so does the
   variant (same fuel), without panic, and the returned cycle count is at most
   (2 + 3*MemoryAccess + 50) per executed instruction *)
Theorem C07_mvp12_terminates :
  forall app labels, wf_app app -> wf_labels labels ->
  forall v fuel st st' tr, inv (regs st) (mem st) ->
  seq_run fuel (map sinstr_of app) labels st = Done st' tr ->
  exists c, mvp12_run v fuel app labels st = MDone c st' /\
            c <= (2 + 3 * MemoryAccess + 50) * Z.of_nat (length tr).
Proof. exact mvp12_terminates. Qed.
Print Assumptions C07_mvp12_terminates.

(* division by zero and undefined labels are reported as error values *)
Theorem C07_mvp12_errors_are_values :
  forall app labels, wf_app app -> wf_labels labels ->
  forall v fuel st e tr, inv (regs st) (mem st) ->
  seq_run fuel (map sinstr_of app) labels st = Failed e tr -> e = EDivZero \/ e = ELabel ->
  mvp12_run v fuel app labels st = MErr e.
Proof. exact mvp12_errors_are_values. Qed.
Print Assumptions C07_mvp12_errors_are_values.

(* at the instruction level no supported instruction panics (C02_no_panic) *)
Theorem C07_instructions_never_panic :
  forall i rr labels pc mem seq,
  (forall r, int32 (rr r)) -> int32 pc -> int32 (Embed.imm_of (sinstr_of i)) -> Embed.mem_ok (sinstr_of i) mem ->
  instr_Run i rr labels pc mem seq <> Panic.
Proof. exact no_panic. Qed.
Print Assumptions C07_instructions_never_panic.

Example C07_example_error :
  mvp12_run V1 10 [I_li (mk_li 5 3); I_rem (mk_rem 6 5 0)] (fun _ => None) (mk_arch (repeat 0 32) nil)
  = MErr EDivZero.
Proof. vm_compute. reflexivity. Qed.
