(* C01 / C03 / C12 / C07 for MVP-6.2 (proc/mvp6-2 = MVP-6.1 + SPECULATIVE REGISTER STATE: register results
   are written into a transaction map with ONE SLOT PER REGISTER - TransactionWriteRegister(exe, sequenceID) -;
   a conditional branch that resolves NOT TAKEN commits the whole map (notifyConditionalBranchNotTaken ->
   wu.commit()), one that resolves TAKEN rolls it back (entries at least as young as the branch are
   dropped, older ones committed); operands are read through registerRead: Forward, Transaction entry,
   Registers; final Commit) on REGISTER-ONLY programs.
   Property theorems only; the proofs are in Mvp/Mvp62RefProofs.v (on Mvp62RefRel, Mvp62RefFront,
   Mvp62RefExec, Mvp62RefStep: a tick-by-tick simulation of the faithful model Mvp/Mvp62.v by the faithful
   model Mvp/Mvp61.v, on top of the refinement proof of MVP-6.1, Mvp61Ref*.v); examples and findings in
   Mvp/Mvp62RefExamples.v.  Mvp/Mvp62.v is tied to proc/mvp6-2 by exact equality of cycles, registers and
   memory in the system differential.

   Program classes (as for MVP-6.0 / 6.1, Props/C01_mvp60.v, C01_mvp61.v):
     straight app      : no conditional branch, no j / jal / jalr; ret may occur anywhere; division allowed;
     fwd_ok app labels : FORWARD control flow - every branch / j / jal names a defined, 4-aligned label strictly
                         ahead, at most at the end of the text - and no div, rem, jalr
                         (C01_mvp62_taken_branch_shadow_error_refuted).  Branch shadows may contain anything
                         else, in particular writes to registers that are live after the branch; with
                         seq_ids_fit app: 3004 * length app < 2^31 (sequence ids are int32).
   Common hypotheses: wf_app; reg_only app (C01_mvp62_memory_order_refuted); regs_in_range app: register
   operands are x0..x31 (C01_mvp62_register_number_refuted); 1 <= par: any number of execute / write units;
   any iteration order ord of Go's maps; Forall int32 regs, length regs = 32
   (C01_mvp62_short_register_file_refuted); nth 0 regs 0 = 0: ctx.Registers[zero] is 0 (NEW for MVP-6.2,
   C01_mvp62_x0_refuted: registerRead does not special-case the zero register; it reads 0 only because the
   empty Forward {zero, 0} matches it).  No hypothesis on the memory.
   fuel_bound61 n = 400 * n + 1600 ticks, fuel_bound61_fwd n = (n + 1) * (400 * n + 1600).

   What the proofs show about the design: on register-only programs with forward control flow an execute
   unit never waits, instructions execute in program order, a branch executes in the cycle after its
   dispatch; so at any time every entry of the transaction map is OLDER than every instruction still to
   execute (Mvp62RefRel.TxB).  Hence Rollback(sequenceID of a taken branch) drops nothing and Commit on a
   not-taken branch commits no wrong-path value; wrong-path results never reach the map: the write units
   drop them by their sequence ids in the flush branch, as in MVP-6.1.  The architectural register state
   (Transaction entry, else Registers) evolves exactly as the register file of MVP-6.1, cycle for cycle.
   The defects of the one-slot map (Mvp62Proofs.mvp62_one_slot_witness; commit-all while an older branch is
   unresolved) need a branch that resolves late, i.e. a load: they cannot show in this class. *)
From Coq Require Import ZArith List Bool Lia.
From Maj Require Import Base.Outcome Base.GoInt Isa.Spec Isa.Seq Isa.Refine Gen.Opcodes.
From Maj Require Import Mvp.Mvp12 Mvp.Mvp12Proofs Mvp.Mvp4Skel Mvp.Mvp4Proofs Mvp.Mvp60 Mvp.Mvp61 Mvp.Mvp62 Mvp.Mvp60RefDefs Mvp.Mvp60RefProofs Mvp.Mvp60RefBranch
     Mvp.Mvp61RefFront Mvp.Mvp61RefProofs Mvp.Mvp62RefProofs Mvp.Mvp62RefExamples.
Import ListNotations.
Open Scope Z_scope.

(* C01: straight-line register-only programs: the pipeline with operand forwarding and the speculative
   register state returns - no error, no panic - the sequential registers and memory *)
Theorem C01_mvp62_refines_seq_straight : forall app labels, wf_app app ->
  straight app = true -> reg_only app = true -> regs_in_range app = true ->
  forall par ord fuel st st' tr, (1 <= par)%nat ->
  Forall int32 (regs st) -> length (regs st) = 32%nat -> nth 0 (regs st) 0 = 0 ->
  seq_run fuel (map sinstr_of app) labels st = Done st' tr ->
  exists c, forall fuel', (fuel_bound61 (length app) <= fuel')%nat -> mvp62_run par ord fuel' app labels st = MDone c st'.
Proof. exact mvp62_refines_seq_straight. Qed.
Print Assumptions C01_mvp62_refines_seq_straight.

Theorem C12_mvp62_run_straight : forall app labels, wf_app app ->
  straight app = true -> reg_only app = true -> regs_in_range app = true ->
  forall par ord fuel st st' tr, (1 <= par)%nat ->
  Forall int32 (regs st) -> length (regs st) = 32%nat -> nth 0 (regs st) 0 = 0 ->
  seq_run fuel (map sinstr_of app) labels st = Done st' tr ->
  exists c, (forall fuel', (fuel_bound61 (length app) <= fuel')%nat -> mvp62_run par ord fuel' app labels st = MDone c st') /\
            Z.of_nat (length tr) <= 2 * c.
Proof. exact mvp62_run_straight. Qed.
Print Assumptions C12_mvp62_run_straight.

(* C12: whenever the model finishes, with whatever fuel, it returns the sequential state and has counted at
   least ceil(executed instructions / 2) cycles *)
Theorem C12_mvp62_cycles_lower_bound_straight : forall app labels, wf_app app ->
  straight app = true -> reg_only app = true -> regs_in_range app = true ->
  forall par ord fuel st st' tr, (1 <= par)%nat ->
  Forall int32 (regs st) -> length (regs st) = 32%nat -> nth 0 (regs st) 0 = 0 ->
  seq_run fuel (map sinstr_of app) labels st = Done st' tr ->
  forall fuel' c st'', mvp62_run par ord fuel' app labels st = MDone c st'' ->
  st'' = st' /\ Z.of_nat (length tr) <= 2 * c /\ (Z.of_nat (length tr) + 1) / 2 <= c.
Proof. exact mvp62_cycles_lower_bound_straight. Qed.
Print Assumptions C12_mvp62_cycles_lower_bound_straight.

(* C07: termination within fuel_bound61 (length app) ticks, no panic *)
Theorem C07_mvp62_terminates_straight : forall app labels, wf_app app ->
  straight app = true -> reg_only app = true -> regs_in_range app = true ->
  forall par ord fuel st st' tr, (1 <= par)%nat ->
  Forall int32 (regs st) -> length (regs st) = 32%nat -> nth 0 (regs st) 0 = 0 ->
  seq_run fuel (map sinstr_of app) labels st = Done st' tr ->
  exists c, mvp62_run par ord (fuel_bound61 (length app)) app labels st = MDone c st' /\
            (Z.of_nat (length tr) + 1) / 2 <= c.
Proof. exact mvp62_terminates_straight. Qed.
Print Assumptions C07_mvp62_terminates_straight.

Theorem C07_mvp62_no_panic_straight : forall app labels, wf_app app ->
  straight app = true -> reg_only app = true -> regs_in_range app = true ->
  forall par ord fuel st st' tr, (1 <= par)%nat ->
  Forall int32 (regs st) -> length (regs st) = 32%nat -> nth 0 (regs st) 0 = 0 ->
  seq_run fuel (map sinstr_of app) labels st = Done st' tr ->
  forall fuel', (fuel_bound61 (length app) <= fuel')%nat ->
  mvp62_run par ord fuel' app labels st <> MPanic /\ mvp62_run par ord fuel' app labels st <> MOutOfFuel /\
  (forall e, mvp62_run par ord fuel' app labels st <> MErr e).
Proof. exact mvp62_no_panic_straight. Qed.
Print Assumptions C07_mvp62_no_panic_straight.

(* C01 / C03 with forward control flow: conditional branches, j and jal to labels ahead, arbitrary
   register-writing branch shadows: WRONG-PATH INSTRUCTIONS LEAVE NO ARCHITECTURAL TRACE - the variant of
   the property the README introduces MVP-6.2 for *)
Theorem C01_mvp62_refines_seq_forward : forall app labels, wf_app app ->
  reg_only app = true -> regs_in_range app = true -> fwd_ok app labels = true -> seq_ids_fit app ->
  forall par ord fuel st st' tr, (1 <= par)%nat ->
  Forall int32 (regs st) -> length (regs st) = 32%nat -> nth 0 (regs st) 0 = 0 ->
  seq_run fuel (map sinstr_of app) labels st = Done st' tr ->
  exists c, forall fuel', (fuel_bound61_fwd (length app) <= fuel')%nat -> mvp62_run par ord fuel' app labels st = MDone c st'.
Proof. exact mvp62_refines_seq_forward. Qed.
Print Assumptions C01_mvp62_refines_seq_forward.

(* C12: on both classes MVP-6.2 takes EXACTLY the cycles of MVP-6.1 (with the first-match choice in
   shouldUseForwarding, which is what the model of MVP-6.2 takes): the speculative register state costs
   no cycle when no branch waits for a load *)
Theorem C12_mvp62_agrees_mvp61_forward : forall app labels, wf_app app ->
  reg_only app = true -> regs_in_range app = true -> fwd_ok app labels = true -> seq_ids_fit app ->
  forall par ord fuel st st' tr, (1 <= par)%nat ->
  Forall int32 (regs st) -> length (regs st) = 32%nat -> nth 0 (regs st) 0 = 0 ->
  seq_run fuel (map sinstr_of app) labels st = Done st' tr ->
  exists c, forall fuel', (fuel_bound61_fwd (length app) <= fuel')%nat ->
    mvp62_run par ord fuel' app labels st = MDone c st' /\ mvp61_run par ord (pord_policy 0) fuel' app labels st = MDone c st'.
Proof. exact mvp62_agrees_mvp61_forward. Qed.
Print Assumptions C12_mvp62_agrees_mvp61_forward.

Theorem C12_mvp62_agrees_mvp61_straight : forall app labels, wf_app app ->
  straight app = true -> reg_only app = true -> regs_in_range app = true ->
  forall par ord fuel st st' tr, (1 <= par)%nat ->
  Forall int32 (regs st) -> length (regs st) = 32%nat -> nth 0 (regs st) 0 = 0 ->
  seq_run fuel (map sinstr_of app) labels st = Done st' tr ->
  exists c, (forall fuel', (fuel_bound61 (length app) <= fuel')%nat ->
               mvp62_run par ord fuel' app labels st = MDone c st' /\ mvp61_run par ord (pord_policy 0) fuel' app labels st = MDone c st') /\
            Z.of_nat (length tr) <= 2 * c.
Proof. exact mvp62_agrees_mvp61_straight. Qed.
Print Assumptions C12_mvp62_agrees_mvp61_straight.

(* findings: why the hypotheses are there *)

Theorem C01_mvp62_x0_refuted :
  let p := [SNop; SLi 5 1; SAdd 6 5 0] in
  let st := mk_arch (7 :: repeat 0 31) (repeat 0 8) in
  wf_app (map instr_of p) /\ straight (map instr_of p) = true /\ reg_only (map instr_of p) = true /\
  regs_in_range (map instr_of p) = true /\ length (regs st) = 32%nat /\ nth 0 (regs st) 0 = 7 /\
  exists st' tr c st6,
    seq_run 10 p no_lab st = Done st' tr /\
    mvp62_run 2 (ord_policy 0) 3000 (map instr_of p) no_lab st = MDone c st6 /\
    mvp61_run 2 (ord_policy 0) (pord_policy 0) 3000 (map instr_of p) no_lab st = MDone c st' /\
    rget (regs st') 6 = 1 /\ rget (regs st6) 6 = 8.
Proof. exact mvp62_x0_refuted. Qed.
Print Assumptions C01_mvp62_x0_refuted.

Theorem C01_mvp62_memory_order_refuted :
  let p := [SLw 6 0 0; SLi 5 7; SSw 5 0 0; SLw 6 0 0] in
  let st := mk_arch (repeat 0 32) (repeat 0 256) in
  wf_app (map instr_of p) /\ straight (map instr_of p) = true /\ regs_in_range (map instr_of p) = true /\
  exists st' tr st6,
    seq_run 20 p no_lab st = Done st' tr /\
    mvp62_run 2 (ord_policy 0) 5000 (map instr_of p) no_lab st = MDone 985 st6 /\
    rget (regs st') 6 = 7 /\ mget (mem st') 0 = 7 /\
    rget (regs st6) 6 = 0 /\ mget (mem st6) 0 = 0.
Proof. exact mvp62_memory_order_refuted. Qed.
Print Assumptions C01_mvp62_memory_order_refuted.

Theorem C01_mvp62_register_number_refuted :
  let p := [SNop; SLi 40 9; SLi 5 7; SAdd 6 40 5] in
  wf_app (map instr_of p) /\ straight (map instr_of p) = true /\ reg_only (map instr_of p) = true /\
  regs_in_range (map instr_of p) = false /\
  exists st' tr c st6,
    seq_run 10 p no_lab zero_state = Done st' tr /\
    mvp62_run 2 (ord_policy 0) 3000 (map instr_of p) no_lab zero_state = MDone c st6 /\
    rget (regs st') 6 = 7 /\ rget (regs st6) 6 = 9.
Proof. exact mvp62_register_number_refuted. Qed.
Print Assumptions C01_mvp62_register_number_refuted.

Theorem C01_mvp62_short_register_file_refuted :
  let p := [SLi 7 5; SAddi 3 7 1] in
  let st := mk_arch (repeat 0 5) (repeat 0 64) in
  wf_app (map instr_of p) /\ straight (map instr_of p) = true /\ reg_only (map instr_of p) = true /\
  regs_in_range (map instr_of p) = true /\
  exists st' tr c st6,
    seq_run 10 p no_lab st = Done st' tr /\
    mvp62_run 2 (ord_policy 0) 3000 (map instr_of p) no_lab st = MDone c st6 /\
    rget (regs st') 3 = 1 /\ rget (regs st6) 3 = 6 /\ length (regs st6) = 32%nat.
Proof. exact mvp62_short_register_file_refuted. Qed.
Print Assumptions C01_mvp62_short_register_file_refuted.

Theorem C01_mvp62_taken_branch_shadow_error_refuted :
  let app := map instr_of shadow_div_prog in
  wf_app app /\ reg_only app = true /\ regs_in_range app = true /\ one_forward_branch app shadow_labels = true /\
  exists st' tr,
    seq_run 10 (map sinstr_of app) shadow_labels zero_state = Done st' tr /\
    length tr = 3%nat /\ rget (regs st') 7 = 9 /\
    mvp62_run 1 (ord_policy 0) 3000 app shadow_labels zero_state = MDone 323 st' /\
    mvp62_run 2 (ord_policy 0) 3000 app shadow_labels zero_state = MErr EDivZero /\
    mvp62_run 3 (ord_policy 0) 3000 app shadow_labels zero_state = MErr EDivZero /\
    mvp62_run 4 (ord_policy 0) 3000 app shadow_labels zero_state = MErr EDivZero.
Proof. exact mvp62_taken_branch_shadow_error_refuted. Qed.
Print Assumptions C01_mvp62_taken_branch_shadow_error_refuted.

(* non-vacuity *)
Theorem C01_mvp62_example :
  let app := map instr_of ex62_prog in
  wf_app app /\ straight app = true /\ reg_only app = true /\ regs_in_range app = true /\
  Forall int32 (regs zero_state) /\ length (regs zero_state) = 32%nat /\ nth 0 (regs zero_state) 0 = 0 /\
  exists st' tr c,
    seq_run 100 (map sinstr_of app) no_lab zero_state = Done st' tr /\
    mvp62_run 3 (ord_policy 0) (fuel_bound61 (length app)) app no_lab zero_state = MDone c st' /\
    length tr = 14%nat /\ c = 335 /\ (Z.of_nat (length tr) + 1) / 2 <= c /\
    rget (regs st') 5 = 57 /\ rget (regs st') 7 = 65 /\ rget (regs st') 13 = 248 /\ rget (regs st') 14 = 0.
Proof. exact mvp62_example. Qed.
Print Assumptions C01_mvp62_example.

(* a taken branch whose shadow writes a register (x7) that is live afterwards, three execute / write units *)
Theorem C01_mvp62_forward_example :
  let app := map instr_of exf62_prog in
  wf_app app /\ reg_only app = true /\ regs_in_range app = true /\ fwd_ok app exf62_labels = true /\ seq_ids_fit app /\
  Forall int32 (regs zero_state) /\ length (regs zero_state) = 32%nat /\ nth 0 (regs zero_state) 0 = 0 /\
  exists st' tr c,
    seq_run 100 (map sinstr_of app) exf62_labels zero_state = Done st' tr /\
    mvp62_run 3 (ord_policy 0) (fuel_bound61_fwd (length app)) app exf62_labels zero_state = MDone c st' /\
    length tr = 6%nat /\ c = 329 /\
    rget (regs st') 7 = 4 /\ rget (regs st') 8 = 0 /\ rget (regs st') 9 = 9 /\ rget (regs st') 10 = 81 /\ rget (regs st') 11 = 0.
Proof. exact mvp62_forward_example. Qed.
Print Assumptions C01_mvp62_forward_example.
