(* C01 / C05 / C12 / C07 for MVP-5 on programs WITH loads and stores.
   Property theorems only; proofs in Mvp/Mvp5mProofs.v (skeleton Mvp5mSkel.v,
   invariant and progress Mvp5mFront.v, simulation Mvp5mSim.v, reusing the MVP-4
   development Mvp4m*.v and the register-only MVP-5 development Mvp5*.v), about the
   cycle-level model Mvp/Mvp5.v.

   As for MVP-4, the unrestricted statement is FALSE for the faithful model
   (C05_mvp5_cold_store_then_load_refuted below).  Hypothesis used to exclude it:

     stores_hit [] evs : EVERY STORE HITS IN THE L1D - its 64-byte line was
                         loaded earlier and is still resident (recency list of the
                         16-line LRU L1D, computed from the addresses of the
                         sequential run only; no timing involved).

   Other hypotheses, as for MVP-4 (Props/C05_mvp4.v): wf_app, wf_labels, int32
   registers (at most 32), int8 memory of at most 2^31 - 64 bytes, every access
   inside one 64-byte line (accesses_ok), every visited pc below 2^31 - 4
   (evs_below).  seq_evs = events (pc, loaded addresses, stored addresses) of the
   sequential run, including the pc at which it halts;
   fuel_bound_m n = (n + 1) * 1035 (the bound of MVP-4). *)
From Coq Require Import ZArith List Bool Lia.
From Maj Require Import Base.Outcome Base.GoInt Isa.Spec Isa.Seq Isa.Refine Gen.Opcodes Gen.Latency.
From Maj Require Import Mvp.Mvp12 Mvp.Mvp12Proofs Mvp.Mvp3 Mvp.Mvp3Proofs Mvp.Mvp4 Mvp.Mvp5 Mvp.Mvp4Skel Mvp.Mvp4Proofs
     Mvp.Mvp4mSkel Mvp.Mvp4mProofs Mvp.Mvp5Proofs Mvp.Mvp5mSkel Mvp.Mvp5mProofs.
Import ListNotations.
Open Scope Z_scope.

(* the pipeline with its L1D and BTB returns exactly the sequential registers AND
   memory (all stores are in main memory after the final flush), no error, no panic,
   for every fuel from fuel_bound_m (length tr) on; at least one cycle per executed
   instruction *)
Theorem C05_mvp5_refines_seq_storehit : forall app labels, wf_app app -> wf_labels labels ->
  forall fuel st st' tr,
  inv (regs st) (mem st) -> (length (regs st) <= 32)%nat -> mem_small st ->
  accesses_ok fuel (map sinstr_of app) labels st 0 ->
  seq_run fuel (map sinstr_of app) labels st = Done st' tr ->
  evs_below (seq_evs fuel (map sinstr_of app) labels st 0) = true ->
  stores_hit [] (seq_evs fuel (map sinstr_of app) labels st 0) = true ->
  exists c, (forall fuel', (fuel_bound_m (length tr) <= fuel')%nat -> mvp5_run fuel' app labels st = MDone c st') /\
            Z.of_nat (length tr) <= c <= 2 * Z.of_nat (fuel_bound_m (length tr)) + MemoryAccess * 16.
Proof. exact mvp5_refines_seq_storehit. Qed.
Print Assumptions C05_mvp5_refines_seq_storehit.

(* the cycle count is mvp5_cost_mem: a function of the program and the events *)
Theorem C12_mvp5_cycles_function_of_events : forall app labels, wf_app app -> wf_labels labels ->
  forall fuel st st' tr,
  inv (regs st) (mem st) -> (length (regs st) <= 32)%nat -> mem_small st ->
  accesses_ok fuel (map sinstr_of app) labels st 0 ->
  seq_run fuel (map sinstr_of app) labels st = Done st' tr ->
  evs_below (seq_evs fuel (map sinstr_of app) labels st 0) = true ->
  stores_hit [] (seq_evs fuel (map sinstr_of app) labels st 0) = true ->
  exists c, (forall fuel', (fuel_bound_m (length tr) <= fuel')%nat ->
               mvp5_run fuel' app labels st = MDone c st' /\
               mvp5_cost_mem fuel' app (seq_evs fuel (map sinstr_of app) labels st 0) = Some c) /\
            Z.of_nat (length tr) <= c <= 2 * Z.of_nat (fuel_bound_m (length tr)) + MemoryAccess * 16.
Proof. exact mvp5_run_events. Qed.
Print Assumptions C12_mvp5_cycles_function_of_events.

Theorem C12_mvp5_value_independent_mem : forall app labels, wf_app app -> wf_labels labels ->
  forall fuel st1 st2 st1' st2' tr1 tr2,
  inv (regs st1) (mem st1) -> (length (regs st1) <= 32)%nat -> mem_small st1 ->
  accesses_ok fuel (map sinstr_of app) labels st1 0 ->
  inv (regs st2) (mem st2) -> (length (regs st2) <= 32)%nat -> mem_small st2 ->
  accesses_ok fuel (map sinstr_of app) labels st2 0 ->
  seq_run fuel (map sinstr_of app) labels st1 = Done st1' tr1 ->
  seq_run fuel (map sinstr_of app) labels st2 = Done st2' tr2 ->
  seq_evs fuel (map sinstr_of app) labels st1 0 = seq_evs fuel (map sinstr_of app) labels st2 0 ->
  evs_below (seq_evs fuel (map sinstr_of app) labels st1 0) = true ->
  stores_hit [] (seq_evs fuel (map sinstr_of app) labels st1 0) = true ->
  exists c, forall fuel', (fuel_bound_m (Nat.max (length tr1) (length tr2)) <= fuel')%nat ->
    mvp5_run fuel' app labels st1 = MDone c st1' /\ mvp5_run fuel' app labels st2 = MDone c st2'.
Proof. exact mvp5_value_independent_mem. Qed.
Print Assumptions C12_mvp5_value_independent_mem.

(* C07: no panic, no error, termination within fuel_bound_m (length tr) iterations *)
Theorem C07_mvp5_no_panic_mem : forall app labels, wf_app app -> wf_labels labels ->
  forall fuel st st' tr fuel',
  inv (regs st) (mem st) -> (length (regs st) <= 32)%nat -> mem_small st ->
  accesses_ok fuel (map sinstr_of app) labels st 0 ->
  seq_run fuel (map sinstr_of app) labels st = Done st' tr ->
  evs_below (seq_evs fuel (map sinstr_of app) labels st 0) = true ->
  stores_hit [] (seq_evs fuel (map sinstr_of app) labels st 0) = true ->
  (fuel_bound_m (length tr) <= fuel')%nat ->
  mvp5_run fuel' app labels st <> MPanic /\ mvp5_run fuel' app labels st <> MOutOfFuel /\
  (forall e, mvp5_run fuel' app labels st <> MErr e).
Proof. exact mvp5_no_panic_mem. Qed.
Print Assumptions C07_mvp5_no_panic_mem.

Theorem C07_mvp5_fuel_bound_m_value : forall n, fuel_bound_m n = ((n + 1) * 1035)%nat.
Proof. exact fuel_bound_m_value. Qed.

(* the finding: without the hypothesis the statement is false *)
Theorem C05_mvp5_cold_store_then_load_refuted :
  let p := [SLi 5 7; SSw 5 0 0; SSw 5 128 0; SSw 5 64 0; SLw 6 64 0; SRet] in
  let st := mk_arch (repeat 0 32) (repeat 0 256) in
  exists st' tr c st5,
    seq_run 20 p no_lab st = Done st' tr /\
    mvp5_run 5000 (map instr_of p) no_lab st = MDone c st5 /\
    rget (regs st') 6 = 7 /\ mget (mem st') 64 = 7 /\
    rget (regs st5) 6 = 0 /\ mget (mem st5) 64 = 0.
Proof. exact mvp5_cold_store_then_load_refuted. Qed.
Print Assumptions C05_mvp5_cold_store_then_load_refuted.

(* non-vacuity: read-modify-write over 20 lines (16 fit: evictions and write-backs)
   with a subroutine call inside the loop (jal at 12: BTB miss the first time, hit
   afterwards; the jalr at 68 always returns to 16: BTB hit with the right target),
   a second loop reading everything back, RAW hazards, taken backward branches, a
   final jump over the subroutine *)
Definition ex5m_prog : list sinstr :=
  [SLi 5 0; SLi 6 1280;
   (* 8: loop1 *) SLw 7 0 5; SJal 1 3; SSw 7 0 5; SSb 7 9 5; SAddi 5 5 64; SBlt 5 6 1;
   SLi 5 0;
   (* 36: loop2 *) SLw 8 0 5; SAdd 9 9 8; SAddi 5 5 64; SBlt 5 6 2;
   SLb 1 0 0; SSw 9 4 0; SJ 4;
   (* 64: subroutine *) SAddi 7 7 1; SJalr 0 1 0;
   (* 72 *) SRet].
Definition ex5m_labels : Z -> option Z := lookup [(1, 8); (2, 36); (3, 64); (4, 72)].
Definition ex5m_state : arch := mk_arch (repeat 0 32) (repeat 3 4096).

Example C05_mvp5_example :
  let app := map instr_of ex5m_prog in
  wf_app app /\ wf_labels ex5m_labels /\ inv (regs ex5m_state) (mem ex5m_state) /\
  (length (regs ex5m_state) <= 32)%nat /\ mem_small ex5m_state /\
  accesses_ok 400 (map sinstr_of app) ex5m_labels ex5m_state 0 /\
  evs_below (seq_evs 400 (map sinstr_of app) ex5m_labels ex5m_state 0) = true /\
  stores_hit [] (seq_evs 400 (map sinstr_of app) ex5m_labels ex5m_state 0) = true /\
  exists st' tr c,
    seq_run 400 (map sinstr_of app) ex5m_labels ex5m_state = Done st' tr /\
    mvp5_run (50 * 1000) app ex5m_labels ex5m_state = MDone c st' /\
    mvp5_cost_mem (50 * 1000) app (seq_evs 400 (map sinstr_of app) ex5m_labels ex5m_state 0) = Some c /\
    length tr = 247%nat /\ c = 20746 /\ mget (mem st') 0 = 4 /\ mget (mem st') 9 = 4 /\ mget (mem st') 1216 = 4.
Proof.
  cbv zeta. split; [|split; [|split; [|split; [|split; [|split; [|split; [|split]]]]]]].
  - split; [|vm_compute; reflexivity]. cbn [map ex5m_prog instr_of]. repeat constructor; vm_compute; discriminate.
  - intros l a H. unfold ex5m_labels in H. cbn [lookup] in H.
    destruct (l =? 1); [injection H as <-; apply int32_bounds; lia|].
    destruct (l =? 2); [injection H as <-; apply int32_bounds; lia|].
    destruct (l =? 3); [injection H as <-; apply int32_bounds; lia|].
    destruct (l =? 4); [injection H as <-; apply int32_bounds; lia | discriminate].
  - split; apply Forall_forall; intros x Hx; apply repeat_spec in Hx; subst x; [apply int32_0 | apply int8_bounds; lia].
  - vm_compute. lia.
  - vm_compute. discriminate.
  - apply accesses_okb_spec. vm_compute. reflexivity.
  - vm_compute. reflexivity.
  - vm_compute. reflexivity.
  - do 3 eexists. split; [vm_compute; reflexivity|]. split; [vm_compute; reflexivity|].
    split; [vm_compute; reflexivity|]. vm_compute. repeat split; reflexivity.
Qed.
