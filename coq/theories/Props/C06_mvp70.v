(* C06 about the FAITHFUL cycle-level model of MVP-7.0 (Mvp/Mvp70.v, tied to proc/mvp7-0 by exact equality of
   cycles, registers and memory).  Definitions: Msi/M70Inv.v; proofs: Msi/M70Proofs*.v; frame lemmas: Msi/M70Frame.v.
   The memory system of a state s is (st_mem s, st_msi s, v_eus s): main memory, the MSI directory, the execute
   units with their cache controllers and L1s.  See the header of Msi/M70Proofs2.v for what is NOT proved. *)
From Coq Require Import ZArith List Bool Lia.
From Maj Require Import Base.Outcome Base.GoInt Base.GoTypes Isa.Spec Isa.Seq Isa.Refine.
From Maj Require Import Gen.Latency Gen.RiscTables Gen.Opcodes Comp.Cache Comp.Rat Mvp.Mvp12 Mvp.Mvp3 Mvp.Mvp5 Mvp.Mvp60 Mvp.Mvp63 Mvp.Mvp63Proofs Mvp.Mvp70 Mvp.Mvp70Proofs.
From Maj Require Import Msi.M70Inv Msi.M70Frame Msi.M70Proofs Msi.M70Proofs2.
Import ListNotations.
Open Scope Z_scope.

(* Clauses 4 and 5 (and the range of the directory states) hold in EVERY state a run of MVP-7.0 goes through:
   every program, every number of cores, every order function, pipeline flushes INCLUDED.
   clause 4: no address is covered by two lines of an L1; every line has a non-negative base that is a multiple
             of 64, 64 bytes of data and hi = lo + 64 in int32 arithmetic;
   clause 5: for every line the counters (read, write) of its semaphore satisfy 0 <= read, 0 <= write <= 1 and
             write = 1 -> read = 0. *)
Theorem C06_mvp70_structural : forall par ord app labels st s0 s,
  init7 par ord app st = Ok s0 -> reach7 hooks70 app labels ord s0 s -> C06Struct70_st s.
Proof. exact mvp70_struct. Qed.
Print Assumptions C06_mvp70_structural.

(* the states of mvp70_run are such states *)
Theorem C06_mvp70_run_states : forall fuel app labels ord s0 s s', reach7 hooks70 app labels ord s0 s ->
  run7_st hooks70 fuel app labels ord s = inr s' -> reach7 hooks70 app labels ord s0 s'.
Proof. exact (run7_st_reach hooks70). Qed.
Print Assumptions C06_mvp70_run_states.

(* PARTIAL result for the flush-free prefix of every run (reach7nf: every tick satisfies step_noflush7 - no
   execute unit raises `flush` in the main loop, the flush loops and CPU.flush are not entered; straight-line
   programs are an instance), every program, number of cores and order function:
   clause 1: a line Modified in one core is Invalid in every other core (single writer, and Modified excludes
             Shared elsewhere);
   the read / write counters of every line are EXACTLY the numbers of cores inside a transaction whose `post`
   closure will release them (so Sem.RUnlock / Sem.Unlock never find a counter at 0), and clause 5.
   Clauses 2 and 3 are not proved about the faithful model: see the header of Msi/M70Proofs2.v. *)
Theorem C06_mvp70_single_writer_partial : forall par ord app labels st s0 s,
  init7 par ord app st = Ok s0 -> reach7nf hooks70 app labels ord s0 s ->
  clause1_70 (st_msi s) /\ sem_count70 (st_msi s) (v_eus s) /\ clause5_70 (st_msi s).
Proof. exact mvp70_swmr_partial. Qed.
Print Assumptions C06_mvp70_single_writer_partial.

(* a flush-free prefix is a prefix: clauses 4 and 5 hold there as well *)
Theorem C06_mvp70_noflush_is_run : forall hk app labels ord s0 s,
  reach7nf hk app labels ord s0 s -> reach7 hk app labels ord s0 s.
Proof. exact reach7nf_reach7. Qed.
Print Assumptions C06_mvp70_noflush_is_run.

(* the hypothesis is not vacuous: the tick of a straight-line program is flush-free (boolean form, evaluated
   along the whole run by check70 ... true ... below: the run is judged to its end, 2195 states) *)

(* Non-vacuity / evidence: a program with loads and stores that contend for two lines, on 3 cores; the boolean
   judge c06full70_b (the five clauses c06inv70_b AND every supporting conjunct of the candidate inductive
   invariant: semaphore counting, phase shapes, commands, justification, snoop lists) is evaluated in every
   state of the run: 2195 states judged, the run ends (true), no failure. *)
Definition c06_prog : list instr := map instr_of
  [SLi 10 0; SLi 11 64; SLi 5 7; SSw 5 0 10; SLw 6 0 10; SSw 6 4 11; SLw 7 4 11; SSw 7 8 10; SLw 8 8 10; SLw 9 0 11; SSb 5 70 10].
Example C06_mvp70_example :
  check70 judge_full true 3 ord_asc 20000 c06_prog no_labels (st7_of 256 [] [(3, -56)]) = Some (2195, true, None).
Proof. vm_compute. reflexivity. Qed.
