(* C06 about the FAITHFUL cycle-level model of MVP-7.0 (Mvp/Mvp70.v, tied to proc/mvp7-0 by exact equality of
   cycles, registers and memory).  Definitions: Msi/M70Inv.v; proofs: Msi/M70Proofs*.v; frame lemmas: Msi/M70Frame.v.
   The memory system of a state s is (st_mem s, st_msi s, v_eus s): main memory, the MSI directory, the execute
   units with their cache controllers and L1s.  See the header of Msi/M70Proofs2.v for what is NOT proved. *)
From Coq Require Import ZArith List Bool Lia.
From Maj Require Import Base.Outcome Base.GoInt Base.GoTypes Isa.Spec Isa.Seq Isa.Refine.
From Maj Require Import Gen.Latency Gen.RiscTables Gen.Opcodes Comp.Cache Comp.Rat Mvp.Mvp12 Mvp.Mvp3 Mvp.Mvp5 Mvp.Mvp60 Mvp.Mvp63 Mvp.Mvp63Proofs Mvp.Mvp70 Mvp.Mvp70Proofs.
From Maj Require Import Msi.M70Inv Msi.M70Frame Msi.M70Proofs Msi.M70Proofs2 Msi.M70Proofs3 Msi.M70Proofs4 Msi.M70Proofs5 Msi.M70Proofs6.
Import ListNotations.
Open Scope Z_scope.

(* Clauses 4 and 5 (and the range of the directory states) hold in EVERY state a run of MVP-7.0 goes through:
   every program, every number of cores, every order function, pipeline flushes INCLUDED.
   clause 4: no address is covered by two lines of an L1; every line has a non-negative base that is a multiple
             of 64, 64 bytes of data and hi = lo + 64 in int32 arithmetic;
   clause 5: for every line the counters (read, write) of its semaphore satisfy 0 <= read, 0 <= write <= 1 and
             write = 1 -> read = 0. *)
Theorem C06_mvp70_structural : forall par ord app labels st s0 s,
  init7 par ord app st = Ok s0 -> reach7 hooks70 app labels ord s0 s -> C06Struct70_st s.
Proof. exact mvp70_struct. Qed.
Print Assumptions C06_mvp70_structural.

(* the states of mvp70_run are such states *)
Theorem C06_mvp70_run_states : forall fuel app labels ord s0 s s', reach7 hooks70 app labels ord s0 s ->
  run7_st hooks70 fuel app labels ord s = inr s' -> reach7 hooks70 app labels ord s0 s'.
Proof. exact (run7_st_reach hooks70). Qed.
Print Assumptions C06_mvp70_run_states.

(* PARTIAL result for the flush-free prefix of every run (reach7nf: every tick satisfies step_noflush7 - no
   execute unit raises `flush` in the main loop, the flush loops and CPU.flush are not entered; straight-line
   programs are an instance), every program, number of cores and order function:
   clause 1: a line Modified in one core is Invalid in every other core (single writer, and Modified excludes
             Shared elsewhere);
   the read / write counters of every line are EXACTLY the numbers of cores inside a transaction whose `post`
   closure will release them (so Sem.RUnlock / Sem.Unlock never find a counter at 0), and clause 5.
   Clauses 2 and 3: C06_mvp70_shared_equals_memory, C06_mvp70_l1_iff_valid below. *)
Theorem C06_mvp70_single_writer_partial : forall par ord app labels st s0 s,
  init7 par ord app st = Ok s0 -> reach7nf hooks70 app labels ord s0 s ->
  clause1_70 (st_msi s) /\ sem_count70 (st_msi s) (v_eus s) /\ clause5_70 (st_msi s).
Proof. exact mvp70_swmr_partial. Qed.
Print Assumptions C06_mvp70_single_writer_partial.

(* Clause 3 on the flush-free prefix of every run, every program, number of cores and order function:
   for every core n (its execute unit e) and every line address a (a multiple of 64),
     - if the directory state of (n, a) is not Invalid, the L1 of core n holds the line (some line of its
       cache covers a);
     - if the L1 of core n holds the line and no TRANSFER of a is in progress in its controller (transfer7 e a:
       the controller is inside a read / write transaction whose `post` closure will install the line,
       setState(shared / modified), i.e. the coroutine is between its fill and its settle), the state is not
       Invalid.
   With it, about the snoop commands in flight (cmds_ok70): the kind of every command matches the state of its
   target (evict <-> Shared, write-back <-> Modified), its target is not inside a transaction on that line, and
   every closure of a snoop list has its command in the directory.
   Proof: Msi/M70Proofs3.v (command invariant GI, stated over the semaphores) and Msi/M70Proofs4.v (shape of a
   controller, the L1 through Get / PushLineWithEvictionWarning / EvictCacheLine / Write, the loops). *)
Theorem C06_mvp70_l1_iff_valid : forall par ord app labels st s0 s,
  init7 par ord app st = Ok s0 -> reach7nf hooks70 app labels ord s0 s ->
  clause3_70 (st_msi s) (v_eus s) /\ cmds_ok70 (st_msi s) (v_eus s).
Proof. exact mvp70_clause3. Qed.
Print Assumptions C06_mvp70_l1_iff_valid.

(* Clause 2 on the flush-free prefix of every run: a line that is Shared in core n (directory state of (n, a),
   a a multiple of 64) is in the L1 of core n and the 64 bytes of that L1 line are the 64 bytes of main memory
   at a (mem_line: what mmu.fetchCacheLine returns).  Proof: Msi/M70Proofs5.v - memory changes only in the
   write-back closure of a core that holds the line Modified; the L1 data of a line changes only in coWriteToL1,
   in the call that makes the line Modified; a Shared copy is created by a fill whose bytes were read from
   memory after every Modified holder had written back, and nobody can become Modified while the read counter
   of the line is held. *)
Theorem C06_mvp70_shared_equals_memory : forall par ord app labels st s0 s,
  init7 par ord app st = Ok s0 -> reach7nf hooks70 app labels ord s0 s ->
  clause2_70 (st_mem s) (st_msi s) (v_eus s).
Proof. exact mvp70_clause2. Qed.
Print Assumptions C06_mvp70_shared_equals_memory.

(* The five clauses of C06 in every state of the flush-free prefix of every run of MVP-7.0 (every program,
   1..n cores, every order function). *)
Theorem C06_mvp70_inv_reachable : forall par ord app labels st s0 s,
  init7 par ord app st = Ok s0 -> reach7nf hooks70 app labels ord s0 s -> C06Inv70_st s.
Proof. exact mvp70_inv_reachable. Qed.
Print Assumptions C06_mvp70_inv_reachable.

(* The boolean judge of the five clauses (evaluated by the system check at every cycle of the Go runs through
   the snapshots) is sound for the Prop statement, for EVERY memory, directory and list of execute units. *)
Theorem C06_mvp70_judge_sound : forall mem i eus, c06inv70_b mem i eus = true -> C06Inv70 mem i eus.
Proof. exact c06inv70_b_sound. Qed.
Print Assumptions C06_mvp70_judge_sound.

Theorem C06_mvp70_full_judge_sound : forall mem i eus, c06full70_b mem i eus = true -> C06Inv70 mem i eus.
Proof.
  intros mem i eus H. apply c06inv70_b_sound. unfold c06full70_b in H.
  do 7 (apply andb_true_iff in H as [H _]). exact H.
Qed.
Print Assumptions C06_mvp70_full_judge_sound.

(* FINDING (about the judge only): the converse of C06_mvp70_judge_sound is false - the judge checks every entry
   of msi.pendings, clause 5 speaks of the entry getSem finds; a directory with a duplicate key (unreachable:
   sem_set replaces in place) satisfies the five clauses and fails the judge. *)
Theorem C06_mvp70_judge_complete_refuted : exists mem i eus, C06Inv70 mem i eus /\ c06inv70_b mem i eus = false.
Proof. exact c06inv70_b_complete_refuted. Qed.
Print Assumptions C06_mvp70_judge_complete_refuted.

(* a flush-free prefix is a prefix: clauses 4 and 5 hold there as well *)
Theorem C06_mvp70_noflush_is_run : forall hk app labels ord s0 s,
  reach7nf hk app labels ord s0 s -> reach7 hk app labels ord s0 s.
Proof. exact reach7nf_reach7. Qed.
Print Assumptions C06_mvp70_noflush_is_run.

(* the hypothesis is not vacuous: the tick of a straight-line program is flush-free (boolean form, evaluated
   along the whole run by check70 ... true ... below: the run is judged to its end, 2195 states) *)

(* Non-vacuity / evidence: a program with loads and stores that contend for two lines, on 3 cores; the boolean
   judge c06full70_b (the five clauses c06inv70_b AND every supporting conjunct of the candidate inductive
   invariant: semaphore counting, phase shapes, commands, justification, snoop lists) is evaluated in every
   state of the run: 2195 states judged, the run ends (true), no failure. *)
Definition c06_prog : list instr := map instr_of
  [SLi 10 0; SLi 11 64; SLi 5 7; SSw 5 0 10; SLw 6 0 10; SSw 6 4 11; SLw 7 4 11; SSw 7 8 10; SLw 8 8 10; SLw 9 0 11; SSb 5 70 10].
Example C06_mvp70_example :
  check70 judge_full true 3 ord_asc 20000 c06_prog no_labels (st7_of 256 [] [(3, -56)]) = Some (2195, true, None).
Proof. vm_compute. reflexivity. Qed.

(* The hypothesis reach7nf is not vacuous and the theorems apply to states in the middle of contention: the state
   c06_prog reaches on 3 cores after 700 flush-free ticks is a reach7nf state (run7_nf_reach), some core holds
   a line Modified there, some controller is inside a transaction - and the five clauses hold by
   C06_mvp70_inv_reachable. *)
Definition some_modified (s : st7) : bool := existsb (fun e => snd e =? stModified) (i_states (st_msi s)).
Definition some_busy (s : st7) : bool := existsb (fun e => negb (cc_idle (h_cc e))) (v_eus s).
Example C06_mvp70_nonvacuous : exists s0 s,
  init7 3 ord_asc c06_prog (st7_of 256 [] [(3, -56)]) = Ok s0 /\ reach7nf hooks70 c06_prog no_labels ord_asc s0 s /\
  some_modified s = true /\ some_busy s = true /\ C06Inv70_st s.
Proof.
  destruct (init7 3 ord_asc c06_prog (st7_of 256 [] [(3, -56)])) as [s0| |] eqn:E0; try (vm_compute in E0; discriminate).
  destruct (run7_nf 700 hooks70 c06_prog no_labels ord_asc s0) as [s|] eqn:E1.
  - exists s0, s. split; [reflexivity|].
    assert (R : reach7nf hooks70 c06_prog no_labels ord_asc s0 s) by (eapply run7_nf_reach; [apply r7_init|exact E1]).
    split; [exact R|].
    assert (X : match init7 3 ord_asc c06_prog (st7_of 256 [] [(3, -56)]) with
                | Ok s0 => match run7_nf 700 hooks70 c06_prog no_labels ord_asc s0 with Some s => some_modified s && some_busy s | None => false end
                | _ => false end = true) by (vm_compute; reflexivity).
    rewrite E0, E1 in X. apply andb_true_iff in X as [X1 X2]. split; [exact X1|]. split; [exact X2|].
    eapply C06_mvp70_inv_reachable; [exact E0|exact R].
  - exfalso.
    assert (X : match init7 3 ord_asc c06_prog (st7_of 256 [] [(3, -56)]) with
                | Ok s0 => match run7_nf 700 hooks70 c06_prog no_labels ord_asc s0 with Some s => true | None => false end
                | _ => false end = true) by (vm_compute; reflexivity).
    rewrite E0, E1 in X. discriminate.
Qed.
Print Assumptions C06_mvp70_nonvacuous.

(* Evidence with EVICTIONS: 36 loads of 36 distinct lines on 2 cores (each L1 has 16 lines: every core evicts), then
   two stores (Shared -> Modified upgrades) and a load; flush-free, the run ends after 6584 states; the full judge
   is evaluated in the 12 states where an L1 holds 17 lines or a snoop list is busy and in every 400th state
   (29 states judged), no failure.  (A run with Modified victims - write-back closures, 19 lines stored and loaded
   twice on 2 cores - was judged in all its 9539 states with the full judge and the conjuncts of GI / Sh while
   developing Msi/M70Proofs3.v: no failure; it takes 17 minutes and is not part of the build.) *)
Definition ev_prog70 : list instr := map instr_of
  ([SLi 10 0; SLi 5 9] ++ map (fun k => SLw 6 (64 * Z.of_nat k) 10) (seq 0 36) ++ [SSw 5 2240 10; SSw 5 2180 10; SLw 7 0 10]).
Example C06_mvp70_example_evictions :
  match init7 2 ord_asc ev_prog70 (st7_of 2368 [] [(3, -56)]) with
  | Ok s => run7_ev 400 60000 ev_prog70 no_labels ord_asc s 0 0 0
  | _ => None
  end = Some (6584, 12, 29, true).
Proof. vm_compute. reflexivity. Qed.
