(* C12 / C08 / C07 for MVP-6.1 (MVP-6.0 + operand forwarding between execute
   units, sequence ids, and a flush that first completes the older instructions).
   Property theorems only; proofs in Mvp/Mvp61Proofs.v about the faithful
   cycle-level model Mvp/Mvp61.v, tied to proc/mvp6-1 by exact equality of
   (cycles, registers, memory) at 1..4 units (lib/vf/c12.py, lib/vf/modeltie.py;
   bin/tie_m61.py for all iteration orders and the state at the tick budget).
   Go map iteration orders are explicit arguments: [ord] (a store's
   MemoryChanges) and [pord] (pushedRunnersInPreviousCycle). *)
From Coq Require Import ZArith List Bool.
From Maj Require Import Base.Outcome Base.GoInt Base.GoTypes Isa.Spec Isa.Seq.
From Maj Require Import Gen.Opcodes Comp.Cache Mvp.Mvp12 Mvp.Mvp3 Mvp.Mvp5 Mvp.Mvp60 Mvp.Mvp60Proofs Mvp.Mvp61 Mvp.Mvp61Proofs.
Import ListNotations.
Open Scope Z_scope.

(* C12: the returned count is positive (since the repair 1ed8ef8: before it, an
   error inside the flush loop made Run return "ok, 0 cycles") *)
Theorem C12_mvp61_cycles_positive : forall par ord pord fuel app labels st c st',
  mvp61_run par ord pord fuel app labels st = MDone c st' -> 1 <= c.
Proof. exact mvp61_cycles. Qed.
Print Assumptions C12_mvp61_cycles_positive.

(* C07: the witness of the repaired defect - a division by zero completing inside
   the flush loop (three units) is returned as the error value, as with two units *)
Theorem C07_mvp61_error_in_flush_loop_is_returned :
  mvp61_run_os 3 (ord_policy 0) (pord_policy 0) 2000 zero_cycles_app zero_cycles_labels zero_cycles_arch
  = (MErr EDivZero, false)
  /\ mvp61_run_os 2 (ord_policy 0) (pord_policy 0) 2000 zero_cycles_app zero_cycles_labels zero_cycles_arch
     = (MErr EDivZero, false).
Proof. exact mvp61_zero_cycles_witness. Qed.
Print Assumptions C07_mvp61_error_in_flush_loop_is_returned.

(* C12: at most busSize = 2 instructions are dispatched per cycle whatever the
   number of execute units *)
Theorem C12_mvp61_issue_width_two : forall pord cycle m,
  ebuf1 m <= ebl1 m -> zlen (x_prev (y_x (snd (cu_cycle1 pord cycle m)))) <= ebl1 m.
Proof. exact cu_dispatch_le_buslen1. Qed.
Print Assumptions C12_mvp61_issue_width_two.

(* C08: a run that ends with the ghost flag clear returns the same result for all
   iteration orders of both maps: the implementation is deterministic on it *)
Theorem C08_mvp61_order_irrelevant_when_flag_clear : forall par fuel app labels st ord1 ord2 pord1 pord2 r,
  ord_ok ord1 -> ord_ok ord2 ->
  mvp61_run_os par ord1 pord1 fuel app labels st = (r, false) ->
  mvp61_run_os par ord2 pord2 fuel app labels st = (r, false).
Proof. exact run1_ord_irrelevant. Qed.
Print Assumptions C08_mvp61_order_irrelevant_when_flag_clear.
