(* C14 - Pipeline buses deliver each item once, in order, a cycle later, within
   capacity.  Property theorems only; the models are theories/Comp/Bus.v
   (SimpleBus, BufferedBus of proc/comp/bus.go) and theories/Comp/Queue.v
   (Queue of proc/comp/queue.go), hand-written and tied to the code by the
   correspondence check of lib/vf/c14.py.  All statements quantify over ALL
   histories (operation lists of any length) and all capacities.

   Vocabulary (Comp/BusProofs.v): added h / reverted h = items of the Add /
   Revert operations of h, in order; delivered outs = items returned by
   Get / Pick; contents b = queue b ++ items (buffer b); dropped b h = what
   DeleteLast / Clean threw away; subseq = order-preserving subsequence;
   nondecr lo h = the cycle arguments of Add / Revert / Connect never decrease;
   disciplined b h = Add and Revert are only performed when CanAdd is true. *)
From Coq Require Import ZArith List Bool Permutation.
From Maj Require Import Base.Outcome Comp.Bus Comp.BusProofs Comp.Queue Comp.QueueProofs.
Import ListNotations.
Open Scope Z_scope.

(* ---------------- BufferedBus ---------------- *)

(* exactly once, nothing invented: multiset equation for every history *)
Theorem C14_conservation : forall ql bl h,
  Permutation (added h ++ reverted h)
              (delivered (snd (b_run (b_new ql bl) h)) ++ contents (fst (b_run (b_new ql bl) h))
               ++ dropped (b_new ql bl) h).
Proof. exact conservation_new. Qed.
Print Assumptions C14_conservation.

Theorem C14_exactly_once : forall ql bl h,
  NoDup (added h ++ reverted h) ->
  NoDup (delivered (snd (b_run (b_new ql bl) h)) ++ contents (fst (b_run (b_new ql bl) h))).
Proof. exact exactly_once. Qed.
Print Assumptions C14_exactly_once.

Theorem C14_nothing_lost : forall ql bl h,
  no_drop h = true ->
  Permutation (added h ++ reverted h)
              (delivered (snd (b_run (b_new ql bl) h)) ++ contents (fst (b_run (b_new ql bl) h))).
Proof. exact nothing_lost. Qed.
Print Assumptions C14_nothing_lost.

(* in order: delivered ++ queue ++ buffer = the added items in insertion order,
   minus what DeleteLast / Clean removed *)
Theorem C14_fifo_order : forall ql bl h,
  no_revert h = true -> no_pick h = true ->
  let s := fst (b_run (b_new ql bl) h) in
  let d := delivered (snd (b_run (b_new ql bl) h)) in
  subseq (d ++ queue s ++ items (buffer s)) (added h) /\
  (no_drop h = true -> d ++ queue s ++ items (buffer s) = added h).
Proof. exact fifo_order. Qed.
Print Assumptions C14_fifo_order.

Theorem C14_delivered_in_order : forall ql bl h,
  no_revert h = true -> no_pick h = true ->
  subseq (delivered (snd (b_run (b_new ql bl) h))) (added h).
Proof. exact delivered_in_order. Qed.
Print Assumptions C14_delivered_in_order.

(* Pick: first match out, the rest keep their order *)
Theorem C14_pick_first : forall b p,
  (exists q1 t q2, queue b = q1 ++ t :: q2 /\
     forallb (fun x => negb (p x)) q1 = true /\ p t = true /\
     b_pick b p = (mkB (buffer b) (q1 ++ q2) (queueLength b) (bufferLength b), (t, true)))
  \/ (forallb (fun x => negb (p x)) (queue b) = true /\ snd (b_pick b p) = (0, false) /\
      queue (fst (b_pick b p)) = queue b /\ buffer (fst (b_pick b p)) = buffer b).
Proof. exact pick_delivers_first. Qed.
Print Assumptions C14_pick_first.

Theorem C14_rest_order : forall ql bl h,
  no_revert h = true ->
  let s := fst (b_run (b_new ql bl) h) in
  subseq (queue s ++ items (buffer s)) (added h).
Proof. exact rest_order. Qed.
Print Assumptions C14_rest_order.

(* one cycle of latency, lower bound *)
Theorem C14_one_cycle_latency : forall ql bl h1 t c h2,
  ~ In t (added h1 ++ reverted h1) ->
  nondecr c h2 = true -> no_connect_after c h2 = true -> ~ In t (reverted h2) ->
  ~ In t (delivered (snd (b_run (b_new ql bl) (h1 ++ BAdd t c :: h2)))).
Proof. exact one_cycle_latency. Qed.
Print Assumptions C14_one_cycle_latency.

(* ... and upper bound: one cycle, not more, unless the queue is full *)
Theorem C14_visible_next_cycle : forall ql bl lo h c',
  nondecr lo h = true -> last_cycle lo h < c' ->
  let s := fst (b_run (b_new ql bl) (h ++ [BConnect c'])) in
  buffer s = [] \/ len (queue s) = ql.
Proof. exact visible_next_cycle. Qed.
Print Assumptions C14_visible_next_cycle.

(* capacity, in every reachable state *)
Theorem C14_capacity : forall ql bl h,
  0 <= ql -> 0 <= bl -> disciplined (b_new ql bl) h = true ->
  forall h1 h2, h = h1 ++ h2 ->
  let s := fst (b_run (b_new ql bl) h1) in
  len (buffer s) <= bl /\ len (queue s) <= ql.
Proof. exact capacity. Qed.
Print Assumptions C14_capacity.

Theorem C14_queue_capacity : forall ql bl h,
  0 <= ql -> len (queue (fst (b_run (b_new ql bl) h))) <= ql.
Proof. exact queue_capacity. Qed.
Print Assumptions C14_queue_capacity.

(* CanAdd and RemainingToAdd report the same room *)
Theorem C14_remaining_canadd : forall b,
  (len (buffer b) <= bufferLength b /\ len (queue b) <= queueLength b) ->
  (b_canadd b = true <-> 0 < b_remainingtoadd b).
Proof. exact remaining_canadd. Qed.
Print Assumptions C14_remaining_canadd.

Theorem C14_remaining_after_add : forall b t c,
  b_remainingtoadd (b_add b t c) = b_remainingtoadd b - 1.
Proof. exact remaining_after_add. Qed.
Print Assumptions C14_remaining_after_add.

(* refuted: guarding Add alone does not bound the buffer (Revert does not look) *)
Theorem C14_capacity_add_guard_only_refuted :
  exists ql bl h,
    0 <= ql /\ 0 <= bl /\ add_disciplined (b_new ql bl) h = true /\ nondecr 0 h = true /\
    let s := fst (b_run (b_new ql bl) h) in
    bl < len (buffer s) /\ b_canadd s = true.
Proof. exact capacity_add_guard_only_refuted. Qed.
Print Assumptions C14_capacity_add_guard_only_refuted.

(* Clean *)
Theorem C14_clean_empties : forall b,
  b_isempty (b_clean b) = true /\ queue (b_clean b) = [] /\ buffer (b_clean b) = [].
Proof. exact clean_empties. Qed.
Print Assumptions C14_clean_empties.

Theorem C14_clean_forgets : forall b h1 h2 x,
  In x (delivered (snd (b_run (fst (b_run b (h1 ++ [BClean]))) h2))) ->
  In x (added h2 ++ reverted h2).
Proof. exact clean_forgets. Qed.
Print Assumptions C14_clean_forgets.

(* Revert: next delivered when the visible queue is empty ... *)
Theorem C14_revert_is_next : forall b t c c',
  queue b = [] -> queueLength b <> 0 -> c <= c' ->
  snd (b_step (b_connect (b_revert b t c) c') BGet) = OItem t true.
Proof. exact revert_is_next. Qed.
Print Assumptions C14_revert_is_next.

(* ... and NOT otherwise (known finding; Revert is dead code in every variant) *)
Theorem C14_revert_not_next_refuted :
  exists ql bl h t c,
    0 < ql /\ 0 < bl /\ nondecr 0 (h ++ [BRevert t c; BConnect c; BGet]) = true /\
    disciplined (b_new ql bl) (h ++ [BRevert t c; BConnect c; BGet]) = true /\
    let s := fst (b_run (b_new ql bl) h) in
    snd (b_step (b_connect (b_revert s t c) c) BGet) = OItem 1 true /\ t = 2 /\
    delivered (snd (b_run (b_new ql bl) (h ++ [BRevert t c; BConnect c; BGet]))) = [1].
Proof. exact revert_not_next_refuted. Qed.
Print Assumptions C14_revert_not_next_refuted.

(* ---------------- SimpleBus ---------------- *)

Theorem C14_simple_positions : forall h b,
  s_no_flush h = true ->
  get_results (snd (s_run b h)) = firstn (gets h) (s_current b :: segs (s_pending b) h).
Proof. exact simple_positions. Qed.
Print Assumptions C14_simple_positions.

Theorem C14_simple_k_plus_2 : forall b h1 t h2,
  s_no_flush (h1 ++ SAdd t :: h2) = true ->
  s_disciplined b (h1 ++ SAdd t :: h2) = true ->
  (2 <= gets h2)%nat ->
  nth_error (get_results (snd (s_run b (h1 ++ SAdd t :: h2)))) (gets h1 + 1) = Some (Some t).
Proof. exact simple_k_plus_2. Qed.
Print Assumptions C14_simple_k_plus_2.

Theorem C14_simple_fifo : forall h b,
  s_no_flush h = true -> s_disciplined b h = true ->
  somes (get_results (snd (s_run b h))) ++ opt (s_current (fst (s_run b h)))
    ++ opt (s_pending (fst (s_run b h)))
  = opt (s_current b) ++ opt (s_pending b) ++ s_added h.
Proof. exact simple_fifo. Qed.
Print Assumptions C14_simple_fifo.

Theorem C14_simple_exactly_once : forall h,
  s_no_flush h = true -> s_disciplined s_new h = true -> NoDup (s_added h) ->
  let r := s_run s_new h in
  NoDup (somes (get_results (snd r))) /\
  exists inside, somes (get_results (snd r)) ++ inside = s_added h /\ (length inside <= 2)%nat.
Proof. exact simple_exactly_once. Qed.
Print Assumptions C14_simple_exactly_once.

(* loss when the contract is broken *)
Theorem C14_simple_add_overwrites : forall b t0 t, s_add (s_add b t0) t = s_add b t.
Proof. exact simple_add_overwrites. Qed.
Print Assumptions C14_simple_add_overwrites.

Theorem C14_simple_undisciplined_loses_refuted :
  exists h, s_no_flush h = true /\ s_disciplined s_new h = false /\
            s_added h = [1; 2] /\
            get_results (snd (s_run s_new h)) = [None; Some 2; None; None] /\
            s_isempty (fst (s_run s_new h)) = true.
Proof. exact simple_undisciplined_loses_refuted. Qed.
Print Assumptions C14_simple_undisciplined_loses_refuted.

Theorem C14_simple_clean_empties : forall b,
  s_isempty (s_clean b) = true /\ s_isempty (s_flush b) = true /\
  s_clean b = s_new /\ s_flush b = s_new.
Proof. exact simple_clean_empties. Qed.
Print Assumptions C14_simple_clean_empties.

(* ---------------- Queue ---------------- *)

Theorem C14_queue_reachable_wf : forall cap h, q_wf (fst (q_run (q_new cap) h)).
Proof. exact wf_reachable. Qed.
Print Assumptions C14_queue_reachable_wf.

Theorem C14_queue_iter_push_order : forall cap vs,
  map q_value (q_iterator (fold_left q_push vs (q_new cap))) = vs.
Proof. exact iter_push_order. Qed.
Print Assumptions C14_queue_iter_push_order.

Theorem C14_queue_iter_remove : forall q p,
  q_wf q ->
  q_items (fst (q_iter q p (-1))) = filter (fun x => negb (p (q_value x))) (q_items q) /\
  snd (q_iter q p (-1)) = map q_value (q_items q).
Proof. exact iter_remove. Qed.
Print Assumptions C14_queue_iter_remove.

Theorem C14_queue_iter_remove_partial : forall q p limit,
  q_wf q -> 0 <= limit ->
  let n := Z.to_nat limit in
  q_items (fst (q_iter q p limit))
  = filter (fun x => negb (p (q_value x))) (firstn n (q_items q)) ++ skipn n (q_items q) /\
  snd (q_iter q p limit) = map q_value (firstn n (q_items q)).
Proof. exact iter_remove_partial. Qed.
Print Assumptions C14_queue_iter_remove_partial.

Theorem C14_queue_order : forall cap h,
  subseq (map q_value (q_items (fst (q_run (q_new cap) h)))) (pushed h).
Proof. exact queue_order_new. Qed.
Print Assumptions C14_queue_order.

Theorem C14_queue_isfull_iff : forall q, q_isfull q = true <-> q_length q >= q_cap q.
Proof. exact isfull_iff. Qed.
Print Assumptions C14_queue_isfull_iff.
