(* C12 / C08 for MVP-6.0 (the first superscalar variant: fetch, decode, control
   unit dispatching to 1..4 execute units, write units, BTB, L1I + L3).
   Property theorems only; proofs in Mvp/Mvp60Proofs.v about the faithful
   cycle-level model Mvp/Mvp60.v, which is tied to proc/mvp6-0 by exact equality
   of (cycles, registers, memory) at 1..4 units on every run of lib/vf/c12.py
   (and by bin/tie_m60.py on all iteration orders and on the state reached when
   the tick budget is exhausted).  The iteration order of Go's map
   Execution.MemoryChanges, on which proc/mvp6-0/mmu.go depends, is the explicit
   argument [ord]. *)
From Coq Require Import ZArith List Bool.
From Maj Require Import Base.Outcome Base.GoInt Base.GoTypes Isa.Spec Isa.Seq.
From Maj Require Import Gen.Opcodes Mvp.Mvp12 Mvp.Mvp3 Mvp.Mvp5 Mvp.Mvp60 Mvp.Mvp60Proofs.
Import ListNotations.
Open Scope Z_scope.

(* C12: the returned count is positive, for every program, state, number of
   units, fuel and iteration order *)
Theorem C12_mvp60_cycles_positive : forall par ord fuel app labels st c st',
  mvp60_run par ord fuel app labels st = MDone c st' -> 1 <= c.
Proof. exact mvp60_cycles_pos. Qed.
Print Assumptions C12_mvp60_cycles_positive.

(* C12: the issue width of MVP-6.0 is two whatever the number of execute units:
   in every cycle of every run the control unit adds at most two instructions to
   the execute bus (NewCPU builds that bus with busSize = 2) *)
Theorem C12_mvp60_issue_width_two : forall par st s0 fuel app labels ord s m',
  init6 par st = Ok s0 ->
  run6_st fuel app labels ord s0 = inr s ->
  front6 app (s_cycle s + 1) (s_m s) = Ok m' ->
  exists mdu, m' = cu_cycle6 (s_cycle s + 1) mdu /\ 0 <= ebuf m' - ebuf mdu <= 2.
Proof. exact mvp60_dispatch_width. Qed.
Print Assumptions C12_mvp60_issue_width_two.

(* C08: the only place where the result of MVP-6.0 can depend on Go's map
   iteration order is recorded by the model's ghost flag; a run that ends with
   the flag clear returns the same (cycles, registers, memory) for ALL iteration
   orders - the implementation is deterministic on it *)
Theorem C08_mvp60_order_irrelevant_when_flag_clear : forall par fuel app labels st ord1 ord2 r,
  ord_ok ord1 -> ord_ok ord2 ->
  mvp60_run_os par ord1 fuel app labels st = (r, false) ->
  mvp60_run_os par ord2 fuel app labels st = (r, false).
Proof. exact run6_ord_irrelevant. Qed.
Print Assumptions C08_mvp60_order_irrelevant_when_flag_clear.

(* non-vacuity: twelve independent li on two units: dispatch is two per cycle,
   the run returns, the flag is clear *)
Example C12_mvp60_example :
  let app := map (fun k => I_li (mk_li (5 + k) k)) [0;1;2;3;4;5;6;7;8;9;10;11] ++ [I_ret mk_ret] in
  exists c st', mvp60_run_os 2 (ord_policy 0) 2000 app (fun _ => None) (mk_arch (repeat 0 32) (repeat 0 64)) = (MDone c st', false)
                /\ 1 <= c /\ nth 16 (regs st') 0 = 11.
Proof. vm_compute. do 2 eexists. repeat split; discriminate. Qed.
