(* C08 - Runs are deterministic and isolated.
   Property theorems only.  What a theorem can say here: the modelled results do
   not depend on the arguments that stand for Go's map iteration order (the only
   source of nondeterminism inside the modelled code), and the modelled run
   functions are functions of (program, initial state, configuration).  What a
   theorem cannot exhibit - the Go runtime: goroutine interleavings of the queue
   iterator, actual map order, state kept in parsed instructions - is sampled by
   lib/vf/c08.py (repeat / cross-process / reuse runs); that half is partial. *)
From Coq Require Import ZArith List Permutation.
From Maj Require Import Base.Outcome Comp.Rat Comp.Tx Comp.TxSpec Comp.RatProofs Comp.TxProofs.
From Maj Require Import Isa.Spec Isa.Seq Isa.Refine Gen.Opcodes Mvp.Mvp12 Mvp.Mvp12Proofs.
Import ListNotations.
Open Scope Z_scope.

(* Commit / Rollback over the transaction map: two histories that differ only in
   the iteration-order hints give the same reads and the same observable state *)
Theorem C08_transaction_map_order_independent : forall h1 h2 c1 c2,
  map merase h1 = map merase h2 -> mceq c1 c2 ->
  mtrace h1 c1 = mtrace h2 c2 /\ mceq (Tx.mrun h1 c1) (Tx.mrun h2 c2).
Proof. exact m_order_independent. Qed.
Print Assumptions C08_transaction_map_order_independent.

(* InitRAT / RATCommit / RATRollback / RATFlush: the same for the rename tables *)
Theorem C08_rename_table_order_independent : forall h1 h2 c1 c2,
  map rerase h1 = map rerase h2 -> rceq c1 c2 ->
  rtrace h1 c1 = rtrace h2 c2 /\ rceq (rrun h1 c1) (rrun h2 c2).
Proof. exact r_order_independent. Qed.
Print Assumptions C08_rename_table_order_independent.

(* every iteration order of a Go map is covered by the hint argument *)
Theorem C08_every_iteration_order_is_modelled : forall keys, NoDup keys ->
  (forall hint, Permutation (iter_order hint keys) keys) /\
  (forall p, Permutation p keys -> iter_order p keys = p).
Proof. exact (fun keys H => conj (fun hint => iter_order_perm hint keys H) (fun p => iter_order_any p keys H)). Qed.
Print Assumptions C08_every_iteration_order_is_modelled.

(* MVP-1 / MVP-2: the returned triple is determined by program, labels, initial
   state and variant (it equals a function of the sequential run) *)
Theorem C08_mvp12_result_is_a_function_of_its_input :
  forall app labels, wf_app app -> wf_labels labels ->
  forall v fuel st st' tr, inv (regs st) (mem st) ->
  seq_run fuel (map sinstr_of app) labels st = Done st' tr ->
  mvp12_run v fuel app labels st = MDone (tcost app v init_win (rev tr)) st'.
Proof. exact mvp12_refines_seq. Qed.
Print Assumptions C08_mvp12_result_is_a_function_of_its_input.
