(* C02 - Each instruction has RV32IM semantics on all operand values.
   Property theorems only.  Model: theories/Gen/Opcodes.v, regenerated from
   /repo/risc/opcodes.go (and risc.go, bytes.go) on every run.
   Spec: theories/Isa/Spec.v. *)
From Coq Require Import ZArith List.
From Maj Require Import Base.Outcome Base.GoInt Base.GoTypes.
From Maj Require Import Gen.Opcodes Isa.Spec Isa.Embed Isa.Refine.
Import ListNotations.
Open Scope Z_scope.

(* for every instruction, every register file, pc, label table and loaded
   bytes: the Go Run computes exactly the specified effect (value, stored
   bytes, branch decision and target, link value), or the specified error *)
Theorem C02_run_refines_spec :
  forall rr labels pc mem seq, (forall r, int32 (rr r)) ->
  forall i, int32 (imm_of (sinstr_of i)) -> mem_ok (sinstr_of i) mem ->
  instr_Run i rr labels pc mem seq = omap embed (exec (sinstr_of i) rr labels pc mem).
Proof. exact run_refines_spec. Qed.
Print Assumptions C02_run_refines_spec.

Theorem C02_no_panic :
  forall i rr labels pc mem seq,
  (forall r, int32 (rr r)) -> int32 pc -> int32 (imm_of (sinstr_of i)) -> mem_ok (sinstr_of i) mem ->
  instr_Run i rr labels pc mem seq <> Panic.
Proof. exact no_panic. Qed.
Print Assumptions C02_no_panic.

(* declared read / write sets are the specified ones ... *)
Theorem C02_read_registers_exact : forall i, instr_ReadRegisters i = reads (sinstr_of i).
Proof. exact read_registers_exact. Qed.
Theorem C02_write_registers_exact : forall i, instr_WriteRegisters i = writes (sinstr_of i).
Proof. exact write_registers_exact. Qed.
(* ... and the specified sets are semantically right: the effect and the
   addresses depend on no other register, and no other register is written *)
Theorem C02_reads_sound : forall si rr1 rr2 labels pc mem,
  (forall r, In r (reads si) -> rr1 r = rr2 r) ->
  exec si rr1 labels pc mem = exec si rr2 labels pc mem /\
  load_addrs si rr1 = load_addrs si rr2 /\ store_addrs si rr1 = store_addrs si rr2.
Proof. exact spec_reads_sound. Qed.
Theorem C02_writes_sound : forall si rr labels pc mem e,
  exec si rr labels pc mem = Ok e ->
  match e with
  | EReg rd _ | ELink rd _ _ => writes si = [rd]
  | _ => writes si = []
  end.
Proof. exact spec_writes_sound. Qed.
Print Assumptions C02_reads_sound.
Print Assumptions C02_writes_sound.

(* declared memory addresses *)
Theorem C02_memory_read_exact : forall i rr seq, instr_MemoryRead i rr seq = load_addrs (sinstr_of i) rr.
Proof. exact memory_read_exact. Qed.
Theorem C02_memory_write_exact : forall i rr seq, instr_MemoryWrite i rr seq = store_addrs (sinstr_of i) rr.
Proof. exact memory_write_exact. Qed.
Theorem C02_store_addrs : forall si rr labels pc mem bs,
  exec si rr labels pc mem = Ok (EStore bs) -> map fst bs = store_addrs si rr.
Proof. exact spec_store_addrs. Qed.
Print Assumptions C02_memory_read_exact.
Print Assumptions C02_memory_write_exact.

(* the zero register ignores writes *)
Theorem C02_zero_register : forall e, Register (embed e) = 0 -> RegisterValue (embed e) = 0.
Proof. exact zero_register_write. Qed.
Print Assumptions C02_zero_register.

(* non-vacuity: concrete instances at the boundaries, evaluated by the kernel *)
Example C02_example_sltu :
  instr_Run (I_sltu (mk_sltu 5 6 7)) (fun r => if r =? 6 then 1 else -1) (fun _ => None) 0 [] 0
  = Ok (mk_execution true 5 1 false [] 0 false false).
Proof. vm_compute. reflexivity. Qed.
Example C02_example_srl :
  instr_Run (I_srl (mk_srl 5 6 7)) (fun r => if r =? 6 then -1 else 33) (fun _ => None) 0 [] 0
  = Ok (mk_execution true 5 2147483647 false [] 0 false false).
Proof. vm_compute. reflexivity. Qed.
Example C02_example_lh :
  instr_Run (I_lh (mk_lh 5 0 0)) (fun _ => 0) (fun _ => None) 0 [-1; -1] 0
  = Ok (mk_execution true 5 (-1) false [] 0 false false).
Proof. vm_compute. reflexivity. Qed.
