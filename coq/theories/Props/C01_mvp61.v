(* C01 / C12 / C07 for MVP-6.1 (proc/mvp6-1 = MVP-6.0 + OPERAND FORWARDING between the execute
   units: the control unit dispatches an instruction with exactly one RAW hazard one cycle after
   its producer - shouldUseForwarding over the runners pushed in the previous cycle - and links
   them by a channel: Forwarder on the producer, set through the pointer held by the execute bus,
   Receiver / ForwardRegister on the consumer; the consumer's execute unit takes the value from
   the channel and stores it as the Forward of the instruction object; sequence ids; Pre hook)
   on REGISTER-ONLY programs.
   Property theorems only; the proofs are in Mvp/Mvp61RefProofs.v (and Mvp61RefSem, Mvp61RefFront,
   Mvp61RefBack, Mvp61RefInv, Mvp61RefCu, Mvp61RefExec, Mvp61RefExec2, Mvp61RefStep, Mvp61RefStep2,
   Mvp61RefStep3, on top of the development for MVP-6.0), about the cycle-level model Mvp/Mvp61.v,
   which is tied to proc/mvp6-1 by exact equality of cycles, registers and memory in the system
   differential.

   Two program classes (as for MVP-6.0, Props/C01_mvp60.v):
     straight app      : no conditional branch, no j / jal / jalr; ret may occur anywhere, the run
                         ends at the first one; division is allowed (a division by zero makes the
                         sequential run fail and the hypothesis false);
     fwd_ok app labels : FORWARD control flow - every branch / j / jal names a defined, 4-aligned
                         label strictly ahead of the instruction and at most at the end of the text -
                         and no div, rem, jalr (a wrong-path division by zero aborts the run:
                         C01_mvp61_taken_branch_shadow_error_refuted).  Branch shadows may contain
                         anything else.  With seq_ids_fit app: 3004 * length app < 2^31 (the sequence
                         id pc + 1000 * ctx.sequenceID is an int32 and ctx.sequenceID grows by up to
                         three per flush; beyond that bound the ids wrap and the write units would
                         compare wrapped ids - not exhibited, a text of 700 000 instructions).
   Common hypotheses:
     wf_app            : int32 immediates, text shorter than 2^31 - 8 bytes;
     reg_only app      : no load and no store (without it: C01_mvp61_memory_order_refuted);
     regs_in_range app : every register operand is one of x0..x31, as in the Go type RegisterType
                         (the model takes any integer; without it shouldUseForwarding may forward a
                         register the scoreboard does not track: C01_mvp61_register_number_refuted);
     1 <= par          : any number of execute / write units;
     ord, pord         : any iteration order of Go's maps (a store's MemoryChanges;
                         pushedRunnersInPreviousCycle in shouldUseForwarding);
     Forall int32 regs, length regs = 32 : the register file has exactly the 32 registers (ctx.Registers
                         is a map in Go: every register can be written.  The list-based model drops a
                         write beyond the end of the list, the forwarded value is not dropped:
                         C01_mvp61_short_register_file_refuted).
   No hypothesis on the memory; none on the labels for straight-line programs.
   fuel_bound61 n = 400 * n + 1600 ticks of Run, fuel_bound61_fwd n = (n + 1) * (400 * n + 1600).

   What the proofs show about the design
   - an instruction in flight is WAW- and WAR-independent of every younger dispatched instruction,
     and RAW-independent except for ONE register of ONE older instruction pushed in the previous
     cycle: that operand is forwarded (Mvp61RefSem.BackSemF);
   - the value the producer sends is the sequential value of that register at the consumer:
     nobody between the two writes it (Mvp61RefSem.bf_stable, Mvp61RefInv.fwd_value); with the
     Forward in place the consumer computes its sequential effect whenever it runs (bf_exec);
   - the execute bus is a FIFO and an execute unit runs an instruction in the cycle it takes it,
     so the producer has always sent when the consumer looks into the channel: a unit never waits
     on a Receiver (Mvp61RefInv.ChI, AvE); a channel is written once and read at most once, the
     Forwarder of a runner is set at most once (it is only set on runners pushed in the previous
     cycle, and a forwarding push ends the dispatch of the cycle);
   - the Forward is stored on the shared instruction object, but the unit that receives it runs
     the instruction in the same call and clears it: between two unit cycles every Forward is
     clear (CoreI.c_fwd), no other dynamic instance can read it;
   - a runner that could not be pushed after the channel was made (execute bus full) keeps its
     Receiver in the pending queue and is pushed later, when its producer has written back: it
     still receives the right value from the channel;
   - forward control flow: as in MVP-6.0 an execute unit never waits, so a branch executes in the
     cycle after its dispatch; everything dispatched behind it is still in the execute bus or
     (executed in the same cycle) in the buffer of the write bus.  The flush branch of MVP-6.1
     first runs the non-empty execute units (there are none), then every write unit drains the
     write bus with writeUnit.cycle(ctx, sequenceID of the branch): younger entries are dropped
     by their sequence ids (monotone along a forward path; Mvp61RefSem.bv_squash).  The README's
     "MVP-6.1 writes wrong-path results" does not show on register-only programs: the wrong-path
     results never reach the register file; a value forwarded to a wrong-path consumer stays in
     its channel for ever (channels are never reused).  The Pre hook of the execute units never
     fires: the runner a unit still holds is older than the flushing instruction. *)
From Coq Require Import ZArith List Bool Lia.
From Maj Require Import Base.Outcome Base.GoInt Isa.Spec Isa.Seq Isa.Refine Gen.Opcodes.
From Maj Require Import Mvp.Mvp12 Mvp.Mvp12Proofs Mvp.Mvp4Skel Mvp.Mvp4Proofs Mvp.Mvp60 Mvp.Mvp61 Mvp.Mvp60RefDefs Mvp.Mvp60RefProofs Mvp.Mvp60RefBranch
     Mvp.Mvp61RefFront Mvp.Mvp61RefProofs.
Import ListNotations.
Open Scope Z_scope.

(* C01: for every straight-line register-only program on which the sequential machine terminates,
   multiple issue WITH OPERAND FORWARDING and out-of-order write-back returns - no error, no panic -
   exactly the sequential registers and memory, for every fuel from fuel_bound61 on *)
Theorem C01_mvp61_refines_seq_straight : forall app labels, wf_app app ->
  straight app = true -> reg_only app = true -> regs_in_range app = true ->
  forall par ord pord fuel st st' tr, (1 <= par)%nat ->
  Forall int32 (regs st) -> length (regs st) = 32%nat ->
  seq_run fuel (map sinstr_of app) labels st = Done st' tr ->
  exists c, forall fuel', (fuel_bound61 (length app) <= fuel')%nat -> mvp61_run par ord pord fuel' app labels st = MDone c st'.
Proof. exact mvp61_refines_seq_straight. Qed.
Print Assumptions C01_mvp61_refines_seq_straight.

(* the same with the cycle count: at least half the number of executed instructions *)
Theorem C12_mvp61_run_straight : forall app labels, wf_app app ->
  straight app = true -> reg_only app = true -> regs_in_range app = true ->
  forall par ord pord fuel st st' tr, (1 <= par)%nat ->
  Forall int32 (regs st) -> length (regs st) = 32%nat ->
  seq_run fuel (map sinstr_of app) labels st = Done st' tr ->
  exists c, (forall fuel', (fuel_bound61 (length app) <= fuel')%nat -> mvp61_run par ord pord fuel' app labels st = MDone c st') /\
            Z.of_nat (length tr) <= 2 * c.
Proof. exact mvp61_run_straight. Qed.
Print Assumptions C12_mvp61_run_straight.

(* C12: whenever the model finishes, with whatever fuel, it returns the sequential state and has
   counted at least ceil(executed instructions / 2) cycles (issue width two) *)
Theorem C12_mvp61_cycles_lower_bound_straight : forall app labels, wf_app app ->
  straight app = true -> reg_only app = true -> regs_in_range app = true ->
  forall par ord pord fuel st st' tr, (1 <= par)%nat ->
  Forall int32 (regs st) -> length (regs st) = 32%nat ->
  seq_run fuel (map sinstr_of app) labels st = Done st' tr ->
  forall fuel' c st'', mvp61_run par ord pord fuel' app labels st = MDone c st'' ->
  st'' = st' /\ Z.of_nat (length tr) <= 2 * c /\ (Z.of_nat (length tr) + 1) / 2 <= c.
Proof. exact mvp61_cycles_lower_bound_straight. Qed.
Print Assumptions C12_mvp61_cycles_lower_bound_straight.

(* C07: termination within fuel_bound61 (length app) ticks *)
Theorem C07_mvp61_terminates_straight : forall app labels, wf_app app ->
  straight app = true -> reg_only app = true -> regs_in_range app = true ->
  forall par ord pord fuel st st' tr, (1 <= par)%nat ->
  Forall int32 (regs st) -> length (regs st) = 32%nat ->
  seq_run fuel (map sinstr_of app) labels st = Done st' tr ->
  exists c, mvp61_run par ord pord (fuel_bound61 (length app)) app labels st = MDone c st' /\
            (Z.of_nat (length tr) + 1) / 2 <= c.
Proof. exact mvp61_terminates_straight. Qed.
Print Assumptions C07_mvp61_terminates_straight.

Theorem C07_mvp61_no_panic_straight : forall app labels, wf_app app ->
  straight app = true -> reg_only app = true -> regs_in_range app = true ->
  forall par ord pord fuel st st' tr, (1 <= par)%nat ->
  Forall int32 (regs st) -> length (regs st) = 32%nat ->
  seq_run fuel (map sinstr_of app) labels st = Done st' tr ->
  forall fuel', (fuel_bound61 (length app) <= fuel')%nat ->
  mvp61_run par ord pord fuel' app labels st <> MPanic /\ mvp61_run par ord pord fuel' app labels st <> MOutOfFuel /\
  (forall e, mvp61_run par ord pord fuel' app labels st <> MErr e).
Proof. exact mvp61_no_panic_straight. Qed.
Print Assumptions C07_mvp61_no_panic_straight.

Theorem C07_mvp61_fuel_bound_value : forall n, fuel_bound61 n = (400 * n + 1600)%nat.
Proof. reflexivity. Qed.

(* C01 with forward control flow: conditional branches, j and jal to labels ahead, arbitrary branch
   shadows (no div / rem / jalr): the pipeline - operand forwarding, speculative dispatch behind
   branches, sequence ids, flush, BTB - returns exactly the sequential registers and memory *)
Theorem C01_mvp61_refines_seq_forward : forall app labels, wf_app app ->
  reg_only app = true -> regs_in_range app = true -> fwd_ok app labels = true -> seq_ids_fit app ->
  forall par ord pord fuel st st' tr, (1 <= par)%nat ->
  Forall int32 (regs st) -> length (regs st) = 32%nat ->
  seq_run fuel (map sinstr_of app) labels st = Done st' tr ->
  exists c, forall fuel', (fuel_bound61_fwd (length app) <= fuel')%nat -> mvp61_run par ord pord fuel' app labels st = MDone c st'.
Proof. exact mvp61_refines_seq_forward. Qed.
Print Assumptions C01_mvp61_refines_seq_forward.

Theorem C07_mvp61_fuel_bound_fwd_value : forall n, fuel_bound61_fwd n = ((n + 1) * (400 * n + 1600))%nat.
Proof. reflexivity. Qed.

Theorem C01_mvp61_seq_ids_fit_value : forall app, seq_ids_fit app <-> 3004 * Z.of_nat (length app) < 2147483648.
Proof. intros app. reflexivity. Qed.

(* findings: why the hypotheses are there *)

(* programs WITH loads and stores: false for the faithful model at two or more execute units, as
   for MVP-6.0 (no memory dependence is tracked; forwarding concerns registers only)
   lw x6,0(x0) ; li x5,7 ; sw x5,0(x0) ; lw x6,0(x0) : expected x6 = 7, mem[0] = 7 *)
Theorem C01_mvp61_memory_order_refuted :
  let p := [SLw 6 0 0; SLi 5 7; SSw 5 0 0; SLw 6 0 0] in
  let st := mk_arch (repeat 0 32) (repeat 0 256) in
  wf_app (map instr_of p) /\ straight (map instr_of p) = true /\ regs_in_range (map instr_of p) = true /\
  exists st' tr st6,
    seq_run 20 p no_lab st = Done st' tr /\
    mvp61_run 2 (ord_policy 0) (pord_policy 0) 5000 (map instr_of p) no_lab st = MDone 985 st6 /\
    rget (regs st') 6 = 7 /\ mget (mem st') 0 = 7 /\
    rget (regs st6) 6 = 0 /\ mget (mem st6) 0 = 0.
Proof.
  cbv zeta. split; [|split; [|split]].
  - split; [|vm_compute; reflexivity]. repeat constructor; vm_compute; discriminate.
  - vm_compute. reflexivity.
  - vm_compute. reflexivity.
  - do 3 eexists. split; [vm_compute; reflexivity|]. split; [vm_compute; reflexivity|]. vm_compute. repeat split; reflexivity.
Qed.
Print Assumptions C01_mvp61_memory_order_refuted.

(* why (regs_in_range app): nop ; li x5,7 ; li x40,9 ; add x6,x40,x5.  Register 40 is not tracked by
   the 32-slot scoreboard, so the add has ONE hazard (x5); both li were pushed in the previous
   cycle and both "match" in shouldUseForwarding (x5 by the first, x40 by the second); when the map
   iteration yields the second, x40 is forwarded (value 9; sequentially x40 does not exist and
   reads 0) and x5 is read from the register file before its producer has written back:
   x6 = 9 instead of 7.  (RegisterType has the values 0..31 in Go; the model takes any integer.) *)
Theorem C01_mvp61_register_number_refuted :
  let p := [SNop; SLi 5 7; SLi 40 9; SAdd 6 40 5] in
  wf_app (map instr_of p) /\ straight (map instr_of p) = true /\ reg_only (map instr_of p) = true /\
  regs_in_range (map instr_of p) = false /\
  exists st' tr c st6,
    seq_run 10 p no_lab zero_state = Done st' tr /\
    mvp61_run 2 (ord_policy 0) (pord_policy 0) 3000 (map instr_of p) no_lab zero_state = MDone c st' /\
    mvp61_run 2 (ord_policy 0) (pord_policy 1) 3000 (map instr_of p) no_lab zero_state = MDone c st6 /\
    rget (regs st') 6 = 7 /\ rget (regs st6) 6 = 9.
Proof.
  cbv zeta. split; [|split; [|split; [|split]]].
  - split; [|vm_compute; reflexivity]. repeat constructor; vm_compute; discriminate.
  - vm_compute. reflexivity.
  - vm_compute. reflexivity.
  - vm_compute. reflexivity.
  - do 4 eexists. split; [vm_compute; reflexivity|]. split; [vm_compute; reflexivity|]. split; [vm_compute; reflexivity|].
    vm_compute. split; reflexivity.
Qed.
Print Assumptions C01_mvp61_register_number_refuted.

(* why (length (regs st) = 32) and not (<= 32) as for MVP-6.0: li x7,5 ; addi x3,x7,1 with a register
   file of 5 entries.  The sequential machine and the write unit drop the write to x7 (beyond the
   end of the list), x7 reads 0 and x3 = 1; but the value 5 is FORWARDED to the addi: x3 = 6.
   (In Go ctx.Registers is a map: no write is dropped.) *)
Theorem C01_mvp61_short_register_file_refuted :
  let p := [SLi 7 5; SAddi 3 7 1] in
  let st := mk_arch (repeat 0 5) (repeat 0 64) in
  wf_app (map instr_of p) /\ straight (map instr_of p) = true /\ reg_only (map instr_of p) = true /\
  regs_in_range (map instr_of p) = true /\
  exists st' tr c st6 c0 st0,
    seq_run 10 p no_lab st = Done st' tr /\
    mvp61_run 2 (ord_policy 0) (pord_policy 0) 3000 (map instr_of p) no_lab st = MDone c st6 /\
    mvp60_run 2 (ord_policy 0) 3000 (map instr_of p) no_lab st = MDone c0 st0 /\
    rget (regs st') 3 = 1 /\ rget (regs st6) 3 = 6 /\ rget (regs st0) 3 = 1.
Proof.
  cbv zeta. split; [|split; [|split; [|split]]].
  - split; [|vm_compute; reflexivity]. repeat constructor; vm_compute; discriminate.
  - vm_compute. reflexivity.
  - vm_compute. reflexivity.
  - vm_compute. reflexivity.
  - do 6 eexists. split; [vm_compute; reflexivity|]. split; [vm_compute; reflexivity|]. split; [vm_compute; reflexivity|].
    vm_compute. repeat split; reflexivity.
Qed.
Print Assumptions C01_mvp61_short_register_file_refuted.

(* non-vacuity: fifteen instructions (thirteen executed, a ret, one behind it) with chained RAW
   dependences that are forwarded (x5 -> addi x6 -> add x7 ; x7 -> mul x8 -> addi x7 -> sub x9 ; ...),
   WAW (x5, x7, x8 written twice) and WAR (li x5 after add reads x5; li x8 after addi reads x8),
   three execute / write units.  MVP-6.1 needs 335 cycles, MVP-6.0 (no forwarding) 349. *)
Definition ex61_prog : list sinstr :=
  [SLi 5 3; SAddi 6 5 1; SAdd 7 5 6; SLi 5 9; SMul 8 7 5; SAddi 7 8 2;
   SSub 9 7 5; SLi 8 1; SAdd 10 8 9; SMv 5 10; SXor 11 5 6; SAddi 12 11 1; SSlli 13 12 2; SRet; SLi 14 1].

Example C01_mvp61_example :
  let app := map instr_of ex61_prog in
  wf_app app /\ straight app = true /\ reg_only app = true /\ regs_in_range app = true /\
  Forall int32 (regs zero_state) /\ length (regs zero_state) = 32%nat /\
  exists st' tr c,
    seq_run 100 (map sinstr_of app) no_lab zero_state = Done st' tr /\
    mvp61_run 3 (ord_policy 0) (pord_policy 0) (fuel_bound61 (length app)) app no_lab zero_state = MDone c st' /\
    mvp60_run 3 (ord_policy 0) (fuel_bound61 (length app)) app no_lab zero_state = MDone 349 st' /\
    length tr = 14%nat /\ c = 335 /\ (Z.of_nat (length tr) + 1) / 2 <= c /\
    rget (regs st') 5 = 57 /\ rget (regs st') 7 = 65 /\ rget (regs st') 8 = 1 /\ rget (regs st') 12 = 62 /\
    rget (regs st') 13 = 248 /\ rget (regs st') 14 = 0.
Proof.
  cbv zeta. split; [|split; [|split; [|split; [|split; [|split]]]]].
  - split; [|vm_compute; reflexivity]. cbn [map ex61_prog instr_of]. repeat constructor; vm_compute; discriminate.
  - vm_compute. reflexivity.
  - vm_compute. reflexivity.
  - vm_compute. reflexivity.
  - apply Forall_forall. intros x Hx. apply repeat_spec in Hx. subst x. apply int32_0.
  - vm_compute. reflexivity.
  - do 3 eexists. split; [vm_compute; reflexivity|]. split; [vm_compute; reflexivity|]. split; [vm_compute; reflexivity|].
    vm_compute. repeat split; try reflexivity; discriminate.
Qed.

(* FINDING (as for MVP-6.0, known as SYS-wrong-path-error-6x): the forward theorem does not extend to
   div / rem.  li x5,0 ; beq x5,x5,L ; div x6,x5,x5 ; L: li x7,9 - the sequential machine skips the
   div; with two or more execute units MVP-6.1 dispatches the div together with the branch and
   executes it, on the wrong path, in the cycle in which the branch is resolved: Run returns
   "division by zero".  One execute unit: correct. *)
Theorem C01_mvp61_taken_branch_shadow_error_refuted :
  let app := map instr_of shadow_div_prog in
  wf_app app /\ reg_only app = true /\ regs_in_range app = true /\ one_forward_branch app shadow_labels = true /\
  exists st' tr,
    seq_run 10 (map sinstr_of app) shadow_labels zero_state = Done st' tr /\
    length tr = 3%nat /\ rget (regs st') 7 = 9 /\
    mvp61_run 1 (ord_policy 0) (pord_policy 0) 3000 app shadow_labels zero_state = MDone 323 st' /\
    mvp61_run 2 (ord_policy 0) (pord_policy 0) 3000 app shadow_labels zero_state = MErr EDivZero /\
    mvp61_run 3 (ord_policy 0) (pord_policy 0) 3000 app shadow_labels zero_state = MErr EDivZero /\
    mvp61_run 4 (ord_policy 0) (pord_policy 0) 3000 app shadow_labels zero_state = MErr EDivZero.
Proof.
  cbv zeta. split; [|split; [|split; [|split]]].
  - split; [|vm_compute; reflexivity]. repeat constructor; vm_compute; discriminate.
  - vm_compute. reflexivity.
  - vm_compute. reflexivity.
  - vm_compute. reflexivity.
  - do 2 eexists. split; [vm_compute; reflexivity|]. split; [reflexivity|]. split; [vm_compute; reflexivity|].
    split; [vm_compute; reflexivity|]. split; [vm_compute; reflexivity|]. split; vm_compute; reflexivity.
Qed.
Print Assumptions C01_mvp61_taken_branch_shadow_error_refuted.

(* NOT a counterexample: register writes in the shadow of a taken branch are dropped by the flush *)
Example C01_mvp61_taken_branch_shadow_write_example :
  let app := map instr_of shadow_write_prog in
  wf_app app /\ reg_only app = true /\ one_forward_branch app shadow_write_labels = true /\
  exists st' tr,
    seq_run 10 (map sinstr_of app) shadow_write_labels zero_state = Done st' tr /\
    length tr = 3%nat /\ rget (regs st') 6 = 0 /\ rget (regs st') 7 = 0 /\ rget (regs st') 8 = 4 /\
    mvp61_run 1 (ord_policy 0) (pord_policy 0) 3000 app shadow_write_labels zero_state = MDone 323 st' /\
    mvp61_run 2 (ord_policy 0) (pord_policy 0) 3000 app shadow_write_labels zero_state = MDone 323 st' /\
    mvp61_run 4 (ord_policy 0) (pord_policy 0) 3000 app shadow_write_labels zero_state = MDone 323 st'.
Proof.
  cbv zeta. split; [|split; [|split]].
  - split; [|vm_compute; reflexivity]. repeat constructor; vm_compute; discriminate.
  - vm_compute. reflexivity.
  - vm_compute. reflexivity.
  - do 2 eexists. split; [vm_compute; reflexivity|]. split; [reflexivity|]. split; [vm_compute; reflexivity|].
    split; [vm_compute; reflexivity|]. split; [vm_compute; reflexivity|]. split; [vm_compute; reflexivity|].
    split; [vm_compute; reflexivity|]. split; vm_compute; reflexivity.
Qed.

(* non-vacuity of the forward class: a not-taken branch, a jump over an instruction, a taken branch
   with two register writes in its shadow, a jal (link register), a ret with an instruction behind
   it; addi x7,x5,1 / add x10,x7,x5 -> mul x11,x10,x10 are forwarded; 10 of the 15 instructions are executed *)
Definition exf61_prog : list sinstr :=
  [SLi 5 3; SLi 6 4; SBeq 5 6 1; SAddi 7 5 1; SJ 2; SLi 7 99; (* 24: L2 *) SBne 5 6 3; SLi 8 77; SLi 9 88;
   (* 36: L3 *) SJal 1 4; SNop; (* 44: L4 *) SAdd 10 7 5; SMul 11 10 10; SRet; SLi 12 1].
Definition exf61_labels : Z -> option Z := lookup [(1, 20); (2, 24); (3, 36); (4, 44)].

Example C01_mvp61_forward_example :
  let app := map instr_of exf61_prog in
  wf_app app /\ reg_only app = true /\ regs_in_range app = true /\ fwd_ok app exf61_labels = true /\ seq_ids_fit app /\
  Forall int32 (regs zero_state) /\ length (regs zero_state) = 32%nat /\
  exists st' tr c,
    seq_run 100 (map sinstr_of app) exf61_labels zero_state = Done st' tr /\
    mvp61_run 3 (ord_policy 0) (pord_policy 0) (fuel_bound61_fwd (length app)) app exf61_labels zero_state = MDone c st' /\
    length tr = 10%nat /\ c = 342 /\
    rget (regs st') 1 = 40 /\ rget (regs st') 7 = 4 /\ rget (regs st') 8 = 0 /\ rget (regs st') 9 = 0 /\
    rget (regs st') 11 = 49 /\ rget (regs st') 12 = 0.
Proof.
  cbv zeta. split; [|split; [|split; [|split; [|split; [|split; [|split]]]]]].
  - split; [|vm_compute; reflexivity]. cbn [map exf61_prog instr_of]. repeat constructor; vm_compute; discriminate.
  - vm_compute. reflexivity.
  - vm_compute. reflexivity.
  - vm_compute. reflexivity.
  - vm_compute. reflexivity.
  - apply Forall_forall. intros x Hx. apply repeat_spec in Hx. subst x. apply int32_0.
  - vm_compute. reflexivity.
  - do 3 eexists. split; [vm_compute; reflexivity|]. split; [vm_compute; reflexivity|].
    vm_compute. repeat split; reflexivity.
Qed.
