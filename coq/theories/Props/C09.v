(* C09 - returning completes everything older than the return.  Property theorems only.

   Model: theories/Ooo/Machine.v, transitions Exit (by `ret`: eu.go execution.Return, cpu.go
   `if ret`; by running past the text: cpu.go isEmpty()) and Finish (final ctx.Commit()).
   After Exit nothing executes or writes back any more: whatever is still in flight is lost. *)
From Coq Require Import ZArith List Bool.
From Maj Require Import Ooo.Machine Ooo.Counts Ooo.InvDefs Ooo.InvResolve Ooo.Path Ooo.Policies
  Ooo.Exit Ooo.Refute Ooo.Examples.
Import ListNotations.

(* if Exit waits until no older instance is dispatched, executing or awaiting write-back, the
   final state is the sequential one: every program, every schedule, every hazard-safe guard,
   either buffer discipline *)
Theorem C09_exit_complete : forall text rf0 P,
  (forall s fw, Base text s -> counts_ok text s -> Inv text rf0 P s ->
                dispatch_ok P s fw = true -> safe_dispatch text s fw) ->
  (bufm P = Full \/
   (bufm P = NoBuf /\
    forall s fw, Base text s -> dispatch_ok P s fw = true -> forall u, ~ unres text s u)) ->
  commit_all P = false ->
  exit_drains P ->
  forall s, reach text rf0 P s -> fin s = true ->
  exists e, halts_at text rf0 e /\ forall r, rf s r = seq_rf text rf0 e r.
Proof. exact exit_complete. Qed.
Print Assumptions C09_exit_complete.

(* the machine only ever halts where the sequential run halts, with nothing but the ret left *)
Theorem C09_exit_at_seq_halt : forall text rf0 P, sound_policy text rf0 P ->
  forall s, reach text rf0 P s -> fin s = false -> halted s = true ->
  exists e, halts_at text rf0 e /\
            (forall r, D text rf0 s (nxt s) r = seq_rf text rf0 e r) /\
            (forall j r, pending s j -> ~ writes text s j r).
Proof. exact exit_at_seq_halt. Qed.
Print Assumptions C09_exit_at_seq_halt.

(* an exit that does not wait loses the result of an older instance (D17 / D29) *)
Theorem C09_exit_without_drain_refuted : refutes tail_text tail_rf0 (P60x tail_text).
Proof. exact exit_without_drain_refuted. Qed.
Print Assumptions C09_exit_without_drain_refuted.

(* with the drain guard that schedule is rejected, the completed one is right *)
Theorem C09_example_drain_blocks :
  run tail_text (P60 tail_text) tail_sched (init tail_rf0) = None.
Proof. exact exit_drain_blocks. Qed.
Theorem C09_example_drain_ok :
  match run tail_text (P60 tail_text)
            [LDispatch None; LDispatch None; LExecute 0; LWriteBack 0; LExit 1; LFinish]
            (init tail_rf0) with
  | Some s => fin s && Z.eqb (rf s 1) 5 | None => false end = true.
Proof. exact exit_drain_ok. Qed.
