(* C06 - MSI coherence invariants hold at every cycle on the multi-core variants.
   Property theorems only; proofs are in Msi/*.v.

   Model: Msi/Protocol.v, the abstract machine of proc/mvp7-0/{msi,cc}.go (the
   same code in proc/mvp7-1); N cores, any number of lines, every interleaving.
   The L3 level of proc/mvp8-0 is not in THIS machine: the three-level machine
   (Msi/L3Protocol.v, which imports this one) and its theorems are in
   Props/C06_l3.v.
   Tie to the code: the extracted inv_b is evaluated on a snapshot of the
   implementation after every cycle of every rig script and pipeline run. *)
From Coq Require Import List ZArith Bool.
From Maj Require Import Msi.Protocol Msi.Invariant Msi.InvProofs Msi.StepProofs Msi.CodedProofs
  Msi.SnapProofs Msi.Refuted Msi.Examples.
Import ListNotations.
Open Scope Z_scope.

(* the invariant holds initially ... *)
Theorem C06_inv_init : forall N m0, Inv N (init m0).
Proof. exact inv_init. Qed.
Print Assumptions C06_inv_init.

(* ... and is preserved by every transition of the machine, guarded or not, with
   or without the repaired flush, provided a lock transition meets no outstanding
   command for (requester, line) *)
Theorem C06_inv_step : forall N g fm s lab s',
  Inv N s -> step N g fm s lab s' ->
  (forall i l, lock_target lab = Some (i, l) -> cm s i l = NoCmd) ->
  Inv N s'.
Proof. exact inv_step. Qed.
Print Assumptions C06_inv_step.

(* THE CODE AS IT IS, flush excluded (guarded = false, NoFlush): every reachable
   state of every interleaving of every length, for every number of cores,
   satisfies the invariant and the supporting conjunct J *)
Theorem C06_inv_reachable : forall N s, reach N false NoFlush s -> Inv N s /\ J N s.
Proof. exact inv_reachable_coded. Qed.
Print Assumptions C06_inv_reachable.

(* the repaired protocol (lock refuses while a command is outstanding for the
   requester; flush releases once and undoes an unsettled fill), flush included *)
Theorem C06_inv_reachable_repaired : forall N fm s, reach N true fm s -> Inv N s.
Proof. exact inv_reachable_guarded. Qed.
Print Assumptions C06_inv_reachable_repaired.

(* the invariant implies the clauses of the property: (1) single writer and no
   sharer beside it, (2) Shared = next level, (3) in L1 iff not Invalid outside
   a transfer, (5) counters within 0..1 / non-negative, writer exclusive;
   (4) holds by construction of the machine (L1 is a function of the line) *)
Theorem C06_inv_implies_clauses : forall N s, Inv N s -> clauses (obs_of_st N s).
Proof. exact inv_clauses. Qed.
Print Assumptions C06_inv_implies_clauses.

(* under the invariant none of the explicit panics of the controllers is reachable *)
Theorem C06_no_controller_panic : forall N s i l, Inv N s -> (i < N)%nat ->
  (ph s i = RdWait l -> l1 s i l = None) /\
  (cm s i l <> NoCmd -> l1 s i l <> None) /\
  ((ph s i = UpgWait l \/ ph s i = OwnWr l \/ exists vic, ph s i = WrFilled l vic) -> l1 s i l <> None) /\
  (rd_on (ph s i) l = true -> 1 <= rc s l) /\
  (wr_on (ph s i) l = true -> wc s l = 1).
Proof. exact inv_no_panic. Qed.
Print Assumptions C06_no_controller_panic.

(* the boolean judge that is extracted and run on the implementation's snapshots
   is exactly the property (clauses 1-5) over the snapshot's lookup functions *)
Theorem C06_inv_b_correct : forall s, inv_b s = true <-> SInv s.
Proof. exact inv_b_correct. Qed.
Print Assumptions C06_inv_b_correct.

(* cacheController.flush AS CODED breaks the invariant: *)
Theorem C06_flush_after_fill_breaks_3_refuted :
  exists s, ctrace 2 (cinit m0) [L_rlock_I 0 64; L_fetch_rd 0 64; L_fill_rd 0 64 None; L_flush 0] s /\
            creach 2 s /\ ~ clause3 (obs_of_st 2 (base s)).
Proof. exact flush_after_fill_breaks_3_refuted. Qed.
Print Assumptions C06_flush_after_fill_breaks_3_refuted.

Theorem C06_flush_twice_breaks_5_refuted :
  exists s, ctrace 2 (cinit m0) [L_lock_I 0 64; L_flush 0; L_flush 0] s /\
            creach 2 s /\ wc (base s) 64 = -1 /\ ~ clause5 (obs_of_st 2 (base s)).
Proof. exact flush_twice_breaks_5_refuted. Qed.
Print Assumptions C06_flush_twice_breaks_5_refuted.

Theorem C06_flush_own_read_breaks_5_refuted :
  exists s, ctrace 2 (cinit m0)
              [L_lock_I 0 64; L_fetch_wr 0 64; L_fill_wr 0 64 None; L_settle_wr 0 64 5; L_rlock_M 0 64; L_flush 0] s /\
            creach 2 s /\ rc (base s) 64 = -1 /\ wc (base s) 64 = 1 /\ ph (base s) 0%nat = Idle /\
            ~ clause5 (obs_of_st 2 (base s)).
Proof. exact flush_own_read_breaks_5_refuted. Qed.
Print Assumptions C06_flush_own_read_breaks_5_refuted.

(* non-vacuity: the code-as-it-is machine reaches states with Modified and Shared copies *)
Theorem C06_reach_nontrivial :
  exists s, trace 2 false NoFlush (init (fun l => l)) example_trace s /\
            ms s 0%nat 64 = S /\ ms s 1%nat 64 = S /\ mem s 64 = 5 /\
            l1 s 0%nat 64 = Some 5 /\ l1 s 1%nat 64 = Some 5 /\ rc s 64 = 0 /\ wc s 64 = 0.
Proof. exact reach_example. Qed.
Print Assumptions C06_reach_nontrivial.
