(* C08 (determinism) for MVP-8.0: soundness of the ghost flag of the faithful cycle-level model Mvp/Mvp80.v.
   The model takes the iteration order of every Go map whose order can matter as an argument `ord` and raises a
   ghost flag when such an iteration can influence the run; the exact tie (lib/vf/modeltie.py, bin/tie_m80.py) compares
   the Go code with the model under ONE order and skips the runs whose flag is set.  Property theorems only; proofs in
   Mvp/Mvp80OrdProofs.v (and Mvp/Mvp80OrdIds.v, Mvp/Mvp80OrdSnoop.v).

   Proved: a run that ends with the flag clear is the same for ALL iteration orders of
   controlUnit.pushedRunnersInPreviousCycle (map (b)) and of the request maps of coSnoop (map (d)): order functions
   that agree on the RAT value maps only (ords_rat), C08_mvp80_order_irrelevant_all_maps.  The version with the
   hypothesis of the theorems for MVP-6.3 / 7.0 / 7.1 (ords_ok3) is a special case; the version with the second ghost
   flag (no coSnoop call with two or more requests) has a proof in which the two runs are equal state by state. *)
From Coq Require Import ZArith List Bool Lia.
From Maj Require Import Base.Outcome Base.GoInt Base.GoTypes Isa.Spec Isa.Seq.
From Maj Require Import Gen.Latency Gen.RiscTables Gen.Opcodes Comp.Cache Comp.Rat Mvp.Mvp12 Mvp.Mvp3 Mvp.Mvp5 Mvp.Mvp60 Mvp.Mvp63 Mvp.Mvp80.
From Maj Require Import Mvp.Mvp60Proofs Mvp.Mvp63Proofs Mvp.Mvp80Proofs Mvp.Mvp80OrdProofs Mvp.Mvp80OrdSnoop Mvp.Mvp80OrdFinal.
From Maj Require Mvp.Mvp80RegOnly Mvp.Mvp80RegOnly63 Mvp.Mvp80Sim63Refute.
From Coq Require Import Permutation.
Import ListNotations.
Open Scope Z_scope.

(* C08: with the ghost flag clear the result does not depend on the iteration order of the control unit's map *)
Theorem C08_mvp80_order_irrelevant_when_flag_clear :
  forall par fuel app labels st ord1 ord2 r,
  ords_ok3 ord1 ord2 ->
  mvp80_run_os par ord1 fuel app labels st = (r, false) ->
  mvp80_run_os par ord2 fuel app labels st = (r, false).
Proof. exact mvp80_ord_irrelevant. Qed.
Print Assumptions C08_mvp80_order_irrelevant_when_flag_clear.

(* C08: with the ghost flag clear the result does not depend on the iteration orders of the control unit's map and of
   the request maps of coSnoop: order functions that agree on the RAT value maps only *)
Theorem C08_mvp80_order_irrelevant_all_maps :
  forall par fuel app labels st ord1 ord2 r,
  ords_rat ord1 ord2 ->
  mvp80_run_os par ord1 fuel app labels st = (r, false) ->
  mvp80_run_os par ord2 fuel app labels st = (r, false).
Proof. exact mvp80_ord_irrelevant_snoop. Qed.
Print Assumptions C08_mvp80_order_irrelevant_all_maps.

(* the hypotheses are satisfiable by a run in which a coSnoop call sees several requests: flag clear, second flag set *)
Theorem C08_mvp80_multi_request_flag_clear_example :
  mvp80_snoop_multi 3 ord_asc 4000 fire_prog no_labels fire_st = true /\
  snd (mvp80_run_os 3 ord_asc 4000 fire_prog no_labels fire_st) = false /\
  mvp80_run_os 3 ord_bd_desc 4000 fire_prog no_labels fire_st = mvp80_run_os 3 ord_asc 4000 fire_prog no_labels fire_st.
Proof. exact multi_request_flag_clear_example. Qed.
Print Assumptions C08_mvp80_multi_request_flag_clear_example.

(* C08: with both ghost flags clear the result does not depend on the iteration orders of the control unit's map and
   of the request maps of coSnoop (order functions that agree on the RAT value maps only) *)
Theorem C08_mvp80_order_irrelevant_when_both_flags_clear :
  forall par fuel app labels st ord1 ord2 r,
  ords_rat ord1 ord2 ->
  mvp80_snoop_multi par ord1 fuel app labels st = false ->
  mvp80_run_os par ord1 fuel app labels st = (r, false) ->
  mvp80_run_os par ord2 fuel app labels st = (r, false).
Proof. exact mvp80_ord_irrelevant_both_flags. Qed.
Print Assumptions C08_mvp80_order_irrelevant_when_both_flags_clear.

(* the hypotheses are satisfiable: three cores, loads and a store of one cache line, every map reversed *)
Theorem C08_mvp80_both_flags_clear_example :
  mvp80_snoop_multi 3 ord_asc 4000 stale_prog no_labels (st_of [(5, 7)] []) = false /\
  snd (mvp80_run_os 3 ord_asc 4000 stale_prog no_labels (st_of [(5, 7)] [])) = false /\
  reg_of (fst (mvp80_run_os 3 ord_bd_desc 4000 stale_prog no_labels (st_of [(5, 7)] []))) 10 = Some 0.
Proof. exact both_flags_clear_example. Qed.
Print Assumptions C08_mvp80_both_flags_clear_example.

(* C08: one call of coSnoop under two iteration orders fails in both cases or leaves the same memory system and
   controllers that differ by the order of the new snoop closures only *)
Theorem C08_mvp80_cosnoop_orders_permute :
  forall l1 l2 w c, Permutation l1 l2 ->
  match sn_create_all w c l1, sn_create_all w c l2 with
  | Ok (w1, c1), Ok (w2, c2) => w1 = w2 /\ cc_perm c1 c2
  | Panic, Panic => True
  | _, _ => False
  end.
Proof. exact sn_create_all_perm. Qed.
Print Assumptions C08_mvp80_cosnoop_orders_permute.

(* C08 / C01: on a program without loads and stores the memory system of MVP-8.0 is never used: a run returns the
   initial memory *)
Theorem C08_mvp80_regonly_memory_unchanged :
  forall par ord fuel app labels st c st' os,
  Mvp80RegOnly.regonly app = true ->
  mvp80_run_os par ord fuel app labels st = (MDone c st', os) -> mem st' = mem st.
Proof. exact Mvp80RegOnly.mvp80_regonly_memory_unchanged. Qed.
Print Assumptions C08_mvp80_regonly_memory_unchanged.

(* finding: MVP-8.0 is NOT MVP-6.3 plus one cycle on register-only programs - the register read by sequence id
   (pc + 1000 * sequenceID is not monotone in program order after a jump back by more than 2000 bytes) returns a
   stale value: x7 = 1 instead of 77 on a 504-instruction program, on the Go code as well (bin/one_m80.py style case) *)
Theorem C01_mvp80_regonly_equals_mvp63_refuted : ~ Mvp80RegOnly63.mvp80_regonly_equals_mvp63_statement.
Proof. exact Mvp80Sim63Refute.mvp80_regonly_equals_mvp63_refuted. Qed.
Print Assumptions C01_mvp80_regonly_equals_mvp63_refuted.
