(* C13 - The line cache behaves as an LRU cache of its reference model.
   Property theorems only.  Models: Comp/Cache.v (proc/comp/cache.go),
   Comp/Lru.v (common/cache/lru.go); reference: Comp/CacheSpec.v,
   Comp/LruSpec.v; proofs: Comp/CacheProofs.v, Comp/LruProofs.v.

   hist_ok L CL ops  =  the geometry is sane and the history respects the
   usage contract (CacheSpec.contract, a boolean predicate of the history).
   model_run L CL ops = NewLRUCache(L, CL) followed by the operations. *)
From Coq Require Import ZArith List.
From Maj Require Import Base.Outcome Comp.Cache Comp.Lru Comp.CacheSpec Comp.LruSpec
  Comp.CacheProofs Comp.LruProofs.
Import ListNotations.
Open Scope Z_scope.

(* every contract-respecting history runs without a panic, every output is the
   reference model's, and the final state satisfies the invariant (no two
   resident lines overlap or share a base, hi = lo + lineLength, len data =
   lineLength, at most numberOfLines+1 lines) and represents the reference state *)
Theorem C13_cache_refines_spec : forall L CL ops, hist_ok L CL ops ->
  exists c, model_run L CL ops = Ok (c, snd (s_run (s_new L CL) ops)) /\
            Inv c /\ R c (fst (s_run (s_new L CL) ops)).
Proof. exact cache_refines_spec. Qed.
Print Assumptions C13_cache_refines_spec.

(* a read returns the last value written to that byte since its line was inserted *)
Theorem C13_read_last_write : forall L CL ops a, hist_ok L CL (ops ++ [OGet a]) ->
  exists c outs, model_run L CL (ops ++ [OGet a]) = Ok (c, outs) /\
    forall v, last outs RUnit = RByte (Some v) -> last_written L ops a = Some v.
Proof. exact read_last_write. Qed.
Print Assumptions C13_read_last_write.

(* a byte is present exactly when a resident line covers it *)
Theorem C13_present_iff_covered : forall L CL ops a, hist_ok L CL (ops ++ [OGet a]) ->
  exists c outs, model_run L CL (ops ++ [OGet a]) = Ok (c, outs) /\
    ((exists v, last outs RUnit = RByte (Some v)) <->
     (exists b, In b (resident L CL ops) /\ b <= a < b + L)).
Proof. exact present_iff_covered. Qed.
Print Assumptions C13_present_iff_covered.

(* inserting into a full cache displaces the least recently used line and
   reports that line's contents (earlier Writes included) *)
Theorem C13_push_full_displaces_lru_and_reports_it : forall L CL ops b d,
  hist_ok L CL (ops ++ [OPush b d]) ->
  let s := state_after L CL ops in
  zlen (s_rec s) = s_cap s -> 0 < s_cap s ->
  exists c outs, model_run L CL (ops ++ [OPush b d]) = Ok (c, outs) /\
    last outs RUnit = RData (Some (s_data s (lru_base s))) /\
    bases c = b :: removelast (s_rec s) /\
    (forall i, 0 <= i < L -> last_written L ops (lru_base s + i) = Some (byte_at (s_data s (lru_base s)) i)).
Proof. exact push_full_displaces_lru_and_reports_it. Qed.
Print Assumptions C13_push_full_displaces_lru_and_reports_it.

(* how each operation changes the recency order of the reference *)
Theorem C13_recency_only_get_and_insert : forall s o,
  match o with
  | OLine _ | OSub _ _ | OWrite _ _ => s_rec (fst (s_step s o)) = s_rec s
  | OEvict a => s_rec (fst (s_step s o)) = match s_cover s a with Some b => remove_first b (s_rec s) | None => s_rec s end
  | OGet a => s_rec (fst (s_step s o)) = match s_cover s a with Some b => b :: remove_first b (s_rec s) | None => s_rec s end
  | OPushW b _ => s_rec (fst (s_step s o)) = b :: s_rec s
  | OPush b d => s_rec (fst (s_step s o)) =
                 if over (s_insert s b d) then remove_first (last (b :: s_rec s) 0) (b :: s_rec s) else b :: s_rec s
  end.
Proof. exact recency_only_get_and_insert. Qed.
Print Assumptions C13_recency_only_get_and_insert.

(* the number of resident lines returns to capacity once the reported victim is removed *)
Theorem C13_capacity_restored_after_victim_removed : forall L CL ops b d,
  hist_ok L CL (ops ++ [OPushW b d]) ->
  exists c outs, model_run L CL (ops ++ [OPushW b d]) = Ok (c, outs) /\
    forall vl, last outs RUnit = RVictim (Some vl) ->
      zlen (lines c) = nlines c + 1 /\
      lo vl = last (b :: resident L CL ops) 0 /\
      exists c' outs', model_run L CL (ops ++ [OPushW b d; OEvict (lo vl)]) = Ok (c', outs') /\
        last outs' RUnit = RData (Some (data vl)) /\
        zlen (lines c') = nlines c' /\ ~ In (lo vl) (bases c').
Proof. exact capacity_restored_after_victim_removed. Qed.
Print Assumptions C13_capacity_restored_after_victim_removed.

Theorem C13_no_duplicate_lines : forall L CL ops, hist_ok L CL ops ->
  exists c outs, model_run L CL ops = Ok (c, outs) /\
    NoDup (bases c) /\
    (forall l1 l2, In l1 (lines c) -> In l2 (lines c) -> l1 = l2 \/ hi l1 <= lo l2 \/ hi l2 <= lo l1) /\
    Forall (fun l => hi l = lo l + llen c /\ zlen (data l) = llen c) (lines c).
Proof. exact no_duplicate_lines. Qed.
Print Assumptions C13_no_duplicate_lines.

(* at most numberOfLines lines; numberOfLines+1 exactly between a
   PushLineWithEvictionWarning that reported a victim and the next successful EvictCacheLine *)
Theorem C13_length_le_capacity : forall L CL ops, hist_ok L CL ops ->
  exists c outs, model_run L CL ops = Ok (c, outs) /\
    zlen (lines c) <= nlines c + 1 /\
    (zlen (lines c) = nlines c + 1 <-> pending false ops outs = true) /\
    (pending false ops outs = false -> zlen (lines c) <= nlines c).
Proof. exact length_le_capacity. Qed.
Print Assumptions C13_length_le_capacity.

(* the contract is satisfiable by a non-trivial history *)
Theorem C13_contract_example : hist_ok 2 4 example_history /\
  exists c, model_run 2 4 example_history =
    Ok (c, [RData None; RData None; RByte (Some 2); RUnit; RData (Some [3; 9]);
            RVictim (Some (mkLine 0 2 [1; 2])); RData (Some [1; 2]); RSub (Some (5, [6]));
            RData (Some [5; 6]); RByte None; RByte (Some 6)]) /\
    bases c = [4; 6].
Proof. exact (conj example_history_ok example_history_outputs). Qed.
Print Assumptions C13_contract_example.

(* without the contract (overlapping lines) a read returns a stale byte *)
Theorem C13_overlap_stale_read_refuted :
  exists L CL ops a v,
    geometry_ok L CL = true /\ contract (s_new L CL) ops = false /\
    (exists c outs, model_run L CL (ops ++ [OGet a]) = Ok (c, outs) /\
       last outs RUnit = RByte (Some v)) /\
    last_written L ops a <> Some v.
Proof. exact overlap_stale_read_refuted. Qed.
Print Assumptions C13_overlap_stale_read_refuted.

(* ---- the generic key-value LRU used for unit selection ---- *)

Theorem C13_lru_refines_spec : forall capacity ops, 0 < capacity ->
  exists l, lmodel_run capacity ops = Ok (l, snd (sl_run (sl_new capacity) ops)) /\
            LR l (fst (sl_run (sl_new capacity) ops)).
Proof. exact lru_refines_spec. Qed.
Print Assumptions C13_lru_refines_spec.

Theorem C13_lru_size_le_capacity : forall capacity ops, 0 < capacity ->
  exists l outs, lmodel_run capacity ops = Ok (l, outs) /\
    Z.of_nat (length (cmap l)) <= cap l /\ cap l = capacity /\
    NoDup (order l) /\ NoDup (map fst (cmap l)) /\
    (forall k, In k (order l) <-> In k (map fst (cmap l))).
Proof. exact lru_size_le_capacity. Qed.
Print Assumptions C13_lru_size_le_capacity.

Theorem C13_lru_get_last_put : forall capacity ops k, 0 < capacity ->
  exists l outs, lmodel_run capacity (ops ++ [LGet k]) = Ok (l, outs) /\
    forall v, last outs LUnit = LVal (Some v) -> last_put ops k = Some v.
Proof. exact lru_get_last_put. Qed.
Print Assumptions C13_lru_get_last_put.

Theorem C13_lru_put_full_evicts_lru : forall l s k v, LR l s ->
  m_get k (cmap l) = None -> Z.of_nat (length (cmap l)) = cap l ->
  exists o0 rest l', order l = o0 :: rest /\ lru_put l k v = Ok l' /\
    order l' = rest ++ [k] /\
    m_get o0 (cmap l') = None /\ m_get k (cmap l') = Some v /\
    (forall k', k' <> o0 -> k' <> k -> m_get k' (cmap l') = m_get k' (cmap l)) /\
    Z.of_nat (length (cmap l')) = cap l'.
Proof. exact lru_put_full_evicts_lru. Qed.
Print Assumptions C13_lru_put_full_evicts_lru.

Theorem C13_lru_find_picks_least_recent_candidate : forall l ks,
  match snd (lru_find l ks) with
  | Some k =>
    In k ks /\
    (exists pre post, order l = pre ++ k :: post /\ (forall x, In x pre -> ~ In x ks)) /\
    order (fst (lru_find l ks)) = remove_first k (order l) ++ [k] /\
    cmap (fst (lru_find l ks)) = cmap l
  | None => (forall x, In x (order l) -> ~ In x ks) /\ fst (lru_find l ks) = l
  end.
Proof. exact lru_find_picks_least_recent_candidate. Qed.
Print Assumptions C13_lru_find_picks_least_recent_candidate.

Theorem C13_lru_example :
  exists l, lmodel_run 2 [LPut 1 10; LPut 2 20; LGet 1; LPut 3 30; LGet 2; LFind [3; 1]; LPut 1 11; LGet 1] =
    Ok (l, [LUnit; LUnit; LVal (Some 10); LUnit; LVal None; LKey (Some 1); LUnit; LVal (Some 11)]) /\
    order l = [3; 1].
Proof. exact lru_example. Qed.
Print Assumptions C13_lru_example.
