(* C05 - The cache hierarchy is transparent and leaves nothing behind.
   Property theorems only.  Mem/WriteBack.v is the abstract write-back cache
   protocol (aligned fills of absent lines, stores into the resident line or to
   memory, eviction with write-back of the victim, flush), parametric in the line
   size, that the MMUs of MVP-3/4/5 follow since the fix: commits b5c4c4c/bb2bbfe
   and that each cache level of the later variants is meant to follow.  The line
   cache itself is proved in Props/C13.v.  The tie of the MMUs to this protocol is
   the per-run differential of lib/vf/c05.py (partial: sampled). *)
From Coq Require Import ZArith List.
From Maj Require Import Mem.WriteBack.
Import ListNotations.
Open Scope Z_scope.

(* every load through the cache returns what flat memory would return, for every
   sequence of protocol operations of any length, any working-set size and any
   eviction sequence *)
Theorem C05_view_is_flat : forall LS, 0 < LS -> forall ops s s',
  Inv LS s -> run LS s ops = Some s' ->
  Inv LS s' /\ forall x, view LS s' x = flat (view LS s) ops x.
Proof. exact view_is_flat. Qed.
Print Assumptions C05_view_is_flat.

(* after the final flush main memory holds every store: nothing is left only in the cache *)
Theorem C05_flush_complete : forall LS, 0 < LS -> forall ops s s',
  Inv LS s -> run LS s (ops ++ [Flush]) = Some s' ->
  forall x, mem s' x = flat (view LS s) ops x.
Proof. exact flush_complete. Qed.
Print Assumptions C05_flush_complete.

(* why the side conditions matter: the two defects of the pinned tree, as witnesses *)
Theorem C05_unaligned_fill_refuted :
  let s0 := mk_state [] (fun _ => 0) in
  let s1 := fill_raw s0 1 in
  let s2 := fill_raw s1 0 in
  exists s3, step 4 s2 (Store 2 9) = Some s3 /\
    let s4 := mk_state (rev (lines s3)) (mem s3) in
    view 4 s4 2 = 0 /\ flat (view 4 s0) [Store 2 9] 2 = 9.
Proof. exact unaligned_fill_stale_read_refuted. Qed.

Theorem C05_evict_incoming_refuted :
  let s0 := mk_state [] (fun _ => 0) in
  exists s1 s2, step 4 s0 (Fill 0) = Some s1 /\ step 4 s1 (Store 1 7) = Some s2 /\
    let incoming := mk_line 4 (fetch 4 (mem s2) 4) in
    let s3 := mk_state [incoming] (write_back (mem s2) incoming) in
    view 4 s3 1 = 0 /\ flat (view 4 s0) [Store 1 7] 1 = 7.
Proof. exact evict_incoming_loses_store_refuted. Qed.

(* non-vacuity: a protocol run with a fill, stores (hit and miss), an eviction and the flush *)
Example C05_example :
  let s0 := mk_state [] (fun a => a) in
  exists s', run 4 s0 [Fill 0; Store 1 70; Store 9 90; Fill 8; Store 10 91; Evict 0; Touch 8; Flush] = Some s' /\
             mem s' 1 = 70 /\ mem s' 9 = 90 /\ mem s' 10 = 91 /\ mem s' 2 = 2 /\ view 4 s' 10 = 91.
Proof. eexists. split; [reflexivity|]. vm_compute. repeat split; reflexivity. Qed.
