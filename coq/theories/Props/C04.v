(* C04 - register dependences are honoured (RAW, WAW, WAR).  Property theorems only.

   Model: the abstract out-of-order machine theories/Ooo/Machine.v (dispatch in program order
   under a policy guard; execute, write-back, branch resolution in ANY order; time, unit
   assignment and buses abstracted) with the policies of theories/Ooo/Policies.v read off
   proc/mvp4 .. mvp6-3.  Every statement quantifies over ALL programs `text`, ALL initial
   register files `rf0` and ALL schedules (`reach text rf0 P s` = s is reachable by some
   sequence of transitions of policy P).  `sound_policy` (Ooo/InvDefs.v) = the dispatch guard
   implies absence of RAW (unless forwarded from the unique pending writer) / WAW / WAR against
   the in-flight set, writes are either all buffered or nothing is dispatched past an unresolved
   branch, the exit drains.  P60ns / P61ns / P62r satisfy it (sound_P60ns, sound_P61ns,
   sound_P62r); P60 / P61 as they are satisfy it on branch-free programs; P45 is proved
   separately (in-order).  D s k = register file after executing the first k instances of the
   fetch stream sequentially; dval s m = the result instance m has in that execution. *)
From Coq Require Import ZArith List Bool.
From Maj Require Import Ooo.Machine Ooo.Counts Ooo.InvDefs Ooo.InvResolve Ooo.Path Ooo.Policies
  Ooo.Guards Ooo.P60 Ooo.P61 Ooo.P45 Ooo.Spec Ooo.Hazards Ooo.Refute Ooo.Examples.
Import ListNotations.

(* stored scoreboard counters (risc/app.go) = counters derived from the in-flight set:
   every policy, every program, every schedule *)
Theorem C04_scoreboard_counts : forall text rf0 P s,
  reach text rf0 P s ->
  forall r, pw s r = cnt_w text s r /\ pr s r = cnt_r text s r.
Proof. exact scoreboard_counts. Qed.
Print Assumptions C04_scoreboard_counts.

(* RAW: an instance about to execute reads, for every declared source, the result of its last
   older writer (from the file, the buffer or the forwarding channel) ... *)
Theorem C04_raw_value : forall text rf0 P, sound_policy text rf0 P ->
  forall s j fw r m, reach text rf0 P s -> fin s = false ->
  stat s j = Disp fw -> fw_ready s fw = true -> reads text s j r ->
  m < j -> writes text s m r -> (forall m', m < m' < j -> ~ writes text s m' r) ->
  rd s fw r = dval text rf0 s m.
Proof. exact raw_value. Qed.
Print Assumptions C04_raw_value.

(* ... the initial value if there is no older writer ... *)
Theorem C04_raw_value_init : forall text rf0 P, sound_policy text rf0 P ->
  forall s j fw r, reach text rf0 P s -> fin s = false ->
  stat s j = Disp fw -> fw_ready s fw = true -> reads text s j r ->
  (forall m, m < j -> ~ writes text s m r) -> rd s fw r = rf0 r.
Proof. exact raw_value_init. Qed.
Print Assumptions C04_raw_value_init.

(* ... and, for an instance on the true path, exactly the sequential value *)
Theorem C04_raw_value_seq : forall text rf0 P, sound_policy text rf0 P ->
  forall s j fw r, reach text rf0 P s -> fin s = false ->
  stat s j = Disp fw -> fw_ready s fw = true -> reads text s j r ->
  (forall k, k < j -> ipc s k = path text rf0 k) -> rd s fw r = seq_rf text rf0 j r.
Proof. exact raw_value_seq. Qed.
Print Assumptions C04_raw_value_seq.

(* WAW: after Finish every register holds the value of its last writer in program order *)
Theorem C04_waw_last_writer : forall text rf0 P, sound_policy text rf0 P ->
  forall s, reach text rf0 P s -> fin s = true ->
  exists e, halts_at text rf0 e /\ forall r,
    (forall m, m < e -> swrites text rf0 m r ->
               (forall m', m < m' < e -> ~ swrites text rf0 m' r) ->
               rf s r = sval text rf0 m) /\
    ((forall m, m < e -> ~ swrites text rf0 m r) -> rf s r = rf0 r).
Proof. exact waw_last_writer. Qed.
Print Assumptions C04_waw_last_writer.

(* WAR: no transition (in particular no write-back of a younger writer) changes what a
   dispatched, not yet executed instance reads for a declared source *)
Theorem C04_war_old_value : forall text rf0 P, sound_policy text rf0 P ->
  forall s s' j fw r, reach text rf0 P s -> step text P s s' -> fin s' = false ->
  stat s j = Disp fw -> stat s' j = Disp fw -> reads text s j r ->
  (forall p, fw <> Some (p, r)) -> view s' r = view s r.
Proof. exact war_old_value. Qed.
Print Assumptions C04_war_old_value.

(* forwarding: the source accepted by shouldUseForwarding is unique ... *)
Theorem C04_forward_unique : forall text rf0 P, sound_policy text rf0 P ->
  forall s p r p' r', reach text rf0 P s -> fin s = false ->
  guard61 text s (Some (p, r)) = true -> guard61 text s (Some (p', r')) = true ->
  p = p' /\ r = r'.
Proof. exact forward_unique. Qed.
Print Assumptions C04_forward_unique.

(* ... and the forwarded value is the sequential value of the register before the consumer *)
Theorem C04_forward_value : forall text rf0 P, sound_policy text rf0 P ->
  forall s i p r v, reach text rf0 P s -> fin s = false ->
  stat s i = Disp (Some (p, r)) -> res s p = Some v -> v = D text rf0 s i r.
Proof. exact forward_value. Qed.
Print Assumptions C04_forward_value.

(* the policies of the code *)
Theorem C04_sound_P60ns : forall text rf0, sound_policy text rf0 (P60ns text).
Proof. exact sound_P60ns. Qed.
Print Assumptions C04_sound_P60ns.
Theorem C04_sound_P61ns : forall text rf0, sound_policy text rf0 (P61ns text).
Proof. exact sound_P61ns. Qed.
Print Assumptions C04_sound_P61ns.
Theorem C04_sound_P62r : forall text rf0, sound_policy text rf0 (P62r text).
Proof. exact sound_P62r. Qed.
Print Assumptions C04_sound_P62r.

(* 6.0 and 6.1 as they are, branch-free programs: every schedule gives the sequential file *)
Theorem C04_p60_correct : forall text rf0 s, straight text ->
  reach text rf0 (P60 text) s -> fin s = true ->
  exists e, halts_at text rf0 e /\ forall r, rf s r = seq_rf text rf0 e r.
Proof. exact p60_correct. Qed.
Print Assumptions C04_p60_correct.

Theorem C04_p60_correct_straight : forall text rf0 s, plain_text text ->
  reach text rf0 (P60 text) s -> fin s = true -> forall r, rf s r = run_straight text rf0 r.
Proof. exact p60_correct_straight. Qed.
Print Assumptions C04_p60_correct_straight.

Theorem C04_p61_correct : forall text rf0 s, straight text ->
  reach text rf0 (P61 text) s -> fin s = true ->
  exists e, halts_at text rf0 e /\ forall r, rf s r = seq_rf text rf0 e r.
Proof. exact p61_correct. Qed.
Print Assumptions C04_p61_correct.

Theorem C04_forward_unique_P61 : forall text rf0 s p r p' r', straight text ->
  reach text rf0 (P61 text) s -> fin s = false ->
  guard61 text s (Some (p, r)) = true -> guard61 text s (Some (p', r')) = true ->
  p = p' /\ r = r'.
Proof. exact forward_unique_P61. Qed.
Print Assumptions C04_forward_unique_P61.

(* MVP-4/5: in-order unit with source interlock, every program, every schedule *)
Theorem C04_p45_correct : forall text rf0 s,
  reach text rf0 (P45 text) s -> fin s = true ->
  exists e, halts_at text rf0 e /\ forall r, rf s r = seq_rf text rf0 e r.
Proof. exact p45_correct. Qed.
Print Assumptions C04_p45_correct.

(* 6.3 dispatches through a single WAW / WAR without renaming: refuted (D13) *)
Theorem C04_p63_waw_refuted : refutes waw_text waw_rf0 (P63 waw_text).
Proof. exact p63_waw_refuted. Qed.
Print Assumptions C04_p63_waw_refuted.
Theorem C04_p63_war_refuted : refutes war_text war_rf0 (P63 war_text).
Proof. exact p63_war_refuted. Qed.
Print Assumptions C04_p63_war_refuted.

(* 6.3: with two writers in flight the forwarding source is ambiguous, and the older one is
   wrong (the positive counterpart is C04_forward_unique) *)
Theorem C04_p63_forward_ambiguous :
  reach amb_text amb_rf0 (P63 amb_text) amb_state /\
  guard61 amb_text amb_state (Some (0, 1)) = true /\
  guard61 amb_text amb_state (Some (1, 1)) = true.
Proof. exact p63_forward_ambiguous. Qed.
Print Assumptions C04_p63_forward_ambiguous.
Theorem C04_p63_forward_source_refuted : refutes amb_text amb_rf0 (P63 amb_text).
Proof. exact p63_forward_source_refuted. Qed.
Print Assumptions C04_p63_forward_source_refuted.

(* a refutation contradicts the conclusion of the correctness theorems *)
Theorem C04_refutes_not_correct : forall text rf0 P, refutes text rf0 P ->
  ~ (forall s, reach text rf0 P s -> fin s = true ->
       exists e, halts_at text rf0 e /\ forall r, rf s r = seq_rf text rf0 e r).
Proof. exact refutes_not_correct. Qed.
Print Assumptions C04_refutes_not_correct.

(* the hypotheses are satisfiable: concrete programs under concrete overtaking schedules *)
Theorem C04_example_p60 :
  exists s, reach ex60_text (regs []) (P60 ex60_text) s /\ fin s = true /\
            halts_at ex60_text (regs []) 3 /\
            forall r, In r [1; 2; 3] -> rf s r = seq_rf ex60_text (regs []) 3 r.
Proof. exact ex_p60. Qed.
Theorem C04_example_p61 :
  exists s, reach ex60_text (regs []) (P61 ex60_text) s /\ fin s = true /\
            halts_at ex60_text (regs []) 3 /\
            forall r, In r [1; 2; 3] -> rf s r = seq_rf ex60_text (regs []) 3 r.
Proof. exact ex_p61. Qed.
Theorem C04_example_forward_state :
  reach ex60_text (regs []) (P61 ex60_text) ex61_mid /\ fin ex61_mid = false /\
  stat ex61_mid 1 = Disp (Some (0, 1)) /\ fw_ready ex61_mid (Some (0, 1)) = true /\
  reads ex60_text ex61_mid 1 1 /\ writes ex60_text ex61_mid 0 1 /\
  res ex61_mid 0 = Some 5%Z /\ rd ex61_mid (Some (0, 1)) 1 = 5%Z.
Proof. exact ex_forward_state. Qed.
Theorem C04_example_p45 :
  exists s, reach ex45_text (regs []) (P45 ex45_text) s /\ fin s = true /\
            halts_at ex45_text (regs []) 4 /\
            forall r, In r [1; 2] -> rf s r = seq_rf ex45_text (regs []) 4 r.
Proof. exact ex_p45. Qed.
