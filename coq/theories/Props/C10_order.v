(* C10 - memory dependences between in-flight loads and stores.  Property theorems only.
   Model: theories/Ooo/MemOrder.v (the dynamic sequence of memory operations with resolved
   byte footprints; each performs at a moment chosen by the schedule, subject to a rule). *)
From Coq Require Import ZArith List Bool.
From Maj Require Import Ooo.MemOrder.
Import ListNotations.

(* rule: a load waits for every older unperformed store to overlapping bytes; stores perform in
   program order and wait for every older unperformed load to overlapping bytes.  Then every
   schedule gives the sequential memory and the sequential result of every load. *)
Theorem C10_mem_order_correct : forall prog m0 s,
  mreach prog m0 (rule_safe prog) s -> (forall j, j < n prog -> pf s j = true) ->
  (forall a, mm s a = M prog m0 (n prog) a) /\
  (forall j fp, j < n prog -> op prog j = Ld fp -> lv s j = map (M prog m0 j) fp).
Proof. exact mem_order_correct. Qed.
Print Assumptions C10_mem_order_correct.

(* 6.x has no memory-dependence tracking: store -> load at distance 1 *)
Theorem C10_no_mem_hazard_rule_refuted :
  mrefutes [St [(0, 5%Z)]; Ld [0]] (fun _ => 0%Z) rule_none.
Proof. exact no_mem_hazard_rule_refuted. Qed.
Print Assumptions C10_no_mem_hazard_rule_refuted.

(* the rule as worded in DESIGN.md C10 (without the load -> store clause) is not sufficient *)
Theorem C10_rule_without_war_refuted :
  mrefutes [Ld [0]; St [(0, 5%Z)]] (fun _ => 0%Z) (rule_design [Ld [0]; St [(0, 5%Z)]]).
Proof. exact rule_without_war_refuted. Qed.
Print Assumptions C10_rule_without_war_refuted.

Theorem C10_example :
  let prog := [St [(0, 5%Z)]; Ld [0]; St [(0, 7%Z)]; Ld [4]] in
  let m0 := fun _ : nat => 0%Z in
  exists s, mreach prog m0 (rule_safe prog) s /\ (forall j, j < 4 -> pf s j = true) /\
            lv s 1 = [5%Z] /\ mm s 0 = 7%Z.
Proof. exact mem_order_example. Qed.
