(* A: a write-back cache of aligned lines over a flat byte memory, parametric in
   the line size.  This is the protocol the memory management units of MVP-3,
   4 and 5 are meant to follow (and, line by line, the L1/L3 levels of the later
   variants): aligned fills of absent lines, stores into a resident line or
   straight to memory, eviction with write-back of the VICTIM, final flush.

   Main theorem (view_is_flat): for EVERY sequence of protocol operations, of
   any length, with any eviction pattern, the memory a program sees through the
   cache equals the flat memory that executed the same stores; after a flush,
   main memory itself equals it (flush_complete).  The two ways the pinned tree
   broke the protocol (unaligned fills, write-back of the incoming line) are
   refuted below with concrete operation sequences. *)
From Coq Require Import ZArith List Bool Lia.
Import ListNotations.
Open Scope Z_scope.

Section WB.
  Variable LS : Z.                       (* line size in bytes *)
  Hypothesis LS_pos : 0 < LS.

  Definition memory := Z -> Z.
  Record line := mk_line { base : Z; data : list Z }.
  Record state := mk_state { lines : list line; mem : memory }.

  Definition covers (l : line) (a : Z) : bool := (base l <=? a) && (a <? base l + LS).

  Fixpoint find_line (ls : list line) (a : Z) : option line :=
    match ls with
    | [] => None
    | l :: t => if covers l a then Some l else find_line t a
    end.

  (* what a load of byte a returns *)
  Definition view (s : state) (a : Z) : Z :=
    match find_line (lines s) a with
    | Some l => nth (Z.to_nat (a - base l)) (data l) 0
    | None => mem s a
    end.

  Definition upd (m : memory) (a v : Z) : memory := fun x => if x =? a then v else m x.

  Definition fetch (m : memory) (b : Z) : list Z := map (fun i => m (b + Z.of_nat i)) (seq 0 (Z.to_nat LS)).

  Fixpoint set_nth (l : list Z) (n : nat) (v : Z) : list Z :=
    match l, n with
    | [], _ => []
    | _ :: t, O => v :: t
    | h :: t, S k => h :: set_nth t k v
    end.

  Fixpoint store_in (ls : list line) (a v : Z) : list line :=
    match ls with
    | [] => []
    | l :: t => if covers l a then mk_line (base l) (set_nth (data l) (Z.to_nat (a - base l)) v) :: t
                else l :: store_in t a v
    end.

  (* write the bytes of a line back to memory *)
  Fixpoint write_back_from (m : memory) (b : Z) (d : list Z) : memory :=
    match d with
    | [] => m
    | v :: t => write_back_from (upd m b v) (b + 1) t
    end.
  Definition write_back (m : memory) (l : line) : memory := write_back_from m (base l) (data l).

  Fixpoint remove_base (ls : list line) (b : Z) : list line :=
    match ls with
    | [] => []
    | l :: t => if base l =? b then t else l :: remove_base t b
    end.

  Definition has_base (ls : list line) (b : Z) : bool := existsb (fun l => base l =? b) ls.

  Inductive op :=
  | Fill (b : Z)            (* fetch the aligned line at b from memory; it must be absent *)
  | Store (a v : Z)         (* store one byte: into the resident line, else into memory *)
  | Evict (b : Z)           (* write the line at b back and drop it *)
  | Touch (a : Z)           (* recency update: no effect on contents *)
  | Flush.                  (* write every line back (lines stay resident) *)

  (* None = the operation is outside the protocol *)
  Definition step (s : state) (o : op) : option state :=
    match o with
    | Fill b =>
        if (b mod LS =? 0) && negb (has_base (lines s) b)
        then Some (mk_state (mk_line b (fetch (mem s) b) :: lines s) (mem s))
        else None
    | Store a v =>
        match find_line (lines s) a with
        | Some _ => Some (mk_state (store_in (lines s) a v) (mem s))
        | None => Some (mk_state (lines s) (upd (mem s) a v))
        end
    | Evict b =>
        match find (fun l => base l =? b) (lines s) with
        | Some l => Some (mk_state (remove_base (lines s) b) (write_back (mem s) l))
        | None => None
        end
    | Touch _ => Some s
    | Flush => Some (mk_state (lines s) (fold_left write_back (lines s) (mem s)))
    end.

  Fixpoint run (s : state) (ops : list op) : option state :=
    match ops with
    | [] => Some s
    | o :: t => match step s o with Some s' => run s' t | None => None end
    end.

  (* the flat memory that executes the same stores *)
  Fixpoint flat (m : memory) (ops : list op) : memory :=
    match ops with
    | [] => m
    | Store a v :: t => flat (upd m a v) t
    | _ :: t => flat m t
    end.

  (* invariant: aligned, distinct bases, full lines *)
  Definition Inv (s : state) : Prop :=
    NoDup (map base (lines s)) /\
    Forall (fun l => base l mod LS = 0 /\ Z.of_nat (length (data l)) = LS) (lines s).

  (* ---- basic facts ---- *)
  Lemma covers_spec l a : covers l a = true <-> base l <= a < base l + LS.
  Proof. unfold covers. rewrite andb_true_iff, Z.leb_le, Z.ltb_lt. tauto. Qed.

  Lemma aligned_cover_unique b1 b2 a :
    b1 mod LS = 0 -> b2 mod LS = 0 -> b1 <= a < b1 + LS -> b2 <= a < b2 + LS -> b1 = b2.
  Proof.
    intros H1 H2 Ha1 Ha2.
    apply Z.mod_divide in H1; [|lia]. apply Z.mod_divide in H2; [|lia].
    destruct H1 as [k1 ->]. destruct H2 as [k2 ->].
    assert (k1 = k2) by nia. subst. reflexivity.
  Qed.

  Lemma find_line_some ls a l : find_line ls a = Some l -> In l ls /\ covers l a = true.
  Proof.
    induction ls as [|h t IH]; simpl; [discriminate|].
    destruct (covers h a) eqn:E; intros H.
    - injection H as <-. auto.
    - destruct (IH H). auto.
  Qed.

  Lemma find_line_none ls a : find_line ls a = None -> forall l, In l ls -> covers l a = false.
  Proof.
    induction ls as [|h t IH]; simpl; intros H l Hl; [contradiction|].
    destruct (covers h a) eqn:E; [discriminate|]. destruct Hl as [<-|Hl]; auto.
  Qed.

  Lemma nth_set_nth l n m v d : (n < length l)%nat ->
    nth m (set_nth l n v) d = if Nat.eqb m n then v else nth m l d.
  Proof.
    revert n m. induction l as [|h t IH]; intros n m Hn; simpl in Hn; [lia|].
    destruct n, m; simpl; try reflexivity. apply IH. lia.
  Qed.

  Lemma length_set_nth l n v : length (set_nth l n v) = length l.
  Proof. revert n. induction l; intros [|n]; simpl; auto. Qed.

  Lemma nth_fetch m b k : (k < Z.to_nat LS)%nat -> nth k (fetch m b) 0 = m (b + Z.of_nat k).
  Proof.
    intros Hk. unfold fetch.
    assert (G : forall (f : nat -> Z) n k d, (k < n)%nat -> nth k (map f (seq 0 n)) d = f k).
    { intros f n k0 d Hk0. rewrite (nth_indep _ d (f 0%nat)) by (rewrite map_length, seq_length; lia).
      rewrite map_nth. rewrite seq_nth by lia. reflexivity. }
    apply (G (fun i => m (b + Z.of_nat i))). exact Hk.
  Qed.

  Lemma length_fetch m b : Z.of_nat (length (fetch m b)) = LS.
  Proof. unfold fetch. rewrite map_length, seq_length. lia. Qed.

  Lemma write_back_from_spec d : forall m b x,
    write_back_from m b d x =
    if (b <=? x) && (x <? b + Z.of_nat (length d)) then nth (Z.to_nat (x - b)) d 0 else m x.
  Proof.
    induction d as [|v t IH]; intros m b x; simpl write_back_from.
    - simpl length. replace (x <? b + Z.of_nat 0) with (x <? b) by (f_equal; lia).
      destruct (Z.leb_spec b x); destruct (Z.ltb_spec x b); simpl; try reflexivity; lia.
    - rewrite IH. cbn [length]. rewrite Nat2Z.inj_succ.
      destruct (Z.leb_spec (b + 1) x); destruct (Z.ltb_spec x (b + 1 + Z.of_nat (length t)));
      destruct (Z.leb_spec b x); destruct (Z.ltb_spec x (b + Z.succ (Z.of_nat (length t)))); simpl; try lia.
      + replace (Z.to_nat (x - b)) with (S (Z.to_nat (x - (b + 1)))) by lia. reflexivity.
      + unfold upd. destruct (Z.eqb_spec x b); [lia | reflexivity].
      + unfold upd. destruct (Z.eqb_spec x b); [|lia]. subst. replace (b - b) with 0 by lia. reflexivity.
      + unfold upd. destruct (Z.eqb_spec x b); [lia | reflexivity].
  Qed.

  Lemma write_back_spec m l x : Z.of_nat (length (data l)) = LS ->
    write_back m l x = if covers l x then nth (Z.to_nat (x - base l)) (data l) 0 else m x.
  Proof. intros H. unfold write_back, covers. rewrite write_back_from_spec, H. reflexivity. Qed.

  (* in an Inv state the line covering an address is determined by its base *)
  Lemma inv_cover_unique s l1 l2 a : Inv s -> In l1 (lines s) -> In l2 (lines s) ->
    covers l1 a = true -> covers l2 a = true -> base l1 = base l2.
  Proof.
    intros [_ Hf] H1 H2 C1 C2. rewrite Forall_forall in Hf.
    apply covers_spec in C1. apply covers_spec in C2.
    eapply aligned_cover_unique; try eassumption; [apply (Hf l1 H1) | apply (Hf l2 H2)].
  Qed.

  Lemma NoDup_base_eq ls l1 l2 : NoDup (map base ls) -> In l1 ls -> In l2 ls -> base l1 = base l2 -> l1 = l2.
  Proof.
    induction ls as [|h t IH]; simpl; intros Hnd H1 H2 E; [contradiction|].
    inversion Hnd as [|? ? Hnotin Hnd']; subst.
    destruct H1 as [<-|H1], H2 as [<-|H2]; auto.
    - exfalso. apply Hnotin. rewrite E. apply in_map. exact H2.
    - exfalso. apply Hnotin. rewrite <- E. apply in_map. exact H1.
  Qed.

  (* view through find_line is independent of the position of the line in the list *)
  Lemma view_of_member s l a : Inv s -> In l (lines s) -> covers l a = true ->
    view s a = nth (Z.to_nat (a - base l)) (data l) 0.
  Proof.
    intros HI Hin Hc. unfold view.
    destruct (find_line (lines s) a) as [l'|] eqn:E.
    - destruct (find_line_some _ _ _ E) as [Hin' Hc'].
      assert (l' = l).
      { destruct HI as [Hnd Hf]. eapply NoDup_base_eq; try eassumption.
        eapply inv_cover_unique; try eassumption. split; assumption. }
      subst. reflexivity.
    - rewrite (find_line_none _ _ E l Hin) in Hc. discriminate.
  Qed.

  Lemma view_of_absent s a : (forall l, In l (lines s) -> covers l a = false) -> view s a = mem s a.
  Proof.
    intros H. unfold view. destruct (find_line (lines s) a) as [l|] eqn:E; [|reflexivity].
    destruct (find_line_some _ _ _ E) as [Hin Hc]. rewrite (H l Hin) in Hc. discriminate.
  Qed.

  (* ---- store_in ---- *)
  Lemma store_in_bases ls a v : map base (store_in ls a v) = map base ls.
  Proof.
    induction ls as [|h t IH]; simpl; [reflexivity|].
    destruct (covers h a); simpl; [reflexivity | rewrite IH; reflexivity].
  Qed.

  Lemma store_in_forall ls a v :
    Forall (fun l => base l mod LS = 0 /\ Z.of_nat (length (data l)) = LS) ls ->
    Forall (fun l => base l mod LS = 0 /\ Z.of_nat (length (data l)) = LS) (store_in ls a v).
  Proof.
    induction 1 as [|h t [H1 H2] Ht IH]; simpl; [constructor|].
    destruct (covers h a); constructor; simpl; auto. rewrite length_set_nth. auto.
  Qed.

  Lemma in_store_in ls a v l' : In l' (store_in ls a v) ->
    exists l, In l ls /\ base l' = base l /\
      (data l' = data l \/ (covers l a = true /\ data l' = set_nth (data l) (Z.to_nat (a - base l)) v)).
  Proof.
    induction ls as [|h t IH]; simpl; [contradiction|].
    destruct (covers h a) eqn:E; simpl; intros [E1|Hin].
    - subst l'. exists h. simpl. auto.
    - exists l'. auto.
    - subst l'. exists h. auto.
    - destruct (IH Hin) as (l & Hl & Hb & Hd). exists l. auto.
  Qed.

  Lemma store_in_first ls a v l : find_line ls a = Some l ->
    In (mk_line (base l) (set_nth (data l) (Z.to_nat (a - base l)) v)) (store_in ls a v).
  Proof.
    induction ls as [|h t IH]; simpl; [discriminate|].
    destruct (covers h a) eqn:E; intros H.
    - injection H as <-. left. reflexivity.
    - right. auto.
  Qed.

  Lemma store_in_other ls a v l : In l ls -> covers l a = false -> In l (store_in ls a v).
  Proof.
    induction ls as [|h t IH]; simpl; [contradiction|].
    intros [<-|Hin] Hc.
    - rewrite Hc. left. reflexivity.
    - destruct (covers h a); [right; exact Hin | right; auto].
  Qed.

  (* ---- invariant preservation ---- *)
  Lemma has_base_false ls b : has_base ls b = false -> ~ In b (map base ls).
  Proof.
    unfold has_base. induction ls as [|h t IH]; simpl; [tauto|].
    destruct (Z.eqb_spec (base h) b); simpl; [discriminate|]. intros H [E|Hin]; [contradiction | exact (IH H Hin)].
  Qed.

  Lemma remove_base_sub ls b l : In l (remove_base ls b) -> In l ls.
  Proof.
    induction ls as [|h t IH]; simpl; [tauto|].
    destruct (base h =? b); simpl; [tauto|]. intros [<-|H]; auto.
  Qed.

  Lemma remove_base_nodup ls b : NoDup (map base ls) -> NoDup (map base (remove_base ls b)).
  Proof.
    induction ls as [|h t IH]; simpl; intros H; [constructor|].
    inversion H as [|? ? Hn Hd]; subst. destruct (base h =? b); simpl; [exact Hd|].
    constructor; [|auto]. intros Hin. apply Hn. apply in_map_iff in Hin as (l & El & Hl).
    apply in_map_iff. exists l. split; [exact El | eapply remove_base_sub; exact Hl].
  Qed.

  Lemma remove_base_not_in ls b l : NoDup (map base ls) -> In l (remove_base ls b) -> base l <> b.
  Proof.
    induction ls as [|h t IH]; simpl; intros Hnd Hin; [contradiction|].
    inversion Hnd as [|? ? Hn Hd]; subst.
    destruct (Z.eqb_spec (base h) b).
    - intros E. apply Hn. rewrite e, <- E. apply in_map. exact Hin.
    - destruct Hin as [<-|Hin]; [assumption | auto].
  Qed.

  Lemma remove_base_keeps ls b l : In l ls -> base l <> b -> In l (remove_base ls b).
  Proof.
    induction ls as [|h t IH]; simpl; [tauto|].
    intros [<-|Hin] Hb.
    - destruct (Z.eqb_spec (base h) b); [contradiction | left; reflexivity].
    - destruct (base h =? b); [exact Hin | right; auto].
  Qed.

  Lemma step_inv s o s' : Inv s -> step s o = Some s' -> Inv s'.
  Proof.
    intros [Hnd Hf] H. destruct o as [b|a v|b|a|]; cbn [step] in H.
    - destruct ((b mod LS =? 0) && negb (has_base (lines s) b)) eqn:E; [|discriminate].
      injection H as <-. apply andb_true_iff in E as [E1 E2]. apply Z.eqb_eq in E1.
      apply negb_true_iff in E2. split; cbn [lines map].
      + constructor; [apply has_base_false; exact E2 | exact Hnd].
      + constructor; [|exact Hf]. cbn [base data]. split; [exact E1 | apply length_fetch].
    - destruct (find_line (lines s) a); injection H as <-; split; cbn [lines]; auto.
      + rewrite store_in_bases. exact Hnd.
      + apply store_in_forall. exact Hf.
    - destruct (find (fun l => base l =? b) (lines s)) as [lv|]; [|discriminate]. injection H as <-.
      split; cbn [lines]; [apply remove_base_nodup; exact Hnd|].
      rewrite Forall_forall in *. intros l0 Hl0. apply Hf. eapply remove_base_sub; exact Hl0.
    - injection H as <-. split; assumption.
    - injection H as <-. split; assumption.
  Qed.

  (* ---- every protocol step changes the view exactly as flat memory changes ---- *)
  Lemma fold_write_back_spec ls : forall m x,
    Forall (fun l => base l mod LS = 0 /\ Z.of_nat (length (data l)) = LS) ls ->
    NoDup (map base ls) ->
    fold_left write_back ls m x =
    match find_line ls x with Some l => nth (Z.to_nat (x - base l)) (data l) 0 | None => m x end.
  Proof.
    induction ls as [|h t IH]; intros m x Hf Hnd; cbn [fold_left find_line]; [reflexivity|].
    inversion Hf as [|? ? [Hal Hlen] Hf']; subst. inversion Hnd as [|? ? Hnot Hnd']; subst.
    rewrite IH by assumption.
    destruct (covers h x) eqn:Ec.
    - destruct (find_line t x) as [l|] eqn:E.
      + exfalso. destruct (find_line_some _ _ _ E) as [Hin Hc]. apply Hnot.
        rewrite Forall_forall in Hf'. destruct (Hf' l Hin) as [Hal' _].
        apply covers_spec in Ec. apply covers_spec in Hc.
        rewrite (aligned_cover_unique _ _ _ Hal Hal' Ec Hc). apply in_map. exact Hin.
      + rewrite write_back_spec by exact Hlen. rewrite Ec. reflexivity.
    - destruct (find_line t x); [reflexivity|]. rewrite write_back_spec by exact Hlen. rewrite Ec. reflexivity.
  Qed.

  Lemma step_view s o s' : Inv s -> step s o = Some s' ->
    forall x, view s' x = match o with Store a v => upd (view s) a v x | _ => view s x end.
  Proof.
    intros HI H x. pose proof (step_inv _ _ _ HI H) as HI'. pose proof HI as HIs. destruct HI as [Hnd Hf].
    destruct o as [b|a v|b|a|]; cbn [step] in H.
    - (* fill: the new line holds what memory holds *)
      destruct ((b mod LS =? 0) && negb (has_base (lines s) b)) eqn:E; [|discriminate].
      injection H as <-. apply andb_true_iff in E as [E1 E2]. apply Z.eqb_eq in E1.
      apply negb_true_iff in E2.
      unfold view at 1. cbn [lines find_line mem].
      destruct (covers (mk_line b (fetch (mem s) b)) x) eqn:Ec.
      + cbn [base data]. apply covers_spec in Ec. cbn [base] in Ec.
        rewrite nth_fetch by lia. replace (b + Z.of_nat (Z.to_nat (x - b))) with x by lia.
        symmetry. apply view_of_absent. intros l Hl.
        destruct (covers l x) eqn:Ecl; [|reflexivity]. exfalso.
        rewrite Forall_forall in Hf. destruct (Hf l Hl) as [Hal _]. apply covers_spec in Ecl.
        apply (has_base_false _ _ E2). rewrite (aligned_cover_unique _ _ _ E1 Hal Ec Ecl).
        apply in_map. exact Hl.
      + reflexivity.
    - (* store *)
      unfold upd. destruct (find_line (lines s) a) as [l|] eqn:E; injection H as <-.
      + destruct (find_line_some _ _ _ E) as [Hin Hc].
        rewrite Forall_forall in Hf. destruct (Hf l Hin) as [Hal Hlen].
        destruct (covers l x) eqn:Ecx.
        * (* x in the stored line *)
          rewrite (view_of_member _ (mk_line (base l) (set_nth (data l) (Z.to_nat (a - base l)) v)) x HI').
          2:{ cbn [lines]. apply store_in_first. exact E. }
          2:{ exact Ecx. }
          cbn [base data]. apply covers_spec in Hc. apply covers_spec in Ecx.
          rewrite nth_set_nth by lia.
          destruct (Z.eqb_spec x a).
          -- subst. rewrite Nat.eqb_refl. reflexivity.
          -- replace (Nat.eqb (Z.to_nat (x - base l)) (Z.to_nat (a - base l))) with false
               by (symmetry; apply Nat.eqb_neq; lia).
             symmetry. apply (view_of_member s l x HIs Hin). apply covers_spec; exact Ecx.
        * (* x elsewhere *)
          assert (x <> a).
          { intros ->. rewrite Hc in Ecx. discriminate. }
          replace (x =? a) with false by (symmetry; apply Z.eqb_neq; assumption).
          destruct (find_line (lines s) x) as [lx|] eqn:Ex.
          -- destruct (find_line_some _ _ _ Ex) as [Hinx Hcx].
             assert (Hca : covers lx a = false).
             { destruct (covers lx a) eqn:Eca; [|reflexivity]. exfalso.
               assert (lx = l).
               { eapply NoDup_base_eq; try eassumption.
                 eapply (inv_cover_unique s lx l a); try eassumption. }
               subst. rewrite Hcx in Ecx. discriminate. }
             pose proof (store_in_other _ a v lx Hinx Hca) as Hin2.
             rewrite (view_of_member _ lx x HI' Hin2 Hcx).
             symmetry. apply (view_of_member s lx x HIs Hinx Hcx).
          -- rewrite (view_of_absent s x) by (apply find_line_none; exact Ex).
             apply (view_of_absent (mk_state (store_in (lines s) a v) (mem s)) x). cbn [lines]. intros l' Hl'.
             destruct (in_store_in _ _ _ _ Hl') as (l0 & Hl0 & Hb & _).
             pose proof (find_line_none _ _ Ex l0 Hl0) as Hn. unfold covers in *. rewrite Hb. exact Hn.
      + unfold view. cbn [lines mem]. destruct (find_line (lines s) x) as [lx|] eqn:Ex.
        * destruct (find_line_some _ _ _ Ex) as [Hinx Hcx].
          assert (x <> a).
          { intros ->. rewrite (find_line_none _ _ E lx Hinx) in Hcx. discriminate. }
          replace (x =? a) with false by (symmetry; apply Z.eqb_neq; assumption). reflexivity.
        * reflexivity.
    - (* evict: the victim's bytes are in memory afterwards *)
      destruct (find (fun l => base l =? b) (lines s)) as [l|] eqn:Ef; [|discriminate]. injection H as <-.
      apply find_some in Ef as [Hin Hb]. apply Z.eqb_eq in Hb.
      rewrite Forall_forall in Hf. destruct (Hf l Hin) as [Hal Hlen].
      destruct (covers l x) eqn:Ecx.
      + rewrite (view_of_member s l x HIs Hin Ecx).
        rewrite view_of_absent.
        * cbn [mem]. rewrite write_back_spec by exact Hlen. rewrite Ecx. reflexivity.
        * cbn [lines]. intros l' Hl'. destruct (covers l' x) eqn:Ec'; [|reflexivity]. exfalso.
          pose proof (remove_base_sub _ _ _ Hl') as Hl'in.
          pose proof (remove_base_not_in _ _ _ Hnd Hl') as Hne.
          apply Hne. rewrite <- Hb. symmetry.
          eapply (inv_cover_unique s l l' x); try eassumption.
      + destruct (find_line (lines s) x) as [lx|] eqn:Ex.
        * destruct (find_line_some _ _ _ Ex) as [Hinx Hcx].
          assert (Hne : base lx <> b).
          { intros E. assert (lx = l) by (eapply NoDup_base_eq; try eassumption; congruence).
            subst. rewrite Hcx in Ecx. discriminate. }
          pose proof (remove_base_keeps _ _ _ Hinx Hne) as Hk.
          rewrite (view_of_member _ lx x HI' Hk Hcx).
          symmetry. apply (view_of_member s lx x HIs Hinx Hcx).
        * rewrite (view_of_absent s x) by (apply find_line_none; exact Ex).
          rewrite view_of_absent.
          -- cbn [mem]. rewrite write_back_spec by exact Hlen. rewrite Ecx. reflexivity.
          -- cbn [lines]. intros l' Hl'. apply (find_line_none _ _ Ex). eapply remove_base_sub; exact Hl'.
    - injection H as <-. reflexivity.
    - (* flush *)
      injection H as <-. unfold view. cbn [lines mem].
      destruct (find_line (lines s) x) eqn:E; [reflexivity|].
      rewrite fold_write_back_spec by assumption. rewrite E. reflexivity.
  Qed.

  (* ---- the theorems ---- *)
  Theorem view_is_flat ops : forall s s', Inv s -> run s ops = Some s' ->
    Inv s' /\ forall x, view s' x = flat (view s) ops x.
  Proof.
    induction ops as [|o t IH]; intros s s' HI H; cbn [run] in H.
    - injection H as <-. split; [exact HI | reflexivity].
    - destruct (step s o) as [s1|] eqn:E; [|discriminate].
      pose proof (step_inv _ _ _ HI E) as HI1. pose proof (step_view _ _ _ HI E) as Hv.
      destruct (IH s1 s' HI1 H) as [HI' Hflat]. split; [exact HI'|]. intros x. rewrite Hflat.
      assert (G : forall m1 m2, (forall y, m1 y = m2 y) -> forall y, flat m1 t y = flat m2 t y).
      { clear. induction t as [|o' t' IHt]; intros m1 m2 Hm y; cbn [flat]; [apply Hm|].
        destruct o'; try (apply IHt; exact Hm). apply IHt. intros z. unfold upd. rewrite Hm. reflexivity. }
      destruct o; cbn [flat]; apply G; intros y; rewrite Hv; reflexivity.
  Qed.

  (* after a flush main memory holds every store: nothing is left behind in the cache *)
  Theorem flush_complete ops : forall s s', Inv s -> run s (ops ++ [Flush]) = Some s' ->
    forall x, mem s' x = flat (view s) ops x.
  Proof.
    intros s s' HI H.
    assert (exists s1, run s ops = Some s1 /\ step s1 Flush = Some s') as (s1 & H1 & H2).
    { clear HI. revert s H. induction ops as [|o t IH]; intros s H; cbn [run app] in *.
      - destruct (step s Flush) eqn:E; [|discriminate]. injection H as <-. eauto.
      - destruct (step s o); [|discriminate]. destruct (IH _ H) as (s1 & A & B). eauto. }
    destruct (view_is_flat ops s s1 HI H1) as [[Hnd Hf] Hflat]. intros x. rewrite <- Hflat.
    cbn [step] in H2. injection H2 as <-. cbn [mem].
    rewrite fold_write_back_spec by assumption. unfold view. reflexivity.
  Qed.
End WB.

(* ------------------------------------------------------------------ *)
(* why the protocol's side conditions matter: the two ways the pinned tree's
   memory management units left it (DESIGN.md D19, D20), as kernel-checked
   witnesses with 4-byte lines *)

Definition fill_raw (s : state) (b : Z) : state :=
  mk_state (mk_line b (fetch 4 (mem s) b) :: lines s) (mem s).

(* D19: a line keyed by the first missing address instead of the aligned base
   overlaps its neighbour; after a recency reorder a load returns a stale byte *)
Example unaligned_fill_stale_read_refuted :
  let s0 := mk_state [] (fun _ => 0) in
  let s1 := fill_raw s0 1 in                 (* miss at address 1: line [1,5) *)
  let s2 := fill_raw s1 0 in                 (* miss at address 0: line [0,4) overlaps it *)
  exists s3, step 4 s2 (Store 2 9) = Some s3 /\      (* the store hits the first line found: [0,4) *)
    let s4 := mk_state (rev (lines s3)) (mem s3) in  (* a hit on address 4 moves [1,5) to the front *)
    view 4 s4 2 = 0 /\ flat (view 4 s0) [Store 2 9] 2 = 9.
Proof. eexists. split; [reflexivity|]. vm_compute. split; reflexivity. Qed.

(* D20: writing back the incoming line instead of the victim loses the victim's dirty byte *)
Example evict_incoming_loses_store_refuted :
  let s0 := mk_state [] (fun _ => 0) in
  exists s1 s2, step 4 s0 (Fill 0) = Some s1 /\ step 4 s1 (Store 1 7) = Some s2 /\
    (* capacity one line: line 4 comes in, the (incoming) line is "written back", line 0 is dropped *)
    let incoming := mk_line 4 (fetch 4 (mem s2) 4) in
    let s3 := mk_state [incoming] (write_back (mem s2) incoming) in
    view 4 s3 1 = 0 /\ flat (view 4 s0) [Store 1 7] 1 = 7.
Proof. do 2 eexists. split; [reflexivity|]. split; [reflexivity|]. vm_compute. split; reflexivity. Qed.
