(* C06 about the faithful model of MVP-7.0, part 1: the STRUCTURAL part of the invariant
   (clause 4: no address covered by two L1 lines, aligned full lines; clause 5: lock counters; directory states in
   range) holds in EVERY state reachable by step7 - pipeline flushes included - because each operation of the
   cache controller, of the directory and of comp.LRUCache preserves it locally.
   Main results: step7_struct, reach7_struct. *)
From Coq Require Import ZArith List Bool Lia.
From Maj Require Import Base.Outcome Base.GoInt Base.GoTypes Isa.Spec Isa.Seq.
From Maj Require Import Gen.Latency Gen.RiscTables Gen.Opcodes Comp.Cache Comp.Rat Comp.RatProofs Mvp.Mvp12 Mvp.Mvp3 Mvp.Mvp5 Mvp.Mvp60 Mvp.Mvp63 Mvp.Mvp63Proofs Mvp.Mvp70 Mvp.Mvp70Proofs.
From Maj Require Import Msi.M70Inv Msi.M70Frame.
Import ListNotations.
Open Scope Z_scope.

(* ------------------------------------------------------------------ *)
(* lists                                                                *)
(* ------------------------------------------------------------------ *)

Lemma cnt_nil {A} (f : A -> bool) : cnt f [] = 0.
Proof. reflexivity. Qed.
Lemma cnt_cons {A} (f : A -> bool) x l : cnt f (x :: l) = (if f x then 1 else 0) + cnt f l.
Proof. unfold cnt. cbn [filter]. destruct (f x); cbn [length]; lia. Qed.
Lemma cnt_app {A} (f : A -> bool) l1 l2 : cnt f (l1 ++ l2) = cnt f l1 + cnt f l2.
Proof. unfold cnt. rewrite filter_app, app_length. lia. Qed.
Lemma cnt_nonneg {A} (f : A -> bool) l : 0 <= cnt f l.
Proof. unfold cnt. lia. Qed.
Lemma cnt_zero {A} (f : A -> bool) l : (forall x, In x l -> f x = false) -> cnt f l = 0.
Proof.
  induction l as [|x t IH]; intros H; [reflexivity|]. rewrite cnt_cons, IH.
  - rewrite (H x (or_introl eq_refl)). reflexivity.
  - intros y Hy. apply H. right. exact Hy.
Qed.
Lemma cnt_zero_inv {A} (f : A -> bool) l : cnt f l = 0 -> forall x, In x l -> f x = false.
Proof.
  induction l as [|x t IH]; intros H y Hy; [destruct Hy|]. rewrite cnt_cons in H.
  pose proof (cnt_nonneg f t). destruct Hy as [->|Hy].
  - destruct (f y); [lia|reflexivity].
  - apply IH; [|exact Hy]. destruct (f x); lia.
Qed.
Lemma cnt_le {A} (f g : A -> bool) l : (forall x, In x l -> f x = true -> g x = true) -> cnt f l <= cnt g l.
Proof.
  induction l as [|x t IH]; intros H; [reflexivity|]. rewrite !cnt_cons.
  assert (cnt f t <= cnt g t) by (apply IH; intros y Hy; apply H; right; exact Hy).
  destruct (f x) eqn:E; [rewrite (H x (or_introl eq_refl) E); lia|]. destruct (g x); lia.
Qed.

(* ------------------------------------------------------------------ *)
(* comp.LRUCache                                                        *)
(* ------------------------------------------------------------------ *)

Lemma line_get_covers : forall l a r, line_get l a = Ok r -> (r <> None <-> covers_b l a = true).
Proof.
  intros l a r H. unfold line_get, covers_b in *. destruct ((lo l <=? a) && (a <? hi l)).
  - apply bind_ok in H as (v & _ & H). inversion H. split; [reflexivity|discriminate].
  - inversion H. split; [congruence|discriminate].
Qed.

Lemma find_line_some : forall ls a v l rest, find_line ls a = Ok (Some (v, l, rest)) ->
  exists pre post, ls = pre ++ l :: post /\ rest = pre ++ post /\ covers_b l a = true /\
                   (forall l', In l' pre -> covers_b l' a = false).
Proof.
  induction ls as [|l0 t IH]; intros a v l rest H; cbn [find_line] in H; [discriminate|].
  apply bind_ok in H as (r & E & H). pose proof (line_get_covers _ _ _ E) as C. destruct r as [v0|].
  - inversion H; subst. exists [], rest. repeat split; [|intros l' []]. apply C. discriminate.
  - apply bind_ok in H as (r' & E' & H). destruct r' as [[[v1 l1] t1]|]; [|discriminate].
    inversion H; subst. destruct (IH _ _ _ _ E') as (pre & post & -> & -> & Hc & Hp).
    exists (l0 :: pre), post. repeat split; [exact Hc|].
    intros l' [E0|Hl]; [subst l'|apply Hp; exact Hl].
    destruct (covers_b l0 a); [|reflexivity]. exfalso. apply (proj2 C eq_refl). reflexivity.
Qed.

Lemma find_line_none : forall ls a, find_line ls a = Ok None -> forall l, In l ls -> covers_b l a = false.
Proof.
  induction ls as [|l0 t IH]; intros a H l Hl; [destruct Hl|]. cbn [find_line] in H.
  apply bind_ok in H as (r & E & H). pose proof (line_get_covers _ _ _ E) as C. destruct r as [v0|]; [discriminate|].
  apply bind_ok in H as (r' & E' & H). destruct r' as [[[v1 l1] t1]|]; [discriminate|].
  destruct Hl as [<-|Hl]; [|eapply IH; eauto].
  destruct (covers_b l0 a); [|reflexivity]. exfalso. apply (proj2 C eq_refl). reflexivity.
Qed.

(* the views agree with find_line *)
Lemma l1_line_app : forall pre l post a, (forall l', In l' pre -> covers_b l' a = false) -> covers_b l a = true ->
  find (fun l => covers_b l a) (pre ++ l :: post) = Some l.
Proof.
  induction pre as [|p t IH]; intros l post a Hp Hc; cbn [app find].
  - rewrite Hc. reflexivity.
  - rewrite (Hp p (or_introl eq_refl)). apply IH; [|exact Hc]. intros l' Hl. apply Hp. right. exact Hl.
Qed.
Lemma find_none_all {A} (f : A -> bool) l : (forall x, In x l -> f x = false) -> find f l = None.
Proof.
  induction l as [|x t IH]; intros H; [reflexivity|]. cbn [find]. rewrite (H x (or_introl eq_refl)).
  apply IH. intros y Hy. apply H. right. exact Hy.
Qed.

Lemma find_line_some_view : forall c a v l rest, find_line (lines c) a = Ok (Some (v, l, rest)) -> l1_line c a = Some l.
Proof.
  intros c a v l rest H. destruct (find_line_some _ _ _ _ _ H) as (pre & post & E & _ & Hc & Hp).
  unfold l1_line. rewrite E. apply l1_line_app; assumption.
Qed.
Lemma find_line_none_view : forall c a, find_line (lines c) a = Ok None -> l1_line c a = None.
Proof. intros c a H. unfold l1_line. apply find_none_all. apply find_line_none. exact H. Qed.

(* ---- well-formedness ---- *)

Definition lines_wf (ls : list line) : Prop :=
  (forall x, cnt (fun l => covers_b l x) ls <= 1) /\ (forall l, In l ls -> line_wf l).

Lemma l1_wf_lines : forall c, l1_wf c <-> llen c = l1LineSize /\ lines_wf (lines c).
Proof. intros c. unfold l1_wf, lines_wf. tauto. Qed.

Lemma lines_wf_move : forall pre l post, lines_wf (pre ++ l :: post) -> lines_wf (l :: pre ++ post).
Proof.
  intros pre l post [H1 H2]. split.
  - intros x. specialize (H1 x). rewrite cnt_app, cnt_cons in H1. rewrite cnt_cons, cnt_app. lia.
  - intros l' [<-|Hl]; apply H2; apply in_or_app; [right; left; reflexivity|].
    apply in_app_or in Hl as [Hl|Hl]; [left; exact Hl|right; right; exact Hl].
Qed.
Lemma lines_wf_drop : forall pre l post, lines_wf (pre ++ l :: post) -> lines_wf (pre ++ post).
Proof.
  intros pre l post H. apply lines_wf_move in H. destruct H as [H1 H2]. split.
  - intros x. specialize (H1 x). rewrite cnt_cons in H1. destruct (covers_b l x); lia.
  - intros l' Hl. apply H2. right. exact Hl.
Qed.

Lemma get_wf : forall c a c' r, get c a = Ok (c', r) -> l1_wf c -> l1_wf c'.
Proof.
  intros c a c' r H W. unfold get in H. apply bind_ok in H as (f & E & H).
  destruct f as [[[v l] rest]|]; inversion H; subst; [|exact W].
  destruct (find_line_some _ _ _ _ _ E) as (pre & post & E1 & -> & _).
  apply l1_wf_lines in W as [WL W]. apply l1_wf_lines. split; [exact WL|]. cbn [set_lines lines].
  apply lines_wf_move. rewrite <- E1. exact W.
Qed.

Lemma get_all_wf : forall addrs c acc c' r, get_all c addrs acc = Ok (c', r) -> l1_wf c -> l1_wf c'.
Proof.
  induction addrs as [|a t IH]; intros c acc c' r H W; cbn [get_all] in H.
  - inversion H; subst; exact W.
  - apply bind_ok in H as ([c1 [v|]] & E & H).
    + eapply IH; [exact H|]. eapply get_wf; eauto.
    + inversion H; subst. eapply get_wf; eauto.
Qed.

Lemma evict_wf : forall c a c' r, evict_cache_line c a = Ok (c', r) -> l1_wf c -> l1_wf c'.
Proof.
  intros c a c' r H W. unfold evict_cache_line in H. apply bind_ok in H as (f & E & H).
  destruct f as [[[v l] rest]|]; inversion H; subst; [|exact W].
  destruct (find_line_some _ _ _ _ _ E) as (pre & post & E1 & -> & _).
  apply l1_wf_lines in W as [WL W]. apply l1_wf_lines. split; [exact WL|]. cbn [set_lines lines].
  eapply lines_wf_drop. rewrite <- E1. exact W.
Qed.

(* Write changes the data of one line, not the bounds *)
Lemma upd_length : forall d n v, length (upd d n v) = length d.
Proof. induction d as [|x t IH]; intros [|n] v; cbn [upd length]; try reflexivity. rewrite IH. reflexivity. Qed.
Lemma idx_set_len : forall d i v d', idx_set d i v = Ok d' -> zlen d' = zlen d.
Proof.
  intros d i v d' H. unfold idx_set in H. destruct ((0 <=? i) && (i <? zlen d)); inversion H.
  unfold zlen. rewrite upd_length. reflexivity.
Qed.
Lemma set_bytes_len : forall vs d lo_ addr i d', set_bytes d lo_ addr i vs = Ok d' -> zlen d' = zlen d.
Proof.
  induction vs as [|v t IH]; intros d lo_ addr i d' H; cbn [set_bytes] in H.
  - inversion H; reflexivity.
  - apply bind_ok in H as (d1 & E & H). apply IH in H. apply idx_set_len in E. lia.
Qed.

Definition same_bounds (l l' : line) : Prop := lo l' = lo l /\ hi l' = hi l /\ zlen (data l') = zlen (data l).

Lemma write_lines_bounds : forall ls a vs ls', write_lines ls a vs = Ok ls' -> Forall2 same_bounds ls ls'.
Proof.
  induction ls as [|l t IH]; intros a vs ls' H; cbn [write_lines] in H; [discriminate|].
  apply bind_ok in H as (r & _ & H). destruct r.
  - apply bind_ok in H as (d & E & H). inversion H; subst. constructor.
    + repeat split. cbn [data]. eapply set_bytes_len; eauto.
    + clear. induction t; constructor; [repeat split|assumption].
  - apply bind_ok in H as (t' & E & H). inversion H; subst. constructor; [repeat split|eapply IH; eauto].
Qed.

Lemma same_bounds_wf : forall ls ls', Forall2 same_bounds ls ls' -> lines_wf ls -> lines_wf ls'.
Proof.
  intros ls ls' F [H1 H2]. split.
  - intros x. specialize (H1 x). assert (cnt (fun l => covers_b l x) ls' = cnt (fun l => covers_b l x) ls); [|lia].
    clear H1 H2. induction F as [|l l' t t' [E1 [E2 _]] F IH]; [reflexivity|]. rewrite !cnt_cons, IH.
    unfold covers_b. rewrite E1, E2. reflexivity.
  - clear H1. induction F as [|l l' t t' [E1 [E2 E3]] F IH]; intros k Hk; [destruct Hk|].
    destruct Hk as [<-|Hk]; [|apply IH; [intros; apply H2; right; assumption|exact Hk]].
    destruct (H2 l (or_introl eq_refl)) as (A & B & C & D). unfold line_wf. rewrite E1, E2, E3. tauto.
Qed.

Lemma write_wf : forall c a vs c', write c a vs = Ok c' -> l1_wf c -> l1_wf c'.
Proof.
  intros c a vs c' H W. unfold write in H. apply bind_ok in H as (ls & E & H). inversion H; subst.
  apply l1_wf_lines in W as [WL W]. apply l1_wf_lines. split; [exact WL|]. cbn [set_lines lines].
  eapply same_bounds_wf; [eapply write_lines_bounds; eauto|exact W].
Qed.

(* a well-formed line covers only addresses of its own 64-byte block *)
Lemma line_wf_covers : forall l x, line_wf l -> covers_b l x = true -> lo l <= x < lo l + 64 /\ hi l = lo l + 64.
Proof.
  intros l x (A & B & C & D) H. unfold covers_b in H. apply andb_true_iff in H as [H1 H2].
  apply Z.leb_le in H1. apply Z.ltb_lt in H2. unfold l1LineSize in *.
  unfold addS, wrapS in D. change (2 ^ (32 - 1)) with 2147483648 in D. change (2 ^ 32) with 4294967296 in D.
  destruct (Z_lt_ge_dec (lo l + 64) 2147483648) as [Hs|Hs].
  - rewrite Z.mod_small in D by lia. lia.
  - exfalso. assert (hi l < lo l); [|lia]. rewrite D.
    assert ((lo l + 64 + 2147483648) mod 4294967296 <= lo l + 64 + 2147483648 - 4294967296); [|lia].
    pose proof (Z.mod_pos_bound (lo l + 64 + 2147483648) 4294967296 ltac:(lia)).
    destruct (Z_lt_ge_dec (lo l + 64 + 2147483648) 4294967296); [|].
    + lia.
    + rewrite <- (Z.mod_add _ (-1)) by lia.
      destruct (Z_lt_ge_dec (lo l + 64 + 2147483648 + -1 * 4294967296) 4294967296).
      * rewrite Z.mod_small by lia. lia.
      * pose proof (Z.mod_pos_bound (lo l + 64 + 2147483648 + -1 * 4294967296) 4294967296 ltac:(lia)). lia.
Qed.

Lemma aligned_block : forall a b x, a mod 64 = 0 -> b mod 64 = 0 -> a <= x < a + 64 -> b <= x < b + 64 -> a = b.
Proof. intros a b x Ha Hb H1 H2. lia. Qed.

(* PushLineWithEvictionWarning of an aligned full line that nothing covers *)
Lemma push_warn_wf : forall c a d c' v, push_line_warn c a d = Ok (c', v) -> l1_wf c ->
  0 <= a -> a mod l1LineSize = 0 -> zlen d = l1LineSize -> l1_line c a = None -> l1_wf c'.
Proof.
  intros c a d c' v H W A0 A1 D N. apply l1_wf_lines in W as [WL [W1 W2]].
  assert (E : c' = set_lines c (new_line c a d :: lines c)).
  { unfold push_line_warn in H. destruct (_ >? _); inversion H; reflexivity. }
  subst c'. apply l1_wf_lines. split; [exact WL|]. cbn [set_lines lines].
  assert (NW : line_wf (new_line c a d)).
  { unfold line_wf, new_line. cbn [lo hi data]. rewrite WL. repeat split; try assumption. }
  split.
  - intros x. rewrite cnt_cons. destruct (covers_b (new_line c a d) x) eqn:Cn; [|apply W1].
    rewrite cnt_zero; [lia|]. intros l Hl. destruct (covers_b l x) eqn:Cl; [exfalso|reflexivity].
    destruct (line_wf_covers _ _ NW Cn) as [R1 R1']. destruct (line_wf_covers _ _ (W2 l Hl) Cl) as [R2 R2'].
    destruct (W2 l Hl) as (_ & B & _). unfold l1LineSize in *. cbn [new_line lo] in R1.
    assert (lo l = a) by (eapply aligned_block; eauto).
    unfold l1_line in N. apply (find_none _ _ N l) in Hl. rename Hl into N'. clear N. rename N' into N.
    unfold covers_b in N. rewrite R2' in N.
    apply andb_false_iff in N as [N|N]; [apply Z.leb_gt in N|apply Z.ltb_ge in N]; lia.
  - intros l [<-|Hl]; [exact NW|apply W2; exact Hl].
Qed.

(* ------------------------------------------------------------------ *)
(* msi.go: views after each primitive                                   *)
(* ------------------------------------------------------------------ *)

Lemma sem_get_sem_set : forall i a s b, sem_get (sem_set i a s) b = if b =? a then s else sem_get i b.
Proof. intros. unfold sem_get, sem_set. cbn [i_sems]. rewrite aget_aset. destruct (b =? a); reflexivity. Qed.
Lemma state_get_sem_set : forall i a s id b, state_get (sem_set i a s) id b = state_get i id b.
Proof. reflexivity. Qed.
Lemma sem_get_state_set : forall i id a s b, sem_get (state_set i id a s) b = sem_get i b.
Proof. reflexivity. Qed.

Lemma states_set_find : forall l id a s id' a',
  find (fun e => (fst (fst e) =? id') && (snd (fst e) =? a')) (states_set l id a s) =
  if (id' =? id) && (a' =? a) then Some (id, a, s) else find (fun e => (fst (fst e) =? id') && (snd (fst e) =? a')) l.
Proof.
  induction l as [|[[i0 a0] s0] t IH]; intros id a s id' a'; cbn [states_set find fst snd].
  - rewrite (Z.eqb_sym id id'), (Z.eqb_sym a a'). destruct ((id' =? id) && (a' =? a)); reflexivity.
  - destruct ((i0 =? id) && (a0 =? a)) eqn:E; cbn [find fst snd].
    + apply andb_true_iff in E as [E1 E2]. apply Z.eqb_eq in E1, E2. subst.
      rewrite (Z.eqb_sym id id'), (Z.eqb_sym a a'). destruct ((id' =? id) && (a' =? a)); reflexivity.
    + rewrite IH. destruct ((i0 =? id') && (a0 =? a')) eqn:E'; [|reflexivity].
      apply andb_true_iff in E' as [E1 E2]. apply Z.eqb_eq in E1, E2. subst.
      rewrite E. reflexivity.
Qed.

Lemma state_get_state_set : forall i id a s id' a',
  state_get (state_set i id a s) id' a' = if (id' =? id) && (a' =? a) then s else state_get i id' a'.
Proof.
  intros. unfold state_get, state_set. cbn [i_states]. rewrite states_set_find.
  destruct ((id' =? id) && (a' =? a)); reflexivity.
Qed.

(* same semaphores and states *)
Definition same_ss (i i' : msi7) : Prop := i_sems i' = i_sems i /\ i_states i' = i_states i.
Lemma same_ss_refl : forall i, same_ss i i. Proof. split; reflexivity. Qed.
Lemma same_ss_trans : forall i j k, same_ss i j -> same_ss j k -> same_ss i k.
Proof. intros i j k [A B] [C D]. split; congruence. Qed.
Lemma same_ss_sem : forall i i' a, same_ss i i' -> sem_get i' a = sem_get i a.
Proof. intros i i' a [A _]. unfold sem_get. rewrite A. reflexivity. Qed.
Lemma same_ss_state : forall i i' id a, same_ss i i' -> state_get i' id a = state_get i id a.
Proof. intros i i' id a [_ B]. unfold state_get. rewrite B. reflexivity. Qed.

Lemma msi_send_ss : forall i id a rq, same_ss i (fst (msi_send i id a rq)).
Proof. intros. unfold msi_send. destruct (find _ _); split; reflexivity. Qed.

Lemma msi_read_request_ss : forall i id a, same_ss i (fst (msi_read_request i id a)).
Proof.
  intros i id a. unfold msi_read_request. generalize (msi_others i id a). intros l.
  assert (G : forall acc, same_ss i (fst acc) -> same_ss i (fst (fold_left (fun acc e => if snd e =? stModified
            then let '(i1, c) := msi_send (fst acc) (fst e) a rqWriteBack in (i1, snd acc ++ [c]) else acc) l acc))).
  { induction l as [|e t IH]; intros acc H; cbn [fold_left]; [exact H|]. apply IH.
    destruct (snd e =? stModified); [|exact H].
    pose proof (msi_send_ss (fst acc) (fst e) a rqWriteBack) as S. destruct (msi_send _ _ _ _) as [i1 c].
    cbn [fst] in *. eapply same_ss_trans; eauto. }
  apply G. apply same_ss_refl.
Qed.

Lemma msi_invalidate_ss : forall i id a, same_ss i (fst (msi_invalidate i id a)).
Proof.
  intros i id a. unfold msi_invalidate. generalize (msi_others i id a). intros l.
  assert (G : forall acc, same_ss i (fst acc) -> same_ss i (fst (fold_left (fun acc e => if snd e =? stModified
            then let '(i1, c) := msi_send (fst acc) (fst e) a rqWriteBack in (i1, snd acc ++ [c])
            else if snd e =? stShared then let '(i1, c) := msi_send (fst acc) (fst e) a rqEvict in (i1, snd acc ++ [c])
            else acc) l acc))).
  { induction l as [|e t IH]; intros acc H; cbn [fold_left]; [exact H|]. apply IH.
    destruct (snd e =? stModified).
    - pose proof (msi_send_ss (fst acc) (fst e) a rqWriteBack) as S. destruct (msi_send _ _ _ _) as [i1 c].
      cbn [fst] in *. eapply same_ss_trans; eauto.
    - destruct (snd e =? stShared); [|exact H].
      pose proof (msi_send_ss (fst acc) (fst e) a rqEvict) as S. destruct (msi_send _ _ _ _) as [i1 c].
      cbn [fst] in *. eapply same_ss_trans; eauto. }
  apply G. apply same_ss_refl.
Qed.

Lemma msi_evict_extra_ss : forall i id a, same_ss i (fst (msi_evict_extra i id a)).
Proof.
  intros. unfold msi_evict_extra. destruct (_ =? stShared).
  - pose proof (msi_send_ss i id a rqEvict) as S. destruct (msi_send _ _ _ _). exact S.
  - destruct (_ =? stModified); [|apply same_ss_refl].
    pose proof (msi_send_ss i id a rqWriteBack) as S. destruct (msi_send _ _ _ _). exact S.
Qed.

Lemma cmd_done_ss : forall i id a rq, same_ss (state_set i id a stInvalid) (cmd_done i id a rq).
Proof. intros. split; reflexivity. Qed.

(* ------------------------------------------------------------------ *)
(* the structural invariant of the directory                            *)
(* ------------------------------------------------------------------ *)

Definition sem_okP (s : Z * Z) : Prop := 0 <= fst s /\ 0 <= snd s /\ snd s <= 1 /\ (snd s = 1 -> fst s = 0).
Definition SI (i : msi7) : Prop := clause5_70 i /\ states_ok i.

Lemma SI_ss : forall i i', same_ss i i' -> SI i -> SI i'.
Proof.
  intros i i' S [A B]. split.
  - intros a. rewrite (same_ss_sem _ _ a S). apply A.
  - intros id a. rewrite (same_ss_state _ _ id a S). apply B.
Qed.

Lemma SI_sem_set : forall i a s, SI i -> sem_okP s -> SI (sem_set i a s).
Proof.
  intros i a s [A B] H. split.
  - intros b. rewrite sem_get_sem_set. destruct (b =? a); [exact H|apply A].
  - intros id b. rewrite state_get_sem_set. apply B.
Qed.
Lemma SI_state_set : forall i id a s, SI i -> 0 <= s <= 2 -> SI (state_set i id a s).
Proof.
  intros i id a s [A B] H. split.
  - intros b. rewrite sem_get_state_set. apply A.
  - intros id' b. rewrite state_get_state_set. destruct (_ && _); [exact H|apply B].
Qed.

Lemma sem_rlock_SI : forall i a, SI i -> SI (fst (sem_rlock i a)).
Proof.
  intros i a H. unfold sem_rlock. pose proof (proj1 H a) as S. destruct (sem_get i a) as [r w] eqn:E.
  cbn [fst snd] in S. destruct (0 <? w) eqn:W; cbn [fst]; [exact H|]. apply Z.ltb_ge in W.
  apply SI_sem_set; [exact H|]. unfold sem_okP. cbn [fst snd]. lia.
Qed.
Lemma sem_lock_SI : forall i a, SI i -> SI (fst (sem_lock i a)).
Proof.
  intros i a H. unfold sem_lock. pose proof (proj1 H a) as S. destruct (sem_get i a) as [r w] eqn:E.
  cbn [fst snd] in S. destruct ((0 <? w) || (0 <? r)) eqn:W; cbn [fst]; [exact H|].
  apply orb_false_iff in W as [W1 W2]. apply Z.ltb_ge in W1, W2.
  apply SI_sem_set; [exact H|]. unfold sem_okP. cbn [fst snd]. lia.
Qed.
Lemma sem_runlock_SI : forall i a i', sem_runlock i a = Ok i' -> SI i -> SI i'.
Proof.
  intros i a i' E H. unfold sem_runlock in E. pose proof (proj1 H a) as S. destruct (sem_get i a) as [r w].
  cbn [fst snd] in S. destruct (r - 1 <? 0) eqn:W; [discriminate|]. inversion E; subst. apply Z.ltb_ge in W.
  apply SI_sem_set; [exact H|]. unfold sem_okP. cbn [fst snd]. lia.
Qed.
Lemma sem_unlock_SI : forall i a i', sem_unlock i a = Ok i' -> SI i -> SI i'.
Proof.
  intros i a i' E H. unfold sem_unlock in E. pose proof (proj1 H a) as S. destruct (sem_get i a) as [r w].
  cbn [fst snd] in S. destruct (w - 1 <? 0) eqn:W; [discriminate|]. inversion E; subst. apply Z.ltb_ge in W.
  apply SI_sem_set; [exact H|]. unfold sem_okP. cbn [fst snd]. lia.
Qed.

Lemma run_post_SI : forall i id p i', run_post i id p = Ok i' -> SI i -> SI i'.
Proof.
  intros i id p i' E H. destruct p; cbn [run_post] in E; try discriminate.
  - eapply sem_runlock_SI; [exact E|]. apply SI_state_set; [exact H|]. unfold stShared. lia.
  - eapply sem_unlock_SI; [exact E|]. apply SI_state_set; [exact H|]. unfold stModified. lia.
  - eapply sem_runlock_SI; eauto.
  - eapply sem_unlock_SI; eauto.
Qed.

Lemma msi_rlock_SI : forall i id a i' r, msi_rlock i id a = Ok (i', r) -> SI i -> SI i'.
Proof.
  intros i id a i' r E H. unfold msi_rlock in E.
  destruct (_ =? stInvalid).
  - pose proof (sem_rlock_SI i a H) as S. destruct (sem_rlock i a) as [i1 ok]. cbn [fst] in S.
    destruct ok; cbn [negb] in E; [|inversion E; subst; exact S].
    pose proof (msi_read_request_ss i1 id a) as R. destruct (msi_read_request i1 id a) as [i2 ps]. cbn [fst] in R.
    inversion E; subst. eapply SI_ss; eauto.
  - destruct (_ =? stModified).
    + pose proof (sem_lock_SI i a H) as S. destruct (sem_lock i a) as [i1 ok]. cbn [fst] in S.
      destruct ok; cbn [negb] in E; inversion E; subst; exact S.
    + destruct (_ =? stShared); [|discriminate].
      pose proof (sem_rlock_SI i a H) as S. destruct (sem_rlock i a) as [i1 ok]. cbn [fst] in S.
      destruct ok; cbn [negb] in E; inversion E; subst; exact S.
Qed.

Lemma msi_lock_SI : forall i id a i' r, msi_lock i id a = Ok (i', r) -> SI i -> SI i'.
Proof.
  intros i id a i' r E H. unfold msi_lock in E.
  pose proof (sem_lock_SI i a H) as S. destruct (sem_lock i a) as [i1 ok]. cbn [fst] in S.
  pose proof (msi_invalidate_ss i1 id a) as R. destruct (msi_invalidate i1 id a) as [i2 ps]. cbn [fst] in R.
  destruct (_ =? stInvalid).
  - destruct ok; cbn [negb] in E; inversion E; subst; [eapply SI_ss; eauto|exact S].
  - destruct (_ =? stModified).
    + destruct ok; cbn [negb] in E; inversion E; subst; exact S.
    + destruct (_ =? stShared); [|discriminate].
      destruct ok; cbn [negb] in E; inversion E; subst; [eapply SI_ss; eauto|exact S].
Qed.

Lemma msi_evict_extra_SI : forall i id a, SI i -> SI (fst (msi_evict_extra i id a)).
Proof. intros. eapply SI_ss; [apply msi_evict_extra_ss|assumption]. Qed.

Lemma cmd_done_SI : forall i id a rq, SI i -> SI (cmd_done i id a rq).
Proof.
  intros. eapply SI_ss; [apply cmd_done_ss|]. apply SI_state_set; [assumption|]. unfold stInvalid. lia.
Qed.

(* ------------------------------------------------------------------ *)
(* cc.go: the structural invariant of a controller                      *)
(* ------------------------------------------------------------------ *)

Definition fetch_ok (la : Z) (d : list Z) : Prop := 0 <= la /\ la mod l1LineSize = 0 /\ zlen d = l1LineSize.
Definition rd_ok (r : rd_co) : Prop := match r with RFetch _ la d _ => fetch_ok la d | _ => True end.
Definition wr_ok (r : wr_co) : Prop := match r with WFetch _ la d _ => fetch_ok la d | _ => True end.
Definition CS (c : cc7) : Prop := l1_wf (c_l1d c) /\ rd_ok (c_rd c) /\ wr_ok (c_wr c).

Lemma aligned_mod : forall a, (subS 32 a (remS 32 a l1LineSize)) mod l1LineSize = 0.
Proof.
  intros a. unfold subS, remS, wrapS, l1LineSize. pose proof (Z.quot_rem' a 64) as Q.
  replace (a - Z.rem a 64) with (64 * (a ÷ 64)) by lia. generalize (a ÷ 64). intros q.
  change (2 ^ (32 - 1)) with 2147483648. change (2 ^ 32) with 4294967296. lia.
Qed.

Lemma fetch_cache_line_ok : forall mem a0 ln, fetch_cache_line mem a0 = Ok ln ->
  fetch_ok (subS 32 a0 (remS 32 a0 l1LineSize)) ln /\ ln = mem_line mem (subS 32 a0 (remS 32 a0 l1LineSize)).
Proof.
  intros mem a0 ln H. unfold fetch_cache_line in H. destruct (_ <? 0) eqn:E; [discriminate|]. injection H as H.
  rewrite <- H. clear H.
  apply Z.ltb_ge in E. split; [|reflexivity]. split; [exact E|]. split; [apply aligned_mod|].
  reflexivity.
Qed.

Lemma push_line_to_l1_wf : forall c la d c' v, push_line_to_l1 c la d = Ok (c', v) -> l1_wf c -> fetch_ok la d -> l1_wf c'.
Proof.
  intros c la d c' v H W (A & B & C). unfold push_line_to_l1 in H. apply bind_ok in H as ([c1 r] & E & H).
  destruct r; [inversion H; subst; eapply get_wf; eauto|].
  assert (c1 = c /\ l1_line c la = None) as [-> N].
  { unfold get in E. apply bind_ok in E as (f & E1 & E). destruct f as [[[v0 l0] r0]|]; [discriminate|].
    inversion E; subst. split; [reflexivity|apply find_line_none_view; exact E1]. }
  eapply push_warn_wf; eauto.
Qed.

Ltac inv H := inversion H; subst; clear H.
Ltac csplit := unfold CS; cbn [set_rd set_wr set_l1d set_post set_rsems set_wsems set_snoop c_l1d c_rd c_wr rd_ok wr_ok];
  (split; [|split]); try assumption; try exact I.

Lemma rd_l1_S : forall i id c addrs cyc data i' c' r, rd_l1 i id c addrs cyc data = Ok (i', c', r) ->
  SI i -> CS c -> SI i' /\ CS c'.
Proof.
  intros i id c addrs cyc data i' c' r H S (W & R & Wr). unfold rd_l1 in H. destruct (0 <? cyc).
  - inv H. split; [exact S|]. csplit.
  - apply bind_ok in H as (i1 & E1 & H). apply bind_ok in H as (a & E2 & H). inv H.
    split; [eapply run_post_SI; eauto|]. csplit.
Qed.

Lemma rd_from_l1_S : forall i id c addrs i' c' r, rd_from_l1 i id c addrs = Ok (i', c', r) ->
  SI i -> CS c -> SI i' /\ CS c'.
Proof.
  intros i id c addrs i' c' r H S (W & R & Wr). unfold rd_from_l1 in H. apply bind_ok in H as ([l1 g] & E & H).
  destruct g; [|discriminate]. eapply rd_l1_S; [exact H|exact S|].
  csplit. cbn [set_l1d c_l1d]. eapply get_all_wf; eauto.
Qed.

Lemma CS_set_post : forall c p, CS c -> CS (set_post c p). Proof. intros c p H; exact H. Qed.
Lemma CS_set_rsems : forall c p, CS c -> CS (set_rsems c p). Proof. intros c p H; exact H. Qed.
Lemma CS_set_wsems : forall c p, CS c -> CS (set_wsems c p). Proof. intros c p H; exact H. Qed.

Lemma rd_evict_S : forall i id c addrs pending post i' c' r, rd_evict i id c addrs pending post = Ok (i', c', r) ->
  SI i -> CS c -> SI i' /\ CS c'.
Proof.
  intros i id c addrs pending post i' c' r H S C. unfold rd_evict in H.
  destruct pending as [p|]; [destruct (negb (cmd_isdone i p))|].
  - inv H. split; [exact S|]. destruct C as (W & R & Wr). csplit.
  - eapply rd_from_l1_S; eauto.
  - eapply rd_from_l1_S; eauto.
Qed.

Lemma rd_fetch_S : forall i id c addrs cyc la d post i' c' r, rd_fetch i id c addrs cyc la d post = Ok (i', c', r) ->
  SI i -> CS c -> fetch_ok la d -> SI i' /\ CS c'.
Proof.
  intros i id c addrs cyc la d post i' c' r H S (W & R & Wr) F. unfold rd_fetch in H. destruct (0 <? cyc).
  - inv H. split; [exact S|]. csplit.
  - apply bind_ok in H as ([c1 v] & E & H). cbn [fst snd] in H.
    pose proof (push_line_to_l1_wf _ _ _ _ _ E W F) as W1. destruct v as [victim|].
    + pose proof (msi_evict_extra_SI i id (lo victim) S) as S1. destruct (msi_evict_extra i id (lo victim)) as [i1 pe].
      inv H. split; [exact S1|]. csplit.
    + eapply rd_from_l1_S; [exact H|exact S|]. csplit.
Qed.

Lemma rd_pend_S : forall mem i id c addrs ps fetch post i' c' r, rd_pend mem i id c addrs ps fetch post = Ok (i', c', r) ->
  SI i -> CS c -> SI i' /\ CS c'.
Proof.
  intros mem i id c addrs ps fetch post i' c' r H S C. unfold rd_pend in H. destruct (negb (all_done i ps)).
  - inv H. split; [exact S|]. destruct C as (W & R & Wr). csplit.
  - destruct (negb fetch); [eapply rd_from_l1_S; eauto|].
    apply bind_ok in H as (a & E1 & H). apply bind_ok in H as (g & E2 & H). destruct g; [discriminate|].
    destruct addrs as [|a0 t]; [discriminate|]. apply bind_ok in H as (ln & E3 & H).
    cbn [aligned7] in E1. inv E1. apply fetch_cache_line_ok in E3 as [F _]. eapply rd_fetch_S; eauto.
Qed.

Lemma rd_start_S : forall mem i id c addrs i' c' r, rd_start mem i id c addrs = Ok (i', c', r) ->
  SI i -> CS c -> SI i' /\ CS c'.
Proof.
  intros mem i id c addrs i' c' r H S C. unfold rd_start in H. apply bind_ok in H as (a & E1 & H).
  apply bind_ok in H as ([i1 lr] & E2 & H). cbn [fst snd] in H. pose proof (msi_rlock_SI _ _ _ _ _ E2 S) as S1.
  destruct lr; [inv H; split; assumption|]. eapply rd_pend_S; eauto.
Qed.

Lemma cc_read_cycle_S : forall mem i id c addrs i' c' r, cc_read_cycle mem i id c addrs = Ok (i', c', r) ->
  SI i -> CS c -> SI i' /\ CS c'.
Proof.
  intros mem i id c addrs i' c' r H S C. unfold cc_read_cycle in H. destruct (c_rd c) eqn:E.
  - eapply rd_start_S; eauto.
  - eapply rd_pend_S; eauto.
  - eapply rd_fetch_S; eauto. destruct C as (_ & R & _). rewrite E in R. exact R.
  - eapply rd_evict_S; eauto.
  - eapply rd_l1_S; eauto.
Qed.

(* ---- write ---- *)

Lemma wr_l1_S : forall i id c addrs data cyc i' c' r, wr_l1 i id c addrs data cyc = Ok (i', c', r) ->
  SI i -> CS c -> SI i' /\ CS c'.
Proof.
  intros i id c addrs data cyc i' c' r H S (W & R & Wr). unfold wr_l1 in H. destruct (0 <? cyc).
  - inv H. split; [exact S|]. csplit.
  - destruct addrs as [|a0 t]; [discriminate|].
    apply bind_ok in H as (l1 & E0 & H). apply bind_ok in H as (i1 & E1 & H). apply bind_ok in H as (a & E2 & H). inv H.
    split; [eapply run_post_SI; eauto|]. csplit. cbn. eapply write_wf; eauto.
Qed.

Lemma wr_evict_S : forall i id c addrs data pending cyc post i' c' r, wr_evict i id c addrs data pending cyc post = Ok (i', c', r) ->
  SI i -> CS c -> SI i' /\ CS c'.
Proof.
  intros i id c addrs data pending cyc post i' c' r H S C. unfold wr_evict in H.
  destruct (match pending with Some p => negb (cmd_isdone i p) | None => false end).
  - inv H. split; [exact S|]. destruct C as (W & R & Wr). csplit.
  - destruct (0 <? cyc).
    + inv H. split; [exact S|]. destruct C as (W & R & Wr). csplit.
    + eapply wr_l1_S; eauto.
Qed.

Lemma wr_fetch_S : forall i id c addrs data cyc la d post i' c' r, wr_fetch i id c addrs data cyc la d post = Ok (i', c', r) ->
  SI i -> CS c -> fetch_ok la d -> SI i' /\ CS c'.
Proof.
  intros i id c addrs data cyc la d post i' c' r H S (W & R & Wr) F. unfold wr_fetch in H. destruct (0 <? cyc).
  - inv H. split; [exact S|]. csplit.
  - apply bind_ok in H as ([c1 v] & E & H). cbn [fst snd] in H.
    pose proof (push_line_to_l1_wf _ _ _ _ _ E W F) as W1. destruct v as [victim|].
    + pose proof (msi_evict_extra_SI i id (lo victim) S) as S1. destruct (msi_evict_extra i id (lo victim)) as [i1 pe].
      inv H. split; [exact S1|]. csplit.
    + eapply wr_l1_S; [exact H|exact S|]. csplit.
Qed.

Lemma wr_pend_S : forall mem i id c addrs data ps fetch post i' c' r, wr_pend mem i id c addrs data ps fetch post = Ok (i', c', r) ->
  SI i -> CS c -> SI i' /\ CS c'.
Proof.
  intros mem i id c addrs data ps fetch post i' c' r H S C. unfold wr_pend in H. destruct (negb (all_done i ps)).
  - inv H. split; [exact S|]. destruct C as (W & R & Wr). csplit.
  - destruct fetch; [|eapply wr_l1_S; eauto].
    destruct addrs as [|a0 t]; [discriminate|]. apply bind_ok in H as (a & E1 & H). apply bind_ok in H as (ln & E3 & H).
    cbn [aligned7] in E1. inv E1. apply fetch_cache_line_ok in E3 as [F _]. eapply wr_fetch_S; eauto.
Qed.

Lemma wr_start_S : forall mem i id c addrs data i' c' r, wr_start mem i id c addrs data = Ok (i', c', r) ->
  SI i -> CS c -> SI i' /\ CS c'.
Proof.
  intros mem i id c addrs data i' c' r H S C. unfold wr_start in H. apply bind_ok in H as (a & E1 & H).
  apply bind_ok in H as ([i1 lr] & E2 & H). cbn [fst snd] in H. pose proof (msi_lock_SI _ _ _ _ _ E2 S) as S1.
  destruct lr; [inv H; split; assumption|]. eapply wr_pend_S; eauto.
Qed.

Lemma cc_write_cycle_S : forall mem i id c addrs data i' c' r, cc_write_cycle mem i id c addrs data = Ok (i', c', r) ->
  SI i -> CS c -> SI i' /\ CS c'.
Proof.
  intros mem i id c addrs data i' c' r H S C. unfold cc_write_cycle in H. destruct (c_wr c) eqn:E.
  - eapply wr_start_S; eauto.
  - eapply wr_pend_S; eauto.
  - eapply wr_fetch_S; eauto. destruct C as (_ & _ & R). rewrite E in R. exact R.
  - eapply wr_evict_S; eauto.
  - eapply wr_l1_S; eauto.
Qed.

(* ---- snoop ---- *)

Lemma snoop_items_S : forall items mem i id l1 mem' i' l1' items', snoop_items mem i id l1 items = Ok (mem', i', l1', items') ->
  SI i -> l1_wf l1 -> SI i' /\ l1_wf l1'.
Proof.
  induction items as [|it t IH]; intros mem i id l1 mem' i' l1' items' H S W; cbn [snoop_items] in H.
  - inv H. split; assumption.
  - destruct it as [a|a cyc].
    + apply bind_ok in H as ([c1 r] & E & H). cbn [fst] in H. eapply IH; [exact H|apply cmd_done_SI; exact S|].
      eapply evict_wf; eauto.
    + destruct (0 <? cyc).
      * apply bind_ok in H as ([[[m1 i1] l2] t'] & E & H). inv H. eapply IH; eauto.
      * apply bind_ok in H as (g & E0 & H). destruct g as [d|]; [|discriminate].
        apply bind_ok in H as (m1 & E1 & H). apply bind_ok in H as ([c1 r] & E2 & H). cbn [fst snd] in H.
        destruct r; [|discriminate]. eapply IH; [exact H|apply cmd_done_SI; exact S|]. eapply evict_wf; eauto.
Qed.

Lemma co_snoop_i : forall kev, (forall j, kev j = j) -> forall i id i' l, co_snoop kev i id = Ok (i', l) -> i' = i.
Proof.
  intros kev K i id i' l H. unfold co_snoop in H.
  remember (Ok (i, @nil snoop_item)) as acc eqn:EA.
  assert (A : forall j l0, acc = Ok (j, l0) -> j = i) by (intros j l0 E; rewrite EA in E; inv E; reflexivity).
  clear EA. revert acc A H. generalize (i_cmds i) as cs.
  induction cs as [|e t IH]; intros acc A H; cbn [fold_left] in H; [eapply A; eauto|].
  eapply IH; [|exact H]. intros j l0 E. destruct acc as [[j0 l1]| |]; cbn [bind] in E; try discriminate.
  destruct e as [[[id' a] rq] c0]. specialize (A j0 l1 eq_refl). subst j0.
  destruct (negb (id' =? id)); [inv E; reflexivity|]. destruct (rq =? rqEvict); [inv E; apply K|].
  destruct (rq =? rqWriteBack); [inv E; reflexivity|discriminate].
Qed.

Lemma cc_snoop_cycle_S : forall kev, (forall j, kev j = j) -> forall mem i id c mem' i' c',
  cc_snoop_cycle kev mem i id c = Ok (mem', i', c') -> SI i -> CS c -> SI i' /\ CS c'.
Proof.
  intros kev K mem i id c mem' i' c' H S (W & R & Wr). unfold cc_snoop_cycle in H.
  apply bind_ok in H as ([[[m1 i1] l1] items] & E & H). destruct (snoop_items_S _ _ _ _ _ _ _ _ _ E S W) as [S1 W1].
  destruct (c_snoop c).
  - apply bind_ok in H as ([i2 l2] & E2 & H). apply co_snoop_i in E2; [|exact K]. subst i2. inv H. cbn [fst].
    split; [exact S1|]. csplit.
  - inv H. split; [exact S1|]. csplit.
Qed.

(* ---- flush ---- *)

Lemma fold_runlock_SI : forall ks acc i', fold_left (fun acc k => j <- acc ;; sem_runlock j k) ks acc = Ok i' ->
  (forall j, acc = Ok j -> SI j) -> SI i'.
Proof.
  induction ks as [|k t IH]; intros acc i' H A; cbn [fold_left] in H; [apply A; exact H|].
  eapply IH; [exact H|]. intros j E. apply bind_ok in E as (j0 & E0 & E). eapply sem_runlock_SI; eauto.
Qed.
Lemma fold_unlock_SI : forall ks acc i', fold_left (fun acc k => j <- acc ;; sem_unlock j k) ks acc = Ok i' ->
  (forall j, acc = Ok j -> SI j) -> SI i'.
Proof.
  induction ks as [|k t IH]; intros acc i' H A; cbn [fold_left] in H; [apply A; exact H|].
  eapply IH; [exact H|]. intros j E. apply bind_ok in E as (j0 & E0 & E). eapply sem_unlock_SI; eauto.
Qed.

Lemma cc_flush_S : forall i c i' c', cc_flush i c = Ok (i', c') -> SI i -> CS c -> SI i' /\ CS c'.
Proof.
  intros i c i' c' H S (W & R & Wr). unfold cc_flush in H. apply bind_ok in H as (i1 & E1 & H).
  apply bind_ok in H as (i2 & E2 & H). inv H. split.
  - eapply fold_unlock_SI; [exact E2|]. intros j E. inv E. eapply fold_runlock_SI; [exact E1|].
    intros j' E. inv E. exact S.
  - csplit.
Qed.

(* ------------------------------------------------------------------ *)
(* eu.go, cpu.go: the structural invariant through a tick               *)
(* ------------------------------------------------------------------ *)

Section Struct.
Variable hk : hooks7.
Hypothesis HF : hooks_frame hk.

Lemma eu_write7_S : forall id w e addrs data w' e' o, eu_write7 id w e addrs data = Ok (w', e', o) ->
  SI (w_i w) -> CS (h_cc e) -> SI (w_i w') /\ CS (h_cc e').
Proof.
  intros id w e addrs data w' e' o H S C. apply eu_write7_split in H as (i1 & c1 & done & E & -> & -> & _).
  rewrite w_i_set_wi. eapply cc_write_cycle_S; eauto.
Qed.

Lemma eu_run7_S : forall labels ord cycle id w e w' e' o, eu_run7 hk labels ord cycle id w e = Ok (w', e', o) ->
  SI (w_i w) -> CS (h_cc e) -> SI (w_i w') /\ CS (h_cc e').
Proof.
  intros labels ord cycle id w e w' e' o H S C. apply eu_run7_split in H as [([F _] & -> & _)|(w0 & addrs & data & [F _] & H)].
  - rewrite F. split; assumption.
  - eapply eu_write7_S; [exact H| rewrite F; exact S|exact C].
Qed.

Lemma eu_read7_S : forall labels ord cycle id w e addrs w' e' o, eu_read7 hk labels ord cycle id w e addrs = Ok (w', e', o) ->
  SI (w_i w) -> CS (h_cc e) -> SI (w_i w') /\ CS (h_cc e').
Proof.
  intros labels ord cycle id w e addrs w' e' o H S C. apply eu_read7_split in H as (i1 & c1 & resp & E & H).
  destruct (cc_read_cycle_S _ _ _ _ _ _ _ _ E S C) as [S1 C1]. destruct resp.
  - eapply eu_run7_S; [exact H|rewrite w_i_set_wi; exact S1|exact C1].
  - destruct H as (-> & -> & _). rewrite w_i_set_wi. split; assumption.
Qed.

Lemma eu_prepare7_S : forall labels ord cycle id w e w' e' o, eu_prepare7 hk labels ord cycle id w e = Ok (w', e', o) ->
  SI (w_i w) -> CS (h_cc e) -> SI (w_i w') /\ CS (h_cc e').
Proof.
  intros labels ord cycle id w e w' e' o H S C.
  apply eu_prepare7_split in H as [([F _] & -> & _)|(w0 & e0 & [F _] & E0 & _ & [H|[addrs H]])].
  - rewrite F. split; assumption.
  - eapply eu_run7_S; [exact H|rewrite F; exact S|]. cbn [set_hco h_cc]. rewrite E0. exact C.
  - eapply eu_read7_S; [exact H|rewrite F; exact S|rewrite E0; exact C].
Qed.

Lemma eu_flush7_S : forall i e i' e', eu_flush7 i e = Ok (i', e') -> SI i -> CS (h_cc e) -> SI i' /\ CS (h_cc e').
Proof.
  intros i e i' e' H S C. unfold eu_flush7 in H. apply bind_ok in H as ([i1 c1] & E & H). inv H.
  cbn [fst snd h_cc]. eapply cc_flush_S; eauto.
Qed.

Lemma eu_cycle7_S : forall labels ord cycle id w e w' e' o, eu_cycle7 hk labels ord cycle id w e = Ok (w', e', o) ->
  SI (w_i w) -> CS (h_cc e) -> SI (w_i w') /\ CS (h_cc e').
Proof.
  intros labels ord cycle id w e w' e' o H S C. unfold eu_cycle7 in H. destruct (eu_pre7 e).
  - destruct (k_pending hk w (h_seq e)); [discriminate|]. apply bind_ok in H as ([i1 e1] & E & H). inv H.
    cbn [fst snd]. rewrite w_i_set_wi. eapply eu_flush7_S; eauto.
  - destruct (h_co e).
    + pose proof (hf_take hk HF id w) as [T _]. destruct (k_take hk id w) as [w1 [r|]]; cbn [fst] in T.
      * eapply eu_prepare7_S; [exact H|rewrite T; exact S|exact C].
      * inv H. rewrite T. split; assumption.
    + eapply eu_prepare7_S; eauto.
    + eapply eu_read7_S; eauto.
    + eapply eu_write7_S; eauto.
Qed.

Definition CSs (eus : list eu7) : Prop := Forall (fun e => CS (h_cc e)) eus.

Lemma eus_main7_S : forall labels ord cycle eus id w acc w' eus' o,
  eus_main7 hk labels ord cycle id w eus acc = Ok (w', eus', o) -> SI (w_i w) -> CSs eus -> SI (w_i w') /\ CSs eus'.
Proof.
  intros labels ord cycle. induction eus as [|e t IH]; intros id w acc w' eus' o H S C; cbn [eus_main7] in H.
  - inv H. split; assumption.
  - inversion C as [|? ? C1 C2]; subst. apply bind_ok in H as ([[w1 e1] o1] & E1 & H).
    apply eu_cycle7_S in E1 as [S1 D1]; [|exact S|exact C1].
    destruct (y_err o1); [inv H; split; [exact S1|constructor; assumption]|].
    apply bind_ok in H as ([[w2 t'] acc2] & E2 & H). inv H. apply IH in E2 as [S2 D2]; [|exact S1|exact C2].
    split; [exact S2|constructor; assumption].
Qed.

Lemma eus_drain7_S : forall labels ord cycle eus id w w' eus' o,
  eus_drain7 hk labels ord cycle id w eus = Ok (w', eus', o) -> SI (w_i w) -> CSs eus -> SI (w_i w') /\ CSs eus'.
Proof.
  intros labels ord cycle. induction eus as [|e t IH]; intros id w w' eus' o H S C; cbn [eus_drain7] in H.
  - inv H. split; assumption.
  - inversion C as [|? ? C1 C2]; subst. destruct (eu_empty7 e).
    + apply bind_ok in H as ([[w2 t'] er] & E2 & H). inv H. apply IH in E2 as [S2 D2]; [|exact S|exact C2].
      split; [exact S2|constructor; assumption].
    + apply bind_ok in H as ([[w1 e1] o1] & E1 & H).
      apply eu_cycle7_S in E1 as [S1 D1]; [|exact S|exact C1].
      destruct (y_err o1); [inv H; split; [exact S1|constructor; assumption]|].
      apply bind_ok in H as ([[w2 t'] er] & E2 & H). inv H. apply IH in E2 as [S2 D2]; [|exact S1|exact C2].
      split; [exact S2|constructor; assumption].
Qed.

Lemma eus_flush7_S : forall labels ord from eus id w acc w' eus' o,
  eus_flush7 hk labels ord from id w eus acc = Ok (w', eus', o) -> SI (w_i w) -> CSs eus -> SI (w_i w') /\ CSs eus'.
Proof.
  intros labels ord from. induction eus as [|e t IH]; intros id w acc w' eus' o H S C; cbn [eus_flush7] in H.
  - inv H. split; assumption.
  - inversion C as [|? ? C1 C2]; subst. destruct (_ && _).
    + apply bind_ok in H as ([[w2 t'] er] & E2 & H). inv H. apply IH in E2 as [S2 D2]; [|exact S|exact C2].
      split; [exact S2|constructor; assumption].
    + apply bind_ok in H as ([[w1 e1] o1] & E1 & H).
      apply eu_cycle7_S in E1 as [S1 D1]; [|exact S|exact C1].
      destruct (y_err o1); [inv H; split; [exact S1|constructor; assumption]|].
      apply bind_ok in H as ([[w2 t'] er] & E2 & H). inv H. apply IH in E2 as [S2 D2]; [|exact S1|exact C2].
      split; [exact S2|constructor; assumption].
Qed.

Lemma eus_final7_S : forall labels ord cycle eus id w w' eus' o,
  eus_final7 hk labels ord cycle id w eus = Ok (w', eus', o) -> SI (w_i w) -> CSs eus -> SI (w_i w') /\ CSs eus'.
Proof.
  intros labels ord cycle. induction eus as [|e t IH]; intros id w w' eus' o H S C; cbn [eus_final7] in H.
  - inv H. split; assumption.
  - inversion C as [|? ? C1 C2]; subst. destruct (_ && _).
    + apply bind_ok in H as ([[w2 t'] er] & E2 & H). inv H. apply IH in E2 as [S2 D2]; [|exact S|exact C2].
      split; [exact S2|constructor; assumption].
    + apply bind_ok in H as ([[w1 e1] o1] & E1 & H).
      apply eu_cycle7_S in E1 as [S1 D1]; [|exact S|exact C1].
      apply bind_ok in H as ([[w2 t'] er] & E2 & H). inv H. apply IH in E2 as [S2 D2]; [|exact S1|exact C2].
      split; [exact S2|constructor; assumption].
Qed.

Lemma snoops7_S : forall eus id w w' eus', snoops7 hk id w eus = Ok (w', eus') -> SI (w_i w) -> CSs eus -> SI (w_i w') /\ CSs eus'.
Proof.
  induction eus as [|e t IH]; intros id w w' eus' H S C; cbn [snoops7] in H.
  - inv H. split; assumption.
  - inversion C as [|? ? C1 C2]; subst. apply bind_ok in H as ([[mem1 i1] c1] & E1 & H).
    apply cc_snoop_cycle_S in E1 as [S1 D1]; [|apply (hf_evict hk HF)|exact S|exact C1].
    apply bind_ok in H as ([w2 t'] & E2 & H). inv H. apply IH in E2 as [S2 D2]; [|exact S1|exact C2].
    split; [exact S2|constructor; assumption].
Qed.

Lemma eus_flush_all7_S : forall eus i i' eus', eus_flush_all7 i eus = Ok (i', eus') -> SI i -> CSs eus -> SI i' /\ CSs eus'.
Proof.
  induction eus as [|e t IH]; intros i i' eus' H S C; cbn [eus_flush_all7] in H.
  - inv H. split; assumption.
  - inversion C as [|? ? C1 C2]; subst. apply bind_ok in H as ([i1 e1] & E1 & H).
    apply eu_flush7_S in E1 as [S1 D1]; [|exact S|exact C1].
    apply bind_ok in H as ([i2 t'] & E2 & H). inv H. apply IH in E2 as [S2 D2]; [|exact S1|exact C2].
    split; [exact S2|constructor; assumption].
Qed.

Definition StructSt (s : st7) : Prop := SI (st_msi s) /\ CSs (v_eus s).

Lemma res_of7_cont : forall A os (o : outcome A) k s', res_of7 os o k = UCont s' -> exists x, o = Ok x /\ k x = UCont s'.
Proof. intros A os o k s' H. destruct o; cbn [res_of7] in H; try discriminate. eauto. Qed.

Lemma ret_check7_S : forall s s', ret_check7 s = UCont s' -> StructSt s -> StructSt s'.
Proof. intros s s' H S. unfold ret_check7 in H. destruct (_ && _); inv H; exact S. Qed.

Lemma flush_advance7_S : forall s k seq pc from empty s', flush_advance7 s k seq pc from empty = UCont s' -> StructSt s -> StructSt s'.
Proof.
  intros s k seq pc from empty s' H [S C]. unfold flush_advance7 in H. destruct (flush_next _ _ _).
  - inv H. split; assumption.
  - destruct empty; [|inv H; split; assumption].
    apply res_of7_cont in H as ([i1 eus1] & E & H). inv H. apply eus_flush_all7_S in E as [S1 C1]; [|exact S|exact C].
    split; assumption.
Qed.

Lemma CSs_map_seq : forall eus q, CSs eus -> CSs (map (fun e => mk_eu7 (h_co e) (h_memory e) (h_runner e) q (h_cc e)) eus).
Proof. intros eus q H. induction H; constructor; assumption. Qed.

Lemma back7_S : forall s cycle w eus o s', back7 s cycle (w, eus, o) = UCont s' -> SI (w_i w) -> CSs eus -> StructSt s'.
Proof.
  intros s cycle w eus o s' H S C. unfold back7 in H. destruct (y_err o); [discriminate|].
  apply res_of7_cont in H as ([x wus1] & E & H). destruct (y_ret o).
  - eapply ret_check7_S; [exact H|]. split; assumption.
  - destruct (y_flush o); [inv H; split; [exact S|apply CSs_map_seq; exact C]|].
    destruct (is_empty7 x eus wus1); inv H; split; assumption.
Qed.

Theorem step7_struct : forall app labels ord s s', step7 hk app labels ord s = UCont s' -> StructSt s -> StructSt s'.
Proof.
  intros app labels ord s s' H [S C]. unfold step7 in H. unfold st_msi in S. destruct (v_mode s) eqn:M.
  - apply res_of7_cont in H as (w1 & E1 & H). apply (hf_front hk HF) in E1 as [F _].
    apply res_of7_cont in H as ([w2 eus2] & E2 & H). apply snoops7_S in E2 as [S2 C2]; [|rewrite F; exact S|exact C].
    apply res_of7_cont in H as ([[w3 eus3] o] & E3 & H). apply eus_main7_S in E3 as [S3 C3]; [|exact S2|exact C2].
    eapply back7_S; eauto.
  - apply res_of7_cont in H as ([w2 eus2] & E2 & H). apply snoops7_S in E2 as [S2 C2]; [|exact S|exact C].
    apply res_of7_cont in H as ([[w3 eus3] er] & E3 & H). apply eus_drain7_S in E3 as [S3 C3]; [|exact S2|exact C2].
    destruct er; [discriminate|]. apply res_of7_cont in H as ([x2 wus1] & E4 & H).
    eapply ret_check7_S; [exact H|]. split; assumption.
  - apply res_of7_cont in H as ([w2 eus2] & E2 & H). apply snoops7_S in E2 as [S2 C2]; [|exact S|exact C].
    apply res_of7_cont in H as ([[w3 eus3] acc] & E3 & H). apply eus_flush7_S in E3 as [S3 C3]; [|exact S2|exact C2].
    destruct (a_err acc); [discriminate|]. eapply flush_advance7_S; [exact H|]. split; assumption.
  - destruct (nth_error (v_wus s) k); [|discriminate]. apply res_of7_cont in H as ([x u] & E & H).
    eapply flush_advance7_S; [exact H|]. split; assumption.
  - apply res_of7_cont in H as ([w2 eus2] & E2 & H). apply snoops7_S in E2 as [S2 C2]; [|exact S|exact C].
    apply res_of7_cont in H as ([[w3 eus3] sk] & E3 & H). apply eus_final7_S in E3 as [S3 C3]; [|exact S2|exact C2].
    destruct (_ && _); inv H. split; assumption.
Qed.

Theorem reach7_struct : forall app labels ord s0 s, reach7 hk app labels ord s0 s -> StructSt s0 -> StructSt s.
Proof. intros app labels ord s0 s R S0. induction R; [exact S0|]. eapply step7_struct; eauto. Qed.

End Struct.

(* the initial state *)
Lemma SI_new : SI msi_new.
Proof. split; [intros a|intros id a]; unfold sem_get, state_get, msi_new, stInvalid; cbn; lia. Qed.

Lemma init7_struct : forall par ord app st s, init7 par ord app st = Ok s -> StructSt s.
Proof.
  intros par ord app st s H. unfold init7 in H. destruct (init3 par ord app st); try discriminate.
  destruct (new_cache l1LineSize l1Size) as [l1d| |] eqn:EC; try discriminate. inv H.
  split; [exact SI_new|]. cbn [v_eus]. unfold CSs. apply Forall_forall. intros e He. apply repeat_spec in He. subst e.
  cbn [h_cc]. split; [|split; exact I]. cbn [c_l1d]. vm_compute in EC. inv EC.
  split; [reflexivity|]. split; [intros x0; cbn; lia|intros l []].
Qed.

(* from the structural invariant to the clauses *)
Lemma StructSt_clauses : forall s, StructSt s -> C06Struct70_st s.
Proof.
  intros s [[A B] C]. split; [|split; assumption]. intros n e He. unfold core in He. apply nth_error_In in He.
  unfold CSs in C. rewrite Forall_forall in C. apply (C e He).
Qed.

Theorem mvp70_struct : forall par ord app labels st s0 s, init7 par ord app st = Ok s0 ->
  reach7 hooks70 app labels ord s0 s -> C06Struct70_st s.
Proof.
  intros par ord app labels st s0 s I R. apply StructSt_clauses.
  eapply reach7_struct; [exact hooks70_frame|exact R|]. eapply init7_struct; eauto.
Qed.

(* the states a run of mvp70_run goes through are reach7-states *)
Lemma run7_st_reach : forall hk fuel app labels ord s0 s s', reach7 hk app labels ord s0 s ->
  run7_st hk fuel app labels ord s = inr s' -> reach7 hk app labels ord s0 s'.
Proof.
  intros hk. induction fuel as [|f IH]; intros app labels ord s0 s s' R H; cbn [run7_st] in H.
  - inv H. exact R.
  - destruct (step7 hk app labels ord s) as [r os|s1] eqn:E; [discriminate|]. eapply IH; [|exact H].
    eapply r7a_step; eauto.
Qed.
