(* C06 - every transition of the machine preserves Inv (given that a lock
   transition finds no outstanding command for (requester, line)); Inv holds
   initially; hence Inv holds in every reachable state of the guarded machine,
   with or without the repaired flush. *)
From Coq Require Import List ZArith Lia Bool Arith.
From Maj Require Import Msi.Protocol Msi.Invariant Msi.InvProofs.
Import ListNotations.
Open Scope Z_scope.

Definition lock_target (lab : label) : option (nat * line) :=
  match lab with
  | L_rlock_I i l | L_rlock_S i l | L_rlock_M i l | L_lock_I i l | L_lock_S i l | L_lock_M i l => Some (i, l)
  | _ => None
  end.

Lemma upd_id_fun {A} (g : nat -> line -> A) l i k : upd (fun j => g j l) i (g i l) k = g k l.
Proof. unfold upd. destruct (Nat.eqb_spec k i); subst; auto. Qed.
Lemma upd_id {A} (f : nat -> A) i k : upd f i (f i) k = f k.
Proof. unfold upd. destruct (Nat.eqb_spec k i); subst; auto. Qed.

Ltac shape :=
  intros; simpl; try rewrite upd2_line; try rewrite updl_same;
  first [reflexivity | symmetry; apply upd_id_fun | apply upd_id_fun].
Ltac onl := unfold rd_on, wr_on, on_line; simpl; rewrite ?Z.eqb_refl; simpl.
Ltac offl := unfold on_line; simpl; try reflexivity; apply Z.eqb_neq; congruence.

Section Steps.
Variable N : nat.
Notation InvL := (InvL N).
Notation Inv := (Inv N).
Notation others_I := (others_I N).
Notation others_not_M := (others_not_M N).

(* class A with the protocol state of the core unchanged *)
Lemma invL_local_keep s s' i l p' b' :
  InvL s l -> (i < N)%nat ->
  (forall j, ms s' j l = ms s j l) ->
  (forall j, l1 s' j l = upd (fun j => l1 s j l) i b' j) ->
  (forall j, ph s' j = upd (ph s) i p' j) ->
  (forall j, cm s' j l = cm s j l) ->
  mem s' l = mem s l ->
  rc s' l + b2z (rd_on (ph s i) l) = rc s l + b2z (rd_on p' l) ->
  wc s' l + b2z (wr_on (ph s i) l) = wc s l + b2z (wr_on p' l) ->
  (wc s' l <= 1 /\ (wc s' l = 1 -> rc s' l = 0)) ->
  own_ok p' l (ms s i l) b' (cm s i l) ->
  (ms s i l = S -> b' = Some (mem s l)) ->
  (forall v, p' = RdFetched l v -> v = mem s l /\ others_not_M s i l) ->
  (forall vic, p' = RdFilled l vic -> b' = Some (mem s l) /\ others_not_M s i l) ->
  (forall v, p' = WrFetched l v -> others_I s i l) ->
  (forall vic, p' = WrFilled l vic -> others_I s i l) ->
  InvL s' l.
Proof.
  intros I0 Hi Hms Hl1 Hph Hcm Hmem Hr Hw Hx Hown HS Hfr Hfl Hwr Hwl.
  apply (invL_local N s s' i l p' (ms s i l) b'); auto.
  - intros j. rewrite Hms. symmetry. apply upd_id_fun.
  - intros Hm. now apply swmr_others_I.
  - intros Hm. now apply swmr_others_notM.
  - now apply (cmd_kind _ _ _ I0).
Qed.

(* lines other than the one the transition is about *)
Lemma invL_other s s' i l k p' :
  InvL s k -> k <> l -> (i < N)%nat ->
  (tx_line (ph s i) = None \/ tx_line (ph s i) = Some l) ->
  (tx_line p' = None \/ tx_line p' = Some l) ->
  (forall j, ph s' j = upd (ph s) i p' j) ->
  (forall j, ms s' j k = ms s j k) -> (forall j, l1 s' j k = l1 s j k) ->
  (forall j, (j < N)%nat -> cm s' j k = cm s j k \/
     (on_line (ph s j) k = false /\ cmd_matches (cm s' j k) (ms s j k))) ->
  mem s' k = mem s k -> rc s' k = rc s k -> wc s' k = wc s k ->
  InvL s' k.
Proof.
  intros I0 Hk Hi Hp Hp' Hph Hm Hl Hc Hmem Hr Hw.
  apply (invL_frame_cmds N s); auto.
  intros j Hj. rewrite Hph. apply pview_upd_off.
  - unfold on_line. destruct Hp as [->| ->]; auto. apply Z.eqb_neq; congruence.
  - unfold on_line. destruct Hp' as [->| ->]; auto. apply Z.eqb_neq; congruence.
Qed.

Lemma l1_none_of_I s l i : InvL s l -> (i < N)%nat -> on_line (ph s i) l = false -> ms s i l = I -> l1 s i l = None.
Proof.
  intros I0 Hi Ho Hm. destruct (l1 s i l) eqn:E; auto. exfalso.
  pose proof (view_off N s l I0 i Hi Ho) as [X _]. apply X; [rewrite E; discriminate|exact Hm].
Qed.
Lemma l1_some_of_nonI s l i : InvL s l -> (i < N)%nat -> on_line (ph s i) l = false -> ms s i l <> I -> l1 s i l <> None.
Proof. intros I0 Hi Ho Hm. now apply (view_off N s l I0 i Hi Ho). Qed.

Lemma idle_off s i l : ph s i = Idle -> on_line (ph s i) l = false.
Proof. intros ->. reflexivity. Qed.

Lemma req_victim_line s i vic l j k : victim_ok s i l vic -> k = l -> req_victim s i vic j k = cm s j k.
Proof.
  intros Hv ->. unfold req_victim. destruct vic as [a|]; auto. destruct Hv as [Hne _].
  destruct (ms s i a); auto; now rewrite upd2_other_line by congruence.
Qed.

(* the command for the victim, seen from any line k other than the transaction's *)
Lemma req_victim_ok s i vic l j k : InvL s k -> victim_ok s i l vic -> k <> l -> (i < N)%nat ->
  tx_line (ph s i) = Some l ->
  req_victim s i vic j k = cm s j k \/
  (on_line (ph s j) k = false /\ cmd_matches (req_victim s i vic j k) (ms s j k)).
Proof.
  intros I0 Hv Hk Hi Hp. unfold req_victim. destruct vic as [a|]; auto.
  destruct (ms s i a) eqn:Em; auto.
  - unfold upd2. destruct (Nat.eqb_spec j i) as [->|]; simpl; auto.
    destruct (Z.eqb_spec k a) as [->|]; auto. right. split; [|simpl; try rewrite Em; reflexivity].
    unfold on_line. rewrite Hp. apply Z.eqb_neq; congruence.
  - unfold upd2. destruct (Nat.eqb_spec j i) as [->|]; simpl; auto.
    destruct (Z.eqb_spec k a) as [->|]; auto. right. split; [|simpl; try rewrite Em; reflexivity].
    unfold on_line. rewrite Hp. apply Z.eqb_neq; congruence.
Qed.

(* ---- the lock transitions ---- *)
Lemma inv_rlock_I s i l : Inv s -> (i < N)%nat -> ph s i = Idle -> ms s i l = I -> wc s l = 0 -> cm s i l = NoCmd ->
  Inv {| ms := ms s; ph := upd (ph s) i (RdWait l); cm := req_read s i l; l1 := l1 s; mem := mem s;
         rc := updl (rc s) l (rc s l + 1); wc := wc s |}.
Proof.
  intros I0 Hi Hp Hm Hw Hc k. destruct (Z.eq_dec k l) as [->|Hk].
  - set (s1 := {| ms := ms s; ph := upd (ph s) i (RdWait l); cm := cm s; l1 := l1 s; mem := mem s;
                  rc := updl (rc s) l (rc s l + 1); wc := wc s |}).
    assert (I1 : InvL s1 l).
    { apply (invL_local_keep s s1 i l (RdWait l) (l1 s i l) (I0 l) Hi); try shape; simpl.
      - rewrite updl_same, Hp. onl. lia.
      - rewrite Hp. onl. lia.
      - rewrite Hw. lia.
      - unfold own_ok. onl. rewrite Hm. repeat split; auto.
        apply (l1_none_of_I s l i); auto. now apply idle_off.
      - congruence.
      - discriminate. - discriminate. - discriminate. - discriminate. }
    apply (invL_frame_cmds N s1); simpl; auto.
    intros j Hj. unfold req_read. rewrite Z.eqb_refl. simpl.
    destruct (Nat.eqb_spec j i) as [->|Hne]; simpl; auto.
    destruct (ms s j l) eqn:Em; auto. right. rewrite upd_other by auto. split; [|simpl; try rewrite Em; reflexivity].
    apply (M_idle N s l (I0 l)); auto.
  - apply (invL_other s _ i l k (RdWait l)); simpl; auto; try (intros; now rewrite ?updl_other by auto).
    + left. now rewrite Hp.
    + intros j Hj. left. unfold req_read. destruct (Z.eqb_spec k l); [congruence|reflexivity].
Qed.

Lemma inv_lock_IS s i l p' : Inv s -> (i < N)%nat -> ph s i = Idle ->
  ((ms s i l = I /\ p' = WrWait l) \/ (ms s i l = S /\ p' = UpgWait l)) ->
  wc s l = 0 -> rc s l = 0 -> cm s i l = NoCmd ->
  Inv {| ms := ms s; ph := upd (ph s) i p'; cm := req_write s i l; l1 := l1 s; mem := mem s;
         rc := rc s; wc := updl (wc s) l (wc s l + 1) |}.
Proof.
  intros I0 Hi Hp Hmp Hw Hr Hc k.
  assert (Hp' : tx_line p' = Some l /\ wr_on p' l = true /\ rd_on p' l = false).
  { destruct Hmp as [[_ ->]|[_ ->]]; onl; auto. }
  destruct Hp' as [Htx [Hwr Hrd]].
  destruct (Z.eq_dec k l) as [->|Hk].
  - set (s1 := {| ms := ms s; ph := upd (ph s) i p'; cm := cm s; l1 := l1 s; mem := mem s;
                  rc := rc s; wc := updl (wc s) l (wc s l + 1) |}).
    assert (I1 : InvL s1 l).
    { apply (invL_local_keep s s1 i l p' (l1 s i l) (I0 l) Hi); try shape; simpl.
      - rewrite Hp, Hrd. onl. lia.
      - rewrite updl_same, Hp, Hwr. onl. lia.
      - rewrite updl_same, Hw, Hr. lia.
      - unfold own_ok. rewrite (proj2 (on_line_iff p' l) Htx).
        destruct Hmp as [[Hm ->]|[Hm ->]]; simpl; rewrite Hm; repeat split; auto.
        + apply (l1_none_of_I s l i); auto. now apply idle_off.
        + apply (l1_some_of_nonI s l i); auto; [now apply idle_off|congruence].
      - intros Hs. apply (shared_clean _ _ _ (I0 l)); auto.
      - intros v E. destruct Hmp as [[_ ->]|[_ ->]]; discriminate.
      - intros v E. destruct Hmp as [[_ ->]|[_ ->]]; discriminate.
      - intros v E. destruct Hmp as [[_ ->]|[_ ->]]; discriminate.
      - intros v E. destruct Hmp as [[_ ->]|[_ ->]]; discriminate. }
    apply (invL_frame_cmds N s1); simpl; auto.
    intros j Hj. unfold req_write. rewrite Z.eqb_refl. simpl.
    destruct (Nat.eqb_spec j i) as [->|Hne]; simpl; auto.
    destruct (ms s j l) eqn:Em; auto; right; rewrite upd_other by auto; (split; [|simpl; try rewrite Em; reflexivity]);
      apply (nonI_idle N s l (I0 l)); auto.
  - apply (invL_other s _ i l k p'); simpl; auto; try (intros; now rewrite ?updl_other by auto).
    + left. now rewrite Hp.
    + intros j Hj. left. unfold req_write. destruct (Z.eqb_spec k l); [congruence|reflexivity].
Qed.

(* rlock_S, rlock_M, lock_M: the requester already holds the line *)
Lemma inv_lock_hit s i l p' dr dw : Inv s -> (i < N)%nat -> ph s i = Idle -> cm s i l = NoCmd -> wc s l = 0 ->
  ((ms s i l = S /\ p' = ShRd l /\ dr = 1 /\ dw = 0) \/
   (ms s i l = M /\ (p' = OwnRd l \/ p' = OwnWr l) /\ dr = 0 /\ dw = 1 /\ rc s l = 0)) ->
  Inv {| ms := ms s; ph := upd (ph s) i p'; cm := cm s; l1 := l1 s; mem := mem s;
         rc := updl (rc s) l (rc s l + dr); wc := updl (wc s) l (wc s l + dw) |}.
Proof.
  intros I0 Hi Hp Hc Hw Hcase k.
  assert (Htx : tx_line p' = Some l) by (destruct Hcase as [[_ [-> _]]|[_ [[->| ->] _]]]; reflexivity).
  destruct (Z.eq_dec k l) as [->|Hk].
  - apply (invL_local_keep s _ i l p' (l1 s i l) (I0 l) Hi); try shape; simpl; rewrite ?updl_same.
    + rewrite Hp. destruct Hcase as [[_ [-> [-> _]]]|[_ [[->| ->] [-> _]]]]; onl; lia.
    + rewrite Hp. destruct Hcase as [[_ [-> [_ ->]]]|[_ [[->| ->] [_ [-> _]]]]]; onl; lia.
    + rewrite Hw. destruct Hcase as [[_ [_ [-> ->]]]|[_ [_ [-> [-> ->]]]]]; lia.
    + unfold own_ok. rewrite (proj2 (on_line_iff p' l) Htx).
      assert (Hl : l1 s i l <> None).
      { apply (l1_some_of_nonI s l i); auto; [now apply idle_off|].
        destruct Hcase as [[-> _]|[-> _]]; discriminate. }
      destruct Hcase as [[Hm [-> _]]|[Hm [[->| ->] _]]]; simpl; rewrite Hm; auto.
    + intros Hs. apply (shared_clean _ _ _ (I0 l)); auto.
    + intros v E. destruct Hcase as [[_ [-> _]]|[_ [[->| ->] _]]]; discriminate.
    + intros v E. destruct Hcase as [[_ [-> _]]|[_ [[->| ->] _]]]; discriminate.
    + intros v E. destruct Hcase as [[_ [-> _]]|[_ [[->| ->] _]]]; discriminate.
    + intros v E. destruct Hcase as [[_ [-> _]]|[_ [[->| ->] _]]]; discriminate.
  - apply (invL_other s _ i l k p'); simpl; auto; try (intros; now rewrite ?updl_other by auto).
    left. now rewrite Hp.
Qed.

(* ---- transitions of a core that is on line l and stays on it or becomes idle,
        protocol state unchanged: fetch, done_shrd, done_ownrd, done_ownwr, flush ---- *)
Lemma inv_keep s i l p' b' dr dw : Inv s -> (i < N)%nat -> tx_line (ph s i) = Some l ->
  (tx_line p' = None \/ tx_line p' = Some l) ->
  dr + b2z (rd_on (ph s i) l) = b2z (rd_on p' l) ->
  dw + b2z (wr_on (ph s i) l) = b2z (wr_on p' l) ->
  (rd_on p' l = true -> rd_on (ph s i) l = true) ->
  (wr_on p' l = true -> wr_on (ph s i) l = true) ->
  own_ok p' l (ms s i l) b' NoCmd ->
  (ms s i l = S -> b' = Some (mem s l)) ->
  (forall v, p' = RdFetched l v -> v = mem s l /\ others_not_M s i l) ->
  (forall vic, p' = RdFilled l vic -> b' = Some (mem s l) /\ others_not_M s i l) ->
  (forall v, p' = WrFetched l v -> others_I s i l) ->
  (forall vic, p' = WrFilled l vic -> others_I s i l) ->
  Inv {| ms := ms s; ph := upd (ph s) i p'; cm := cm s; l1 := upd2 (l1 s) i l b'; mem := mem s;
         rc := updl (rc s) l (rc s l + dr); wc := updl (wc s) l (wc s l + dw) |}.
Proof.
  intros I0 Hi Htx Htx' Hr Hw Hmr Hmw Hown HS Hfr Hfl Hwr Hwl k.
  assert (Hon : on_line (ph s i) l = true) by now apply on_line_iff.
  destruct (view_on N s l (I0 l) i Hi Hon) as [Hc V].
  destruct (Z.eq_dec k l) as [->|Hk].
  - apply (invL_local_keep s _ i l p' b' (I0 l) Hi); try shape; simpl; rewrite ?updl_same; try lia; auto.
    + destruct (sem_x _ _ _ (I0 l)) as [X1 X2].
      pose proof (rc_nonneg N s l (I0 l)). pose proof (wc_nonneg N s l (I0 l)).
      destruct (on_line_rd_or_wr _ _ Hon) as [E|E].
      * pose proof (reader_pos N s l (I0 l) i Hi E).
        assert (wr_on (ph s i) l = false).
        { destruct (wr_on (ph s i) l) eqn:E'; auto. exfalso. exact (rd_wr_excl _ _ E E'). }
        rewrite E in Hr. rewrite H2 in Hw. simpl in Hr, Hw.
        destruct (wr_on p' l) eqn:Ew'; [specialize (Hmw eq_refl); congruence|].
        destruct (rd_on p' l); simpl in *; lia.
      * destruct (writer_excl N s l (I0 l) i Hi E) as [Y1 Y2].
        assert (rd_on (ph s i) l = false).
        { destruct (rd_on (ph s i) l) eqn:E'; auto. exfalso. exact (rd_wr_excl _ _ E' E). }
        rewrite E in Hw. rewrite H1 in Hr. simpl in Hr, Hw.
        destruct (rd_on p' l) eqn:Er'; [specialize (Hmr eq_refl); congruence|].
        destruct (wr_on p' l); simpl in *; lia.
    + now rewrite Hc.
  - apply (invL_other s _ i l k p'); simpl; auto; try (intros; now rewrite ?updl_other, ?upd2_other_line by auto).
Qed.


Lemma inv_ext s s' :
  (forall j k, ms s' j k = ms s j k) -> (forall j k, l1 s' j k = l1 s j k) ->
  (forall j k, cm s' j k = cm s j k) -> (forall j, ph s' j = ph s j) ->
  (forall k, mem s' k = mem s k) -> (forall k, rc s' k = rc s k) -> (forall k, wc s' k = wc s k) ->
  Inv s -> Inv s'.
Proof.
  intros Hm Hl Hc Hp Hmem Hr Hw I0 k. apply (invL_frame N s); auto.
  intros j Hj. now rewrite Hp.
Qed.

(* ---- fill: the fetched line enters L1; the LRU victim (if any) gets its command ---- *)
Lemma inv_fill s i l v vic p' : Inv s -> (i < N)%nat ->
  ((ph s i = RdFetched l v /\ p' = RdFilled l vic) \/ (ph s i = WrFetched l v /\ p' = WrFilled l vic)) ->
  victim_ok s i l vic ->
  Inv {| ms := ms s; ph := upd (ph s) i p'; cm := req_victim s i vic; l1 := upd2 (l1 s) i l (Some v);
         mem := mem s; rc := rc s; wc := wc s |}.
Proof.
  intros I0 Hi Hp Hv k.
  assert (Htx : tx_line (ph s i) = Some l) by (destruct Hp as [[-> _]|[-> _]]; reflexivity).
  assert (Htx' : tx_line p' = Some l) by (destruct Hp as [[_ ->]|[_ ->]]; reflexivity).
  assert (Hon : on_line (ph s i) l = true) by now apply on_line_iff.
  destruct (view_on N s l (I0 l) i Hi Hon) as [Hc V].
  destruct (Z.eq_dec k l) as [->|Hk].
  - apply (invL_local_keep s _ i l p' (Some v) (I0 l) Hi); try shape; simpl.
    + intros j. apply (req_victim_line s i vic l); auto.
    + destruct Hp as [[-> ->]|[-> ->]]; onl; lia.
    + destruct Hp as [[-> ->]|[-> ->]]; onl; lia.
    + apply (sem_x _ _ _ (I0 l)).
    + unfold own_ok. rewrite (proj2 (on_line_iff p' l) Htx'), Hc.
      destruct Hp as [[E ->]|[E ->]]; rewrite E in V; simpl in *; destruct V as [-> _]; repeat split; discriminate.
    + destruct Hp as [[E _]|[E _]]; rewrite E in V; simpl in V; destruct V; congruence.
    + intros v0 E. destruct Hp as [[_ ->]|[_ ->]]; discriminate.
    + intros vic0 E. destruct Hp as [[E0 ->]|[_ ->]]; [|discriminate].
      destruct (fetched_rd _ _ _ (I0 l) i v Hi E0) as [-> X]. auto.
    + intros v0 E. destruct Hp as [[_ ->]|[_ ->]]; discriminate.
    + intros vic0 E. destruct Hp as [[_ ->]|[E0 ->]]; [discriminate|].
      apply (fetched_wr _ _ _ (I0 l) i v Hi E0).
  - apply (invL_other s _ i l k p'); simpl; auto; try (intros; now rewrite ?upd2_other_line by auto).
    intros j Hj. now apply (req_victim_ok s i vic l j k (I0 k)).
Qed.

(* ---- settle: the post closure of a transaction that changes the protocol state ---- *)
Lemma inv_settle_S s i l vic : Inv s -> (i < N)%nat -> ph s i = RdFilled l vic ->
  Inv {| ms := upd2 (ms s) i l S; ph := upd (ph s) i Idle; cm := cm s; l1 := l1 s; mem := mem s;
         rc := updl (rc s) l (rc s l - 1); wc := wc s |}.
Proof.
  intros I0 Hi Hp k.
  assert (Hon : on_line (ph s i) l = true) by (rewrite Hp; onl; reflexivity).
  assert (Hrd : rd_on (ph s i) l = true) by (rewrite Hp; onl; reflexivity).
  assert (Hwr : wr_on (ph s i) l = false) by (rewrite Hp; onl; reflexivity).
  destruct (view_on N s l (I0 l) i Hi Hon) as [Hc V]. rewrite Hp in V. simpl in V. destruct V as [Vm Vl].
  destruct (filled_rd _ _ _ (I0 l) i vic Hi Hp) as [Fl Fo].
  pose proof (reader_pos N s l (I0 l) i Hi Hrd) as Hpos.
  destruct (Z.eq_dec k l) as [->|Hk].
  - apply (invL_local N s _ i l Idle S (l1 s i l) (I0 l) Hi); try shape; simpl; rewrite ?updl_same.
    + rewrite Hrd. onl. lia.
    + rewrite Hwr. onl. lia.
    + destruct (sem_x _ _ _ (I0 l)) as [X1 X2]. split; auto. intros X. specialize (X2 X). lia.
    + unfold own_ok. simpl. split; intros; [discriminate|exact Vl].
    + discriminate.
    + auto.
    + auto.
    + now rewrite Hc.
    + discriminate. + discriminate. + discriminate. + discriminate.
    + right. intros j Hj Hne. split; [discriminate|].
      destruct (wr_on (ph s j) l) eqn:E; auto. exfalso. exact (reader_writer N s l (I0 l) i j Hi Hj Hrd E).
  - apply (invL_other s _ i l k Idle); simpl; auto; try (intros; now rewrite ?updl_other, ?upd2_other_line by auto).
    right. now rewrite Hp.
Qed.

Lemma inv_settle_M s i l v' : Inv s -> (i < N)%nat ->
  ((exists vic, ph s i = WrFilled l vic) \/ (ph s i = UpgWait l /\ others_I s i l)) ->
  Inv {| ms := upd2 (ms s) i l M; ph := upd (ph s) i Idle; cm := cm s; l1 := upd2 (l1 s) i l (Some v');
         mem := mem s; rc := rc s; wc := updl (wc s) l (wc s l - 1) |}.
Proof.
  intros I0 Hi Hp k.
  assert (Htx : tx_line (ph s i) = Some l) by (destruct Hp as [[vic ->]|[-> _]]; reflexivity).
  assert (Hon : on_line (ph s i) l = true) by now apply on_line_iff.
  assert (Hrd : rd_on (ph s i) l = false) by (destruct Hp as [[vic ->]|[-> _]]; onl; reflexivity).
  assert (Hwr : wr_on (ph s i) l = true) by (destruct Hp as [[vic ->]|[-> _]]; onl; reflexivity).
  destruct (view_on N s l (I0 l) i Hi Hon) as [Hc V].
  destruct (writer_excl N s l (I0 l) i Hi Hwr) as [W1 R0].
  assert (Ho : others_I s i l).
  { destruct Hp as [[vic E]|[_ X]]; auto. apply (filled_wr _ _ _ (I0 l) i vic Hi E). }
  destruct (Z.eq_dec k l) as [->|Hk].
  - apply (invL_local N s _ i l Idle M (Some v') (I0 l) Hi); try shape; simpl; rewrite ?updl_same.
    + rewrite Hrd. onl. lia.
    + rewrite Hwr. onl. lia.
    + rewrite W1. split; [lia|]. intros; lia.
    + unfold own_ok. simpl. split; intros; discriminate.
    + auto.
    + intros _ j Hj Hne. rewrite (Ho j Hj Hne). discriminate.
    + discriminate.
    + now rewrite Hc.
    + discriminate. + discriminate. + discriminate. + discriminate.
    + right. intros j Hj Hne. split.
      * intros _. destruct (rd_on (ph s j) l) eqn:E; auto. exfalso. exact (reader_writer N s l (I0 l) j i Hj Hi E Hwr).
      * destruct (wr_on (ph s j) l) eqn:E; auto. exfalso.
        exact (two_writers N s l (I0 l) i j Hi Hj ltac:(congruence) Hwr E).
  - apply (invL_other s _ i l k Idle); simpl; auto; try (intros; now rewrite ?updl_other, ?upd2_other_line by auto).
Qed.

(* ---- snoop command completions ---- *)
Lemma inv_cmd_done s j l nm : Inv s -> (j < N)%nat -> cm s j l <> NoCmd ->
  (nm = mem s \/ (cm s j l = Wb /\ exists v, nm = updl (mem s) l v)) ->
  Inv {| ms := upd2 (ms s) j l I; ph := ph s; cm := upd2 (cm s) j l NoCmd; l1 := upd2 (l1 s) j l None;
         mem := nm; rc := rc s; wc := wc s |}.
Proof.
  intros I0 Hj Hc Hnm k. destruct (Z.eq_dec k l) as [->|Hk].
  - apply (invL_cmd_done N s _ j l (I0 l) Hj Hc); try shape; simpl; auto.
    destruct Hnm as [->|[Hwb _]]; auto. right.
    pose proof (cmd_kind _ _ _ (I0 l) j Hj) as K. rewrite Hwb in K. exact K.
  - apply (invL_frame N s); simpl; auto; try (intros; now rewrite ?upd2_other_line by auto).
    destruct Hnm as [->|[_ [v ->]]]; auto. now rewrite updl_other.
Qed.

Lemma inv_export s i l v : Inv s -> (i < N)%nat -> ms s i l = M ->
  Inv {| ms := ms s; ph := ph s; cm := cm s; l1 := l1 s; mem := updl (mem s) l v; rc := rc s; wc := wc s |}.
Proof.
  intros I0 Hi Hm k. destruct (Z.eq_dec k l) as [->|Hk].
  - apply (invL_export N s _ i l (I0 l) Hi Hm); simpl; auto.
  - apply (invL_frame N s); simpl; auto. now rewrite updl_other.
Qed.

Ltac ext_eq :=
  intros; simpl; unfold upd2, updl;
  repeat match goal with
         | |- context [Nat.eqb ?a ?b] => destruct (Nat.eqb_spec a b)
         | |- context [Z.eqb ?a ?b] => destruct (Z.eqb_spec a b)
         end; subst; simpl; try reflexivity; try lia; try congruence.

(* ---- fetch: every pending command is done, the line is read from the next level ---- *)
Lemma inv_fetch s i l p' : Inv s -> (i < N)%nat ->
  ((ph s i = RdWait l /\ p' = RdFetched l (mem s l) /\ others_not_M s i l) \/
   (ph s i = WrWait l /\ p' = WrFetched l (mem s l) /\ others_I s i l)) ->
  Inv {| ms := ms s; ph := upd (ph s) i p'; cm := cm s; l1 := l1 s; mem := mem s; rc := rc s; wc := wc s |}.
Proof.
  intros I0 Hi Hp.
  assert (Htx : tx_line (ph s i) = Some l) by (destruct Hp as [[-> _]|[-> _]]; reflexivity).
  assert (Hon : on_line (ph s i) l = true) by now apply on_line_iff.
  destruct (view_on N s l (I0 l) i Hi Hon) as [Hc V].
  assert (Vm : ms s i l = I /\ l1 s i l = None).
  { destruct Hp as [[E _]|[E _]]; rewrite E in V; exact V. }
  destruct Vm as [Vm Vl].
  apply (inv_ext {| ms := ms s; ph := upd (ph s) i p'; cm := cm s; l1 := upd2 (l1 s) i l (l1 s i l); mem := mem s;
                    rc := updl (rc s) l (rc s l + 0); wc := updl (wc s) l (wc s l + 0) |}); try ext_eq.
  apply inv_keep; auto.
  - destruct Hp as [[_ [-> _]]|[_ [-> _]]]; right; reflexivity.
  - destruct Hp as [[-> [-> _]]|[-> [-> _]]]; onl; lia.
  - destruct Hp as [[-> [-> _]]|[-> [-> _]]]; onl; lia.
  - destruct Hp as [[-> [-> _]]|[-> [-> _]]]; onl; auto.
  - destruct Hp as [[-> [-> _]]|[-> [-> _]]]; onl; auto.
  - unfold own_ok. destruct Hp as [[_ [-> _]]|[_ [-> _]]]; onl; rewrite Vm, Vl; auto.
  - congruence.
  - intros v E. destruct Hp as [[_ [-> X]]|[_ [-> _]]]; [|discriminate]. inversion E; subst. auto.
  - intros v E. destruct Hp as [[_ [-> _]]|[_ [-> _]]]; discriminate.
  - intros v E. destruct Hp as [[_ [-> _]]|[_ [-> X]]]; [discriminate|auto].
  - intros v E. destruct Hp as [[_ [-> _]]|[_ [-> _]]]; discriminate.
Qed.

(* ---- the transaction of a core that holds the line ends (or is flushed) ---- *)
Lemma inv_leave s i l b' dr dw : Inv s -> (i < N)%nat -> tx_line (ph s i) = Some l ->
  dr + b2z (rd_on (ph s i) l) = 0 -> dw + b2z (wr_on (ph s i) l) = 0 ->
  ((b' = l1 s i l /\ match ph s i with RdFilled _ _ | WrFilled _ _ => False | _ => True end) \/
   (b' = None /\ ms s i l = I) \/
   (b' <> None /\ ms s i l = M)) ->
  Inv {| ms := ms s; ph := upd (ph s) i Idle; cm := cm s; l1 := upd2 (l1 s) i l b'; mem := mem s;
         rc := updl (rc s) l (rc s l + dr); wc := updl (wc s) l (wc s l + dw) |}.
Proof.
  intros I0 Hi Htx Hr Hw Hb.
  assert (Hon : on_line (ph s i) l = true) by now apply on_line_iff.
  destruct (view_on N s l (I0 l) i Hi Hon) as [Hc V].
  apply inv_keep; auto; try discriminate.
  - unfold own_ok. simpl. destruct Hb as [[-> Hb]|[[-> Hm]|[Hb Hm]]].
    + destruct (ph s i); simpl in *; try discriminate Htx; try tauto; destruct V as [-> V]; split; intros; try congruence; try discriminate.
    + rewrite Hm. split; intros; congruence.
    + rewrite Hm. split; intros; auto; discriminate.
  - intros Hs. destruct Hb as [[-> Hb]|[[_ Hm]|[_ Hm]]]; try congruence.
    apply (shared_clean _ _ _ (I0 l)); auto.
Qed.

Lemma inv_flush_rep s i : Inv s -> (i < N)%nat -> Inv (flush_rep s i).
Proof.
  intros I0 Hi. unfold flush_rep. destruct (ph s i) eqn:Hp; auto.
  all: try (apply (inv_ext {| ms := ms s; ph := upd (ph s) i Idle; cm := cm s; l1 := upd2 (l1 s) i l (l1 s i l);
                              mem := mem s; rc := updl (rc s) l (rc s l + -1); wc := updl (wc s) l (wc s l + 0) |});
            [ext_eq | ext_eq | ext_eq | ext_eq | ext_eq | ext_eq | ext_eq |];
            apply inv_leave; auto; rewrite Hp; onl; auto; lia).
  all: try (apply (inv_ext {| ms := ms s; ph := upd (ph s) i Idle; cm := cm s; l1 := upd2 (l1 s) i l (l1 s i l);
                              mem := mem s; rc := updl (rc s) l (rc s l + 0); wc := updl (wc s) l (wc s l + -1) |});
            [ext_eq | ext_eq | ext_eq | ext_eq | ext_eq | ext_eq | ext_eq |];
            apply inv_leave; auto; rewrite Hp; onl; auto; lia).
  - (* RdFilled *)
    assert (Hon : on_line (ph s i) l = true) by (rewrite Hp; onl; reflexivity).
    destruct (view_on N s l (I0 l) i Hi Hon) as [_ V]. rewrite Hp in V. destruct V as [Vm _].
    apply (inv_ext {| ms := ms s; ph := upd (ph s) i Idle; cm := cm s; l1 := upd2 (l1 s) i l None;
                      mem := mem s; rc := updl (rc s) l (rc s l + -1); wc := updl (wc s) l (wc s l + 0) |}); try ext_eq.
    apply inv_leave; auto; rewrite ?Hp; onl; auto; lia.
  - (* WrFilled *)
    assert (Hon : on_line (ph s i) l = true) by (rewrite Hp; onl; reflexivity).
    destruct (view_on N s l (I0 l) i Hi Hon) as [_ V]. rewrite Hp in V. destruct V as [Vm _].
    apply (inv_ext {| ms := ms s; ph := upd (ph s) i Idle; cm := cm s; l1 := upd2 (l1 s) i l None;
                      mem := mem s; rc := updl (rc s) l (rc s l + 0); wc := updl (wc s) l (wc s l + -1) |}); try ext_eq.
    apply inv_leave; auto; rewrite ?Hp; onl; auto; lia.
Qed.

(* ---- the step theorem ---- *)
Theorem inv_step g fm s lab s' :
  Inv s -> step N g fm s lab s' ->
  (forall i l, lock_target lab = Some (i, l) -> cm s i l = NoCmd) ->
  Inv s'.
Proof.
  intros I0 Hs Hlk. inversion Hs; subst; clear Hs; try (specialize (Hlk _ _ eq_refl)).
  - (* rlock_I *) apply inv_rlock_I; auto.
  - (* fetch_rd *) apply (inv_fetch s i l); auto.
  - (* fill_rd *) apply (inv_fill s i l v vic); auto.
  - (* settle_rd *) apply (inv_settle_S s i l vic); auto.
  - (* rlock_S *)
    apply (inv_ext {| ms := ms s; ph := upd (ph s) i (ShRd l); cm := cm s; l1 := l1 s; mem := mem s;
                      rc := updl (rc s) l (rc s l + 1); wc := updl (wc s) l (wc s l + 0) |}); try ext_eq.
    apply inv_lock_hit; auto.
  - (* done_shrd *)
    apply (inv_ext {| ms := ms s; ph := upd (ph s) i Idle; cm := cm s; l1 := upd2 (l1 s) i l (l1 s i l);
                      mem := mem s; rc := updl (rc s) l (rc s l + -1); wc := updl (wc s) l (wc s l + 0) |}); try ext_eq.
    apply inv_leave; auto; rewrite H0; onl; auto; lia.
  - (* rlock_M *)
    apply (inv_ext {| ms := ms s; ph := upd (ph s) i (OwnRd l); cm := cm s; l1 := l1 s; mem := mem s;
                      rc := updl (rc s) l (rc s l + 0); wc := updl (wc s) l (wc s l + 1) |}); try ext_eq.
    apply inv_lock_hit; auto. right. auto 10.
  - (* done_ownrd *)
    apply (inv_ext {| ms := ms s; ph := upd (ph s) i Idle; cm := cm s; l1 := upd2 (l1 s) i l (l1 s i l);
                      mem := mem s; rc := updl (rc s) l (rc s l + 0); wc := updl (wc s) l (wc s l + -1) |}); try ext_eq.
    apply inv_leave; auto; rewrite H0; onl; auto; lia.
  - (* lock_I *) apply inv_lock_IS; auto.
  - (* fetch_wr *) apply (inv_fetch s i l); auto.
  - (* fill_wr *) apply (inv_fill s i l v vic); auto.
  - (* settle_wr *) apply inv_settle_M; eauto.
  - (* lock_S *) apply inv_lock_IS; auto.
  - (* settle_upg *) apply inv_settle_M; auto.
  - (* lock_M *)
    apply (inv_ext {| ms := ms s; ph := upd (ph s) i (OwnWr l); cm := cm s; l1 := l1 s; mem := mem s;
                      rc := updl (rc s) l (rc s l + 0); wc := updl (wc s) l (wc s l + 1) |}); try ext_eq.
    apply inv_lock_hit; auto. right. auto 10.
  - (* done_ownwr *)
    apply (inv_ext {| ms := ms s; ph := upd (ph s) i Idle; cm := cm s; l1 := upd2 (l1 s) i l (Some v');
                      mem := mem s; rc := updl (rc s) l (rc s l + 0); wc := updl (wc s) l (wc s l + -1) |}); try ext_eq.
    assert (Hon : on_line (ph s i) l = true) by (rewrite H0; onl; reflexivity).
    destruct (view_on N s l (I0 l) i H Hon) as [_ V]. rewrite H0 in V. destruct V as [Vm _].
    apply inv_leave; auto; rewrite ?H0; onl; auto; try lia.
    right. right. split; [discriminate|exact Vm].
  - (* cmd_evict_done *) apply inv_cmd_done; auto. congruence.
  - (* cmd_writeback_done *) apply inv_cmd_done; auto; [congruence|]. right. eauto.
  - (* export *) apply (inv_export s i l v); auto.
  - (* flush *) apply inv_flush_rep; auto.
Qed.

Lemma count_init l : Invariant.count N (fun _ : nat => rd_on Idle l) = 0.
Proof. apply count_false. reflexivity. Qed.

Theorem inv_init m0 : Inv (init m0).
Proof.
  intros l. constructor; simpl; try discriminate; try (intros; discriminate).
  - intros. unfold own_ok. simpl. split; intros; congruence.
  - symmetry. apply count_false. reflexivity.
  - symmetry. apply count_false. reflexivity.
  - split; [lia|]. intros; lia.
  - intros. exact Logic.I.
Qed.

End Steps.

(* every reachable state of the guarded machine (with or without the repaired
   flush), for every number of cores, every interleaving, every length *)
Theorem inv_reachable_guarded N fm s : reach N true fm s -> Inv N s.
Proof.
  induction 1 as [m0|s lab s' Hr IH Hs].
  - apply inv_init.
  - apply (inv_step N true fm s lab s' IH Hs).
    intros i l Hl. inversion Hs; subst; simpl in Hl; try discriminate; inversion Hl; subst;
      match goal with H : lock_guard _ _ _ _ |- _ => apply H; reflexivity end.
Qed.

(* the five clauses follow from the invariant *)
Theorem inv_clauses N s : Inv N s -> clauses (obs_of_st N s).
Proof.
  intros I0. unfold clauses, clause1, clause2, clause3, clause5. simpl. repeat split.
  - intros i j l Hi Hj. apply (swmr _ _ _ (I0 l)); auto.
  - intros i l Hi. apply (shared_clean _ _ _ (I0 l)); auto.
  - intros Hm. pose proof (phases _ _ _ (I0 l) i H) as P. unfold own_ok in P.
    destruct (on_line (ph s i) l) eqn:E.
    + destruct P as [_ V]. destruct (ph s i); simpl in V; try discriminate E; destruct V; congruence.
    + now apply P.
  - intros Ht Hl. pose proof (phases _ _ _ (I0 l) i H) as P. unfold own_ok in P.
    destruct (on_line (ph s i) l) eqn:E.
    + destruct P as [_ V]. apply on_line_iff in E.
      destruct (ph s i) eqn:Hp; simpl in V, E; try discriminate E; inversion E; subst; destruct V as [Vm Vl];
        try congruence; exfalso; apply Ht; eauto.
    + now apply P.
  - apply (rc_nonneg N s l (I0 l)).
  - apply (wc_nonneg N s l (I0 l)).
  - apply (sem_x _ _ _ (I0 l)).
  - apply (sem_x _ _ _ (I0 l)).
Qed.

(* under the invariant none of the explicit panics of cc.go / semaphore.go is
   reachable: coRead's "invalid state" (line already in L1 when a fetch starts),
   the snoop write-back's "memory address should exist", LRUCache.Write's
   "cache line doesn't exist" in coWriteToL1, Sem's "read/write is negative" *)
Theorem inv_no_panic N s i l : Inv N s -> (i < N)%nat ->
  (ph s i = RdWait l -> l1 s i l = None) /\
  (cm s i l <> NoCmd -> l1 s i l <> None) /\
  ((ph s i = UpgWait l \/ ph s i = OwnWr l \/ exists vic, ph s i = WrFilled l vic) -> l1 s i l <> None) /\
  (rd_on (ph s i) l = true -> 1 <= rc s l) /\
  (wr_on (ph s i) l = true -> wc s l = 1).
Proof.
  intros I0 Hi. repeat split.
  - intros Hp. destruct (view_on N s l (I0 l) i Hi) as [_ V]; [rewrite Hp; onl; reflexivity|].
    rewrite Hp in V. apply V.
  - apply (cmd_present N s l (I0 l) i Hi).
  - intros Hp. destruct (view_on N s l (I0 l) i Hi) as [_ V].
    + destruct Hp as [->|[->|[vic ->]]]; onl; reflexivity.
    + destruct Hp as [Hp|[Hp|[vic Hp]]]; rewrite Hp in V; apply V.
  - apply (reader_pos N s l (I0 l) i Hi).
  - intros E. apply (writer_excl N s l (I0 l) i Hi E).
Qed.
