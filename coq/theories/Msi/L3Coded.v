(* C06 - the three-level machine AS CODED (rep = false: memory copied when the
   miss starts, pushed later; deferred per-core victim commands whose kind is
   fixed when they are issued), L1 protocol as coded (unguarded, flush
   excluded).  What still holds in every reachable state:
   - everything of the two-level invariant that is about the protocol and not
     about the data carried (clauses 1, 3, 5, counters, command kinds, J): the
     protocol is data-independent, so the data-erased core state is a state of
     the machine of Msi/Protocol.v;
   - L3 never holds two copies of a line and its bases are aligned.
   What fails (clause 2 / (b), occupancy (c), data value (d), and the panic
   "memory address should exist") is in Msi/L3Refuted.v. *)
From Coq Require Import List ZArith Lia Bool Arith.
From Maj Require Import Msi.Protocol Msi.Invariant Msi.InvProofs Msi.StepProofs Msi.CodedProofs
  Msi.L3Protocol Msi.L3Invariant Msi.L3Lemmas.
Import ListNotations.
Open Scope Z_scope.

Lemma erase_ph_tx p : tx_line (erase_ph p) = tx_line p.
Proof. destruct p; reflexivity. Qed.

Ltac steq :=
  constructor; intros; simpl; unfold upd, upd2, updl;
  repeat match goal with
         | |- context [Nat.eqb ?a ?b] => destruct (Nat.eqb_spec a b)
         | |- context [Z.eqb ?a ?b] => destruct (Z.eqb_spec a b)
         end; subst; simpl; try reflexivity; try congruence.

Ltac prem :=
  simpl; repeat match goal with H : ph _ _ = _ |- _ => rewrite H end; simpl; auto.

Lemma victim_ok_erase s i l vic : victim_ok s i l vic -> victim_ok (erase s) i l vic.
Proof.
  destruct vic as [a|]; simpl; auto. intros [Hne Hl]. split; auto. destruct (l1 s i a); congruence.
Qed.

Lemma flush_rep_erase s i : st_eq (flush_rep (erase s) i) (erase (flush_rep s i)).
Proof.
  unfold flush_rep. simpl. destruct (ph s i) eqn:Hp; simpl; steq; now rewrite ?Hp.
Qed.

(* the protocol does not look at the data it carries *)
Lemma step_erase N g fm b lab b' : step N g fm b lab b' ->
  exists c, step N g fm (erase b) (erase_lab lab) c /\ st_eq c (erase b').
Proof.
  intros Hs. destruct Hs; simpl erase_lab.
  - eexists. split; [apply rlock_I; prem|steq].
  - eexists. split; [apply fetch_rd; prem|steq].
  - eexists. split; [apply (fill_rd N g fm i l 0 vic (erase s)); prem; now apply victim_ok_erase|steq].
  - eexists. split; [apply (settle_rd N g fm i l vic (erase s)); prem|steq].
  - eexists. split; [apply rlock_S; prem|steq].
  - eexists. split; [apply done_shrd; prem|steq].
  - eexists. split; [apply rlock_M; prem|steq].
  - eexists. split; [apply done_ownrd; prem|steq].
  - eexists. split; [apply lock_I; prem|steq].
  - eexists. split; [apply fetch_wr; prem|steq].
  - eexists. split; [apply (fill_wr N g fm i l 0 vic (erase s)); prem; now apply victim_ok_erase|steq].
  - eexists. split; [apply (settle_wr N g fm i l vic 0 (erase s)); prem|steq].
  - eexists. split; [apply lock_S; prem|steq].
  - eexists. split; [apply settle_upg; prem|steq].
  - eexists. split; [apply lock_M; prem|steq].
  - eexists. split; [apply done_ownwr; prem|steq].
  - eexists. split; [apply cmd_evict_done; prem|steq].
  - eexists. split; [apply (cmd_writeback_done N g fm j l 0 (erase s)); prem; now rewrite H1|steq].
  - eexists. split; [apply (export_line N g fm i l 0 (erase s)); prem; now rewrite H1|steq].
  - eexists. split; [apply flush_repaired; auto|apply flush_rep_erase].
Qed.

Lemma erase_set_mem b m : st_eq (erase b) (erase (set_mem b m)).
Proof. constructor; reflexivity. Qed.

Section Coded.
Variable N : nat.
Variable w : Z.
Variable cap : nat.
Hypothesis Hw : 0 < w.

Notation step3c := (step3 N false NoFlush false w cap).

(* every transition is a transition of the data-erased core, or invisible to it *)
Lemma sim_coded s k s' : step3c s k s' ->
  st_eq (erase (core s)) (erase (core s')) \/
  exists lab c, step N false NoFlush (erase (core s)) lab c /\ st_eq c (erase (core s')).
Proof.
  intros Hs. destruct Hs.
  - right. destruct (step_erase _ _ _ _ _ _ H0) as [c [X Y]]. eauto.
  - right. eexists (L_fetch_rd i l), _. split; [apply fetch_rd; prem|]. steq.
  - right. eexists (L_fetch_wr i l), _. split; [apply fetch_wr; prem|]. steq.
  - left. apply st_eq_refl.
  - left. unfold push_coded. destruct (in_l3 w s l); apply st_eq_refl.
  - discriminate.
  - left. apply st_eq_refl.
  - left. apply erase_set_mem.
  - right. destruct (step_erase N false NoFlush _ _ _ (cmd_writeback_done N false NoFlush j l v (core s) H H0 H1))
      as [c [X Y]].
    exists (erase_lab (L_cmd_writeback_done j l)), c. split; auto.
    apply (st_eq_trans _ _ _ Y). unfold store_next. destruct (in_l3 w s l); constructor; reflexivity.
  - right. destruct (step_erase N false NoFlush _ _ _ (export_line N false NoFlush i l v (core s) H H0 H1))
      as [c [X Y]].
    exists (erase_lab (L_export i l)), c. split; auto.
    apply (st_eq_trans _ _ _ Y). unfold store_next. destruct (in_l3 w s l); constructor; reflexivity.
  - left. apply erase_set_mem.
Qed.

(* (c), the part that holds as coded: one copy per line, aligned bases *)
Lemma l3wf_step g fm rep s k s' : L3wf w s -> step3 N g fm rep w cap s k s' -> L3wf w s'.
Proof.
  intros [A B] Hs. destruct Hs; unfold L3wf; simpl; auto.
  - destruct (is_pushed (ax s i)); auto. split; [now apply touch_nodup|].
    intros b Hb. apply touch_in in Hb. auto.
  - destruct (is_pushed (ax s i)); auto. split; [now apply touch_nodup|].
    intros b Hb. apply touch_in in Hb. auto.
  - unfold push_coded. destruct (in_l3 w s l) eqn:E; simpl.
    + split; [now apply touch_nodup|]. intros b Hb. apply touch_in in Hb. auto.
    + unfold in_l3 in E. apply inq_false in E. split; [constructor; auto|].
      intros b [<-|Hb]; [now apply grp_aligned|auto].
  - unfold in_l3 in H2. apply inq_false in H2. split.
    + constructor.
      * destruct (Nat.leb cap (length (l3q s))); auto. rewrite del_in. tauto.
      * destruct (Nat.leb cap (length (l3q s))); auto. now apply del_nodup.
    + intros b [<-|Hb]; [now apply grp_aligned|].
      destruct (Nat.leb cap (length (l3q s))); auto. apply del_in in Hb. apply B. tauto.
  - split; [now apply del_nodup|]. intros b0 Hb. apply del_in in Hb. apply B. tauto.
  - split; [now apply del_nodup|]. intros b0 Hb. apply del_in in Hb. apply B. tauto.
  - unfold store_next. destruct (in_l3 w s l); simpl; auto. split; [now apply touch_nodup|].
    intros b Hb. apply touch_in in Hb. auto.
  - unfold store_next. destruct (in_l3 w s l); simpl; auto. split; [now apply touch_nodup|].
    intros b Hb. apply touch_in in Hb. auto.
Qed.

Lemma l3wf_init m0 : L3wf w (init3 m0).
Proof. split; [constructor|intros b []]. Qed.

Lemma erase_init m0 : st_eq (init (fun _ => 0)) (erase (init m0)).
Proof. constructor; reflexivity. Qed.

(* THE CODE AS IT IS (L1 protocol unguarded, flush excluded, L3 as coded) *)
Theorem l3_reachable_coded m0 s : reach3 N false NoFlush false w cap m0 s ->
  Inv N (erase (core s)) /\ J N (erase (core s)) /\ L3wf w s.
Proof.
  induction 1 as [|s k s' Hr [I0 [J0 W0]] Hs].
  - split; [|split].
    + apply (inv_st_eq N (init (fun _ => 0))); [apply erase_init|apply inv_init].
    + apply (J_st_eq N (init (fun _ => 0))); [apply erase_init|apply J_init].
    + apply l3wf_init.
  - split; [|split].
    + destruct (sim_coded _ _ _ Hs) as [E|[lab [c [Hst E]]]].
      * now apply (inv_st_eq N (erase (core s))).
      * destruct (inv_step_coded N _ lab c I0 J0 Hst) as [I1 _]. now apply (inv_st_eq N c).
    + destruct (sim_coded _ _ _ Hs) as [E|[lab [c [Hst E]]]].
      * now apply (J_st_eq N (erase (core s))).
      * destruct (inv_step_coded N _ lab c I0 J0 Hst) as [_ J1]. now apply (J_st_eq N c).
    + now apply (l3wf_step _ _ _ _ _ _ W0 Hs).
Qed.

(* what Inv of the erased state says about the state itself: clauses 1, 3, 5 *)
Lemma erased_filled b i l : (exists vic, ph (erase b) i = RdFilled l vic \/ ph (erase b) i = WrFilled l vic) ->
  exists vic, ph b i = RdFilled l vic \/ ph b i = WrFilled l vic.
Proof.
  simpl. intros [vic H]. exists vic. destruct (ph b i); simpl in H; destruct H as [H|H]; try discriminate; auto.
Qed.

Theorem erased_clauses b : Inv N (erase b) ->
  clause1 (obs_of_st N b) /\ clause3 (obs_of_st N b) /\ clause5 (obs_of_st N b).
Proof.
  intros I0. destruct (inv_clauses N _ I0) as [C1 [_ [C3 C5]]]. split; [|split].
  - exact C1.
  - intros i l Hi. destruct (C3 i l Hi) as [X Y]. simpl in *. split.
    + intros Hm. specialize (X Hm). destruct (l1 b i l); congruence.
    + intros Ht Hl. apply Y.
      * intro T. apply Ht. now apply erased_filled.
      * destruct (l1 b i l); congruence.
  - exact C5.
Qed.

End Coded.
