(* C06 - the boolean invariant of a snapshot is the Prop invariant:
   inv_b s = true <-> SInv s  (definitions in Msi/Invariant.v). *)
From Coq Require Import List ZArith Lia Bool Arith.
From Maj Require Import Msi.Protocol Msi.Invariant.
Import ListNotations.
Open Scope Z_scope.

(* ---- reflection of the elementary tests ---- *)
Lemma mstate_eqb_eq a b : mstate_eqb a b = true <-> a = b.
Proof. destruct a, b; cbn; split; congruence. Qed.

Lemma data_eqb_eq a : forall b, data_eqb a b = true <-> a = b.
Proof.
  induction a as [|x a IH]; destruct b as [|y b]; cbn [data_eqb]; try (split; congruence).
  rewrite andb_true_iff, Z.eqb_eq, IH.
  split; [intros [-> ->]; reflexivity | intros H; injection H; auto].
Qed.

Lemma is_some_iff {A} (o : option A) : is_some o = true <-> o <> None.
Proof. destruct o; cbn; split; congruence. Qed.

Lemma pair_eqb_eq x y : pair_eqb x y = true <-> x = y.
Proof.
  destruct x, y; unfold pair_eqb; cbn [fst snd].
  rewrite andb_true_iff, Nat.eqb_eq, Z.eqb_eq.
  split; [intros [-> ->]; reflexivity | intros H; injection H; auto].
Qed.

Lemma existsb_pair x t : existsb (pair_eqb x) t = true <-> In x t.
Proof.
  rewrite existsb_exists; split.
  - intros [y [Hin He]]; apply pair_eqb_eq in He; subst; auto.
  - intros; exists x; split; auto; apply pair_eqb_eq; reflexivity.
Qed.

Lemma nodup_keys_iff l : nodup_keys l = true <-> NoDup l.
Proof.
  induction l as [|a l IH]; cbn [nodup_keys].
  - split; [constructor | reflexivity].
  - rewrite andb_true_iff, negb_true_iff, IH. split.
    + intros [H1 H2]; constructor; auto.
      intro Hin; apply existsb_pair in Hin; congruence.
    + intros H; inversion H; subst; split; auto.
      destruct (existsb (pair_eqb a) l) eqn:E; auto.
      apply existsb_pair in E; contradiction.
Qed.

Lemma in_cores s i : In i (cores_of s) <-> (i < sn_cores s)%nat.
Proof. unfold cores_of; rewrite in_seq; lia. Qed.

(* ---- a line the snapshot does not mention is in the default state ---- *)
Lemma lookup_state_notin l i k :
  ~ In k (map (fun e => snd (fst e)) l) -> lookup_state l i k = 0.
Proof.
  induction l as [|[[j a] v] t IH]; intros H; cbn [lookup_state]; [reflexivity|].
  cbn [map In fst snd] in H. destruct (Z.eqb_spec a k).
  - exfalso; apply H; left; auto.
  - rewrite andb_false_r. apply IH. intro; apply H; right; auto.
Qed.

Lemma lookup_l1_notin l i k :
  ~ In k (map (fun e => snd (fst e)) l) -> lookup_l1 l i k = None.
Proof.
  induction l as [|[[j a] v] t IH]; intros H; cbn [lookup_l1]; [reflexivity|].
  cbn [map In fst snd] in H. destruct (Z.eqb_spec a k).
  - exfalso; apply H; left; auto.
  - rewrite andb_false_r. apply IH. intro; apply H; right; auto.
Qed.

Lemma lookup_sem_notin l k :
  ~ In k (map (fun e => fst (fst e)) l) -> lookup_sem l k = (0, 0).
Proof.
  induction l as [|[[a r] w] t IH]; intros H; cbn [lookup_sem]; [reflexivity|].
  cbn [map In fst snd] in H. destruct (Z.eqb_spec a k).
  - exfalso; apply H; left; auto.
  - apply IH. intro; apply H; right; auto.
Qed.

Lemma ms_default s i l : ~ In l (lines_of s) -> s_ms s i l = I.
Proof.
  intros H. unfold s_ms. rewrite lookup_state_notin; [reflexivity|].
  intro; apply H; unfold lines_of; rewrite !in_app_iff; auto.
Qed.

Lemma l1_default s i l : ~ In l (lines_of s) -> s_l1 s i l = None.
Proof.
  intros H. unfold s_l1. apply lookup_l1_notin.
  intro; apply H; unfold lines_of; rewrite !in_app_iff; auto.
Qed.

Lemma sem_default s l : ~ In l (lines_of s) -> s_rc s l = 0 /\ s_wc s l = 0.
Proof.
  intros H. unfold s_rc, s_wc. rewrite lookup_sem_notin; [split; reflexivity|].
  intro; apply H; unfold lines_of; rewrite !in_app_iff; auto.
Qed.

(* ---- the body of each boolean clause, at one point ---- *)
Lemma body1 a b (i j : nat) :
  negb (mstate_eqb a M) || Nat.eqb j i || mstate_eqb b I = true <-> (a = M -> j <> i -> b = I).
Proof.
  rewrite !orb_true_iff, negb_true_iff, Nat.eqb_eq, mstate_eqb_eq. split.
  - intros [[H|H]|H] Ha Hji; auto.
    + apply mstate_eqb_eq in Ha; congruence.
    + contradiction.
  - intros H. destruct (mstate_eqb a M) eqn:E; [|auto].
    destruct (Nat.eq_dec j i); [auto|].
    right. apply H; auto. apply mstate_eqb_eq; auto.
Qed.

Lemma body2 a (o : option data) n :
  negb (mstate_eqb a S) || match o with Some d => data_eqb d n | None => false end = true
  <-> (a = S -> o = Some n).
Proof.
  split.
  - intros H Ha. subst a. cbn [mstate_eqb negb orb] in H.
    destruct o; [apply data_eqb_eq in H; subst; auto | discriminate].
  - intros H. destruct (mstate_eqb a S) eqn:E; [|reflexivity].
    apply mstate_eqb_eq in E. rewrite (H E). cbn [negb orb].
    apply data_eqb_eq; reflexivity.
Qed.

Lemma body3 a (o : option data) (t : bool) :
  (mstate_eqb a I || is_some o) && (t || negb (is_some o) || negb (mstate_eqb a I)) = true
  <-> (a <> I -> o <> None) /\ (~ t = true -> o <> None -> a <> I).
Proof.
  destruct a, o, t; cbn; split; try discriminate; try (intros _; split; congruence);
    intros [H1 H2]; try reflexivity; exfalso.
  all: try (apply H1; congruence).
  all: try (apply H2; congruence).
Qed.

Lemma body5 r w :
  Z.leb 0 r && Z.leb 0 w && Z.leb w 1 && (negb (Z.eqb w 1) || Z.eqb r 0) = true
  <-> 0 <= r /\ 0 <= w /\ w <= 1 /\ (w = 1 -> r = 0).
Proof.
  rewrite !andb_true_iff, !Z.leb_le, orb_true_iff, negb_true_iff, Z.eqb_neq, Z.eqb_eq.
  split; [intros [[[? ?] ?] ?] | intros (?&?&?&?)]; repeat split; auto; lia.
Qed.

(* ---- clause by clause ---- *)
Ltac obs_cbn := cbn [obs_of_snap o_cores o_ms o_l1 o_next o_rc o_wc o_transfer] in *.

Lemma c1_iff s : c1_b s = true <-> clause1 (obs_of_snap s).
Proof.
  unfold clause1, c1_b; split.
  - intros H i j l Hi Hj Hm Hne. obs_cbn.
    destruct (in_dec Z.eq_dec l (lines_of s)) as [Hin|Hn]; [|apply ms_default; auto].
    rewrite forallb_forall in H. specialize (H l Hin).
    rewrite forallb_forall in H. specialize (H i (proj2 (in_cores s i) Hi)).
    rewrite forallb_forall in H. specialize (H j (proj2 (in_cores s j) Hj)).
    apply body1 in H; auto.
  - intros H. apply forallb_forall; intros k _.
    apply forallb_forall; intros i Hi. apply forallb_forall; intros j Hj.
    apply in_cores in Hi, Hj. apply body1. intros. apply (H i j k); auto.
Qed.

Lemma c2_iff s : c2_b s = true <-> clause2 (obs_of_snap s).
Proof.
  unfold clause2, c2_b; split.
  - intros H i l Hi Hm. obs_cbn.
    destruct (in_dec Z.eq_dec l (lines_of s)) as [Hin|Hn];
      [|rewrite (ms_default s i l Hn) in Hm; discriminate].
    rewrite forallb_forall in H. specialize (H l Hin).
    rewrite forallb_forall in H. specialize (H i (proj2 (in_cores s i) Hi)).
    apply body2 in H; auto.
  - intros H. apply forallb_forall; intros k _.
    apply forallb_forall; intros i Hi. apply in_cores in Hi.
    apply body2. intros. apply (H i k); auto.
Qed.

Lemma c3_iff s : c3_b s = true <-> clause3 (obs_of_snap s).
Proof.
  unfold clause3, c3_b; split.
  - intros H i l Hi. obs_cbn.
    destruct (in_dec Z.eq_dec l (lines_of s)) as [Hin|Hn].
    + rewrite forallb_forall in H. specialize (H l Hin).
      rewrite forallb_forall in H. specialize (H i (proj2 (in_cores s i) Hi)).
      apply body3 in H; auto.
    + rewrite (ms_default s i l Hn), (l1_default s i l Hn). split; congruence.
  - intros H. apply forallb_forall; intros k _.
    apply forallb_forall; intros i Hi. apply in_cores in Hi.
    apply body3. apply (H i k); auto.
Qed.

Lemma c4_iff s : c4_b s = true <-> l1_wellformed s.
Proof.
  unfold c4_b, l1_wellformed.
  rewrite andb_true_iff, nodup_keys_iff, forallb_forall.
  split; intros [Hn H]; split; auto.
  - intros i a d Hin. specialize (H _ Hin). cbn beta iota in H.
    rewrite andb_true_iff, !Z.eqb_eq in H. exact H.
  - intros [[i a] d] Hin. destruct (H i a d Hin).
    rewrite andb_true_iff, !Z.eqb_eq; auto.
Qed.

Lemma c5_iff s : c5_b s = true <-> clause5 (obs_of_snap s).
Proof.
  unfold clause5, c5_b; split.
  - intros H l. obs_cbn.
    destruct (in_dec Z.eq_dec l (lines_of s)) as [Hin|Hn].
    + rewrite forallb_forall in H. apply body5. apply H; auto.
    + destruct (sem_default s l Hn) as [-> ->]. lia.
  - intros H. apply forallb_forall; intros k _. apply body5. apply (H k).
Qed.

(* ---- the theorems ---- *)
Theorem inv_b_correct : forall s, inv_b s = true <-> SInv s.
Proof.
  intros s. unfold inv_b, SInv, clauses.
  rewrite !andb_true_iff, c1_iff, c2_iff, c3_iff, c4_iff, c5_iff. tauto.
Qed.

Theorem inv_b_sound : forall s, inv_b s = true -> SInv s.
Proof. intros s; apply inv_b_correct. Qed.

Theorem inv_b_complete : forall s, SInv s -> inv_b s = true.
Proof. intros s; apply inv_b_correct. Qed.

Print Assumptions inv_b_correct.
