(* C06 - the invariant, twice:
   (1) Inv : the inductive invariant of the abstract machine (Msi/Protocol.v):
       the clauses of the property + the supporting conjuncts induction needs;
   (2) inv_b : a boolean function over a finite snapshot of the IMPLEMENTATION
       (what proc/<variant>/verif_rig.go Snapshot() returns), extracted to
       build/msi_oracle and evaluated on every cycle of every run of the rig
       and of the full pipeline.  SInv is the same thing as a Prop; the proofs
       (inv_b s = true <-> SInv s, SInv s -> the five clauses over the lookup
       functions of the snapshot) are in Msi/SnapProofs.v.
   Definitions only (this file must compile and extract when a proof breaks). *)
From Coq Require Import List ZArith Lia Bool Arith.
From Maj Require Import Msi.Protocol.
Import ListNotations.
Open Scope Z_scope.

(* ------------------------------------------------------------------------- *)
(* The five clauses of the property, over an observation of a system:         *)
(* D = contents of a line copy (val in the machine, list of bytes in a        *)
(* snapshot).                                                                 *)
Record obs (D : Type) := {
  o_cores : nat;
  o_ms : nat -> line -> mstate;
  o_l1 : nat -> line -> option D;
  o_next : line -> D;                 (* the next level (memory; L3 over memory in 8.0) *)
  o_rc : line -> Z;
  o_wc : line -> Z;
  o_transfer : nat -> line -> Prop    (* a transfer of this line by this core is in progress *)
}.
Arguments o_cores {D}. Arguments o_ms {D}. Arguments o_l1 {D}. Arguments o_next {D}.
Arguments o_rc {D}. Arguments o_wc {D}. Arguments o_transfer {D}.

Section Clauses.
Context {D : Type} (o : obs D).
(* 1: at most one core holds a line Modified, and then no other core holds it Shared *)
Definition clause1 := forall i j l, (i < o_cores o)%nat -> (j < o_cores o)%nat ->
  o_ms o i l = M -> j <> i -> o_ms o j l = I.
(* 2: a Shared line is identical to the next level *)
Definition clause2 := forall i l, (i < o_cores o)%nat -> o_ms o i l = S -> o_l1 o i l = Some (o_next o l).
(* 3: in L1 exactly when not Invalid, outside a transfer in progress; the
      direction "not Invalid -> in L1" holds during transfers as well *)
Definition clause3 := forall i l, (i < o_cores o)%nat ->
  (o_ms o i l <> I -> o_l1 o i l <> None) /\
  (~ o_transfer o i l -> o_l1 o i l <> None -> o_ms o i l <> I).
(* 4 (one copy per line, aligned bases) is a property of the representation of
      L1: see SInv below; in the machine L1 is a function of the line. *)
(* 5: lock counters never negative (and a writer excludes everybody else) *)
Definition clause5 := forall l, 0 <= o_rc o l /\ 0 <= o_wc o l /\ o_wc o l <= 1 /\ (o_wc o l = 1 -> o_rc o l = 0).
Definition clauses := clause1 /\ clause2 /\ clause3 /\ clause5.
End Clauses.

Definition obs_of_st (N : nat) (s : st) : obs val :=
  {| o_cores := N; o_ms := ms s; o_l1 := l1 s; o_next := mem s; o_rc := rc s; o_wc := wc s;
     o_transfer := fun i l => exists vic, ph s i = RdFilled l vic \/ ph s i = WrFilled l vic |}.

(* ------------------------------------------------------------------------- *)
(* (1) the inductive invariant of the machine, line by line                   *)
Section Inv.
Variable N : nat.

Definition b2z (b : bool) : Z := if b then 1 else 0.
Definition count (f : nat -> bool) : Z := Z.of_nat (length (filter f (seq 0 N))).

(* what a phase on line l says about the core's own state and L1 for l *)
Definition phase_view (p : phase) (m : mstate) (b : option val) : Prop :=
  match p with
  | Idle => True
  | RdWait _ | RdFetched _ _ | WrWait _ | WrFetched _ _ => m = I /\ b = None
  | RdFilled _ _ | WrFilled _ _ => m = I /\ b <> None
  | ShRd _ | UpgWait _ => m = S /\ b <> None
  | OwnRd _ | OwnWr _ => m = M /\ b <> None
  end.

Definition own_ok (p : phase) (l : line) (m : mstate) (b : option val) (c : cmd) : Prop :=
  if on_line p l then c = NoCmd /\ phase_view p m b else (b <> None <-> m <> I).

Definition cmd_matches (c : cmd) (m : mstate) : Prop :=
  match c with NoCmd => True | Ev => m = S | Wb => m = M end.

Record InvL (s : st) (l : line) : Prop := {
  swmr : forall i j, (i < N)%nat -> (j < N)%nat -> ms s i l = M -> j <> i -> ms s j l = I;
  shared_clean : forall i, (i < N)%nat -> ms s i l = S -> l1 s i l = Some (mem s l);
  phases : forall i, (i < N)%nat -> own_ok (ph s i) l (ms s i l) (l1 s i l) (cm s i l);
  sem_r : rc s l = count (fun i => rd_on (ph s i) l);
  sem_w : wc s l = count (fun i => wr_on (ph s i) l);
  sem_x : wc s l <= 1 /\ (wc s l = 1 -> rc s l = 0);
  cmd_kind : forall j, (j < N)%nat -> cmd_matches (cm s j l) (ms s j l);
  fetched_rd : forall i v, (i < N)%nat -> ph s i = RdFetched l v -> v = mem s l /\ others_not_M N s i l;
  filled_rd : forall i vic, (i < N)%nat -> ph s i = RdFilled l vic -> l1 s i l = Some (mem s l) /\ others_not_M N s i l;
  fetched_wr : forall i v, (i < N)%nat -> ph s i = WrFetched l v -> others_I N s i l;
  filled_wr : forall i vic, (i < N)%nat -> ph s i = WrFilled l vic -> others_I N s i l
}.

Definition Inv (s : st) : Prop := forall l, InvL s l.

(* supporting conjunct for the code as it is (no guard on the lock
   transitions, no flush): an outstanding command (j, l) is justified by a
   core that holds l's semaphore and waits for it, or by j itself evicting l
   for capacity; either way j cannot start a transaction on l *)
Definition justifies (p : phase) (h j : nat) (l : line) (c : cmd) : Prop :=
  (h <> j /\ (p = WrWait l \/ p = UpgWait l \/ (p = RdWait l /\ c = Wb))) \/
  (h = j /\ exists l', p = RdFilled l' (Some l) \/ p = WrFilled l' (Some l)).
Definition just (s : st) (j : nat) (l : line) (c : cmd) : Prop :=
  exists h, (h < N)%nat /\ justifies (ph s h) h j l c.
Definition J (s : st) : Prop :=
  forall j l, (j < N)%nat -> cm s j l <> NoCmd -> just s j l (cm s j l).

End Inv.

(* ------------------------------------------------------------------------- *)
(* (2) snapshots of the implementation                                        *)
Definition data := list Z.   (* the bytes of a line *)

Record snap := {
  sn_cores : nat;
  sn_l1size : Z;
  sn_l3size : Z;                                   (* 0: no L3 *)
  sn_states : list (nat * line * Z);               (* msi.states: 0 invalid, 1 shared, 2 modified *)
  sn_l1 : list (nat * line * data);                (* every L1 line of every core: core, base, bytes *)
  sn_sems : list (line * Z * Z);                   (* msi.pendings: line, read, write *)
  sn_cmds : list (nat * line * Z * bool);          (* msi.commands: target, line, kind, done *)
  sn_tx : list (nat * bool * bool * list line * list line);
      (* per core: read coroutine active, write coroutine active, keys of rlockSems, keys of lockSems *)
  sn_l3 : list (line * data);                      (* 8.0: the shared L3 *)
  sn_l3dirty : list line;                          (* 8.0: L3 lines marked pending write (msi.l3Write) *)
  sn_mem : list (line * data);                     (* main memory, per L1-sized line mentioned anywhere *)
  sn_l3cap : Z;                                    (* 8.0: capacity of L3 in lines (0: no L3); Msi/L3Invariant.v *)
  sn_ref : list (line * data)                      (* rig only: per L1-sized line written so far, the bytes the
                                                      completed writes left (data-value reference); Msi/L3Invariant.v *)
}.

Definition pair_eqb (a b : nat * line) : bool := Nat.eqb (fst a) (fst b) && Z.eqb (snd a) (snd b).

Fixpoint lookup_state (l : list (nat * line * Z)) (i : nat) (k : line) : Z :=
  match l with
  | [] => 0
  | (j, a, v) :: t => if Nat.eqb j i && Z.eqb a k then v else lookup_state t i k
  end.
Definition mstate_of (z : Z) : mstate := if Z.eqb z 1 then S else if Z.eqb z 2 then M else I.
Definition s_ms (s : snap) (i : nat) (k : line) : mstate := mstate_of (lookup_state (sn_states s) i k).

Fixpoint lookup_l1 (l : list (nat * line * data)) (i : nat) (k : line) : option data :=
  match l with
  | [] => None
  | (j, a, d) :: t => if Nat.eqb j i && Z.eqb a k then Some d else lookup_l1 t i k
  end.
Definition s_l1 (s : snap) (i : nat) (k : line) : option data := lookup_l1 (sn_l1 s) i k.

Fixpoint lookup_line {A} (l : list (line * A)) (k : line) : option A :=
  match l with
  | [] => None
  | (a, d) :: t => if Z.eqb a k then Some d else lookup_line t k
  end.

Fixpoint lookup_sem (l : list (line * Z * Z)) (k : line) : Z * Z :=
  match l with
  | [] => (0, 0)
  | (a, r, w) :: t => if Z.eqb a k then (r, w) else lookup_sem t k
  end.
Definition s_rc (s : snap) (k : line) : Z := fst (lookup_sem (sn_sems s) k).
Definition s_wc (s : snap) (k : line) : Z := snd (lookup_sem (sn_sems s) k).

(* the L3 line that contains the L1-sized line k, cut down to that line *)
Fixpoint sub_l3 (l : list (line * data)) (l3size l1size : Z) (k : line) : option data :=
  match l with
  | [] => None
  | (a, d) :: t =>
      if Z.leb a k && Z.ltb k (a + l3size)
      then Some (firstn (Z.to_nat l1size) (skipn (Z.to_nat (k - a)) d))
      else sub_l3 t l3size l1size k
  end.
(* next level of the L1 line k: L3 when it holds the line, main memory otherwise *)
Definition s_next (s : snap) (k : line) : data :=
  match sub_l3 (sn_l3 s) (sn_l3size s) (sn_l1size s) k with
  | Some d => d
  | None => match lookup_line (sn_mem s) k with Some d => d | None => [] end
  end.

Fixpoint lookup_tx (l : list (nat * bool * bool * list line * list line)) (i : nat)
  : bool * bool * list line * list line :=
  match l with
  | [] => (false, false, [], [])
  | (j, ra, wa, rl, wl) :: t => if Nat.eqb j i then (ra, wa, rl, wl) else lookup_tx t i
  end.
Definition mem_line (k : line) (l : list line) : bool := existsb (Z.eqb k) l.
(* core i is inside a read (resp. write) transaction on line k *)
Definition s_rd_tx (s : snap) (i : nat) (k : line) : bool :=
  match lookup_tx (sn_tx s) i with (ra, _, rl, _) => ra && mem_line k rl end.
Definition s_wr_tx (s : snap) (i : nat) (k : line) : bool :=
  match lookup_tx (sn_tx s) i with (_, wa, _, wl) => wa && mem_line k wl end.
Definition has_cmd (s : snap) (i : nat) (k : line) : bool :=
  existsb (fun c => match c with (j, a, _, _) => Nat.eqb j i && Z.eqb a k end) (sn_cmds s).
(* a transfer of line k by core i is in progress: i is inside a transaction on k *)
Definition s_transfer (s : snap) (i : nat) (k : line) : bool := s_rd_tx s i k || s_wr_tx s i k.

Definition mstate_eqb (a b : mstate) : bool :=
  match a, b with I, I | S, S | M, M => true | _, _ => false end.
Fixpoint data_eqb (a b : data) : bool :=
  match a, b with
  | [], [] => true
  | x :: a', y :: b' => Z.eqb x y && data_eqb a' b'
  | _, _ => false
  end.
Definition is_some {A} (o : option A) : bool := match o with Some _ => true | None => false end.

(* every line mentioned by the snapshot (everything else is in the default
   state: Invalid everywhere, in no L1, counters 0, no command) *)
Definition lines_of (s : snap) : list line :=
  map (fun e => snd (fst e)) (sn_states s) ++ map (fun e => snd (fst e)) (sn_l1 s) ++
  map (fun e => fst (fst e)) (sn_sems s) ++ map (fun e => match e with (_, a, _, _) => a end) (sn_cmds s) ++
  concat (map (fun e => match e with (_, _, _, rl, wl) => rl ++ wl end) (sn_tx s)).
Definition cores_of (s : snap) : list nat := seq 0 (sn_cores s).

(* ---- the clauses as boolean functions ---- *)
Definition c1_b (s : snap) : bool :=
  forallb (fun k => forallb (fun i => forallb (fun j =>
    negb (mstate_eqb (s_ms s i k) M) || Nat.eqb j i || mstate_eqb (s_ms s j k) I)
    (cores_of s)) (cores_of s)) (lines_of s).
Definition c2_b (s : snap) : bool :=
  forallb (fun k => forallb (fun i =>
    negb (mstate_eqb (s_ms s i k) S) ||
    match s_l1 s i k with Some d => data_eqb d (s_next s k) | None => false end)
    (cores_of s)) (lines_of s).
Definition c3_b (s : snap) : bool :=
  forallb (fun k => forallb (fun i =>
    (mstate_eqb (s_ms s i k) I || is_some (s_l1 s i k)) &&
    (s_transfer s i k || negb (is_some (s_l1 s i k)) || negb (mstate_eqb (s_ms s i k) I)))
    (cores_of s)) (lines_of s).
(* 4: no two L1 entries of a core with the same base; bases multiples of the line size;
      every entry holds a full line *)
Fixpoint nodup_keys (l : list (nat * line)) : bool :=
  match l with
  | [] => true
  | x :: t => negb (existsb (pair_eqb x) t) && nodup_keys t
  end.
Definition c4_b (s : snap) : bool :=
  nodup_keys (map fst (sn_l1 s)) &&
  forallb (fun e => match e with (_, a, d) =>
     Z.eqb (a mod sn_l1size s) 0 && Z.eqb (Z.of_nat (length d)) (sn_l1size s) end) (sn_l1 s).
Definition c5_b (s : snap) : bool :=
  forallb (fun k => Z.leb 0 (s_rc s k) && Z.leb 0 (s_wc s k) && Z.leb (s_wc s k) 1 &&
                    (negb (Z.eqb (s_wc s k) 1) || Z.eqb (s_rc s k) 0)) (lines_of s).

(* ---- supporting conjuncts, evaluated on the implementation as well ---- *)
(* the kind of a command matches the state of its target (1 evict <-> Shared,
   2 write-back <-> Modified; the L3 commands of 8.0, kinds 3 and 4, are not L1
   commands and are skipped), its line is in the target's L1, and it is not done *)
Definition cmd_b (s : snap) : bool :=
  forallb (fun c => match c with (j, a, kind, done) =>
     if Z.eqb kind 1 then mstate_eqb (s_ms s j a) S && is_some (s_l1 s j a) && negb done
     else if Z.eqb kind 2 then mstate_eqb (s_ms s j a) M && is_some (s_l1 s j a) && negb done
     else true end) (sn_cmds s).
(* the counters of a line equal the number of cores inside a transaction on it:
   a read transaction of a core that is Modified holds the WRITE counter (rlock_M) *)
Definition zcount {A} (f : A -> bool) (l : list A) : Z := Z.of_nat (length (filter f l)).
Definition holds_rd (s : snap) (k : line) (i : nat) : bool :=
  s_rd_tx s i k && negb (mstate_eqb (s_ms s i k) M).
Definition holds_wr (s : snap) (k : line) (i : nat) : bool :=
  s_wr_tx s i k || (s_rd_tx s i k && mstate_eqb (s_ms s i k) M).
Definition sem_b (s : snap) : bool :=
  forallb (fun k => Z.eqb (s_rc s k) (zcount (holds_rd s k) (cores_of s)) &&
                    Z.eqb (s_wc s k) (zcount (holds_wr s k) (cores_of s))) (lines_of s).
(* every entry is about an existing core *)
Definition wf_b (s : snap) : bool :=
  forallb (fun e => Nat.ltb (fst (fst e)) (sn_cores s)) (sn_states s) &&
  forallb (fun e => Nat.ltb (fst (fst e)) (sn_cores s)) (sn_l1 s) &&
  forallb (fun c => match c with (j, _, _, _) => Nat.ltb j (sn_cores s) end) (sn_cmds s) &&
  Z.ltb 0 (sn_l1size s).

Inductive clause_name := C1_single_writer | C2_shared_clean | C3_l1_iff_valid | C4_l1_wellformed
                       | C5_lock_counters | S_command_matches_state | S_counters_match_transactions | S_wellformed.

Definition violated (s : snap) : list clause_name :=
  (if c1_b s then [] else [C1_single_writer]) ++
  (if c2_b s then [] else [C2_shared_clean]) ++
  (if c3_b s then [] else [C3_l1_iff_valid]) ++
  (if c4_b s then [] else [C4_l1_wellformed]) ++
  (if c5_b s then [] else [C5_lock_counters]) ++
  (if cmd_b s then [] else [S_command_matches_state]) ++
  (if sem_b s then [] else [S_counters_match_transactions]) ++
  (if wf_b s then [] else [S_wellformed]).

(* the property (clauses 1-5) on a snapshot *)
Definition inv_b (s : snap) : bool := c1_b s && c2_b s && c3_b s && c4_b s && c5_b s.
(* clauses + supporting conjuncts *)
Definition inv_full_b (s : snap) : bool := inv_b s && cmd_b s && sem_b s && wf_b s.

(* ---- the same as a Prop ---- *)
Definition obs_of_snap (s : snap) : obs data :=
  {| o_cores := sn_cores s; o_ms := s_ms s; o_l1 := s_l1 s; o_next := s_next s; o_rc := s_rc s; o_wc := s_wc s;
     o_transfer := fun i k => s_transfer s i k = true |}.

Definition l1_wellformed (s : snap) : Prop :=
  NoDup (map fst (sn_l1 s)) /\
  forall i a d, In (i, a, d) (sn_l1 s) -> a mod sn_l1size s = 0 /\ Z.of_nat (length d) = sn_l1size s.

Definition SInv (s : snap) : Prop := clauses (obs_of_snap s) /\ l1_wellformed s.

(* ---- evidence of a flush between two consecutive snapshots (for the
   attribution of violations to the known defects of cacheController.flush) ---- *)
Inductive flush_mark :=
| FM_filled (i : nat) (k : line)      (* a transaction on k vanished leaving k in L1 with state Invalid *)
| FM_stale_lock (i : nat) (k : line)  (* lockSems still has k although no write is in progress *)
| FM_own_read (i : nat) (k : line)    (* a read of a Modified line vanished with the write counter still held *)
| FM_l3_double_victim (k : line)      (* 8.0: two cores hold an L3 eviction command for the same L3 line *)
| FM_l3_stale (k : line)              (* 8.0: an L3 line that is not marked dirty differs from main memory *)
| FM_l3_evict_dirty (k : line)        (* 8.0: an l3Evict command (no write-back) is outstanding for an L3 line marked dirty *)
| FM_orphan_cmd (j : nat) (k : line). (* a command for (j, k) is outstanding although no other core is inside a
                                         transaction on k and j is not inside a transaction on another line
                                         (the snapshot form of the negation of J): its requester was flushed *)

Definition tx_lines (s : snap) (i : nat) : list line :=
  match lookup_tx (sn_tx s) i with (_, _, rl, wl) => rl ++ wl end.

Definition any_tx (s : snap) (i : nat) : bool :=
  match lookup_tx (sn_tx s) i with (ra, wa, _, _) => ra || wa end.
Definition orphan_cmds (b : snap) : list flush_mark :=
  flat_map (fun c => match c with (j, k, kind, _) =>
    if (Z.eqb kind 1 || Z.eqb kind 2) &&
       negb (existsb (fun i => negb (Nat.eqb i j) && s_transfer b i k) (cores_of b)) &&
       negb (any_tx b j && negb (s_transfer b j k))
    then [FM_orphan_cmd j k] else [] end) (sn_cmds b).

Definition is_l3_cmd (kind : Z) : bool := Z.eqb kind 3 || Z.eqb kind 4.
Definition l3_double_victims (b : snap) : list flush_mark :=
  flat_map (fun c => match c with (j, k, kind, _) =>
    if is_l3_cmd kind &&
       existsb (fun c' => match c' with (j', k', kind', _) => is_l3_cmd kind' && Z.eqb k' k && Nat.ltb j j' end) (sn_cmds b)
    then [FM_l3_double_victim k] else [] end) (sn_cmds b).

(* main memory under the L3 line at base a (the snapshot lists memory per L1-sized line) *)
Definition mem_under_l3 (s : snap) (a : line) : data :=
  flat_map (fun k => match lookup_line (sn_mem s) (a + Z.of_nat k * sn_l1size s) with Some d => d | None => [] end)
           (seq 0 (Z.to_nat (sn_l3size s / sn_l1size s))).
Definition l3_stale_lines (b : snap) : list flush_mark :=
  flat_map (fun e => match e with (a, d) =>
    if negb (mem_line a (sn_l3dirty b)) && negb (data_eqb d (mem_under_l3 b a)) then [FM_l3_stale a] else [] end)
    (sn_l3 b).

(* the kind of an L3 victim command is fixed when it is issued (msi.evictL3ExtraCacheLine reads
   l3Write then); a write-back into the victim line before the command runs makes it dirty *)
Definition l3_evict_dirty_cmds (b : snap) : list flush_mark :=
  flat_map (fun c => match c with (_, k, kind, _) =>
    if Z.eqb kind 3 && mem_line k (sn_l3dirty b) then [FM_l3_evict_dirty k] else [] end) (sn_cmds b).

Definition flush_marks (a b : snap) : list flush_mark :=
  l3_double_victims b ++ l3_stale_lines b ++ l3_evict_dirty_cmds b ++ orphan_cmds b ++
  flat_map (fun i =>
    flat_map (fun k =>
      (if s_transfer a i k && negb (s_transfer b i k) && is_some (s_l1 b i k) && mstate_eqb (s_ms b i k) I
       then [FM_filled i k] else []) ++
      (if s_rd_tx a i k && mstate_eqb (s_ms a i k) M && negb (s_rd_tx b i k) && Z.ltb (s_rc b k) 0
       then [FM_own_read i k] else []))
      (tx_lines a i) ++
    flat_map (fun k =>
      if match lookup_tx (sn_tx b) i with (_, wa, _, wl) => negb wa && mem_line k wl end
      then [FM_stale_lock i k] else [])
      (tx_lines b i))
    (cores_of b).
