(* C06 about the FAITHFUL model of MVP-7.0 (Mvp/Mvp70.v): definitions only.

   The memory system of a machine state st7 is the triple
       (w_mem (v_w s), w_i (v_w s), v_eus s)  =  (main memory, MSI directory, execute units with their
                                                   cache controllers)
   and a core is identified by its position in v_eus (the id the directory uses).

   1. views of the state (state_get / sem_get of Mvp70.v, l1_line, cur_post, transfer, ...)
   2. the clauses of the property as Props over (mem, i, eus): clause1_70 .. clause5_70, C06Inv70
   3. the supporting conjuncts (phase shapes, semaphore counting, commands) as BOOLEAN functions,
      with the boolean versions of the clauses: c06inv70_b (the property), c06full70_b (property + support)
   4. runs: flush-free steps (step_noflush7), reachability without flush (reach7nf), and an executable
      checker that evaluates a boolean judge at every cycle of a run (run7_check)
   No proofs in this file (Msi/M70Proofs*.v). *)
From Coq Require Import ZArith List Bool Lia.
From Maj Require Import Base.Outcome Base.GoInt Base.GoTypes Isa.Spec Isa.Seq.
From Maj Require Import Gen.Latency Gen.RiscTables Gen.Opcodes Comp.Cache Comp.Rat Mvp.Mvp12 Mvp.Mvp3 Mvp.Mvp5 Mvp.Mvp60 Mvp.Mvp63 Mvp.Mvp70.
Import ListNotations.
Open Scope Z_scope.

(* ------------------------------------------------------------------ *)
(* 1. views                                                             *)
(* ------------------------------------------------------------------ *)

(* an L1 line covers address x (Line.get of comp/cache.go) *)
Definition covers_b (l : line) (x : Z) : bool := (lo l <=? x) && (x <? hi l).
(* the L1 line that holds address a: the first line covering it, which is the one Get / GetCacheLine /
   EvictCacheLine / Write of comp.LRUCache act on.  A core HOLDS line a when this is Some. *)
Definition l1_line (c : cache) (a : Z) : option line := find (fun l => covers_b l a) (lines c).
Definition l1_holds (c : cache) (a : Z) : bool := match l1_line c a with Some _ => true | None => false end.

(* what mmu.fetchCacheLine returns for the line with base a (bytes past the end of memory read as 0) *)
Definition mem_line (mem : list Z) (a : Z) : list Z :=
  map (fun k => let x := a + Z.of_nat k in if x <? Z.of_nat (length mem) then nth (Z.to_nat x) mem 0 else 0)
      (seq 0 (Z.to_nat l1LineSize)).

(* the `post` closure the controller will run at the end of the transaction in progress, if any *)
Definition cur_post (c : cc7) : option post7 :=
  match c_rd c with
  | RPend _ _ p | RFetch _ _ _ p | REvict _ p => Some p
  | RL1 _ _ => Some (c_post c)
  | RStart =>
      match c_wr c with
      | WPend _ _ p | WFetch _ _ _ p | WEvict _ _ p => Some p
      | WL1 _ => Some (c_post c)
      | WStart => None
      end
  end.

Definition post_line (p : post7) : option Z :=
  match p with PNil => None | PShareRUnlock a | PModUnlock a | PRUnlock a | PUnlock a => Some a end.
(* the closure releases the READ counter / the WRITE counter of line a *)
Definition post_r (p : post7) (a : Z) : bool :=
  match p with PShareRUnlock b | PRUnlock b => b =? a | _ => false end.
Definition post_w (p : post7) (a : Z) : bool :=
  match p with PModUnlock b | PUnlock b => b =? a | _ => false end.

Definition holds_r (a : Z) (e : eu7) : bool := match cur_post (h_cc e) with Some p => post_r p a | None => false end.
Definition holds_w (a : Z) (e : eu7) : bool := match cur_post (h_cc e) with Some p => post_w p a | None => false end.
(* the line of the transaction in progress *)
Definition tx_line7 (e : eu7) : option Z := match cur_post (h_cc e) with Some p => post_line p | None => None end.
(* a TRANSFER of line a is in progress: the transaction will install the line (Invalid -> Shared, or -> Modified) *)
Definition transfer7 (e : eu7) (a : Z) : bool :=
  match cur_post (h_cc e) with
  | Some (PShareRUnlock b) | Some (PModUnlock b) => b =? a
  | _ => false
  end.

Definition cnt {A} (f : A -> bool) (l : list A) : Z := Z.of_nat (length (filter f l)).

(* a well-formed L1 line: base a non-negative multiple of the line size, a full line of data, and the upper
   bound as PushLineWithEvictionWarning computes it (int32 addition: the line with base 2^31-64 has hi = -2^31
   and covers no address) *)
Definition line_wf (l : line) : Prop :=
  0 <= lo l /\ lo l mod l1LineSize = 0 /\ zlen (data l) = l1LineSize /\ hi l = addS 32 (lo l) l1LineSize.
(* no address is covered by two lines of the L1 *)
Definition l1_wf (c : cache) : Prop :=
  llen c = l1LineSize /\ (forall x, cnt (fun l => covers_b l x) (lines c) <= 1) /\ (forall l, In l (lines c) -> line_wf l).

(* ------------------------------------------------------------------ *)
(* 2. the clauses of C06 over the faithful state                        *)
(* ------------------------------------------------------------------ *)

Section Clauses70.
Variables (mem : list Z) (i : msi7) (eus : list eu7).

Definition core (n : nat) : option eu7 := nth_error eus n.

(* 1: at most one core holds a line Modified, and then no other core holds it Shared (nor Modified) *)
Definition clause1_70 : Prop := forall id id' a, state_get i id a = stModified -> id' <> id -> state_get i id' a = stInvalid.
(* 2: a Shared line is in L1 and byte-identical to memory *)
Definition clause2_70 : Prop := forall n e a, core n = Some e -> a mod l1LineSize = 0 -> state_get i (Z.of_nat n) a = stShared ->
  exists l, l1_line (c_l1d (h_cc e)) a = Some l /\ data l = mem_line mem a.
(* 3: in L1 exactly when not Invalid, outside a transfer in progress ("not Invalid -> in L1" always);
      a line is named by its aligned base address *)
Definition clause3_70 : Prop := forall n e a, core n = Some e -> a mod l1LineSize = 0 ->
  (state_get i (Z.of_nat n) a <> stInvalid -> l1_holds (c_l1d (h_cc e)) a = true) /\
  (transfer7 e a = false -> l1_holds (c_l1d (h_cc e)) a = true -> state_get i (Z.of_nat n) a <> stInvalid).
(* 4: L1 never holds two copies of a line; lines are size-aligned (and full) *)
Definition clause4_70 : Prop := forall n e, core n = Some e -> l1_wf (c_l1d (h_cc e)).
(* 5: lock counters never negative (and a writer excludes everybody else) *)
Definition clause5_70 : Prop := forall a, 0 <= fst (sem_get i a) /\ 0 <= snd (sem_get i a) /\ snd (sem_get i a) <= 1 /\
  (snd (sem_get i a) = 1 -> fst (sem_get i a) = 0).

Definition C06Inv70 : Prop := clause1_70 /\ clause2_70 /\ clause3_70 /\ clause4_70 /\ clause5_70.

(* the part that needs no protocol reasoning (Msi/M70Proofs.v: holds in EVERY reachable state, flush or not) *)
Definition states_ok : Prop := forall id a, 0 <= state_get i id a <= 2.
Definition C06Struct70 : Prop := clause4_70 /\ clause5_70 /\ states_ok.

(* supporting: the counters of a line are exactly the numbers of cores inside a transaction that will release them *)
Definition sem_count70 : Prop := forall a, fst (sem_get i a) = cnt (holds_r a) eus /\ snd (sem_get i a) = cnt (holds_w a) eus.

End Clauses70.

(* ------------------------------------------------------------------ *)
(* 3. boolean judges                                                    *)
(* ------------------------------------------------------------------ *)

Fixpoint list_eqb (a b : list Z) : bool :=
  match a, b with
  | [], [] => true
  | x :: a', y :: b' => (x =? y) && list_eqb a' b'
  | _, _ => false
  end.

Fixpoint nodupZ (l : list Z) : bool :=
  match l with [] => true | x :: t => negb (memZ x t) && nodupZ t end.

Definition line_wf_b (l : line) : bool :=
  (0 <=? lo l) && (lo l mod l1LineSize =? 0) && (zlen (data l) =? l1LineSize) && (hi l =? addS 32 (lo l) l1LineSize).
Definition l1_wf_b (c : cache) : bool :=
  (llen c =? l1LineSize) && forallb (fun l0 => cnt (fun l => covers_b l (lo l0)) (lines c) <=? 1) (lines c) &&
  forallb line_wf_b (lines c).

Section Judges.
Variables (mem : list Z) (i : msi7) (eus : list eu7).

Definition ids : list nat := seq 0 (length eus).
Definition post_lines (e : eu7) : list Z :=
  match cur_post (h_cc e) with Some p => match post_line p with Some a => [a] | None => [] end | None => [] end.
(* every line the state mentions; everything else is Invalid everywhere, in no L1, counters 0, no command *)
Definition universe : list Z := nodup Z.eq_dec (
  map (fun e => snd (fst e)) (i_states i) ++ map fst (i_sems i) ++
  map (fun e => match e with (_, a, _, _) => a end) (i_cmds i) ++
  flat_map (fun e => map lo (lines (c_l1d (h_cc e))) ++ post_lines e ++ c_rsems (h_cc e) ++ c_wsems (h_cc e)) eus).
(* every core id the state mentions *)
Definition id_universe : list Z := nodup Z.eq_dec (
  map Z.of_nat ids ++ map (fun e => fst (fst e)) (i_states i) ++ map (fun e => match e with (id, _, _, _) => id end) (i_cmds i)).

Definition on_cores (f : nat -> eu7 -> bool) : bool :=
  forallb (fun n => match nth_error eus n with Some e => f n e | None => false end) ids.

Definition c1_70b : bool :=
  forallb (fun a => forallb (fun id => forallb (fun id' =>
    negb (state_get i id a =? stModified) || (id' =? id) || (state_get i id' a =? stInvalid))
    id_universe) id_universe) universe.
Definition c2_70b : bool :=
  on_cores (fun n e => forallb (fun a =>
    negb (state_get i (Z.of_nat n) a =? stShared) ||
    match l1_line (c_l1d (h_cc e)) a with Some l => list_eqb (data l) (mem_line mem a) | None => false end) universe).
Definition c3_70b : bool :=
  on_cores (fun n e => forallb (fun a =>
    ((state_get i (Z.of_nat n) a =? stInvalid) || l1_holds (c_l1d (h_cc e)) a) &&
    (transfer7 e a || negb (l1_holds (c_l1d (h_cc e)) a) || negb (state_get i (Z.of_nat n) a =? stInvalid))) universe).
Definition c4_70b : bool := on_cores (fun _ e => l1_wf_b (c_l1d (h_cc e))).
Definition sem_ok_b (s : Z * Z) : bool := (0 <=? fst s) && (0 <=? snd s) && (snd s <=? 1) && (negb (snd s =? 1) || (fst s =? 0)).
Definition c5_70b : bool := forallb (fun e => sem_ok_b (snd e)) (i_sems i).
Definition states_ok_b : bool := forallb (fun e => (0 <=? snd e) && (snd e <=? 2)) (i_states i).

Definition c06inv70_b : bool := c1_70b && c2_70b && c3_70b && c4_70b && c5_70b.
Definition c06struct70_b : bool := c4_70b && c5_70b && states_ok_b.

(* ---- supporting conjuncts ---- *)
Definition semcount_b : bool :=
  forallb (fun a => (fst (sem_get i a) =? cnt (holds_r a) eus) && (snd (sem_get i a) =? cnt (holds_w a) eus)) universe.

Definition others_all (id a : Z) (ok : Z -> bool) : bool :=
  forallb (fun id' => (id' =? id) || ok (state_get i id' a)) id_universe.
Definition not_M (s : Z) : bool := negb (s =? stModified).
Definition is_I (s : Z) : bool := s =? stInvalid.

Definition cmd_inb (id a rq : Z) : bool := existsb (fun e => cmd_key e id a rq) (i_cmds i).
Definition cmd_with (id a rq c : Z) : bool :=
  existsb (fun e => match e with (id', a', rq', c') => (id' =? id) && (a' =? a) && (rq' =? rq) && (c' =? c) end) (i_cmds i).
(* every other core whose state for a satisfies `need` has a command of the matching kind whose identity is in ps *)
Definition pend_cover (id a : Z) (ps : list Z) (wr : bool) : bool :=
  forallb (fun id' => (id' =? id) ||
     let s := state_get i id' a in
     if s =? stModified then existsb (fun c => cmd_with id' a rqWriteBack c) ps
     else if (s =? stShared) && wr then existsb (fun c => cmd_with id' a rqEvict c) ps
     else true) id_universe.
(* every command on line a to another core has its identity in ps *)
Definition pend_all (id a : Z) (ps : list Z) : bool :=
  forallb (fun e => match e with (id', a', _, c) => (id' =? id) || negb (a' =? a) || memZ c ps end) (i_cmds i).
(* the victim command of a fill: done, or a command to the core itself on another line *)
Definition victim_b (id a : Z) (pending : option Z) : bool :=
  match pending with
  | None => true
  | Some c => forallb (fun e => match e with (id', a', _, c') => negb (c' =? c) || ((id' =? id) && negb (a' =? a)) end) (i_cmds i)
  end.

Definition aligned_is (addrs : list Z) (a : Z) : bool := match aligned7 addrs with Ok b => b =? a | _ => false end.

(* the shape of a core: what its coroutine states say about its own directory state, its L1 and the rest *)
Definition shape_b (n : nat) (e : eu7) : bool :=
  let id := Z.of_nat n in
  let c := h_cc e in
  let st a := state_get i id a in
  let has a := l1_holds (c_l1d c) a in
  let clean a := match l1_line (c_l1d c) a with Some l => list_eqb (data l) (mem_line mem a) | None => false end in
  let rd_ties a := match h_co e with HRead addrs => aligned_is addrs a | _ => false end &&
                   list_eqb (c_rsems c) [a] && list_eqb (c_wsems c) [] in
  let wr_ties a := match h_co e with HWrite addrs _ => aligned_is addrs a | _ => false end &&
                   list_eqb (c_wsems c) [a] && list_eqb (c_rsems c) [] in
  match c_rd c, c_wr c with
  | RStart, WStart => list_eqb (c_rsems c) [] && list_eqb (c_wsems c) []
  | RPend ps fetch (PShareRUnlock a), WStart =>
      rd_ties a && fetch && (st a =? stInvalid) && negb (has a) && pend_cover id a ps false && pend_all id a ps
  | RFetch cyc la d (PShareRUnlock a), WStart =>
      rd_ties a && (la =? a) && (st a =? stInvalid) && (0 <=? cyc) && list_eqb d (mem_line mem a) && others_all id a not_M
  | REvict pending (PShareRUnlock a), WStart =>
      rd_ties a && (st a =? stInvalid) && clean a && others_all id a not_M && victim_b id a pending
  | RL1 cyc _, WStart =>
      (0 <=? cyc) &&
      match c_post c with
      | PShareRUnlock a => rd_ties a && (st a =? stInvalid) && clean a && others_all id a not_M
      | PRUnlock a => rd_ties a && (st a =? stShared)
      | PUnlock a => rd_ties a && (st a =? stModified)
      | _ => false
      end
  | RStart, WPend ps fetch (PModUnlock a) =>
      wr_ties a && (if fetch then (st a =? stInvalid) && negb (has a) else (st a =? stShared)) &&
      pend_cover id a ps true && pend_all id a ps
  | RStart, WFetch cyc la _ (PModUnlock a) =>
      wr_ties a && (la =? a) && (st a =? stInvalid) && (0 <=? cyc) && others_all id a is_I
  | RStart, WEvict pending cyc (PModUnlock a) =>
      wr_ties a && (st a =? stInvalid) && has a && (0 <=? cyc) && others_all id a is_I && victim_b id a pending
  | RStart, WL1 cyc =>
      (0 <=? cyc) &&
      match c_post c with
      | PModUnlock a => wr_ties a && negb (st a =? stModified) && has a && others_all id a is_I
      | PUnlock a => wr_ties a && (st a =? stModified)
      | _ => false
      end
  | _, _ => false
  end.
Definition shapes_b : bool := on_cores shape_b.

(* commands: the kind matches the state of the target; keys are unique; identities are below i_next;
   the target is not inside a transaction on the line *)
Definition cmds_b : bool :=
  forallb (fun e => match e with (id, a, rq, c) =>
     (((rq =? rqEvict) && (state_get i id a =? stShared)) || ((rq =? rqWriteBack) && (state_get i id a =? stModified))) &&
     (c <? i_next i) && (0 <=? id) && (id <? zlen eus) &&
     match nth_error eus (Z.to_nat id) with
     | Some t => negb (match tx_line7 t with Some b => b =? a | None => false end)
     | None => false
     end end) (i_cmds i) &&
  nodupZ (map (fun e => match e with (id, a, _, _) => id * 4294967296 * 4 + a end) (i_cmds i)).

(* a command is justified by a core that waits for it (RPend / WPend on that line) or by its target evicting
   the line for capacity (REvict / WEvict with that identity) *)
Definition waits_on (e : eu7) (a : Z) : bool :=
  match c_rd (h_cc e), c_wr (h_cc e) with
  | RPend _ _ p, _ => match post_line p with Some b => b =? a | None => false end
  | _, WPend _ _ p => match post_line p with Some b => b =? a | None => false end
  | _, _ => false
  end.
Definition evicts_with (e : eu7) (c : Z) : bool :=
  match c_rd (h_cc e), c_wr (h_cc e) with
  | REvict (Some c') _, _ => c' =? c
  | _, WEvict (Some c') _ _ => c' =? c
  | _, _ => false
  end.
Definition just_b : bool :=
  forallb (fun x => match x with (id, a, _, c) =>
     existsb (fun n => match nth_error eus n with
                       | Some e => (negb (Z.of_nat n =? id) && waits_on e a) || ((Z.of_nat n =? id) && evicts_with e c)
                       | None => false end) ids end) (i_cmds i).

(* the closures of the snoop list: each has its command; distinct lines *)
Definition snoop_b : bool :=
  on_cores (fun n e =>
    forallb (fun it => match it with
                       | SEvict a => cmd_inb (Z.of_nat n) a rqEvict
                       | SWriteBack a cyc => cmd_inb (Z.of_nat n) a rqWriteBack && (0 <=? cyc)
                       end) (c_snoop (h_cc e)) &&
    nodupZ (map (fun it => match it with SEvict a => a | SWriteBack a _ => a end) (c_snoop (h_cc e)))).

Definition seq0_b : bool := forallb (fun e => h_seq e =? 0) eus.

Definition c06full70_b : bool :=
  c06inv70_b && states_ok_b && semcount_b && shapes_b && cmds_b && just_b && snoop_b && seq0_b.

Inductive judge70 := J1 | J2 | J3 | J4 | J5 | JStates | JSem | JShape | JCmds | JJust | JSnoop | JSeq.
Definition violated70 : list judge70 :=
  (if c1_70b then [] else [J1]) ++ (if c2_70b then [] else [J2]) ++ (if c3_70b then [] else [J3]) ++
  (if c4_70b then [] else [J4]) ++ (if c5_70b then [] else [J5]) ++ (if states_ok_b then [] else [JStates]) ++
  (if semcount_b then [] else [JSem]) ++ (if shapes_b then [] else [JShape]) ++ (if cmds_b then [] else [JCmds]) ++
  (if just_b then [] else [JJust]) ++ (if snoop_b then [] else [JSnoop]) ++ (if seq0_b then [] else [JSeq]).

End Judges.

(* ------------------------------------------------------------------ *)
(* 4. runs                                                              *)
(* ------------------------------------------------------------------ *)

Definition st_mem (s : st7) : list Z := w_mem (v_w s).
Definition st_msi (s : st7) : msi7 := w_i (v_w s).

Definition C06Inv70_st (s : st7) : Prop := C06Inv70 (st_mem s) (st_msi s) (v_eus s).
Definition C06Struct70_st (s : st7) : Prop := C06Struct70 (st_msi s) (v_eus s).

(* the tick that starts in state s decides no pipeline flush and runs in none of the flush loops: no execute
   unit raises `flush` in the main loop (so no Pre hook fires: every unit keeps sequenceID 0) and CPU.flush is
   not reached *)
Definition step_noflush7 (hk : hooks7) (app : list instr) (labels : Z -> option Z) (ord : Z -> Z -> list Z -> list Z) (s : st7) : Prop :=
  match v_mode s with
  | QNormal =>
      forall w1 r z, k_front hk app ord (v_cycle s + 1) (v_w s) = Ok w1 -> snoops7 hk 0 w1 (v_eus s) = Ok r ->
        eus_main7 hk labels ord (v_cycle s + 1) 0 (fst r) (snd r) yo_none = Ok z -> y_flush (snd z) = false
  | QRet | QFinal => True
  | QFlushE _ _ _ | QFlushW _ _ _ _ _ => False
  end.
Definition step_noflush7_b (hk : hooks7) (app : list instr) (labels : Z -> option Z) (ord : Z -> Z -> list Z -> list Z) (s : st7) : bool :=
  match v_mode s with
  | QNormal =>
      match k_front hk app ord (v_cycle s + 1) (v_w s) with
      | Ok w1 => match snoops7 hk 0 w1 (v_eus s) with
                 | Ok r => match eus_main7 hk labels ord (v_cycle s + 1) 0 (fst r) (snd r) yo_none with
                           | Ok z => negb (y_flush (snd z))
                           | _ => true
                           end
                 | _ => true
                 end
      | _ => true
      end
  | QRet | QFinal => true
  | _ => false
  end.

(* the states of the flush-free prefix of a run *)
Inductive reach7nf (hk : hooks7) (app : list instr) (labels : Z -> option Z) (ord : Z -> Z -> list Z -> list Z) (s0 : st7) : st7 -> Prop :=
| r7_init : reach7nf hk app labels ord s0 s0
| r7_step s s' : reach7nf hk app labels ord s0 s -> step_noflush7 hk app labels ord s ->
    step7 hk app labels ord s = UCont s' -> reach7nf hk app labels ord s0 s'.
(* every state of a run *)
Inductive reach7 (hk : hooks7) (app : list instr) (labels : Z -> option Z) (ord : Z -> Z -> list Z -> list Z) (s0 : st7) : st7 -> Prop :=
| r7a_init : reach7 hk app labels ord s0 s0
| r7a_step s s' : reach7 hk app labels ord s0 s -> step7 hk app labels ord s = UCont s' -> reach7 hk app labels ord s0 s'.

(* evaluate a judge at every state of a run (initial state included); stops at the first tick that is not
   flush-free when nf = true.  Result: number of states judged, whether the run ended (true) or was cut by
   a flush / the fuel (false), and the first failure (tick number, what the judge returned) *)
Fixpoint run7_check {R} (judge : st7 -> option R) (nf : bool) (hk : hooks7) (fuel : nat) (app : list instr) (labels : Z -> option Z)
         (ord : Z -> Z -> list Z -> list Z) (s : st7) (n : Z) : Z * bool * option (Z * R) :=
  match judge s with
  | Some r => (n, false, Some (n, r))
  | None =>
      match fuel with
      | O => (n + 1, false, None)
      | S f =>
          if nf && negb (step_noflush7_b hk app labels ord s) then (n + 1, false, None)
          else match step7 hk app labels ord s with
               | UDone _ _ => (n + 1, true, None)
               | UCont s' => run7_check judge nf hk f app labels ord s' (n + 1)
               end
      end
  end.

Definition judge_full (s : st7) : option (list judge70) :=
  match violated70 (st_mem s) (st_msi s) (v_eus s) with [] => None | l => Some l end.
Definition judge_inv (s : st7) : option unit :=
  if c06inv70_b (st_mem s) (st_msi s) (v_eus s) then None else Some tt.
Definition judge_struct (s : st7) : option unit :=
  if c06struct70_b (st_msi s) (v_eus s) then None else Some tt.

Definition check70 {R} (judge : st7 -> option R) (nf : bool) (par : nat) (ord : Z -> Z -> list Z -> list Z) (fuel : nat)
           (app : list instr) (labels : Z -> option Z) (st : arch) : option (Z * bool * option (Z * R)) :=
  match init7 par ord app st with
  | Ok s => Some (run7_check judge nf hooks70 fuel app labels ord s 0)
  | _ => None
  end.
