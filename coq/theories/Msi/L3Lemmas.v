(* C06 / L3 - small facts used by Msi/L3Proofs.v: pointwise-equal core states,
   the list operations of L3 (inq / del / touch / last), alignment of grp,
   the ghost history. *)
From Coq Require Import List ZArith Lia Bool Arith.
From Maj Require Import Msi.Protocol Msi.Invariant Msi.InvProofs Msi.StepProofs Msi.CodedProofs
  Msi.L3Protocol Msi.L3Invariant.
Import ListNotations.
Open Scope Z_scope.

(* ---- pointwise equality of core states ---- *)
Lemma st_eq_refl a : st_eq a a.
Proof. constructor; auto. Qed.
Lemma st_eq_sym a b : st_eq a b -> st_eq b a.
Proof. intros [A B C D E F G]. constructor; intros; symmetry; auto. Qed.
Lemma st_eq_trans a b c : st_eq a b -> st_eq b c -> st_eq a c.
Proof.
  intros [A B C D E F G] [A' B' C' D' E' F' G'].
  constructor; intros; [rewrite A'|rewrite B'|rewrite C'|rewrite D'|rewrite E'|rewrite F'|rewrite G']; auto.
Qed.

Lemma inv_st_eq N a b : st_eq a b -> Inv N a -> Inv N b.
Proof. intros [A B C D E F G]. apply (inv_ext N a b); auto. Qed.

Lemma just_st_eq N a b j l c : st_eq a b -> just N a j l c -> just N b j l c.
Proof. intros E [h [Hh X]]. exists h. split; auto. now rewrite (eq_ph _ _ E). Qed.

Lemma J_st_eq N a b : st_eq a b -> J N a -> J N b.
Proof.
  intros E J0 j l Hj Hc. rewrite (eq_cm _ _ E) in *. apply (just_st_eq N a b); auto.
Qed.

Lemma DV_st_eq N a b lw lw' : st_eq a b -> (forall l, lw' l = lw l) -> DV N a lw -> DV N b lw'.
Proof.
  intros E Hl D l. destruct (D l) as [D1 D2]. rewrite Hl. split.
  - intros i Hi. rewrite (eq_ms _ _ E), (eq_l1 _ _ E). now apply D1.
  - intros H. rewrite (eq_mem _ _ E). apply D2. intros i Hi. rewrite <- (eq_ms _ _ E). now apply H.
Qed.

(* ---- inq / del / touch / last ---- *)
Lemma inq_iff b q : inq b q = true <-> In b q.
Proof.
  unfold inq. rewrite existsb_exists. split.
  - intros [x [Hin He]]. apply Z.eqb_eq in He. now subst.
  - intros H. exists b. split; auto. apply Z.eqb_refl.
Qed.
Lemma inq_false b q : inq b q = false <-> ~ In b q.
Proof.
  split.
  - intros H Hin. apply inq_iff in Hin. congruence.
  - intros H. destruct (inq b q) eqn:E; auto. apply inq_iff in E. contradiction.
Qed.

Lemma del_in x b q : In x (del b q) <-> In x q /\ x <> b.
Proof.
  unfold del. rewrite filter_In, negb_true_iff, Z.eqb_neq. tauto.
Qed.
Lemma del_nodup b q : NoDup q -> NoDup (del b q).
Proof. apply NoDup_filter. Qed.
Lemma del_length_le b q : (length (del b q) <= length q)%nat.
Proof. unfold del. induction q as [|a q IH]; simpl; [lia|]. destruct (negb (a =? b)); simpl; lia. Qed.
Lemma del_length_lt b q : In b q -> (length (del b q) < length q)%nat.
Proof.
  unfold del. induction q as [|a q IH]; simpl; [tauto|]. intros [->|Hin].
  - rewrite Z.eqb_refl. simpl. pose proof (del_length_le b q). unfold del in H. lia.
  - specialize (IH Hin). destruct (negb (a =? b)); simpl; lia.
Qed.
Lemma del_length_nodup b q : NoDup q -> In b q -> Datatypes.S (length (del b q)) = length q.
Proof.
  unfold del. induction q as [|a q IH]; simpl; [tauto|]. intros Hnd Hin.
  inversion Hnd as [|? ? Hna Hnd']; subst. destruct (Z.eqb_spec a b) as [->|Hne]; simpl.
  - f_equal. clear IH Hin Hnd. induction q as [|c q IH]; simpl; auto.
    destruct (Z.eqb_spec c b) as [->|Hc]; simpl.
    + exfalso. apply Hna. now left.
    + f_equal. apply IH.
      * intro; apply Hna; now right.
      * now inversion Hnd'.
  - destruct Hin as [Heq|Hin]; [congruence|]. f_equal. now apply IH.
Qed.

Lemma touch_in x b q : In x (touch b q) <-> In x q.
Proof.
  unfold touch. destruct (inq b q) eqn:E; [|tauto]. apply inq_iff in E. simpl. rewrite del_in.
  split.
  - intros [<-|[H _]]; auto.
  - intros H. destruct (Z.eq_dec x b) as [->|Hne]; auto.
Qed.
Lemma touch_nodup b q : NoDup q -> NoDup (touch b q).
Proof.
  intros H. unfold touch. destruct (inq b q); auto. constructor; [|now apply del_nodup].
  rewrite del_in. tauto.
Qed.
Lemma touch_length b q : NoDup q -> length (touch b q) = length q.
Proof.
  intros H. unfold touch. destruct (inq b q) eqn:E; auto. apply inq_iff in E. simpl.
  now apply del_length_nodup.
Qed.
Lemma inq_touch x b q : inq x (touch b q) = inq x q.
Proof.
  destruct (inq x q) eqn:E.
  - apply inq_iff. apply touch_in. now apply inq_iff.
  - apply inq_false. rewrite touch_in. now apply inq_false.
Qed.

Lemma last_in (q : list line) d : q <> [] -> In (last q d) q.
Proof.
  induction q as [|a q IH]; [congruence|]. intros _. destruct q as [|c q]; [now left|].
  right. apply IH. discriminate.
Qed.

(* ---- alignment ---- *)
Lemma grp_aligned w l : 0 < w -> grp w l mod w = 0.
Proof. intros Hw. unfold grp. rewrite Zminus_mod_idemp_r. rewrite Z.sub_diag. apply Z.mod_0_l. lia. Qed.

(* ---- the ghost history ---- *)
Definition lw_after (lab : label) (lw : line -> val) : line -> val :=
  match lab with
  | L_settle_wr i l v | L_settle_upg i l v | L_done_ownwr i l v => updl lw l v
  | _ => lw
  end.

Lemma lastw_after m0 lab h l : lastw m0 (hist_after lab h) l = lw_after lab (lastw m0 h) l.
Proof.
  destruct lab; simpl; auto; unfold updl; destruct (Z.eqb_spec l0 l), (Z.eqb_spec l l0); subst; auto; congruence.
Qed.

Lemma inq_cons x b q : inq x (b :: q) = Z.eqb x b || inq x q.
Proof. reflexivity. Qed.
Lemma inq_del x b q : inq x (del b q) = negb (Z.eqb x b) && inq x q.
Proof.
  destruct (Z.eqb_spec x b) as [->|Hne]; simpl.
  - apply inq_false. rewrite del_in. tauto.
  - destruct (inq x q) eqn:E.
    + apply inq_iff. apply del_in. split; auto. now apply inq_iff.
    + apply inq_false. rewrite del_in. apply inq_false in E. tauto.
Qed.
Lemma full_nonempty (q : list line) cap : (0 < cap)%nat -> Nat.leb cap (length q) = true -> q <> [].
Proof. intros Hc H. apply Nat.leb_le in H. destruct q; simpl in *; [lia|discriminate]. Qed.
