(* C06 (d) - DATA VALUE on the two-level machine of Msi/Protocol.v: if lw is
   the last value written to each line, then after any transition lw_after is.
   Needs Inv (the kind of a command matches the state of its target, a phase
   fixes the state of its core, single writer).  Lifted to the three-level
   machine in Msi/L3Proofs.v through `view`. *)
From Coq Require Import List ZArith Lia Bool Arith.
From Maj Require Import Msi.Protocol Msi.Invariant Msi.InvProofs Msi.StepProofs Msi.CodedProofs
  Msi.L3Protocol Msi.L3Invariant Msi.L3Lemmas.
Import ListNotations.
Open Scope Z_scope.

Section DataValue.
Variable N : nat.
Notation Inv := (Inv N).
Notation DV := (DV N).

(* nothing a Modified copy or the next level depends on changed *)
Lemma dv_weak s s' lw :
  (forall j k, ms s' j k = ms s j k) -> (forall k, mem s' k = mem s k) ->
  (forall j k, (j < N)%nat -> ms s j k = M -> l1 s' j k = l1 s j k) ->
  DV s lw -> DV s' lw.
Proof.
  intros Hm Hmem Hl D l. destruct (D l) as [D1 D2]. split.
  - intros i Hi. rewrite Hm. intros HM. rewrite Hl; auto.
  - intros H. rewrite Hmem. apply D2. intros i Hi. rewrite <- Hm. auto.
Qed.

Lemma phase_state s l i : Inv s -> (i < N)%nat -> tx_line (ph s i) = Some l ->
  phase_view (ph s i) (ms s i l) (l1 s i l).
Proof. intros I0 Hi Ht. apply (view_on N s l (I0 l) i Hi). now apply on_line_iff. Qed.

Lemma upd2_at {A} (f : nat -> line -> A) i l x j k :
  upd2 f i l x j k = if Nat.eqb j i && Z.eqb k l then x else f j k.
Proof. reflexivity. Qed.

(* the core's own entry for l changes, its state for l is not Modified before *)
Lemma dv_own_l1 s s' lw i l b' :
  (forall j k, ms s' j k = ms s j k) -> (forall k, mem s' k = mem s k) ->
  (forall j k, l1 s' j k = upd2 (l1 s) i l b' j k) -> ms s i l <> M ->
  DV s lw -> DV s' lw.
Proof.
  intros Hm Hmem Hl Hn. apply dv_weak; auto.
  intros j k Hj HM. rewrite Hl, upd2_at.
  destruct (Nat.eqb_spec j i) as [->|]; simpl; auto. destruct (Z.eqb_spec k l) as [->|]; auto. congruence.
Qed.

(* a write completes: core i becomes / stays the only Modified holder of l with value v *)
Lemma dv_write s s' lw i l v :
  (i < N)%nat ->
  (forall j k, ms s' j k = upd2 (ms s) i l M j k) -> (forall k, mem s' k = mem s k) ->
  (forall j k, l1 s' j k = upd2 (l1 s) i l (Some v) j k) ->
  (forall j, (j < N)%nat -> j <> i -> ms s j l <> M) ->
  (ms s i l = M \/ forall j, (j < N)%nat -> ms s j l <> M) ->
  DV s lw -> DV s' (updl lw l v).
Proof.
  intros Hi Hm Hmem Hl Ho Hown D k. destruct (D k) as [D1 D2]. unfold updl.
  destruct (Z.eqb_spec k l) as [->|Hk].
  - split.
    + intros j Hj. rewrite Hm, Hl, !upd2_at, Z.eqb_refl, andb_true_r.
      destruct (Nat.eqb_spec j i) as [->|Hne]; auto. intros HM. exfalso. exact (Ho j Hj Hne HM).
    + intros H. exfalso. apply (H i Hi). rewrite Hm, upd2_at, Nat.eqb_refl, Z.eqb_refl. reflexivity.
  - split.
    + intros j Hj. rewrite Hm, Hl, !upd2_at. destruct (Z.eqb_spec k l); [congruence|].
      rewrite andb_false_r. auto.
    + intros H. rewrite Hmem. apply D2. intros j Hj. specialize (H j Hj).
      now rewrite Hm, upd2_other_line in H by auto.
Qed.

(* core j drops its copy of l (state -> Invalid); the next level of l holds
   lw l afterwards (it did before, or j's Modified copy was written to it) *)
Lemma dv_drop s s' lw j l :
  (forall a k, ms s' a k = upd2 (ms s) j l I a k) ->
  (forall a k, l1 s' a k = upd2 (l1 s) j l None a k) ->
  (forall k, k <> l -> mem s' k = mem s k) ->
  ((ms s j l <> M /\ mem s' l = mem s l) \/ mem s' l = lw l) ->
  DV s lw -> DV s' lw.
Proof.
  intros Hm Hl Hmem Hcase D k. destruct (D k) as [D1 D2]. split.
  - intros a Ha. rewrite Hm, Hl, !upd2_at. destruct (Nat.eqb a j && Z.eqb k l); [discriminate|auto].
  - intros H. destruct (Z.eq_dec k l) as [->|Hk].
    + destruct Hcase as [[Hn Hsame]|Hlw]; auto. rewrite Hsame. apply D2. intros a Ha.
      specialize (H a Ha). rewrite Hm in H.
      destruct (Nat.eq_dec a j) as [E|E]; [subst a; exact Hn|now rewrite upd2_other_core in H by auto].
    + rewrite Hmem by auto. apply D2. intros a Ha. specialize (H a Ha).
      now rewrite Hm, upd2_other_line in H by auto.
Qed.

Lemma dv_flush s i lw : Inv s -> (i < N)%nat -> DV s lw -> DV (flush_rep s i) lw.
Proof.
  intros I0 Hi D. unfold flush_rep. destruct (ph s i) eqn:Hp; auto.
  all: try (apply (dv_weak s); simpl; auto; fail).
  all: apply (dv_own_l1 s _ lw i l None); simpl; auto.
  all: pose proof (phase_state s l i I0 Hi) as V; rewrite Hp in V; specialize (V eq_refl);
    simpl in V; destruct V as [-> _]; discriminate.
Qed.

Theorem dv_step g fm s lab s' lw :
  Inv s -> DV s lw -> step N g fm s lab s' -> DV s' (lw_after lab lw).
Proof.
  intros I0 D Hs. inversion Hs; subst; clear Hs; simpl lw_after.
  all: try (apply (dv_weak s); simpl; auto; fail).
  - (* fill_rd *)
    apply (dv_own_l1 s _ lw i l (Some v)); simpl; auto.
    pose proof (phase_state s l i I0 H) as V. rewrite H0 in V. specialize (V eq_refl). simpl in V.
    destruct V as [-> _]. discriminate.
  - (* settle_rd *)
    intros k. destruct (D k) as [D1 D2]. simpl. split.
    + intros j Hj. rewrite upd2_at. destruct (Nat.eqb j i && Z.eqb k l); [discriminate|auto].
    + intros Hn. apply D2. intros j Hj. specialize (Hn j Hj).
      destruct (Nat.eq_dec j i) as [E|E]; [subst j|now rewrite upd2_other_core in Hn by auto].
      destruct (Z.eq_dec k l) as [E|E]; [subst k|now rewrite upd2_other_line in Hn by auto].
      pose proof (phase_state s l i I0 H) as V. rewrite H0 in V. specialize (V eq_refl). simpl in V.
      destruct V as [-> _]. discriminate.
  - (* fill_wr *)
    apply (dv_own_l1 s _ lw i l (Some v)); simpl; auto.
    pose proof (phase_state s l i I0 H) as V. rewrite H0 in V. specialize (V eq_refl). simpl in V.
    destruct V as [-> _]. discriminate.
  - (* settle_wr *)
    pose proof (filled_wr _ _ _ (I0 l) i vic H H0) as Ho.
    pose proof (phase_state s l i I0 H) as V. rewrite H0 in V. specialize (V eq_refl). simpl in V.
    destruct V as [Vm _].
    apply (dv_write s _ lw i l v'); simpl; auto.
    + intros j Hj Hne. rewrite (Ho j Hj Hne). discriminate.
    + right. intros j Hj. destruct (Nat.eq_dec j i) as [->|Hne]; [rewrite Vm|rewrite (Ho j Hj Hne)]; discriminate.
  - (* settle_upg *)
    pose proof (phase_state s l i I0 H) as V. rewrite H0 in V. specialize (V eq_refl). simpl in V.
    destruct V as [Vm _].
    apply (dv_write s _ lw i l v'); simpl; auto.
    + intros j Hj Hne. rewrite (H1 j Hj Hne). discriminate.
    + right. intros j Hj. destruct (Nat.eq_dec j i) as [->|Hne]; [rewrite Vm|rewrite (H1 j Hj Hne)]; discriminate.
  - (* done_ownwr *)
    pose proof (phase_state s l i I0 H) as V. rewrite H0 in V. specialize (V eq_refl). simpl in V.
    destruct V as [Vm _].
    assert (Ho : forall j, (j < N)%nat -> j <> i -> ms s j l <> M).
    { intros j Hj Hne. rewrite (swmr _ _ _ (I0 l) i j H Hj Vm Hne). discriminate. }
    apply (dv_write s _ lw i l v'); simpl; auto.
    intros j k. rewrite upd2_at. destruct (Nat.eqb_spec j i) as [->|]; simpl; auto.
    destruct (Z.eqb_spec k l) as [->|]; auto.
  - (* cmd_evict_done *)
    apply (dv_drop s _ lw j l); simpl; auto. left. split; auto.
    pose proof (cmd_kind _ _ _ (I0 l) j H) as K. rewrite H0 in K. simpl in K. rewrite K. discriminate.
  - (* cmd_writeback_done *)
    apply (dv_drop s _ lw j l); simpl; auto.
    + intros k Hk. now rewrite updl_other.
    + right. rewrite updl_same.
      pose proof (cmd_kind _ _ _ (I0 l) j H) as K. rewrite H0 in K. simpl in K.
      destruct (D l) as [D1 _]. specialize (D1 j H K). congruence.
  - (* export *)
    intros k. destruct (D k) as [D1 D2]. simpl. split; auto.
    intros Hn. unfold updl. destruct (Z.eqb_spec k l) as [->|]; auto.
    destruct (D l) as [E1 _]. specialize (E1 i H H0). congruence.
  - (* flush *) now apply dv_flush.
Qed.

Lemma dv_init m0 : DV (init m0) m0.
Proof. intros l. simpl. split; [discriminate|auto]. Qed.

(* every valid L1 copy holds the last value written *)
Theorem dv_valid_copy s lw i l : Inv s -> DV s lw -> (i < N)%nat -> ms s i l <> I -> l1 s i l = Some (lw l).
Proof.
  intros I0 D Hi Hm. destruct (D l) as [D1 D2]. destruct (ms s i l) eqn:Em; [congruence| |now apply D1].
  rewrite (shared_clean _ _ _ (I0 l) i Hi Em). f_equal. apply D2.
  intros j Hj HM. destruct (Nat.eq_dec j i) as [->|Hne]; [congruence|].
  pose proof (swmr _ _ _ (I0 l) j i Hj Hi HM ltac:(congruence)). congruence.
Qed.

Lemma M_dec s l : (exists i, (i < N)%nat /\ ms s i l = M) \/ (forall i, (i < N)%nat -> ms s i l <> M).
Proof.
  induction N as [|n IH].
  - right. intros i Hi. lia.
  - destruct IH as [[i [Hi HM]]|Hn].
    + left. exists i. split; auto.
    + destruct (ms s n l) eqn:E.
      * right. intros i Hi. destruct (Nat.eq_dec i n) as [->|]; [rewrite E; discriminate|apply Hn; lia].
      * right. intros i Hi. destruct (Nat.eq_dec i n) as [->|]; [rewrite E; discriminate|apply Hn; lia].
      * left. exists n. split; auto.
Qed.

End DataValue.

(* ---- the two-level machine itself (MVP-7.0 / 7.1): reachability with the
   ghost history of completed writes ---- *)
Inductive hreach (N : nat) (g : bool) (fm : flush_mode) (m0 : line -> val) : st -> list wr_event -> Prop :=
| hr_init : hreach N g fm m0 (init m0) []
| hr_step s h lab s' : hreach N g fm m0 s h -> step N g fm s lab s' -> hreach N g fm m0 s' (hist_after lab h).

Theorem dv_reachable_coded N m0 s h : hreach N false NoFlush m0 s h ->
  Inv N s /\ J N s /\ DV N s (lastw m0 h).
Proof.
  induction 1 as [|s h lab s' Hr [I0 [J0 D0]] Hs].
  - split; [apply inv_init|split; [apply J_init|]].
    apply (DV_st_eq N (init m0) _ m0); [apply st_eq_refl|reflexivity|apply dv_init].
  - destruct (inv_step_coded N s lab s' I0 J0 Hs) as [I1 J1]. split; [|split]; auto.
    apply (DV_st_eq N s' _ (lw_after lab (lastw m0 h))); [apply st_eq_refl|apply lastw_after|].
    now apply (dv_step N false NoFlush s).
Qed.

Theorem dv_reachable_guarded N fm m0 s h : hreach N true fm m0 s h -> Inv N s /\ DV N s (lastw m0 h).
Proof.
  induction 1 as [|s h lab s' Hr [I0 D0] Hs].
  - split; [apply inv_init|].
    apply (DV_st_eq N (init m0) _ m0); [apply st_eq_refl|reflexivity|apply dv_init].
  - assert (I1 : Inv N s').
    { apply (inv_step N true fm s lab s' I0 Hs).
      intros i l Hl. inversion Hs; subst; simpl in Hl; try discriminate; inversion Hl; subst;
        match goal with H : lock_guard _ _ _ _ |- _ => apply H; reflexivity end. }
    split; auto.
    apply (DV_st_eq N s' _ (lw_after lab (lastw m0 h))); [apply st_eq_refl|apply lastw_after|].
    now apply (dv_step N true fm s).
Qed.
