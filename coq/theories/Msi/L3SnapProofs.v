(* C06 - the boolean L3 / data-value judge of a snapshot is the Prop:
   l3_b s = true <-> L3SInv s  (definitions in Msi/L3Invariant.v). *)
From Coq Require Import List ZArith Lia Bool Arith.
From Maj Require Import Msi.Protocol Msi.Invariant Msi.SnapProofs Msi.L3Protocol Msi.L3Invariant.
Import ListNotations.
Open Scope Z_scope.

Lemma mem_line_iff x l : mem_line x l = true <-> In x l.
Proof.
  unfold mem_line. rewrite existsb_exists. split.
  - intros [y [Hin He]]. apply Z.eqb_eq in He. now subst.
  - intros H. exists x. split; auto. apply Z.eqb_refl.
Qed.

Lemma nodup_lines_iff l : nodup_lines l = true <-> NoDup l.
Proof.
  induction l as [|a l IH]; cbn [nodup_lines].
  - split; [constructor|reflexivity].
  - rewrite andb_true_iff, negb_true_iff, IH. split.
    + intros [H1 H2]. constructor; auto. intro Hin. apply mem_line_iff in Hin. congruence.
    + intros H. inversion H; subst. split; auto.
      destruct (mem_line a l) eqn:E; auto. apply mem_line_iff in E. contradiction.
Qed.

Lemma l3_wf_iff s : l3_wf_b s = true <-> l3_wellformed s.
Proof.
  unfold l3_wf_b, l3_wellformed. rewrite andb_true_iff, nodup_lines_iff, forallb_forall.
  split; intros [Hn H]; split; auto.
  - intros a d Hin. specialize (H _ Hin). cbn beta iota in H. rewrite andb_true_iff, !Z.eqb_eq in H. exact H.
  - intros [a d] Hin. destruct (H a d Hin). rewrite andb_true_iff, !Z.eqb_eq. auto.
Qed.

Lemma l3_cap_iff s : l3_cap_b s = true <-> l3_within_capacity s.
Proof. unfold l3_cap_b, l3_within_capacity. apply Z.leb_le. Qed.

Lemma l3_clean_iff s : l3_clean_b s = true <-> l3_clean_eq_memory s.
Proof.
  unfold l3_clean_b, l3_clean_eq_memory. rewrite forallb_forall. split.
  - intros H a d Hin Hd. specialize (H _ Hin). cbn beta iota in H. rewrite Hd in H. simpl in H.
    now apply data_eqb_eq.
  - intros H [a d] Hin. destruct (mem_line a (sn_l3dirty s)) eqn:E; auto. simpl.
    apply data_eqb_eq. now apply H.
Qed.

Lemma opt_data_eqb_eq o d : opt_data_eqb o d = true <-> o = Some d.
Proof.
  destruct o as [d'|]; simpl.
  - rewrite data_eqb_eq. split; [intros ->; reflexivity|intros H; now inversion H].
  - split; discriminate.
Qed.

Lemma dv_entry_iff s k d :
  forallb (fun i => negb (mstate_eqb (s_ms s i k) M) || opt_data_eqb (s_l1 s i k) d) (cores_of s) &&
  (existsb (fun i => mstate_eqb (s_ms s i k) M) (cores_of s) || data_eqb (s_next s k) d) = true
  <-> (forall i, (i < sn_cores s)%nat -> s_ms s i k = M -> s_l1 s i k = Some d) /\
      ((forall i, (i < sn_cores s)%nat -> s_ms s i k <> M) -> s_next s k = d).
Proof.
  rewrite andb_true_iff, forallb_forall. split.
  - intros [H1 H2]. split.
    + intros i Hi HM. specialize (H1 i (proj2 (in_cores s i) Hi)).
      rewrite orb_true_iff, negb_true_iff in H1. destruct H1 as [H1|H1].
      * apply mstate_eqb_eq in HM. congruence.
      * now apply opt_data_eqb_eq.
    + intros Hn. rewrite orb_true_iff in H2. destruct H2 as [H2|H2].
      * apply existsb_exists in H2. destruct H2 as [i [Hin HM]]. apply in_cores in Hin.
        apply mstate_eqb_eq in HM. exfalso. exact (Hn i Hin HM).
      * now apply data_eqb_eq.
  - intros [H1 H2]. split.
    + intros i Hin. apply in_cores in Hin. destruct (mstate_eqb (s_ms s i k) M) eqn:E; auto. simpl.
      apply opt_data_eqb_eq. apply H1; auto. now apply mstate_eqb_eq.
    + destruct (existsb (fun i => mstate_eqb (s_ms s i k) M) (cores_of s)) eqn:E; auto. simpl.
      apply data_eqb_eq. apply H2. intros i Hi HM.
      assert (X : existsb (fun i => mstate_eqb (s_ms s i k) M) (cores_of s) = true).
      { apply existsb_exists. exists i. split; [now apply in_cores|now apply mstate_eqb_eq]. }
      congruence.
Qed.

Lemma dv_iff s : dv_b s = true <-> data_value s.
Proof.
  unfold dv_b, data_value. rewrite forallb_forall. split.
  - intros H k d Hin. specialize (H _ Hin). cbn beta iota in H. now apply dv_entry_iff.
  - intros H [k d] Hin. apply dv_entry_iff. now apply H.
Qed.

Theorem l3_b_correct : forall s, l3_b s = true <-> L3SInv s.
Proof.
  intros s. unfold l3_b, L3SInv. rewrite !andb_true_iff, l3_wf_iff, l3_cap_iff, l3_clean_iff, dv_iff. tauto.
Qed.

(* the list of violated clauses is empty exactly when the judge says true *)
Theorem violated3_nil : forall s, violated3 s = [] <-> l3_b s = true.
Proof.
  intros s. unfold violated3, l3_b.
  destruct (l3_wf_b s), (l3_cap_b s), (l3_clean_b s), (dv_b s); simpl; split; intros; congruence.
Qed.
