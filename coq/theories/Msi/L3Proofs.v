(* C06 - the three-level machine (Msi/L3Protocol.v), REPAIRED refill: every
   transition is, on the state the cores see (`view`: next level = L3 copy if
   present, else main memory), either a transition of the two-level machine of
   Msi/Protocol.v or invisible - up to pointwise equality of states.  Hence
   Inv (clauses 1-5, with "next level" = L3 / memory), the L3 invariant L3I
   and the data-value invariant DV hold in every reachable state, for every
   number of cores, every interleaving, every length. *)
From Coq Require Import List ZArith Lia Bool Arith.
From Maj Require Import Msi.Protocol Msi.Invariant Msi.InvProofs Msi.StepProofs Msi.CodedProofs
  Msi.L3Protocol Msi.L3Invariant Msi.L3Lemmas Msi.L3DataValue.
Import ListNotations.
Open Scope Z_scope.

(* ---- the lifted transitions neither read nor write the next level ---- *)
Lemma core_lab_mem N g fm b lab b' : core_lab lab = true -> step N g fm b lab b' -> mem b' = mem b.
Proof.
  intros Hc Hs. destruct Hs; simpl in *; try discriminate; try reflexivity.
  unfold flush_rep. destruct (ph s i); reflexivity.
Qed.

Lemma flush_rep_set_mem s i m : set_mem (flush_rep s i) m = flush_rep (set_mem s m) i.
Proof. unfold flush_rep, set_mem. simpl. destruct (ph s i); reflexivity. Qed.

Lemma step_set_mem N g fm b lab b' m : core_lab lab = true -> step N g fm b lab b' ->
  step N g fm (set_mem b m) lab (set_mem b' m).
Proof.
  intros Hc Hs. destruct Hs; simpl in Hc; try discriminate.
  all: try (econstructor; eassumption).
  - apply (fill_rd N g fm i l v vic (set_mem s m)); assumption.
  - apply (fill_wr N g fm i l v vic (set_mem s m)); assumption.
  - rewrite flush_rep_set_mem. now constructor.
Qed.

(* msi.evictL1ExtraCacheLine of MVP-8.0 sends l1Evict for an Invalid victim too
   (7.0 / 7.1: nothing), and coSnoop then panics on assertAddrInState: under
   the invariant the LRU victim of a fill is never Invalid, so req_victim of
   Msi/Protocol.v is what 8.0 does as well *)
Lemma victim_not_invalid N s i l a : Inv N s -> (i < N)%nat -> tx_line (ph s i) = Some l ->
  victim_ok s i l (Some a) -> ms s i a <> I.
Proof.
  intros I0 Hi Ht [Hne Hl]. apply (view_off N s a (I0 a) i Hi); auto.
  apply (on_line_false _ _ l); auto.
Qed.

Section L3P.
Variable N : nat.
Variable w : Z.
Variable cap : nat.
Hypothesis Hw : 0 < w.
Hypothesis Hcap : (0 < cap)%nat.

Notation refill := (refill w cap).
Notation store_next := (store_next w).
Notation next := (next w).
Notation view := (view w).
Notation in_l3 := (in_l3 w).
Notation grp := (grp w).
Notation L3I := (L3I w cap).

(* ---- what the cores see of the next level after an L3 transition ---- *)
Lemma vic_in s : L3I s -> Nat.leb cap (length (l3q s)) = true -> In (last (l3q s) 0) (l3q s).
Proof. intros _ H. apply last_in. now apply (full_nonempty _ cap). Qed.

Lemma next_refill s l k : L3I s -> in_l3 s l = false -> next (refill s l) k = next s k.
Proof.
  intros L Hl. unfold L3Protocol.next, L3Protocol.in_l3, L3Protocol.refill. simpl.
  unfold L3Protocol.in_l3 in Hl.
  set (q := l3q s) in *. set (vic := last q 0).
  destruct (Z.eqb_spec (grp k) (grp l)) as [E|E]; simpl.
  - rewrite E, Hl. destruct (Nat.leb cap (length q)) eqn:F; simpl; auto.
    destruct (l3w s vic); auto. unfold wb_group.
    destruct (Z.eqb_spec (L3Protocol.grp w k) vic) as [E'|]; auto. exfalso.
    apply inq_false in Hl. apply Hl. rewrite <- E, E'. now apply vic_in.
  - destruct (Nat.leb cap (length q)) eqn:F; simpl; auto.
    pose proof (vic_in s L F) as Hv. fold q vic in Hv.
    rewrite inq_del. destruct (Z.eqb_spec (grp k) vic) as [E'|E']; simpl.
    + assert (Hin : inq (grp k) q = true) by (apply inq_iff; now rewrite E').
      rewrite Hin. destruct (l3w s vic) eqn:Hd.
      * unfold wb_group. now rewrite E', Z.eqb_refl.
      * symmetry. apply (l3_clean _ _ _ L vic k); auto.
    + destruct (inq (grp k) q); auto. destruct (l3w s vic); auto. unfold wb_group.
      destruct (Z.eqb_spec (L3Protocol.grp w k) vic); [contradiction|reflexivity].
Qed.

Lemma next_store s b' l v k : mem b' = mem (core s) -> next (store_next s b' l v) k = updl (next s) l v k.
Proof.
  intros Hm. unfold L3Protocol.store_next. destruct (in_l3 s l) eqn:E.
  - unfold L3Protocol.next, L3Protocol.in_l3. simpl. rewrite inq_touch, Hm. unfold updl.
    destruct (Z.eqb_spec k l) as [->|]; auto. unfold L3Protocol.in_l3 in E. now rewrite E.
  - unfold L3Protocol.next, L3Protocol.in_l3. simpl. rewrite Hm. unfold updl.
    destruct (Z.eqb_spec k l) as [->|]; auto. unfold L3Protocol.in_l3 in E. now rewrite E.
Qed.

Lemma next_l3_flush s b k c : In b (l3q s) ->
  next {| core := set_mem (core s) (wb_group w s b); ax := ax s; l3q := l3q s; l3d := l3d s; l3w := l3w s;
          l3c := c; hist := hist s |} k = next s k.
Proof.
  intros Hb. unfold L3Protocol.next, L3Protocol.in_l3. simpl.
  destruct (inq (grp k) (l3q s)) eqn:E; auto. unfold wb_group.
  destruct (Z.eqb_spec (L3Protocol.grp w k) b) as [E'|]; auto. exfalso.
  apply inq_false in E. apply E. now rewrite E'.
Qed.

(* ---- the simulation ---- *)
Lemma sim_rep g fm s k s' : L3I s -> step3 N g fm true w cap s k s' ->
  (st_eq (view s) (view s') /\ hist s' = hist s) \/
  (exists lab b', step N g fm (view s) lab b' /\ st_eq b' (view s') /\ hist s' = hist_after lab (hist s)).
Proof.
  intros L Hs. destruct Hs.
  - (* lifted *)
    right. exists lab, (set_mem b' (next s)). split; [|split; [|reflexivity]].
    + now apply step_set_mem.
    + constructor; intros; simpl; auto.
      unfold L3Protocol.next, L3Protocol.in_l3. simpl. now rewrite (core_lab_mem _ _ _ _ _ _ H H0).
  - (* fetch_rd *)
    right. eexists (L_fetch_rd i l), _. split; [apply fetch_rd; eassumption|]. split; [|reflexivity].
    constructor; intros; simpl; auto.
    + unfold L3Protocol.next. now rewrite H2.
    + unfold L3Protocol.next, L3Protocol.in_l3. simpl. destruct (is_pushed (ax s i)); now rewrite ?inq_touch.
  - (* fetch_wr *)
    right. eexists (L_fetch_wr i l), _. split; [apply fetch_wr; eassumption|]. split; [|reflexivity].
    constructor; intros; simpl; auto.
    + unfold L3Protocol.next. now rewrite H2.
    + unfold L3Protocol.next, L3Protocol.in_l3. simpl. destruct (is_pushed (ax s i)); now rewrite ?inq_touch.
  - discriminate.
  - discriminate.
  - (* refill *)
    left. split; [|reflexivity]. constructor; intros; simpl; auto. now apply next_refill.
  - rewrite (l3_nocmd _ _ _ L) in H. destruct H.
  - rewrite (l3_nocmd _ _ _ L) in H. destruct H.
  - (* l1 write-back *)
    right. eexists (L_cmd_writeback_done j l), _. split; [eapply cmd_writeback_done with (v := v); eassumption|].
    split.
    + constructor; intros; simpl.
      1-4, 6-7: unfold L3Protocol.store_next; destruct (in_l3 s l); reflexivity.
      now apply next_store.
    + unfold L3Protocol.store_next; destruct (in_l3 s l); reflexivity.
  - (* export *)
    right. eexists (L_export i l), _. split; [eapply export_line with (v := v); eassumption|].
    split.
    + constructor; intros; simpl.
      1-4, 6-7: unfold L3Protocol.store_next; destruct (in_l3 s l); reflexivity.
      now apply next_store.
    + unfold L3Protocol.store_next; destruct (in_l3 s l); reflexivity.
  - (* L3 line copied to memory *)
    left. split; [|reflexivity]. constructor; intros; simpl; auto. now apply next_l3_flush.
Qed.

(* ---- the L3 invariant is inductive ---- *)
Lemma l3i_refill s l : L3I s -> in_l3 s l = false -> L3I (refill s l).
Proof.
  intros L Hl. pose proof L as [A B C D E F G]. unfold L3Protocol.in_l3 in Hl. apply inq_false in Hl.
  unfold L3Protocol.refill. set (q := l3q s) in *. set (vic := last q 0).
  destruct (Nat.leb cap (length q)) eqn:Full; simpl.
  - pose proof (vic_in s L Full) as Hv. fold q vic in Hv.
    constructor; simpl; [| | | | |exact F|exact G].
    + constructor; [rewrite del_in; tauto|now apply del_nodup].
    + intros b [<-|Hb]; [now apply grp_aligned|]. apply del_in in Hb. apply B. tauto.
    + pose proof (del_length_lt vic q Hv). apply Nat.leb_le in Full. fold q in C. lia.
    + intros b k [<-|Hb] Hd Hg.
      * now rewrite Hg, Z.eqb_refl.
      * apply del_in in Hb. destruct Hb as [Hb Hne].
        destruct (Z.eqb_spec (L3Protocol.grp w k) (grp l)) as [E'|_]; [exfalso; apply Hl; now rewrite <- E', Hg|].
        rewrite updl_other in Hd by auto. rewrite (D b k Hb Hd Hg).
        destruct (l3w s vic); auto. unfold wb_group. rewrite Hg.
        destruct (Z.eqb_spec b vic); [contradiction|reflexivity].
    + intros b Hn. unfold updl. destruct (Z.eqb_spec b vic) as [->|Hne]; auto. apply E. intro Hb. apply Hn.
      right. apply del_in. tauto.
  - apply Nat.leb_gt in Full. constructor; simpl.
    + constructor; auto.
    + intros b [<-|Hb]; [now apply grp_aligned|auto].
    + fold q. lia.
    + intros b k [<-|Hb] Hd Hg.
      * now rewrite Hg, Z.eqb_refl.
      * destruct (Z.eqb_spec (L3Protocol.grp w k) (grp l)) as [E'|_]; [exfalso; apply Hl; now rewrite <- E', Hg|].
        now apply (D b k).
    + intros b Hn. apply E. tauto.
    + exact F.
    + exact G.
Qed.

Lemma l3i_store s b' l v : L3I s -> mem b' = mem (core s) -> L3I (store_next s b' l v).
Proof.
  intros L Hm. pose proof L as [A B C D E F G]. unfold L3Protocol.store_next.
  destruct (in_l3 s l) eqn:Hl; unfold L3Protocol.in_l3 in Hl.
  - apply inq_iff in Hl. constructor; simpl; auto.
    + now apply touch_nodup.
    + intros b Hb. apply touch_in in Hb. auto.
    + now rewrite touch_length.
    + intros b k Hb Hd Hg. apply touch_in in Hb. rewrite Hm. unfold updl in *.
      destruct (Z.eqb_spec b (grp l)) as [->|Hne]; [discriminate|].
      destruct (Z.eqb_spec k l) as [->|]; [congruence|]. now apply (D b k).
    + intros b Hn. rewrite touch_in in Hn. unfold updl.
      destruct (Z.eqb_spec b (grp l)) as [->|]; [contradiction|auto].
  - apply inq_false in Hl. constructor; simpl; auto.
    intros b k Hb Hd Hg. rewrite Hm. unfold updl. destruct (Z.eqb_spec k l) as [->|]; [|now apply (D b k)].
    exfalso. apply Hl. now rewrite Hg.
Qed.

Lemma l3i_fetch s i l p : L3I s -> L3I (fetch_l3 w s i l p).
Proof.
  intros [A B C D E F G]. unfold fetch_l3. rewrite (G i). constructor; simpl.
  - now apply touch_nodup.
  - intros b Hb. apply touch_in in Hb. auto.
  - now rewrite touch_length.
  - intros b k Hb. apply touch_in in Hb. now apply D.
  - intros b Hn. rewrite touch_in in Hn. auto.
  - exact F.
  - intros j. unfold upd. destruct (Nat.eqb j i); auto.
Qed.

Lemma l3i_step g fm s k s' : L3I s -> step3 N g fm true w cap s k s' -> L3I s'.
Proof.
  intros L Hs. pose proof L as [A B C D E F G]. destruct Hs.
  - constructor; simpl; auto. intros b k. rewrite (core_lab_mem _ _ _ _ _ _ H H0). apply D.
  - now apply l3i_fetch.
  - now apply l3i_fetch.
  - discriminate.
  - discriminate.
  - now apply l3i_refill.
  - rewrite F in H. destruct H.
  - rewrite F in H. destruct H.
  - now apply l3i_store.
  - now apply l3i_store.
  - constructor; simpl; auto. intros b0 k Hb Hd Hg. unfold wb_group. rewrite Hg.
    destruct (Z.eqb_spec b0 b); auto. now apply (D b0 k).
Qed.

Lemma l3i_init m0 : L3I (init3 m0).
Proof. constructor; simpl; auto; try tauto; try lia. constructor. Qed.

Lemma view_init m0 : st_eq (init m0) (view (init3 m0)).
Proof. constructor; reflexivity. Qed.

(* ---- every reachable state ---- *)
(* the L1 protocol as coded (unguarded locks, flush excluded) over the repaired L3 *)
Theorem l3_reachable_repaired m0 s : reach3 N false NoFlush true w cap m0 s ->
  Inv N (view s) /\ J N (view s) /\ L3I s /\ DV N (view s) (lastw m0 (hist s)).
Proof.
  induction 1 as [|s k s' Hr [I0 [J0 [L0 D0]]] Hs].
  - split; [|split; [|split]].
    + apply (inv_st_eq N (init m0)); [apply view_init|apply inv_init].
    + apply (J_st_eq N (init m0)); [apply view_init|apply J_init].
    + apply l3i_init.
    + apply (DV_st_eq N (init m0) _ m0); [apply view_init|reflexivity|apply dv_init].
  - pose proof (l3i_step _ _ _ _ _ L0 Hs) as L1.
    destruct (sim_rep _ _ _ _ _ L0 Hs) as [[E Hh]|[lab [b' [Hst [E Hh]]]]].
    + split; [|split; [|split]]; auto.
      * now apply (inv_st_eq N (view s)).
      * now apply (J_st_eq N (view s)).
      * apply (DV_st_eq N (view s) _ (lastw m0 (hist s))); auto. intros l. now rewrite Hh.
    + destruct (inv_step_coded N (view s) lab b' I0 J0 Hst) as [I1 J1].
      split; [|split; [|split]]; auto.
      * now apply (inv_st_eq N b').
      * now apply (J_st_eq N b').
      * apply (DV_st_eq N b' _ (lw_after lab (lastw m0 (hist s)))); auto.
        -- intros l. rewrite Hh. apply lastw_after.
        -- now apply (dv_step N false NoFlush (view s)).
Qed.

(* the repaired L1 protocol (guarded locks, with or without the repaired flush) over the repaired L3 *)
Theorem l3_reachable_repaired_guarded fm m0 s : reach3 N true fm true w cap m0 s ->
  Inv N (view s) /\ L3I s /\ DV N (view s) (lastw m0 (hist s)).
Proof.
  induction 1 as [|s k s' Hr [I0 [L0 D0]] Hs].
  - split; [|split].
    + apply (inv_st_eq N (init m0)); [apply view_init|apply inv_init].
    + apply l3i_init.
    + apply (DV_st_eq N (init m0) _ m0); [apply view_init|reflexivity|apply dv_init].
  - pose proof (l3i_step _ _ _ _ _ L0 Hs) as L1.
    destruct (sim_rep _ _ _ _ _ L0 Hs) as [[E Hh]|[lab [b' [Hst [E Hh]]]]].
    + split; [|split]; auto.
      * now apply (inv_st_eq N (view s)).
      * apply (DV_st_eq N (view s) _ (lastw m0 (hist s))); auto. intros l. now rewrite Hh.
    + assert (I1 : Inv N b').
      { apply (inv_step N true fm (view s) lab b' I0 Hst).
        intros i l Hl. inversion Hst; subst; simpl in Hl; try discriminate; inversion Hl; subst;
          match goal with H : lock_guard _ _ _ _ |- _ => apply H; reflexivity end. }
      split; [|split]; auto.
      * now apply (inv_st_eq N b').
      * apply (DV_st_eq N b' _ (lw_after lab (lastw m0 (hist s)))); auto.
        -- intros l. rewrite Hh. apply lastw_after.
        -- now apply (dv_step N true fm (view s)).
Qed.

(* ---- what the invariants say, in terms of the three-level state ---- *)
(* (a) + (b): clauses 1-5 with "next level" = the L3 copy when L3 holds the line, main memory otherwise *)
Theorem l3_clauses s : Inv N (view s) -> clauses (obs_of_st N (view s)).
Proof. apply inv_clauses. Qed.

Theorem l3_shared_equals_next s i l : Inv N (view s) -> (i < N)%nat -> ms (core s) i l = S ->
  (in_l3 s l = true -> l1 (core s) i l = Some (l3d s l)) /\
  (in_l3 s l = false -> l1 (core s) i l = Some (mem (core s) l)).
Proof.
  intros I0 Hi Hs. pose proof (shared_clean _ _ _ (I0 l) i Hi Hs) as X. simpl in X.
  unfold L3Protocol.next in X. split; intros E; now rewrite E in X.
Qed.

(* (c) *)
Theorem l3_structure s : L3I s ->
  NoDup (l3q s) /\ (forall b, In b (l3q s) -> b mod w = 0) /\ (length (l3q s) <= cap)%nat.
Proof. intros [A B C _ _ _ _]. auto. Qed.

(* (d) the current value of every line is the last value written *)
Theorem l3_current_value s lw l : Inv N (view s) -> DV N (view s) lw -> current N w s l (lw l).
Proof.
  intros I0 D. destruct (D l) as [D1 D2]. destruct (M_dec N (view s) l) as [[i [Hi HM]]|Hn].
  - left. exists i. split; auto. split; auto. now apply D1.
  - right. split; auto. specialize (D2 Hn). simpl in D2. unfold L3Protocol.next in D2.
    destruct (in_l3 s l); auto.
Qed.

Theorem l3_valid_copy s lw i l : Inv N (view s) -> DV N (view s) lw -> (i < N)%nat ->
  ms (core s) i l <> I -> l1 (core s) i l = Some (lw l).
Proof. intros I0 D Hi Hm. now apply (dv_valid_copy N (view s) lw i l). Qed.

End L3P.
