(* C06 about the faithful model of MVP-7.0, part 4: clause 3 (a core holds a line in its L1 exactly when its
   directory state for the line is not Invalid, outside a transfer in progress) on flush-free runs.

   On top of K1' (part 2) and GI (part 3):
     Sn i id items   the closures of the snoop list of core id have their commands in the directory and name
                     distinct lines;
     Sh st c addrs   the shape of one controller c whose core has the state function st:
                       clause 3 for this core; while the line is being fetched (RPend / RFetch / WPend / WFetch
                       with fetch) the `post` closure is the installing one for exactly the line that is pushed,
                       the state is Invalid; in RL1 the line of `post` is in L1; the line of `post` is the
                       aligned address of the request the execute unit repeats every cycle (addrs).
   K3 = GI + Sn + Sh for every core; preserved by every call of cc.read.Cycle / cc.write.Cycle / cc.snoop.Cycle,
   hence by every flush-free tick (step7_K3), together with K1St of part 2 and StructSt of part 1.

   Clause 2 and the five clauses together: part 5 (M70Proofs5.v); soundness of the boolean judge: part 6. *)
From Coq Require Import ZArith List Bool Lia.
From Maj Require Import Base.Outcome Base.GoInt Base.GoTypes Isa.Spec Isa.Seq.
From Maj Require Import Gen.Latency Gen.RiscTables Gen.Opcodes Comp.Cache Comp.Rat Comp.RatProofs Mvp.Mvp12 Mvp.Mvp3 Mvp.Mvp5 Mvp.Mvp60 Mvp.Mvp63 Mvp.Mvp63Proofs Mvp.Mvp70 Mvp.Mvp70Proofs.
From Maj Require Import Msi.M70Inv Msi.M70Frame Msi.M70Proofs Msi.M70Proofs2 Msi.M70Proofs3.
Import ListNotations.
Open Scope Z_scope.

(* ------------------------------------------------------------------ *)
(* A. which lines an L1 holds, through the operations of comp.LRUCache  *)
(* ------------------------------------------------------------------ *)

Lemma holds_iff : forall c a, l1_holds c a = true <-> exists l, In l (lines c) /\ covers_b l a = true.
Proof.
  intros c a. unfold l1_holds, l1_line. destruct (find _ _) as [l|] eqn:F.
  - split; [intros _|reflexivity]. apply find_some in F. exists l. exact F.
  - split; [discriminate|]. intros (l & I & C). eapply find_none in F; [|exact I]. cbn in F. congruence.
Qed.

Lemma holds_same_lines : forall c c' a, (forall l, In l (lines c') <-> In l (lines c)) -> l1_holds c' a = l1_holds c a.
Proof.
  intros c c' a H. apply eq_true_iff_eq. rewrite !holds_iff. split; intros (l & I & C); exists l; (split; [apply H; exact I|exact C]).
Qed.

Lemma get_lines : forall c a c' r, get c a = Ok (c', r) -> forall l, In l (lines c') <-> In l (lines c).
Proof.
  intros c a c' r H l. unfold get in H. apply bind_ok in H as (f & E & H).
  destruct f as [[[v l0] rest]|]; inv H; [|tauto].
  destruct (find_line_some _ _ _ _ _ E) as (pre & post & E1 & -> & _). cbn [set_lines lines]. rewrite E1.
  split; intros I.
  - destruct I as [<-|I]; apply in_or_app; [right; left; reflexivity|]. apply in_app_or in I as [I|I]; [left; exact I|right; right; exact I].
  - apply in_app_or in I as [I|[<-|I]]; [right; apply in_or_app; left; exact I|left; reflexivity|right; apply in_or_app; right; exact I].
Qed.

Lemma holds_get : forall c a c' r b, get c a = Ok (c', r) -> l1_holds c' b = l1_holds c b.
Proof. intros c a c' r b H. apply holds_same_lines. eapply get_lines; eauto. Qed.

Lemma get_hit : forall c a c' v, get c a = Ok (c', Some v) -> l1_holds c a = true.
Proof.
  intros c a c' v H. unfold get in H. apply bind_ok in H as (f & E & H). destruct f as [[[v0 l0] rest]|]; inv H.
  unfold l1_holds. erewrite find_line_some_view; eauto.
Qed.

Lemma holds_get_all : forall addrs c acc c' r b, get_all c addrs acc = Ok (c', r) -> l1_holds c' b = l1_holds c b.
Proof.
  induction addrs as [|a t IH]; intros c acc c' r b H; cbn [get_all] in H.
  - inv H. reflexivity.
  - apply bind_ok in H as ([c1 [v|]] & E & H).
    + rewrite (IH _ _ _ _ _ H). eapply holds_get; eauto.
    + inv H. eapply holds_get; eauto.
Qed.

Lemma get_all_hit : forall a0 tl c c' data, get_all c (a0 :: tl) [] = Ok (c', Some data) -> l1_holds c' a0 = true.
Proof.
  intros a0 tl c c' data H. rewrite (holds_get_all _ _ _ _ _ a0 H). cbn [get_all] in H.
  apply bind_ok in H as ([c1 [v|]] & E & H); [|discriminate]. eapply get_hit; eauto.
Qed.

(* the line that covers an address covers the aligned address *)
Lemma aligned_in_line : forall l a0, line_wf l -> covers_b l a0 = true -> subS 32 a0 (remS 32 a0 l1LineSize) = lo l /\ covers_b l (lo l) = true.
Proof.
  intros l a0 W C. destruct (line_wf_covers _ _ W C) as [R1 R2]. destruct W as (A & B & _ & D). unfold l1LineSize in *.
  assert (HI : hi l < 2147483648).
  { rewrite D. unfold addS, wrapS. change (2 ^ (32 - 1)) with 2147483648. change (2 ^ 32) with 4294967296.
    pose proof (Z.mod_pos_bound (lo l + 64 + 2147483648) 4294967296 ltac:(lia)). lia. }
  assert (E : subS 32 a0 (remS 32 a0 64) = lo l).
  { unfold subS, remS, wrapS. change (2 ^ (32 - 1)) with 2147483648. change (2 ^ 32) with 4294967296.
    assert (0 <= a0) by lia. rewrite Z.rem_mod_nonneg by lia.
    assert (a0 - a0 mod 64 = lo l) by lia. rewrite H0. rewrite Z.mod_small by lia. lia. }
  split; [exact E|]. unfold covers_b. apply andb_true_iff. split; [apply Z.leb_le; lia|apply Z.ltb_lt; lia].
Qed.

Lemma holds_aligned : forall c a0 tl a, l1_wf c -> l1_holds c a0 = true -> aligned7 (a0 :: tl) = Ok a -> l1_holds c a = true.
Proof.
  intros c a0 tl a (_ & _ & W) H A. cbn [aligned7] in A. inv A. apply holds_iff in H as (l & I & C).
  destruct (aligned_in_line l a0 (W l I) C) as [E C2]. apply holds_iff. exists l. split; [exact I|]. rewrite E. exact C2.
Qed.

(* pushLineToL1 of an aligned full line: nothing is removed, the other aligned lines are as before *)
Lemma new_line_covers : forall c la d b, llen c = l1LineSize -> 0 <= la -> la mod l1LineSize = 0 -> b mod l1LineSize = 0 ->
  covers_b (new_line c la d) b = true -> b = la.
Proof.
  intros c la d b L A0 A1 B C. 
  assert (W : line_wf (new_line c la d) \/ True) by (right; exact I).
  unfold covers_b, new_line in C. cbn [lo hi] in C. rewrite L in C. apply andb_true_iff in C as [C1 C2]. apply Z.leb_le in C1. apply Z.ltb_lt in C2.
  unfold l1LineSize in *. unfold addS, wrapS, to_i32, wrapS in C2. change (2 ^ (32 - 1)) with 2147483648 in C2. change (2 ^ 32) with 4294967296 in C2.
  change ((64 + 2147483648) mod 4294967296 - 2147483648) with 64 in C2.
  destruct (Z_lt_ge_dec (la + 64) 2147483648) as [Hs|Hs].
  - rewrite Z.mod_small in C2 by lia. lia.
  - exfalso. pose proof (Z.mod_pos_bound (la + 64 + 2147483648) 4294967296 ltac:(lia)).
    destruct (Z_lt_ge_dec (la + 64 + 2147483648) 4294967296); [lia|].
    destruct (Z_lt_ge_dec (la + 64 + 2147483648) (2 * 4294967296)).
    + assert ((la + 64 + 2147483648) mod 4294967296 = la + 64 + 2147483648 - 4294967296).
      { rewrite <- (Z.mod_add _ (-1)) by lia. rewrite Z.mod_small by lia. lia. }
      lia.
    + assert (Q : (la + 64 + 2147483648) mod 4294967296 <= la + 64 + 2147483648 - 2 * 4294967296).
      { rewrite <- (Z.mod_add _ (-2)) by lia. pose proof (Z.mod_le (la + 64 + 2147483648 + -2 * 4294967296) 4294967296 ltac:(lia) ltac:(lia)). lia. }
      lia.
Qed.

Lemma holds_push : forall c la d c' v, push_line_to_l1 c la d = Ok (c', v) -> llen c = l1LineSize -> fetch_ok la d ->
  (forall b, l1_holds c b = true -> l1_holds c' b = true) /\
  (forall b, b mod l1LineSize = 0 -> b <> la -> l1_holds c' b = l1_holds c b).
Proof.
  intros c la d c' v H L (A0 & A1 & _). unfold push_line_to_l1 in H. apply bind_ok in H as ([c1 r] & E & H).
  destruct r.
  - inv H. split; intros; [rewrite (holds_get _ _ _ _ _ E); assumption|eapply holds_get; eauto].
  - assert (c1 = c) as ->.
    { unfold get in E. apply bind_ok in E as (f & E1 & E). destruct f as [[[v0 l0] r0]|]; [discriminate|]. inv E. reflexivity. }
    assert (EL : lines c' = new_line c la d :: lines c) by (unfold push_line_warn in H; destruct (_ >? _); inv H; reflexivity).
    split.
    + intros b Hb. apply holds_iff in Hb as (l & I & C). apply holds_iff. exists l. rewrite EL. split; [right; exact I|exact C].
    + intros b B NE. apply eq_true_iff_eq. rewrite !holds_iff. rewrite EL. split.
      * intros (l & [<-|I] & C); [|exists l; split; assumption]. exfalso. apply NE. eapply new_line_covers; eauto.
      * intros (l & I & C). exists l. split; [right; exact I|exact C].
Qed.

(* EvictCacheLine of an aligned line *)
Lemma holds_evict : forall c b c' r, evict_cache_line c b = Ok (c', r) -> l1_wf c -> b mod l1LineSize = 0 ->
  l1_holds c' b = false /\ (forall b', b' mod l1LineSize = 0 -> b' <> b -> l1_holds c' b' = l1_holds c b').
Proof.
  intros c b c' r H W B. unfold evict_cache_line in H. apply bind_ok in H as (f & E & H).
  destruct f as [[[v l] rest]|]; inv H.
  - destruct (find_line_some _ _ _ _ _ E) as (pre & post & E1 & -> & Cl & Hp). cbn [set_lines].
    destruct W as (_ & W1 & W2). split.
    + destruct (l1_holds _ b) eqn:Hb; [exfalso|reflexivity]. apply holds_iff in Hb as (l' & I & C). cbn [lines] in I.
      specialize (W1 b). rewrite E1, cnt_mid, Cl in W1. apply in_app_or in I as [I|I].
      * rewrite (Hp _ I) in C. discriminate.
      * pose proof (cnt_nonneg (fun l0 => covers_b l0 b) pre). 
        assert (1 <= cnt (fun l0 => covers_b l0 b) post); [|lia].
        apply In_nth_error in I as [n I]. eapply cnt_ge1; eauto.
    + intros b' B' NE. apply eq_true_iff_eq. rewrite !holds_iff. cbn [lines]. rewrite E1. split.
      * intros (l' & I & C). exists l'. split; [|exact C]. apply in_app_or in I as [I|I]; apply in_or_app; [left|right; right]; exact I.
      * intros (l' & I & C). apply in_app_or in I as [I|[<-|I]]; [exists l'; split; [apply in_or_app; left; exact I|exact C]| |exists l'; split; [apply in_or_app; right; exact I|exact C]].
        exfalso. assert (WL : line_wf l) by (apply W2; rewrite E1; apply in_or_app; right; left; reflexivity).
        destruct (line_wf_covers _ _ WL Cl) as [R1 _]. destruct (line_wf_covers _ _ WL C) as [R2 _]. destruct WL as (_ & M & _).
        unfold l1LineSize in *. apply NE. lia.
  - apply find_line_none_view in E. split; [unfold l1_holds; rewrite E; reflexivity|reflexivity].
Qed.

(* Write keeps the bounds *)
Lemma holds_write : forall c a0 vs c' b, write c a0 vs = Ok c' -> l1_holds c' b = l1_holds c b.
Proof.
  intros c a0 vs c' b H. unfold write in H. apply bind_ok in H as (ls & E & H). inv H. apply write_lines_bounds in E.
  unfold l1_holds, l1_line. cbn [set_lines lines]. induction E as [|l l' t t' (E1 & E2 & _) F IH]; [reflexivity|].
  cbn [find]. unfold covers_b at 1 3. rewrite E1, E2. destruct ((lo l <=? b) && (b <? hi l)); [reflexivity|exact IH].
Qed.
Lemma write_hit : forall c a0 vs c', write c a0 vs = Ok c' -> l1_holds c a0 = true.
Proof.
  intros c a0 vs c' H. unfold write in H. apply bind_ok in H as (ls & E & _). apply holds_iff.
  revert ls E. induction (lines c) as [|l t IH]; intros ls E; cbn [write_lines] in E; [discriminate|].
  apply bind_ok in E as (r & G & E). pose proof (line_get_covers _ _ _ G) as C. destruct r.
  - exists l. split; [left; reflexivity|]. apply C. discriminate.
  - apply bind_ok in E as (t' & E & _). destruct (IH _ E) as (l' & I & C'). exists l'. split; [right; exact I|exact C'].
Qed.

(* ------------------------------------------------------------------ *)
(* B. definitions: Sn, Sh                                               *)
(* ------------------------------------------------------------------ *)

Definition it_line (it : snoop_item) : Z := match it with SEvict a => a | SWriteBack a _ => a end.
Definition it_rq (it : snoop_item) : Z := match it with SEvict _ => rqEvict | SWriteBack _ _ => rqWriteBack end.
Definition Sn (i : msi7) (id : Z) (items : list snoop_item) : Prop :=
  (forall it, In it items -> exists c, In (id, it_line it, it_rq it, c) (i_cmds i)) /\ NoDup (map it_line items).

Definition al (a : Z) : Prop := a mod l1LineSize = 0.
Definition hold (c : cc7) (a : Z) : Prop := l1_holds (c_l1d c) a = true.
Definition transfer_cc (c : cc7) (a : Z) : bool :=
  match cur_post c with Some (PShareRUnlock b) | Some (PModUnlock b) => b =? a | _ => false end.

Definition phase_ok (st : Z -> Z) (c : cc7) : Prop :=
  match c_rd c with
  | RPend _ fetch p => fetch = true -> exists a, p = PShareRUnlock a
  | RFetch _ la _ p => p = PShareRUnlock la
  | RL1 _ _ => forall a, post_line (c_post c) = Some a -> hold c a
  | _ => True
  end /\
  match c_wr c with
  | WPend _ fetch p => fetch = true -> exists a, p = PModUnlock a /\ st a = stInvalid
  | WFetch _ la _ p => p = PModUnlock la /\ st la = stInvalid
  | _ => True
  end.

Definition c3_ok (st : Z -> Z) (l1 : cache) (tr : Z -> bool) : Prop :=
  (forall a, st a <> stInvalid -> al a) /\
  (forall a, al a -> st a <> stInvalid -> l1_holds l1 a = true) /\
  (forall a, al a -> l1_holds l1 a = true -> st a <> stInvalid \/ tr a = true).

Definition Sh (st : Z -> Z) (c : cc7) (addrs : list Z) : Prop :=
  c3_ok st (c_l1d c) (transfer_cc c) /\ phase_ok st c /\
  (forall p, cur_post c = Some p -> exists a, post_line p = Some a /\ aligned7 addrs = Ok a).

Lemma Sn_mono : forall i i' id items, incl (i_cmds i) (i_cmds i') -> Sn i id items -> Sn i' id items.
Proof. intros i i' id items C [A B]. split; [|exact B]. intros it I. destruct (A it I) as [c H]. exists c. apply C. exact H. Qed.

Lemma c3_ok_ext : forall st st' l1 tr, (forall a, st' a = st a) -> c3_ok st l1 tr -> c3_ok st' l1 tr.
Proof. intros st st' l1 tr E (A & B & C). split; [|split]; intros a; rewrite ?E; auto. Qed.

Lemma Sh_ext : forall st st' c addrs, (forall a, st' a = st a) -> Sh st c addrs -> Sh st' c addrs.
Proof.
  intros st st' c addrs E (A & [B1 B2] & C). split; [eapply c3_ok_ext; eauto|]. split; [|exact C]. split; [exact B1|].
  destruct (c_wr c); try exact I.
  - intros F. destruct (B2 F) as (a & P & S). exists a. rewrite E. auto.
  - rewrite E. exact B2.
Qed.

Lemma aligned7_al : forall addrs a, aligned7 addrs = Ok a -> al a.
Proof. intros [|a0 tl] a H; cbn [aligned7] in H; [discriminate|]. inv H. apply aligned_mod. Qed.

(* ------------------------------------------------------------------ *)
(* C. coSnoop                                                           *)
(* ------------------------------------------------------------------ *)

Definition c_line (x : Z * Z * Z * Z) : Z := match x with (_, b, _, _) => b end.
Definition c_tgt (x : Z * Z * Z * Z) : Z := match x with (t, _, _, _) => t end.

Lemma cmd_done_sub : forall i m a rq x, In x (i_cmds (cmd_done i m a rq)) -> In x (i_cmds i).
Proof. intros i m a rq x H. unfold cmd_done in H. cbn [i_cmds] in H. apply filter_In in H as [H _]. exact H. Qed.
Lemma cmd_done_keep : forall i m a rq x, In x (i_cmds i) -> (c_tgt x <> m \/ c_line x <> a) -> In x (i_cmds (cmd_done i m a rq)).
Proof.
  intros i m a rq [[[x b] rq'] c] H N. apply In_cmd_done; [exact H|]. apply cmd_key_other. cbn [c_tgt c_line] in N.
  destruct (x =? m) eqn:Q1; [|reflexivity]. destruct (b =? a) eqn:Q2; [|reflexivity]. apply Z.eqb_eq in Q1, Q2. destruct N; contradiction.
Qed.

Section Snoop.
Variables (vs : list view3) (nid : nat) (vid : view3).
Let id := Z.of_nat nid.
Hypothesis HV : nth_error vs nid = Some vid.

Definition SnoopPost (i i' : msi7) (l1 l1' : cache) (items items' : list snoop_item) : Prop :=
  GI i' vs /\ Sn i' id items' /\ l1_wf l1' /\
  (forall b, state_get i' id b = state_get i id b \/ (state_get i' id b = stInvalid /\ l1_holds l1' b = false /\ In b (map it_line items))) /\
  (forall b, al b -> l1_holds l1' b = l1_holds l1 b \/ (l1_holds l1' b = false /\ state_get i' id b = stInvalid /\ In b (map it_line items))) /\
  (forall x, In x (i_cmds i') -> In x (i_cmds i)) /\
  (forall x, In x (i_cmds i) -> (c_tgt x <> id \/ ~ In (c_line x) (map it_line items)) -> In x (i_cmds i')) /\
  (forall b, In b (map it_line items') -> In b (map it_line items)) /\
  (forall n b, n <> id -> state_get i' n b = state_get i n b).

Lemma snoop_one : forall i l1 a rq c l1a r, GI i vs -> In (id, a, rq, c) (i_cmds i) -> l1_wf l1 ->
  (forall b, state_get i id b <> stInvalid -> al b) -> evict_cache_line l1 a = Ok (l1a, r) ->
  let ia := cmd_done i id a rq in
  GI ia vs /\ l1_wf l1a /\ al a /\ (forall b, state_get ia id b <> stInvalid -> al b) /\
  l1_holds l1a a = false /\ state_get ia id a = stInvalid /\
  (forall b, b <> a -> state_get ia id b = state_get i id b) /\
  (forall b, al b -> b <> a -> l1_holds l1a b = l1_holds l1 b) /\
  (forall n b, n <> id -> state_get ia n b = state_get i n b).
Proof.
  intros i l1 a rq c l1a r G I W SA E ia.
  assert (AL : al a).
  { apply SA. pose proof (g1 _ _ G _ I) as K. cbn [kind_ok] in K. destruct K as [[_ K]|[_ K]]; rewrite K; discriminate. }
  destruct (holds_evict _ _ _ _ E W AL) as [H1 H2].
  split; [eapply GI_cmd_done; eauto|]. split; [eapply evict_wf; eauto|]. split; [exact AL|].
  assert (ST : forall n b, state_get ia n b = if (n =? id) && (b =? a) then stInvalid else state_get i n b) by (intros; apply state_get_cmd_done).
  split; [|split; [exact H1|split; [|split; [|split; [exact H2|]]]]].
  - intros b. rewrite ST, Z.eqb_refl. cbn [andb]. destruct (b =? a); [intros X; contradiction|apply SA].
  - rewrite ST, !Z.eqb_refl. reflexivity.
  - intros b N. rewrite ST, Z.eqb_refl. cbn [andb]. destruct (b =? a) eqn:Q; [apply Z.eqb_eq in Q; contradiction|reflexivity].
  - intros n b N. rewrite ST. destruct (n =? id) eqn:Q; [apply Z.eqb_eq in Q; contradiction|reflexivity].
Qed.

Lemma snoop_done_post : forall i l1 a rq l1a i' l1' t items' (ia := cmd_done i id a rq) (x0 : snoop_item),
  it_line x0 = a ->
  al a -> l1_holds l1a a = false -> state_get ia id a = stInvalid ->
  (forall b, b <> a -> state_get ia id b = state_get i id b) ->
  (forall b, al b -> b <> a -> l1_holds l1a b = l1_holds l1 b) ->
  (forall n b, n <> id -> state_get ia n b = state_get i n b) ->
  ~ In a (map it_line t) ->
  SnoopPost ia i' l1a l1' t items' -> SnoopPost i i' l1 l1' (x0 :: t) items'.
Proof.
  intros i l1 a rq l1a i' l1' t items' ia x0 EL AL H1 S1 S2 H2 S3 NI (G & SN & W & P1 & P2 & Q1 & Q2 & R & F).
  split; [exact G|]. split; [exact SN|]. split; [exact W|]. cbn [map]. rewrite EL.
  split; [|split; [|split; [|split; [|split]]]].
  - intros b. destruct (Z.eq_dec b a) as [->|N].
    + right. destruct (P1 a) as [X|(X & Y & _)]; (split; [congruence|]); (split; [|left; reflexivity]); [|exact Y].
      destruct (P2 a AL) as [Z1|(Z1 & _)]; congruence.
    + destruct (P1 b) as [X|(X & Y & Z1)]; [left; rewrite X; apply S2; exact N|right; split; [exact X|split; [exact Y|right; exact Z1]]].
  - intros b AB. destruct (Z.eq_dec b a) as [->|N].
    + right. destruct (P2 a AL) as [X|(X & Y & _)]; (split; [congruence|]); (split; [|left; reflexivity]); [|exact Y].
      destruct (P1 a) as [Z1|(Z1 & _)]; congruence.
    + destruct (P2 b AB) as [X|(X & Y & Z1)]; [left; rewrite X; apply H2; assumption|right; split; [exact X|split; [exact Y|right; exact Z1]]].
  - intros x I. apply Q1 in I. eapply cmd_done_sub; eauto.
  - intros x I N. apply Q2.
    + apply cmd_done_keep; [exact I|]. destruct N as [N|N]; [left; exact N|right]. intros E. apply N. left. symmetry. exact E.
    + destruct N as [N|N]; [left; exact N|right]. intros E. apply N. right. exact E.
  - intros b I. right. apply R. exact I.
  - intros n b N. rewrite F by exact N. apply S3. exact N.
Qed.

Lemma snoop_items_3 : forall items mem i l1 mem' i' l1' items', snoop_items mem i id l1 items = Ok (mem', i', l1', items') ->
  GI i vs -> Sn i id items -> l1_wf l1 -> (forall b, state_get i id b <> stInvalid -> al b) ->
  SnoopPost i i' l1 l1' items items'.
Proof.
  induction items as [|it tl IH]; intros mem i l1 mem' i' l1' items' H G [SN ND] W SA; cbn [snoop_items] in H.
  - inv H. split; [exact G|]. split; [split; [intros it []|constructor]|]. split; [exact W|]. repeat split; auto.
  - cbn [map] in ND. inversion ND as [|? ? ND1 ND2]; subst.
    destruct it as [a|a cyc]; cbn [it_line] in ND1.
    + apply bind_ok in H as ([l1a r] & E & H). cbn [fst] in H.
      destruct (SN (SEvict a) (or_introl eq_refl)) as [c IC]. cbn [it_line it_rq] in IC.
      destruct (snoop_one _ _ _ _ _ _ _ G IC W SA E) as (Ga & Wa & AL & SAa & H1 & S1 & S2 & H2 & S3).
      eapply (snoop_done_post i l1 a rqEvict l1a i' l1' tl items' (SEvict a)); eauto.
      eapply IH; [exact H|exact Ga| |exact Wa|exact SAa].
      split; [|exact ND2]. intros it I. destruct (SN it (or_intror I)) as [c' IC']. exists c'.
      apply cmd_done_keep; [exact IC'|]. right. cbn [c_line]. intros Q. apply ND1. rewrite <- Q. apply in_map. exact I.
    + destruct (0 <? cyc).
      * apply bind_ok in H as ([[[m1 i1] l2] t'] & E & H). inv H.
        assert (SNt' : Sn i id tl) by (split; [intros it I; apply SN; right; exact I|exact ND2]).
        destruct (IH _ _ _ _ _ _ _ E G SNt' W SA) as (G' & [SN' ND'] & W' & P1 & P2 & Q1 & Q2 & R & F).
        split; [exact G'|]. split; [|split; [exact W'|]].
        { split.
          - intros it [<-|I]; [|apply SN'; exact I]. destruct (SN (SWriteBack a cyc) (or_introl eq_refl)) as [c IC]. exists c.
            cbn [it_line it_rq] in *. apply Q2; [exact IC|]. right. exact ND1.
          - cbn [map it_line]. constructor; [|exact ND']. intros I. apply ND1. apply R. exact I. }
        cbn [map it_line]. split; [|split; [|split; [exact Q1|split; [|split; [|exact F]]]]].
        { intros b. destruct (P1 b) as [X|(X & Y & Z1)]; [left; exact X|right; split; [exact X|split; [exact Y|right; exact Z1]]]. }
        { intros b AB. destruct (P2 b AB) as [X|(X & Y & Z1)]; [left; exact X|right; split; [exact X|split; [exact Y|right; exact Z1]]]. }
        { intros x I N. apply Q2; [exact I|]. destruct N as [N|N]; [left; exact N|right]. intros Q. apply N. right. exact Q. }
        { intros b [<-|I]; [left; reflexivity|right; apply R; exact I]. }
      * apply bind_ok in H as (g & E0 & H). destruct g as [dd|]; [|discriminate].
        apply bind_ok in H as (m1 & E1 & H). apply bind_ok in H as ([l1a r] & E & H). cbn [fst snd] in H.
        destruct r; [|discriminate].
        destruct (SN (SWriteBack a cyc) (or_introl eq_refl)) as [c IC]. cbn [it_line it_rq] in IC.
        destruct (snoop_one _ _ _ _ _ _ _ G IC W SA E) as (Ga & Wa & AL & SAa & H1 & S1 & S2 & H2 & S3).
        eapply (snoop_done_post i l1 a rqWriteBack l1a i' l1' tl items' (SWriteBack a cyc)); eauto.
        eapply IH; [exact H|exact Ga| |exact Wa|exact SAa].
        split; [|exact ND2]. intros it I. destruct (SN it (or_intror I)) as [c' IC']. exists c'.
        apply cmd_done_keep; [exact IC'|]. right. cbn [c_line]. intros Q. apply ND1. rewrite <- Q. apply in_map. exact I.
Qed.

End Snoop.

(* coSnoop builds its list from the commands to this core *)
Definition cs_f (kev : msi7 -> msi7) (id : Z) (acc : outcome (msi7 * list snoop_item)) (e : Z * Z * Z * Z) : outcome (msi7 * list snoop_item) :=
  il <- acc ;; let '(j, l) := il in let '(id', a, rq, _) := e in
  if negb (id' =? id) then Ok (j, l) else if rq =? rqEvict then Ok (kev j, l ++ [SEvict a])
  else if rq =? rqWriteBack then Ok (j, l ++ [SWriteBack a MemoryAccess]) else Panic.
Lemma co_snoop_eq : forall kev i id, co_snoop kev i id = fold_left (cs_f kev id) (i_cmds i) (Ok (i, [])).
Proof. reflexivity. Qed.
Lemma co_snoop_fold_err : forall kev id suf, 
  fold_left (cs_f kev id) suf Panic = Panic.
Proof. intros kev id. induction suf as [|e t IH]; [reflexivity|]. cbn [fold_left]. unfold cs_f at 2. cbn [bind]. exact IH. Qed.
Lemma co_snoop_fold_err2 : forall kev id suf er, 
  fold_left (cs_f kev id) suf (Err er) = Err er.
Proof. intros kev id. induction suf as [|e t IH]; intros er; [reflexivity|]. cbn [fold_left]. unfold cs_f at 2. cbn [bind]. apply IH. Qed.

Definition SnL (id : Z) (cmds : list (Z * Z * Z * Z)) (l : list snoop_item) : Prop :=
  (forall it, In it l -> exists c, In (id, it_line it, it_rq it, c) cmds) /\ NoDup (map it_line l).

Lemma co_snoop_fold : forall kev id suf pre j l0 i' l,
  fold_left (cs_f kev id) suf (Ok (j, l0)) = Ok (i', l) ->
  NoDup (map ckey (pre ++ suf)) -> SnL id pre l0 -> SnL id (pre ++ suf) l.
Proof.
  intros kev id. induction suf as [|e t IH]; intros pre j l0 i' l H ND [A B].
  - cbn in H. inv H. rewrite app_nil_r. split; assumption.
  - cbn [fold_left] in H. unfold cs_f at 2 in H. cbn [bind] in H. destruct e as [[[id' a] rq] c].
    replace (pre ++ (id', a, rq, c) :: t) with ((pre ++ [(id', a, rq, c)]) ++ t) in * by (rewrite <- app_assoc; reflexivity).
    assert (MONO : forall l1, SnL id pre l1 -> SnL id (pre ++ [(id', a, rq, c)]) l1).
    { intros l1 [A1 B1]. split; [|exact B1]. intros it I. destruct (A1 it I) as [c' I']. exists c'. apply in_or_app. left. exact I'. }
    assert (NEW : forall it, it_line it = a -> it_rq it = rq -> id' = id -> SnL id (pre ++ [(id', a, rq, c)]) (l0 ++ [it])).
    { intros it E1 E2 E3. subst id'. split.
      - intros it' I. apply in_app_or in I as [I|[<-|[]]]; [destruct (A it' I) as [c' I']; exists c'; apply in_or_app; left; exact I'|].
        exists c. rewrite E1, E2. apply in_or_app. right. left. reflexivity.
      - rewrite map_app. cbn [map]. apply NoDup_snoc; [exact B|]. rewrite E1. intros I. apply in_map_iff in I as (it' & E' & I).
        destruct (A it' I) as [c' I']. rewrite E' in I'.
        rewrite <- app_assoc in ND. cbn [app] in ND. rewrite map_app in ND. cbn [map ckey] in ND.
        apply NoDup_remove_2 in ND. apply ND. apply in_or_app. left. apply in_map_iff. exists (id, a, it_rq it', c'). split; [reflexivity|exact I']. }
    destruct (negb (id' =? id)) eqn:Q.
    + eapply IH; [exact H|exact ND|]. apply MONO. split; assumption.
    + apply negb_false_iff in Q. apply Z.eqb_eq in Q. destruct (rq =? rqEvict) eqn:Q1.
      * apply Z.eqb_eq in Q1. eapply IH; [exact H|exact ND|]. apply NEW; auto.
      * destruct (rq =? rqWriteBack) eqn:Q2; [|rewrite co_snoop_fold_err in H; discriminate].
        apply Z.eqb_eq in Q2. eapply IH; [exact H|exact ND|]. apply NEW; auto.
Qed.

Lemma co_snoop_Sn : forall kev i id i' l, co_snoop kev i id = Ok (i', l) -> NoDup (map ckey (i_cmds i)) -> SnL id (i_cmds i) l.
Proof.
  intros kev i id i' l H ND. rewrite co_snoop_eq in H. apply (co_snoop_fold kev id (i_cmds i) [] i [] i' l H ND).
  split; [intros it []|constructor].
Qed.

Lemma cur_post_same : forall c c', c_rd c' = c_rd c -> c_wr c' = c_wr c -> c_post c' = c_post c -> cur_post c' = cur_post c.
Proof. intros c c' R W P. unfold cur_post. rewrite R, W, P. reflexivity. Qed.
Lemma v3_cc_same : forall c c', c_rd c' = c_rd c -> c_wr c' = c_wr c -> c_post c' = c_post c -> v3_cc c' = v3_cc c.
Proof. intros c c' R W P. unfold v3_cc, cur_post, cur_pend, cur_ev. rewrite R, W, P. reflexivity. Qed.

Lemma Sh_snoop : forall st st' c c' addrs (items : list Z),
  Sh st c addrs -> c_rd c' = c_rd c -> c_wr c' = c_wr c -> c_post c' = c_post c ->
  (forall b, st' b = st b \/ (st' b = stInvalid /\ l1_holds (c_l1d c') b = false /\ In b items)) ->
  (forall b, al b -> l1_holds (c_l1d c') b = l1_holds (c_l1d c) b \/ (l1_holds (c_l1d c') b = false /\ st' b = stInvalid /\ In b items)) ->
  (forall p a, cur_post c = Some p -> post_line p = Some a -> ~ In a items) ->
  Sh st' c' addrs.
Proof.
  intros st st' c c' addrs items ((S0 & A & B) & [PH1 PH2] & TIE) R W P P1 P2 NI.
  pose proof (cur_post_same _ _ R W P) as CP.
  assert (TR : forall a, transfer_cc c' a = transfer_cc c a) by (intros; unfold transfer_cc; rewrite CP; reflexivity).
  split; [split; [|split]|split; [split|]].
  - intros a N. destruct (P1 a) as [E|(E & _)]; [rewrite E in N; auto|exfalso; apply N; exact E].
  - intros a AL N. destruct (P1 a) as [E|(E & _)]; [|exfalso; apply N; exact E]. rewrite E in N.
    destruct (P2 a AL) as [E2|(_ & E2 & _)]; [rewrite E2; auto|]. destruct (P1 a) as [E3|(E3 & _)]; [|congruence]. exfalso. apply N. congruence.
  - intros a AL H. destruct (P2 a AL) as [E2|(E2 & _)]; [|congruence]. rewrite E2 in H. rewrite TR.
    destruct (B a AL H) as [N|T]; [|right; exact T]. left. destruct (P1 a) as [E|(_ & E & _)]; [rewrite E; exact N|congruence].
  - rewrite R. destruct (c_rd c) eqn:ER; try exact PH1. rewrite P. intros a PL. unfold hold.
    assert (CPo : cur_post c = Some (c_post c)) by (unfold cur_post; rewrite ER; reflexivity).
    destruct (TIE _ CPo) as (a' & PL' & AL). rewrite PL in PL'. inv PL'. apply aligned7_al in AL.
    destruct (P2 a' AL) as [E2|(_ & _ & I)]; [rewrite E2; apply PH1; exact PL|exfalso; eapply NI; eauto].
  - rewrite W. destruct (c_wr c) eqn:EW; try exact PH2.
    + intros F. destruct (PH2 F) as (a & PP & SI). exists a. split; [exact PP|]. destruct (P1 a) as [E|(E & _)]; congruence.
    + destruct PH2 as [PP SI]. split; [exact PP|]. destruct (P1 lineAddr) as [E|(E & _)]; congruence.
  - intros p CP'. rewrite CP in CP'. apply TIE. exact CP'.
Qed.

Lemma cc_snoop_cycle_3 : forall kev, (forall j, kev j = j) -> forall vs nid mem i c mem' i' c' addrs,
  nth_error vs nid = Some (v3_cc c) -> GI i vs -> Sn i (Z.of_nat nid) (c_snoop c) -> l1_wf (c_l1d c) ->
  Sh (state_get i (Z.of_nat nid)) c addrs ->
  cc_snoop_cycle kev mem i (Z.of_nat nid) c = Ok (mem', i', c') ->
  GI i' vs /\ Sn i' (Z.of_nat nid) (c_snoop c') /\ Sh (state_get i' (Z.of_nat nid)) c' addrs /\
  c_rd c' = c_rd c /\ c_wr c' = c_wr c /\ c_post c' = c_post c /\
  (forall n b, n <> Z.of_nat nid -> state_get i' n b = state_get i n b) /\
  (forall x, In x (i_cmds i) -> c_tgt x <> Z.of_nat nid -> In x (i_cmds i')).
Proof.
  intros kev KV vs nid mem i c mem' i' c' addrs HV G SN W SH H. unfold cc_snoop_cycle in H.
  apply bind_ok in H as ([[[m1 i1] l1] items] & E & H).
  assert (SA : forall b, state_get i (Z.of_nat nid) b <> stInvalid -> al b) by (destruct SH as ((S0 & _) & _); exact S0).
  destruct (snoop_items_3 vs nid _ _ _ _ _ _ _ _ E G SN W SA) as (G1 & SN1 & W1 & P1 & P2 & Q1 & Q2 & R & F).
  assert (NI : forall p a, cur_post c = Some p -> post_line p = Some a -> ~ In a (map it_line (c_snoop c))).
  { intros p a CP PL I. apply in_map_iff in I as (it & EL & I). destruct SN as [SNa _]. destruct (SNa it I) as [c0 IC].
    eapply (g2 _ _ G _ _ _ _ nid _ IC eq_refl HV). unfold v_line, v_post, v3_cc. cbn [fst]. rewrite CP, EL. exact PL. }
  assert (SH1 : forall sl, Sh (state_get i1 (Z.of_nat nid)) (set_snoop (set_snoop (set_l1d c l1) items) sl) addrs).
  { intros sl. eapply (Sh_snoop _ _ c); [exact SH|reflexivity|reflexivity|reflexivity|exact P1|exact P2|exact NI]. }
  destruct (c_snoop c) eqn:ES.
  - apply bind_ok in H as ([i2 l2] & E2 & H). pose proof (co_snoop_i _ KV _ _ _ _ E2) as EI. subst i2. inv H. cbn [fst snd].
    split; [exact G1|]. split; [|split; [apply SH1|]].
    + cbn [set_snoop c_snoop]. apply (co_snoop_Sn _ _ _ _ _ E2). apply (g8 _ _ G1).
    + repeat split; auto; try (intros x I N; apply Q2; [exact I|left; exact N]).
  - inv H. split; [exact G1|]. split; [exact SN1|]. split; [apply (SH1 items)|].
    repeat split; auto; try (intros x I N; apply Q2; [exact I|left; exact N]).
Qed.

(* ------------------------------------------------------------------ *)
(* D. coRead / coWrite: the shape of the controller that moves          *)
(* ------------------------------------------------------------------ *)

Definition tr_of (p : post7) (a : Z) : bool := match p with PShareRUnlock b | PModUnlock b => b =? a | _ => false end.
Lemma transfer_cc_eq : forall c a, transfer_cc c a = match cur_post c with Some p => tr_of p a | None => false end.
Proof. intros c a. unfold transfer_cc. destruct (cur_post c) as [[| | | |]|]; reflexivity. Qed.

Lemma c3_ok_tr : forall st l1 tr tr', (forall a, tr a = true -> tr' a = true) -> c3_ok st l1 tr -> c3_ok st l1 tr'.
Proof. intros st l1 tr tr' M (S0 & A & B). split; [exact S0|]. split; [exact A|]. intros a AL H. destruct (B a AL H); auto. Qed.
Lemma c3_ok_tr_eq : forall st l1 tr tr', (forall a, tr' a = tr a) -> c3_ok st l1 tr -> c3_ok st l1 tr'.
Proof. intros st l1 tr tr' M. apply c3_ok_tr. intros a. rewrite M. auto. Qed.
Lemma c3_ok_holds_eq : forall st l1 l1' tr, (forall b, l1_holds l1' b = l1_holds l1 b) -> c3_ok st l1 tr -> c3_ok st l1' tr.
Proof. intros st l1 l1' tr E (S0 & A & B). split; [exact S0|]. split; intros a; rewrite E; auto. Qed.

Lemma c3_ok_push : forall st l1 l1' tr la,
  (forall b, l1_holds l1 b = true -> l1_holds l1' b = true) ->
  (forall b, b mod l1LineSize = 0 -> b <> la -> l1_holds l1' b = l1_holds l1 b) -> tr la = true ->
  c3_ok st l1 tr -> c3_ok st l1' tr.
Proof.
  intros st l1 l1' tr la M O T (S0 & A & B). split; [exact S0|]. split.
  - intros a AL N. apply M. auto.
  - intros a AL H. destruct (Z.eq_dec a la) as [->|N]; [right; exact T|]. rewrite (O a AL N) in H. auto.
Qed.

Definition st_after (p : post7) (st : Z -> Z) (b : Z) : Z :=
  match p with
  | PShareRUnlock a => if b =? a then stShared else st b
  | PModUnlock a => if b =? a then stModified else st b
  | _ => st b
  end.

Lemma run_post_states : forall i id p i', run_post i id p = Ok i' ->
  i_cmds i' = i_cmds i /\ (forall b, state_get i' id b = st_after p (state_get i id) b) /\
  (forall n b, n <> id -> state_get i' n b = state_get i n b).
Proof.
  intros i id p i' R. destruct p; cbn [run_post] in R; try discriminate; unfold sem_runlock, sem_unlock in R;
    destruct (sem_get _ _) as [r w]; destruct (_ <? 0); inv R; (split; [reflexivity|]); cbn [st_after]; split;
    intros; rewrite ?state_get_sem_set, ?state_get_state_set, ?Z.eqb_refl; cbn [andb]; try reflexivity;
    destruct (n =? id) eqn:Q; try reflexivity; apply Z.eqb_eq in Q; contradiction.
Qed.

Lemma c3_ok_install : forall st l1 p, c3_ok st l1 (tr_of p) -> (forall a, post_line p = Some a -> al a /\ l1_holds l1 a = true) ->
  c3_ok (st_after p st) l1 (fun _ => false).
Proof.
  intros st l1 p (S0 & A & B) H.
  assert (K : forall a s, s <> stInvalid -> (p = PShareRUnlock a \/ p = PModUnlock a) ->
              c3_ok (fun b => if b =? a then s else st b) l1 (fun _ => false)).
  { intros a s NS PP. assert (PL : post_line p = Some a) by (destruct PP as [-> | ->]; reflexivity). destruct (H a PL) as [AL HO].
    assert (TR : forall b, tr_of p b = (a =? b)) by (intros b; destruct PP as [-> | ->]; reflexivity).
    split; [|split].
    - intros b. destruct (b =? a) eqn:Q; [apply Z.eqb_eq in Q; subst; auto|apply S0].
    - intros b AB. destruct (b =? a) eqn:Q; [apply Z.eqb_eq in Q; subst; auto|apply A; exact AB].
    - intros b AB HB. left. destruct (b =? a) eqn:Q; [exact NS|]. destruct (B b AB HB) as [N|T]; [exact N|].
      rewrite TR in T. apply Z.eqb_eq in T. subst b. rewrite Z.eqb_refl in Q. discriminate. }
  destruct p; cbn [st_after]; try (eapply c3_ok_tr; [|split; [exact S0|split; [exact A|exact B]]]; cbn [tr_of]; intros; discriminate).
  - apply (K a stShared); [discriminate|left; reflexivity].
  - apply (K a stModified); [discriminate|right; reflexivity].
Qed.

Lemma msi_rlock_incl : forall i id a i' r, msi_rlock i id a = Ok (i', r) -> incl (i_cmds i) (i_cmds i').
Proof.
  intros i id a i' r H. unfold msi_rlock in H. destruct (_ =? stInvalid).
  - destruct (sem_rlock i a) as [j ok] eqn:L. assert (CJ : i_cmds j = i_cmds i) by (unfold sem_rlock in L; destruct (sem_get i a); destruct (0 <? z0); inv L; reflexivity).
    destruct ok; cbn [negb] in H; [|inv H; rewrite CJ; apply incl_refl].
    destruct (msi_read_request j id a) as [i2 ps] eqn:RR. inv H. apply msi_read_request_cover in RR as (_ & C & _). rewrite <- CJ. exact C.
  - destruct (_ =? stModified).
    + destruct (sem_lock i a) as [j ok] eqn:L. assert (CJ : i_cmds j = i_cmds i) by (unfold sem_lock in L; destruct (sem_get i a); destruct (_ || _); inv L; reflexivity).
      destruct ok; cbn [negb] in H; inv H; rewrite CJ; apply incl_refl.
    + destruct (_ =? stShared); [|discriminate].
      destruct (sem_rlock i a) as [j ok] eqn:L. assert (CJ : i_cmds j = i_cmds i) by (unfold sem_rlock in L; destruct (sem_get i a); destruct (0 <? z0); inv L; reflexivity).
      destruct ok; cbn [negb] in H; inv H; rewrite CJ; apply incl_refl.
Qed.
Lemma msi_lock_incl : forall i id a i' r, msi_lock i id a = Ok (i', r) -> incl (i_cmds i) (i_cmds i').
Proof.
  intros i id a i' r H. unfold msi_lock in H. destruct (sem_lock i a) as [j ok] eqn:L.
  assert (CJ : i_cmds j = i_cmds i) by (unfold sem_lock in L; destruct (sem_get i a); destruct (_ || _); inv L; reflexivity).
  destruct (msi_invalidate j id a) as [i2 ps] eqn:RR. apply msi_invalidate_cover in RR as (_ & C & _). rewrite CJ in C.
  destruct (_ =? stInvalid); [destruct ok; cbn [negb] in H; inv H; [exact C|rewrite CJ; apply incl_refl]|].
  destruct (_ =? stModified); [destruct ok; cbn [negb] in H; inv H; rewrite CJ; apply incl_refl|].
  destruct (_ =? stShared); [|discriminate]. destruct ok; cbn [negb] in H; inv H; [exact C|rewrite CJ; apply incl_refl].
Qed.

Ltac shcc := unfold Sh, phase_ok, hold; cbn [set_rd set_wr set_l1d set_post set_rsems set_wsems set_snoop c_l1d c_rd c_wr c_post c_snoop].

Section CoreSh.
Variable id : Z.

Definition Vp (st : Z -> Z) (l1 : cache) (p : post7) (addrs : list Z) : Prop :=
  c3_ok st l1 (tr_of p) /\ exists a, post_line p = Some a /\ aligned7 addrs = Ok a.

Definition ShRes (i i' : msi7) (c c' : cc7) (addrs : list Z) : Prop :=
  Sh (state_get i' id) c' addrs /\ (forall n b, n <> id -> state_get i' n b = state_get i n b) /\
  incl (i_cmds i) (i_cmds i') /\ c_snoop c' = c_snoop c.

Lemma ShRes_trans_i : forall i0 i i' c0 c c' addrs, (forall n b, state_get i n b = state_get i0 n b) -> incl (i_cmds i0) (i_cmds i) ->
  c_snoop c = c_snoop c0 -> ShRes i i' c c' addrs -> ShRes i0 i' c0 c' addrs.
Proof.
  intros i0 i i' c0 c c' addrs S C SN (A & B & D & E). split; [exact A|]. split; [intros; rewrite B by assumption; apply S|].
  split; [eapply incl_tran; eauto|congruence].
Qed.

Lemma Sh_phase : forall st c addrs p, c3_ok st (c_l1d c) (tr_of p) -> cur_post c = Some p -> phase_ok st c ->
  (exists a, post_line p = Some a /\ aligned7 addrs = Ok a) -> Sh st c addrs.
Proof.
  intros st c addrs p C CP PH TIE. split; [|split; [exact PH|]].
  - eapply c3_ok_tr_eq; [|exact C]. intros a. rewrite transfer_cc_eq, CP. reflexivity.
  - intros q CQ. rewrite CP in CQ. inv CQ. exact TIE.
Qed.

Lemma Sh_idle : forall st c addrs, c3_ok st (c_l1d c) (fun _ => false) -> c_rd c = RStart -> c_wr c = WStart -> Sh st c addrs.
Proof.
  intros st c addrs C R W. assert (CP : cur_post c = None) by (unfold cur_post; rewrite R, W; reflexivity). split; [|split].
  - eapply c3_ok_tr_eq; [|exact C]. intros a. rewrite transfer_cc_eq, CP. reflexivity.
  - unfold phase_ok. rewrite R, W. split; exact I.
  - intros q CQ. rewrite CP in CQ. discriminate.
Qed.

(* ---- read ---- *)

Lemma rd_l1_Sh : forall i c addrs cyc data i' c' r, Vp (state_get i id) (c_l1d c) (c_post c) addrs ->
  (forall a, post_line (c_post c) = Some a -> hold c a) -> c_wr c = WStart ->
  rd_l1 i id c addrs cyc data = Ok (i', c', r) -> ShRes i i' c c' addrs.
Proof.
  intros i c addrs cyc data i' c' r [C TIE] HO W H. unfold rd_l1 in H. destruct (0 <? cyc).
  - inv H. split; [|split; [auto|split; [apply incl_refl|reflexivity]]].
    apply (Sh_phase _ _ _ (c_post c)); [exact C|reflexivity| |exact TIE]. unfold phase_ok. cbn [set_rd c_rd c_wr c_post]. rewrite W. split; [exact HO|exact I].
  - apply bind_ok in H as (i1 & E1 & H). apply bind_ok in H as (a & E2 & H). inv H.
    destruct (run_post_states _ _ _ _ E1) as (CM & ST & OT).
    split; [|split; [exact OT|split; [rewrite CM; apply incl_refl|reflexivity]]].
    apply Sh_idle; [|reflexivity|exact W]. cbn [set_rsems set_rd set_post c_l1d].
    eapply c3_ok_ext; [exact ST|]. apply c3_ok_install; [exact C|]. intros b PL. split; [|apply HO; exact PL].
    destruct TIE as (a' & PL' & AL). rewrite PL in PL'. inv PL'. eapply aligned7_al; eauto.
Qed.

Lemma rd_from_l1_Sh : forall i c addrs i' c' r, Vp (state_get i id) (c_l1d c) (c_post c) addrs -> l1_wf (c_l1d c) -> c_wr c = WStart ->
  rd_from_l1 i id c addrs = Ok (i', c', r) -> ShRes i i' c c' addrs.
Proof.
  intros i c addrs i' c' r [C TIE] WF W H. unfold rd_from_l1 in H. apply bind_ok in H as ([l1 g] & E & H).
  destruct g as [data|]; [|discriminate].
  assert (HE : forall b, l1_holds l1 b = l1_holds (c_l1d c) b) by (intros; eapply holds_get_all; eauto).
  eapply (ShRes_trans_i i i i' c (set_l1d c l1)); [reflexivity|apply incl_refl|reflexivity|].
  eapply rd_l1_Sh; [| | |exact H]; cbn [set_l1d c_l1d c_post c_wr]; [split; [eapply c3_ok_holds_eq; eauto|exact TIE]| |exact W].
  intros a PL. unfold hold. cbn [set_l1d c_l1d]. destruct TIE as (a' & PL' & AL). rewrite PL in PL'. inv PL'.
  destruct addrs as [|a0 tl]; [discriminate|]. eapply holds_aligned; [eapply get_all_wf; eauto| |exact AL]. eapply get_all_hit; eauto.
Qed.

Lemma rd_evict_Sh : forall i c addrs pending post i' c' r, Vp (state_get i id) (c_l1d c) post addrs -> l1_wf (c_l1d c) -> c_wr c = WStart ->
  rd_evict i id c addrs pending post = Ok (i', c', r) -> ShRes i i' c c' addrs.
Proof.
  intros i c addrs pending post i' c' r [C TIE] WF W H. unfold rd_evict in H.
  assert (STAY : ShRes i i (c) (set_rd c (REvict pending post)) addrs).
  { split; [|split; [auto|split; [apply incl_refl|reflexivity]]].
    apply (Sh_phase _ _ _ post); [exact C|reflexivity| |exact TIE]. unfold phase_ok. cbn [set_rd c_rd c_wr]. rewrite W. split; exact I. }
  assert (GO : rd_from_l1 i id (set_post c post) addrs = Ok (i', c', r) -> ShRes i i' c c' addrs).
  { intros H'. eapply (ShRes_trans_i i i i' c (set_post c post)); [reflexivity|apply incl_refl|reflexivity|].
    eapply rd_from_l1_Sh; [| | |exact H']; cbn [set_post c_l1d c_post c_wr]; [split; assumption|exact WF|exact W]. }
  destruct pending as [p|]; [destruct (negb (cmd_isdone i p))|]; [inv H; exact STAY|apply GO; exact H|apply GO; exact H].
Qed.

Lemma rd_fetch_Sh : forall i c addrs cyc la dt post i' c' r, Vp (state_get i id) (c_l1d c) post addrs -> l1_wf (c_l1d c) -> c_wr c = WStart ->
  post = PShareRUnlock la -> fetch_ok la dt -> rd_fetch i id c addrs cyc la dt post = Ok (i', c', r) -> ShRes i i' c c' addrs.
Proof.
  intros i c addrs cyc la dt post i' c' r [C TIE] WF W PP FO H. unfold rd_fetch in H. destruct (0 <? cyc).
  - inv H. split; [|split; [auto|split; [apply incl_refl|reflexivity]]].
    apply (Sh_phase _ _ _ (PShareRUnlock la)); [exact C|reflexivity| |exact TIE]. unfold phase_ok. cbn [set_rd c_rd c_wr]. rewrite W. split; [reflexivity|exact I].
  - apply bind_ok in H as ([l1 v] & E & H). cbn [fst snd] in H.
    destruct (holds_push _ _ _ _ _ E (proj1 WF) FO) as [MO OT].
    assert (C1 : c3_ok (state_get i id) l1 (tr_of post)).
    { eapply c3_ok_push; [exact MO|exact OT| |exact C]. subst post. cbn [tr_of]. apply Z.eqb_refl. }
    assert (WF1 : l1_wf l1) by (eapply push_line_to_l1_wf; eauto).
    destruct v as [victim|].
    + destruct (msi_evict_extra i id (lo victim)) as [i1 pe] eqn:EE. inv H. apply msi_evict_extra_spec in EE as [S CI].
      split; [|split; [intros; apply (same_ss_state _ _ _ _ S)|split; [exact CI|reflexivity]]].
      eapply Sh_ext; [intros; apply (same_ss_state _ _ _ _ S)|].
      apply (Sh_phase _ _ _ (PShareRUnlock la)); [exact C1|reflexivity| |exact TIE]. unfold phase_ok. cbn [set_rd set_l1d c_rd c_wr]. rewrite W. split; exact I.
    + eapply (ShRes_trans_i i i i' c (set_post (set_l1d c l1) post)); [reflexivity|apply incl_refl|reflexivity|].
      eapply rd_from_l1_Sh; [| | |exact H]; cbn [set_post set_l1d c_l1d c_post c_wr]; [split; assumption|exact WF1|exact W].
Qed.

Lemma rd_pend_Sh : forall mem i c addrs ps fetch post i' c' r, Vp (state_get i id) (c_l1d c) post addrs -> l1_wf (c_l1d c) -> c_wr c = WStart ->
  (fetch = true -> exists a, post = PShareRUnlock a) -> rd_pend mem i id c addrs ps fetch post = Ok (i', c', r) -> ShRes i i' c c' addrs.
Proof.
  intros mem i c addrs ps fetch post i' c' r [C TIE] WF W FP H. unfold rd_pend in H. destruct (negb (all_done i ps)).
  - inv H. split; [|split; [auto|split; [apply incl_refl|reflexivity]]].
    apply (Sh_phase _ _ _ post); [exact C|reflexivity| |exact TIE]. unfold phase_ok. cbn [set_rd c_rd c_wr]. rewrite W. split; [exact FP|exact I].
  - destruct fetch; cbn [negb] in H.
    + apply bind_ok in H as (a & E1 & H). apply bind_ok in H as (g & E2 & H). destruct g; [discriminate|].
      destruct addrs as [|a0 tl]; [discriminate|]. apply bind_ok in H as (ln & E3 & H).
      destruct (FP eq_refl) as [a' PP]. destruct TIE as (a'' & PL & AL). subst post. cbn [post_line] in PL. inv PL.
      rewrite AL in E1. inv E1. cbn [aligned7] in AL. inv AL. apply fetch_cache_line_ok in E3 as [FO _].
      eapply rd_fetch_Sh; [| | | | |exact H]; [split; [exact C|eexists; split; reflexivity]|exact WF|exact W|reflexivity|exact FO].
    + eapply (ShRes_trans_i i i i' c (set_post c post)); [reflexivity|apply incl_refl|reflexivity|].
      eapply rd_from_l1_Sh; [| | |exact H]; cbn [set_post c_l1d c_post c_wr]; [split; assumption|exact WF|exact W].
Qed.

Lemma rd_start_Sh : forall mem i c addrs0 addrs i' c' r, Sh (state_get i id) c addrs0 -> l1_wf (c_l1d c) -> c_rd c = RStart -> c_wr c = WStart ->
  rd_start mem i id c addrs = Ok (i', c', r) -> ShRes i i' c c' addrs.
Proof.
  intros mem i c addrs0 addrs i' c' r (C & _ & _) WF R W H. unfold rd_start in H. apply bind_ok in H as (a & E1 & H).
  apply bind_ok in H as ([i1 lr] & E2 & H). cbn [fst snd] in H.
  assert (CP : cur_post c = None) by (unfold cur_post; rewrite R, W; reflexivity).
  assert (C0 : c3_ok (state_get i id) (c_l1d c) (fun _ => false)).
  { eapply c3_ok_tr_eq; [|exact C]. intros b. rewrite transfer_cc_eq, CP. reflexivity. }
  destruct lr as [|fetch ps post].
  - inv H. apply msi_rlock_wait in E2. subst i'. split; [|split; [auto|split; [apply incl_refl|reflexivity]]]. apply Sh_idle; assumption.
  - destruct (msi_rlock_shape _ _ _ _ _ _ _ E2) as [ST SH]. pose proof (msi_rlock_incl _ _ _ _ _ E2) as CI.
    eapply (ShRes_trans_i i i1 i' c (set_rsems c (keys_add a (c_rsems c)))); [intros; apply ST|exact CI|reflexivity|].
    eapply rd_pend_Sh; [| | | |exact H]; cbn [set_rsems c_l1d c_wr]; [|exact WF|exact W|].
    + split; [eapply c3_ok_ext; [intros; apply ST|]; eapply c3_ok_tr; [|exact C0]; intros; discriminate|].
      exists a. split; [|exact E1]. destruct SH as [(_ & -> & _)|(_ & _ & [(-> & _)|(-> & _)])]; reflexivity.
    + intros F. destruct SH as [(_ & -> & _)|(F' & _)]; [eauto|congruence].
Qed.

Lemma cc_read_cycle_Sh : forall mem i c addrs i' c' r, Sh (state_get i id) c addrs -> CS c -> c_wr c = WStart ->
  cc_read_cycle mem i id c addrs = Ok (i', c', r) -> ShRes i i' c c' addrs.
Proof.
  intros mem i c addrs i' c' r SH (WF & RO & _) W H. unfold cc_read_cycle in H. pose proof SH as (C & [PH _] & TIE).
  destruct (c_rd c) eqn:E.
  - eapply rd_start_Sh; eauto.
  - assert (CP : cur_post c = Some post) by (unfold cur_post; rewrite E; reflexivity).
    eapply rd_pend_Sh; [| | | |exact H]; [split; [|apply TIE; exact CP]|exact WF|exact W|exact PH].
    eapply c3_ok_tr_eq; [|exact C]. intros b. rewrite transfer_cc_eq, CP. reflexivity.
  - assert (CP : cur_post c = Some post) by (unfold cur_post; rewrite E; reflexivity).
    eapply rd_fetch_Sh; [| | | | |exact H]; [split; [|apply TIE; exact CP]|exact WF|exact W|exact PH|exact RO].
    eapply c3_ok_tr_eq; [|exact C]. intros b. rewrite transfer_cc_eq, CP. reflexivity.
  - assert (CP : cur_post c = Some post) by (unfold cur_post; rewrite E; reflexivity).
    eapply rd_evict_Sh; [| | |exact H]; [split; [|apply TIE; exact CP]|exact WF|exact W].
    eapply c3_ok_tr_eq; [|exact C]. intros b. rewrite transfer_cc_eq, CP. reflexivity.
  - assert (CP : cur_post c = Some (c_post c)) by (unfold cur_post; rewrite E; reflexivity).
    eapply rd_l1_Sh; [| | |exact H]; [split; [|apply TIE; exact CP]|exact PH|exact W].
    eapply c3_ok_tr_eq; [|exact C]. intros b. rewrite transfer_cc_eq, CP. reflexivity.
Qed.


(* ---- write ---- *)

Lemma wr_l1_Sh : forall i c addrs data cyc i' c' r, Vp (state_get i id) (c_l1d c) (c_post c) addrs -> l1_wf (c_l1d c) -> c_rd c = RStart ->
  wr_l1 i id c addrs data cyc = Ok (i', c', r) -> ShRes i i' c c' addrs.
Proof.
  intros i c addrs data cyc i' c' r [C TIE] WF R H. unfold wr_l1 in H. destruct (0 <? cyc).
  - inv H. split; [|split; [auto|split; [apply incl_refl|reflexivity]]].
    apply (Sh_phase _ _ _ (c_post c)); [exact C|unfold cur_post; cbn [set_wr c_rd c_wr c_post]; rewrite R; reflexivity| |exact TIE].
    unfold phase_ok. cbn [set_wr c_rd c_wr c_post]. rewrite R. split; exact I.
  - destruct addrs as [|a0 tl]; [discriminate|].
    apply bind_ok in H as (l1 & E0 & H). apply bind_ok in H as (i1 & E1 & H). apply bind_ok in H as (a & E2 & H). inv H.
    destruct (run_post_states _ _ _ _ E1) as (CM & ST & OT).
    split; [|split; [exact OT|split; [rewrite CM; apply incl_refl|reflexivity]]].
    apply Sh_idle; [|exact R|reflexivity]. cbn [set_wsems set_wr set_post set_l1d c_l1d].
    assert (HE : forall b, l1_holds l1 b = l1_holds (c_l1d c) b) by (intros; eapply holds_write; eauto).
    eapply c3_ok_ext; [exact ST|]. apply c3_ok_install; [eapply c3_ok_holds_eq; eauto|]. intros b PL.
    destruct TIE as (a' & PL' & AL). rewrite PL in PL'. inv PL'. split; [eapply aligned7_al; eauto|].
    rewrite HE. eapply holds_aligned; [exact WF| |exact AL]. eapply write_hit; eauto.
Qed.

Lemma wr_evict_Sh : forall i c addrs data pending cyc post i' c' r, Vp (state_get i id) (c_l1d c) post addrs -> l1_wf (c_l1d c) -> c_rd c = RStart ->
  wr_evict i id c addrs data pending cyc post = Ok (i', c', r) -> ShRes i i' c c' addrs.
Proof.
  intros i c addrs data pending cyc post i' c' r [C TIE] WF R H. unfold wr_evict in H.
  assert (STAY : forall k, ShRes i i (c) (set_wr c (WEvict pending k post)) addrs).
  { intros k. split; [|split; [auto|split; [apply incl_refl|reflexivity]]].
    apply (Sh_phase _ _ _ post); [exact C|unfold cur_post; cbn [set_wr c_rd c_wr]; rewrite R; reflexivity| |exact TIE].
    unfold phase_ok. cbn [set_wr c_rd c_wr]. rewrite R. split; exact I. }
  destruct (match pending with Some p => negb (cmd_isdone i p) | None => false end); [inv H; apply STAY|].
  destruct (0 <? cyc); [inv H; apply STAY|].
  eapply (ShRes_trans_i i i i' c (set_post c post)); [reflexivity|apply incl_refl|reflexivity|].
  eapply wr_l1_Sh; [| | |exact H]; cbn [set_post c_l1d c_post c_rd]; [split; assumption|exact WF|exact R].
Qed.

Lemma wr_fetch_Sh : forall i c addrs data cyc la dt post i' c' r, Vp (state_get i id) (c_l1d c) post addrs -> l1_wf (c_l1d c) -> c_rd c = RStart ->
  post = PModUnlock la -> state_get i id la = stInvalid -> fetch_ok la dt ->
  wr_fetch i id c addrs data cyc la dt post = Ok (i', c', r) -> ShRes i i' c c' addrs.
Proof.
  intros i c addrs data cyc la dt post i' c' r [C TIE] WF R PP SI FO H. unfold wr_fetch in H. destruct (0 <? cyc).
  - inv H. split; [|split; [auto|split; [apply incl_refl|reflexivity]]].
    apply (Sh_phase _ _ _ (PModUnlock la)); [exact C|unfold cur_post; cbn [set_wr c_rd c_wr]; rewrite R; reflexivity| |exact TIE].
    unfold phase_ok. cbn [set_wr c_rd c_wr]. rewrite R. split; [exact I|split; [reflexivity|exact SI]].
  - apply bind_ok in H as ([l1 v] & E & H). cbn [fst snd] in H.
    destruct (holds_push _ _ _ _ _ E (proj1 WF) FO) as [MO OT].
    assert (C1 : c3_ok (state_get i id) l1 (tr_of post)).
    { eapply c3_ok_push; [exact MO|exact OT| |exact C]. subst post. cbn [tr_of]. apply Z.eqb_refl. }
    assert (WF1 : l1_wf l1) by (eapply push_line_to_l1_wf; eauto).
    destruct v as [victim|].
    + destruct (msi_evict_extra i id (lo victim)) as [i1 pe] eqn:EE. inv H. apply msi_evict_extra_spec in EE as [S CI].
      split; [|split; [intros; apply (same_ss_state _ _ _ _ S)|split; [exact CI|reflexivity]]].
      eapply Sh_ext; [intros; apply (same_ss_state _ _ _ _ S)|].
      apply (Sh_phase _ _ _ (PModUnlock la)); [exact C1|unfold cur_post; cbn [set_wr set_l1d c_rd c_wr]; rewrite R; reflexivity| |exact TIE].
      unfold phase_ok. cbn [set_wr set_l1d c_rd c_wr]. rewrite R. split; exact I.
    + eapply (ShRes_trans_i i i i' c (set_post (set_l1d c l1) post)); [reflexivity|apply incl_refl|reflexivity|].
      eapply wr_l1_Sh; [| | |exact H]; cbn [set_post set_l1d c_l1d c_post c_rd]; [split; assumption|exact WF1|exact R].
Qed.

Lemma wr_pend_Sh : forall mem i c addrs data ps fetch post i' c' r, Vp (state_get i id) (c_l1d c) post addrs -> l1_wf (c_l1d c) -> c_rd c = RStart ->
  (fetch = true -> exists a, post = PModUnlock a /\ state_get i id a = stInvalid) ->
  wr_pend mem i id c addrs data ps fetch post = Ok (i', c', r) -> ShRes i i' c c' addrs.
Proof.
  intros mem i c addrs data ps fetch post i' c' r [C TIE] WF R FP H. unfold wr_pend in H. destruct (negb (all_done i ps)).
  - inv H. split; [|split; [auto|split; [apply incl_refl|reflexivity]]].
    apply (Sh_phase _ _ _ post); [exact C|unfold cur_post; cbn [set_wr c_rd c_wr]; rewrite R; reflexivity| |exact TIE].
    unfold phase_ok. cbn [set_wr c_rd c_wr]. rewrite R. split; [exact I|exact FP].
  - destruct fetch.
    + destruct addrs as [|a0 tl]; [discriminate|]. apply bind_ok in H as (a & E1 & H). apply bind_ok in H as (ln & E3 & H).
      destruct (FP eq_refl) as (a' & PP & SI). destruct TIE as (a'' & PL & AL). subst post. cbn [post_line] in PL. inv PL.
      rewrite AL in E1. inv E1. cbn [aligned7] in AL. inv AL. apply fetch_cache_line_ok in E3 as [FO _].
      eapply wr_fetch_Sh; [| | | | | |exact H]; [split; [exact C|eexists; split; reflexivity]|exact WF|exact R|reflexivity|exact SI|exact FO].
    + eapply (ShRes_trans_i i i i' c (set_post c post)); [reflexivity|apply incl_refl|reflexivity|].
      eapply wr_l1_Sh; [| | |exact H]; cbn [set_post c_l1d c_post c_rd]; [split; assumption|exact WF|exact R].
Qed.

Lemma wr_start_Sh : forall mem i c addrs0 addrs data i' c' r, Sh (state_get i id) c addrs0 -> l1_wf (c_l1d c) -> c_rd c = RStart -> c_wr c = WStart ->
  wr_start mem i id c addrs data = Ok (i', c', r) -> ShRes i i' c c' addrs.
Proof.
  intros mem i c addrs0 addrs data i' c' r (C & _ & _) WF R W H. unfold wr_start in H. apply bind_ok in H as (a & E1 & H).
  apply bind_ok in H as ([i1 lr] & E2 & H). cbn [fst snd] in H.
  assert (CP : cur_post c = None) by (unfold cur_post; rewrite R, W; reflexivity).
  assert (C0 : c3_ok (state_get i id) (c_l1d c) (fun _ => false)).
  { eapply c3_ok_tr_eq; [|exact C]. intros b. rewrite transfer_cc_eq, CP. reflexivity. }
  destruct lr as [|fetch ps post].
  - inv H. apply msi_lock_wait in E2. subst i'. split; [|split; [auto|split; [apply incl_refl|reflexivity]]]. apply Sh_idle; assumption.
  - destruct (msi_lock_shape _ _ _ _ _ _ _ E2) as [ST SH]. pose proof (msi_lock_incl _ _ _ _ _ E2) as CI.
    eapply (ShRes_trans_i i i1 i' c (set_wsems c (keys_add a (c_wsems c)))); [intros; apply ST|exact CI|reflexivity|].
    eapply wr_pend_Sh; [| | | |exact H]; cbn [set_wsems c_l1d c_rd]; [|exact WF|exact R|].
    + split; [eapply c3_ok_ext; [intros; apply ST|]; eapply c3_ok_tr; [|exact C0]; intros; discriminate|].
      exists a. split; [|exact E1]. destruct SH as [(_ & -> & _)|(_ & [(-> & _)|(-> & _)])]; reflexivity.
    + intros F. destruct SH as [(_ & -> & SI)|(F' & _)]; [|congruence]. exists a. split; [reflexivity|]. rewrite ST. exact SI.
Qed.

Lemma cc_write_cycle_Sh : forall mem i c addrs data i' c' r, Sh (state_get i id) c addrs -> CS c -> c_rd c = RStart ->
  cc_write_cycle mem i id c addrs data = Ok (i', c', r) -> ShRes i i' c c' addrs.
Proof.
  intros mem i c addrs data i' c' r SH (WF & _ & WO) R H. unfold cc_write_cycle in H. pose proof SH as (C & [_ PH] & TIE).
  destruct (c_wr c) eqn:E.
  - eapply wr_start_Sh; eauto.
  - assert (CP : cur_post c = Some post) by (unfold cur_post; rewrite R, E; reflexivity).
    eapply wr_pend_Sh; [| | | |exact H]; [split; [|apply TIE; exact CP]|exact WF|exact R|exact PH].
    eapply c3_ok_tr_eq; [|exact C]. intros b. rewrite transfer_cc_eq, CP. reflexivity.
  - assert (CP : cur_post c = Some post) by (unfold cur_post; rewrite R, E; reflexivity). destruct PH as [PP SI].
    eapply wr_fetch_Sh; [| | | | | |exact H]; [split; [|apply TIE; exact CP]|exact WF|exact R|exact PP|exact SI|exact WO].
    eapply c3_ok_tr_eq; [|exact C]. intros b. rewrite transfer_cc_eq, CP. reflexivity.
  - assert (CP : cur_post c = Some post) by (unfold cur_post; rewrite R, E; reflexivity).
    eapply wr_evict_Sh; [| | |exact H]; [split; [|apply TIE; exact CP]|exact WF|exact R].
    eapply c3_ok_tr_eq; [|exact C]. intros b. rewrite transfer_cc_eq, CP. reflexivity.
  - assert (CP : cur_post c = Some (c_post c)) by (unfold cur_post; rewrite R, E; reflexivity).
    eapply wr_l1_Sh; [| | |exact H]; [split; [|apply TIE; exact CP]|exact WF|exact R].
    eapply c3_ok_tr_eq; [|exact C]. intros b. rewrite transfer_cc_eq, CP. reflexivity.
Qed.

End CoreSh.

(* ------------------------------------------------------------------ *)
(* E. the invariant K3 over the execute units                           *)
(* ------------------------------------------------------------------ *)

Definition eu_addrs (e : eu7) : list Z := match h_co e with HRead a => a | HWrite a _ => a | _ => [] end.
Definition core_ok (i : msi7) (n : nat) (e : eu7) : Prop :=
  Sn i (Z.of_nat n) (c_snoop (h_cc e)) /\ Sh (state_get i (Z.of_nat n)) (h_cc e) (eu_addrs e).
Definition K3 (i : msi7) (eus : list eu7) : Prop :=
  GI i (map v3_of eus) /\ forall n e, nth_error eus n = Some e -> core_ok i n e.

Lemma sums_v3 : forall eus, map v_sum (map v3_of eus) = map sum_of eus.
Proof. intros. rewrite map_map. apply map_ext. reflexivity. Qed.

Lemma Sh_addrs : forall st c a1 a2, cur_post c = None -> Sh st c a1 -> Sh st c a2.
Proof. intros st c a1 a2 CP (A & B & _). split; [exact A|split; [exact B|]]. intros p Q. congruence. Qed.

Lemma FetchI_of : forall i vs n c addrs, GI i vs -> nth_error vs n = Some (v3_cc c) -> Sh (state_get i (Z.of_nat n)) c addrs ->
  FetchI i (Z.of_nat n) c.
Proof.
  intros i vs n c addrs G H (_ & [P1 P2] & _). split.
  - destruct (c_rd c) eqn:E; try exact I.
    + destruct fetch; [|exact I]. destruct (P1 eq_refl) as [a ->].
      assert (O : own_ok i (Z.of_nat n) (PShareRUnlock a)).
      { eapply (g7 _ _ G _ _ _ H). unfold v_post, v3_cc, cur_post. cbn [fst]. rewrite E. reflexivity. }
      intros b PB. cbn in PB. inv PB. exact O.
    + subst post.
      assert (O : own_ok i (Z.of_nat n) (PShareRUnlock lineAddr)).
      { eapply (g7 _ _ G _ _ _ H). unfold v_post, v3_cc, cur_post. cbn [fst]. rewrite E. reflexivity. }
      intros b PB. cbn in PB. inv PB. exact O.
  - destruct (c_wr c) eqn:E; try exact I.
    + destruct fetch; [|exact I]. destruct (P2 eq_refl) as (a & -> & SI). intros b PB. cbn in PB. inv PB. exact SI.
    + destruct P2 as [-> SI]. intros b PB. cbn in PB. inv PB. exact SI.
Qed.

Section OneCore3.
Variable hk : hooks7.
Hypothesis HF : hooks_frame hk.
Variables (D T : list eu7).
Let id := Z.of_nat (length D).

Lemma K3_core_step : forall i i' e e' addrs, K3 i (D ++ e :: T) -> GI i' (map v3_of (D ++ e' :: T)) ->
  ShRes id i i' (h_cc e) (h_cc e') addrs -> (eu_addrs e' = addrs \/ cur_post (h_cc e') = None) -> K3 i' (D ++ e' :: T).
Proof.
  intros i i' e e' addrs [G C] G' (SH & OT & CI & SN) AD. split; [exact G'|]. intros n x H.
  destruct (Nat.eq_dec n (length D)) as [->|N].
  - rewrite nth_error_mid in H. inv H. destruct (C (length D) e (nth_error_mid D e T)) as [S1 _]. split.
    + rewrite SN. eapply Sn_mono; eauto.
    + destruct AD as [->|CP]; [exact SH|eapply Sh_addrs; eauto].
  - rewrite (nth_error_mid_other D e e' T n N) in H. destruct (C n x H) as [S1 S2]. split; [eapply Sn_mono; eauto|].
    eapply Sh_ext; [|exact S2]. intros a. apply OT. unfold id. lia.
Qed.

Definition B3 (i : msi7) (e : eu7) : Prop :=
  K3 i (D ++ e :: T) /\ K1' i (map sum_of D ++ sum_of e :: map sum_of T) /\ CS (h_cc e).

Lemma B3_same_cc : forall i e e', h_cc e' = h_cc e -> (eu_addrs e' = eu_addrs e \/ cur_post (h_cc e) = None) -> B3 i e -> B3 i e'.
Proof.
  intros i e e' E AD ([G C] & K & S). split; [|split; [unfold sum_of in *; rewrite E; exact K|rewrite E; exact S]]. split.
  - rewrite map_app in *. cbn [map] in *. unfold v3_of in *. rewrite E. exact G.
  - intros n x H. destruct (Nat.eq_dec n (length D)) as [->|N].
    + rewrite nth_error_mid in H. inv H. destruct (C (length D) e (nth_error_mid D e T)) as [S1 S2]. unfold core_ok. rewrite E. split; [exact S1|].
      destruct AD as [->|CP]; [exact S2|eapply Sh_addrs; eauto].
    + rewrite (nth_error_mid_other D e e' T n N) in H. apply C. exact H.
Qed.

Lemma B3_parts : forall i e, B3 i e -> GI i (map v3_of D ++ v3_cc (h_cc e) :: map v3_of T) /\
  K1' i (map v_sum (map v3_of D ++ v3_cc (h_cc e) :: map v3_of T)) /\ Sh (state_get i id) (h_cc e) (eu_addrs e) /\
  nth_error (map v3_of D ++ v3_cc (h_cc e) :: map v3_of T) (length D) = Some (v3_cc (h_cc e)).
Proof.
  intros i e ([G C] & K & S). rewrite map_app in G. cbn [map] in G. split; [exact G|]. split; [|split].
  - rewrite map_app. cbn [map]. rewrite !sums_v3. exact K.
  - apply (C (length D) e (nth_error_mid D e T)).
  - rewrite <- (map_length v3_of D). apply nth_error_mid.
Qed.

Lemma eu_write7_B : forall w e addrs data w' e' o, B3 (w_i w) e -> c_rd (h_cc e) = RStart ->
  (eu_addrs e = addrs \/ cur_post (h_cc e) = None) ->
  eu_write7 id w e addrs data = Ok (w', e', o) -> B3 (w_i w') e' /\ eu_ok e'.
Proof.
  intros w e addrs data w' e' o BB R AD H. pose proof BB as (K3e & K & S). destruct (B3_parts _ _ BB) as (G & K1 & SH & NV).
  apply eu_write7_split in H as (i1 & c1 & done & E & -> & E1 & E2). rewrite w_i_set_wi.
  pose proof (cc_write_cycle_K (map sum_of D) (map sum_of T)) as XK. rewrite map_length in XK.
  destruct (XK _ _ _ _ _ _ _ _ K R E) as (K2 & R2 & W2).
  destruct (cc_write_cycle_S _ _ _ _ _ _ _ _ _ E (proj1 K) S) as [SI2 S2].
  assert (SHa : Sh (state_get (w_i w) id) (h_cc e) addrs) by (destruct AD as [<-|CP]; [exact SH|eapply Sh_addrs; eauto]).
  pose proof (cc_write_cycle_G (map v3_of D) (map v3_of T)) as XG. rewrite map_length in XG.
  assert (FI : FetchI (w_i w) id (h_cc e)) by (eapply FetchI_of; eauto).
  pose proof (XG _ _ _ _ _ _ _ _ G K1 R FI E) as G2. unfold G3Res in G2.
  pose proof (cc_write_cycle_Sh id _ _ _ _ _ _ _ _ SHa S R E) as SR.
  assert (OK : eu_ok e') by (unfold eu_ok; rewrite E1, E2; destruct done; [split; [exact R2|apply W2; reflexivity]|exact R2]).
  split; [|exact OK]. split; [|split; [unfold sum_of; rewrite E1; exact K2|rewrite E1; exact S2]].
  eapply K3_core_step; [exact K3e| |rewrite E1; exact SR|].
  - rewrite map_app. cbn [map]. unfold v3_of at 2. rewrite E1. exact G2.
  - unfold eu_addrs. rewrite E2. destruct done; [right|left; reflexivity]. rewrite E1. unfold cur_post. rewrite R2, (W2 eq_refl). reflexivity.
Qed.

Lemma eu_run7_B : forall labels ord cycle w e w' e' o, B3 (w_i w) e -> c_rd (h_cc e) = RStart -> c_wr (h_cc e) = WStart ->
  eu_run7 hk labels ord cycle id w e = Ok (w', e', o) -> B3 (w_i w') e' /\ eu_ok e'.
Proof.
  intros labels ord cycle w e w' e' o BB R W H.
  assert (CP : cur_post (h_cc e) = None) by (unfold cur_post; rewrite R, W; reflexivity).
  apply eu_run7_split in H as [([F _] & E1 & E2)|(w0 & addrs & data & [F _] & H)].
  - rewrite F. split; [eapply B3_same_cc; [exact E1|right; exact CP|exact BB]|]. unfold eu_ok. rewrite E1, E2. split; assumption.
  - eapply eu_write7_B; [| | |exact H]; [rewrite F; eapply B3_same_cc; [| |exact BB]; [reflexivity|right; exact CP]|exact R|right; exact CP].
Qed.

Lemma eu_read7_B : forall labels ord cycle w e addrs w' e' o, B3 (w_i w) e -> c_wr (h_cc e) = WStart ->
  (eu_addrs e = addrs \/ cur_post (h_cc e) = None) ->
  eu_read7 hk labels ord cycle id w e addrs = Ok (w', e', o) -> B3 (w_i w') e' /\ eu_ok e'.
Proof.
  intros labels ord cycle w e addrs w' e' o BB W AD H. pose proof BB as (K3e & K & S). destruct (B3_parts _ _ BB) as (G & K1 & SH & NV).
  apply eu_read7_split in H as (i1 & c1 & resp & E & H).
  pose proof (cc_read_cycle_K (map sum_of D) (map sum_of T)) as XK. rewrite map_length in XK.
  destruct (XK _ _ _ _ _ _ _ K W E) as (K2 & W2 & R2).
  destruct (cc_read_cycle_S _ _ _ _ _ _ _ _ E (proj1 K) S) as [SI2 S2].
  assert (SHa : Sh (state_get (w_i w) id) (h_cc e) addrs) by (destruct AD as [<-|CP]; [exact SH|eapply Sh_addrs; eauto]).
  pose proof (cc_read_cycle_G (map v3_of D) (map v3_of T)) as XG. rewrite map_length in XG.
  assert (FI : FetchI (w_i w) id (h_cc e)) by (eapply FetchI_of; eauto).
  pose proof (XG _ _ _ _ _ _ _ G K1 W FI E) as G2. unfold G3Res in G2.
  pose proof (cc_read_cycle_Sh id _ _ _ _ _ _ _ SHa S W E) as SR.
  assert (STEP : forall ex, h_cc ex = c1 -> (eu_addrs ex = addrs \/ cur_post c1 = None) -> B3 i1 ex).
  { intros ex EX AX. split; [|split; [unfold sum_of; rewrite EX; exact K2|rewrite EX; exact S2]].
    eapply K3_core_step; [exact K3e| |rewrite EX; exact SR|rewrite EX; exact AX].
    rewrite map_app. cbn [map]. unfold v3_of at 2. rewrite EX. exact G2. }
  destruct resp as [bytes|].
  - assert (R1 : c_rd c1 = RStart) by (apply R2; discriminate).
    eapply eu_run7_B; [| | |exact H]; cbn [h_cc]; [rewrite w_i_set_wi; apply STEP; [reflexivity|right; unfold cur_post; rewrite R1, W2; reflexivity]|exact R1|exact W2].
  - destruct H as (-> & E1 & E2). rewrite w_i_set_wi. split; [apply STEP; [exact E1|left; unfold eu_addrs; rewrite E2; reflexivity]|].
    unfold eu_ok. rewrite E1, E2. exact W2.
Qed.

Lemma eu_prepare7_B : forall labels ord cycle w e w' e' o, B3 (w_i w) e -> eu_ok e ->
  c_rd (h_cc e) = RStart -> c_wr (h_cc e) = WStart ->
  eu_prepare7 hk labels ord cycle id w e = Ok (w', e', o) -> B3 (w_i w') e' /\ eu_ok e'.
Proof.
  intros labels ord cycle w e w' e' o BB O R W H.
  assert (CP : cur_post (h_cc e) = None) by (unfold cur_post; rewrite R, W; reflexivity).
  apply eu_prepare7_split in H as [([F _] & E1 & E2)|(w0 & e0 & [F _] & E0 & E0' & [H|[addrs H]])].
  - rewrite F. split; [eapply B3_same_cc; [exact E1|right; exact CP|exact BB]|]. unfold eu_ok in *. rewrite E1, E2. exact O.
  - eapply eu_run7_B; [| | |exact H]; cbn [set_hco h_cc]; [|rewrite E0; exact R|rewrite E0; exact W].
    rewrite F. eapply B3_same_cc; [| |exact BB]; [cbn [set_hco h_cc]; exact E0|right; exact CP].
  - eapply eu_read7_B; [| | |exact H]; [|rewrite E0; exact W|right; rewrite E0; exact CP].
    rewrite F. eapply B3_same_cc; [exact E0|right; exact CP|exact BB].
Qed.

Lemma eu_cycle7_B : forall labels ord cycle w e w' e' o, B3 (w_i w) e -> EO e ->
  eu_cycle7 hk labels ord cycle id w e = Ok (w', e', o) -> B3 (w_i w') e'.
Proof.
  intros labels ord cycle w e w' e' o BB [O Q] H.
  assert (PRE : eu_pre7 e = false) by (unfold eu_pre7; rewrite Q; reflexivity).
  unfold eu_cycle7 in H. rewrite PRE in H. unfold eu_ok in O. destruct (h_co e) eqn:HC.
  - destruct O as [R W]. assert (CP : cur_post (h_cc e) = None) by (unfold cur_post; rewrite R, W; reflexivity).
    pose proof (hf_take hk HF id w) as [TK _]. destruct (k_take hk id w) as [w1 [r|]]; cbn [fst] in TK.
    + eapply eu_prepare7_B; [| | | |exact H]; cbn [h_cc]; [|unfold eu_ok; cbn; split; assumption|exact R|exact W].
      rewrite TK. eapply B3_same_cc; [| |exact BB]; [reflexivity|right; exact CP].
    + inv H. rewrite TK. exact BB.
  - destruct O as [R W]. eapply eu_prepare7_B; eauto. unfold eu_ok. rewrite HC. split; assumption.
  - eapply eu_read7_B; [exact BB|exact O| |exact H]. left. unfold eu_addrs. rewrite HC. reflexivity.
  - eapply eu_write7_B; [exact BB|exact O| |exact H]. left. unfold eu_addrs. rewrite HC. reflexivity.
Qed.

End OneCore3.

(* ------------------------------------------------------------------ *)
(* F. the loops over the execute units; a flush-free tick               *)
(* ------------------------------------------------------------------ *)

Definition F3 (i : msi7) (eus : list eu7) : Prop :=
  K3 i eus /\ K1' i (map sum_of eus) /\ CSs eus /\ Forall EO eus.

Lemma Forall_mid {A} (P : A -> Prop) d x t : Forall P (d ++ x :: t) <-> Forall P d /\ P x /\ Forall P t.
Proof.
  rewrite Forall_app. split.
  - intros [H1 H2]. inversion H2; subst. auto.
  - intros (H1 & H2 & H3). split; [exact H1|constructor; assumption].
Qed.

Lemma F3_split : forall i D e T, F3 i (D ++ e :: T) -> B3 D T i e /\ EO e /\ CSs D /\ CSs T /\ Forall EO D /\ Forall EO T.
Proof.
  intros i D e T (K & K1 & C & O). unfold CSs in *. apply Forall_mid in C as (C1 & C2 & C3). apply Forall_mid in O as (O1 & O2 & O3).
  split; [|auto 6]. split; [exact K|]. split; [rewrite sums_snoc in K1; exact K1|exact C2].
Qed.
Lemma F3_join : forall i D e T, B3 D T i e -> EO e -> CSs D -> CSs T -> Forall EO D -> Forall EO T -> F3 i (D ++ e :: T).
Proof.
  intros i D e T (K & K1 & C) O C1 C3 O1 O3. split; [exact K|]. split; [rewrite sums_snoc; exact K1|].
  split; [unfold CSs in *|]; apply Forall_mid; auto.
Qed.

Section StepF.
Variable hk : hooks7.
Hypothesis HF : hooks_frame hk.

Lemma eu_cycle7_F : forall labels ord cycle D T w e w' e' o, F3 (w_i w) (D ++ e :: T) ->
  eu_cycle7 hk labels ord cycle (Z.of_nat (length D)) w e = Ok (w', e', o) -> F3 (w_i w') (D ++ e' :: T).
Proof.
  intros labels ord cycle D T w e w' e' o F H. pose proof F as (_ & K1 & _ & _).
  apply F3_split in F as (BB & O & C1 & C3 & O1 & O3).
  pose proof (eu_cycle7_B hk HF D T _ _ _ _ _ _ _ _ BB O H) as B2.
  destruct (eu_cycle7_KD hk HF _ _ _ _ _ _ _ _ _ _ K1 O H) as [_ O2].
  apply F3_join; assumption.
Qed.

Lemma F3_reseq : forall i D e T q, q = 0 -> F3 i (D ++ e :: T) -> F3 i (D ++ mk_eu7 (h_co e) (h_memory e) (h_runner e) q (h_cc e) :: T).
Proof.
  intros i D e T q -> F. apply F3_split in F as (BB & [O Q] & C1 & C3 & O1 & O3). apply F3_join; try assumption.
  - eapply B3_same_cc; [| |exact BB]; [reflexivity|left; reflexivity].
  - split; [exact O|reflexivity].
Qed.

Lemma eus_main7_F : forall labels ord cycle eus D w acc w' eus' o,
  F3 (w_i w) (D ++ eus) -> y_flush acc = false -> y_seq acc = 0 ->
  eus_main7 hk labels ord cycle (Z.of_nat (length D)) w eus acc = Ok (w', eus', o) -> y_flush o = false ->
  F3 (w_i w') (D ++ eus').
Proof.
  intros labels ord cycle. induction eus as [|e tl IH]; intros D w acc w' eus' o F FL Q H FO; cbn [eus_main7] in H.
  - inv H. exact F.
  - apply bind_ok in H as ([[w1 e1] o1] & E1 & H).
    pose proof (F3_reseq _ _ _ _ _ Q F) as F0.
    pose proof (eu_cycle7_F _ _ _ _ _ _ _ _ _ _ F0 E1) as F1.
    destruct (y_err o1).
    + inv H. exact F1.
    + apply bind_ok in H as ([[w2 t'] acc2] & E2 & H). inv H.
      assert (FL1 : y_flush o1 = false).
      { destruct (y_flush o1) eqn:FL1; [|reflexivity]. exfalso.
        apply eus_main7_flush_mono in E2; [congruence|]. cbn [y_flush]. apply orb_true_r. }
      rewrite <- (snoc_len D e1) in E2. replace (D ++ e1 :: t') with ((D ++ [e1]) ++ t') by (rewrite <- app_assoc; reflexivity).
      eapply IH; [| | |exact E2|exact FO].
      * rewrite <- app_assoc. exact F1.
      * cbn [y_flush]. rewrite FL, FL1. reflexivity.
      * cbn [y_seq]. rewrite FL1. cbn [andb]. exact Q.
Qed.

Lemma eus_drain7_F : forall labels ord cycle eus D w w' eus' o,
  F3 (w_i w) (D ++ eus) -> eus_drain7 hk labels ord cycle (Z.of_nat (length D)) w eus = Ok (w', eus', o) -> F3 (w_i w') (D ++ eus').
Proof.
  intros labels ord cycle. induction eus as [|e tl IH]; intros D w w' eus' o F H; cbn [eus_drain7] in H.
  - inv H. exact F.
  - destruct (eu_empty7 e).
    + apply bind_ok in H as ([[w2 t'] er] & E2 & H). inv H. rewrite <- (snoc_len D e) in E2.
      replace (D ++ e :: t') with ((D ++ [e]) ++ t') by (rewrite <- app_assoc; reflexivity).
      eapply IH; [|exact E2]. rewrite <- app_assoc. exact F.
    + apply bind_ok in H as ([[w1 e1] o1] & E1 & H). pose proof (eu_cycle7_F _ _ _ _ _ _ _ _ _ _ F E1) as F1.
      destruct (y_err o1); [inv H; exact F1|].
      apply bind_ok in H as ([[w2 t'] er] & E2 & H). inv H. rewrite <- (snoc_len D e1) in E2.
      replace (D ++ e1 :: t') with ((D ++ [e1]) ++ t') by (rewrite <- app_assoc; reflexivity).
      eapply IH; [|exact E2]. rewrite <- app_assoc. exact F1.
Qed.

Lemma eus_final7_F : forall labels ord cycle eus D w w' eus' o,
  F3 (w_i w) (D ++ eus) -> eus_final7 hk labels ord cycle (Z.of_nat (length D)) w eus = Ok (w', eus', o) -> F3 (w_i w') (D ++ eus').
Proof.
  intros labels ord cycle. induction eus as [|e tl IH]; intros D w w' eus' o F H; cbn [eus_final7] in H.
  - inv H. exact F.
  - destruct (_ && _).
    + apply bind_ok in H as ([[w2 t'] er] & E2 & H). inv H. rewrite <- (snoc_len D e) in E2.
      replace (D ++ e :: t') with ((D ++ [e]) ++ t') by (rewrite <- app_assoc; reflexivity).
      eapply IH; [|exact E2]. rewrite <- app_assoc. exact F.
    + apply bind_ok in H as ([[w1 e1] o1] & E1 & H). pose proof (eu_cycle7_F _ _ _ _ _ _ _ _ _ _ F E1) as F1.
      apply bind_ok in H as ([[w2 t'] er] & E2 & H). inv H. rewrite <- (snoc_len D e1) in E2.
      replace (D ++ e1 :: t') with ((D ++ [e1]) ++ t') by (rewrite <- app_assoc; reflexivity).
      eapply IH; [|exact E2]. rewrite <- app_assoc. exact F1.
Qed.

(* cc.snoop.Cycle of one controller *)
Lemma snoop_one_F : forall D e T mem i mem' i' c', F3 i (D ++ e :: T) ->
  cc_snoop_cycle (k_evict hk) mem i (Z.of_nat (length D)) (h_cc e) = Ok (mem', i', c') -> F3 i' (D ++ set_hcc e c' :: T).
Proof.
  intros D e T mem i mem' i' c' F H. pose proof F as ([G C] & K1 & _ & _).
  apply F3_split in F as (BB & [O Q] & C1 & C3 & O1 & O3). pose proof BB as (_ & K1m & S).
  destruct (C (length D) e (nth_error_mid D e T)) as [SN SH].
  assert (NV : nth_error (map v3_of (D ++ e :: T)) (length D) = Some (v3_cc (h_cc e))).
  { rewrite map_app. cbn [map]. rewrite <- (map_length v3_of D). apply nth_error_mid. }
  destruct (cc_snoop_cycle_3 _ (hf_evict hk HF) _ _ _ _ _ _ _ _ _ NV G SN (proj1 S) SH H) as (G2 & SN2 & SH2 & R2 & W2 & P2 & OT & KEEP).
  destruct (cc_snoop_cycle_K _ (hf_evict hk HF) (map sum_of (D ++ e :: T)) _ _ _ _ _ _ _ H K1) as (K2 & SS & _ & _).
  destruct (cc_snoop_cycle_S _ (hf_evict hk HF) _ _ _ _ _ _ _ H (proj1 K1) S) as [_ S2].
  assert (VE : map v3_of (D ++ set_hcc e c' :: T) = map v3_of (D ++ e :: T)).
  { rewrite !map_app. cbn [map]. unfold v3_of at 2 4. cbn [set_hcc h_cc]. rewrite (v3_cc_same _ _ R2 W2 P2). reflexivity. }
  apply F3_join; try assumption.
  - split; [split|split].
    + rewrite VE. exact G2.
    + intros n x HX. destruct (Nat.eq_dec n (length D)) as [->|N].
      * rewrite nth_error_mid in HX. inv HX. split; [exact SN2|]. cbn [set_hcc h_cc]. exact SH2.
      * rewrite (nth_error_mid_other D e (set_hcc e c') T n N) in HX. destruct (C n x HX) as [S1 S2']. split.
        -- destruct S1 as [A1 A2]. split; [|exact A2]. intros it I. destruct (A1 it I) as [c0 I0]. exists c0. apply KEEP; [exact I0|]. cbn [c_tgt]. lia.
        -- eapply Sh_ext; [|exact S2']. intros a. apply OT. lia.
    + rewrite sums_snoc in K2. unfold sum_of at 2. cbn [set_hcc h_cc]. rewrite SS. exact K2.
    + cbn [set_hcc h_cc]. exact S2.
  - split; [|exact Q]. unfold eu_ok in *. cbn [set_hcc h_cc h_co]. rewrite R2, W2. exact O.
Qed.

Lemma snoops7_F : forall eus D w w' eus', F3 (w_i w) (D ++ eus) ->
  snoops7 hk (Z.of_nat (length D)) w eus = Ok (w', eus') -> F3 (w_i w') (D ++ eus').
Proof.
  induction eus as [|e tl IH]; intros D w w' eus' F H; cbn [snoops7] in H.
  - inv H. exact F.
  - apply bind_ok in H as ([[mem1 i1] c1] & E1 & H). apply bind_ok in H as ([w2 t'] & E2 & H). inv H. cbn [fst snd].
    pose proof (snoop_one_F _ _ _ _ _ _ _ _ F E1) as F1.
    rewrite <- (snoc_len D (set_hcc e c1)) in E2.
    replace (D ++ set_hcc e c1 :: t') with ((D ++ [set_hcc e c1]) ++ t') by (rewrite <- app_assoc; reflexivity).
    eapply IH; [|exact E2]. rewrite w_i_set_wmem, w_i_set_wi. rewrite <- app_assoc. exact F1.
Qed.

Definition F3St (s : st7) : Prop := F3 (st_msi s) (v_eus s).

Lemma ret_check7_F : forall s s', ret_check7 s = UCont s' -> F3St s -> F3St s'.
Proof. intros s s' H S. unfold ret_check7 in H. destruct (_ && _); inv H; exact S. Qed.

Theorem step7_F3 : forall app labels ord s s', step_noflush7 hk app labels ord s ->
  step7 hk app labels ord s = UCont s' -> F3St s -> F3St s'.
Proof.
  intros prog labels ord s s' NF H F. unfold step7 in H. unfold step_noflush7 in NF. unfold F3St, st_msi in F.
  destruct (v_mode s) eqn:M; try contradiction.
  - apply res_of7_cont in H as (w1 & E1 & H). pose proof (hf_front hk HF _ _ _ _ _ E1) as [FR _].
    apply res_of7_cont in H as ([w2 eus2] & E2 & H).
    apply res_of7_cont in H as ([[w3 eus3] o] & E3 & H).
    pose proof (NF _ _ _ E1 E2 E3) as FO. cbn [snd fst] in FO.
    apply (snoops7_F (v_eus s) []) in E2; [|cbn [app]; rewrite FR; exact F]. cbn [app] in E2. cbn [fst snd] in E3.
    pose proof (eus_main7_F labels ord (v_cycle s + 1) eus2 [] w2 yo_none w3 eus3 o E2 eq_refl eq_refl E3 FO) as F3'.
    cbn [app] in F3'. unfold back7 in H. destruct (y_err o); [discriminate|].
    apply res_of7_cont in H as ([x wus1] & E & H). destruct (y_ret o).
    + eapply ret_check7_F; [exact H|]. exact F3'.
    + rewrite FO in H. destruct (is_empty7 x eus3 wus1); inv H; exact F3'.
  - apply res_of7_cont in H as ([w2 eus2] & E2 & H).
    apply (snoops7_F (v_eus s) []) in E2; [|exact F]. cbn [app] in E2.
    apply res_of7_cont in H as ([[w3 eus3] er] & E3 & H).
    pose proof (eus_drain7_F _ _ _ _ [] _ _ _ _ E2 E3) as F3'. cbn [app] in F3'.
    destruct er; [discriminate|]. apply res_of7_cont in H as ([x2 wus1] & E4 & H).
    eapply ret_check7_F; [exact H|]. exact F3'.
  - apply res_of7_cont in H as ([w2 eus2] & E2 & H).
    apply (snoops7_F (v_eus s) []) in E2; [|exact F]. cbn [app] in E2.
    apply res_of7_cont in H as ([[w3 eus3] sk] & E3 & H).
    pose proof (eus_final7_F _ _ _ _ [] _ _ _ _ E2 E3) as F3'. cbn [app] in F3'.
    destruct (_ && _); inv H. exact F3'.
Qed.

Theorem reach7nf_F3 : forall app labels ord s0 s, reach7nf hk app labels ord s0 s -> F3St s0 -> F3St s.
Proof. intros app labels ord s0 s R S0. induction R; [exact S0|]. eapply step7_F3; eauto. Qed.

End StepF.

(* ------------------------------------------------------------------ *)
(* G. the initial state; clause 3                                       *)
(* ------------------------------------------------------------------ *)

Lemma state_get_new : forall id a, state_get msi_new id a = stInvalid.
Proof. reflexivity. Qed.

Lemma init7_F3 : forall par ord app st s, init7 par ord app st = Ok s -> F3St s.
Proof.
  intros par ord app st s H. pose proof (init7_K1 _ _ _ _ _ H) as [K1 O]. pose proof (init7_struct _ _ _ _ _ H) as [_ C].
  unfold F3St. split; [|split; [exact K1|split; [exact C|exact O]]].
  unfold init7 in H. destruct (init3 par ord app st); try discriminate.
  destruct (new_cache l1LineSize l1Size) as [l1d| |] eqn:EC; try discriminate. inv H. unfold st_msi. cbn [v_eus v_w w_i].
  assert (LN : lines l1d = []).
  { unfold new_cache in EC. destruct (l1LineSize =? 0); [discriminate|]. destruct (negb _); [discriminate|]. inv EC. reflexivity. }
  set (cc := mk_cc7 l1d RStart WStart [] [] [] PNil). set (e0 := mk_eu7 HNone [] None 0 cc).
  assert (IDLE : forall n v, nth_error (map v3_of (repeat e0 par)) n = Some v -> v = idle3).
  { intros n v HN. apply nth_error_In in HN. apply in_map_iff in HN as (e & <- & He). apply repeat_spec in He. subst e. reflexivity. }
  split.
  - constructor.
    + intros ? [].
    + intros ? ? ? ? ? ? [].
    + intros ? ? ? ? [].
    + intros ? ? ? ? ? ? ? _ _ _ [].
    + intros ? ? ? ? ? ? _ _ _ [].
    + intros n0 v0 p0 HN P. apply IDLE in HN. subst v0. discriminate.
    + constructor.
    + constructor.
  - intros n e HN. apply nth_error_In in HN. apply repeat_spec in HN. subst e. split.
    + split; [intros it []|constructor].
    + apply Sh_idle; [|reflexivity|reflexivity]. split; [|split].
      * intros a N. exfalso. apply N. reflexivity.
      * intros a _ N. exfalso. apply N. reflexivity.
      * intros a _ HO. exfalso. unfold l1_holds, l1_line in HO. cbn [e0 cc h_cc c_l1d] in HO. rewrite LN in HO. discriminate.
Qed.

Lemma F3_clause3 : forall s, F3St s -> clause3_70 (st_msi s) (v_eus s).
Proof.
  intros s ([_ C] & _) n e a HN AL. unfold core in HN. destruct (C n e HN) as [_ ((S0 & A & B) & _)]. split.
  - intros N. apply A; assumption.
  - intros TR HO. destruct (B a AL HO) as [N|T]; [exact N|]. unfold transfer7 in TR. unfold transfer_cc in T. congruence.
Qed.

(* what the invariant says about the commands in flight, for the record *)
Definition cmds_ok70 (i : msi7) (eus : list eu7) : Prop :=
  (forall t b rq c, In (t, b, rq, c) (i_cmds i) ->
     ((rq = rqEvict /\ state_get i t b = stShared) \/ (rq = rqWriteBack /\ state_get i t b = stModified)) /\
     (forall n e, t = Z.of_nat n -> nth_error eus n = Some e -> tx_line7 e <> Some b)) /\
  (forall n e it, nth_error eus n = Some e -> In it (c_snoop (h_cc e)) -> exists c, In (Z.of_nat n, it_line it, it_rq it, c) (i_cmds i)).

Lemma F3_cmds : forall s, F3St s -> cmds_ok70 (st_msi s) (v_eus s).
Proof.
  intros s ([G C] & _). split.
  - intros t b rq c I. split; [exact (g1 _ _ G _ I)|]. intros n e E HN.
    apply (g2 _ _ G _ _ _ _ n (v3_of e) I E). apply map_nth_error. exact HN.
  - intros n e it HN I. destruct (C n e HN) as [[A _] _]. apply A. exact I.
Qed.

Theorem mvp70_clause3 : forall par ord app labels st s0 s, init7 par ord app st = Ok s0 ->
  reach7nf hooks70 app labels ord s0 s -> clause3_70 (st_msi s) (v_eus s) /\ cmds_ok70 (st_msi s) (v_eus s).
Proof.
  intros par ord app labels st s0 s I R.
  assert (F : F3St s) by (eapply reach7nf_F3; [exact hooks70_frame|exact R|]; eapply init7_F3; eauto).
  split; [apply F3_clause3|apply F3_cmds]; exact F.
Qed.
Print Assumptions mvp70_clause3.
