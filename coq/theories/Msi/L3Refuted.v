(* C06 - the L3 level AS CODED (Msi/L3Protocol.v, rep = false) leaves the
   invariants: kernel-checked witness traces, all with L3 lines of 128 bytes
   (two L1 lines of 64), an L3 of capacity ONE line (the code: 32; the traces
   need "L3 full", which a capacity of one gives at once) and initial memory
   m0 l = l.  No flush, L1 protocol as coded.

   (1) l3_refill_race_refuted - known finding C06-l3-refill-race: the copy of
       main memory taken when a miss starts is pushed into L3 after the
       write-back of a Modified L1 line of that L3 line went to memory: L3
       holds a line that is not marked dirty and differs from memory, the
       "current value" is no longer the last value written, a reader gets the
       old value.
   (2) l3_double_victim_panic_refuted / l3_double_victim_occupancy_refuted -
       known finding C06-l3-double-victim: two cores that fill the full L3 are
       both told to evict the same line; the second l3WriteBack command finds
       it gone (Go: panic "memory address should exist"); with l3Evict the
       second is ignored and L3 stays over capacity with nothing outstanding.
       l3_same_core_double_victim_refuted: one core is enough (coRead does not
       wait for its victim command).
   (3) l3_victim_kind_race_refuted - finding C06-l3-victim-kind-race (found by
       this model, then reproduced on the implementation): the kind of the
       victim command (l3Evict / l3WriteBack) is fixed when it is issued; an L1
       write-back into the victim line before the command runs is dropped with
       the line: the last value written is lost, the next reader gets the old
       value.  (In the implementation the command waits behind the snoop
       coroutine's own l1WriteBack of a Modified line of the victim.) *)
From Coq Require Import List ZArith Lia Bool Arith.
From Maj Require Import Msi.Protocol Msi.Invariant Msi.L3Protocol Msi.L3Invariant Msi.L3Lemmas.
Import ListNotations.
Open Scope Z_scope.

Definition m0 : line -> val := fun l => l.

Lemma trace3_reach N g fm rep w cap m s t s' :
  reach3 N g fm rep w cap m s -> trace3 N g fm rep w cap s t s' -> reach3 N g fm rep w cap m s'.
Proof. intros R T. induction T; auto. apply IHT. eapply reach3_step; eauto. Qed.

Ltac side :=
  simpl; try reflexivity; try lia; try exact Logic.I;
  try (unfold lock_guard; discriminate);
  try (intros ? ? ?; simpl; first [discriminate | reflexivity]); auto.
(* others_not_M / others_I for up to three cores *)
Ltac others :=
  let j := fresh "j" in intros j ? ?; destruct j as [|[|[|j]]]; simpl; try discriminate; try reflexivity; try lia.
Ltac kc := eapply t3_cons; [apply s3_core; [reflexivity|econstructor; side]|simpl].
Ltac kwb v0 := eapply t3_cons; [eapply s3_wb_done with (v := v0); side|simpl].
Ltac kmr := eapply t3_cons;
  [eapply s3_mem_fetch; [reflexivity|lia|left; split; [reflexivity|others]|reflexivity|reflexivity]|simpl].
Ltac kmw := eapply t3_cons;
  [eapply s3_mem_fetch; [reflexivity|lia|right; split; [reflexivity|others]|reflexivity|reflexivity]|simpl].
Ltac kp := eapply t3_cons;
  [eapply s3_push; [reflexivity|lia|first [left; reflexivity|right; reflexivity]|reflexivity]|simpl].
Ltac kfr := eapply t3_cons;
  [eapply s3_fetch_rd; [lia|reflexivity|others|reflexivity|first [left; reflexivity|right; reflexivity]]|simpl].
Ltac kfw := eapply t3_cons;
  [eapply s3_fetch_wr; [lia|reflexivity|others|reflexivity|first [left; reflexivity|right; reflexivity]]|simpl].
Ltac kev := eapply t3_cons; [eapply s3_l3cmd_ev; simpl; tauto|simpl].
Ltac kwl := eapply t3_cons; [eapply s3_l3cmd_wb; simpl; tauto|simpl].

Notation T3 := (trace3 3 false NoFlush false 128 1).
Notation R3 := (reach3 3 false NoFlush false 128 1 m0).

(* ---- (1) the refill race ---- *)
Definition race_trace : list label3 :=
  [ (* core 1 misses on line 0: the L3 line 0 (L1 lines 0 and 64) is copied out of memory *)
    K_core (L_rlock_I 1 0); K_mem_fetch 1 0;
    (* core 0 writes line 64 (same L3 line): refill, fetch, fill, settle: Modified, value 5 *)
    K_core (L_lock_I 0 64); K_mem_fetch 0 64; K_push 0 64; K_fetch_l3 0 64;
    K_core (L_fill_wr 0 64 None); K_core (L_settle_wr 0 64 5);
    (* core 0 misses on line 128: L3 is full, the L3 line 0 is the victim (clean): evicted *)
    K_core (L_rlock_I 0 128); K_mem_fetch 0 128; K_push 0 128; K_l3cmd_done 0 0 false;
    (* core 2 reads line 64: core 0 writes its Modified copy back - to MEMORY, L3 does not hold the line *)
    K_core (L_rlock_I 2 64); K_wb_done 0 64;
    (* core 1 pushes its old copy of the L3 line 0 *)
    K_push 1 0;
    (* core 2 is served from L3 *)
    K_fetch_l3 2 64; K_core (L_fill_rd 2 64 None); K_core (L_settle_rd 2 64) ].

Lemma race_run : exists s, T3 (init3 m0) race_trace s /\
  ms (core s) 0%nat 64 = I /\ ms (core s) 1%nat 64 = I /\ ms (core s) 2%nat 64 = S /\
  l1 (core s) 2%nat 64 = Some 64 /\ lastw m0 (hist s) 64 = 5 /\ mem (core s) 64 = 5 /\
  in_l3 128 s 64 = true /\ l3d s 64 = 64 /\ l3w s 0 = false.
Proof.
  eexists. split.
  - unfold race_trace. kc. kmr. kc. kmw. kp. kfw. kc. kc. kc. kmr. kp. kev. kc. kwb 5. kp. kfr. kc. kc.
    apply t3_nil.
  - vm_compute. repeat split; reflexivity.
Qed.

Theorem l3_refill_race_refuted : exists s, T3 (init3 m0) race_trace s /\ R3 s /\
  (* core 2 completed a read of line 64 with the value 64; the last value written to it is 5 *)
  ms (core s) 2%nat 64 = S /\ l1 (core s) 2%nat 64 = Some 64 /\ lastw m0 (hist s) 64 = 5 /\
  (* L3 holds the line, not marked dirty, and differs from memory *)
  in_l3 128 s 64 = true /\ l3w s 0 = false /\ l3d s 64 = 64 /\ mem (core s) 64 = 5 /\
  ~ DV 3 (view 128 s) (lastw m0 (hist s)) /\
  ~ (forall b k, In b (l3q s) -> l3w s b = false -> grp 128 k = b -> l3d s k = mem (core s) k).
Proof.
  destruct race_run as [s [T [M0 [M1 [M2 [L2 [LW [MM [IN [LD LWf]]]]]]]]]].
  exists s. split; [exact T|]. split; [exact (trace3_reach _ _ _ _ _ _ _ _ _ _ (reach3_init _ _ _ _ _ _ _) T)|].
  repeat (split; [assumption|]). split.
  - intros D. destruct (D 64) as [_ D2]. simpl in D2. unfold next in D2. rewrite IN, LD, LW in D2.
    assert (X : 64 = 5); [|discriminate X]. apply D2.
    intros i Hi. destruct i as [|[|[|i]]]; [rewrite M0|rewrite M1|rewrite M2|lia]; discriminate.
  - intros H. assert (X : l3d s 64 = mem (core s) 64); [|rewrite LD, MM in X; discriminate X].
    apply (H 0 64); auto. apply inq_iff. exact IN.
Qed.

(* the same race, one eviction later: a Shared copy differs from the next level *)
Definition race_trace2 : list label3 :=
  [ K_core (L_rlock_I 1 0); K_mem_fetch 1 0;
    K_core (L_lock_I 0 64); K_mem_fetch 0 64; K_push 0 64; K_fetch_l3 0 64;
    K_core (L_fill_wr 0 64 None); K_core (L_settle_wr 0 64 5);
    K_core (L_rlock_I 0 128); K_mem_fetch 0 128; K_push 0 128; K_l3cmd_done 0 0 false;
    K_fetch_l3 0 128; K_core (L_fill_rd 0 128 None); K_core (L_settle_rd 0 128);
    (* core 2 reads line 64: write-back to memory, fresh refill, Shared with the value 5 *)
    K_core (L_rlock_I 2 64); K_wb_done 0 64; K_mem_fetch 2 64; K_push 2 64; K_l3cmd_done 2 128 false;
    K_fetch_l3 2 64; K_core (L_fill_rd 2 64 None); K_core (L_settle_rd 2 64);
    (* the L3 line 0 is evicted once more, then core 1 pushes its old copy *)
    K_core (L_rlock_I 0 256); K_mem_fetch 0 256; K_push 0 256; K_l3cmd_done 0 0 false;
    K_push 1 0 ].

Theorem l3_refill_race_breaks_clause2_refuted : exists s, T3 (init3 m0) race_trace2 s /\ R3 s /\
  ms (core s) 2%nat 64 = S /\ l1 (core s) 2%nat 64 = Some 5 /\ next 128 s 64 = 64 /\
  ~ clause2 (obs_of_st 3 (view 128 s)).
Proof.
  assert (X : exists s, T3 (init3 m0) race_trace2 s /\
     ms (core s) 2%nat 64 = S /\ l1 (core s) 2%nat 64 = Some 5 /\ next 128 s 64 = 64).
  { eexists. split.
    - unfold race_trace2. kc. kmr. kc. kmw. kp. kfw. kc. kc. kc. kmr. kp. kev. kfr. kc. kc.
      kc. kwb 5. kmr. kp. kev. kfr. kc. kc. kc. kmr. kp. kev. kp. apply t3_nil.
    - vm_compute. repeat split; reflexivity. }
  destruct X as [s [T [A [B C]]]]. exists s. split; [exact T|].
  split; [exact (trace3_reach _ _ _ _ _ _ _ _ _ _ (reach3_init _ _ _ _ _ _ _) T)|].
  repeat (split; [assumption|]).
  intros C2. specialize (C2 2%nat 64 ltac:(simpl; lia) A). simpl in C2. rewrite B, C in C2. discriminate C2.
Qed.

(* ---- (2) the double victim ---- *)
Definition victim_trace_wb : list label3 :=
  [ (* core 0 writes line 0, core 1 reads it: the Modified copy is written back INTO L3: line 0 dirty *)
    K_core (L_lock_I 0 0); K_mem_fetch 0 0; K_push 0 0; K_fetch_l3 0 0;
    K_core (L_fill_wr 0 0 None); K_core (L_settle_wr 0 0 5);
    K_core (L_rlock_I 1 0); K_wb_done 0 0; K_fetch_l3 1 0; K_core (L_fill_rd 1 0 None); K_core (L_settle_rd 1 0);
    (* both cores miss on other L3 lines; each push names the last line - line 0 - as victim *)
    K_core (L_rlock_I 0 128); K_mem_fetch 0 128; K_core (L_rlock_I 1 256); K_mem_fetch 1 256;
    K_push 0 128; K_push 1 256;
    (* the command of core 0 writes line 0 back and evicts it *)
    K_l3cmd_done 0 0 true ].

Theorem l3_double_victim_panic_refuted : exists s, T3 (init3 m0) victim_trace_wb s /\ R3 s /\
  l3c s = [(1%nat, 0, true)] /\ l3q s = [256; 128] /\ ~ l3_cmds_have_lines s.
Proof.
  assert (X : exists s, T3 (init3 m0) victim_trace_wb s /\ l3c s = [(1%nat, 0, true)] /\ l3q s = [256; 128]).
  { eexists. split.
    - unfold victim_trace_wb. kc. kmw. kp. kfw. kc. kc. kc. kwb 5. kfr. kc. kc. kc. kmr. kc. kmr. kp. kp. kwl.
      apply t3_nil.
    - vm_compute. split; reflexivity. }
  destruct X as [s [T [A B]]]. exists s. split; [exact T|].
  split; [exact (trace3_reach _ _ _ _ _ _ _ _ _ _ (reach3_init _ _ _ _ _ _ _) T)|].
  repeat (split; [assumption|]).
  intros H. specialize (H 1%nat 0). rewrite A, B in H. simpl in H.
  destruct H as [H|[H|[]]]; [now left|discriminate H|discriminate H].
Qed.

Definition victim_trace_ev : list label3 :=
  [ K_core (L_rlock_I 0 0); K_mem_fetch 0 0; K_push 0 0; K_fetch_l3 0 0;
    K_core (L_fill_rd 0 0 None); K_core (L_settle_rd 0 0);
    K_core (L_rlock_I 0 128); K_mem_fetch 0 128; K_core (L_rlock_I 1 256); K_mem_fetch 1 256;
    K_push 0 128; K_push 1 256;
    K_l3cmd_done 0 0 false; K_l3cmd_done 1 0 false ].

Theorem l3_double_victim_occupancy_refuted : exists s, T3 (init3 m0) victim_trace_ev s /\ R3 s /\
  l3c s = [] /\ l3q s = [256; 128] /\ ~ l3_occupancy_ok 1 s.
Proof.
  assert (X : exists s, T3 (init3 m0) victim_trace_ev s /\ l3c s = [] /\ l3q s = [256; 128]).
  { eexists. split.
    - unfold victim_trace_ev. kc. kmr. kp. kfr. kc. kc. kc. kmr. kc. kmr. kp. kp. kev. kev. apply t3_nil.
    - vm_compute. split; reflexivity. }
  destruct X as [s [T [A B]]]. exists s. split; [exact T|].
  split; [exact (trace3_reach _ _ _ _ _ _ _ _ _ _ (reach3_init _ _ _ _ _ _ _) T)|].
  repeat (split; [assumption|]).
  intros H. specialize (H A). rewrite B in H. simpl in H. lia.
Qed.

(* one core suffices: coRead does not wait for its own victim command (cc.go 262-271 falls through
   to coSyncReadFromL1), so the next miss of the same core names the same last line again and
   msi.sendNewL3MSICommand reuses the outstanding command: two lines over capacity, one command *)
Definition victim_trace_same_core : list label3 :=
  [ K_core (L_rlock_I 0 0); K_mem_fetch 0 0; K_push 0 0; K_fetch_l3 0 0;
    K_core (L_fill_rd 0 0 None); K_core (L_settle_rd 0 0);
    K_core (L_rlock_I 0 128); K_mem_fetch 0 128; K_push 0 128; K_fetch_l3 0 128;
    K_core (L_fill_rd 0 128 None); K_core (L_settle_rd 0 128);
    K_core (L_rlock_I 0 256); K_mem_fetch 0 256; K_push 0 256;
    K_l3cmd_done 0 0 false ].

Theorem l3_same_core_double_victim_refuted : exists s, T3 (init3 m0) victim_trace_same_core s /\ R3 s /\
  l3c s = [] /\ l3q s = [256; 128] /\ ~ l3_occupancy_ok 1 s.
Proof.
  assert (X : exists s, T3 (init3 m0) victim_trace_same_core s /\ l3c s = [] /\ l3q s = [256; 128]).
  { eexists. split.
    - unfold victim_trace_same_core. kc. kmr. kp. kfr. kc. kc. kc. kmr. kp. kfr. kc. kc. kc. kmr. kp. kev.
      apply t3_nil.
    - vm_compute. split; reflexivity. }
  destruct X as [s [T [A B]]]. exists s. split; [exact T|].
  split; [exact (trace3_reach _ _ _ _ _ _ _ _ _ _ (reach3_init _ _ _ _ _ _ _) T)|].
  repeat (split; [assumption|]).
  intros H. specialize (H A). rewrite B in H. simpl in H. lia.
Qed.

(* ---- (3) the kind of the victim command is fixed too early ---- *)
Definition kind_trace : list label3 :=
  [ (* core 0 writes line 0: Modified, value 5; the L3 line 0 is clean *)
    K_core (L_lock_I 0 0); K_mem_fetch 0 0; K_push 0 0; K_fetch_l3 0 0;
    K_core (L_fill_wr 0 0 None); K_core (L_settle_wr 0 0 5);
    (* core 1 misses on line 128: victim = line 0, clean now: command l3Evict *)
    K_core (L_rlock_I 1 128); K_mem_fetch 1 128; K_push 1 128;
    (* core 2 reads line 0: core 0 writes its copy back into L3 (line 0 is still there): dirty *)
    K_core (L_rlock_I 2 0); K_wb_done 0 0;
    (* the l3Evict command runs: the line goes without being written to memory *)
    K_l3cmd_done 1 0 false;
    (* core 2 is served from memory *)
    K_mem_fetch 2 0; K_push 2 0; K_fetch_l3 2 0; K_core (L_fill_rd 2 0 None); K_core (L_settle_rd 2 0) ].

Theorem l3_victim_kind_race_refuted : exists s, T3 (init3 m0) kind_trace s /\ R3 s /\
  ms (core s) 2%nat 0 = S /\ l1 (core s) 2%nat 0 = Some 0 /\ lastw m0 (hist s) 0 = 5 /\
  next 128 s 0 = 0 /\ mem (core s) 0 = 0 /\
  ~ DV 3 (view 128 s) (lastw m0 (hist s)).
Proof.
  assert (X : exists s, T3 (init3 m0) kind_trace s /\
     ms (core s) 0%nat 0 = I /\ ms (core s) 1%nat 0 = I /\ ms (core s) 2%nat 0 = S /\
     l1 (core s) 2%nat 0 = Some 0 /\ lastw m0 (hist s) 0 = 5 /\ next 128 s 0 = 0 /\ mem (core s) 0 = 0).
  { eexists. split.
    - unfold kind_trace. kc. kmw. kp. kfw. kc. kc. kc. kmr. kp. kc. kwb 5. kev. kmr. kp. kfr. kc. kc.
      apply t3_nil.
    - vm_compute. repeat split; reflexivity. }
  destruct X as [s [T [M0 [M1 [M2 [L2 [LW [NX MM]]]]]]]]. exists s. split; [exact T|].
  split; [exact (trace3_reach _ _ _ _ _ _ _ _ _ _ (reach3_init _ _ _ _ _ _ _) T)|].
  repeat (split; [assumption|]).
  intros D. destruct (D 0) as [_ D2]. simpl in D2. rewrite NX, LW in D2.
  assert (X : 0 = 5); [|discriminate X]. apply D2.
  intros i Hi. destruct i as [|[|[|i]]]; [rewrite M0|rewrite M1|rewrite M2|lia]; discriminate.
Qed.
