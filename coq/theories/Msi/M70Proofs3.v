(* C06 about the faithful model of MVP-7.0, part 3: the COMMAND invariant GI of the directory, on flush-free runs.

   Part 2 (M70Proofs2.v) abstracts a controller to (cur_post, cur_pend) and proves K1' (clause 1, counters, covers).
   Here a controller is abstracted to a VIEW (cur_post, cur_pend, cur_ev): cur_ev = the identity of the command the
   controller waits for in REvict / WEvict (the eviction of the line displaced by its own fill).  GI i views says,
   of every command (t, b, rq, c) of the directory:
     G1  its kind matches the state of its target: Evict <-> Shared, WriteBack <-> Modified;
     G2  its target is not inside a transaction on line b;
     G3  it is JUSTIFIED: the target waits for it (cur_ev = c), or the write counter of b is held, or it is a
         write-back and the read counter of b is held   (so the target can never take the semaphore of b);
     G4  a core that waits for its pending commands on line b (cur_pend = Some ps) has the identity of every
         command on b to another core in ps, unless that command is the target's own eviction;
     G5  a core past that wait sees only own-eviction commands on its line;
     G7  a core inside a READ transaction (PShareRUnlock / PRUnlock) on b is not Modified on b;
     G8  at most one command per (target, line).
   This replaces the conjuncts cmds_b / just_b of the boolean judge of M70Inv.v by statements over the
   semaphores, which are inductive without any timing argument.
   Seven abstract lemmas (stutter, commands sent by an acquire, pend exit, own eviction start / end, release,
   command done) are composed along coRead / coWrite / coSnoop exactly as in part 2. *)
From Coq Require Import ZArith List Bool Lia.
From Maj Require Import Base.Outcome Base.GoInt Base.GoTypes Isa.Spec Isa.Seq.
From Maj Require Import Gen.Latency Gen.RiscTables Gen.Opcodes Comp.Cache Comp.Rat Comp.RatProofs Mvp.Mvp12 Mvp.Mvp3 Mvp.Mvp5 Mvp.Mvp60 Mvp.Mvp63 Mvp.Mvp63Proofs Mvp.Mvp70 Mvp.Mvp70Proofs.
From Maj Require Import Msi.M70Inv Msi.M70Frame Msi.M70Proofs Msi.M70Proofs2.
Import ListNotations.
Open Scope Z_scope.

(* ------------------------------------------------------------------ *)
(* definitions                                                          *)
(* ------------------------------------------------------------------ *)

Definition cur_ev (c : cc7) : option Z :=
  match c_rd c with
  | REvict (Some x) _ => Some x
  | RStart => match c_wr c with WEvict (Some x) _ _ => Some x | _ => None end
  | _ => None
  end.

Definition view3 : Type := (option post7 * option (list Z) * option Z)%type.
Definition v3_cc (c : cc7) : view3 := (cur_post c, cur_pend c, cur_ev c).
Definition v3_of (e : eu7) : view3 := v3_cc (h_cc e).
Definition v_post (v : view3) : option post7 := fst (fst v).
Definition v_pend (v : view3) : option (list Z) := snd (fst v).
Definition v_ev (v : view3) : option Z := snd v.
Definition v_line (v : view3) : option Z := match v_post v with Some p => post_line p | None => None end.
Definition v_sum (v : view3) : summary := fst v.

Definition self_ev (vs : list view3) (t c : Z) : Prop :=
  exists n v, t = Z.of_nat n /\ nth_error vs n = Some v /\ v_ev v = Some c.

(* what the `post` closure of a transaction says about the state of its own core on its line *)
Definition own_ok (i : msi7) (id : Z) (p : post7) : Prop :=
  match p with
  | PNil => True
  | PShareRUnlock b => state_get i id b = stInvalid
  | PRUnlock b => state_get i id b = stShared
  | PUnlock b => state_get i id b = stModified
  | PModUnlock b => state_get i id b <> stModified
  end.

Definition kind_ok (i : msi7) (x : Z * Z * Z * Z) : Prop :=
  match x with (t, b, rq, _) =>
    (rq = rqEvict /\ state_get i t b = stShared) \/ (rq = rqWriteBack /\ state_get i t b = stModified) end.
Definition ckey (e : Z * Z * Z * Z) : Z * Z := match e with (t, b, _, _) => (t, b) end.

Record GI (i : msi7) (vs : list view3) : Prop := mk_GI {
  g1 : forall x, In x (i_cmds i) -> kind_ok i x;
  g2 : forall t b rq c n v, In (t, b, rq, c) (i_cmds i) -> t = Z.of_nat n -> nth_error vs n = Some v -> v_line v <> Some b;
  g3 : forall t b rq c, In (t, b, rq, c) (i_cmds i) ->
         self_ev vs t c \/ 1 <= snd (sem_get i b) \/ (rq = rqWriteBack /\ 1 <= fst (sem_get i b));
  g4 : forall n v ps b t rq c, nth_error vs n = Some v -> v_pend v = Some ps -> v_line v = Some b ->
         In (t, b, rq, c) (i_cmds i) -> t <> Z.of_nat n -> In c ps \/ self_ev vs t c;
  g5 : forall n v b t rq c, nth_error vs n = Some v -> v_pend v = None -> v_line v = Some b ->
         In (t, b, rq, c) (i_cmds i) -> t <> Z.of_nat n -> self_ev vs t c;
  g7 : forall n v p, nth_error vs n = Some v -> v_post v = Some p -> own_ok i (Z.of_nat n) p;
  g8 : NoDup (map ckey (i_cmds i));
  g9 : NoDup (map fst (i_states i)) }.

(* ------------------------------------------------------------------ *)
(* lists, views                                                         *)
(* ------------------------------------------------------------------ *)

Lemma NoDup_map_inj {A B} (f : A -> B) l x y : NoDup (map f l) -> In x l -> In y l -> f x = f y -> x = y.
Proof.
  induction l as [|z t IH]; intros N X Y E; [destruct X|]. cbn [map] in N. inversion N as [|? ? N1 N2]; subst.
  destruct X as [->|X], Y as [->|Y]; [reflexivity| | |apply IH; assumption].
  - exfalso. apply N1. rewrite E. apply in_map. exact Y.
  - exfalso. apply N1. rewrite <- E. apply in_map. exact X.
Qed.

Lemma NoDup_map_filter {A B} (f : A -> B) (g : A -> bool) l : NoDup (map f l) -> NoDup (map f (filter g l)).
Proof.
  induction l as [|z t IH]; intros N; [constructor|]. cbn [map] in N. inversion N as [|? ? N1 N2]; subst.
  cbn [filter]. destruct (g z); [|apply IH; exact N2]. cbn [map]. constructor; [|apply IH; exact N2].
  intros H. apply N1. apply in_map_iff in H as (y & E & Y). apply filter_In in Y as [Y _]. rewrite <- E. apply in_map. exact Y.
Qed.

Lemma v_line_post : forall v b, v_line v = Some b -> exists p, v_post v = Some p /\ post_line p = Some b.
Proof. intros v b H. unfold v_line in H. destruct (v_post v) as [p|]; [|discriminate]. eauto. Qed.

Section Mid.
Variables (d t : list view3).
Let id := Z.of_nat (length d).

Lemma self_ev_repl : forall v v' x c, self_ev (d ++ v :: t) x c -> (x = id -> v_ev v = Some c -> v_ev v' = Some c) ->
  self_ev (d ++ v' :: t) x c.
Proof.
  intros v v' x c (n & w & E & H & V) F. exists n. destruct (Nat.eq_dec n (length d)) as [->|N].
  - rewrite nth_error_mid in H. inv H. exists v'. split; [reflexivity|]. split; [apply nth_error_mid|]. apply F; [reflexivity|exact V].
  - exists w. split; [exact E|]. split; [|exact V]. rewrite (nth_error_mid_other d v v' t n N). exact H.
Qed.

Lemma self_ev_other : forall v v' x c, x <> id -> self_ev (d ++ v :: t) x c -> self_ev (d ++ v' :: t) x c.
Proof. intros v v' x c N H. eapply self_ev_repl; [exact H|]. intros E. contradiction. Qed.

Lemma self_ev_id : forall v c, self_ev (d ++ v :: t) id c -> v_ev v = Some c.
Proof.
  intros v c (n & w & E & H & V). unfold id in E. apply Nat2Z.inj in E. subst n. rewrite nth_error_mid in H. inv H. exact V.
Qed.

Lemma isdone_spec : forall i c x, cmd_isdone i c = true -> In x (i_cmds i) -> snd x <> c.
Proof.
  intros i c x H I E. unfold cmd_isdone in H. apply negb_true_iff in H.
  assert (existsb (fun e => snd e =? c) (i_cmds i) = true); [|congruence].
  apply existsb_exists. exists x. split; [exact I|]. apply Z.eqb_eq. exact E.
Qed.

(* the view of one core changes, the directory does not: same post; the pend phase may end when every pending
   command is done; the eviction wait may end when its command is done *)
Lemma GI_local : forall i v v', GI i (d ++ v :: t) -> v_post v' = v_post v ->
  (v_pend v' = v_pend v \/ (v_pend v' = None /\ exists ps, v_pend v = Some ps /\ all_done i ps = true)) ->
  (forall c, v_ev v = Some c -> v_ev v' = Some c \/ cmd_isdone i c = true) ->
  GI i (d ++ v' :: t).
Proof.
  intros i v v' G P Q R.
  assert (L : v_line v' = v_line v) by (unfold v_line; rewrite P; reflexivity).
  assert (SE : forall x b rq c, In (x, b, rq, c) (i_cmds i) -> self_ev (d ++ v :: t) x c -> self_ev (d ++ v' :: t) x c).
  { intros x b rq c I S. eapply self_ev_repl; [exact S|]. intros E V. destruct (R c V) as [A|A]; [exact A|].
    exfalso. exact (isdone_spec i c _ A I eq_refl). }
  constructor.
  - apply (g1 _ _ G).
  - intros x b rq c n w I E H. destruct (Nat.eq_dec n (length d)) as [->|N].
    + rewrite nth_error_mid in H. inv H. rewrite L. eapply (g2 _ _ G); [exact I|reflexivity|apply nth_error_mid].
    + rewrite (nth_error_mid_other d v v' t n N) in H. eapply (g2 _ _ G); eauto.
  - intros x b rq c I. destruct (g3 _ _ G _ _ _ _ I) as [S|S]; [left; eapply SE; eauto|right; exact S].
  - intros n w ps b x rq c H PE LI I NE. destruct (Nat.eq_dec n (length d)) as [->|N].
    + rewrite nth_error_mid in H. inv H. destruct Q as [Q|[Q _]]; [|congruence]. rewrite Q in PE. rewrite L in LI.
      destruct (g4 _ _ G _ _ _ _ _ _ _ (nth_error_mid d v t) PE LI I NE) as [A|A]; [left; exact A|right; eapply SE; eauto].
    + rewrite (nth_error_mid_other d v v' t n N) in H.
      destruct (g4 _ _ G _ _ _ _ _ _ _ H PE LI I NE) as [A|A]; [left; exact A|right; eapply SE; eauto].
  - intros n w b x rq c H PE LI I NE. destruct (Nat.eq_dec n (length d)) as [->|N].
    + rewrite nth_error_mid in H. inv H. rewrite L in LI. destruct Q as [Q|(_ & ps & Q & AD)].
      * rewrite Q in PE. eapply SE; [exact I|]. eapply (g5 _ _ G); eauto using nth_error_mid.
      * destruct (g4 _ _ G _ _ _ _ _ _ _ (nth_error_mid d v t) Q LI I NE) as [A|A]; [|eapply SE; eauto].
        exfalso. eapply all_done_spec; eauto.
    + rewrite (nth_error_mid_other d v v' t n N) in H. eapply SE; [exact I|]. eapply (g5 _ _ G); eauto.
  - intros n w p H PE. destruct (Nat.eq_dec n (length d)) as [->|N].
    + rewrite nth_error_mid in H. inv H. rewrite P in PE. eapply (g7 _ _ G); eauto using nth_error_mid.
    + rewrite (nth_error_mid_other d v v' t n N) in H. eapply (g7 _ _ G); eauto.
  - apply (g8 _ _ G).
  - apply (g9 _ _ G).
Qed.

End Mid.


(* the keys of msi.states are distinct *)
Lemma states_set_keys_in : forall l id a s k, In k (map fst (states_set l id a s)) -> In k (map fst l) \/ k = (id, a).
Proof.
  induction l as [|e t IH]; intros id a s k H; cbn [states_set] in H.
  - cbn in H. destruct H as [H|[]]. right. symmetry. exact H.
  - destruct ((fst (fst e) =? id) && (snd (fst e) =? a)) eqn:Q; cbn [map In] in *.
    + destruct H as [H|H]; [right; symmetry; exact H|left; right; exact H].
    + destruct H as [H|H]; [left; left; exact H|]. apply IH in H as [H|H]; [left; right; exact H|right; exact H].
Qed.
Lemma states_set_nodup : forall l id a s, NoDup (map fst l) -> NoDup (map fst (states_set l id a s)).
Proof.
  induction l as [|e t IH]; intros id a s N; cbn [states_set].
  - cbn. constructor; [intros []|constructor].
  - cbn [map] in N. inversion N as [|? ? N1 N2]; subst.
    destruct ((fst (fst e) =? id) && (snd (fst e) =? a)) eqn:Q; cbn [map fst].
    + apply andb_true_iff in Q as [Q1 Q2]. apply Z.eqb_eq in Q1, Q2. constructor; [|exact N2].
      destruct e as [[x y] z]. cbn [fst snd] in *. subst. exact N1.
    + constructor; [|apply IH; exact N2]. intros H. apply states_set_keys_in in H as [H|H]; [contradiction|].
      destruct e as [[x y] z]. cbn [fst snd] in *. inv H. rewrite !Z.eqb_refl in Q. discriminate.
Qed.
Lemma state_get_in : forall i t a s, NoDup (map fst (i_states i)) -> In (t, a, s) (i_states i) -> state_get i t a = s.
Proof.
  intros i t a s. unfold state_get. induction (i_states i) as [|e l IH]; intros N H; [destruct H|].
  cbn [map] in N. inversion N as [|? ? N1 N2]; subst. cbn [find].
  destruct ((fst (fst e) =? t) && (snd (fst e) =? a)) eqn:Q.
  - destruct H as [->|H]; [reflexivity|]. exfalso. apply N1. apply andb_true_iff in Q as [Q1 Q2]. apply Z.eqb_eq in Q1, Q2.
    destruct e as [[x y] z]. cbn [fst snd] in *. subst. apply (in_map fst) in H. exact H.
  - destruct H as [->|H]; [cbn [fst snd] in Q; rewrite !Z.eqb_refl in Q; discriminate|]. apply IH; assumption.
Qed.

(* a command completes *)
Lemma GI_cmd_done : forall i vs m a rq c, GI i vs -> In (m, a, rq, c) (i_cmds i) -> GI (cmd_done i m a rq) vs.
Proof.
  intros i vs m a rq c G I0.
  assert (SUB : forall x, In x (i_cmds (cmd_done i m a rq)) -> In x (i_cmds i) /\ cmd_key x m a rq = false).
  { intros x H. unfold cmd_done in H. cbn [i_cmds] in H. apply filter_In in H as [H1 H2]. split; [exact H1|].
    apply negb_true_iff in H2. exact H2. }
  assert (SEM : forall b, sem_get (cmd_done i m a rq) b = sem_get i b).
  { intros b. rewrite (same_ss_sem _ _ _ (cmd_done_ss i m a rq)). apply sem_get_state_set. }
  constructor.
  - intros x H. apply SUB in H as [H1 H2]. pose proof (g1 _ _ G _ H1) as K. destruct x as [[[x b] rq'] c']. unfold kind_ok in *.
    rewrite state_get_cmd_done. destruct ((x =? m) && (b =? a)) eqn:Q; [|exact K]. exfalso.
    apply andb_true_iff in Q as [Q1 Q2]. apply Z.eqb_eq in Q1, Q2. subst x b.
    assert (E : (m, a, rq', c') = (m, a, rq, c)) by (eapply (NoDup_map_inj ckey); [apply (g8 _ _ G)|exact H1|exact I0|reflexivity]).
    inv E. cbn [cmd_key] in H2. rewrite !Z.eqb_refl in H2. discriminate.
  - intros x b rq' c' n v H E N. apply SUB in H as [H _]. eapply (g2 _ _ G); eauto.
  - intros x b rq' c' H. apply SUB in H as [H _]. rewrite SEM. eapply (g3 _ _ G); eauto.
  - intros n v ps b x rq' c' N P L H NE. apply SUB in H as [H _]. eapply (g4 _ _ G); eauto.
  - intros n v b x rq' c' N P L H NE. apply SUB in H as [H _]. eapply (g5 _ _ G); eauto.
  - intros n v p N P. pose proof (g7 _ _ G _ _ _ N P) as O.
    assert (X : forall b, post_line p = Some b -> state_get (cmd_done i m a rq) (Z.of_nat n) b = state_get i (Z.of_nat n) b).
    { intros b PL. rewrite state_get_cmd_done. destruct ((Z.of_nat n =? m) && (b =? a)) eqn:Q; [|reflexivity]. exfalso.
      apply andb_true_iff in Q as [Q1 Q2]. apply Z.eqb_eq in Q1, Q2. subst b.
      eapply (g2 _ _ G _ _ _ _ n v I0); [symmetry; exact Q1|exact N|]. unfold v_line. rewrite P. exact PL. }
    destruct p; cbn [own_ok post_line] in *; try exact I; rewrite X; auto.
  - unfold cmd_done. cbn [i_cmds]. apply NoDup_map_filter. apply (g8 _ _ G).
  - unfold cmd_done, state_set. cbn [i_states]. apply states_set_nodup. apply (g9 _ _ G).
Qed.

(* ------------------------------------------------------------------ *)
(* release, semaphores, new commands, entering a transaction            *)
(* ------------------------------------------------------------------ *)

Definition idle3 : view3 := (None, None, None).

Lemma nth_mid_cases : forall (d t : list view3) v n w, nth_error (d ++ v :: t) n = Some w ->
  (n = length d /\ w = v) \/ (n <> length d /\ forall v', nth_error (d ++ v' :: t) n = Some w).
Proof.
  intros d t v n w H. destruct (Nat.eq_dec n (length d)) as [->|N].
  - rewrite nth_error_mid in H. inv H. left. split; reflexivity.
  - right. split; [exact N|]. intros v'. rewrite (nth_error_mid_other d v v' t n N). exact H.
Qed.

Section Mid2.
Variables (d t : list view3).
Let id := Z.of_nat (length d).

(* the `post` closure runs *)
Lemma GI_release : forall i p i', GI i (d ++ (Some p, None, None) :: t) -> run_post i id p = Ok i' ->
  GI i' (d ++ idle3 :: t).
Proof.
  intros i p i' G R.
  set (v := (Some p, @None (list Z), @None Z) : view3) in *.
  assert (exists a, post_line p = Some a) as [a PL] by (destruct p; cbn [run_post] in R; try discriminate; cbn; eauto).
  assert (CM : i_cmds i' = i_cmds i).
  { destruct p; cbn [run_post] in R; try discriminate; unfold sem_runlock, sem_unlock in R;
      destruct (sem_get _ _) as [r w]; destruct (_ <? 0); inv R; reflexivity. }
  assert (ST : forall x b, (x = id -> b <> a) -> state_get i' x b = state_get i x b).
  { intros x b NE. destruct p; cbn [run_post post_line] in *; try discriminate; inv PL; unfold sem_runlock, sem_unlock in R;
      destruct (sem_get _ _) as [r w] eqn:SG; destruct (_ <? 0); inv R; rewrite ?state_get_sem_set, ?state_get_state_set; try reflexivity;
      (destruct ((x =? id) && (b =? a)) eqn:Q; [|reflexivity]); apply andb_true_iff in Q as [Q1 Q2]; apply Z.eqb_eq in Q1, Q2;
      exfalso; apply NE; assumption. }
  assert (SM : forall b, b <> a -> sem_get i' b = sem_get i b).
  { intros b NE. destruct p; cbn [run_post post_line] in *; try discriminate; inv PL; unfold sem_runlock, sem_unlock in R;
      destruct (sem_get _ _) as [r w] eqn:SG; destruct (_ <? 0); inv R; rewrite sem_get_sem_set;
      (destruct (b =? a) eqn:Q; [apply Z.eqb_eq in Q; contradiction|]); rewrite ?sem_get_state_set; reflexivity. }
  assert (NOID : forall b rq c, In (id, b, rq, c) (i_cmds i) -> b <> a).
  { intros b rq c I E. subst b. eapply (g2 _ _ G _ _ _ _ (length d) v I); [reflexivity|apply nth_error_mid|]. exact PL. }
  assert (LV : v_line v = Some a) by exact PL.
  assert (SE : forall x c, self_ev (d ++ v :: t) x c -> self_ev (d ++ idle3 :: t) x c).
  { intros x c S. eapply self_ev_repl; [exact S|]. intros _ V. discriminate. }
  constructor.
  - intros x I. rewrite CM in I. pose proof (g1 _ _ G _ I) as K. destruct x as [[[x b] rq] c]. unfold kind_ok in *.
    rewrite ST; [exact K|]. intros E. subst x. eapply NOID; eauto.
  - intros x b rq c n w I E H. rewrite CM in I. destruct (nth_mid_cases _ _ _ _ _ H) as [[-> ->]|[N H']]; [discriminate|].
    eapply (g2 _ _ G); [exact I|exact E|apply H'].
  - intros x b rq c I. rewrite CM in I. destruct (Z.eq_dec b a) as [->|NB].
    + left. destruct (Z.eq_dec x id) as [->|NX]; [exfalso; eapply NOID; eauto|].
      apply SE. eapply (g5 _ _ G (length d) v); [apply nth_error_mid|reflexivity|exact LV|exact I|exact NX].
    + rewrite (SM _ NB). destruct (g3 _ _ G _ _ _ _ I) as [S|S]; [left; apply SE; exact S|right; exact S].
  - intros n w ps b x rq c H PE LI I NE. rewrite CM in I. destruct (nth_mid_cases _ _ _ _ _ H) as [[-> ->]|[N H']]; [discriminate|].
    destruct (g4 _ _ G _ _ _ _ _ _ _ (H' v) PE LI I NE) as [A|A]; [left; exact A|right; apply SE; exact A].
  - intros n w b x rq c H PE LI I NE. rewrite CM in I. destruct (nth_mid_cases _ _ _ _ _ H) as [[-> ->]|[N H']]; [discriminate|].
    apply SE. eapply (g5 _ _ G); [apply (H' v)|exact PE|exact LI|exact I|exact NE].
  - intros n w q H PE. destruct (nth_mid_cases _ _ _ _ _ H) as [[-> ->]|[N H']]; [discriminate|].
    pose proof (g7 _ _ G _ _ _ (H' v) PE) as O.
    assert (NI : Z.of_nat n <> id) by (unfold id; lia).
    destruct q; cbn [own_ok] in *; try exact I; rewrite ST; auto; intros; contradiction.
  - rewrite CM. apply (g8 _ _ G).
  - destruct p; cbn [run_post] in R; try discriminate; unfold sem_runlock, sem_unlock in R;
      destruct (sem_get _ _) as [r w]; destruct (_ <? 0); inv R; cbn [sem_set state_set i_states];
      try apply states_set_nodup; apply (g9 _ _ G).
Qed.

End Mid2.

(* the counters of a line grow (RLock / Lock succeeded) *)
Lemma GI_sem_up : forall i i' vs, GI i vs -> i_states i' = i_states i -> i_cmds i' = i_cmds i ->
  (forall b, fst (sem_get i b) <= fst (sem_get i' b) /\ snd (sem_get i b) <= snd (sem_get i' b)) -> GI i' vs.
Proof.
  intros i i' vs G S C M.
  assert (ST : forall x b, state_get i' x b = state_get i x b) by (intros; unfold state_get; rewrite S; reflexivity).
  constructor.
  - intros x I. rewrite C in I. pose proof (g1 _ _ G _ I) as K. destruct x as [[[x b] rq] c]. unfold kind_ok in *. rewrite ST. exact K.
  - intros x b rq c n v I. rewrite C in I. eapply (g2 _ _ G); eauto.
  - intros x b rq c I. rewrite C in I. destruct (M b) as [M1 M2].
    destruct (g3 _ _ G _ _ _ _ I) as [A|[A|[A B]]]; [left; exact A|right; left; lia|right; right; split; [exact A|lia]].
  - intros n v ps b x rq c N P L I. rewrite C in I. eapply (g4 _ _ G); eauto.
  - intros n v b x rq c N P L I. rewrite C in I. eapply (g5 _ _ G); eauto.
  - intros n v p N P. pose proof (g7 _ _ G _ _ _ N P) as O. destruct p; cbn [own_ok] in *; try exact I; rewrite ST; exact O.
  - rewrite C. apply (g8 _ _ G).
  - rewrite S. apply (g9 _ _ G).
Qed.

Lemma sem_rlock_ok : forall i a i1, SI i -> sem_rlock i a = (i1, true) ->
  i_states i1 = i_states i /\ i_cmds i1 = i_cmds i /\ snd (sem_get i a) = 0 /\ snd (sem_get i1 a) = 0 /\ 1 <= fst (sem_get i1 a) /\
  (forall b, fst (sem_get i b) <= fst (sem_get i1 b) /\ snd (sem_get i b) <= snd (sem_get i1 b)).
Proof.
  intros i a i1 [C5 _] H. unfold sem_rlock in H. destruct (sem_get i a) as [r w] eqn:G. destruct (0 <? w) eqn:W; inv H.
  destruct (C5 a) as (A & B & _). rewrite G in A, B. cbn [fst snd] in *.
  split; [reflexivity|]. split; [reflexivity|]. split; [lia|]. rewrite sem_get_sem_set, Z.eqb_refl. cbn [fst snd].
  split; [lia|]. split; [lia|]. intros b. rewrite sem_get_sem_set. destruct (b =? a) eqn:Q; [|lia].
  apply Z.eqb_eq in Q. subst b. rewrite G. cbn [fst snd]. lia.
Qed.

Lemma sem_lock_ok : forall i a i1, SI i -> sem_lock i a = (i1, true) ->
  i_states i1 = i_states i /\ i_cmds i1 = i_cmds i /\ fst (sem_get i a) = 0 /\ snd (sem_get i a) = 0 /\ 1 <= snd (sem_get i1 a) /\
  (forall b, fst (sem_get i b) <= fst (sem_get i1 b) /\ snd (sem_get i b) <= snd (sem_get i1 b)).
Proof.
  intros i a i1 [C5 _] H. unfold sem_lock in H. destruct (sem_get i a) as [r w] eqn:G. destruct ((0 <? w) || (0 <? r)) eqn:W; inv H.
  destruct (C5 a) as (A & B & _). rewrite G in A, B. cbn [fst snd] in *. apply orb_false_iff in W as [W1 W2].
  split; [reflexivity|]. split; [reflexivity|]. split; [lia|]. split; [lia|]. rewrite sem_get_sem_set, Z.eqb_refl. cbn [fst snd].
  split; [lia|]. intros b. rewrite sem_get_sem_set. destruct (b =? a) eqn:Q; [|lia].
  apply Z.eqb_eq in Q. subst b. rewrite G. cbn [fst snd]. lia.
Qed.

(* one more command *)
Definition add_cmd (i : msi7) (x : Z * Z * Z * Z) : msi7 :=
  mk_msi7 (i_sems i) (i_states i) (i_cmds i ++ [x]) (i_next i + 1) (i_stale i).

Lemma msi_send_cases : forall i t b rq i' c, msi_send i t b rq = (i', c) ->
  (i' = i /\ In (t, b, rq, c) (i_cmds i)) \/ (i' = add_cmd i (t, b, rq, c) /\ forall c', ~ In (t, b, rq, c') (i_cmds i)).
Proof.
  intros i t b rq i' c H. unfold msi_send in H. destruct (find _ _) as [e|] eqn:F; inv H.
  - left. split; [reflexivity|]. apply find_some in F as [F1 F2].
    destruct e as [[[x y] z] c0]. cbn [cmd_key snd] in *. apply andb_true_iff in F2 as [F2 F3].
    apply andb_true_iff in F2 as [F2 F4]. apply Z.eqb_eq in F2, F3, F4. subst. exact F1.
  - right. split; [reflexivity|]. intros c' I. eapply find_none in F; [|exact I]. cbn [cmd_key] in F. rewrite !Z.eqb_refl in F. discriminate.
Qed.

Lemma NoDup_snoc {A} (l : list A) x : NoDup l -> ~ In x l -> NoDup (l ++ [x]).
Proof.
  induction l as [|y t IH]; intros N I; cbn [app]; [constructor; [intros []|constructor]|].
  inversion N as [|? ? N1 N2]; subst. constructor.
  - intros H. apply in_app_or in H as [H|[H|[]]]; [contradiction|]. subst. apply I. left. reflexivity.
  - apply IH; [exact N2|]. intros H. apply I. right. exact H.
Qed.

Lemma GI_add : forall i vs t b rq c, GI i vs -> kind_ok i (t, b, rq, c) ->
  (forall n v, t = Z.of_nat n -> nth_error vs n = Some v -> v_line v <> Some b) ->
  (self_ev vs t c \/ 1 <= snd (sem_get i b) \/ (rq = rqWriteBack /\ 1 <= fst (sem_get i b))) ->
  (forall n v, nth_error vs n = Some v -> v_line v = Some b -> t <> Z.of_nat n -> self_ev vs t c) ->
  (forall c', ~ In (t, b, rq, c') (i_cmds i)) -> GI (add_cmd i (t, b, rq, c)) vs.
Proof.
  intros i vs t b rq c G K N2 J N45 NF.
  assert (CS : forall x, In x (i_cmds (add_cmd i (t, b, rq, c))) -> In x (i_cmds i) \/ x = (t, b, rq, c)).
  { intros x H. cbn [add_cmd i_cmds] in H. apply in_app_or in H as [H|[H|[]]]; [left; exact H|right; symmetry; exact H]. }
  constructor.
  - intros x H. apply CS in H as [H| ->]; [|exact K]. pose proof (g1 _ _ G _ H) as K'. destruct x as [[[x b'] rq'] c']. exact K'.
  - intros x b' rq' c' n v H E NV. apply CS in H as [H|H]; [eapply (g2 _ _ G); eauto|]. inv H. eapply N2; eauto.
  - intros x b' rq' c' H. apply CS in H as [H|H]; [exact (g3 _ _ G _ _ _ _ H)|]. inv H. exact J.
  - intros n v ps b' x rq' c' NV P L H NE. apply CS in H as [H|H]; [eapply (g4 _ _ G); eauto|]. inv H. right. eapply N45; eauto.
  - intros n v b' x rq' c' NV P L H NE. apply CS in H as [H|H]; [eapply (g5 _ _ G); eauto|]. inv H. eapply N45; eauto.
  - intros n v p NV P. exact (g7 _ _ G _ _ _ NV P).
  - cbn [add_cmd i_cmds]. rewrite map_app. cbn [map ckey]. apply NoDup_snoc; [apply (g8 _ _ G)|].
    intros H. apply in_map_iff in H as ([[[x b'] rq'] c'] & E & H). cbn [ckey] in E. inv E.
    pose proof (g1 _ _ G _ H) as K'. cbn [kind_ok] in K, K'.
    assert (rq' = rq) by (destruct K as [[? ?]|[? ?]], K' as [[? ?]|[? ?]]; subst; try reflexivity; unfold stShared, stModified in *; congruence).
    subst rq'. exact (NF _ H).
  - apply (g9 _ _ G).
Qed.

(* a request is sent to core x on line a while the views vs stand: what makes it legal *)
Definition send_ok (i : msi7) (vs : list view3) (x a rq : Z) : Prop :=
  kind_ok i (x, a, rq, 0) /\
  (forall n v, x = Z.of_nat n -> nth_error vs n = Some v -> v_line v <> Some a) /\
  (1 <= snd (sem_get i a) \/ (rq = rqWriteBack /\ 1 <= fst (sem_get i a))) /\
  (forall n v, nth_error vs n = Some v -> v_line v = Some a -> x <> Z.of_nat n -> exists c', In (x, a, rq, c') (i_cmds i)).

Lemma GI_send : forall i0 i vs x a rq i' c, GI i vs -> send_ok i0 vs x a rq -> same_ss i0 i -> incl (i_cmds i0) (i_cmds i) ->
  msi_send i x a rq = (i', c) -> GI i' vs /\ same_ss i0 i' /\ incl (i_cmds i0) (i_cmds i').
Proof.
  intros i0 i vs x a rq i' c G (K & N2 & J & N45) S C H. apply msi_send_cases in H as [[-> _]|[-> NF]]; [auto|].
  split; [|split; [exact S|cbn [add_cmd i_cmds]; apply incl_appl; exact C]].
  apply GI_add; [exact G| | | | |exact NF].
  - cbn [kind_ok] in *. rewrite (same_ss_state _ _ _ _ S). exact K.
  - exact N2.
  - right. rewrite (same_ss_sem _ _ _ S). exact J.
  - intros n v NV L NE. exfalso. destruct (N45 n v NV L NE) as [c' I]. apply (NF c'). apply C. exact I.
Qed.

Section Folds.
Variables (i0 : msi7) (vs : list view3) (a : Z).

Lemma rr_fold_GI : forall l acc, GI (fst acc) vs -> same_ss i0 (fst acc) -> incl (i_cmds i0) (i_cmds (fst acc)) ->
  (forall e, In e l -> snd e = stModified -> send_ok i0 vs (fst e) a rqWriteBack) ->
  GI (fst (fold_left (fun acc e => if snd e =? stModified
                          then let '(i1, c) := msi_send (fst acc) (fst e) a rqWriteBack in (i1, snd acc ++ [c])
                          else acc) l acc)) vs.
Proof.
  induction l as [|e tl IH]; intros acc G S C OK; cbn [fold_left]; [exact G|].
  assert (OK' : forall e0, In e0 tl -> snd e0 = stModified -> send_ok i0 vs (fst e0) a rqWriteBack) by (intros; apply OK; [right|]; assumption).
  destruct (snd e =? stModified) eqn:Q; [|apply IH; assumption].
  destruct (msi_send (fst acc) (fst e) a rqWriteBack) as [i1 c] eqn:E.
  apply Z.eqb_eq in Q. destruct (GI_send _ _ _ _ _ _ _ _ G (OK e (or_introl eq_refl) Q) S C E) as (G1 & S1 & C1).
  apply IH; assumption.
Qed.

Lemma inv_fold_GI : forall l acc, GI (fst acc) vs -> same_ss i0 (fst acc) -> incl (i_cmds i0) (i_cmds (fst acc)) ->
  (forall e, In e l -> snd e = stModified -> send_ok i0 vs (fst e) a rqWriteBack) ->
  (forall e, In e l -> snd e = stShared -> send_ok i0 vs (fst e) a rqEvict) ->
  GI (fst (fold_left (fun acc e => if snd e =? stModified
                          then let '(i1, c) := msi_send (fst acc) (fst e) a rqWriteBack in (i1, snd acc ++ [c])
                          else if snd e =? stShared
                          then let '(i1, c) := msi_send (fst acc) (fst e) a rqEvict in (i1, snd acc ++ [c])
                          else acc) l acc)) vs.
Proof.
  induction l as [|e tl IH]; intros acc G S C OK1 OK2; cbn [fold_left]; [exact G|].
  assert (OK1' : forall e0, In e0 tl -> snd e0 = stModified -> send_ok i0 vs (fst e0) a rqWriteBack) by (intros; apply OK1; [right|]; assumption).
  assert (OK2' : forall e0, In e0 tl -> snd e0 = stShared -> send_ok i0 vs (fst e0) a rqEvict) by (intros; apply OK2; [right|]; assumption).
  destruct (snd e =? stModified) eqn:Q.
  - destruct (msi_send (fst acc) (fst e) a rqWriteBack) as [i1 c] eqn:E.
    apply Z.eqb_eq in Q. destruct (GI_send _ _ _ _ _ _ _ _ G (OK1 e (or_introl eq_refl) Q) S C E) as (G1 & S1 & C1).
    apply IH; assumption.
  - destruct (snd e =? stShared) eqn:Q2; [|apply IH; assumption].
    destruct (msi_send (fst acc) (fst e) a rqEvict) as [i1 c] eqn:E.
    apply Z.eqb_eq in Q2. destruct (GI_send _ _ _ _ _ _ _ _ G (OK2 e (or_introl eq_refl) Q2) S C E) as (G1 & S1 & C1).
    apply IH; assumption.
Qed.

End Folds.

Lemma others_spec : forall i id a x s, NoDup (map fst (i_states i)) -> In (x, s) (msi_others i id a) -> x <> id /\ state_get i x a = s.
Proof.
  intros i id a x s N H. unfold msi_others in H. apply in_map_iff in H as ([[y b] z] & E & H). cbn [fst snd] in E. inv E.
  apply filter_In in H as [H Q]. cbn [fst snd] in Q. apply andb_true_iff in Q as [Q1 Q2]. apply Z.eqb_eq in Q2. subst b.
  split; [intros ->; rewrite Z.eqb_refl in Q1; discriminate|]. apply state_get_in; assumption.
Qed.

(* ------------------------------------------------------------------ *)
(* acquire                                                              *)
(* ------------------------------------------------------------------ *)

Lemma K1'_view : forall i vs n v, K1' i (map v_sum vs) -> nth_error vs n = Some v -> sum_ok i (Z.of_nat n) (v_sum v).
Proof. intros i vs n v (_ & _ & _ & E) H. apply E. apply map_nth_error. exact H. Qed.

Lemma no_w_view : forall i vs a n v p, K1' i (map v_sum vs) -> snd (sem_get i a) = 0 -> nth_error vs n = Some v ->
  v_post v = Some p -> post_w p a = false.
Proof.
  intros i vs a n v p (_ & _ & D & _) Z0 H P. destruct (D a) as [_ D2]. rewrite Z0 in D2. symmetry in D2.
  pose proof (cnt_zero_inv _ _ D2 (v_sum v)) as X. unfold sw, v_sum in X. unfold v_post in P. rewrite P in X. apply X.
  apply in_map. eapply nth_error_In; eauto.
Qed.
Lemma no_r_view : forall i vs a n v p, K1' i (map v_sum vs) -> fst (sem_get i a) = 0 -> nth_error vs n = Some v ->
  v_post v = Some p -> post_r p a = false.
Proof.
  intros i vs a n v p (_ & _ & D & _) Z0 H P. destruct (D a) as [D2 _]. rewrite Z0 in D2. symmetry in D2.
  pose proof (cnt_zero_inv _ _ D2 (v_sum v)) as X. unfold sr, v_sum in X. unfold v_post in P. rewrite P in X. apply X.
  apply in_map. eapply nth_error_In; eauto.
Qed.

Lemma post_rw_line : forall p a, post_line p = Some a -> post_r p a = false -> post_w p a = false -> False.
Proof. intros p a L R W. destruct p; cbn in *; try discriminate; inv L; rewrite Z.eqb_refl in *; discriminate. Qed.
Lemma post_r_cases : forall p a, post_line p = Some a -> post_w p a = false -> p = PShareRUnlock a \/ p = PRUnlock a.
Proof. intros p a L W. destruct p; cbn in *; try discriminate; inv L; auto; rewrite Z.eqb_refl in W; discriminate. Qed.

Section Acq.
Variables (d t : list view3).
Let id := Z.of_nat (length d).
Let vs0 := d ++ idle3 :: t.

Lemma GI_enter : forall i p ps a, GI i vs0 -> post_line p = Some a ->
  (forall rq c, ~ In (id, a, rq, c) (i_cmds i)) ->
  (forall x rq c, In (x, a, rq, c) (i_cmds i) -> x <> id -> In c ps \/ self_ev vs0 x c) ->
  own_ok i id p -> GI i (d ++ (Some p, Some ps, None) :: t).
Proof.
  intros i p ps a G PL N2 N4 OW. set (v := (Some p, Some ps, @None Z) : view3).
  assert (SE : forall x c, self_ev vs0 x c -> self_ev (d ++ v :: t) x c).
  { intros x c S. eapply self_ev_repl; [exact S|]. intros _ V. discriminate. }
  constructor.
  - apply (g1 _ _ G).
  - intros x b rq c n w I E H. destruct (nth_mid_cases _ _ _ _ _ H) as [[-> ->]|[N H']].
    + unfold v_line. cbn. rewrite PL. intros Q. inv Q. eapply N2; eauto.
    + eapply (g2 _ _ G); [exact I|exact E|apply H'].
  - intros x b rq c I. destruct (g3 _ _ G _ _ _ _ I) as [S|S]; [left; apply SE; exact S|right; exact S].
  - intros n w ps' b x rq c H PE LI I NE. destruct (nth_mid_cases _ _ _ _ _ H) as [[-> ->]|[N H']].
    + cbn in PE. inv PE. unfold v_line in LI. cbn in LI. rewrite PL in LI. inv LI.
      destruct (N4 _ _ _ I NE) as [A|A]; [left; exact A|right; apply SE; exact A].
    + destruct (g4 _ _ G _ _ _ _ _ _ _ (H' idle3) PE LI I NE) as [A|A]; [left; exact A|right; apply SE; exact A].
  - intros n w b x rq c H PE LI I NE. destruct (nth_mid_cases _ _ _ _ _ H) as [[-> ->]|[N H']]; [discriminate|].
    apply SE. eapply (g5 _ _ G); [apply (H' idle3)|exact PE|exact LI|exact I|exact NE].
  - intros n w q H PE. destruct (nth_mid_cases _ _ _ _ _ H) as [[-> ->]|[N H']].
    + cbn in PE. inv PE. exact OW.
    + eapply (g7 _ _ G); [apply (H' idle3)|exact PE].
  - apply (g8 _ _ G).
  - apply (g9 _ _ G).
Qed.

Lemma idle_line : forall n v b, nth_error vs0 n = Some v -> v_line v = Some b -> n <> length d.
Proof. intros n v b H L ->. unfold vs0 in H. rewrite nth_error_mid in H. inv H. discriminate. Qed.

(* the targets of a write request *)
Lemma send_ok_w : forall i i1 a x rq, GI i vs0 -> K1' i (map v_sum vs0) -> sem_lock i a = (i1, true) -> x <> id ->
  kind_ok i (x, a, rq, 0) -> send_ok i1 vs0 x a rq.
Proof.
  intros i i1 a x rq G K L NX KO. destruct (sem_lock_ok _ _ _ (proj1 K) L) as (S & C & R0 & W0 & W1 & _).
  assert (NOTX : forall n v, nth_error vs0 n = Some v -> v_line v = Some a -> False).
  { intros n v H LI. apply v_line_post in LI as (p & P & PL).
    eapply post_rw_line; [exact PL|eapply no_r_view; eauto|eapply no_w_view; eauto]. }
  split; [|split; [|split]].
  - cbn [kind_ok] in *. unfold state_get in *. rewrite S. exact KO.
  - intros n v _ H LI. eapply NOTX; eauto.
  - left. exact W1.
  - intros n v H LI. exfalso. eapply NOTX; eauto.
Qed.

(* the targets of a read request *)
Lemma send_ok_r : forall i i1 a x, GI i vs0 -> K1' i (map v_sum vs0) -> sem_rlock i a = (i1, true) -> x <> id ->
  state_get i x a = stModified -> send_ok i1 vs0 x a rqWriteBack.
Proof.
  intros i i1 a x G K L NX M. destruct (sem_rlock_ok _ _ _ (proj1 K) L) as (S & C & W0 & _ & R1 & _).
  assert (RD : forall n v, nth_error vs0 n = Some v -> v_line v = Some a -> exists p, v_post v = Some p /\ (p = PShareRUnlock a \/ p = PRUnlock a)).
  { intros n v H LI. apply v_line_post in LI as (p & P & PL). exists p. split; [exact P|].
    apply post_r_cases; [exact PL|eapply no_w_view; eauto]. }
  split; [|split; [|split]].
  - cbn [kind_ok]. right. split; [reflexivity|]. unfold state_get in *. rewrite S. exact M.
  - intros n v E H LI. exfalso. destruct (RD _ _ H LI) as (p & P & [-> | ->]); pose proof (g7 _ _ G _ _ _ H P) as O; cbn [own_ok] in O;
      rewrite <- E in O; rewrite O in M; discriminate.
  - right. split; [reflexivity|exact R1].
  - intros n v H LI NE. destruct (RD _ _ H LI) as (p & P & PP). rewrite C.
    pose proof (K1'_view _ _ _ _ K H) as SO. pose proof (g7 _ _ G _ _ _ H P) as O.
    destruct K as (_ & C1 & _ & _). unfold v_sum in SO. destruct v as [[vp vq] ve]. cbn [v_post fst snd] in *. subst vp.
    destruct PP as [-> | ->].
    + destruct vq as [ps'|]; cbn [sum_ok pend_ok post_ok] in SO.
      * destruct (SO x NE M) as (c & _ & I). exists c. exact I.
      * exfalso. exact (SO x NE M).
    + exfalso. cbn [own_ok] in O. assert (Z.of_nat n <> x) by congruence. rewrite (C1 x (Z.of_nat n) a M H0) in O. discriminate.
Qed.

Lemma kind_of_state : forall i x a s c, state_get i x a = s -> (s = stModified -> kind_ok i (x, a, rqWriteBack, c)) /\ (s = stShared -> kind_ok i (x, a, rqEvict, c)).
Proof. intros i x a s c E. split; intros ->; cbn [kind_ok]; [right|left]; split; auto. Qed.

(* rLock succeeded *)
Lemma msi_rlock_GI : forall i a i' fetch ps post, GI i vs0 -> K1' i (map v_sum vs0) ->
  msi_rlock i id a = Ok (i', LGo fetch ps post) -> GI i' (d ++ (Some post, Some ps, None) :: t) /\ post_line post = Some a.
Proof.
  intros i a i' fetch ps post G K H. pose proof K as (SIi & C1 & _ & _). unfold msi_rlock in H.
  destruct (state_get i id a =? stInvalid) eqn:QI.
  - apply Z.eqb_eq in QI. destruct (sem_rlock i a) as [i1 ok] eqn:L. destruct ok; cbn [negb] in H; [|discriminate].
    destruct (msi_read_request i1 id a) as [i2 ps2] eqn:RR. inv H. split; [|reflexivity].
    destruct (sem_rlock_ok _ _ _ SIi L) as (S & C & W0 & W1 & R1 & UP).
    assert (G1 : GI i1 vs0) by (eapply GI_sem_up; eauto).
    pose proof (msi_read_request_cover _ _ _ _ _ RR) as (SS & IC & CV).
    assert (G2 : GI i' vs0).
    { unfold msi_read_request in RR. pose proof (rr_fold_GI i1 vs0 a (msi_others i1 id a) (i1, []) G1 (same_ss_refl _) (incl_refl _)) as X.
      rewrite RR in X. apply X. intros [x s] IN E. cbn [fst snd] in *. subst s.
      apply others_spec in IN as [NX ST]; [|apply (g9 _ _ G1)]. apply (send_ok_r i i1 a x G K L NX).
      unfold state_get in *. rewrite S in ST. exact ST. }
    assert (ST' : forall x b, state_get i' x b = state_get i x b).
    { intros. rewrite (same_ss_state _ _ _ _ SS). unfold state_get. rewrite S. reflexivity. }
    apply (GI_enter i' (PShareRUnlock a) ps a G2 eq_refl).
    + intros rq c I. pose proof (g1 _ _ G2 _ I) as KO. cbn [kind_ok] in KO. rewrite ST', QI in KO. destruct KO as [[_ ?]|[_ ?]]; discriminate.
    + intros x rq c I NX. pose proof (g1 _ _ G2 _ I) as KO. cbn [kind_ok] in KO. destruct KO as [[-> KS]|[-> KM]].
      * destruct (g3 _ _ G2 _ _ _ _ I) as [A|[A|[A _]]]; [right; exact A| |discriminate].
        rewrite (same_ss_sem _ _ _ SS) in A. lia.
      * left. destruct (CV x NX KM) as (c' & IC' & I').
        assert (E : (x, a, rqWriteBack, c') = (x, a, rqWriteBack, c)) by (eapply (NoDup_map_inj ckey); [apply (g8 _ _ G2)|exact I'|exact I|reflexivity]).
        inv E. exact IC'.
    + cbn [own_ok]. rewrite ST'. exact QI.
  - destruct (state_get i id a =? stModified) eqn:QM.
    + apply Z.eqb_eq in QM. destruct (sem_lock i a) as [i1 ok] eqn:L. destruct ok; cbn [negb] in H; [|discriminate]. inv H. split; [|reflexivity].
      destruct (sem_lock_ok _ _ _ SIi L) as (S & C & R0 & W0 & W1 & UP).
      assert (G1 : GI i' vs0) by (eapply GI_sem_up; eauto).
      assert (ALL : forall x rq c, In (x, a, rq, c) (i_cmds i') -> self_ev vs0 x c).
      { intros x rq c I. rewrite C in I. destruct (g3 _ _ G _ _ _ _ I) as [A|[A|[_ A]]]; [exact A|lia|lia]. }
      apply (GI_enter i' (PUnlock a) [] a G1 eq_refl).
      * intros rq c I. apply ALL in I. apply self_ev_id in I. discriminate.
      * intros x rq c I _. right. eapply ALL; eauto.
      * cbn [own_ok]. unfold state_get in *. rewrite S. exact QM.
    + destruct (state_get i id a =? stShared) eqn:QS; [|discriminate]. apply Z.eqb_eq in QS.
      destruct (sem_rlock i a) as [i1 ok] eqn:L. destruct ok; cbn [negb] in H; [|discriminate]. inv H. split; [|reflexivity].
      destruct (sem_rlock_ok _ _ _ SIi L) as (S & C & W0 & W1 & R1 & UP).
      assert (G1 : GI i' vs0) by (eapply GI_sem_up; eauto).
      assert (ALL : forall x rq c, In (x, a, rq, c) (i_cmds i') -> self_ev vs0 x c).
      { intros x rq c I. rewrite C in I. destruct (g3 _ _ G _ _ _ _ I) as [A|[A|[-> A]]]; [exact A|lia|].
        exfalso. pose proof (g1 _ _ G _ I) as KO. cbn [kind_ok] in KO. destruct KO as [[? _]|[_ KM]]; [discriminate|].
        destruct (Z.eq_dec x id) as [->|NX]; [rewrite KM in QS; discriminate|].
        assert (NX' : id <> x) by congruence. rewrite (C1 x id a KM NX') in QS. discriminate. }
      apply (GI_enter i' (PRUnlock a) [] a G1 eq_refl).
      * intros rq c I. apply ALL in I. apply self_ev_id in I. discriminate.
      * intros x rq c I _. right. eapply ALL; eauto.
      * cbn [own_ok]. unfold state_get in *. rewrite S. exact QS.
Qed.

(* lock succeeded *)
Lemma msi_lock_GI : forall i a i' fetch ps post, GI i vs0 -> K1' i (map v_sum vs0) ->
  msi_lock i id a = Ok (i', LGo fetch ps post) -> GI i' (d ++ (Some post, Some ps, None) :: t) /\ post_line post = Some a.
Proof.
  intros i a i' fetch ps post G K H. pose proof K as (SIi & C1 & _ & _). unfold msi_lock in H.
  destruct (sem_lock i a) as [i1 ok] eqn:L.
  destruct ok; cbn [negb] in H; [|destruct (_ =? stInvalid); [discriminate|destruct (_ =? stModified); [discriminate|destruct (_ =? stShared); discriminate]]].
  destruct (sem_lock_ok _ _ _ SIi L) as (S & C & R0 & W0 & W1 & UP).
  assert (G1 : GI i1 vs0) by (eapply GI_sem_up; eauto).
  assert (ALL : forall x rq c, In (x, a, rq, c) (i_cmds i1) -> self_ev vs0 x c).
  { intros x rq c I. rewrite C in I. destruct (g3 _ _ G _ _ _ _ I) as [A|[A|[_ A]]]; [exact A|lia|lia]. }
  assert (ST1 : forall x b, state_get i1 x b = state_get i x b) by (intros; unfold state_get; rewrite S; reflexivity).
  assert (INV : forall i2 ps2 p, msi_invalidate i1 id a = (i2, ps2) -> post_line p = Some a -> own_ok i id p ->
            GI i2 (d ++ (Some p, Some ps2, None) :: t)).
  { intros i2 ps2 p RR PL OW. pose proof (msi_invalidate_cover _ _ _ _ _ RR) as (SS & IC & CV1 & CV2).
    assert (G2 : GI i2 vs0).
    { unfold msi_invalidate in RR. pose proof (inv_fold_GI i1 vs0 a (msi_others i1 id a) (i1, []) G1 (same_ss_refl _) (incl_refl _)) as X.
      rewrite RR in X. apply X; intros [x s] IN E; cbn [fst snd] in *; subst s;
        (apply others_spec in IN as [NX ST]; [|apply (g9 _ _ G1)]); rewrite ST1 in ST;
        (apply (send_ok_w i i1 a x _ G K L NX)); eapply kind_of_state; eauto. }
    assert (ST' : forall x b, state_get i2 x b = state_get i x b) by (intros; rewrite (same_ss_state _ _ _ _ SS); apply ST1).
    assert (OLD : forall x rq c, In (x, a, rq, c) (i_cmds i2) -> x <> id -> In c ps2 \/ self_ev vs0 x c).
    { intros x rq c I NX. pose proof (g1 _ _ G2 _ I) as KO. cbn [kind_ok] in KO. left. destruct KO as [[-> KS]|[-> KM]].
      - destruct (CV2 x NX KS) as (c' & IC' & I').
        assert (E : (x, a, rqEvict, c') = (x, a, rqEvict, c)) by (eapply (NoDup_map_inj ckey); [apply (g8 _ _ G2)|exact I'|exact I|reflexivity]).
        inv E. exact IC'.
      - destruct (CV1 x NX KM) as (c' & IC' & I').
        assert (E : (x, a, rqWriteBack, c') = (x, a, rqWriteBack, c)) by (eapply (NoDup_map_inj ckey); [apply (g8 _ _ G2)|exact I'|exact I|reflexivity]).
        inv E. exact IC'. }
    apply (GI_enter i2 p ps2 a G2 PL); [|exact OLD|].
    - intros rq c I.
      assert (NEWT : forall y, In y (i_cmds i2) -> In y (i_cmds i1) \/ fst (fst (fst y)) <> id).
      { clear - RR G1. unfold msi_invalidate in RR. intros y.
        assert (X : forall l acc, (forall e, In e l -> fst e <> id) -> In y (i_cmds (fst (fold_left (fun acc e => if snd e =? stModified
                          then let '(i1, c) := msi_send (fst acc) (fst e) a rqWriteBack in (i1, snd acc ++ [c])
                          else if snd e =? stShared
                          then let '(i1, c) := msi_send (fst acc) (fst e) a rqEvict in (i1, snd acc ++ [c])
                          else acc) l acc))) -> In y (i_cmds (fst acc)) \/ fst (fst (fst y)) <> id).
        { induction l as [|e tl IH]; intros acc NE H; cbn [fold_left] in H; [left; exact H|].
          assert (NE' : forall e0, In e0 tl -> fst e0 <> id) by (intros; apply NE; right; assumption).
          assert (ONE : forall rq, let '(i1, c) := msi_send (fst acc) (fst e) a rq in forall y, In y (i_cmds i1) -> In y (i_cmds (fst acc)) \/ fst (fst (fst y)) <> id).
          { intros rq. destruct (msi_send (fst acc) (fst e) a rq) as [j c] eqn:E. intros y0 Y.
            apply msi_send_cases in E as [[-> _]|[-> _]]; [left; exact Y|]. cbn [add_cmd i_cmds] in Y.
            apply in_app_or in Y as [Y|[Y|[]]]; [left; exact Y|]. subst y0. right. cbn [fst]. apply NE. left. reflexivity. }
          destruct (snd e =? stModified).
          - specialize (ONE rqWriteBack). destruct (msi_send (fst acc) (fst e) a rqWriteBack) as [j c].
            apply IH in H as [H|H]; [|right; exact H|exact NE']. cbn [fst] in H. apply ONE in H. exact H.
          - destruct (snd e =? stShared); [|apply IH in H; [exact H|exact NE']].
            specialize (ONE rqEvict). destruct (msi_send (fst acc) (fst e) a rqEvict) as [j c].
            apply IH in H as [H|H]; [|right; exact H|exact NE']. cbn [fst] in H. apply ONE in H. exact H. }
        intros H. specialize (X (msi_others i1 id a) (i1, [])). rewrite RR in X. apply X; [|exact H].
        intros [x s] IN. cbn [fst]. apply others_spec in IN as [NX _]; [exact NX|apply (g9 _ _ G1)]. }
      destruct (NEWT _ I) as [I1|NE]; [|cbn [fst] in NE; contradiction]. apply ALL in I1. apply self_ev_id in I1. discriminate.
    - destruct p; cbn [own_ok] in *; try exact I; rewrite ST'; exact OW. }
  destruct (state_get i id a =? stInvalid) eqn:QI.
  - apply Z.eqb_eq in QI. destruct (msi_invalidate i1 id a) as [i2 ps2] eqn:RR. inv H. split; [|reflexivity].
    eapply INV; eauto. cbn [own_ok]. rewrite QI. discriminate.
  - destruct (state_get i id a =? stModified) eqn:QM.
    + apply Z.eqb_eq in QM. inv H. split; [|reflexivity].
      apply (GI_enter i' (PUnlock a) [] a G1 eq_refl).
      * intros rq c I. apply ALL in I. apply self_ev_id in I. discriminate.
      * intros x rq c I _. right. eapply ALL; eauto.
      * cbn [own_ok]. rewrite ST1. exact QM.
    + destruct (state_get i id a =? stShared) eqn:QS; [|discriminate]. apply Z.eqb_eq in QS.
      destruct (msi_invalidate i1 id a) as [i2 ps2] eqn:RR. inv H. split; [|reflexivity].
      eapply INV; eauto. cbn [own_ok]. rewrite QS. discriminate.
Qed.

End Acq.

(* ------------------------------------------------------------------ *)
(* the eviction of the line displaced by a fill                         *)
(* ------------------------------------------------------------------ *)

Section Ev.
Variables (d t : list view3).
Let id := Z.of_nat (length d).

Lemma GI_evict_start : forall i p vl i' pe, GI i (d ++ (Some p, None, None) :: t) ->
  (post_line p = Some vl -> state_get i id vl = stInvalid) -> msi_evict_extra i id vl = (i', pe) -> GI i' (d ++ (Some p, None, pe) :: t).
Proof.
  intros i p vl i' pe G NE H.
  assert (SEND : forall rq c, kind_ok i (id, vl, rq, c) -> msi_send i id vl rq = (i', c) -> GI i' (d ++ (Some p, None, Some c) :: t)).
  { intros rq c KO E.
    assert (G1 : GI i (d ++ (Some p, None, Some c) :: t)).
    { eapply GI_local; [exact G|reflexivity|left; reflexivity|]. intros c0 V. discriminate. }
    apply msi_send_cases in E as [[-> _]|[-> NF]]; [exact G1|].
    assert (SV : self_ev (d ++ (Some p, None, Some c) :: t) id c).
    { exists (length d), (Some p, None, Some c). split; [reflexivity|]. split; [apply nth_error_mid|reflexivity]. }
    apply GI_add; [exact G1|exact KO| |left; exact SV|intros; exact SV|exact NF].
    intros n v E H0. unfold id in E. apply Nat2Z.inj in E. subst n. rewrite nth_error_mid in H0. inv H0.
    unfold v_line. cbn. intros Q. apply NE in Q. rename Q into NE'.
    cbn [kind_ok] in KO. rename NE' into NE0. pose proof NE0 as NE1. clear NE. rename NE1 into NE. rewrite NE in KO. destruct KO as [[_ ?]|[_ ?]]; discriminate. }
  unfold msi_evict_extra in H. destruct (state_get i id vl =? stShared) eqn:QS.
  - apply Z.eqb_eq in QS. destruct (msi_send i id vl rqEvict) as [i1 c] eqn:E. inv H. eapply SEND; [|exact E]. left. split; [reflexivity|exact QS].
  - destruct (state_get i id vl =? stModified) eqn:QM.
    + apply Z.eqb_eq in QM. destruct (msi_send i id vl rqWriteBack) as [i1 c] eqn:E. inv H. eapply SEND; [|exact E]. right. split; [reflexivity|exact QM].
    + inv H. exact G.
Qed.

End Ev.

(* ------------------------------------------------------------------ *)
(* cc.go: GI along coRead / coWrite                                     *)
(* ------------------------------------------------------------------ *)

Ltac v3cc := unfold v3_cc, cur_post, cur_pend, cur_ev;
  cbn [set_rd set_wr set_l1d set_post set_rsems set_wsems set_snoop c_l1d c_rd c_wr c_post].

Lemma msi_rlock_wait : forall i id a i', msi_rlock i id a = Ok (i', LWait) -> i' = i.
Proof.
  intros i id a i' H. unfold msi_rlock in H. destruct (_ =? stInvalid).
  - destruct (sem_rlock i a) as [j ok] eqn:L. destruct ok; cbn [negb] in H.
    + destruct (msi_read_request j id a). discriminate.
    + inv H. eapply sem_rlock_fail; eauto.
  - destruct (_ =? stModified).
    + destruct (sem_lock i a) as [j ok] eqn:L. destruct ok; cbn [negb] in H; inv H. eapply sem_lock_fail; eauto.
    + destruct (_ =? stShared); [|discriminate].
      destruct (sem_rlock i a) as [j ok] eqn:L. destruct ok; cbn [negb] in H; inv H. eapply sem_rlock_fail; eauto.
Qed.
Lemma msi_lock_wait : forall i id a i', msi_lock i id a = Ok (i', LWait) -> i' = i.
Proof.
  intros i id a i' H. unfold msi_lock in H. destruct (sem_lock i a) as [j ok] eqn:L. destruct (msi_invalidate j id a).
  destruct ok; cbn [negb] in H.
  - destruct (_ =? stInvalid); [discriminate|]. destruct (_ =? stModified); [discriminate|]. destruct (_ =? stShared); discriminate.
  - assert (j = i) by (eapply sem_lock_fail; eauto). subst j.
    destruct (_ =? stInvalid); [inv H; reflexivity|]. destruct (_ =? stModified); [inv H; reflexivity|]. destruct (_ =? stShared); inv H; reflexivity.
Qed.

(* what rLock / lock return *)
Lemma msi_rlock_shape : forall i id a i' fetch ps post, msi_rlock i id a = Ok (i', LGo fetch ps post) ->
  (forall x b, state_get i' x b = state_get i x b) /\
  ((fetch = true /\ post = PShareRUnlock a /\ state_get i id a = stInvalid) \/
   (fetch = false /\ ps = [] /\ ((post = PUnlock a /\ state_get i id a = stModified) \/ (post = PRUnlock a /\ state_get i id a = stShared)))).
Proof.
  intros i id a i' fetch ps post H. unfold msi_rlock in H. destruct (state_get i id a =? stInvalid) eqn:QI.
  - apply Z.eqb_eq in QI. destruct (sem_rlock i a) as [j ok] eqn:L. destruct ok; cbn [negb] in H; [|discriminate].
    pose proof (msi_read_request_ss j id a) as S. destruct (msi_read_request j id a) as [i2 ps2]. inv H. cbn [fst] in S.
    split; [|left; auto]. intros. rewrite (same_ss_state _ _ _ _ S). unfold sem_rlock in L. destruct (sem_get i a). destruct (0 <? z0); inv L. reflexivity.
  - destruct (state_get i id a =? stModified) eqn:QM.
    + apply Z.eqb_eq in QM. destruct (sem_lock i a) as [j ok] eqn:L. destruct ok; cbn [negb] in H; inv H.
      split; [|right; auto]. intros. unfold sem_lock in L. destruct (sem_get i a). destruct (_ || _); inv L. reflexivity.
    + destruct (state_get i id a =? stShared) eqn:QS; [|discriminate]. apply Z.eqb_eq in QS.
      destruct (sem_rlock i a) as [j ok] eqn:L. destruct ok; cbn [negb] in H; inv H.
      split; [|right; auto]. intros. unfold sem_rlock in L. destruct (sem_get i a). destruct (0 <? z0); inv L. reflexivity.
Qed.

Lemma msi_lock_shape : forall i id a i' fetch ps post, msi_lock i id a = Ok (i', LGo fetch ps post) ->
  (forall x b, state_get i' x b = state_get i x b) /\
  ((fetch = true /\ post = PModUnlock a /\ state_get i id a = stInvalid) \/
   (fetch = false /\ ((post = PUnlock a /\ ps = [] /\ state_get i id a = stModified) \/ (post = PModUnlock a /\ state_get i id a = stShared)))).
Proof.
  intros i id a i' fetch ps post H. unfold msi_lock in H. destruct (sem_lock i a) as [j ok] eqn:L.
  assert (SJ : forall x b, state_get j x b = state_get i x b).
  { intros. unfold sem_lock in L. destruct (sem_get i a). destruct (_ || _); inv L; reflexivity. }
  pose proof (msi_invalidate_ss j id a) as S. destruct (msi_invalidate j id a) as [i2 ps2]. cbn [fst] in S.
  destruct (state_get i id a =? stInvalid) eqn:QI.
  - apply Z.eqb_eq in QI. destruct ok; cbn [negb] in H; inv H. split; [|left; auto]. intros. rewrite (same_ss_state _ _ _ _ S). apply SJ.
  - destruct (state_get i id a =? stModified) eqn:QM.
    + apply Z.eqb_eq in QM. destruct ok; cbn [negb] in H; inv H. split; [exact SJ|right; auto].
    + destruct (state_get i id a =? stShared) eqn:QS; [|discriminate]. apply Z.eqb_eq in QS.
      destruct ok; cbn [negb] in H; inv H. split; [|right; auto]. intros. rewrite (same_ss_state _ _ _ _ S). apply SJ.
Qed.

Definition post_I (i : msi7) (id : Z) (p : post7) : Prop := forall a, post_line p = Some a -> state_get i id a = stInvalid.

Section CoreG.
Variables (d t : list view3).
Let id := Z.of_nat (length d).

Definition G3Res (i' : msi7) (c' : cc7) : Prop := GI i' (d ++ v3_cc c' :: t).

Lemma rd_l1_G : forall i c addrs cyc data i' c' r, GI i (d ++ (Some (c_post c), None, None) :: t) -> c_wr c = WStart ->
  rd_l1 i id c addrs cyc data = Ok (i', c', r) -> G3Res i' c'.
Proof.
  intros i c addrs cyc data i' c' r K W H. unfold rd_l1 in H. unfold G3Res. destruct (0 <? cyc).
  - inv H. v3cc. exact K.
  - apply bind_ok in H as (i1 & E1 & H). apply bind_ok in H as (a & E2 & H). inv H.
    v3cc. rewrite W. eapply GI_release; eauto.
Qed.

Lemma rd_from_l1_G : forall i c addrs i' c' r, GI i (d ++ (Some (c_post c), None, None) :: t) -> c_wr c = WStart ->
  rd_from_l1 i id c addrs = Ok (i', c', r) -> G3Res i' c'.
Proof.
  intros i c addrs i' c' r K W H. unfold rd_from_l1 in H. apply bind_ok in H as ([l1 g] & E & H).
  destruct g; [|discriminate]. eapply rd_l1_G; [| |exact H]; [exact K|exact W].
Qed.

Lemma GI_ev_exit : forall i p pe, GI i (d ++ (Some p, None, pe) :: t) -> match pe with Some x => cmd_isdone i x = true | None => True end ->
  GI i (d ++ (Some p, None, None) :: t).
Proof.
  intros i p pe G D. eapply GI_local; [exact G|reflexivity|left; reflexivity|]. intros c0 V. cbn in V. subst pe. right. exact D.
Qed.

Lemma rd_evict_G : forall i c addrs pending post i' c' r, GI i (d ++ (Some post, None, pending) :: t) -> c_wr c = WStart ->
  rd_evict i id c addrs pending post = Ok (i', c', r) -> G3Res i' c'.
Proof.
  intros i c addrs pending post i' c' r K W H. unfold rd_evict in H.
  destruct pending as [p|]; [destruct (cmd_isdone i p) eqn:D; cbn [negb] in H|].
  - eapply rd_from_l1_G; [| |exact H]; [|exact W]. cbn [set_post c_post]. eapply GI_ev_exit; [exact K|exact D].
  - inv H. unfold G3Res. v3cc. exact K.
  - eapply rd_from_l1_G; [| |exact H]; [exact K|exact W].
Qed.

Lemma rd_fetch_G : forall i c addrs cyc la dt post i' c' r, GI i (d ++ (Some post, None, None) :: t) -> c_wr c = WStart ->
  post_I i id post -> rd_fetch i id c addrs cyc la dt post = Ok (i', c', r) -> G3Res i' c'.
Proof.
  intros i c addrs cyc la dt post i' c' r K W PI H. unfold rd_fetch in H. destruct (0 <? cyc).
  - inv H. unfold G3Res. v3cc. exact K.
  - apply bind_ok in H as ([c1 v] & E & H). cbn [fst snd] in H. destruct v as [victim|].
    + destruct (msi_evict_extra i id (lo victim)) as [i1 pe] eqn:EE. inv H. unfold G3Res. v3cc.
      pose proof (GI_evict_start d t i post (lo victim) i' pe K) as X.
      replace (match pe with Some x => Some x | None => None end) with pe by (destruct pe; reflexivity).
      apply X; [|exact EE]. apply PI.
    + eapply rd_from_l1_G; [| |exact H]; [exact K|exact W].
Qed.


Lemma GI_pend_exit : forall i p ps, GI i (d ++ (Some p, Some ps, None) :: t) -> all_done i ps = true ->
  GI i (d ++ (Some p, None, None) :: t).
Proof.
  intros i p ps G AD. eapply GI_local; [exact G|reflexivity| |intros c0 V; discriminate].
  right. split; [reflexivity|]. exists ps. split; [reflexivity|exact AD].
Qed.

Lemma rd_pend_G : forall mem i c addrs ps fetch post i' c' r, GI i (d ++ (Some post, Some ps, None) :: t) -> c_wr c = WStart ->
  (fetch = true -> post_I i id post) -> rd_pend mem i id c addrs ps fetch post = Ok (i', c', r) -> G3Res i' c'.
Proof.
  intros mem i c addrs ps fetch post i' c' r K W FI H. unfold rd_pend in H. destruct (all_done i ps) eqn:AD; cbn [negb] in H.
  - pose proof (GI_pend_exit _ _ _ K AD) as K2.
    destruct fetch; cbn [negb] in H; [|eapply rd_from_l1_G; [| |exact H]; [exact K2|exact W]].
    apply bind_ok in H as (a & E1 & H). apply bind_ok in H as (g & E2 & H). destruct g; [discriminate|].
    destruct addrs as [|a0 tl]; [discriminate|]. apply bind_ok in H as (ln & E3 & H).
    eapply rd_fetch_G; [| | |exact H]; [exact K2|exact W|apply FI; reflexivity].
  - inv H. unfold G3Res. v3cc. exact K.
Qed.

Lemma rd_start_G : forall mem i c addrs i' c' r, GI i (d ++ idle3 :: t) -> K1' i (map v_sum (d ++ idle3 :: t)) ->
  c_rd c = RStart -> c_wr c = WStart -> rd_start mem i id c addrs = Ok (i', c', r) -> G3Res i' c'.
Proof.
  intros mem i c addrs i' c' r K K1 R W H. unfold rd_start in H. apply bind_ok in H as (a & E1 & H).
  apply bind_ok in H as ([i1 lr] & E2 & H). cbn [fst snd] in H. destruct lr as [|fetch ps post].
  - inv H. apply msi_rlock_wait in E2. subst i'. unfold G3Res. v3cc. rewrite R, W. exact K.
  - destruct (msi_rlock_GI d t _ _ _ _ _ _ K K1 E2) as [G2 PL]. destruct (msi_rlock_shape _ _ _ _ _ _ _ E2) as [ST SH].
    eapply rd_pend_G; [| | |exact H]; [exact G2|exact W|]. intros F b PB.
    destruct SH as [(_ & -> & SI)|(F' & _)]; [|congruence]. cbn in PB. inv PB. rewrite ST. exact SI.
Qed.

(* what the stored phases of a controller say about the state of its own core on the line being fetched *)
Definition FetchI (i : msi7) (id : Z) (c : cc7) : Prop :=
  match c_rd c with RPend _ true p | RFetch _ _ _ p => post_I i id p | _ => True end /\
  match c_wr c with WPend _ true p | WFetch _ _ _ p => post_I i id p | _ => True end.

Lemma cc_read_cycle_G : forall mem i c addrs i' c' r, GI i (d ++ v3_cc c :: t) -> K1' i (map v_sum (d ++ v3_cc c :: t)) ->
  c_wr c = WStart -> FetchI i id c -> cc_read_cycle mem i id c addrs = Ok (i', c', r) -> G3Res i' c'.
Proof.
  intros mem i c addrs i' c' r K K1 W [FI _] H. unfold cc_read_cycle in H. unfold v3_cc, cur_post, cur_pend, cur_ev in K, K1.
  destruct (c_rd c) eqn:E.
  - rewrite W in K, K1. eapply rd_start_G; eauto.
  - eapply rd_pend_G; [exact K|exact W| |exact H]. intros ->. exact FI.
  - eapply rd_fetch_G; eauto.
  - eapply rd_evict_G; [|exact W|exact H]. destruct pending; exact K.
  - eapply rd_l1_G; eauto.
Qed.

(* ---- write ---- *)

Lemma wr_l1_G : forall i c addrs data cyc i' c' r, GI i (d ++ (Some (c_post c), None, None) :: t) -> c_rd c = RStart ->
  wr_l1 i id c addrs data cyc = Ok (i', c', r) -> G3Res i' c'.
Proof.
  intros i c addrs data cyc i' c' r K R H. unfold wr_l1 in H. unfold G3Res. destruct (0 <? cyc).
  - inv H. v3cc. rewrite R. exact K.
  - destruct addrs as [|a0 tl]; [discriminate|].
    apply bind_ok in H as (l1 & E0 & H). apply bind_ok in H as (i1 & E1 & H). apply bind_ok in H as (a & E2 & H). inv H.
    v3cc. rewrite R. eapply GI_release; eauto.
Qed.

Lemma wr_evict_G : forall i c addrs data pending cyc post i' c' r, GI i (d ++ (Some post, None, pending) :: t) -> c_rd c = RStart ->
  wr_evict i id c addrs data pending cyc post = Ok (i', c', r) -> G3Res i' c'.
Proof.
  intros i c addrs data pending cyc post i' c' r K R H. unfold wr_evict in H.
  destruct (match pending with Some p => negb (cmd_isdone i p) | None => false end) eqn:WT.
  - inv H. unfold G3Res. v3cc. rewrite R. destruct pending; exact K.
  - assert (K2 : GI i (d ++ (Some post, None, None) :: t)).
    { eapply GI_ev_exit; [exact K|]. destruct pending; [|exact I]. apply negb_false_iff in WT. exact WT. }
    destruct (0 <? cyc).
    + inv H. unfold G3Res. v3cc. rewrite R. destruct pending; exact K.
    + eapply wr_l1_G; [| |exact H]; [exact K2|exact R].
Qed.

Lemma wr_fetch_G : forall i c addrs data cyc la dt post i' c' r, GI i (d ++ (Some post, None, None) :: t) -> c_rd c = RStart ->
  post_I i id post -> wr_fetch i id c addrs data cyc la dt post = Ok (i', c', r) -> G3Res i' c'.
Proof.
  intros i c addrs data cyc la dt post i' c' r K R PI H. unfold wr_fetch in H. destruct (0 <? cyc).
  - inv H. unfold G3Res. v3cc. rewrite R. exact K.
  - apply bind_ok in H as ([c1 v] & E & H). cbn [fst snd] in H. destruct v as [victim|].
    + destruct (msi_evict_extra i id (lo victim)) as [i1 pe] eqn:EE. inv H. unfold G3Res. v3cc. rewrite R.
      pose proof (GI_evict_start d t i post (lo victim) i' pe K) as X.
      replace (match pe with Some x => Some x | None => None end) with pe by (destruct pe; reflexivity).
      apply X; [|exact EE]. apply PI.
    + eapply wr_l1_G; [| |exact H]; [exact K|exact R].
Qed.

Lemma wr_pend_G : forall mem i c addrs data ps fetch post i' c' r, GI i (d ++ (Some post, Some ps, None) :: t) -> c_rd c = RStart ->
  (fetch = true -> post_I i id post) -> wr_pend mem i id c addrs data ps fetch post = Ok (i', c', r) -> G3Res i' c'.
Proof.
  intros mem i c addrs data ps fetch post i' c' r K R FI H. unfold wr_pend in H. destruct (all_done i ps) eqn:AD; cbn [negb] in H.
  - pose proof (GI_pend_exit _ _ _ K AD) as K2.
    destruct fetch; [|eapply wr_l1_G; [| |exact H]; [exact K2|exact R]].
    destruct addrs as [|a0 tl]; [discriminate|]. apply bind_ok in H as (a & E1 & H). apply bind_ok in H as (ln & E3 & H).
    eapply wr_fetch_G; [| | |exact H]; [exact K2|exact R|apply FI; reflexivity].
  - inv H. unfold G3Res. v3cc. rewrite R. exact K.
Qed.

Lemma wr_start_G : forall mem i c addrs data i' c' r, GI i (d ++ idle3 :: t) -> K1' i (map v_sum (d ++ idle3 :: t)) ->
  c_rd c = RStart -> c_wr c = WStart -> wr_start mem i id c addrs data = Ok (i', c', r) -> G3Res i' c'.
Proof.
  intros mem i c addrs data i' c' r K K1 R W H. unfold wr_start in H. apply bind_ok in H as (a & E1 & H).
  apply bind_ok in H as ([i1 lr] & E2 & H). cbn [fst snd] in H. destruct lr as [|fetch ps post].
  - inv H. apply msi_lock_wait in E2. subst i'. unfold G3Res. v3cc. rewrite R, W. exact K.
  - destruct (msi_lock_GI d t _ _ _ _ _ _ K K1 E2) as [G2 PL]. destruct (msi_lock_shape _ _ _ _ _ _ _ E2) as [ST SH].
    eapply wr_pend_G; [| | |exact H]; [exact G2|exact R|]. intros F b PB.
    destruct SH as [(_ & -> & SI)|(F' & _)]; [|congruence]. cbn in PB. inv PB. rewrite ST. exact SI.
Qed.

Lemma cc_write_cycle_G : forall mem i c addrs data i' c' r, GI i (d ++ v3_cc c :: t) -> K1' i (map v_sum (d ++ v3_cc c :: t)) ->
  c_rd c = RStart -> FetchI i id c -> cc_write_cycle mem i id c addrs data = Ok (i', c', r) -> G3Res i' c'.
Proof.
  intros mem i c addrs data i' c' r K K1 R [_ FI] H. unfold cc_write_cycle in H. unfold v3_cc, cur_post, cur_pend, cur_ev in K, K1.
  rewrite R in K, K1. destruct (c_wr c) eqn:E.
  - eapply wr_start_G; eauto.
  - eapply wr_pend_G; [exact K|exact R| |exact H]. intros ->. exact FI.
  - eapply wr_fetch_G; eauto.
  - eapply wr_evict_G; [|exact R|exact H]. destruct pending; exact K.
  - eapply wr_l1_G; eauto.
Qed.

End CoreG.
