(* C06 - the three-level hierarchy of proc/mvp8-0: the per-core MSI machine of
   Msi/Protocol.v (unchanged, imported) + a shared L3 between the L1s and main
   memory, read off proc/mvp8-0/{cc,msi,mmu}.go and proc/comp/cache.go.

   State (st3): `core` is the state of Msi/Protocol.v - its field `mem` is now
   MAIN MEMORY -, plus
     l3q   the bases of the lines of the shared comp.LRUCache, most recently
           used first (LRUCache.lines; Get moves a line to the front),
     l3d   their contents, per L1-sized line (an L3 line of w bytes covers the
           L1 lines k with grp w k = base; L1 lines are smaller than L3 lines:
           64 / 128 bytes in the code),
     l3w   msi.l3Write (line pending write = dirty), by L3 base,
     l3c   the outstanding L3 commands of msi.commands (l3Evict / l3WriteBack):
           issuing core, L3 base, write-back?,
     ax    per core, where the miss path of coRead / coWrite stands between
           "pendings done" and GetSubCacheLine,
     hist  ghost: the completed writes (core, line, value), newest first.
   The next level of an L1 line l is `next s l`: the L3 copy when L3 holds the
   line, main memory otherwise; `view s` is the two-level state whose next
   level is that function.

   Transitions (label3), by code site:
     K_core lab     every transition of Msi/Protocol.v that does not touch the
                    next level (locks, fill, settle, done, l1Evict, flush):
                    lifted unchanged
     K_fetch_l3     isAddressInL3 + l3.GetSubCacheLine (cc.go 230-232, 331-333;
                    coSyncReadFromL1 / coSyncWriteToL1 285, 386): the L1-sized
                    part of the L3 line is the fetched value
     K_mem_fetch    AS CODED: mmu.fetchCacheLine(addr, l3CacheLineSize) (251, 354):
                    the L3 line is copied out of main memory when the miss STARTS
     K_push         AS CODED: pushLineToL3 (260, 363) of that copy, MemoryAccess +
                    L3Access cycles later; when L3 then holds more than `cap`
                    lines, PushLineWithEvictionWarning names the LAST line as
                    victim WITHOUT removing it and evictL3ExtraCacheLine sends
                    the requesting core a command whose kind is fixed now from
                    msi.l3Write (msi.go 292-299)
     K_l3cmd_done   coSnoop cases l3Evict / l3WriteBack (cc.go 100-112, 159-186)
     K_refill       REPAIRED: memory is read, the line pushed and the victim
                    (written back when dirty at that moment) removed in one step
     K_wb_done      coSnoop case l1WriteBack (113-158): into L3 when L3 holds
                    the line (writeToL3: l3WriteNotify), else to main memory
     K_export       cacheController.writeBack (496-521), same data path
     K_l3_flush     CPU.l3WriteBack (cpu.go 274-285): an L3 line is copied to memory

   `rep = false` is the code as it is (K_mem_fetch / K_push / K_l3cmd_done);
   `rep = true` the minimally repaired refill (K_refill).  Not modelled: the
   per-line mutex msi.l3Lock (it only delays pushes of one line; leaving it
   out adds interleavings), latencies ("eventually"), the wait of coWrite for
   its own L3 victim command (a guard; leaving it out adds interleavings). *)
From Coq Require Import List ZArith Lia Bool Arith.
From Maj Require Import Msi.Protocol.
Import ListNotations.
Open Scope Z_scope.

(* the L3 line (base) of an L1 line, for L3 lines of w bytes *)
Definition grp (w : Z) (l : line) : line := l - l mod w.

Inductive aux :=
| ANone
| AMemFetched (snap : line -> val)   (* the copy of main memory taken by mmu.fetchCacheLine *)
| APushed.                           (* pushLineToL3 done; next: GetSubCacheLine *)

Definition wr_event := (nat * line * val)%type.
Definition l3cmd := (nat * line * bool)%type.

Record st3 := {
  core : st;
  ax : nat -> aux;
  l3q : list line;
  l3d : line -> val;
  l3w : line -> bool;
  l3c : list l3cmd;
  hist : list wr_event
}.

Definition set_mem (b : st) (m : line -> val) : st :=
  {| ms := ms b; ph := ph b; cm := cm b; l1 := l1 b; mem := m; rc := rc b; wc := wc b |}.
Definition set_ph (b : st) (i : nat) (p : phase) : st :=
  {| ms := ms b; ph := upd (ph b) i p; cm := cm b; l1 := l1 b; mem := mem b; rc := rc b; wc := wc b |}.

Definition inq (b : line) (q : list line) : bool := existsb (Z.eqb b) q.
Definition del (b : line) (q : list line) : list line := filter (fun x => negb (Z.eqb x b)) q.
(* LRUCache.Get: a hit moves the line to the front *)
Definition touch (b : line) (q : list line) : list line := if inq b q then b :: del b q else q.

Definition in_l3 (w : Z) (s : st3) (l : line) : bool := inq (grp w l) (l3q s).
(* the next level of the L1 line l *)
Definition next (w : Z) (s : st3) (l : line) : val := if in_l3 w s l then l3d s l else mem (core s) l.
(* the two-level state the cores see *)
Definition view (w : Z) (s : st3) : st := set_mem (core s) (next w s).

(* main memory after the L3 line b was written to it *)
Definition wb_group (w : Z) (s : st3) (b : line) : line -> val :=
  fun k => if Z.eqb (grp w k) b then l3d s k else mem (core s) k.

(* ghost history *)
Definition hist_after (lab : label) (h : list wr_event) : list wr_event :=
  match lab with
  | L_settle_wr i l v | L_settle_upg i l v | L_done_ownwr i l v => (i, l, v) :: h
  | _ => h
  end.
(* the last value written to line l (the initial contents when none) *)
Fixpoint lastw (m0 : line -> val) (h : list wr_event) (l : line) : val :=
  match h with
  | [] => m0 l
  | (_, k, v) :: t => if Z.eqb k l then v else lastw m0 t l
  end.

(* the transitions of Msi/Protocol.v that do not read or write the next level *)
Definition core_lab (lab : label) : bool :=
  match lab with
  | L_fetch_rd _ _ | L_fetch_wr _ _ | L_cmd_writeback_done _ _ | L_export _ _ => false
  | _ => true
  end.

Definition cmd3_eqb (a b : l3cmd) : bool :=
  match a, b with (i, x, k), (j, y, k') => Nat.eqb i j && Z.eqb x y && Bool.eqb k k' end.
(* msi.sendNewL3MSICommand: an equal outstanding command is reused *)
Definition add_cmd (c : l3cmd) (l : list l3cmd) : list l3cmd := if existsb (cmd3_eqb c) l then l else c :: l.
Definition del_cmd (c : l3cmd) (l : list l3cmd) : list l3cmd := filter (fun x => negb (cmd3_eqb x c)) l.

Definition is_pushed (a : aux) : bool := match a with APushed => true | _ => false end.

Inductive label3 :=
| K_core (lab : label)
| K_fetch_l3 (i : nat) (l : line)
| K_mem_fetch (i : nat) (l : line)
| K_push (i : nat) (l : line)
| K_refill (i : nat) (l : line)
| K_l3cmd_done (i : nat) (b : line) (wb : bool)
| K_wb_done (j : nat) (l : line)
| K_export (i : nat) (l : line)
| K_l3_flush (b : line).

Section L3.
Variable N : nat.            (* cores *)
Variable g : bool.           (* Msi/Protocol.v: guarded lock transitions *)
Variable fm : flush_mode.
Variable rep : bool.         (* repaired L3 refill *)
Variable w : Z.              (* bytes of an L3 line (L1 line bases are byte addresses) *)
Variable cap : nat.          (* L3 capacity, in lines *)

(* K_fetch_l3: the line enters phase RdFetched / WrFetched with the L3 copy *)
Definition fetch_l3 (s : st3) (i : nat) (l : line) (p : phase) : st3 :=
  {| core := set_ph (core s) i p; ax := upd (ax s) i ANone;
     l3q := if is_pushed (ax s i) then l3q s else touch (grp w l) (l3q s);
     l3d := l3d s; l3w := l3w s; l3c := l3c s; hist := hist s |}.

(* K_push AS CODED *)
Definition push_coded (s : st3) (i : nat) (l : line) (snap : line -> val) : st3 :=
  if in_l3 w s l
  then {| core := core s; ax := upd (ax s) i APushed; l3q := touch (grp w l) (l3q s);
          l3d := l3d s; l3w := l3w s; l3c := l3c s; hist := hist s |}
  else let q' := grp w l :: l3q s in
       let vic := last q' 0 in
       {| core := core s; ax := upd (ax s) i APushed; l3q := q';
          l3d := fun k => if Z.eqb (grp w k) (grp w l) then snap k else l3d s k;
          l3w := l3w s;
          l3c := if Nat.ltb cap (length q') then add_cmd (i, vic, l3w s vic) (l3c s) else l3c s;
          hist := hist s |}.

(* K_refill REPAIRED: victim (the last line, when L3 is full) written back if
   dirty and removed; the new line is read from memory at this moment *)
Definition refill (s : st3) (l : line) : st3 :=
  let q := l3q s in
  let full := Nat.leb cap (length q) in
  let vic := last q 0 in
  let m1 := if full && l3w s vic then wb_group w s vic else mem (core s) in
  {| core := set_mem (core s) m1; ax := ax s;
     l3q := grp w l :: (if full then del vic q else q);
     l3d := fun k => if Z.eqb (grp w k) (grp w l) then m1 k else l3d s k;
     l3w := if full then updl (l3w s) vic false else l3w s;
     l3c := l3c s; hist := hist s |}.

(* coSnoop case l3Evict: EvictCacheLine (result ignored) + l3ReleaseWriteNotify *)
Definition l3_evict (s : st3) (i : nat) (b : line) : st3 :=
  {| core := core s; ax := ax s; l3q := del b (l3q s); l3d := l3d s; l3w := updl (l3w s) b false;
     l3c := del_cmd (i, b, false) (l3c s); hist := hist s |}.
(* coSnoop case l3WriteBack: writeToMemory + EvictCacheLine + l3ReleaseWriteNotify
   (the Go code panics "memory address should exist" when the line is not in L3) *)
Definition l3_writeback (s : st3) (i : nat) (b : line) : st3 :=
  {| core := set_mem (core s) (wb_group w s b); ax := ax s; l3q := del b (l3q s); l3d := l3d s;
     l3w := updl (l3w s) b false; l3c := del_cmd (i, b, true) (l3c s); hist := hist s |}.

(* a line value goes to the next level of core state b': writeToL3 (+ the Get
   of isAddressInL3) when L3 holds the line, writeToMemory otherwise *)
Definition store_next (s : st3) (b' : st) (l : line) (v : val) : st3 :=
  if in_l3 w s l
  then {| core := b'; ax := ax s; l3q := touch (grp w l) (l3q s); l3d := updl (l3d s) l v;
          l3w := updl (l3w s) (grp w l) true; l3c := l3c s; hist := hist s |}
  else {| core := set_mem b' (updl (mem b') l v); ax := ax s; l3q := l3q s; l3d := l3d s; l3w := l3w s;
          l3c := l3c s; hist := hist s |}.

(* the core state after the snoop write-back command of (j, l) completed, memory aside *)
Definition wb_core (b : st) (j : nat) (l : line) : st :=
  {| ms := upd2 (ms b) j l I; ph := ph b; cm := upd2 (cm b) j l NoCmd; l1 := upd2 (l1 b) j l None;
     mem := mem b; rc := rc b; wc := wc b |}.

Inductive step3 : st3 -> label3 -> st3 -> Prop :=
| s3_core s lab b' : core_lab lab = true -> step N g fm (core s) lab b' ->
    step3 s (K_core lab)
      {| core := b'; ax := ax s; l3q := l3q s; l3d := l3d s; l3w := l3w s; l3c := l3c s;
         hist := hist_after lab (hist s) |}
| s3_fetch_rd i l s : (i < N)%nat -> ph (core s) i = RdWait l -> others_not_M N (core s) i l ->
    in_l3 w s l = true -> (ax s i = ANone \/ ax s i = APushed) ->
    step3 s (K_fetch_l3 i l) (fetch_l3 s i l (RdFetched l (l3d s l)))
| s3_fetch_wr i l s : (i < N)%nat -> ph (core s) i = WrWait l -> others_I N (core s) i l ->
    in_l3 w s l = true -> (ax s i = ANone \/ ax s i = APushed) ->
    step3 s (K_fetch_l3 i l) (fetch_l3 s i l (WrFetched l (l3d s l)))
| s3_mem_fetch i l s : rep = false -> (i < N)%nat ->
    ((ph (core s) i = RdWait l /\ others_not_M N (core s) i l) \/
     (ph (core s) i = WrWait l /\ others_I N (core s) i l)) ->
    ax s i = ANone -> in_l3 w s l = false ->
    step3 s (K_mem_fetch i l)
      {| core := core s; ax := upd (ax s) i (AMemFetched (mem (core s))); l3q := l3q s; l3d := l3d s;
         l3w := l3w s; l3c := l3c s; hist := hist s |}
| s3_push i l snap s : rep = false -> (i < N)%nat ->
    (ph (core s) i = RdWait l \/ ph (core s) i = WrWait l) -> ax s i = AMemFetched snap ->
    step3 s (K_push i l) (push_coded s i l snap)
| s3_refill i l s : rep = true -> (i < N)%nat ->
    (ph (core s) i = RdWait l \/ ph (core s) i = WrWait l) -> in_l3 w s l = false ->
    step3 s (K_refill i l) (refill s l)
| s3_l3cmd_ev i b s : In (i, b, false) (l3c s) ->
    step3 s (K_l3cmd_done i b false) (l3_evict s i b)
| s3_l3cmd_wb i b s : In (i, b, true) (l3c s) -> In b (l3q s) ->
    step3 s (K_l3cmd_done i b true) (l3_writeback s i b)
| s3_wb_done j l v s : (j < N)%nat -> cm (core s) j l = Wb -> l1 (core s) j l = Some v ->
    step3 s (K_wb_done j l) (store_next s (wb_core (core s) j l) l v)
| s3_export i l v s : (i < N)%nat -> ms (core s) i l = M -> l1 (core s) i l = Some v ->
    step3 s (K_export i l) (store_next s (core s) l v)
| s3_l3_flush b s : In b (l3q s) ->
    step3 s (K_l3_flush b)
      {| core := set_mem (core s) (wb_group w s b); ax := ax s; l3q := l3q s; l3d := l3d s; l3w := l3w s;
         l3c := l3c s; hist := hist s |}.

Definition init3 (m0 : line -> val) : st3 :=
  {| core := init m0; ax := fun _ => ANone; l3q := []; l3d := fun _ => 0; l3w := fun _ => false;
     l3c := []; hist := [] |}.

Inductive reach3 (m0 : line -> val) : st3 -> Prop :=
| reach3_init : reach3 m0 (init3 m0)
| reach3_step s k s' : reach3 m0 s -> step3 s k s' -> reach3 m0 s'.

Inductive trace3 : st3 -> list label3 -> st3 -> Prop :=
| t3_nil s : trace3 s [] s
| t3_cons s k s1 t s2 : step3 s k s1 -> trace3 s1 t s2 -> trace3 s (k :: t) s2.

End L3.
