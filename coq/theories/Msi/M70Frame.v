(* Frame lemmas for the cycle-level model of MVP-7.0 (Mvp70.v): the pipeline (front end, write units, the
   parts of the execute units that are not calls of the cache controller) never changes main memory
   (m_mem) nor the MSI directory (w_i); the execute-unit functions are decomposed so that the calls of
   cc_read_cycle / cc_write_cycle are isolated. *)
From Coq Require Import ZArith List Bool Lia.
From Maj Require Import Base.Outcome Base.GoInt Base.GoTypes Isa.Spec Isa.Seq.
From Maj Require Import Gen.Latency Gen.RiscTables Gen.Opcodes Comp.Cache Comp.Rat Mvp.Mvp12 Mvp.Mvp3 Mvp.Mvp5 Mvp.Mvp60 Mvp.Mvp63 Mvp.Mvp63Proofs Mvp.Mvp70 Mvp.Mvp70Proofs.
Import ListNotations. Open Scope Z_scope.

(* ------------------------------------------------------------------ *)
(* 1. primitives                                                        *)
(* ------------------------------------------------------------------ *)

Lemma set_wbus_mem : forall m b, m_mem (set_wbus m b) = m_mem m.
Proof. reflexivity. Qed.
Lemma set_bu_mem : forall m b, m_mem (set_bu m b) = m_mem m.
Proof. reflexivity. Qed.
Lemma set_cbus_mem : forall m b, m_mem (set_cbus m b) = m_mem m.
Proof. reflexivity. Qed.
Lemma set_dbus_mem : forall m b, m_mem (set_dbus m b) = m_mem m.
Proof. reflexivity. Qed.
Lemma set_fu_mem : forall m b, m_mem (set_fu m b) = m_mem m.
Proof. reflexivity. Qed.
Lemma set_l1i_mem : forall m b, m_mem (set_l1i m b) = m_mem m.
Proof. reflexivity. Qed.
Lemma set_du_mem : forall m a b, m_mem (set_du m a b) = m_mem m.
Proof. reflexivity. Qed.
Lemma set_sb_mem : forall m a b, m_mem (set_sb m a b) = m_mem m.
Proof. reflexivity. Qed.
Lemma del_pending6_mem : forall m r w, m_mem (del_pending6 m r w) = m_mem m.
Proof. reflexivity. Qed.
Lemma add_pending6_mem : forall m r w, m_mem (add_pending6 m r w) = m_mem m.
Proof. reflexivity. Qed.

Lemma set_forward3_mem : forall x pc reg v, m_mem (x_m (set_forward3 x pc reg v)) = m_mem (x_m x).
Proof. reflexivity. Qed.
Lemma set_pcb3_mem : forall x b, m_mem (x_m (set_pcb3 x b)) = m_mem (x_m x).
Proof. reflexivity. Qed.
Lemma set_chan3_mem : forall x c, m_mem (x_m (set_chan3 x c)) = m_mem (x_m x).
Proof. reflexivity. Qed.
Lemma set_ebus3_mem : forall x b, m_mem (x_m (set_ebus3 x b)) = m_mem (x_m x).
Proof. reflexivity. Qed.
Lemma set_rats3_mem : forall x c t, m_mem (x_m (set_rats3 x c t)) = m_mem (x_m x).
Proof. reflexivity. Qed.
Lemma set_pend3_mem : forall x p, m_mem (x_m (set_pend3 x p)) = m_mem (x_m x).
Proof. reflexivity. Qed.
Lemma set_prev3_mem : forall x p, m_mem (x_m (set_prev3 x p)) = m_mem (x_m x).
Proof. reflexivity. Qed.
Lemma set_next3_mem : forall x n, m_mem (x_m (set_next3 x n)) = m_mem (x_m x).
Proof. reflexivity. Qed.
Lemma set_os3_mem : forall x b, m_mem (x_m (set_os3 x b)) = m_mem (x_m x).
Proof. reflexivity. Qed.
Lemma set_seq3_mem : forall x s, m_mem (x_m (set_seq3 x s)) = m_mem (x_m x).
Proof. reflexivity. Qed.
Lemma set_m_mem : forall x m, m_mem (x_m (set_m x m)) = m_mem m.
Proof. reflexivity. Qed.
Lemma wbus_connect3_mem : forall x cycle, m_mem (x_m (wbus_connect3 x cycle)) = m_mem (x_m x).
Proof. reflexivity. Qed.
Lemma fu_reset3_mem : forall x pc, m_mem (x_m (fu_reset3 x pc)) = m_mem (x_m x).
Proof. reflexivity. Qed.
Lemma rat_rollback3_mem : forall ord cycle x s, m_mem (x_m (rat_rollback3 ord cycle x s)) = m_mem (x_m x).
Proof. reflexivity. Qed.
Lemma rat_commit3_mem : forall ord cycle x, m_mem (x_m (rat_commit3 ord cycle x)) = m_mem (x_m x).
Proof. reflexivity. Qed.
Lemma bu_resolved3_mem : forall x pc pcTo, m_mem (x_m (bu_resolved3 x pc pcTo)) = m_mem (x_m x).
Proof. reflexivity. Qed.
Lemma bu_assert3_mem : forall x r, m_mem (x_m (bu_assert3 x r)) = m_mem (x_m x).
Proof.
  intros. unfold bu_assert3.
  destruct (InstructionType_IsUnconditionalBranch _).
  - destruct (btb_get _ _); reflexivity.
  - destruct (InstructionType_IsConditionalBranch _); reflexivity.
Qed.

(* trivial facts about w7 *)
Lemma w_mem_set_wi : forall w i, w_mem (set_wi w i) = w_mem w.
Proof. reflexivity. Qed.
Lemma w_i_set_wi : forall w i, w_i (set_wi w i) = i.
Proof. reflexivity. Qed.
Lemma w_i_set_wx : forall w x, w_i (set_wx w x) = w_i w.
Proof. reflexivity. Qed.
Lemma w_mem_set_wx : forall w x, w_mem (set_wx w x) = m_mem (x_m x).
Proof. reflexivity. Qed.
Lemma w_i_set_wmem : forall w m, w_i (set_wmem w m) = w_i w.
Proof. reflexivity. Qed.
Lemma w_mem_set_wmem : forall w m, w_mem (set_wmem w m) = m.
Proof. reflexivity. Qed.

(* ------------------------------------------------------------------ *)
(* 3. write units                                                       *)
(* ------------------------------------------------------------------ *)

Lemma wu_cycle7_mem : forall x u before x' u', wu_cycle7 x u before = Ok (x', u') -> m_mem (x_m x') = m_mem (x_m x).
Proof.
  intros x u before x' u' H. unfold wu_cycle7 in H.
  split_hyp H; try discriminate; inversion H; subst; reflexivity.
Qed.

Lemma wus_cycle7_mem : forall wus x before x' wus', wus_cycle7 x wus before = Ok (x', wus') -> m_mem (x_m x') = m_mem (x_m x).
Proof.
  induction wus as [|u t IH]; intros x before x' wus' H; simpl in H.
  - inversion H; reflexivity.
  - apply bind_ok in H as ([x1 u1] & E1 & H). apply bind_ok in H as ([x2 t'] & E2 & H).
    inversion H; subst. apply wu_cycle7_mem in E1. apply IH in E2. simpl in *. congruence.
Qed.

(* ------------------------------------------------------------------ *)
(* 2. the front end                                                     *)
(* ------------------------------------------------------------------ *)

Lemma du_loop3_mem : forall q app cycle ret pbr cbus x ret' pbr' q' cbus' x',
  du_loop3 q app cycle ret pbr cbus x = Ok (ret', pbr', q', cbus', x') -> m_mem (x_m x') = m_mem (x_m x).
Proof.
  induction q as [|pc q IH]; intros app cycle ret pbr cbus x ret' pbr' q' cbus' x' H; simpl in H.
  - inversion H; reflexivity.
  - destruct (nlen6 app <=? Z.quot pc 4); [inversion H; reflexivity|].
    destruct (Z.quot pc 4 <? 0); [discriminate|].
    destruct (nth_error app (Z.to_nat (Z.quot pc 4))) as [i|]; [|discriminate].
    destruct (InstructionType_IsUnconditionalBranch (instr_InstructionType i)); [inversion H; reflexivity|].
    destruct (instr_InstructionType i =? Ret); [inversion H; reflexivity|].
    apply IH in H. exact H.
Qed.

Lemma du_cycle3_mem : forall app cycle x x', du_cycle3 app cycle x = Ok x' -> m_mem (x_m x') = m_mem (x_m x).
Proof.
  intros app cycle x x' H. unfold du_cycle3 in H.
  destruct (m_dret (x_m x)); [inversion H; reflexivity|].
  destruct (m_dpbr (x_m x)); [inversion H; reflexivity|].
  destruct (du_loop3 _ _ _ _ _ _ _) as [[[[[ret pbr] q'] cbus'] x1]| |] eqn:E; simpl in H; try discriminate.
  inversion H; subst. reflexivity.
Qed.

Lemma push_or_stop3_mem : forall x cycle r stop p s r' x',
  push_or_stop3 x cycle r stop = (p, s, r', x') -> m_mem (x_m x') = m_mem (x_m x).
Proof.
  intros x cycle r stop p s r' x' H. unfold push_or_stop3, push_runner3 in H.
  destruct (negb (bb_canadd (x_ebus x))); inversion H; reflexivity.
Qed.

Lemma handle_runner3_mem : forall ord cycle x sk pb r p s r' x',
  handle_runner3 ord cycle x sk pb r = (p, s, r', x') -> m_mem (x_m x') = m_mem (x_m x).
Proof.
  intros ord cycle x sk pb r p s r' x' H. unfold handle_runner3 in H.
  destruct (_ && pb); [inversion H; subst; auto|].
  destruct (_ && _); [inversion H; subst; auto|].
  destruct (skipped_hazard3 sk (q_instr r)); [inversion H; subst; auto|].
  destruct (zlen (hazards_of x (q_instr r)) =? 0).
  - eapply push_or_stop3_mem; eauto.
  - destruct (should_forward3 ord cycle x r (hazards_of x (q_instr r))) as [[pr reg]|].
    + apply push_or_stop3_mem in H. exact H.
    + destruct (should_rename3 _).
      * eapply push_or_stop3_mem; eauto.
      * inversion H; subst; auto.
Qed.

Lemma after_push3_mem : forall x l r, m_mem (x_m (fst (after_push3 x l r))) = m_mem (x_m x).
Proof. intros. unfold after_push3. simpl. destruct (InstructionType_IsConditionalBranch _); reflexivity. Qed.

Lemma cu_pending3_mem : forall ord cycle ps kept l x st pend l' x',
  cu_pending3 ord cycle ps kept l x = (st, pend, l', x') -> m_mem (x_m x') = m_mem (x_m x).
Proof.
  induction ps as [|r t IH]; intros kept l x st pend l' x' H; simpl in H.
  - inversion H; subst; auto.
  - destruct (handle_runner3 ord cycle x (l_skipped l) (l_pbranch l) r) as [[[p s] r1] x1] eqn:EH.
    apply handle_runner3_mem in EH.
    destruct p.
    + destruct (after_push3 x1 l r1) as [x2 l2] eqn:EA.
      assert (HE : m_mem (x_m x2) = m_mem (x_m x1)) by (pose proof (after_push3_mem x1 l r1) as Q; rewrite EA in Q; exact Q).
      destruct s.
      * inversion H; subst. congruence.
      * apply IH in H. congruence.
    + destruct s.
      * inversion H; subst. auto.
      * apply IH in H. congruence.
Qed.

Lemma cu_incoming3_mem : forall ord cycle q pend l x q' pend' l' x',
  cu_incoming3 ord cycle q pend l x = (q', pend', l', x') -> m_mem (x_m x') = m_mem (x_m x).
Proof.
  induction q as [|r0 t IH]; intros pend l x q' pend' l' x' H; simpl in H.
  - destruct (pendingLength <=? zlen pend); inversion H; subst; auto.
  - destruct (pendingLength <=? zlen pend); [inversion H; subst; auto|].
    destruct (handle_runner3 ord cycle x (l_skipped l) (l_pbranch l) (r3_of r0)) as [[[p s] r1] x1] eqn:EH.
    apply handle_runner3_mem in EH.
    destruct p.
    + destruct (after_push3 x1 l r1) as [x2 l2] eqn:EA.
      assert (HE : m_mem (x_m x2) = m_mem (x_m x1)) by (pose proof (after_push3_mem x1 l r1) as Q; rewrite EA in Q; exact Q).
      destruct s.
      * inversion H; subst. congruence.
      * apply IH in H. congruence.
    + destruct s.
      * inversion H; subst. auto.
      * apply IH in H. congruence.
Qed.

Lemma cu_cycle3_mem : forall ord cycle x, m_mem (x_m (cu_cycle3 ord cycle x)) = m_mem (x_m x).
Proof.
  intros ord cycle x. unfold cu_cycle3.
  destruct (negb (bb_canadd (x_ebus x))); [reflexivity|].
  destruct (cu_pending3 ord cycle (x_pend x) [] (mk_cul [] [] false) x) as [[[st pend1] l1] x1] eqn:E1.
  apply cu_pending3_mem in E1.
  destruct st; [exact E1|].
  destruct (cu_incoming3 ord cycle (bb_q (m_cbus (x_m x1))) pend1 l1 x1) as [[[q' pend2] l2] x2] eqn:E2.
  apply cu_incoming3_mem in E2. cbn [set_prev3 set_pend3 set_m x_m set_cbus m_mem]. congruence.
Qed.

Lemma connected3_mem : forall x cycle, m_mem (x_m (connected3 x cycle)) = m_mem (x_m x).
Proof. reflexivity. Qed.

Lemma front3_mem : forall app ord cycle x x', front3 app ord cycle x = Ok x' -> m_mem (x_m x') = m_mem (x_m x).
Proof.
  intros app ord cycle x x' H. rewrite front3_eq in H.
  destruct (fu_cycle6 app cycle _ _ _) as [[[fu1 l1i1] dbus1]| |]; try discriminate H.
  destruct (du_cycle3 app cycle _) as [x1| |] eqn:ED; try discriminate H.
  injection H as H. subst x'.
  rewrite cu_cycle3_mem. apply du_cycle3_mem in ED. rewrite ED. reflexivity.
Qed.

(* ------------------------------------------------------------------ *)
(* 4. the hooks                                                         *)
(* ------------------------------------------------------------------ *)

Record hooks_frame (hk : hooks7) : Prop := mk_hooks_frame {
  hf_take : forall id w, w_i (fst (k_take hk id w)) = w_i w /\ w_mem (fst (k_take hk id w)) = w_mem w;
  hf_front : forall app ord cycle w w', k_front hk app ord cycle w = Ok w' -> w_i w' = w_i w /\ w_mem w' = w_mem w;
  hf_evict : forall i, k_evict hk i = i }.

Lemma hooks70_frame : hooks_frame hooks70.
Proof.
  constructor.
  - intros id w. cbn [hooks70 k_take].
    destruct (bb_get (x_ebus (w_x w))) as [ebus' [r|]]; split; reflexivity.
  - intros app ord cycle w w' H. cbn [hooks70 k_front] in H.
    apply bind_ok in H as (x1 & E & H). inversion H; subst.
    apply front3_mem in E. split; [reflexivity | exact E].
  - reflexivity.
Qed.

(* ------------------------------------------------------------------ *)
(* 5. the execute units                                                 *)
(* ------------------------------------------------------------------ *)

Definition wframe (w0 w : w7) : Prop := w_i w0 = w_i w /\ w_mem w0 = w_mem w.

Lemma wframe_refl : forall w, wframe w w.
Proof. intros; split; reflexivity. Qed.

Lemma wframe_set_wx : forall w x, m_mem (x_m x) = w_mem w -> wframe (set_wx w x) w.
Proof. intros w x H; split; [reflexivity | exact H]. Qed.

Lemma eu_write7_split : forall id w e addrs data w' e' o,
  eu_write7 id w e addrs data = Ok (w', e', o) ->
  exists i1 c1 done, cc_write_cycle (w_mem w) (w_i w) id (h_cc e) addrs data = Ok (i1, c1, done) /\
    w' = set_wi w i1 /\ h_cc e' = c1 /\ h_co e' = (if done then HNone else HWrite addrs data).
Proof.
  intros id w e addrs data w' e' o H. unfold eu_write7 in H.
  apply bind_ok in H as ([[i1 c1] done] & E & H). inversion H; subst.
  exists i1, c1, done. repeat split; auto.
Qed.

Lemma eu_run7_split : forall hk labels ord cycle id w e w' e' o,
  eu_run7 hk labels ord cycle id w e = Ok (w', e', o) ->
  (wframe w' w /\ h_cc e' = h_cc e /\ h_co e' = HNone) \/
  (exists w0 addrs data, wframe w0 w /\ eu_write7 id w0 (set_hco e HNone) addrs data = Ok (w', e', o)).
Proof.
  intros hk labels ord cycle id w e w' e' o H. unfold eu_run7 in H.
  destruct (h_runner e) as [r|]; [|discriminate].
  destruct (k_rr hk (w_x w) (q_pc r) (q_seq r)) as [rr sid].
  destruct (instr_Run _ _ _ _ _ _) as [exe| |]; try discriminate.
  - destruct (Return exe); [inversion H; subst; left; repeat split; reflexivity|].
    destruct (MemoryChange exe).
    + right. eexists _, _, _. split; [|exact H]. split; reflexivity.
    + left.
      split_hyp H; try discriminate; inversion H; subst; (split; [split|split]; reflexivity).
  - inversion H; subst; left; repeat split; reflexivity.
Qed.

Lemma eu_read7_split : forall hk labels ord cycle id w e addrs w' e' o,
  eu_read7 hk labels ord cycle id w e addrs = Ok (w', e', o) ->
  exists i1 c1 resp, cc_read_cycle (w_mem w) (w_i w) id (h_cc e) addrs = Ok (i1, c1, resp) /\
    match resp with
    | None => w' = set_wi w i1 /\ h_cc e' = c1 /\ h_co e' = HRead addrs
    | Some bytes => eu_run7 hk labels ord cycle id (set_wi w i1) (mk_eu7 HNone bytes (h_runner e) (h_seq e) c1) = Ok (w', e', o)
    end.
Proof.
  intros hk labels ord cycle id w e addrs w' e' o H. unfold eu_read7 in H.
  apply bind_ok in H as ([[i1 c1] resp] & E & H).
  exists i1, c1, resp. split; [exact E|].
  destruct resp; [exact H|]. inversion H; subst. repeat split; reflexivity.
Qed.

Lemma eu_prepare7_split : forall hk labels ord cycle id w e w' e' o,
  eu_prepare7 hk labels ord cycle id w e = Ok (w', e', o) ->
  (wframe w' w /\ h_cc e' = h_cc e /\ h_co e' = h_co e) \/
  (exists w0 e0, wframe w0 w /\ h_cc e0 = h_cc e /\ h_co e0 = h_co e /\
     (eu_run7 hk labels ord cycle id w0 (set_hco e0 HNone) = Ok (w', e', o) \/
      exists addrs, eu_read7 hk labels ord cycle id w0 e0 addrs = Ok (w', e', o))).
Proof.
  intros hk labels ord cycle id w e w' e' o H. unfold eu_prepare7 in H.
  destruct (negb (bb_canadd _)); [inversion H; subst; left; repeat split; reflexivity|].
  destruct (h_runner e) as [r|]; [|discriminate].
  match type of H with context [match ?rcv with Some _ => _ | None => _ end] =>
    destruct rcv as [[x0 r1]|] eqn:ER end; [|inversion H; subst; left; repeat split; reflexivity].
  assert (HX : m_mem (x_m x0) = w_mem w).
  { destruct (q_recv r); [|inversion ER; reflexivity].
    destruct (aget z (x_chan (w_x w))); [|discriminate]. inversion ER; reflexivity. }
  destruct (k_rr hk _ _ _) as [rr sid].
  right.
  exists (set_wx w (bu_assert3 x0 (q_r r1))), (mk_eu7 (h_co e) (h_memory e) (Some r1) (h_seq e) (h_cc e)).
  split; [apply wframe_set_wx; rewrite bu_assert3_mem; exact HX|].
  split; [reflexivity|]. split; [reflexivity|].
  destruct (instr_MemoryRead _ _ _) as [|a0 at0].
  - left. exact H.
  - right. eexists. exact H.
Qed.

Print Assumptions front3_mem.
Print Assumptions eu_prepare7_split.
Print Assumptions hooks70_frame.
