(* C06 - non-vacuity of the three-level machine with the REPAIRED refill (L1
   protocol as coded): with an L3 of one line, core 0 writes line 0 (refill,
   fetch from L3, fill, settle), core 1 reads it (core 0's Modified copy is
   written back INTO L3, which becomes dirty; core 1 is served from L3), then
   core 0 misses on line 128: the refill writes the dirty victim back to
   memory and removes it.  Core 1 still holds line 0 Shared; its next level is
   now main memory, which holds the written value. *)
From Coq Require Import List ZArith Lia Bool Arith.
From Maj Require Import Msi.Protocol Msi.Invariant Msi.L3Protocol Msi.L3Invariant.
Import ListNotations.
Open Scope Z_scope.

Definition example3_trace : list label3 :=
  [ K_core (L_lock_I 0 0); K_refill 0 0; K_fetch_l3 0 0; K_core (L_fill_wr 0 0 None); K_core (L_settle_wr 0 0 5);
    K_core (L_rlock_I 1 0); K_wb_done 0 0; K_fetch_l3 1 0; K_core (L_fill_rd 1 0 None); K_core (L_settle_rd 1 0);
    K_core (L_rlock_I 0 128); K_refill 0 128; K_fetch_l3 0 128; K_core (L_fill_rd 0 128 None);
    K_core (L_settle_rd 0 128) ].

Ltac side :=
  simpl; try reflexivity; try lia; try exact Logic.I;
  try (unfold lock_guard; discriminate);
  try (intros ? ? ?; simpl; first [discriminate | reflexivity]); auto.
Ltac others :=
  let j := fresh "j" in intros j ? ?; destruct j as [|[|[|j]]]; simpl; try discriminate; try reflexivity; try lia.
Ltac kc := eapply t3_cons; [apply s3_core; [reflexivity|econstructor; side]|simpl].
Ltac kwb v0 := eapply t3_cons; [eapply s3_wb_done with (v := v0); side|simpl].
Ltac krf := eapply t3_cons;
  [eapply s3_refill; [reflexivity|lia|first [left; reflexivity|right; reflexivity]|reflexivity]|simpl].
Ltac kfr := eapply t3_cons;
  [eapply s3_fetch_rd; [lia|reflexivity|others|reflexivity|first [left; reflexivity|right; reflexivity]]|simpl].
Ltac kfw := eapply t3_cons;
  [eapply s3_fetch_wr; [lia|reflexivity|others|reflexivity|first [left; reflexivity|right; reflexivity]]|simpl].

Example reach3_example :
  exists s, trace3 2 false NoFlush true 128 1 (init3 (fun l => l)) example3_trace s /\
            ms (core s) 0%nat 0 = I /\ ms (core s) 1%nat 0 = S /\ l1 (core s) 1%nat 0 = Some 5 /\
            ms (core s) 0%nat 128 = S /\ l3q s = [128] /\ in_l3 128 s 0 = false /\ mem (core s) 0 = 5 /\
            l3w s 0 = false /\ lastw (fun l => l) (hist s) 0 = 5.
Proof.
  eexists. split.
  - unfold example3_trace. kc. krf. kfw. kc. kc. kc. kwb 5. kfr. kc. kc. kc. krf. kfr. kc. kc. apply t3_nil.
  - vm_compute. repeat split; reflexivity.
Qed.
